SPECIFICATION Spec
CONSTANTS
  Family = "@FAMILY@"
  N = @N@
  GR = @GR@
  GC = @GC@
  Delta = @DELTA@
  Heur = "@HEUR@"
  Mode = "@MODE@"
  Seed = @SEED@
  NSamples = @NSAMPLES@
  Rounds = @ROUNDS@
  Moves = "@MOVES@"
  Emit = @EMIT@
INVARIANTS @INVS@
CHECK_DEADLOCK FALSE
