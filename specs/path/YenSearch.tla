------------------------------ MODULE YenSearch ------------------------------
(* "Yen's k shortest paths omit no cheaper path" on RECORDED graphs of 10..40   *)
(* nodes, far beyond the enumeration bound of ShortestPath.tla (<= 5 nodes).     *)
(*                                                                              *)
(* Input: the "graph" and "yen" events of trace.ndjson (the file judged by       *)
(* ShortestPathTrace.tla, which has already accepted that every returned path is *)
(* a simple path s -> t of the graph, that they are distinct, non-decreasing,    *)
(* start with an optimal path and respect k and the cost bound).  What is left   *)
(* of the contract                                                              *)
(*     YenKShortestPaths(g, k, cost, s, t) = the k shortest loopless paths with  *)
(*     weight <= shortest + cost (k < 0: only the cost bound)                    *)
(* is completeness:                                                             *)
(*   - the routine stopped because it had k paths (k > 0, n = k): every simple    *)
(*     path s -> t that is strictly cheaper than the last returned one must have  *)
(*     been returned (ties with the last one may be broken either way);          *)
(*   - it stopped earlier (n < k or k < 0): every simple path of weight           *)
(*     <= shortest + cost must have been returned.                               *)
(* The state machine enumerates the simple paths from s whose weight plus the    *)
(* exact remaining distance to t (Bellman fixed point of PathDefs on the reversed *)
(* graph) stays within that limit: every simple path s -> t within the limit is   *)
(* reached, each once.                                                          *)
(*   TLC exhausts the state space and NoMissingPath holds                        *)
(*       ==> no recorded answer omits a path it had to contain.                  *)
(*   NoMissingPath is violated ==> the final state's path is a simple path of     *)
(*       instance `inst` within the limit that the routine did not return.       *)
(* Instances with an unbounded limit (cost = +Inf and fewer than k paths) are    *)
(* judged only if Unbounded is TRUE (sparse graphs: the enumeration is then every *)
(* simple path s -> t).                                                          *)
EXTENDS PathDefs, Json

CONSTANTS Unbounded,   \* also judge instances whose limit is +infinity
          Skip         \* event indices already decided by an earlier run

TraceLog == ndJsonDeserialize("trace.ndjson")

GraphIdx == {i \in DOMAIN TraceLog : TraceLog[i].op = "graph"}
YenIdx == {i \in DOMAIN TraceLog : TraceLog[i].op = "yen" /\ i \notin Skip}
GraphOf(i) == LET before == {j \in GraphIdx : j < i} IN CHOOSE j \in before : \A m \in before : m <= j

BIG == 50000000

\* everything about one graph event, evaluated once per graph
GPre == TLCEval([g \in GraphIdx |->
    LET e == TraceLog[g]
        n == e.n
        in == [v \in 1 .. n |-> {<<x[1], x[2]>> : x \in Rng(e.in[v])}]
    IN [n |-> n,
        \* outW[u]: set of <<v, w>> for the edges u -> v
        outW |-> TLCEval([u \in 1 .. n |-> UNION {{<<v, x[2]>> : x \in {y \in in[v] : y[1] = u}} : v \in 1 .. n}]),
        pred |-> TLCEval([v \in 1 .. n |-> {x[1] : x \in in[v]}]),
        nonneg |-> \A v \in 1 .. n : \A x \in in[v] : x[2] >= 0]])

RECURSIVE PathW(_, _, _)
PathW(outW, p, i) == IF i >= Len(p) THEN 0
                     ELSE (CHOOSE x \in outW[p[i]] : x[1] = p[i + 1])[2] + PathW(outW, p, i + 1)

\* everything about one Yen call
Pre == TLCEval([i \in YenIdx |->
    LET e == TraceLog[i]
        G == GPre[GraphOf(i)]
        n == G.n
        \* distances TO t: the fixed point on the reversed graph (its in-lists are G's out-lists)
        dT == RowB(n, G.outW, G.pred, e.t)
        np == Len(e.ps)
        sd == dT[e.s]
        lastW == IF np = 0 THEN 0 ELSE PathW(G.outW, e.ps[np], 1)
        byK == e.k > 0 /\ np = e.k
        lim == IF ~IsFin(sd) THEN -1
               ELSE IF byK THEN lastW - 1
               ELSE IF e.c = 99 THEN BIG ELSE sd[2] + e.c
    IN [s |-> e.s, t |-> e.t, outW |-> G.outW, dT |-> TLCEval(dT), lim |-> lim,
        ret |-> Rng(e.ps),
        judged |-> /\ G.nonneg /\ ~e.panic /\ IsFin(sd) /\ e.s # e.t
                   /\ (lim < BIG \/ Unbounded)]])

Judged == {i \in YenIdx : Pre[i].judged}
\* announces what a clean exhaustion of this run proves (the run counts only if TLC then reports
\* "Model checking completed. No error has been found.")
ASSUME PrintT("YEN-SEARCH-INSTANCES " \o ToString(Cardinality(Judged)))

VARIABLES inst,   \* the Yen call (index of its event in the trace file)
          path,   \* a simple path from its source
          wt      \* weight of path
vars == <<inst, path, wt>>

Init == inst \in Judged /\ path = <<Pre[inst].s>> /\ wt = 0
Next == /\ Last(path) # Pre[inst].t
        /\ \E x \in Pre[inst].outW[Last(path)] :
              /\ x[1] \notin Rng(path)
              /\ IsFin(Pre[inst].dT[x[1]])
              /\ wt + x[2] + Pre[inst].dT[x[1]][2] <= Pre[inst].lim
              /\ path' = Append(path, x[1])
              /\ wt' = wt + x[2]
        /\ UNCHANGED inst
Spec == Init /\ [][Next]_vars

NoMissingPath == (Last(path) = Pre[inst].t /\ wt <= Pre[inst].lim) => path \in Pre[inst].ret
=============================================================================
