------------------------------ MODULE DStarLite ------------------------------
(* Specification of what gonum's dynamic.DStarLite must deliver, as a world /  *)
(* robot state machine.  A world is a fixed set of directed edges, each with a *)
(* base cost in {1,2} and a level in {0,1}; the current cost of an edge is      *)
(* base + Delta * level, so costs are only ever >= the base cost.  The robot    *)
(* stands at `here` and wants to reach `goal`.                                  *)
(*   Step         moves along an optimal edge of the CURRENT world (any one);   *)
(*                it is refused exactly at the goal (worlds are strongly        *)
(*                connected, so the goal is always reachable)                   *)
(*   UpdateWorld  flips the level of one or two edges                           *)
(*   MoveTo(n)    "moves to n in the world graph": here' = n.  The robot follows   *)
(*                its plan: n is the node j optimal edges ahead (j = 0: it stays,  *)
(*                Ahead); nothing else changes.  The planner is not told a cost,   *)
(*                so the world and its distances are the same before and after.    *)
(* After every action Path() must be a chain of optimal edges from here to the  *)
(* goal whose weight is the true distance in the current world.  The module     *)
(* says nothing about g/rhs/keys: any correct planner refines it.               *)
(*                                                                              *)
(* Family "gate": worlds with ZERO-weight edges.  Every world has one designated *)
(* goal ZG; an edge into or out of ZG may have base cost 0 (a free gate), a free  *)
(* two-way gate ZG <-> GU is planted in most worlds (a zero-weight cycle through  *)
(* the goal), every other edge has base cost 1 or 2.  A level flip raises a free  *)
(* gate from 0 to Delta or drops it back to 0, so costs next to the goal rise and *)
(* drop in every single / double change.  Following optimal edges no longer      *)
(* strictly decreases the distance; OptReach states what remains true: off the    *)
(* goal the optimal edges form an acyclic graph, so every chain of optimal steps  *)
(* reaches the goal within N-1 steps.  Scripts use the goal ZG only ("goals").    *)
(* (gonum documents only "panics on a negative weight"; the published algorithm  *)
(* assumes 0 < c.  Zero-weight edges between nodes other than the goal are        *)
(* exercised by the code->spec recorder, class NoZeroCycleOffGoal of               *)
(* ShortestPathTrace.tla, where the planner of the unchanged tree is not exact.)   *)
(*                                                                              *)
(* The heuristic handed to the planner is provided by the specification:        *)
(*   "base"       h(a,b) = true distance a -> b in the base world (all levels   *)
(*                0): admissible in every world of the family and consistent    *)
(*   "manhattan"  (grids) Manhattan distance times the minimum base cost        *)
(* TLC checks HeuristicOK (h(a,a) = 0, triangle inequality, h(u,v) <= cost of    *)
(* every edge in every world visited) and OptProgress (following optimal edges   *)
(* strictly decreases the distance, hence reaches the goal with the true weight).*)
(*                                                                              *)
(* Roles.  Mode = "tables": Init ranges over pseudo-random small worlds and the  *)
(* invariant EmitTables prints, for each, the distance / optimal-edge tables of  *)
(* the world and of EVERY single and double edge-cost change; the harness runs   *)
(* plan -> Step k times -> UpdateWorld(change) -> Path -> Steps to the goal for   *)
(* every (start, goal, k, change).  Mode = "machine": the state machine proper;  *)
(* updates are chosen deliberately (raise an edge on the current optimal plan,   *)
(* lower an edge off the plan) by a pseudo-random but deterministic rule, Step    *)
(* stays nondeterministic; TLC explores every behaviour and prints every          *)
(* transition, and the harness requires the real planner's run to be a path of    *)
(* that state graph.                                                              *)
(*                                                                              *)
(* How the robot moves (constant Moves).  "step": by Step only.  "move": every   *)
(* epoch (the moves between two UpdateWorld calls) is MoveTo^a Step^b with a     *)
(* pseudo-random a, each MoveTo 0, 1 or 2 optimal edges ahead.  "mixed": every    *)
(* move is a Step or a MoveTo by a pseudo-random rule, so that a MoveTo may       *)
(* follow a Step inside one epoch.  The specification makes no difference        *)
(* between the three: where the robot stands is all that matters for what Path() *)
(* and Step() must answer.  (The planner of the unchanged tree does make one:    *)
(* see C13.py, stage "MoveTo after Step".)                                        *)
(* Tables role: the scripts of the harness move the same way - a script is        *)
(* plan -> moves (Step / MoveTo along Path() / MoveTo to any node followed at     *)
(* once by the update) -> UpdateWorld(change) -> Path -> moves to the goal, and   *)
(* every answer is judged by look-up in the printed tables: MoveTo(n) leaves the  *)
(* robot at n (Here), Path() from n is a chain of optimal edges of the current    *)
(* world of the weight d[n][goal], Step is refused exactly at the goal.           *)
EXTENDS PathDefs, Json

CONSTANTS Family,     \* "small": N nodes, pseudo-random edge set;  "grid": GR x GC 4-neighbour grid;
                      \* "gate": as "small" plus zero-weight edges at a designated goal
          N, GR, GC,
          Delta,      \* cost of a raised edge = base + Delta
          Heur,       \* "base" | "manhattan"
          Mode,       \* "tables" | "machine"
          Seed, NSamples,
          Rounds,     \* machine: number of UpdateWorld rounds per behaviour
          Moves,      \* machine: "step" | "move" | "mixed" (how the robot moves, see above)
          Emit

VARIABLES idx,        \* which pseudo-random world
          wes, wbase, \* its edges and base costs (constant along a behaviour; kept as variables so
                      \* that TLC evaluates them once)
          lvl,        \* current level of every edge (sequence aligned with ES)
          here, goal,
          i,          \* number of actions so far
          round,      \* number of updates so far
          left,       \* moves still to make before the next update
          mleft       \* Moves = "move": how many of them are MoveTo calls (they come first)
vars == <<idx, wes, wbase, lvl, here, goal, i, round, left, mleft>>

(****************************** pseudo-random ******************************)
Hash(a, b, c) == (a * 1009 + (b % 1000) * 10007 + c * 101 + (a % 89) * (c % 83) * 37 + 12345) % 10039
Rnd(a, c, m) == (Hash(a, Seed, c) \div 3) % m

(********************************* worlds **********************************)
NN == IF Family = "grid" THEN GR * GC ELSE N
Row(v) == (v - 1) \div GC
Col(v) == (v - 1) % GC
Abs(x) == IF x < 0 THEN -x ELSE x
Manh(u, v) == Abs(Row(u) - Row(v)) + Abs(Col(u) - Col(v))
Adjacent(u, v) == Abs(Row(u) - Row(v)) + Abs(Col(u) - Col(v)) = 1
AllPairs == SortedSeq({u * 100 + v : <<u, v>> \in {q \in (1 .. NN) \X (1 .. NN) :
                 q[1] # q[2] /\ (Family = "grid" => Adjacent(q[1], q[2]))}})
\* family "gate": the designated goal, the other end of the planted two-way gate
ZG(k) == 1 + Rnd(k, 77, NN)
GU(k) == LET r == 1 + Rnd(k, 78, NN - 1) IN IF r >= ZG(k) THEN r + 1 ELSE r
Planted(k, code) == Family = "gate" /\ code \in {ZG(k) * 100 + GU(k), GU(k) * 100 + ZG(k)}
\* digit of pair j in world k: 0 absent (small families only), 1/2 base 1 low/high, 3/4 base 2 low/high
Digit(k, j) == IF Family = "grid" THEN 1 + Rnd(k, j, 4)
               ELSE LET d == Rnd(k, j, 5)
                    IN IF d = 0 /\ Planted(k, AllPairs[j]) THEN 1 + Rnd(k, 500 + j, 4) ELSE d
\* family "gate": an edge into or out of the goal is free (base cost 0) with probability 1/2, the
\* planted gate (both directions alike) with probability 2/3
ZeroBase(k, e) == /\ Family = "gate"
                  /\ (e[1] = ZG(k) \/ e[2] = ZG(k))
                  /\ IF Planted(k, e[1] * 100 + e[2]) THEN Rnd(k, 79, 3) # 0
                     ELSE Rnd(k, 2000 + e[1] * 100 + e[2], 2) = 0
ESof(k) == LET on == {j \in 1 .. Len(AllPairs) : Digit(k, j) > 0}
               ks == SortedSeq({AllPairs[j] : j \in on})
           IN [j \in 1 .. Len(ks) |-> <<ks[j] \div 100, ks[j] % 100>>]
DigitOfEdge(k, e) == Digit(k, CHOOSE j \in 1 .. Len(AllPairs) : AllPairs[j] = e[1] * 100 + e[2])
BaseOf(k) == LET es == ESof(k) IN [j \in 1 .. Len(es) |-> IF ZeroBase(k, es[j]) THEN 0
                                                        ELSE IF DigitOfEdge(k, es[j]) <= 2 THEN 1 ELSE 2]
Lvl0Of(k) == LET es == ESof(k) IN [j \in 1 .. Len(es) |-> IF DigitOfEdge(k, es[j]) \in {2, 4} THEN 1 ELSE 0]

Cost(base, lv) == [j \in 1 .. Len(base) |-> base[j] + Delta * lv[j]]
InL(es, c)  == [v \in 1 .. NN |-> {<<es[j][1], c[j]>> : j \in {x \in 1 .. Len(es) : es[x][2] = v}}]
OutL(es)    == [u \in 1 .. NN |-> {es[j][2] : j \in {x \in 1 .. Len(es) : es[x][1] = u}}]
\* all-pairs true weights of the world with costs c (Bellman fixed point of PathDefs)
TWof(es, c) == LET in == InL(es, c) out == OutL(es)
               IN TLCEval([s \in 1 .. NN |-> RowB(NN, in, out, s)])
AllFinite(tw) == \A s \in 1 .. NN : \A t \in 1 .. NN : IsFin(tw[s][t])
Ints(tw) == [s \in 1 .. NN |-> [t \in 1 .. NN |-> tw[s][t][2]]]
StronglyConnected(k) == LET es == ESof(k) IN AllFinite(TWof(es, BaseOf(k)))

\* distances to one goal t: the fixed point on the reversed graph
DGof(es, c, t) == LET in  == [v \in 1 .. NN |-> {<<es[j][2], c[j]>> : j \in {x \in 1 .. Len(es) : es[x][1] = v}}]
                      out == [u \in 1 .. NN |-> {es[j][1] : j \in {x \in 1 .. Len(es) : es[x][2] = u}}]
                      row == RowB(NN, in, out, t)
                  IN TLCEval([v \in 1 .. NN |-> row[v][2]])
OptG(es, c, dg, t) == [v \in 1 .. NN |->
    IF v = t THEN {} ELSE {es[j][2] : j \in {x \in 1 .. Len(es) : es[x][1] = v /\ c[x] + dg[es[x][2]] = dg[v]}}]

\* optimal successors of v towards t
OptOf(es, c, d, t) == [v \in 1 .. NN |->
    IF v = t THEN {} ELSE {es[j][2] : j \in {x \in 1 .. Len(es) : es[x][1] = v /\ c[x] + d[es[x][2]][t] = d[v][t]}}]

(******************************* heuristic *********************************)
MinBase(base) == Min({base[j] : j \in 1 .. Len(base)})
HTable(es, base) ==
    IF Heur = "manhattan"
    THEN [a \in 1 .. NN |-> [b \in 1 .. NN |-> MinBase(base) * (Abs(Row(a) - Row(b)) + Abs(Col(a) - Col(b)))]]
    ELSE Ints(TWof(es, base))

HeuristicOKFor(es, c, h) ==
    /\ \A a \in 1 .. NN : h[a][a] = 0
    /\ \A a, b, x \in 1 .. NN : h[a][x] <= h[a][b] + h[b][x]
    /\ \A j \in 1 .. Len(es) : h[es[j][1]][es[j][2]] <= c[j]
OptProgressFor(es, c, d) ==
    \A t \in 1 .. NN : LET o == OptOf(es, c, d, t)
                      IN \A v \in 1 .. NN : v # t => o[v] # {} /\ \A u \in o[v] : d[u][t] < d[v][t]

\* with zero-weight edges: every node has an optimal successor and no chain of optimal edges
\* towards t returns to where it started, so any such chain reaches t within NN - 1 steps
OptReachFor(es, c, d, t) ==
    LET o == OptOf(es, c, d, t)
    IN \A v \in 1 .. NN : v # t => o[v] # {} /\ v \notin Closure(o, o[v])

(***************************** state machine *******************************)
ES == wes
BASE == wbase
CUR == Cost(BASE, lvl)
D == Ints(TWof(ES, CUR))          \* tables role only
DG == DGof(ES, CUR, goal)         \* machine role: distances to the goal

Flip(lv, S) == [j \in 1 .. Len(lv) |-> IF j \in S THEN 1 - lv[j] ELSE lv[j]]

\* edges on some optimal plan from `from` to t / the deliberate change: raise one low edge on the
\* plan and lower one high edge off the plan (whatever of the two exists), chosen pseudo-randomly
RECURSIVE PlanNodes(_, _)
PlanNodes(o, S) == LET S1 == S \cup UNION {o[v] : v \in S} IN IF S1 = S THEN S ELSE PlanNodes(o, S1)
Pick(S, r) == LET q == SortedSeq(S) IN q[1 + (r % Len(q))]
Deliberate(es, c, lv, dg, from, t, salt) ==
    LET o   == OptG(es, c, dg, t)
        pn  == PlanNodes(o, {from})
        onp == {j \in 1 .. Len(es) : es[j][1] \in pn /\ es[j][2] \in o[es[j][1]]}
        up  == {j \in onp : lv[j] = 0}
        dn  == {j \in 1 .. Len(es) : j \notin onp /\ lv[j] = 1}
        r1  == Rnd(idx, 500 + salt, 9973)
        r2  == Rnd(idx, 700 + salt, 9967)
        any == Pick(1 .. Len(es), r1)
    IN IF up = {} /\ dn = {} THEN {any}
       ELSE (IF up = {} THEN {} ELSE {Pick(up, r1)}) \cup (IF dn = {} THEN {} ELSE {Pick(dn, r2)})

StepsBefore(k, r) == 1 + Rnd(k, 900 + r, IF Moves = "step" THEN 2 ELSE 3)
\* Moves = "move": the number of MoveTo calls at the start of an epoch of m moves
MoveTos(k, r, m) == IF Moves = "move" THEN Rnd(k, 1100 + r, m + 1) ELSE 0

\* the nodes j optimal edges ahead of v (the walk ends at the goal, which has no optimal successor)
RECURSIVE Ahead(_, _, _)
Ahead(o, v, j) == IF j = 0 \/ o[v] = {} THEN {v} ELSE UNION {Ahead(o, u, j - 1) : u \in o[v]}

ChangeRec(es, base, lv, S) == {<<es[j][1], es[j][2], base[j] + Delta * lv[j]>> : j \in S}
StateRec(lv, h, g, ii) == [i |-> ii, here |-> h, lv |-> lv]
Tables(es, c, t) == LET dg == DGof(es, c, t) IN [d |-> dg, opt |-> OptG(es, c, dg, t)]

InitMachine ==
    /\ idx \in {k \in 1 .. NSamples : StronglyConnected(k)}
    /\ wes = ESof(idx) /\ wbase = BaseOf(idx)
    /\ lvl = Lvl0Of(idx)
    /\ goal = 1 + Rnd(idx, 301, NN)
    /\ here = LET far == IF Family = "grid"
                          THEN LET m == CHOOSE x \in 0 .. GR + GC : /\ \E a \in 1 .. NN : Manh(a, goal) = x
                                                                     /\ \A b \in 1 .. NN : Manh(b, goal) <= x
                               IN {v \in 1 .. NN : Manh(v, goal) >= m - 1 /\ v # goal}
                          ELSE (1 .. NN) \ {goal}
               IN Pick(far, Rnd(idx, 302, 9949))
    /\ i = 0 /\ round = 0
    /\ left = StepsBefore(idx, 0)
    /\ mleft = MoveTos(idx, 0, left)
    /\ Emit => PrintT(ToJson([k |-> "init", idx |-> idx, n |-> NN, goal |-> goal,
                   e |-> {<<ES[j][1], ES[j][2], CUR[j]>> : j \in 1 .. Len(ES)},
                   h |-> HTable(ES, BASE), s |-> StateRec(lvl, here, goal, 0),
                   tab |-> Tables(ES, CUR, goal)]))

\* the kind of the next move: "s" Step, "m" MoveTo;  how far ahead a MoveTo goes (0, 1 or 2 edges)
Kind == IF Moves = "move" THEN (IF mleft > 0 THEN "m" ELSE "s")
        ELSE IF Moves = "mixed" THEN (IF Rnd(idx, 1300 + i, 2) = 1 THEN "m" ELSE "s")
        ELSE "s"
JAhead == LET r == Rnd(idx, 1200 + i, 6) IN IF r = 0 THEN 0 ELSE IF r <= 3 THEN 1 ELSE 2

Step == /\ here # goal /\ left > 0 /\ Kind = "s"
        /\ \E u \in OptG(ES, CUR, DG, goal)[here] :
             /\ here' = u
             /\ i' = i + 1 /\ left' = left - 1
             /\ UNCHANGED <<idx, wes, wbase, lvl, goal, round, mleft>>
             /\ Emit => PrintT(ToJson([k |-> "t", idx |-> idx, act |-> "step", j |-> 1, ch |-> {},
                           s |-> StateRec(lvl, here, goal, i), t |-> StateRec(lvl, u, goal, i + 1)]))

\* MoveTo(n) for a node n that lies JAhead optimal edges ahead: the robot stands at n afterwards
MoveTo == /\ here # goal /\ left > 0 /\ Kind = "m"
          /\ \E u \in Ahead(OptG(ES, CUR, DG, goal), here, JAhead) :
               /\ here' = u
               /\ i' = i + 1 /\ left' = left - 1
               /\ mleft' = IF mleft > 0 THEN mleft - 1 ELSE 0
               /\ UNCHANGED <<idx, wes, wbase, lvl, goal, round>>
               /\ Emit => PrintT(ToJson([k |-> "t", idx |-> idx, act |-> "move", j |-> JAhead, ch |-> {},
                             s |-> StateRec(lvl, here, goal, i), t |-> StateRec(lvl, u, goal, i + 1)]))

\* a refused Step at the goal ends the behaviour
UpdateWorld ==
    /\ here # goal /\ left = 0 /\ round < Rounds
    /\ LET S  == Deliberate(ES, CUR, lvl, DG, here, goal, round)
           l2 == Flip(lvl, S)
       IN /\ lvl' = l2
          /\ round' = round + 1 /\ i' = i + 1
          /\ left' = StepsBefore(idx, round + 1)
          /\ mleft' = MoveTos(idx, round + 1, left')
          /\ UNCHANGED <<idx, wes, wbase, here, goal>>
          /\ Emit => PrintT(ToJson([k |-> "t", idx |-> idx, act |-> "update", j |-> 0, ch |-> ChangeRec(ES, BASE, l2, S),
                        s |-> StateRec(lvl, here, goal, i), t |-> StateRec(l2, here, goal, i + 1),
                        tab |-> Tables(ES, Cost(BASE, l2), goal)]))

\* after the last round the robot walks to the goal
Finish == /\ here # goal /\ left = 0 /\ round = Rounds
          /\ left' = NN /\ mleft' = MoveTos(idx, Rounds + 1, 3)
          /\ UNCHANGED <<idx, wes, wbase, lvl, here, goal, i, round>>

InitTables == /\ idx \in {k \in 1 .. NSamples : StronglyConnected(k)}
              /\ wes = ESof(idx) /\ wbase = BaseOf(idx)
              /\ lvl = Lvl0Of(idx) /\ here = 1 /\ goal = 1 /\ i = 0 /\ round = 0 /\ left = 0 /\ mleft = 0

Init == IF Mode = "tables" THEN InitTables ELSE InitMachine
Next == IF Mode = "tables" THEN UNCHANGED vars ELSE (Step \/ MoveTo \/ UpdateWorld \/ Finish)
Spec == Init /\ [][Next]_vars

(******************************** theorems *********************************)
\* costs never drop below the base cost, so a heuristic that is consistent and dominated by the
\* base costs (checked in the initial state of every behaviour) is admissible in every later world
TypeOK == \A j \in 1 .. Len(lvl) : lvl[j] \in {0, 1}
HeuristicOK == (i = 0) => HeuristicOKFor(ES, BASE, HTable(ES, BASE))
OptProgress == IF Mode = "tables" THEN OptProgressFor(ES, CUR, D)
               ELSE LET o == OptG(ES, CUR, DG, goal)
                    IN \A v \in 1 .. NN : v # goal => o[v] # {} /\ \A u \in o[v] : DG[u] < DG[v]
\* a node j optimal edges ahead lies on a shortest path: the distance to the goal drops by exactly the
\* weight walked, so a MoveTo along the plan never leaves the set of nodes from which following optimal
\* edges reaches the goal with the true weight (machine role; zero-weight families: distance never grows)
AheadOK == Mode = "machine" =>
    LET o == OptG(ES, CUR, DG, goal)
    IN \A j \in 0 .. 2 : \A u \in Ahead(o, here, j) : DG[u] <= DG[here] /\ (u = goal \/ o[u] # {})
\* (tables role) the same for every single and double change of the world
ChangeSets == LET m == Len(ES) IN {{a} : a \in 1 .. m} \cup {{a, b} : a, b \in 1 .. m}
AllChangesOK == Mode = "tables" =>
    \A S \in ChangeSets : LET c == Cost(BASE, Flip(lvl, S))
                          IN OptProgressFor(ES, c, Ints(TWof(ES, c)))

\* family "gate" (tables role): the class of the worlds and what replaces OptProgress
Goals == IF Family = "gate" THEN {ZG(idx)} ELSE 1 .. NN
GateClassOK == Family = "gate" =>
    /\ \A j \in 1 .. Len(ES) : BASE[j] = 0 => (ES[j][1] = ZG(idx) \/ ES[j][2] = ZG(idx))
    /\ \A j \in 1 .. Len(ES) : BASE[j] \in {0, 1, 2}
OptReach == Mode = "tables" => \A t \in Goals : OptReachFor(ES, CUR, D, t)
AllChangesReach == Mode = "tables" =>
    \A S \in ChangeSets : LET c == Cost(BASE, Flip(lvl, S))
                              d == Ints(TWof(ES, c))
                          IN \A t \in Goals : OptReachFor(ES, c, d, t)

(************************** tables role (generator) ************************)
EmitTables ==
  (Emit /\ Mode = "tables") =>
    LET full(c) == LET d == Ints(TWof(ES, c))
                   IN [d |-> d, opt |-> [t \in 1 .. NN |-> OptOf(ES, c, d, t)]]
    IN PrintT(ToJson([k |-> "w", idx |-> idx, n |-> NN, goals |-> Goals,
         e   |-> {<<ES[j][1], ES[j][2], CUR[j]>> : j \in 1 .. Len(ES)},
         h   |-> HTable(ES, BASE),
         tab |-> full(CUR),
         changes |-> {[ch |-> ChangeRec(ES, BASE, Flip(lvl, S), S), tab |-> full(Cost(BASE, Flip(lvl, S)))] : S \in ChangeSets}]))
=============================================================================
