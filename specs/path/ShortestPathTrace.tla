-------------------------- MODULE ShortestPathTrace --------------------------
(* R3: judges an ndjson log of real runs of gonum's graph/path routines on     *)
(* graphs far beyond the enumeration bound of ShortestPath.tla (to 60 nodes).   *)
(* A "graph" event carries adjacency lists; the specification computes the true *)
(* weight matrix with the Bellman fixed point RowB of PathDefs.tla (proved      *)
(* equal to the definition by ShortestPath.tla) and every later event - the     *)
(* answers of one routine - is accepted only if every logged weight equals the  *)
(* true weight, every logged path is a real walk from source to target whose    *)
(* edge weights sum to it, negative-cycle flags and negative-edge panics occur  *)
(* exactly when the specification says, all-shortest-path answers are exactly   *)
(* the shortest simple paths (counted on the tight-edge DAG), and Yen's answers *)
(* are loopless, distinct, non-decreasing, start with an optimal path and       *)
(* respect k and the cost bound.                                                *)
(*                                                                              *)
(* A* with a heuristic (events "aheur" / "astar"): a heuristic table is only     *)
(* usable after the specification has CERTIFIED it on the current graph with its *)
(* own arithmetic (h(t,t) = 0, h >= 0, h(u,t) <= w(u,v) + h(v,t) on every edge:   *)
(* consistent, hence admissible); rows of A* answers (one source, every target)  *)
(* must then equal the true weights, each with a real walk of that weight.  The  *)
(* open-queue / decrease-key machinery of the routines (aStarQueue, Dijkstra's   *)
(* priority queue, Yen's candidate heap) is unexported; it is bound through these *)
(* rows: whatever the queue does, every answer must be the fixed point.          *)
(*                                                                              *)
(* D* Lite histories: Path() after every action, Step(), MoveTo(n) (event "dmove":  *)
(* Here() is n afterwards; the claimed domain of the histories is kept in gEp).     *)
(* D* Lite worlds (events "graph" with r = "dstar-..."): the class a world claims *)
(* to belong to is checked here (GateWorld: zero-weight edges only at the goal;   *)
(* NoZeroCycleOffGoal: every zero-weight cycle passes through the goal).         *)
EXTENDS PathDefs, Json, TLCExt

\* KnownCut = TRUE relaxes exactly one clause (see PathOKAlt); it is used only for a second pass
\* that classifies a rejection, never for acceptance.
CONSTANT KnownCut

TraceLog == ndJsonDeserialize("trace.ndjson")

VARIABLES l,      \* cursor
          gn,     \* node count of the current graph (nodes 1..gn)
          gIn,    \* gIn[v]: set of <<u, w>>
          gOut,   \* gOut[u]: set of successors
          gTW,    \* gTW[s][t]: true weights (extended integers)
          gH,     \* D* Lite: the heuristic table handed to the current planner (<<>>: none)
          gAH,    \* A*: the heuristic table certified for the current graph (<<>>: none)
          gEp     \* D* Lite: what the robot did since the planner last planned (creation / UpdateWorld):
                  \* "fresh" nothing, "moved" only MoveTo calls, "stepped" a Step, "jumped" a MoveTo to a
                  \* node that need not lie on the plan
tvars == <<l, gn, gIn, gOut, gTW, gH, gAH, gEp>>

Ev == TraceLog[l]

(****************************** walks and weights ***************************)
HasEdge(u, v) == u \in 1 .. gn /\ v \in 1 .. gn /\ v \in gOut[u]
W(u, v) == (CHOOSE x \in gIn[v] : x[1] = u)[2]
WalkL(p) == /\ Len(p) >= 1 /\ p[1] \in 1 .. gn
            /\ \A i \in 1 .. Len(p) - 1 : HasEdge(p[i], p[i + 1])
RECURSIVE PWL(_, _)
PWL(p, i) == IF i >= Len(p) THEN 0 ELSE W(p[i], p[i + 1]) + PWL(p, i + 1)
Simple(p) == Cardinality(Rng(p)) = Len(p)

\* a (path, weight) answer for s -> t when the true weight is e
PathOK(s, t, p, e) == IF IsFin(e)
                      THEN /\ WalkL(p) /\ p[1] = s /\ Last(p) = t /\ PWL(p, 1) = e[2]
                      ELSE Len(p) = 0

\* ShortestAlts.To and AllShortest.Between pick predecessors at random and cut zero-weight cycles
\* out of the walk.  Their answers are judged like every other path (PathOK).  In the classifying
\* pass (KnownCut) a path of these two methods on a graph that has a zero-weight cycle is only
\* required to start at s and end at t.
ZeroCycleGraph == \E x, y \in 1 .. gn : /\ x # y /\ IsFin(gTW[x][y]) /\ IsFin(gTW[y][x])
                                        /\ gTW[x][y][2] + gTW[y][x][2] = 0
PathOKAlt(s, t, p, e) == IF KnownCut /\ ZeroCycleGraph /\ IsFin(e)
                         THEN Len(p) >= 1 /\ p[1] = s /\ Last(p) = t
                         ELSE PathOK(s, t, p, e)

NegEdgeFrom(s) == \E u \in 1 .. gn : gTW[s][u] # PInf /\ \E x \in gIn[u] : x[2] < 0 /\ gTW[s][x[1]] # PInf
AnyNegEdge == \E v \in 1 .. gn : \E x \in gIn[v] : x[2] < 0
AllPositive == \A v \in 1 .. gn : \A x \in gIn[v] : x[2] > 0
NegCycleFrom(s) == \E t \in 1 .. gn : gTW[s][t] = NInf
AnyNegCycle == \E s \in 1 .. gn : gTW[s][s] = NInf

(********************** number of shortest paths (DAG) **********************)
\* With strictly positive weights the tight edges (dist[u] + w = dist[v]) form a DAG ordered by
\* distance; the number of shortest paths s -> v is the sum over tight predecessors, evaluated in
\* order of increasing distance (saturating at 1000000).
RECURSIVE SumOver(_, _)
SumOver(f, S) == IF S = {} THEN 0 ELSE LET x == CHOOSE y \in S : TRUE IN f[x] + SumOver(f, S \ {x})
Sat(x) == IF x > 1000000 THEN 1000000 ELSE x
CountShortest(s) ==
    LET row == gTW[s]
        fin == {v \in 1 .. gn : IsFin(row[v])}
        ord == SortedSeq({row[v][2] * 1000 + v : v \in fin})
        RECURSIVE Fold(_, _)
        Fold(i, cnt) ==
            IF i > Len(ord) THEN cnt
            ELSE LET v == ord[i] % 1000
                     tp == {x[1] : x \in {y \in gIn[v] : IsFin(row[y[1]]) /\ row[y[1]][2] + y[2] = row[v][2]}}
                     c == IF v = s THEN 1 ELSE Sat(SumOver(cnt, tp))
                 IN Fold(i + 1, [cnt EXCEPT ![v] = c])
    IN Fold(1, [v \in 1 .. gn |-> 0])

(*********************** classes of D* Lite worlds **************************)
\* zero-weight edges only into or out of the goal (free gates at the goal)
GateWorld(n, in, goal) == \A v \in 1 .. n : \A x \in in[v] : x[2] = 0 => (v = goal \/ x[1] = goal)
\* every zero-weight cycle passes through the goal: the zero-weight edges between the other
\* nodes form an acyclic graph
NoZeroCycleOffGoal(n, in, goal) ==
    LET zout == [u \in 1 .. n |-> {v \in (1 .. n) \ {goal} : u # goal /\ \E x \in in[v] : x[1] = u /\ x[2] = 0}]
    IN \A u \in (1 .. n) \ {goal} : u \notin Closure(zout, zout[u])

\* tags of the worlds a living planner is told about (UpdateWorld); every other graph event
\* starts afresh
DLater == {"dstar-world", "dstar-gate", "dstar-zero"}

(********************************** events **********************************)
Graph ==
    /\ Ev.op = "graph"
    /\ gn' = Ev.n
    /\ gIn' = [v \in 1 .. Ev.n |-> {<<x[1], x[2]>> : x \in Rng(Ev.in[v])}]
    /\ gOut' = [u \in 1 .. Ev.n |-> Rng(Ev.out[u])]
    \* the two lists describe the same edge set
    /\ \A v \in 1 .. Ev.n : \A x \in gIn'[v] : v \in gOut'[x[1]]
    /\ \A u \in 1 .. Ev.n : \A v \in gOut'[u] : \E x \in gIn'[v] : x[1] = u
    /\ gTW' = [s \in 1 .. Ev.n |-> RowB(Ev.n, gIn', gOut', s)]
    \* a new world of a living D* Lite planner: its heuristic must stay dominated by the edge costs
    /\ gH' = IF Ev.r \in DLater THEN gH ELSE <<>>
    /\ (Ev.r \in DLater /\ gH # <<>>) =>
          \A v \in 1 .. Ev.n : \A x \in gIn'[v] : gH[x[1]][v] <= x[2]
    /\ gAH' = <<>>
    /\ gEp' = "fresh"     \* a new world: a new planner, or UpdateWorld follows at once and plans again
    \* D* Lite worlds with zero-weight edges state their class and their goal
    /\ Ev.r \in {"dstar-gate0", "dstar-gate"} => GateWorld(Ev.n, gIn', Ev.goal)
    /\ Ev.r \in {"dstar-zero0", "dstar-zero"} => NoZeroCycleOffGoal(Ev.n, gIn', Ev.goal)

RowMatches(s, w, p) == \A t \in 1 .. gn :
    /\ w[t] = gTW[s][t]
    /\ IF Ev.alt THEN PathOKAlt(s, t, p[t], gTW[s][t]) ELSE PathOK(s, t, p[t], gTW[s][t])

\* single-source trees: DijkstraFrom / DijkstraAllFrom panic iff a negative edge is reachable;
\* BellmanFord* report ok = FALSE iff a negative cycle is reachable (then only "unreachable stays
\* +inf" is still promised)
Sssp ==
    /\ Ev.op = "sssp"
    /\ Ev.s \in 1 .. gn
    /\ IF Ev.fam = "dijkstra"
       THEN /\ Ev.panic = NegEdgeFrom(Ev.s)
            /\ ~Ev.panic => RowMatches(Ev.s, Ev.w, Ev.p)
       ELSE /\ ~Ev.panic
            /\ Ev.ok = ~NegCycleFrom(Ev.s)
            /\ Ev.ok => RowMatches(Ev.s, Ev.w, Ev.p)
            /\ ~Ev.ok => \A t \in 1 .. gn : gTW[Ev.s][t] = PInf => Ev.w[t] = PInf
    /\ UNCHANGED <<gn, gIn, gOut, gTW, gH, gAH, gEp>>

\* point-to-point queries (DijkstraFromTo, AStar with the null heuristic): when a negative edge is
\* reachable a panic or any answer is allowed by the documentation
Pt ==
    /\ Ev.op = "pt"
    /\ Ev.s \in 1 .. gn /\ Ev.t \in 1 .. gn
    /\ ~NegEdgeFrom(Ev.s) => /\ ~Ev.panic
                             /\ Ev.w = gTW[Ev.s][Ev.t]
                             /\ PathOK(Ev.s, Ev.t, Ev.p, gTW[Ev.s][Ev.t])
    /\ UNCHANGED <<gn, gIn, gOut, gTW, gH, gAH, gEp>>

\* all-pairs: DijkstraAllPaths panics iff any negative edge; FloydWarshall / Johnson ok = FALSE iff
\* any negative cycle; FloydWarshall's weights stay valid (and -inf on affected pairs) even then
Apsp ==
    /\ Ev.op = "apsp"
    /\ IF Ev.fam = "dijkstra" THEN Ev.panic = AnyNegEdge /\ Ev.ok
       ELSE ~Ev.panic /\ Ev.ok = ~AnyNegCycle
    /\ (~Ev.panic /\ (Ev.ok \/ Ev.fam = "floyd")) =>
          /\ \A s \in 1 .. gn : \A t \in 1 .. gn : Ev.w[s][t] = gTW[s][t]
          /\ \A i \in DOMAIN Ev.pp :
                LET q == Ev.pp[i] e == gTW[q.s][q.t]
                IN IF e = NInf THEN Len(q.p) = 0 /\ q.w = NInf
                   ELSE q.w = e /\ PathOKAlt(q.s, q.t, q.p, e)
    /\ UNCHANGED <<gn, gIn, gOut, gTW, gH, gAH, gEp>>

\* all shortest paths s -> t (AllTo / AllBetween): exactly the shortest simple paths
All ==
    /\ Ev.op = "all"
    /\ LET e == gTW[Ev.s][Ev.t]
           ps == Rng(Ev.ps)
       IN /\ Ev.w = e
          /\ IF ~IsFin(e) THEN Len(Ev.ps) = 0
             ELSE /\ \A p \in ps : PathOK(Ev.s, Ev.t, p, e) /\ Simple(p)
                  /\ Cardinality(ps) = Len(Ev.ps)                  \* distinct
                  /\ Len(Ev.ps) >= 1
                  /\ AllPositive => Sat(Len(Ev.ps)) = CountShortest(Ev.s)[Ev.t]
    /\ UNCHANGED <<gn, gIn, gOut, gTW, gH, gAH, gEp>>

\* Yen: loopless, distinct, non-decreasing, first one optimal, within k and the cost bound
\* (cost code 99: unbounded).  "Omits no cheaper path" is judged only in the enumeration bound of
\* ShortestPath.tla.
Yen ==
    /\ Ev.op = "yen"
    /\ ~AnyNegEdge =>
        LET e == gTW[Ev.s][Ev.t]
            n == Len(Ev.ps)
            wt == [i \in 1 .. n |-> PWL(Ev.ps[i], 1)]
        IN /\ ~Ev.panic
           /\ IF ~IsFin(e) THEN n = 0
              ELSE /\ n >= 1
                   /\ Ev.k > 0 => n <= Ev.k
                   /\ \A i \in 1 .. n : LET p == Ev.ps[i]
                                       IN WalkL(p) /\ Simple(p) /\ p[1] = Ev.s /\ Last(p) = Ev.t
                   /\ Cardinality(Rng(Ev.ps)) = n
                   /\ wt[1] = e[2]
                   /\ \A i \in 1 .. n - 1 : wt[i] <= wt[i + 1]
                   /\ Ev.c # 99 => \A i \in 1 .. n : wt[i] <= e[2] + Ev.c
    /\ UNCHANGED <<gn, gIn, gOut, gTW, gH, gAH, gEp>>

\* A heuristic table for A*: h[v][t] estimates the weight v -> t.  Accepted only if the
\* specification can certify it on the current graph: zero at the target, never negative and
\* consistent along every edge.  A consistent heuristic with h(t,t) = 0 is admissible
\* (induction along a shortest path), so A* must return the true weight.
AHeur ==
    /\ Ev.op = "aheur"
    /\ Len(Ev.h) = gn
    /\ \A v \in 1 .. gn : Len(Ev.h[v]) = gn /\ Ev.h[v][v] = 0 /\ \A t \in 1 .. gn : Ev.h[v][t] >= 0
    /\ \A v \in 1 .. gn : \A x \in gIn[v] : \A t \in 1 .. gn : Ev.h[x[1]][t] <= x[2] + Ev.h[v][t]
    \* hence admissible wherever t is reachable (implied by the lines above; kept as a guard)
    /\ \A v \in 1 .. gn : \A t \in 1 .. gn : IsFin(gTW[v][t]) => Ev.h[v][t] <= gTW[v][t][2]
    /\ gAH' = Ev.h
    /\ UNCHANGED <<gn, gIn, gOut, gTW, gH, gEp>>

\* one row of A* answers: AStar(s, t, g, h).To(t) for every target t, heuristic kind hk:
\* "null" (NullHeuristic), "nil" (nil heuristic, graph without HeuristicCost), "table" (the
\* certified table as a function), "coster" (nil heuristic, the graph's HeuristicCost method
\* answers from the certified table).  Negative edges: the documentation allows a panic or any
\* answer.
AStarRow ==
    /\ Ev.op = "astar"
    /\ Ev.s \in 1 .. gn
    /\ Ev.hk \in {"null", "nil", "table", "coster"}
    /\ Ev.hk \in {"table", "coster"} => gAH # <<>>
    /\ ~NegEdgeFrom(Ev.s) =>
          /\ Len(Ev.w) = gn /\ Len(Ev.p) = gn /\ Len(Ev.panic) = gn
          /\ \A t \in 1 .. gn : /\ ~Ev.panic[t]
                                 /\ Ev.w[t] = gTW[Ev.s][t]
                                 /\ PathOK(Ev.s, t, Ev.p[t], gTW[Ev.s][t])
    /\ UNCHANGED <<gn, gIn, gOut, gTW, gH, gAH, gEp>>

(* D* Lite (graph/path/dynamic): the recorder logs the planner's world as a "graph" event after    *)
(* every UpdateWorld, the answer of Path() and every Step().  After every action Path() must be a    *)
(* real walk here -> goal in the current world of the true weight; Step returns false exactly at    *)
(* the goal or when the goal is unreachable, and otherwise moves along an optimal edge.             *)
\* a planner is created with the heuristic table h (integers): the specification accepts it only
\* if it is consistent (h(a,a) = 0, triangle inequality) and dominated by every edge cost of the
\* current world; later worlds are checked in Graph.  Under these conditions D* Lite must be exact.
DNew ==
    /\ Ev.op = "dnew"
    /\ Len(Ev.h) = gn
    /\ \A a \in 1 .. gn : Ev.h[a][a] = 0
    /\ \A a, b, c \in 1 .. gn : Ev.h[a][c] <= Ev.h[a][b] + Ev.h[b][c]
    /\ \A v \in 1 .. gn : \A x \in gIn[v] : Ev.h[x[1]][v] <= x[2]
    /\ gH' = Ev.h
    /\ gEp' = "fresh"
    /\ UNCHANGED <<gn, gIn, gOut, gTW, gAH>>

\* Domain of the recorded histories (stated here so that a recorder cannot leave it unnoticed): between
\* two plannings the robot moves by MoveTo* Step* (no MoveTo after a Step), and after a MoveTo to a node
\* that need not lie on the plan ("jump") nothing is asked before the next UpdateWorld.
DPath ==
    /\ Ev.op = "dpath"
    /\ gEp # "jumped"
    /\ ~Ev.panic
    /\ Ev.w = gTW[Ev.here][Ev.goal]
    /\ PathOK(Ev.here, Ev.goal, Ev.p, gTW[Ev.here][Ev.goal])
    /\ UNCHANGED <<gn, gIn, gOut, gTW, gH, gAH, gEp>>

DStep ==
    /\ Ev.op = "dstep"
    /\ gEp # "jumped"
    /\ ~Ev.panic
    /\ LET e == gTW[Ev.from][Ev.goal]
       IN /\ Ev.ret = (Ev.from # Ev.goal /\ IsFin(e))
          /\ Ev.ret => /\ HasEdge(Ev.from, Ev.here) /\ IsFin(gTW[Ev.here][Ev.goal])
                        /\ W(Ev.from, Ev.here) + gTW[Ev.here][Ev.goal][2] = e[2]
          /\ ~Ev.ret => Ev.here = Ev.from
    /\ gEp' = IF Ev.ret THEN "stepped" ELSE gEp
    /\ UNCHANGED <<gn, gIn, gOut, gTW, gH, gAH>>

\* MoveTo(n): "moves to n in the world graph" - Here() is n afterwards and nothing else changes (the
\* answers of Path() / Step() from n are judged by the events that follow).  kind "plan": the recorder
\* took n from the planner's Path(); the specification requires that n lies on a shortest path from the
\* old location to the goal (the old location itself included).  kind "jump": any node of the world.
OnPlan(u, n, t) == /\ IsFin(gTW[u][n]) /\ IsFin(gTW[n][t]) /\ IsFin(gTW[u][t])
                   /\ gTW[u][n][2] + gTW[n][t][2] = gTW[u][t][2]
DMove ==
    /\ Ev.op = "dmove"
    /\ gEp \in {"fresh", "moved"}
    /\ ~Ev.panic
    /\ Ev.from \in 1 .. gn /\ Ev.to \in 1 .. gn
    /\ Ev.from # Ev.goal          \* domain: the robot is not moved away from its goal
    /\ Ev.here = Ev.to
    /\ Ev.kind \in {"plan", "jump"}
    /\ Ev.kind = "plan" => OnPlan(Ev.from, Ev.to, Ev.goal)
    /\ gEp' = IF Ev.kind = "jump" THEN "jumped" ELSE "moved"
    /\ UNCHANGED <<gn, gIn, gOut, gTW, gH, gAH>>

TraceInit == l = 1 /\ gn = 0 /\ gIn = <<>> /\ gOut = <<>> /\ gTW = <<>> /\ gH = <<>> /\ gAH = <<>> /\ gEp = "fresh"
TraceNext == /\ l <= Len(TraceLog)
             /\ (Graph \/ Sssp \/ Pt \/ Apsp \/ All \/ Yen \/ AHeur \/ AStarRow \/ DNew \/ DPath \/ DStep \/ DMove)
             /\ l' = l + 1
TraceSpec == TraceInit /\ [][TraceNext]_tvars

Accepted ==
    LET d == TLCGet("stats").diameter IN
    IF d - 1 = Len(TraceLog) THEN PrintT("TRACE-ACCEPTED " \o ToString(Len(TraceLog)))
    ELSE /\ PrintT("TRACE-REJECTED at event " \o ToString(d) \o ": op=" \o ToString(TraceLog[d].op)
                   \o " r=" \o ToString(TraceLog[d].r))
         /\ FALSE
=============================================================================
