---------------------------- MODULE ShortestPath ----------------------------
(* Reference semantics of shortest paths on a finite weighted digraph with   *)
(* integer weights (graph/path of gonum).  The module shares nothing with    *)
(* gonum: the right answer is stated twice,                                   *)
(*   A  by definition: enumeration of all simple paths and simple cycles,     *)
(*   B  as the Bellman fixed point (|V|-1 relaxation rounds, nodes that still *)
(*      relax in round |V| and everything reachable from them are -infinity), *)
(* and TLC checks A = B (R1) on every graph of the bound together with the    *)
(* triangle inequality, "a shortest simple path exists iff the weight is      *)
(* finite" and the Johnson re-weighting lemma.  In the generator role (R2)    *)
(* TLC prints for every graph the complete expected answer of every query of  *)
(* the package (definition A); ShortestPathTrace.tla uses definition B to     *)
(* judge recorded runs on graphs far beyond the enumeration bound (R3).       *)
(*                                                                            *)
(* A graph is (nn, E): nodes 1..nn, E a function from ordered pairs of        *)
(* distinct nodes to an integer weight (an undirected graph is a symmetric    *)
(* E).  Extended integers are pairs: <<0,x>> finite, <<1,0>> +inf, <<2,0>>    *)
(* -inf.                                                                      *)
EXTENDS PathDefs, Json

CONSTANTS MinN, MaxN,   \* graphs on nodes 1..nn for nn \in MinN..MaxN
          Directed,     \* BOOLEAN
          WCodes,       \* set of naturals; the weight of code c is c - WOff
          WOff,
          Mode,         \* "all": every graph; "sample": NSamples pseudo-random graphs on MaxN nodes;
                        \* "ties": the tie-rich layered family (WCodes must hold 1, 2 and 5)
          Seed, NSamples,
          Shard, NShards,
          Emit          \* BOOLEAN: generator role

VARIABLES nn, dg        \* node count; dg[j] = 0: pair j absent, c > 0: pair j has the c-th weight
vars == <<nn, dg>>

(***************************** the graph of a case **************************)
WSeq == SortedSeq(WCodes)
B == Len(WSeq) + 1
PairSeq(k) == LET keys == SortedSeq({u * 100 + v : <<u, v>> \in
                              {q \in (1 .. k) \X (1 .. k) : IF Directed THEN q[1] # q[2] ELSE q[1] < q[2]}})
              IN [j \in 1 .. Len(keys) |-> <<keys[j] \div 100, keys[j] % 100>>]
NPairs(k) == IF Directed THEN k * (k - 1) ELSE (k * (k - 1)) \div 2

\* the weight function of the case (nn, dg); symmetric when undirected
EdgesOf(k, d) ==
    LET ps == PairSeq(k)
        on == {j \in 1 .. Len(ps) : d[j] > 0}
        fw == {<<ps[j], WSeq[d[j]] - WOff>> : j \in on}
        bw == IF Directed THEN {} ELSE {<<<<ps[j][2], ps[j][1]>>, WSeq[d[j]] - WOff>> : j \in on}
        al == fw \cup bw
    IN [p \in {x[1] : x \in al} |-> (CHOOSE x \in al : x[1] = p)[2]]

(************************* A: definition by enumeration *********************)
Succ(E, u) == {q[2] : q \in {r \in DOMAIN E : r[1] = u}}

RECURSIVE PathsFrom(_, _)      \* all simple paths that extend the simple path p
PathsFrom(E, p) == {p} \cup UNION {PathsFrom(E, Append(p, v)) : v \in Succ(E, Last(p)) \ Rng(p)}

RECURSIVE PW(_, _)             \* weight of a walk
PW(E, p) == IF Len(p) <= 1 THEN 0 ELSE E[<<p[1], p[2]>>] + PW(E, Tail(p))

IsWalk(k, E, p) == /\ Len(p) >= 1 /\ p[1] \in 1 .. k
                   /\ \A i \in 1 .. Len(p) - 1 : <<p[i], p[i + 1]>> \in DOMAIN E
IsSimple(p) == Cardinality(Rng(p)) = Len(p)

\* The defining tables of a graph (k, E), each evaluated once (TLCEval forces TLC's lazy
\* function values):
\*   as[s]     all simple paths starting at s
\*   ra[s]     nodes reachable from s
\*   nc        nodes lying on a negative simple cycle
\*   tw[s][t]  the true weight, for s, t in 1..k+1 (k+1 stands for any absent id):
\*             +inf if unreachable or absent, -inf if some walk s ->* c ->* t passes a node c of a
\*             negative cycle, otherwise the minimum weight of a simple path
\*   ss[s][t]  the all-paths answer: the simple paths of minimum weight (zero-weight cycles cut)
Tables(k, E) ==
    LET as == TLCEval([s \in 1 .. k |-> PathsFrom(E, <<s>>)])
        ra == TLCEval([s \in 1 .. k |-> {Last(p) : p \in as[s]}])
        nc == {c \in 1 .. k : \E p \in as[c] : /\ Len(p) >= 2 /\ <<Last(p), c>> \in DOMAIN E
                                                /\ PW(E, p) + E[<<Last(p), c>>] < 0}
        tw == TLCEval([s \in 1 .. k + 1 |-> [t \in 1 .. k + 1 |->
                 IF s > k \/ t > k THEN PInf
                 ELSE IF t \notin ra[s] THEN PInf
                 ELSE IF \E c \in nc : c \in ra[s] /\ t \in ra[c] THEN NInf
                 ELSE Fin(Min({PW(E, p) : p \in {x \in as[s] : Last(x) = t}}))]])
        ss == TLCEval([s \in 1 .. k |-> [t \in 1 .. k |->
                 IF IsFin(tw[s][t]) THEN {p \in as[s] : Last(p) = t /\ PW(E, p) = tw[s][t][2]} ELSE {}]])
    IN [n |-> k, E |-> E, as |-> as, ra |-> ra, nc |-> nc, tw |-> tw, ss |-> ss]
SimplePathsT(T, s, t) == {p \in T.as[s] : Last(p) = t}

(************************* B: Bellman fixed point ***************************)
\* PathDefs.tla states the fixed point over adjacency lists (In[v]: set of <<u, w>> for every
\* edge u -> v, Out[u]: set of successors); these are the lists of the weight function E
InOf(k, E)  == [v \in 1 .. k |-> {<<q[1], E[q]>> : q \in {r \in DOMAIN E : r[2] = v}}]
OutOf(k, E) == [u \in 1 .. k |-> {q[2] : q \in {r \in DOMAIN E : r[1] = u}}]
TrueWB(k, E, s, t) == IF s \notin 1 .. k \/ t \notin 1 .. k THEN PInf
                      ELSE RowB(k, InOf(k, E), OutOf(k, E), s)[t]

(******************************* the case space *****************************)
E == EdgesOf(nn, dg)
Q == 1 .. nn + 1              \* query ids: every node and one absent id

\* per-pair pseudo-random digits for the sampled mode (no 32-bit overflow: i <= 200000)
Pm == <<1009, 1013, 1019, 1021, 1031, 1033, 1039, 1049, 1051, 1061, 1063, 1069, 1087, 1091, 1093, 1097, 1103, 1109, 1117, 1123>>
Mm == <<10007, 10009, 10037, 10039, 10061, 10067, 10069, 10079, 10091, 10093, 10099, 10103, 10111, 10133, 10139, 10141, 10151, 10159, 10163, 10169>>
SampleDigits(i) == [j \in 1 .. NPairs(MaxN) |->
                      (((i * Pm[j] + (Seed % 1000) * Mm[21 - j] + 7 * j) % Mm[j]) \div 3) % B]
DigitSum(d) == LET RECURSIVE S(_)
                   S(j) == IF j = 0 THEN 0 ELSE d[j] * j + S(j - 1)
               IN S(Len(d))

(************************** the tie-rich family (Mode = "ties") *************)
\* Layered graphs in which one source has many equally good first steps towards two targets that
\* share a hub (the all-pairs routines keep LISTS of alternatives per pair, and a target reached
\* through the hub inherits the hub's list before it gains alternatives of its own):
\*   s -> a_1 .. a_nm -> hub -> t_1, t_2        every edge 1: weight 3, nm routes per target
\*   s -> x_i -> t_j                            the edge x_i -> t_j is absent, 2 (a further tied
\*                                              route of weight 3) or 5 (a route that is NOT shortest)
\*   a_j -> t_j  (j = 1, 2)                     absent or 2 (a tied route whose first step is not new)
\* Nodes in role order: s = 1, a_i = 1 + i, hub = nm + 2, x_i = nm + 2 + i, t_j = nm + nx + 2 + j.
\* A parameter is <<nm, nx, xs, as>> with xs a sequence over x_1 t_1, x_1 t_2, x_2 t_1, .. of digits
\* 0 / 1 / 2 (absent / 2 / 5) and as a sequence of two digits 0 / 1.  The whole space is enumerated.
TieNMs == {2, 3}
TieNXs == {1, 2}
TieParams == UNION {UNION {{<<nm, nx, xs, as>> : xs \in [1 .. 2 * nx -> 0 .. 2], as \in [1 .. 2 -> 0 .. 1]}
                            : nx \in TieNXs} : nm \in TieNMs}
TieN(p) == p[1] + p[2] + 4
TieW(p, u, v) ==
    LET nm == p[1] nx == p[2] hub == nm + 2 t0 == nm + nx + 2
    IN IF u = 1 /\ v \in 2 .. nm + 1 THEN 1                          \* s -> a_i
       ELSE IF u \in 2 .. nm + 1 /\ v = hub THEN 1                   \* a_i -> hub
       ELSE IF u = hub /\ v \in t0 + 1 .. t0 + 2 THEN 1               \* hub -> t_j
       ELSE IF u = 1 /\ v \in hub + 1 .. hub + nx THEN 1              \* s -> x_i
       ELSE IF u \in hub + 1 .. hub + nx /\ v \in t0 + 1 .. t0 + 2     \* x_i -> t_j
            THEN <<0, 2, 5>>[1 + p[3][2 * (u - hub - 1) + (v - t0)]]
       ELSE IF u \in 2 .. 3 /\ v = t0 + (u - 1) THEN 2 * p[4][u - 1]   \* a_j -> t_j
       ELSE 0
TieDigits(p) == LET ps == PairSeq(TieN(p))
                IN [j \in 1 .. Len(ps) |->
                      LET w == TieW(p, ps[j][1], ps[j][2])
                      IN IF w = 0 THEN 0 ELSE CHOOSE c \in 1 .. Len(WSeq) : WSeq[c] - WOff = w]
\* node orders in which the harness lays the nodes out in containers with a deterministic node order
\* (model node m gets the position o[m]): role order, its reverse, two rotations
TieOrders(k) == {[m \in 1 .. k |-> m], [m \in 1 .. k |-> k + 1 - m],
                 [m \in 1 .. k |-> ((m + 2) % k) + 1], [m \in 1 .. k |-> ((k - m + 4) % k) + 1]}

Init == IF Mode = "ties"
        THEN \E p \in TieParams : nn = TieN(p) /\ dg = TieDigits(p)
        ELSE IF Mode = "all"
        THEN /\ nn \in MinN .. MaxN
             /\ dg \in [1 .. NPairs(nn) -> 0 .. B - 1]
             /\ DigitSum(dg) % NShards = Shard
        ELSE /\ nn = MaxN
             /\ dg \in {SampleDigits(i) : i \in 1 .. NSamples}
Next == UNCHANGED vars
Spec == Init /\ [][Next]_vars

(******************************* R1 theorems ********************************)
\* the fixed-point characterisation equals the definition, for every pair incl. the absent id
FixpointIsDefinitionT(T) == \A s \in Q, t \in Q : T.tw[s][t] = TrueWB(nn, E, s, t)

TriangleT(T) == \A s, u, t \in 1 .. nn :
    LET a == T.tw[s][u] b == T.tw[u][t] c == T.tw[s][t]
    IN (IsFin(a) /\ IsFin(b)) => (c = NInf \/ (IsFin(c) /\ c[2] <= a[2] + b[2]))

ShortestExistsIffFiniteT(T) == \A s, t \in 1 .. nn : (T.ss[s][t] # {}) = IsFin(T.tw[s][t])

\* every shortest simple path is a simple walk s -> t of the reported weight
ShortestAreWalksT(T) == \A s, t \in 1 .. nn : \A p \in T.ss[s][t] :
    IsWalk(nn, E, p) /\ IsSimple(p) /\ p[1] = s /\ Last(p) = t /\ Fin(PW(E, p)) = T.tw[s][t]

\* Johnson: with h(v) = min(0, min_u dist(u, v)) (the distance from an added source joined to
\* every node by a 0 edge) the re-weighted graph has no negative edge and the same shortest paths
JohnsonLemmaT(T) == (T.nc = {}) =>
    LET pot == TLCEval([v \in 1 .. nn |->
                  Min({0} \cup {T.tw[u][v][2] : u \in {x \in 1 .. nn : IsFin(T.tw[x][v])}})])
        E2 == TLCEval([p \in DOMAIN E |-> E[p] + pot[p[1]] - pot[p[2]]])
        T2 == Tables(nn, E2)
    IN /\ \A p \in DOMAIN E2 : E2[p] >= 0
       /\ \A s, t \in 1 .. nn : T2.ss[s][t] = T.ss[s][t]

Theorems == LET T == Tables(nn, E)
            IN /\ FixpointIsDefinitionT(T) /\ TriangleT(T) /\ ShortestExistsIffFiniteT(T)
               /\ ShortestAreWalksT(T) /\ JohnsonLemmaT(T)
FixpointIsDefinition == FixpointIsDefinitionT(Tables(nn, E))

(**************************** generator role (R2) ***************************)
\* 0: the unique flag must be false (several shortest paths); 1: must be true (exactly one
\* shortest walk); 2: either (one simple shortest path but a zero-weight cycle touches it, the
\* documentation is ambiguous there) or not applicable
UniqueFlag(T, s, t) ==
    LET tw == T.tw
    IN IF ~IsFin(tw[s][t]) THEN 2
       ELSE IF Cardinality(T.ss[s][t]) > 1 THEN 0
       ELSE IF \E x, y \in 1 .. nn :
                 /\ x # y /\ IsFin(tw[s][x]) /\ IsFin(tw[x][t]) /\ IsFin(tw[x][y]) /\ IsFin(tw[y][x])
                 /\ tw[s][x][2] + tw[x][t][2] = tw[s][t][2]
                 /\ tw[x][y][2] + tw[y][x][2] = 0
            THEN 2
       ELSE 1

\* Yen: the k lightest simple paths with weight <= lightest + cost.  Ties may be broken either
\* way, so the expectation is the sorted weight list of all simple paths (aw) and the number of
\* paths that must be returned for each (k, cost); cost code 99 means no bound.
YenKs == {-1, 1, 2, 3, 5}
YenCosts == {0, 1, 99}
RECURSIVE SortedBag(_)        \* sorted sequence of the weights of a set of paths (a multiset)
SortedBag(S) == IF S = {} THEN <<>>
                ELSE LET m == Min({PW(E, p) : p \in S})
                         p0 == CHOOSE p \in S : PW(E, p) = m
                     IN <<m>> \o SortedBag(S \ {p0})
YenCount(aw, k, c) ==
    IF Len(aw) = 0 THEN 0
    ELSE LET within == Cardinality({i \in 1 .. Len(aw) : c = 99 \/ aw[i] <= aw[1] + c})
         IN IF k < 0 \/ within < k THEN within ELSE k

\* Queries about the returned tree itself.  Shortest.From / ShortestAlts.From: "the starting node
\* of the paths held by" the tree - the source handed to the routine, for every query id (also the
\* id that is not a node of the graph: the tree is empty then, its source is still that id).
SourceOf(s) == s
\* s = t on an id a that is not a node of the graph: the documentation leaves the answer open
\* (AllShortest.Weight: +inf for absent ids; Between / AllBetween / AllBetweenFunc: "a shortest path
\* from u to v").  The legal answers are the trivial path <<a>> of weight 0 - whose only node must
\* carry the id a - and "no path, +inf"; nothing else is a path from a to a.
SelfAbsent(a) == {[p |-> <<a>>, w |-> Fin(0)], [p |-> <<>>, w |-> PInf]}

PathRec(S) == {[p |-> p, w |-> PW(E, p)] : p \in S}
AnyNegEdge == \E q \in DOMAIN E : E[q] < 0

EmitCase ==
  Emit =>
    LET T  == Tables(nn, E)
        aw == TLCEval([s \in 1 .. nn |-> [t \in 1 .. nn |-> SortedBag(SimplePathsT(T, s, t))]])
    IN PrintT(ToJson([
         k     |-> "g",
         dir   |-> Directed,
         n     |-> nn,
         e     |-> {<<q[1], q[2], E[q]>> : q \in {r \in DOMAIN E : Directed \/ r[1] < r[2]}},
         tw    |-> T.tw,
         negfrom |-> [s \in 1 .. nn |-> T.nc \cap T.ra[s] # {}],
         anyneg  |-> T.nc # {},
         negedgefrom |-> [s \in 1 .. nn |-> \E q \in DOMAIN E : E[q] < 0 /\ q[1] \in T.ra[s]],
         anynegedge  |-> AnyNegEdge,
         src   |-> [s \in Q |-> SourceOf(s)],
         selfabsent |-> SelfAbsent(nn + 1),
         sink  |-> [s \in 1 .. nn |-> Succ(E, s) = {}],
         zcyc  |-> \E x, y \in 1 .. nn : /\ x # y /\ IsFin(T.tw[x][y]) /\ IsFin(T.tw[y][x])
                                          /\ T.tw[x][y][2] + T.tw[y][x][2] = 0,
         sp    |-> T.ss,
         simple |-> [s \in 1 .. nn |-> [t \in 1 .. nn |-> PathRec(SimplePathsT(T, s, t))]],
         uniq  |-> [s \in 1 .. nn |-> [t \in 1 .. nn |-> UniqueFlag(T, s, t)]],
         aw    |-> aw,
         orders |-> IF Mode = "ties" THEN TieOrders(nn) ELSE {},
         yen   |-> IF AnyNegEdge \/ Mode = "ties" THEN {}
                   ELSE {[s |-> s, t |-> t, k |-> k, c |-> c, cnt |-> YenCount(aw[s][t], k, c)] :
                           s \in 1 .. nn, t \in 1 .. nn, k \in YenKs, c \in YenCosts}]))
=============================================================================
