SPECIFICATION Spec
CONSTANTS
  MinN = @MINN@
  MaxN = @MAXN@
  Directed = @DIRECTED@
  WCodes = @WCODES@
  WOff = @WOFF@
  Mode = "@MODE@"
  Seed = @SEED@
  NSamples = @NSAMPLES@
  Shard = @SHARD@
  NShards = @NSHARDS@
  Emit = @EMIT@
INVARIANTS @INVS@
CHECK_DEADLOCK FALSE
