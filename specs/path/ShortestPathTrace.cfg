SPECIFICATION TraceSpec
CONSTANTS
  KnownCut = @KNOWNCUT@
POSTCONDITION Accepted
CHECK_DEADLOCK FALSE
