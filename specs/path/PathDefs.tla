------------------------------ MODULE PathDefs ------------------------------
(* Definitions shared by ShortestPath.tla (theorems, generator) and           *)
(* ShortestPathTrace.tla (judge of recorded runs): extended integers and the  *)
(* Bellman fixed point over adjacency lists.  ShortestPath.tla proves (TLC,   *)
(* every graph of its bound) that RowB equals the definition by enumeration.  *)
EXTENDS Integers, FiniteSets, Sequences, TLC

Fin(x) == <<0, x>>
PInf == <<1, 0>>
NInf == <<2, 0>>
IsFin(e) == e[1] = 0

Rng(s) == {s[i] : i \in DOMAIN s}
Last(p) == p[Len(p)]
Min(S) == CHOOSE x \in S : \A y \in S : x <= y

RECURSIVE SortedSeq(_)
SortedSeq(S) == IF S = {} THEN <<>> ELSE LET m == Min(S) IN <<m>> \o SortedSeq(S \ {m})


(************************* B: Bellman fixed point ***************************)
\* In[v]: set of <<u, w>>, one for every edge u -> v of weight w;  Out[u]: set of successors of u
INF == 100000000
Relax(k, In, d) == [v \in 1 .. k |->
    Min({d[v]} \cup {d[x[1]] + x[2] : x \in {y \in In[v] : d[y[1]] < INF}})]
RECURSIVE Iter(_, _, _, _)
Iter(k, In, d, r) == IF r = 0 THEN d
                     ELSE LET d1 == Relax(k, In, d) IN IF d1 = d THEN d ELSE Iter(k, In, d1, r - 1)
Dist0(k, s) == [v \in 1 .. k |-> IF v = s THEN 0 ELSE INF]
DistB(k, In, s) == Iter(k, In, Dist0(k, s), k - 1)
RECURSIVE Closure(_, _)
Closure(Out, S) == LET S1 == S \cup UNION {Out[u] : u \in S}
                   IN IF S1 = S THEN S ELSE Closure(Out, S1)
\* the row of true weights from s: +inf if never reached, -inf for the nodes that still relax in
\* round |V| and everything reachable from them, the fixed point otherwise
RowB(k, In, Out, s) ==
    LET d  == DistB(k, In, s)
        d1 == Relax(k, In, d)
        ng == Closure(Out, {v \in 1 .. k : d1[v] < d[v]})
    IN [t \in 1 .. k |-> IF d[t] >= INF THEN PInf ELSE IF t \in ng THEN NInf ELSE Fin(d[t])]
=============================================================================
