SPECIFICATION Spec
CONSTANTS
  Unbounded = @UNBOUNDED@
  Skip = {@SKIP@}
INVARIANT NoMissingPath
CHECK_DEADLOCK FALSE
