--------------------------- MODULE ChromaticSearch ---------------------------
(* Lower bounds on the chromatic number of RECORDED graphs of 18..32 nodes,    *)
(* far beyond Structural!Chi / KColourable (recursive operators, <= 9 nodes).  *)
(*                                                                             *)
(* Input: the "chrom" events of trace.ndjson (one per graph: node list V,      *)
(* edge list E, a vertex order, and the colourings the real routines           *)
(* returned).  For every such graph let K = (least k any recorded call         *)
(* returned) - 1.  The state machine below is the canonical colouring search   *)
(* of Structural.tla (CanonChoices) along the recorded order with K colours:   *)
(* a state is a proper canonical colouring of a prefix of the order.           *)
(*                                                                             *)
(*   TLC exhausts the state space and NotComplete holds                        *)
(*       ==>  no recorded graph has a proper colouring with <= K colours,      *)
(*            i.e. chi > K for every graph: the least recorded k is the        *)
(*            chromatic number (StructuralTrace has validated a proper         *)
(*            colouring with that many colours).                               *)
(*   NotComplete is violated  ==>  the final state is a proper colouring with  *)
(*            fewer colours than any call returned: the exact solver did not   *)
(*            attain the chromatic number on graph g.                          *)
(*                                                                             *)
(* The order only shapes the search (any permutation is complete, see          *)
(* StructuralR1!SearchOK); it comes with the instance and is checked to be a   *)
(* permutation of V, otherwise nothing is proved (ASSUME fails).               *)
EXTENDS Structural, Json

CONSTANT Skip        \* gids already decided by an earlier run (a violated instance is re-run without it)

TraceLog == ndJsonDeserialize("trace.ndjson")
PairsOf(ps) == {<<ps[i][1], ps[i][2]>> : i \in DOMAIN ps}

Insts == {i \in DOMAIN TraceLog : TraceLog[i].k = "chrom" /\ TraceLog[i].gid \notin Skip}
LeastK(e) == Min({e.calls[i].k : i \in {j \in DOMAIN e.calls : e.calls[j].err = ""}})
Pre == TLCEval([i \in Insts |->
          LET e == TraceLog[i]
              V == Rng(e.V)
              E == TLCEval(Sym(PairsOf(e.E)))
          IN [n |-> Cardinality(V), K |-> LeastK(e) - 1, gid |-> e.gid,
              back |-> TLCEval(BackSets(E, e.order)),
              ok |-> /\ IsPermOf(e.order, V) /\ Cardinality(V) = Len(e.V)
                     /\ \A p \in E : p[1] \in V /\ p[2] \in V /\ p[1] # p[2]]])
ASSUME \A i \in Insts : Pre[i].ok
\* announces what a clean exhaustion of this run proves (the run counts only if TLC then reports
\* "Model checking completed. No error has been found.")
ASSUME PrintT("CHROMATIC-SEARCH-INSTANCES " \o ToString(Cardinality(Insts)))

VARIABLES g,      \* the instance (index of its event in the trace file)
          col     \* colours of the first Len(col) vertices of its order
vars == <<g, col>>

Init == g \in Insts /\ col = <<>>
Next == /\ Len(col) < Pre[g].n
        /\ \E c \in CanonChoices(Pre[g].back, col, Pre[g].K) : col' = Append(col, c)
        /\ UNCHANGED g
Spec == Init /\ [][Next]_vars

NotComplete == Len(col) < Pre[g].n

=============================================================================
