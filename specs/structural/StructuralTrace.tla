--------------------------- MODULE StructuralTrace ---------------------------
(* R3: accepts an ndjson log of outputs of gonum's structural graph routines   *)
(* iff every recorded output is what Structural.tla defines (set valued        *)
(* outputs) or satisfies the defining predicate (orders, bases, colourings,    *)
(* spanning forests).  One event = one graph built in a real container, with   *)
(* the projected results of all routines of its family.  Node names in the log *)
(* are model ids >= 1; 0 is the nil marker of topo.Sort.                       *)
EXTENDS Structural, Json, TLCExt

TraceLog == ndJsonDeserialize("trace.ndjson")
VARIABLE l

PairsOf(ps) == {<<ps[i][1], ps[i][2]>> : i \in DOMAIN ps}
NoDup(s) == Cardinality(Rng(s)) = Len(s)
Sets(ss) == {Rng(ss[i]) : i \in DOMAIN ss}
\* the list of lists ss is exactly the family F: no set twice, no element twice
FamEq(ss, F) == /\ Len(ss) = Cardinality(F) /\ Sets(ss) = F
                /\ \A i \in DOMAIN ss : NoDup(ss[i])
ListIsSet(s, S) == NoDup(s) /\ Rng(s) = S
FnOf(ps) == [x \in {ps[i][1] : i \in DOMAIN ps} |-> (CHOOSE i \in DOMAIN ps : ps[i][1] = x)]   \* index of the pair
Fn(ps) == LET ix == FnOf(ps) IN [x \in DOMAIN ix |-> ps[ix[x]][2]]

(* ---- per root: traversals and dominator trees ---- *)
RootClauses(V, E, r, dom) ==
    LET R == Reach(E, r.r)
        DP == BFSDepthPairs(E, r.r)
        Eb == {e \in E : e[2] # r.blk}
        T == IF dom THEN IDomTree(E, r.r) ELSE <<>>
        TP == {<<v, T[v]>> : v \in DOMAIN T}
        TK == {<<T[v], v>> : v \in DOMAIN T}
    IN << <<"bfs-depth", PairsOf(r.depth) = DP /\ Len(r.depth) = Cardinality(R) /\ {p[1] : p \in DP} = R>>,
          <<"bfs-visit-once", ListIsSet(r.bfsvisit, R)>>,
          <<"bfs-visited", ListIsSet(r.bfsseen, R)>>,
          <<"dfs-visit-once", ListIsSet(r.dfsvisit, R)>>,
          <<"dfs-until", ListIsSet(r.dfsuntil, R)>>,
          <<"path-exists", ListIsSet(r.pathex, R)>>,
          <<"bfs-traverse-filter", r.blk > 0 => ListIsSet(r.bfsblk, Reach(Eb, r.r))>>,
          <<"dfs-traverse-filter", r.blk > 0 => ListIsSet(r.dfsblk, Reach(Eb, r.r))>>,
          <<"dominators-lt", dom => /\ PairsOf(r.lt) = TP /\ Len(r.lt) = Cardinality(TP)
                                    /\ PairsOf(r.ltkids) = TK /\ Len(r.ltkids) = Cardinality(TK) /\ r.ltroot = r.r>>,
          <<"dominators-slt", dom => /\ PairsOf(r.slt) = TP /\ Len(r.slt) = Cardinality(TP)
                                     /\ PairsOf(r.sltkids) = TK /\ Len(r.sltkids) = Cardinality(TK) /\ r.sltroot = r.r>> >>
RECURSIVE Flat(_)
Flat(ss) == IF Len(ss) = 0 THEN <<>> ELSE Head(ss) \o Flat(Tail(ss))
AllRoots(V, E, rs, dom) == Flat([i \in DOMAIN rs |-> RootClauses(V, E, rs[i], dom)])

(* ---- directed graphs ---- *)
SetSeq(ss) == [i \in DOMAIN ss |-> Rng(ss[i])]
DirClauses(e) ==
    LET V == Rng(e.V) E == PairsOf(e.E) o == e.o IN
    << <<"TarjanSCC", FamEq(o.sccs, SCCs(V, E))>>,
       <<"Sort", IsSortOutput(V, E, o.sort, SetSeq(o.cyc)) /\ o.sorterr = (CyclicComps(V, E) # {}) /\ o.cycbyid /\ o.errmsg>>,
       <<"SortStabilized", IsSortOutput(V, E, o.stab, SetSeq(o.stabcyc))>>,
       <<"SortStabilized-desc", IsSortOutput(V, E, o.stabr, SetSeq(o.stabrcyc))>>,
       <<"DirectedCyclesIn", e.docyc => /\ o.cycraw /\ NoDup(o.cycles) /\ Rng(o.cycles) = ElemCycles(V, E)>> >>
    \o AllRoots(V, E, o.roots, TRUE)

(* ---- undirected graphs ---- *)
ForestOK(V, E, W, f) ==
    LET T == {<<f.t[i][1], f.t[i][2]>> : i \in DOMAIN f.t} IN
    /\ ~f.frac /\ NoDup(f.t) /\ Cardinality(T) = Len(f.t)
    /\ ListIsSet(f.n, V)                                     \* dst has exactly the nodes of g
    /\ T \subseteq UEdges(E) /\ \A i \in DOMAIN f.t : W[<<f.t[i][1], f.t[i][2]>>] = f.t[i][3]
    /\ IsSpanningForest(V, E, T)
    /\ f.w = SumF(W, T) /\ f.w = MSFWeight(V, E, W)
\* coloring.Sets of a returned colouring: one entry <colour, members...> per colour used, the members exactly the
\* nodes of that colour, each once, listed in ascending id order
SetsOK(c, col) ==
    /\ c.setsbyid /\ Len(c.sets) = Cardinality(ColourClasses(col))
    /\ {<<c.sets[i][1], Rng(Tail(c.sets[i]))>> : i \in DOMAIN c.sets} = ColourClasses(col)
    /\ \A i \in DOMAIN c.sets : NoDup(Tail(c.sets[i]))
ColOK(V, E, c) ==
    LET col == Fn(c.col) IN
    /\ c.err = "" /\ Len(c.col) = Cardinality(V) /\ SetsOK(c, col)
    /\ IsProper(V, E, col)
    /\ c.k = NColours(col)
    /\ c.exact => ~KColourable(V, E, c.k - 1)
CoreOrderOK(V, E, o, dg) ==
    /\ Len(o.cores) = dg + 1
    /\ \A k \in 0 .. dg : ListIsSet(o.cores[k + 1], Shell(V, E, k))
    /\ IsDegOrder(E, V, o.order, dg)
    /\ \A k \in 0 .. Len(o.kcores) - 1 : /\ ListIsSet(o.kcores[k + 1], KCore(V, E, k))
                                         /\ IsDegOrder(E, KCore(V, E, k), o.kcores[k + 1], dg)
UndClauses(e) ==
    LET V == Rng(e.V) U == PairsOf(e.E) E == Sym(U) o == e.o
        W == [x \in U |-> LET i == CHOOSE j \in DOMAIN e.W : e.W[j][1] = x[1] /\ e.W[j][2] = x[2] IN e.W[i][3]]
        C == CCs(V, E)
        M == IF e.chk.cliques THEN MaxCliques(V, E) ELSE {}
        CG == CliqueGraphEdgesOf(M)
    IN
    << <<"ConnectedComponents", FamEq(o.ccs, C)>>,
       <<"BreadthFirst.WalkAll", FamEq(o.bfsall, C)>>,
       <<"DepthFirst.WalkAll", FamEq(o.dfsall, C)>>,
       <<"UndirectedCyclesIn", IsCycleBasis(V, E, o.basis)>>,
       <<"BronKerbosch", IF e.chk.cliques THEN FamEq(o.cliques, M)
                         ELSE NoDup(SetSeq(o.cliques)) /\ \A i \in DOMAIN o.cliques : NoDup(o.cliques[i]) /\ IsMaxClique(V, E, Rng(o.cliques[i]))>>,
       <<"CliqueGraph", e.chk.cliques =>
            /\ FamEq(o.cgnodes, M)
            /\ {<<{Rng(x.a), Rng(x.b)}, Rng(x.s)>> : x \in Rng(o.cgedges)} = {<<{x[1], x[2]}, x[1] \cap x[2]>> : x \in CG}
            /\ 2 * Len(o.cgedges) = Cardinality(CG)>>,
       <<"KCliqueCommunities", e.chk.kcc => \A k \in DOMAIN o.kcc :
            IF k = 1 THEN V # {} => (Len(o.kcc[1]) = 1 /\ ListIsSet(o.kcc[1][1], V))
            ELSE FamEq(o.kcc[k], KCliqueCommunities(V, E, k))>>,
       <<"DegeneracyOrdering-KCore", CoreOrderOK(V, E, o, Degeneracy(V, E))>>,
       <<"Prim", e.chk.weighted => ForestOK(V, E, W, o.prim)>>,
       <<"Kruskal", e.chk.weighted => ForestOK(V, E, W, o.kruskal)>>,
       <<"colourings", \A i \in DOMAIN o.cols : ColOK(V, E, o.cols[i])>> >>
    \o AllRoots(V, E, o.roots, FALSE)

(* ---- partial colourings ---- *)
PartClauses(e) ==
    LET V == Rng(e.V) E == Sym(PairsOf(e.E))
        part == Fn(e.part)
        ok == PartialOK(V, E, part)
    IN << <<"partial-colouring", V # {} => \A i \in DOMAIN e.cols :
             LET c == e.cols[i] col == Fn(c.col) IN
             IF ok THEN /\ c.err = "" /\ Len(c.col) = Cardinality(V) /\ IsProper(V, E, col)
                        /\ Extends(col, part) /\ c.k = NColours(col) /\ SetsOK(c, col)
             ELSE c.err = "invalid-partial">> >>

(* ---- colourings of graphs beyond the enumeration bound (18..32 nodes) ---- *)
\* One event = one graph and every (k, colouring) the real routines returned for it: many calls of
\* DsaturExact on rebuilt containers, a few of each heuristic.  Every colouring must be total,
\* proper and use exactly k colours; a call of the exact solver must not be beaten by ANY valid
\* colouring recorded for the same graph (a larger k is refuted by the smaller proper colouring
\* validated right here).  That the least k is the chromatic number is ChromaticSearch.tla's part.
ChromCallOK(V, E, c) ==
    LET col == TLCEval(Fn(c.col)) IN
    /\ c.err = "" /\ Len(c.col) = Cardinality(V) /\ IsProper(V, E, col) /\ c.k = NColours(col) /\ SetsOK(c, col)
ChromAlgs == <<"DsaturExact", "Dsatur", "Randomized", "RecursiveLargestFirst", "SanSegundo", "WelshPowell">>
ChromClauses(e) ==
    LET V == Rng(e.V) E == TLCEval(Sym(PairsOf(e.E)))
        valid == {i \in DOMAIN e.calls : ChromCallOK(V, E, e.calls[i])}
        least == Min({e.calls[i].k : i \in valid})
        bad(alg) == {i \in DOMAIN e.calls \ valid : e.calls[i].alg = alg}
    IN << <<"graph-well-formed", Cardinality(V) = Len(e.V) /\ \A p \in E : p[1] \in V /\ p[2] \in V /\ p[1] # p[2]>> >>
       \o [a \in DOMAIN ChromAlgs |-> <<ChromAlgs[a] \o ": total, proper, exactly k colours", bad(ChromAlgs[a]) = {}>>]
       \o << <<"other colourings: total, proper, exactly k colours",
                {i \in DOMAIN e.calls \ valid : e.calls[i].alg \notin Rng(ChromAlgs)} = {}>>,
              <<"DsaturExact-attains-least-k-of-any-recorded-colouring",
                \A i \in valid : e.calls[i].exact => e.calls[i].k = least>>,
              \* (that no maximal clique is missing is CliqueSearch.tla's part)
              <<"BronKerbosch: every returned clique is maximal, none twice", e.cl =>
                LET adj == TLCEval([v \in V |-> Succ(E, v)]) IN
                /\ NoDup(SetSeq(e.cliques))
                /\ \A i \in DOMAIN e.cliques : LET S == Rng(e.cliques[i]) IN
                      /\ NoDup(e.cliques[i]) /\ S # {} /\ S \subseteq V
                      /\ \A u \in S : S \ {u} \subseteq adj[u]
                      /\ \A v \in V \ S : ~(S \subseteq adj[v])>> >>

(* ---- elementary cycles of digraphs beyond the enumeration bound (8..16 nodes) ---- *)
\* every call returned closed walks, each an elementary cycle in canonical form, none twice
\* (that no elementary cycle is missing is CycleSearch.tla's part)
DcycClauses(e) ==
    LET V == Rng(e.V) E == TLCEval(PairsOf(e.E)) IN
    << <<"graph-well-formed", Cardinality(V) = Len(e.V) /\ \A p \in E : p[1] \in V /\ p[2] \in V /\ p[1] # p[2]>>,
       <<"DirectedCyclesIn: every returned cycle is elementary, none twice", \A r \in DOMAIN e.runs :
            LET cs == e.runs[r].cycles IN
            /\ e.runs[r].raw /\ NoDup(cs)
            /\ \A i \in DOMAIN cs : Len(cs[i]) >= 2 /\ IsClosedSimple(E, cs[i]) /\ cs[i][1] = Min(Rng(cs[i]))>> >>

Clauses(e) == CASE e.k = "dir" -> DirClauses(e)
                [] e.k = "und" -> UndClauses(e)
                [] e.k = "part" -> PartClauses(e)
                [] e.k = "chrom" -> ChromClauses(e)
                [] e.k = "dcyc" -> DcycClauses(e)
Valid(e) == LET cl == Clauses(e) IN \A i \in DOMAIN cl : cl[i][2]

Init == l = 1
Next == /\ l <= Len(TraceLog) /\ Valid(TraceLog[l]) /\ l' = l + 1
Spec == Init /\ [][Next]_l

Accepted ==
    LET d == TLCGet("stats").diameter IN
    IF d - 1 = Len(TraceLog) THEN PrintT("TRACE-ACCEPTED " \o ToString(Len(TraceLog)))
    ELSE LET cl == Clauses(TraceLog[d]) IN
         /\ PrintT("TRACE-REJECTED at event " \o ToString(d) \o ": failed clauses " \o ToString({cl[i][1] : i \in {j \in DOMAIN cl : ~cl[j][2]}})
                   \o " event " \o ToString(TraceLog[d]))
         /\ FALSE
=============================================================================
