--------------------------- MODULE RandGenTrace ---------------------------
(* R3 for the random generators of graph/graphs/gen: every recorded call (the case RandGen.tla printed plus    *)
(* the outcome the real generator produced) is judged by the clauses of RandGenDefs.tla.  ALL events are         *)
(* judged (a rejected event does not stop the run): the rejected events are collected with the names of their    *)
(* failed clauses and printed on one line.                                                                        *)
EXTENDS RandGenDefs, Json, TLCExt

TraceLog == ndJsonDeserialize("trace.ndjson")
VARIABLE l

Failed(ev) == LET cl == Clauses(ev) IN {cl[i][1] : i \in {j \in DOMAIN cl : ~cl[j][2]}}

Init == l = 1 /\ TLCSet(1, {})
Next == /\ l <= Len(TraceLog)
        /\ LET f == Failed(TraceLog[l]) IN IF f = {} THEN TRUE ELSE TLCSet(1, TLCGet(1) \cup {<<l, f>>})
        /\ l' = l + 1
Spec == Init /\ [][Next]_l

Accepted ==
    LET d == TLCGet("stats").diameter bad == TLCGet(1) IN
    IF d - 1 = Len(TraceLog) /\ bad = {} THEN PrintT("TRACE-ACCEPTED " \o ToString(Len(TraceLog)))
    ELSE /\ PrintT("TRACE-REJECTED " \o ToString(Cardinality(bad)) \o " of " \o ToString(d - 1) \o " events: " \o ToString(bad))
         /\ FALSE
=============================================================================
