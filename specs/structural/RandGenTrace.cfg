SPECIFICATION Spec
POSTCONDITION Accepted
CHECK_DEADLOCK FALSE
