INIT Init
NEXT Next
CONSTANTS
  Part = "@PART@"
  Salt = @SALT@
INVARIANTS EmitInv GilbertOK VariateOK
CHECK_DEADLOCK FALSE
