---------------------------- MODULE StructuralR1 ----------------------------
(* R1: TLC checks, on EVERY graph with at most N nodes (all labelings), that  *)
(* each operator of Structural.tla used as an oracle equals its brute-force   *)
(* definition, and the structural theorems that tie the notions together.     *)
(* A slip in the specification is caught here, before it can raise a false    *)
(* alarm against the code.                                                    *)
EXTENDS Structural

CONSTANTS N,         \* graphs on node sets 1..n, n <= N
          Directed   \* TRUE: all digraphs; FALSE: all undirected graphs (symmetric E)

VARIABLE g
V == g.V
E == g.E

DirPairs(n) == {p \in (1 .. n) \X (1 .. n) : p[1] # p[2]}
Graphs(m) == IF Directed
             THEN UNION {{[V |-> 1 .. n, E |-> D] : D \in SUBSET DirPairs(n)} : n \in 0 .. m}
             ELSE UNION {{[V |-> 1 .. n, E |-> Sym(U)] : U \in SUBSET {p \in DirPairs(n) : p[1] < p[2]}} : n \in 0 .. m}

\* Two-stage enumeration (so that TLC's workers share the graphs): first the node count and the
\* edges out of / at node 1, then the remaining edges.  Theorems are stated on finished graphs.
VARIABLE stage
vars == <<g, stage>>
Part1(n) == {p \in DirPairs(n) : p[1] = 1 /\ (Directed \/ p[1] < p[2])}
Part2(n) == {p \in DirPairs(n) : p[1] # 1 /\ (Directed \/ p[1] < p[2])}
Close(D) == IF Directed THEN D ELSE Sym(D)
Init == stage = 0 /\ g = [V |-> {}, E |-> {}]
Next == \/ /\ stage = 0 /\ stage' = 1
           /\ \E n \in 0 .. N : \E D \in SUBSET Part1(n) : g' = [V |-> 1 .. n, E |-> D]
        \/ /\ stage = 1 /\ stage' = 2
           /\ \E D \in SUBSET Part2(Cardinality(g.V)) : g' = [V |-> g.V, E |-> Close(g.E \cup D)]
Spec == Init /\ [][Next]_vars
Done == stage = 2
AllGraphs == Done => g \in Graphs(N)

Perms(S) == {f \in [1 .. Cardinality(S) -> S] : \A i \in DOMAIN f : \A j \in DOMAIN f : i # j => f[i] # f[j]}

(* ---- both kinds ---- *)
ReachOK_ == \A u \in V : Reach(E, u) = ReachDef(V, E, u)
SccOK_   == /\ IsPartition(SCCs(V, E), V)
            /\ \A u \in V : \A v \in V : (SccOf(SCCs(V, E), u) = SccOf(SCCs(V, E), v)) <=> (v \in Reach(E, u) /\ u \in Reach(E, v))
            /\ SortOutputs(V, E) # {}                          \* the condensation is acyclic
BfsOK_   == \A r \in V : \A v \in Reach(E, r) : BFSDepth(E, r)[v] = HopDef(V, E, r, v)
BfsLayersPartition_ == \A r \in V : LET L == BFSLayers(E, r) IN
                          /\ UNION Rng(L) = Reach(E, r)
                          /\ \A i \in DOMAIN L : \A j \in DOMAIN L : i # j => L[i] \cap L[j] = {}

(* ---- directed ---- *)
\* generator form and predicate form of the topo.Sort contract accept exactly the same slices
SortOK_ == Directed =>
     LET P == SCCs(V, E) C == CyclicComps(V, E) outs == SortOutputs(V, E) IN
     \A s \in [1 .. Cardinality(P) -> V \cup {Nil}] :
        (s \in outs) <=> (\E cyc \in Perms(C) : IsSortOutput(V, E, s, cyc))
TopoAcyclic_ == Directed => (CyclicComps(V, E) = {} => \A s \in SortOutputs(V, E) : IsTopoOrder(V, E, s))
CyclesOK_ == Directed => ElemCycles(V, E) = ElemCyclesDef(V, E)
CycleSearchOK_ == Directed => UNION {CyclesFrom([v \in V |-> Succ(E, v)], <<s>>) : s \in V} = ElemCyclesDef(V, E)
CyclesInScc_ == Directed => \A c \in ElemCycles(V, E) : \E C \in CyclicComps(V, E) : Rng(c) \subseteq C
DomOK_ == Directed => \A r \in V : \A v \in Reach(E, r) \ {r} :
            /\ SDom(E, r, v) = SDomDef(V, E, r, v)
            /\ Cardinality({d \in SDom(E, r, v) : SDom(E, r, v) = SDom(E, r, d) \cup {d}}) = 1   \* unique immediate dominator
            /\ r \in SDom(E, r, v)
            /\ IDom(E, r, v) \in Reach(E, r)
            /\ IDomTree(E, r)[v] = IDom(E, r, v)

\* control flow intervals: growth = definition for EVERY header candidate, the intervals partition what the entry
\* reaches, every interval is entered only at its header, the header lies on all its closed paths, no node can be
\* added, and the paper's one-at-a-time procedure gives the same family in every processing order
IntervalOK_ == Directed => \A r \in V :
     LET IV == Intervals(E, r) R == Reach(E, r) IN
     /\ \A h \in V : Interval(E, r, h) = IvDef(V, E, r, h) /\ IvValid(E, r, h, Interval(E, r, h))
     /\ IsPartition({iv[2] : iv \in IV}, R) /\ Cardinality({iv[2] : iv \in IV}) = Cardinality(IV)
     /\ \E iv \in IV : iv[1] = r
     /\ \A iv \in IV : /\ iv[1] \in iv[2]
                       /\ \A e \in E : (e[2] \in iv[2] /\ e[1] \notin iv[2]) => e[2] = iv[1]
                       /\ \A v \in (V \ iv[2]) \ {r} : ~(Pred(E, v) # {} /\ Pred(E, v) \subseteq iv[2])
     /\ IvSeqAll(E, r, {}, {r}) = {IV}
     /\ \A d \in IvGraphEdges(E, r) : d[1] # d[2] /\ d[1] \in {iv[1] : iv \in IV} /\ d[2] \in {iv[1] : iv \in IV}
     /\ (("pending" \notin IvTags(E, r)) => \A S \in IvSeqAll(E, r, {}, {r}) : S = IV)
\* IsPathIn against the definition by consecutive pairs of a walk; Equal against equality of node and arc sets
WalkOK_ == \A p \in UNION {[1 .. k -> V \cup {N + 1}] : k \in 0 .. 3} :
              IsPathIn(V, E, p) <=> (Len(p) = 0 \/ (Len(p) = 1 /\ p[1] \in V)
                                     \/ (Len(p) >= 2 /\ Rng(p) \subseteq V /\ \A i \in 1 .. Len(p) - 1 : p[i + 1] \in Succ(E, p[i])))

(* ---- undirected ---- *)
UCycles == {c \in ElemCycles(V, E) : Len(c) >= 3 /\ c[2] < c[Len(c)]}   \* one orientation each
CcOK_ == ~Directed => IsPartition(CCs(V, E), V) /\ CCs(V, E) = SCCs(V, E)
CliqueOK_ == ~Directed => /\ MaxCliques(V, E) = MaxCliquesDef(V, E)
                          /\ \A S \in SUBSET V : IsMaxClique(V, E, S) <=> S \in MaxCliquesDef(V, E)
                          /\ UNION MaxCliques(V, E) = V
\* the increasing-order clique enumeration (CliqueSearch.tla's step relation) ends exactly in the maximal cliques
CliqueSearchOK_ == ~Directed => CliqueLeaves([v \in V |-> Succ(E, v)], {}, V) = MaxCliquesDef(V, E)
CoreOK_ == ~Directed => /\ \A k \in 0 .. N + 1 : KCore(V, E, k) = KCoreDef(V, E, k)
                        /\ UNION {Shell(V, E, k) : k \in 0 .. Degeneracy(V, E)} = V
                        /\ KCore(V, E, Degeneracy(V, E) + 1) = {}
                        /\ \E ord \in Perms(V) : IsDegOrder(E, V, ord, Degeneracy(V, E))
                        /\ Degeneracy(V, E) > 0 => ~\E ord \in Perms(V) : IsDegOrder(E, V, ord, Degeneracy(V, E) - 1)
ChiOK_ == ~Directed => /\ Chi(V, E) = ChiDef(V, E)
                       /\ \A k \in 0 .. N : KColourable(V, E, k) <=> k >= ChiDef(V, E)
                       /\ Chi(V, E) <= Degeneracy(V, E) + 1
                       /\ \A S \in MaxCliques(V, E) : Cardinality(S) <= Chi(V, E)
\* the canonical colouring search along ANY vertex order decides k-colourability (the step relation
\* ChromaticSearch.tla runs as a state machine on recorded graphs of 18..32 nodes)
SearchOK_ == ~Directed => LET chi == ChiDef(V, E) n == Cardinality(V) IN
                \A ord \in Perms(V) : LET back == BackSets(E, ord) IN
                   /\ IsPermOf(ord, V)
                   /\ \A k \in 0 .. N + 1 : CanonCompletable(back, n, <<>>, k) <=> k >= chi
\* the elimination rank equals the definition of independence / spanning by symmetric differences
BasisOK_ == ~Directed =>
     LET cyc == {CycleEdges(c) : c \in UCycles}       \* edge sets of all cycles
         mu == CyclomaticNumber(V, E)
     IN Cardinality(UCycles) <= 13 =>    \* (denser graphs: 2^|cycles| candidate sets is out of reach)
       \A B \in {S \in SUBSET UCycles : Cardinality(S) = mu} :
          LET sq == CHOOSE f \in Perms(B) : TRUE
              es == {CycleEdges(c) : c \in B}
          IN IsCycleBasis(V, E, sq) <=> (Cardinality(es) = mu /\ cyc \subseteq Span(es))
W(salt) == [e \in UEdges(E) |-> ((e[1] * 3 + e[2] * 5 + e[1] * e[2] * salt + salt) % 4) - 1]
MsfOK_ == ~Directed => \A salt \in 0 .. 3 : MSFWeight(V, E, W(salt)) = MSFWeightDef(V, E, W(salt))
KccOK_ == ~Directed => /\ KCliqueCommunities(V, E, 2) = CCs(V, E)
                       /\ \A k \in 3 .. N : \A c \in KCliqueCommunities(V, E, k) : Cardinality(c) = 1 \/ Cardinality(c) >= k
\* documented sizes of the products (m edges, n nodes), against every second graph on <= 3 nodes
Size(X) == Cardinality(X) \div 2
ProductOK_ == ~Directed => \A h \in Graphs(3) :
     LET n1 == Cardinality(V) m1 == Size(E) n2 == Cardinality(h.V) m2 == Size(h.E)
         P(k) == ProductEdges(k, V, E, h.V, h.E) IN
     /\ Size(P("Cartesian")) = m2 * n1 + m1 * n2
     /\ Size(P("Tensor")) = 2 * m1 * m2
     /\ Size(P("Lexicographical")) = m2 * n1 + m1 * n2 * n2
     /\ Size(P("Strong")) = n1 * m2 + n2 * m1 + 2 * m1 * m2
     /\ P("Strong") = P("Cartesian") \cup P("Tensor")
     /\ \A k \in ProductKinds : \A pq \in P(k) : <<pq[2], pq[1]>> \in P(k)
\* The products over ARCS (directed inputs; an undirected input is a symmetric arc set and is among them): every
\* product formula against a second formulation - documented sizes counted in arcs, Tensor / Modular / CoNormal as
\* "tensor" combinations T(X, Y) of arc and non-arc relations, ModularExt against Modular, behaviour under reversal
\* of both inputs, and what the two kinds of destination hold.  Second inputs: every digraph on <= 2 nodes and the
\* 3-node digraphs with at most 1 arc or all 6 (14 graphs; ProductArcOKFull: at most 2 arcs or at least 5, 50 graphs),
\* against every digraph g on <= N nodes.
NonArcs(Vx, Ex) == {p \in Vx \X Vx : p[1] # p[2] /\ p \notin Ex}
RevArcs(X) == {<<e[2], e[1]>> : e \in X}
SecondInputs(lo, hi) == UNION {{[V |-> 1 .. n, E |-> D] : D \in SUBSET DirPairs(n)} : n \in 0 .. 2}
                \cup {[V |-> 1 .. 3, E |-> D] : D \in {X \in SUBSET DirPairs(3) : Cardinality(X) <= lo \/ Cardinality(X) >= hi}}
ConstW(Ex, w) == [e \in Ex |-> w]
ParityW(Ex, k) == [e \in Ex |-> ((e[1] + k * e[2]) % 2) + 1]
ProductArcOn(H) == Directed => \A h \in H :
     LET n1 == Cardinality(V) m1 == Cardinality(E) n2 == Cardinality(h.V) m2 == Cardinality(h.E)
         NN == (V \X h.V) \X (V \X h.V)
         P(k) == ProductArcs(k, V, E, h.V, h.E)
         T(X, Y) == {pq \in NN : <<pq[1][1], pq[2][1]>> \in X /\ <<pq[1][2], pq[2][2]>> \in Y}
         c1 == NonArcs(V, E)  c2 == NonArcs(h.V, h.E)
         Ext(ag, Wa, Wb) == ModularExtArcs(ag, V, E, Wa, h.V, h.E, Wb)
         Wp == ParityW(E, 1)  Wq == ParityW(h.E, 2)
         M == P("Modular")
     IN /\ Cardinality(P("Cartesian")) = m2 * n1 + m1 * n2
        /\ P("Tensor") = T(E, h.E) /\ Cardinality(P("Tensor")) = m1 * m2
        /\ Cardinality(P("Lexicographical")) = m2 * n1 + m1 * n2 * n2
        /\ P("Strong") = P("Cartesian") \cup P("Tensor") /\ P("Cartesian") \cap P("Tensor") = {}
        /\ Cardinality(P("CoNormal")) = n1 * n1 * n2 * n2 - (n1 * n1 - m1) * (n2 * n2 - m2)
        /\ M = T(E, h.E) \cup T(c1, c2)
        /\ Ext("true", Wp, Wq) = M /\ Ext("nil", Wp, Wq) = M /\ Ext("false", Wp, Wq) = T(c1, c2)
        /\ Ext("weq", ConstW(E, 1), ConstW(h.E, 1)) = M /\ Ext("weq", ConstW(E, 1), ConstW(h.E, 2)) = T(c1, c2)
        /\ Ext("weq", Wp, Wq) = T(c1, c2) \cup {pq \in T(E, h.E) : Wp[<<pq[1][1], pq[2][1]>>] = Wq[<<pq[1][2], pq[2][2]>>]}
        /\ \A k \in ProductKinds :
              /\ ProductArcs(k, V, RevArcs(E), h.V, RevArcs(h.E)) = RevArcs(P(k))
              /\ \A pq \in P(k) : pq[1] # pq[2] /\ pq \in NN                           \* no self loops, product nodes only
              /\ DstHolds(TRUE, P(k)) = P(k)
              /\ Sym(DstHolds(FALSE, P(k))) = Sym(P(k))
              /\ \A pq \in DstHolds(FALSE, P(k)) : <<pq[2], pq[1]>> \notin DstHolds(FALSE, P(k))
              /\ (Sym(E) = E /\ Sym(h.E) = h.E) => (Sym(P(k)) = P(k) /\ 2 * Cardinality(DstHolds(FALSE, P(k))) = Cardinality(P(k)))
ReachOK == Done => ReachOK_
SccOK == Done => SccOK_
BfsOK == Done => BfsOK_
BfsLayersPartition == Done => BfsLayersPartition_
SortOK == Done => SortOK_
TopoAcyclic == Done => TopoAcyclic_
CyclesOK == Done => CyclesOK_
CyclesInScc == Done => CyclesInScc_
CycleSearchOK == Done => CycleSearchOK_
DomOK == Done => DomOK_
IntervalOK == Done => IntervalOK_
WalkOK == Done => WalkOK_
CcOK == Done => CcOK_
CliqueOK == Done => CliqueOK_
CliqueSearchOK == Done => CliqueSearchOK_
CoreOK == Done => CoreOK_
ChiOK == Done => ChiOK_
SearchOK == Done => SearchOK_
BasisOK == Done => BasisOK_
MsfOK == Done => MsfOK_
KccOK == Done => KccOK_
ProductOK == Done => ProductOK_
ProductArcOK == Done => ProductArcOn(SecondInputs(1, 6))
ProductArcOKFull == Done => ProductArcOn(SecondInputs(2, 5))
=============================================================================
