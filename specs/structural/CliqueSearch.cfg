SPECIFICATION Spec
CONSTANTS
  Skip = {@SKIP@}
INVARIANT NoMissingClique
CHECK_DEADLOCK FALSE
