----------------------------- MODULE Structural -----------------------------
(* Definitions of the structural graph notions that gonum's graph/topo,      *)
(* graph/flow, graph/traverse, graph/path (spanning trees), graph/coloring,   *)
(* graph/product, graph/graphs/gen and graph/community (k-clique) claim to    *)
(* compute.  Pure operators over finite sets: a graph is (V, E) with V a      *)
(* finite set of integers (node ids, all >= 1) and E a set of ordered pairs   *)
(* <<u, v>>, u # v, over V.  An undirected graph is a symmetric E.            *)
(* Every notion is given by its definition ("...Def", brute force, usable on  *)
(* small graphs only) and, where the definition is too expensive beyond ~5    *)
(* nodes, by a second recursive formulation; StructuralR1.tla lets TLC prove  *)
(* the two equal on every small graph before either is used as an oracle.     *)
EXTENDS Integers, FiniteSets, Sequences, TLC

Nil == 0      \* marks a cyclic component in the output of topo.Sort

Rng(s) == {s[i] : i \in DOMAIN s}
Min(S) == CHOOSE x \in S : \A y \in S : x <= y
Max(S) == CHOOSE x \in S : \A y \in S : x >= y
RECURSIVE SumF(_, _)
SumF(f, S) == IF S = {} THEN 0 ELSE LET x == CHOOSE y \in S : TRUE IN f[x] + SumF(f, S \ {x})

(****************************** adjacency ***********************************)
Succ(E, u)  == {e[2] : e \in {d \in E : d[1] = u}}
Pred(E, u)  == {e[1] : e \in {d \in E : d[2] = u}}
SuccS(E, S) == {e[2] : e \in {d \in E : d[1] \in S}}
Sym(E)      == E \cup {<<e[2], e[1]>> : e \in E}
Induced(E, S) == {e \in E : e[1] \in S /\ e[2] \in S}
UEdges(E)   == {e \in E : e[1] < e[2]}          \* one representative per undirected edge
UE(u, v)    == IF u < v THEN <<u, v>> ELSE <<v, u>>

(***************************** reachability *********************************)
RECURSIVE Grow(_, _)
Grow(E, S) == LET T == S \cup SuccS(E, S) IN IF T = S THEN S ELSE Grow(E, T)
Reach(E, u) == Grow(E, {u})                     \* u reaches itself (empty path)

\* definition by paths: v is reachable from u iff some sequence of at most |V|
\* nodes starting at u and ending at v follows edges
ReachDef(V, E, u) ==
    {v \in V : \E k \in 1 .. Cardinality(V) : \E p \in [1 .. k -> V] :
        (p[1] = u /\ p[k] = v) /\ (\A i \in 1 .. k - 1 : <<p[i], p[i + 1]>> \in E)}

(*********************** components (SCC, CC) *******************************)
\* classes of mutual reachability
\* (the reachability relation is built once as a set of pairs: TLC re-evaluates a function
\* constructor's body at every application, a set is evaluated once)
ReachRel(V, E) == UNION {{<<u, v>> : v \in Reach(E, u)} : u \in V}
SCCs(V, E) == LET TC == ReachRel(V, E) IN {{v \in V : <<u, v>> \in TC /\ <<v, u>> \in TC} : u \in V}
CCs(V, E)  == LET S == Sym(E) IN {Reach(S, u) : u \in V}
SccOf(P, v) == CHOOSE C \in P : v \in C
IsPartition(P, V) == /\ UNION P = V /\ {} \notin P
                     /\ \A A \in P : \A B \in P : A # B => A \cap B = {}
CyclicComps(V, E) == {C \in SCCs(V, E) : Cardinality(C) > 1}

(**************************** topological sort ******************************)
\* pos places every SCC; every edge between different SCCs goes forward
Forward(E, P, pos) == \A e \in E : LET a == SccOf(P, e[1]) b == SccOf(P, e[2]) IN a # b => pos[a] < pos[b]

\* every legal value of the slice returned by topo.Sort: one entry per SCC in
\* a topological order of the condensation, a singleton SCC shown as its node,
\* a cyclic component shown as Nil.   (small graphs: enumerates all placements)
SortOutputs(V, E) ==
    LET P == SCCs(V, E)
        n == Cardinality(P)
        ok == {pos \in [P -> 1 .. n] : (\A A \in P : \A B \in P : A # B => pos[A] # pos[B]) /\ Forward(E, P, pos)}
    IN {[i \in 1 .. n |-> LET C == CHOOSE C \in P : pos[C] = i
                          IN IF Cardinality(C) = 1 THEN CHOOSE v \in C : TRUE ELSE Nil] : pos \in ok}

\* predicate form for big graphs. s: returned slice (Nil for cyclic components),
\* cyc: the components listed by the Unorderable error (sequence of sets).
NilPositions(s) == {i \in DOMAIN s : s[i] = Nil}
RECURSIVE SortedIdx(_)
SortedIdx(S) == IF S = {} THEN <<>> ELSE <<Min(S)>> \o SortedIdx(S \ {Min(S)})
IsSortOutput(V, E, s, cyc) ==
    LET P == SCCs(V, E)
        C == {c \in P : Cardinality(c) > 1}
        singles == {CHOOSE v \in c : TRUE : c \in P \ C}
        nils == SortedIdx(NilPositions(s))
        k == Len(cyc)
        PosWith(perm) == [c \in P |-> IF Cardinality(c) = 1
                                      THEN CHOOSE i \in DOMAIN s : s[i] \in c
                                      ELSE nils[CHOOSE j \in 1 .. k : cyc[perm[j]] = c]]
    IN /\ Rng(cyc) = C /\ k = Cardinality(C)                 \* exactly the cyclic components
       /\ Len(s) = Cardinality(P) /\ Len(nils) = k
       /\ {s[i] : i \in DOMAIN s \ NilPositions(s)} = singles
       /\ Cardinality(DOMAIN s \ NilPositions(s)) = Cardinality(singles)   \* each once
       /\ \/ Forward(E, P, PosWith([j \in 1 .. k |-> j]))      \* i-th Nil = i-th listed component
          \/ \E perm \in {f \in [1 .. k -> 1 .. k] : \A a \in 1 .. k : \A b \in 1 .. k : a # b => f[a] # f[b]} :
                Forward(E, P, PosWith(perm))
IsTopoOrder(V, E, s) == /\ Len(s) = Cardinality(V) /\ Rng(s) = V
                        /\ \A e \in E : (CHOOSE i \in DOMAIN s : s[i] = e[1]) < (CHOOSE i \in DOMAIN s : s[i] = e[2])

(*************************** elementary cycles ******************************)
\* canonical form: node sequence without repetition of the first node, least node first
RECURSIVE CycExt(_, _, _, _)
CycExt(E, s, path, last) ==
    LET nxt == {v \in Succ(E, last) : v > s /\ \A i \in DOMAIN path : path[i] # v}
    IN (IF s \in Succ(E, last) /\ Len(path) >= 2 THEN {path} ELSE {})
       \cup UNION {CycExt(E, s, Append(path, v), v) : v \in nxt}
ElemCycles(V, E) == UNION {CycExt(E, s, <<s>>, s) : s \in V}

\* The same enumeration as a step relation (CycleSearch.tla runs it as a state machine on recorded
\* digraphs of 8..16 nodes): a state is a simple path whose first node is its least node; it closes
\* an elementary cycle iff its last node has an edge back to the first.  succ: node -> successor set.
\* (StructuralR1 CycleSearchOK: the closing paths are exactly ElemCyclesDef.)
CyclePathSteps(succ, path) == {v \in succ[path[Len(path)]] : v > path[1] /\ \A i \in DOMAIN path : path[i] # v}
ClosesCycle(succ, path) == Len(path) >= 2 /\ path[1] \in succ[path[Len(path)]]
RECURSIVE CyclesFrom(_, _)
CyclesFrom(succ, path) ==
    (IF ClosesCycle(succ, path) THEN {path} ELSE {})
    \cup UNION {CyclesFrom(succ, Append(path, v)) : v \in CyclePathSteps(succ, path)}

IsClosedSimple(E, c) == /\ \A i \in DOMAIN c : \A j \in DOMAIN c : i # j => c[i] # c[j]
                        /\ \A i \in 1 .. Len(c) - 1 : <<c[i], c[i + 1]>> \in E
                        /\ <<c[Len(c)], c[1]>> \in E
ElemCyclesDef(V, E) ==
    UNION {{c \in [1 .. k -> V] : c[1] = Min(Rng(c)) /\ IsClosedSimple(E, c)} : k \in 2 .. Cardinality(V)}

(****************************** cycle basis *********************************)
\* undirected: a cycle is a closed simple sequence of >= 3 nodes
SymDiff(A, B) == (A \ B) \cup (B \ A)
CycleEdges(c) == {UE(c[i], c[(i % Len(c)) + 1]) : i \in DOMAIN c}
IsUCycle(E, c) == Len(c) >= 3 /\ IsClosedSimple(E, c)
\* rank over GF(2) of a sequence of edge sets, by elimination
RECURSIVE Rank(_)
Rank(sq) == IF Len(sq) = 0 THEN 0
            ELSE LET h == Head(sq) t == Tail(sq)
                 IN IF h = {} THEN Rank(t)
                    ELSE LET p == CHOOSE e \in h : TRUE
                         IN 1 + Rank([i \in DOMAIN t |-> IF p \in t[i] THEN SymDiff(t[i], h) ELSE t[i]])
CyclomaticNumber(V, E) == Cardinality(UEdges(E)) - Cardinality(V) + Cardinality(CCs(V, E))
IsCycleBasis(V, E, cs) ==     \* cs: sequence of node sequences
    /\ \A i \in DOMAIN cs : IsUCycle(E, cs[i])
    /\ Len(cs) = CyclomaticNumber(V, E)
    /\ Rank([i \in DOMAIN cs |-> CycleEdges(cs[i])]) = Len(cs)
\* definition of the span: all symmetric differences of subsets
RECURSIVE XorAll(_)
XorAll(S) == IF S = {} THEN {} ELSE LET x == CHOOSE y \in S : TRUE IN SymDiff(x, XorAll(S \ {x}))
Span(S) == {XorAll(T) : T \in SUBSET S}

(******************************** cliques ***********************************)
IsClique(E, S) == \A u \in S : \A v \in S : u # v => <<u, v>> \in E
MaxCliquesDef(V, E) == {S \in SUBSET V : S # {} /\ IsClique(E, S) /\ \A v \in V \ S : ~(S \subseteq Succ(E, v))}
RECURSIVE BK(_, _, _, _)
BK(E, R, P, X) == IF P = {} THEN (IF X = {} /\ R # {} THEN {R} ELSE {})
                  ELSE LET v == CHOOSE w \in P : TRUE
                       IN BK(E, R \cup {v}, P \cap Succ(E, v), X \cap Succ(E, v)) \cup BK(E, R, P \ {v}, X \cup {v})
MaxCliques(V, E) == BK(E, {}, V, {})
IsMaxClique(V, E, S) == S # {} /\ S \subseteq V /\ IsClique(E, S) /\ \A v \in V \ S : ~(S \subseteq Succ(E, v))

\* The same enumeration as a step relation, for graphs far beyond SUBSET V (CliqueSearch.tla runs it as
\* a state machine on recorded graphs of 18..36 nodes).  A state is a clique R with cand = the nodes
\* adjacent to every member of R; a step adds a candidate larger than every member, so each clique is
\* reached exactly once (its nodes in increasing order), and R is maximal iff R # {} and cand = {}.
\* adj: function node -> neighbour set.   (StructuralR1 CliqueSearchOK: leaves = MaxCliquesDef.)
CliqueSteps(adj, R, cand) == {<<R \cup {v}, cand \cap adj[v]>> : v \in {w \in cand : R = {} \/ w > Max(R)}}
IsCliqueLeaf(R, cand) == R # {} /\ cand = {}
RECURSIVE CliqueLeaves(_, _, _)
CliqueLeaves(adj, R, cand) ==
    (IF IsCliqueLeaf(R, cand) THEN {R} ELSE {})
    \cup UNION {CliqueLeaves(adj, st[1], st[2]) : st \in CliqueSteps(adj, R, cand)}

\* clique graph: nodes = maximal cliques, edge iff they share a node, labelled by the shared nodes
CliqueGraphEdgesOf(M) == {<<A, B>> \in M \X M : A # B /\ A \cap B # {}}
CliqueGraphEdges(V, E) == CliqueGraphEdgesOf(MaxCliques(V, E))

\* k-clique communities (Palla et al.): unions of k-cliques chained by sharing k-1 nodes;
\* gonum additionally reports every node in no community as a singleton (as for k = 2)
KCliques(V, E, k) == {S \in SUBSET V : Cardinality(S) = k /\ IsClique(E, S)}
KCliqueCommunities(V, E, k) ==
    LET K == KCliques(V, E, k)
        A == {<<a, b>> \in K \X K : a # b /\ Cardinality(a \cap b) >= k - 1}
        comms == {UNION Reach(A, c) : c \in K}
        covered == UNION comms
    IN comms \cup {{v} : v \in V \ covered}

(*************************** k-core, degeneracy *****************************)
RECURSIVE Peel(_, _, _)
Peel(E, S, k) == LET T == {v \in S : Cardinality(Succ(E, v) \cap S) >= k} IN IF T = S THEN S ELSE Peel(E, T, k)
KCore(V, E, k) == Peel(E, V, k)
\* definition: the largest node set whose induced subgraph has minimum degree >= k
KCoreDef(V, E, k) == UNION {S \in SUBSET V : \A v \in S : Cardinality(Succ(E, v) \cap S) >= k}
Degeneracy(V, E) == IF V = {} THEN 0 ELSE Max({k \in 0 .. Cardinality(V) : KCore(V, E, k) # {}})
Shell(V, E, k) == KCore(V, E, k) \ KCore(V, E, k + 1)
\* ord is a permutation of S in which every node has at most d neighbours on one fixed side
IsDegOrder(E, S, ord, d) ==
    /\ Len(ord) = Cardinality(S) /\ Rng(ord) = S
    /\ \/ \A i \in DOMAIN ord : Cardinality(Succ(E, ord[i]) \cap {ord[j] : j \in 1 .. i - 1}) <= d
       \/ \A i \in DOMAIN ord : Cardinality(Succ(E, ord[i]) \cap {ord[j] : j \in i + 1 .. Len(ord)}) <= d

(******************************* dominators *********************************)
ReachAvoid(E, r, d) == IF d = r THEN {} ELSE Grow({e \in E : e[1] # d /\ e[2] # d}, {r})
\* strict dominators of v: d # v such that every path r -> v contains d
SDom(E, r, v) == {d \in Reach(E, r) \ {v} : v \notin ReachAvoid(E, r, d)}
IDom(E, r, v) == CHOOSE d \in SDom(E, r, v) : SDom(E, r, v) = SDom(E, r, d) \cup {d}
\* the same tree with the avoid-sets computed once (what the generator and the trace acceptor evaluate)
IDomTree(E, r) ==
    LET R == Reach(E, r)
        Dom == UNION {{<<d, v>> : v \in R \ ReachAvoid(E, r, d)} : d \in R}       \* d dominates v
        SDP == {<<v, {d \in R \ {v} : <<d, v>> \in Dom}>> : v \in R}            \* (v, strict dominators of v)
        SD(v) == (CHOOSE p \in SDP : p[1] = v)[2]
    IN [v \in R \ {r} |-> CHOOSE d \in SD(v) : SD(v) = SD(d) \cup {d}]
\* definition by paths (small graphs): all simple paths r -> v
SimplePaths(V, E, r, v) ==
    UNION {{p \in [1 .. k -> V] : (p[1] = r /\ p[k] = v)
                                 /\ (\A i \in 1 .. k : \A j \in 1 .. k : i # j => p[i] # p[j])
                                 /\ (\A i \in 1 .. k - 1 : <<p[i], p[i + 1]>> \in E)} : k \in 1 .. Cardinality(V)}
SDomDef(V, E, r, v) == {d \in V \ {v} : LET PS == SimplePaths(V, E, r, v) IN PS # {} /\ \A p \in PS : d \in Rng(p)}

(************************ control flow intervals (graph/flow) ***************)
(* Allen & Cocke, "A program data flow analysis procedure" (the paper gonum's flow.Intervals cites): the        *)
(* interval I(h) is "the maximal, single entry subgraph for which h is the entry node and in which all closed   *)
(* paths contain h".  Algorithm of the paper: I(h) starts as {h}; add any node all of whose immediate           *)
(* predecessors are already in I(h), until no more can be added (the entry node n0 of the graph is a header     *)
(* from the start and is never added to another interval); a node that is in no interval but has an immediate   *)
(* predecessor in one becomes a header.  Predecessors are those of the WHOLE graph: a node that is also entered *)
(* from a part of the graph the entry does not reach is entered from outside and is a header (single entry).    *)
(* Two formulations: the growth (IvGrow, used as the oracle) and the definition as the union of every node set  *)
(* with the named properties (IvDef); StructuralR1 IntervalOK proves them equal on every small digraph, that    *)
(* the intervals partition the nodes the entry reaches, and that processing the headers one at a time in ANY    *)
(* order (the paper's steps 1-5) yields the same family.                                                        *)
RECURSIVE IvGrow(_, _, _)
IvGrow(E, S, root) ==
    LET T == S \cup {v \in SuccS(E, S) \ {root} : Pred(E, v) \subseteq S}
    IN IF T = S THEN S ELSE IvGrow(E, T, root)
Interval(E, root, h) == IvGrow(E, {h}, root)
RECURSIVE IvHeaders(_, _, _)
IvHeaders(E, root, H) ==
    LET cov == UNION {Interval(E, root, h) : h \in H}
        new == SuccS(E, cov) \ cov                    \* in no interval, with a predecessor in one
    IN IF new = {} THEN H ELSE IvHeaders(E, root, H \cup new)
Intervals(E, root) == {<<h, Interval(E, root, h)>> : h \in IvHeaders(E, root, {root})}      \* (header, node set)
\* the derived graph: one node per interval; an edge I -> J (I # J) iff some edge of the graph leads from I into J
IvGraphEdges(E, root) ==
    LET IV == Intervals(E, root)
    IN {<<ab[1][1], ab[2][1]>> : ab \in {x \in IV \X IV : x[1] # x[2] /\ \E e \in E : e[1] \in x[1][2] /\ e[2] \in x[2][2]}}
\* the definition: every node set S with header h that is single entry (no node but h is entered from outside S),
\* has h as its entry (h reaches every node of S inside S), has h on all its closed paths (nothing else lies on a
\* cycle inside S) and does not swallow the entry of the graph
PlusReach(Ex, v) == Grow(Ex, Succ(Ex, v))             \* reachable by at least one edge
IvValid(E, root, h, S) ==
    /\ h \in S /\ (root \in S => h = root)
    /\ \A v \in S \ {h} : Pred(E, v) \subseteq S
    /\ S \subseteq Reach(Induced(E, S), h)
    /\ LET Ex == Induced(E, S \ {h}) IN \A v \in S \ {h} : v \notin PlusReach(Ex, v)
IvDef(V, E, root, h) == UNION {S \in SUBSET V : IvValid(E, root, h, S)}
\* the paper's procedure with the headers taken one at a time in every possible order: done = set of (header,
\* interval) so far, pend = headers found and not yet processed
RECURSIVE IvSeqAll(_, _, _, _)
IvSeqAll(E, root, done, pend) ==
    IF pend = {} THEN {done}
    ELSE UNION {LET I == Interval(E, root, h)
                    new == SuccS(E, I) \ (I \cup pend \cup {d[1] : d \in done})
                IN IvSeqAll(E, root, done \cup {<<h, I>>}, (pend \ {h}) \cup new) : h \in pend}
\* Classes of inputs (tags carried by every printed case; they only NAME the class in a failure signature):
\*  "pending": at some step more than one header is waiting (the discovery is not a chain)
\*  "fan": in the derived graph some interval has two successors or two predecessors
\*  "reentry": the entry node has predecessors and all of them lie in one later interval (a reading of step 2.2
\*             without the exception for the entry node would add the entry to that interval as well)
\*  "unreach": a node the entry reaches is also entered from a part of the graph that the entry does not reach
RECURSIVE IvChain(_, _, _, _)
IvChain(E, root, cov, pend) ==
    IF pend = {} THEN TRUE
    ELSE /\ Cardinality(pend) = 1
         /\ LET h == CHOOSE x \in pend : TRUE
                I == Interval(E, root, h)
            IN IvChain(E, root, cov \cup I, SuccS(E, I) \ (cov \cup I))
IvTags(E, root) ==
    LET IV == Intervals(E, root)
        D == IvGraphEdges(E, root)
        R == Reach(E, root)
    IN (IF IvChain(E, root, {}, {root}) THEN {} ELSE {"pending"})
       \cup (IF \E a \in IV : Cardinality({d \in D : d[1] = a[1]}) > 1 \/ Cardinality({d \in D : d[2] = a[1]}) > 1 THEN {"fan"} ELSE {})
       \cup (IF Pred(E, root) # {} /\ \E a \in IV : a[1] # root /\ Pred(E, root) \subseteq a[2] THEN {"reentry"} ELSE {})
       \cup (IF \E v \in R : ~(Pred(E, v) \subseteq R) THEN {"unreach"} ELSE {})

(*************************** paths and graph equality (graph/topo) ***********)
\* topo.IsPathIn: "returns whether path is a path in g.  As special cases, IsPathIn returns true for a zero
\* length path or for a path of length 1 when the node in path exists in the graph."  A path is a sequence of
\* nodes each joined to the next (directed: by an arc in that direction); nodes may repeat.
IsPathIn(V, E, p) == CASE Len(p) = 0 -> TRUE
                       [] Len(p) = 1 -> p[1] \in V
                       [] OTHER -> \A i \in 1 .. Len(p) - 1 : <<p[i], p[i + 1]>> \in E
\* topo.Equal: "To be considered topologically equal, a and b must have identical sets of nodes and be
\* identically traversable": the same nodes and from every node the same successors.  (An undirected graph is
\* its symmetric arc set, so it equals a directed graph exactly when that holds every edge in both directions.)
TopoEqual(Va, Ea, Vb, Eb) == Va = Vb /\ \A u \in Va : Succ(Ea, u) = Succ(Eb, u)

(***************************** traversal ************************************)
RECURSIVE LayersFrom(_, _, _)
LayersFrom(E, frontier, seen) ==
    IF frontier = {} THEN <<>> ELSE <<frontier>> \o LayersFrom(E, SuccS(E, frontier) \ seen, seen \cup SuccS(E, frontier))
BFSLayers(E, r) == LayersFrom(E, {r}, {r})       \* BFSLayers[d+1] = nodes at hop distance d
BFSDepthPairs(E, r) == LET L == BFSLayers(E, r) IN UNION {{<<v, i - 1>> : v \in L[i]} : i \in DOMAIN L}   \* (node, hop distance)
BFSDepth(E, r) == LET DP == BFSDepthPairs(E, r) IN [v \in {p[1] : p \in DP} |-> (CHOOSE p \in DP : p[1] = v)[2]]
\* definition: hop distance = least number of edges of a walk
RECURSIVE StepSet(_, _, _)
StepSet(E, S, k) == IF k = 0 THEN S ELSE StepSet(E, SuccS(E, S), k - 1)
HopDef(V, E, r, v) == Min({k \in 0 .. Cardinality(V) : v \in StepSet(E, {r}, k)})

(************************** minimum spanning forest *************************)
\* W: function on UEdges(E) to integers.  T: set of undirected edges (u < v).
IsSpanningForest(V, E, T) == /\ T \subseteq UEdges(E)
                             /\ CCs(V, T) = CCs(V, E)
                             /\ Cardinality(T) = Cardinality(V) - Cardinality(CCs(V, E))   \* acyclic
MSFWeightDef(V, E, W) == Min({SumF(W, T) : T \in {S \in SUBSET UEdges(E) : IsSpanningForest(V, E, S)}})
\* sorted greedy (Kruskal by definition): P is the current partition of the nodes into trees
\* (a set of sets: TLC evaluates sets eagerly, a chain of function overrides would be re-evaluated)
\* WT: the weighted edges as a set of triples <<u, v, w>>
RECURSIVE Greedy(_, _, _)
Greedy(rest, P, acc) ==
    IF rest = {} THEN acc
    ELSE LET mw == Min({t[3] : t \in rest})
             e == CHOOSE t \in rest : t[3] = mw            \* a lightest remaining edge
             A == CHOOSE c \in P : e[1] \in c
             B == CHOOSE c \in P : e[2] \in c
         IN IF A = B THEN Greedy(rest \ {e}, P, acc)
            ELSE Greedy(rest \ {e}, (P \ {A, B}) \cup {A \cup B}, acc + mw)
MSFWeight(V, E, W) == Greedy({<<e[1], e[2], W[e]>> : e \in UEdges(E)}, {{v} : v \in V}, 0)

(******************************* colouring **********************************)
\* col: function from V to colours
IsProper(V, E, col) == DOMAIN col = V /\ \A e \in E : col[e[1]] # col[e[2]]
NColours(col) == Cardinality({col[v] : v \in DOMAIN col})
ChiDef(V, E) == IF V = {} THEN 0
                ELSE Min({k \in 1 .. Cardinality(V) : \E f \in [V -> 1 .. k] : IsProper(V, E, f)})
\* colour nodes in increasing id order; a node takes a used colour or the next new one
RECURSIVE MinCols(_, _, _, _)
MinCols(E, todo, col, used) ==
    IF todo = {} THEN used
    ELSE LET v == Min(todo)
             forb == {col[u] : u \in Succ(E, v) \cap DOMAIN col}
             opts == (1 .. used + 1) \ forb
         IN Min({MinCols(E, todo \ {v}, [u \in DOMAIN col \cup {v} |-> IF u = v THEN c ELSE col[u]],
                         IF c > used THEN c ELSE used) : c \in opts})
Chi(V, E) == MinCols(E, V, <<>>, 0)
\* coloring.Sets: "the mapping from colors to sets of node IDs"
ColourClasses(col) == {<<k, {v \in DOMAIN col : col[v] = k}>> : k \in {col[v] : v \in DOMAIN col}}
\* bounded search with the same symmetry breaking, for big graphs: is there a proper colouring with <= k colours?
RECURSIVE KColourableFrom(_, _, _, _, _)
KColourableFrom(E, todo, col, used, k) ==
    IF todo = {} THEN TRUE
    ELSE LET v == Min(todo)
             forb == {col[u] : u \in Succ(E, v) \cap DOMAIN col}
             top == IF used + 1 <= k THEN used + 1 ELSE k
         IN \E c \in (1 .. top) \ forb :
               KColourableFrom(E, todo \ {v}, [u \in DOMAIN col \cup {v} |-> IF u = v THEN c ELSE col[u]],
                               IF c > used THEN c ELSE used, k)
KColourable(V, E, k) == k >= 0 /\ KColourableFrom(E, V, <<>>, 0, k)
\* The same search as a step relation over a FIXED vertex order ord (any permutation of V), for
\* graphs far beyond enumeration: ChromaticSearch.tla runs it as a state machine and TLC exhausts
\* it.  A state is col, the colours of ord[1..Len(col)].  Canonical form: colours are numbered in
\* the order of their first use along ord, so vertex i may take a colour already used or the single
\* next unused one (and none above K).  Every proper colouring with <= K colours has exactly one
\* renaming of this form and its prefixes are of this form too, hence: no complete canonical
\* colouring is reachable from <<>>  <=>  the graph has no proper colouring with <= K colours.
\* (StructuralR1 SearchOK: TLC proves this against ChiDef on every graph <= 5 nodes, every order.)
IsPermOf(ord, V) == Len(ord) = Cardinality(V) /\ Rng(ord) = V
BackSets(E, ord) == [i \in DOMAIN ord |-> {j \in 1 .. i - 1 : <<ord[j], ord[i]>> \in E}]   \* earlier neighbours, as positions
SeqMax(c) == IF Len(c) = 0 THEN 0 ELSE Max(Rng(c))
CanonChoices(back, col, K) ==
    LET i == Len(col) + 1
        mu == SeqMax(col)
        top == IF mu + 1 <= K THEN mu + 1 ELSE K
    IN {c \in 1 .. top : \A j \in back[i] : col[j] # c}
RECURSIVE CanonCompletable(_, _, _, _)
CanonCompletable(back, n, col, K) ==
    IF Len(col) = n THEN TRUE
    ELSE \E c \in CanonChoices(back, col, K) : CanonCompletable(back, n, Append(col, c), K)
\* a partial colouring is admissible iff its nodes exist and it is proper on its domain
PartialOK(V, E, part) == DOMAIN part \subseteq V /\ \A e \in E : (e[1] \in DOMAIN part /\ e[2] \in DOMAIN part) => part[e[1]] # part[e[2]]
Extends(col, part) == \A v \in DOMAIN part : col[v] = part[v]

(******************************* products ***********************************)
\* node set Va \X Vb; result: set of unordered pairs {p, q} of product nodes, as ordered pairs both ways
Adj(E, u, v) == <<u, v>> \in E
ProductEdges(kind, Va, Ea, Vb, Eb) ==
    LET N == Va \X Vb
        C(p, q) == (p[1] = q[1] /\ Adj(Eb, p[2], q[2])) \/ (Adj(Ea, p[1], q[1]) /\ p[2] = q[2])
        T(p, q) == Adj(Ea, p[1], q[1]) /\ Adj(Eb, p[2], q[2])
    IN {pq \in N \X N :
          LET p == pq[1] q == pq[2] IN
          /\ p # q
          /\ CASE kind = "Cartesian" -> C(p, q)
               [] kind = "Tensor" -> T(p, q)
               [] kind = "Lexicographical" -> Adj(Ea, p[1], q[1]) \/ (p[1] = q[1] /\ Adj(Eb, p[2], q[2]))
               [] kind = "Strong" -> C(p, q) \/ T(p, q)
               [] kind = "CoNormal" -> Adj(Ea, p[1], q[1]) \/ Adj(Eb, p[2], q[2])
               [] kind = "Modular" -> /\ p[1] # q[1] /\ p[2] # q[2]
                                      /\ \/ T(p, q)
                                         \/ (~Adj(Ea, p[1], q[1]) /\ ~Adj(Eb, p[2], q[2]))}
ProductKinds == {"Cartesian", "Tensor", "Lexicographical", "Strong", "CoNormal", "Modular"}

(* Products over ARCS (inputs and destinations of either kind).  The definitions above are statements about    *)
(* ordered pairs: "u ~ v" is "<<u, v>> \in E", there is an arc from u to v.  An undirected input is a          *)
(* symmetric E and its product is symmetric; for a directed input the same formula gives the arcs p -> q of    *)
(* the product (gonum asks a.From(u) / a.Edge(u, v), which is this reading for both kinds of input).           *)
(* What the destination holds afterwards - every function of graph/product calls dst.SetEdge(dst.NewEdge(p,    *)
(* q)) for arcs p -> q of the product and nothing else:                                                         *)
(*   a DIRECTED destination holds exactly the arcs of the product: an undirected edge of the product is a      *)
(*     pair of arcs, both present (K2 modular K2 = 4 arcs);                                                     *)
(*   an UNDIRECTED destination holds the edge {p, q} iff p -> q or q -> p is an arc of the product.             *)
ProductArcs(kind, Va, Ea, Vb, Eb) == ProductEdges(kind, Va, Ea, Vb, Eb)
PairLess(p, q) == p[1] < q[1] \/ (p[1] = q[1] /\ p[2] < q[2])
DstHolds(dirDst, arcs) == IF dirDst THEN arcs ELSE {pq \in Sym(arcs) : PairLess(pq[1], pq[2])}   \* one representative per edge
(* ModularExt (documented): "In addition to the modular product conditions, agree(u1v1, u2v2) must return true *)
(* when (u1~v1 and u2~v2) for an edge to be added between (u1, u2) and (v1, v2) in dst.  If agree is nil,      *)
(* Modular is called."  Agreement functions of the model: "true", "false", "nil" (no function) and "weq" =     *)
(* the two arcs carry the same weight (Wa, Wb: functions on the arcs; symmetric for an undirected input).      *)
AgreeKinds == {"true", "false", "weq", "nil"}
ModularExtArcs(agree, Va, Ea, Wa, Vb, Eb, Wb) ==
    LET N == Va \X Vb
        Agree(p, q) == CASE agree \in {"true", "nil"} -> TRUE
                         [] agree = "false" -> FALSE
                         [] agree = "weq" -> Wa[<<p[1], q[1]>>] = Wb[<<p[2], q[2]>>]
    IN {pq \in N \X N :
          LET p == pq[1] q == pq[2] IN
          /\ p[1] # q[1] /\ p[2] # q[2]
          /\ IF Adj(Ea, p[1], q[1]) THEN Adj(Eb, p[2], q[2]) /\ Agree(p, q)
                                    ELSE ~Adj(Eb, p[2], q[2])}

(************************* deterministic generators *************************)
\* ids: a sequence of distinct node ids; result: directed edge set (earlier -> later / centre -> leaf)
\* Tree (n-ary tree built breadth-first over the listed nodes): the node at 0-based index j > 0 has its
\* parent at index (j - 1) \div fan
TreeParent(j, fan) == (j - 1) \div fan
GenEdges(kind, ids, c, fan) ==
    LET n == Len(ids) IN
    CASE kind = "Complete" -> {<<ids[x[1]], ids[x[2]]>> : x \in {y \in (1 .. n) \X (1 .. n) : y[1] < y[2]}}
      [] kind = "Path"  -> {<<ids[i], ids[i + 1]>> : i \in 1 .. n - 1}
      [] kind = "Cycle" -> IF n < 2 THEN {} ELSE {<<ids[i], ids[(i % n) + 1]>> : i \in 1 .. n}
      [] kind = "Star"  -> {<<c, ids[i]>> : i \in 1 .. n}
      [] kind = "Wheel" -> {<<c, ids[i]>> : i \in 1 .. n} \cup (IF n < 2 THEN {} ELSE {<<ids[i], ids[(i % n) + 1]>> : i \in 1 .. n})
      [] kind = "Tree"  -> {<<ids[TreeParent(j, fan) + 1], ids[j + 1]>> : j \in 1 .. n - 1}
GenNodes(kind, ids, c) == Rng(ids) \cup (IF kind \in {"Star", "Wheel"} THEN {c} ELSE {})
GenKinds == {"Complete", "Path", "Cycle", "Star", "Wheel", "Tree"}

\* the documented panics: an id appearing twice among the listed ids (and the centre of Star / Wheel) - a
\* single id cannot appear twice, and Star / Wheel check nothing when there is no leaf; Tree: when there is
\* more than one node the fan-out must be non-zero and less than the number of nodes
GenInjective(s) == \A i \in DOMAIN s : \A j \in DOMAIN s : i # j => s[i] # s[j]
GenPanics(kind, ids, c, fan) ==
    LET n == Len(ids)
        hasC == kind \in {"Star", "Wheel"}
        dup == ~GenInjective(ids) \/ (hasC /\ n > 0 /\ c \in Rng(ids))
    IN IF kind = "Tree" THEN n > 1 /\ (fan = 0 \/ n <= fan \/ dup)
       ELSE IF hasC THEN dup
       ELSE n >= 2 /\ dup

\* a second formulation of every generator (R1 cross-check of GenEdges on distinct ids; positions 1..n):
\* Tree by children - the children of 0-based index i are the indices fan*i+1 .. fan*i+fan that exist
TreeByChildren(n, fan) == {p \in (1 .. n) \X (1 .. n) : fan * (p[1] - 1) + 1 <= p[2] - 1 /\ p[2] - 1 <= fan * (p[1] - 1) + fan}
OutDeg(Es, v) == Cardinality({e \in Es : e[1] = v})
InDeg(Es, v) == Cardinality({e \in Es : e[2] = v})
CeilDiv(a, b) == (a + b - 1) \div b
\* positions as ids (ids = <<1, .., n>>), centre n + 1
GenShapeOK(kind, n, fan) ==
    LET ids == [i \in 1 .. n |-> i]
        Es == GenEdges(kind, ids, n + 1, fan)
        U == Sym(Es)
    IN CASE kind = "Complete" -> Cardinality(Es) = (n * (n - 1)) \div 2 /\ \A u \in 1 .. n : \A v \in 1 .. n : u # v => <<u, v>> \in U
         [] kind = "Path" -> /\ Cardinality(Es) = (IF n = 0 THEN 0 ELSE n - 1)
                             /\ \A v \in 1 .. n : OutDeg(Es, v) = (IF v = n THEN 0 ELSE 1) /\ InDeg(Es, v) = (IF v = 1 THEN 0 ELSE 1)
                             /\ (n > 0 => Reach(Es, 1) = 1 .. n)
         [] kind = "Cycle" -> /\ Cardinality(Es) = (IF n < 2 THEN 0 ELSE n)
                              /\ (n >= 2 => \A v \in 1 .. n : OutDeg(Es, v) = 1 /\ InDeg(Es, v) = 1 /\ Reach(Es, v) = 1 .. n)
         [] kind = "Star" -> Es = {n + 1} \X (1 .. n)
         [] kind = "Wheel" -> Es = GenEdges("Star", ids, n + 1, fan) \cup GenEdges("Cycle", ids, n + 1, fan)
         [] kind = "Tree" -> (fan >= 1 /\ (n <= 1 \/ fan < n)) =>
                             /\ Es = TreeByChildren(n, fan)
                             /\ Cardinality(Es) = (IF n = 0 THEN 0 ELSE n - 1)
                             /\ \A v \in 2 .. n : InDeg(Es, v) = 1
                             /\ \A v \in 1 .. n : OutDeg(Es, v) <= fan
                             /\ (n > 0 => Reach(Es, 1) = 1 .. n /\ InDeg(Es, 1) = 0)
                             \* breadth-first: internal nodes are exactly the first ceil((n-1)/fan) positions, all of
                             \* them full except possibly the last
                             /\ {v \in 1 .. n : OutDeg(Es, v) > 0} = 1 .. CeilDiv(n - 1, fan)
                             /\ \A v \in 1 .. (CeilDiv(n - 1, fan) - 1) : OutDeg(Es, v) = fan
=============================================================================
