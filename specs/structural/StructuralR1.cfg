SPECIFICATION Spec
CONSTANTS
  N = @N@
  Directed = @DIRECTED@
INVARIANTS @INVS@
CHECK_DEADLOCK FALSE
