---------------------------- MODULE RandGenDefs ----------------------------
(* What the RANDOM generators of graph/graphs/gen promise for EVERY outcome (their output is random, so the    *)
(* specification states what holds whatever the random source delivers), and - for Gnp - the outcome as a     *)
(* function of the variates of a scripted source.  Source of every clause: the doc comment of the generator    *)
(* (quoted at the clause).  One call is described by a record ev:                                              *)
(*   parameters  gen, dst ("und" / "dir": simple graphs, "mund" / "mdir": multigraphs), n, m, d, q, r, dims,    *)
(*               probabilities as exact rationals pn/pd (p), dn/dd (delta), an/ad (alpha), sn/sd (sigma,        *)
(*               sd = 0: NaN), src ("nil" = the global source, "pcg" = a seeded source, "script" = a source      *)
(*               that plays back the variates us), pre (what dst holds before the call)                          *)
(*   outcome     new (the nodes handed to AddNode, in call order), calls (the ends of every SetEdge / SetLine     *)
(*               call, in call order), postn / poste (nodes and edges / lines of dst afterwards), err, panic,    *)
(*               new2 / calls2 (the same call repeated on a fresh destination with an identically seeded         *)
(*               source), p1 / p2 (BipartitePowerLaw's partitions), used (variates consumed from a script).      *)
(* Node names: the k-th node created by the call is k (1, 2, ...); nodes that were in dst before are 101, 102.   *)
(* PreferentialAttachment names its nodes itself (ids 0 .. n-1): there node id i is i + 1.                       *)
EXTENDS Structural

(***************************** exact rationals ********************************)
RLt(a, b) == a[1] * b[2] < b[1] * a[2]          \* denominators > 0
RLe(a, b) == a[1] * b[2] <= b[1] * a[2]
RZero == <<0, 1>>
ROne  == <<1, 1>>
IsProb(a) == RLe(RZero, a) /\ RLe(a, ROne)       \* a probability: in [0, 1]

(***************** Gnp as a function of the variates (scripted source) ********)
(* "Gnp constructs a Gilbert's model subgraph in the destination, dst, of order n.  Edges between nodes are     *)
(* formed with the probability, p."  The file says how: "random graph generators from the paper by Batagelj     *)
(* and Brandes" - G(n,p) by geometric skipping: the pairs {w, v}, w < v, are numbered v(v-1)/2 + w; from         *)
(* position -1 the next edge is the pair 1 + k positions further, k = the number of failures before the first   *)
(* success of a Bernoulli(p) sequence, drawn by inversion of a uniform variate u: k = floor(log(1-u)/log(1-p)),  *)
(* i.e. the k with (1-p)^(k+1) < 1-u <= (1-p)^k; the construction ends when the position passes the last pair.   *)
(* A directed destination gets a second, independent pass for the arcs v -> w.                                   *)
NPairs(n) == (n * (n - 1)) \div 2
PairAt(i) == LET v == CHOOSE x \in 1 .. i + 1 : (x * (x - 1)) \div 2 <= i /\ i < (x * (x + 1)) \div 2
             IN <<i - (v * (v - 1)) \div 2, v>>                 \* <<w, v>>, 0-based, w < v
\* positional definition: the j-th edge lies at position k1 + (1 + k2) + ... + (1 + kj)
RECURSIVE SkipPositions(_, _, _)
SkipPositions(ks, i, pos) == IF i > Len(ks) THEN <<>> ELSE <<pos + 1 + ks[i]>> \o SkipPositions(ks, i + 1, pos + 1 + ks[i])
GnpPositions(n, ks) == {x \in Rng(SkipPositions(ks, 1, -1)) : x < NPairs(n)}
GnpPairs(n, ks) == {PairAt(i) : i \in GnpPositions(n, ks)}
\* number of variates one pass consumes: one per edge and the one that passes the end (none when n < 2)
GnpDraws(n, ks) == IF n < 2 THEN 0 ELSE Cardinality(GnpPositions(n, ks)) + 1
\* the loop of the paper (ALG. 1), as a second formulation: state (v, w), one variate per turn
RECURSIVE BBAdvance(_, _, _)
BBAdvance(n, v, w) == IF w >= v /\ v < n THEN BBAdvance(n, v + 1, w - v) ELSE <<v, w>>
RECURSIVE BBLoop(_, _, _, _, _)
BBLoop(n, ks, i, v, w) ==
    IF v >= n \/ i > Len(ks) THEN {}
    ELSE LET vw == BBAdvance(n, v, w + 1 + ks[i])
         IN (IF vw[1] < n THEN {<<vw[2], vw[1]>>} ELSE {}) \cup BBLoop(n, ks, i + 1, vw[1], vw[2])
\* the skip sequence that yields a given set S of pair positions (the inverse: scripts <-> graphs is a bijection),
\* ending with the least skip that passes the end
RECURSIVE SkipsOf(_, _, _)
SkipsOf(S, last, N) == IF S = {} THEN <<N - 1 - last>>
                       ELSE LET x == Min(S) IN <<x - last - 1>> \o SkipsOf(S \ {x}, x, N)
\* the variate u (a dyadic rational <<num, den>>) that stands for the skip k at probability p: 1-u lies strictly
\* inside ((1-p)^(k+1), (1-p)^k], away from both ends by a factor: 1-u = c/8 * (1-p)^k with 1-p < c/8 < 1
ProbsScripted == {<<1, 2>>, <<1, 4>>, <<3, 4>>}
QNum(p) == p[2] - p[1]                         \* 1-p = QNum/2^QLog
QLog(p) == IF p[2] = 2 THEN 1 ELSE 2
CFac(p) == CASE p = <<1, 2>> -> 6 [] p = <<1, 4>> -> 7 [] p = <<3, 4>> -> 5
VariateOf(p, k) == LET den == 2 ^ (3 + QLog(p) * k) IN <<den - CFac(p) * QNum(p) ^ k, den>>
\* geometric skip by inversion, for checking VariateOf (exact integer arithmetic; k small enough for 32 bits)
GeoSkipIs(p, u, k) == LET x == <<u[2] - u[1], u[2]>>                     \* 1 - u
                          q == <<QNum(p), 2 ^ QLog(p)>>
                      IN /\ x[1] * q[2] ^ k <= q[1] ^ k * x[2]            \* x <= q^k
                         /\ q[1] ^ (k + 1) * x[2] < x[1] * q[2] ^ (k + 1)  \* q^(k+1) < x

(********************** Manhattan grids (NavigableSmallWorld) ****************)
\* coordinates of the i-th created node (0-based) in a grid with the given side lengths, the first dimension
\* running fastest (conv = 1) or slowest (conv = 2): the documentation does not say which; either is accepted
RECURSIVE ProdSeq(_)
ProdSeq(s) == IF Len(s) = 0 THEN 1 ELSE Head(s) * ProdSeq(Tail(s))
RECURSIVE CoordFast(_, _)
CoordFast(i, dims) == IF Len(dims) = 0 THEN <<>> ELSE <<i % Head(dims)>> \o CoordFast(i \div Head(dims), Tail(dims))
Reverse(s) == [i \in DOMAIN s |-> s[Len(s) + 1 - i]]
Coord(i, dims, conv) == IF conv = 1 THEN CoordFast(i, dims) ELSE Reverse(CoordFast(i, Reverse(dims)))
Abs(x) == IF x < 0 THEN -x ELSE x
RECURSIVE SumSeq(_)
SumSeq(s) == IF Len(s) = 0 THEN 0 ELSE Head(s) + SumSeq(Tail(s))
Manhattan(a, b) == SumSeq([i \in DOMAIN a |-> Abs(a[i] - b[i])])

(***************************** the contract ***********************************)
NoDupSeq(s) == Cardinality(Rng(s)) = Len(s)
Directed(ev) == ev.dst \in {"dir", "mdir"}
Multi(ev) == ev.dst \in {"mund", "mdir"}
PreN(ev) == CASE ev.pre = "none" -> {} [] ev.pre = "iso" -> {101} [] ev.pre = "edge" -> {101, 102}
PreE(ev) == IF ev.pre = "edge" THEN {<<101, 102>>} ELSE {}
NormP(ev, c) == IF Directed(ev) \/ c[1] <= c[2] THEN <<c[1], c[2]>> ELSE <<c[2], c[1]>>
CallSet(ev) == {NormP(ev, ev.calls[i]) : i \in DOMAIN ev.calls}
New(ev) == Rng(ev.new)
P(ev) == <<ev.pn, ev.pd>>
Ok(ev) == ~ev.err /\ ev.panic = ""
\* number of SetEdge / SetLine calls at node v (a self loop counts once)
CallsAt(ev, v) == Cardinality({i \in DOMAIN ev.calls : ev.calls[i][1] = v \/ ev.calls[i][2] = v})
\* calls that join v with a node created before it
Attach(ev, v) == {i \in DOMAIN ev.calls : Max({ev.calls[i][1], ev.calls[i][2]}) = v /\ ev.calls[i][1] # ev.calls[i][2]}

\* parameters that the documentation makes illegal: a "probability" outside [0, 1]
ParamErr(ev) ==
    CASE ev.gen \in {"Gnp", "SmallWorldsBB", "TunableClusteringScaleFree"} -> ~IsProb(P(ev))
      [] ev.gen = "Gnm" -> ev.m < 0 \/ ev.m > (IF Directed(ev) THEN 2 ELSE 1) * NPairs(ev.n)     \* "of order n and size m"
      [] ev.gen = "Duplication" -> ~IsProb(<<ev.dn, ev.dd>>) \/ (ev.sd > 0 /\ ~IsProb(<<ev.sn, ev.sd>>))
      [] OTHER -> FALSE
\* parameters for which the call must succeed
Legal(ev) ==
    CASE ev.gen = "Gnp" -> IsProb(P(ev))
      [] ev.gen = "Gnm" -> ~ParamErr(ev)
      [] ev.gen = "SmallWorldsBB" -> IsProb(P(ev)) /\ RLt(P(ev), ROne) /\ ev.d >= 1 /\ 2 * ev.d <= ev.n - 1
      [] ev.gen \in {"PowerLaw", "BipartitePowerLaw"} -> ev.d >= 1
      [] ev.gen = "Duplication" -> ~ParamErr(ev) /\ RLt(RZero, <<ev.an, ev.ad>>) /\ RLe(<<ev.an, ev.ad>>, ROne) /\ ev.n >= 1
      [] ev.gen = "TunableClusteringScaleFree" -> IsProb(P(ev)) /\ ev.n > ev.m /\ ev.m >= 0
      [] ev.gen = "PreferentialAttachment" -> ev.n > ev.m /\ ev.m >= 1
      [] OTHER -> FALSE                                       \* NavigableSmallWorld may run out of distant nodes
\* "of order n" (BipartitePowerLaw: "with 2 x n nodes"; NavigableSmallWorld: the grid)
Order(ev) == CASE ev.gen = "BipartitePowerLaw" -> 2 * ev.n
               [] ev.gen = "NavigableSmallWorld" -> ProdSeq(ev.dims)
               [] OTHER -> ev.n
\* the generators that build "a subgraph in the destination" among the nodes they create
AmongNew(ev) == ev.gen \notin {"Duplication", "PreferentialAttachment"}

\* NavigableSmallWorld: the pairs of created nodes within the local distance (ev.d) of each other
NswLocal(ev, conv) ==
    LET co == [v \in New(ev) |-> Coord(v - 1, ev.dims, conv)]
    IN {uv \in New(ev) \X New(ev) : uv[1] # uv[2] /\ Manhattan(co[uv[1]], co[uv[2]]) <= ev.d /\ (Directed(ev) \/ uv[1] < uv[2])}

\* classes of inputs named in a clause (a known-findings entry can be confined to one):
GnmClass(ev) == IF ev.gen = "Gnm" /\ Directed(ev) /\ ev.m % 2 = 1 THEN ":directed-odd-m" ELSE ""
OrderClass(ev) == IF ev.gen = "Duplication" /\ ev.n = 0 /\ ev.pre = "none" THEN ":n0-into-empty" ELSE ""
PanicClass(ev) == IF ev.gen = "TunableClusteringScaleFree" /\ ev.pre # "none" THEN ":ids-not-from-0" ELSE ""

Clauses(ev) ==
    LET g == ev.gen
        nm(s) == g \o ":" \o s
        ok == Ok(ev)
        new == New(ev)
        n == ev.n
    IN <<
       <<nm("no-panic" \o PanicClass(ev)), ev.panic = "">>,
       <<nm("param-error" \o GnmClass(ev)), (ev.panic = "" /\ ParamErr(ev)) => ev.err>>,
       <<nm("legal-accepted" \o GnmClass(ev)), (ev.panic = "" /\ Legal(ev)) => ~ev.err>>,
       \* the node set afterwards: what was there plus exactly Order(ev) new nodes
       <<nm("order" \o OrderClass(ev)), (ok /\ (g # "PreferentialAttachment" \/ ev.m >= 1)) =>
            /\ NoDupSeq(ev.new) /\ NoDupSeq(ev.postn) /\ new \cap PreN(ev) = {}
            /\ Rng(ev.postn) = PreN(ev) \cup new /\ Cardinality(new) = Order(ev)
            /\ (g = "PreferentialAttachment" => new = 1 .. n)>>,
       \* the destination holds what it held plus what the calls put there
       <<nm("dst-holds-calls"), ok =>
            /\ {NormP(ev, ev.poste[i]) : i \in DOMAIN ev.poste} = PreE(ev) \cup CallSet(ev)
            /\ (Multi(ev) => Len(ev.poste) = Len(ev.calls) + Cardinality(PreE(ev)))>>,
       <<nm("among-new-nodes"), (ok /\ AmongNew(ev)) => \A i \in DOMAIN ev.calls : ev.calls[i][1] \in new /\ ev.calls[i][2] \in new>>,
       <<nm("known-nodes"), ok => \A i \in DOMAIN ev.calls : {ev.calls[i][1], ev.calls[i][2]} \subseteq new \cup PreN(ev)>>,
       <<nm("no-self-loop"), (ok /\ g # "PowerLaw") => \A i \in DOMAIN ev.calls : ev.calls[i][1] # ev.calls[i][2]>>,
       <<nm("no-repeated-edge"), (ok /\ ~Multi(ev)) =>
            \A i \in DOMAIN ev.calls : NormP(ev, ev.calls[i]) \notin PreE(ev) \cup {NormP(ev, ev.calls[j]) : j \in 1 .. i - 1}>>,
       \* (TunableClusteringScaleFree with triad formation, p > 0, permutes neighbours in map order: the code says so)
       <<nm("same-source-same-graph"), (ev.src # "nil" /\ ev.panic = "" /\ ~(g = "TunableClusteringScaleFree" /\ RLt(RZero, P(ev)))) =>
            ev.new2 = ev.new /\ ev.calls2 = ev.calls>>,
       (* ---- Gnp ---- *)
       <<nm("p0-no-edge"), (ok /\ g = "Gnp" /\ P(ev) = RZero) => Len(ev.calls) = 0>>,
       <<nm("p1-complete"), (ok /\ g = "Gnp" /\ P(ev) = ROne) =>
            CallSet(ev) = {pq \in new \X new : pq[1] # pq[2] /\ (Directed(ev) \/ pq[1] < pq[2])}>>,
       <<nm("scripted-edges"), (ok /\ g = "Gnp" /\ ev.src = "script") =>
            LET fw == GnpPairs(n, ev.skips) bw == GnpPairs(n, ev.skips2)
            IN CallSet(ev) = {NormP(ev, <<pr[1] + 1, pr[2] + 1>>) : pr \in fw}
                             \cup (IF Directed(ev) THEN {<<pr[2] + 1, pr[1] + 1>> : pr \in bw} ELSE {})>>,
       <<nm("scripted-draws"), (ok /\ g = "Gnp" /\ ev.src = "script") =>
            ev.used = GnpDraws(n, ev.skips) + (IF Directed(ev) THEN GnpDraws(n, ev.skips2) ELSE 0)>>,
       (* ---- Gnm: "of order n and size m" ---- *)
       <<nm("size" \o GnmClass(ev)), (ok /\ g = "Gnm") => Cardinality(CallSet(ev)) = ev.m /\ Len(ev.calls) = ev.m>>,
       (* ---- SmallWorldsBB: "Node degree is specified by d and edge replacement by the probability, p": a      *)
       (* replacement never adds to the n*d edges of the ring (a directed destination: both passes)              *)
       <<nm("size"), (ok /\ g = "SmallWorldsBB") => Len(ev.calls) <= (IF Directed(ev) THEN 2 ELSE 1) * n * ev.d>>,
       (* ---- PowerLaw / BipartitePowerLaw: "with n nodes and minimum degree d" ---- *)
       <<nm("minimum-degree"), (ok /\ g \in {"PowerLaw", "BipartitePowerLaw"}) => \A v \in new : CallsAt(ev, v) >= ev.d>>,
       <<nm("partitions"), (ok /\ g = "BipartitePowerLaw") =>
            /\ NoDupSeq(ev.p1) /\ NoDupSeq(ev.p2) /\ Len(ev.p1) = n /\ Len(ev.p2) = n
            /\ Rng(ev.p1) \cap Rng(ev.p2) = {} /\ Rng(ev.p1) \cup Rng(ev.p2) = new
            /\ \A i \in DOMAIN ev.calls : (ev.calls[i][1] \in Rng(ev.p1)) # (ev.calls[i][2] \in Rng(ev.p1))>>,
       (* ---- TunableClusteringScaleFree / PreferentialAttachment: "starting from an m order graph ... At each  *)
       (* iteration of graph addition, one node is added with m additional edges joining existing nodes"         *)
       <<nm("m-edges-per-added-node"), (ok /\ g \in {"TunableClusteringScaleFree", "PreferentialAttachment"} /\ ev.m >= 1) =>
            /\ \A v \in 1 .. ev.m : Attach(ev, v) = {}
            /\ \A v \in ev.m + 1 .. n : Cardinality(Attach(ev, v)) = ev.m
            /\ Len(ev.calls) = (n - ev.m) * ev.m>>,
       (* ---- NavigableSmallWorld: "an N-dimensional grid with guaranteed local connectivity ... p defines the   *)
       (* Manhattan distance between local nodes, and q defines the number of out-going long-range connections    *)
       (* from each node"                                                                                          *)
       <<nm("local-connectivity"), (ok /\ g = "NavigableSmallWorld") =>
            \E conv \in {1, 2} : NswLocal(ev, conv) \subseteq CallSet(ev)>>,
       <<nm("long-range-count"), (ok /\ g = "NavigableSmallWorld") =>
            \E conv \in {1, 2} :
               LET far == CallSet(ev) \ NswLocal(ev, conv)
               IN /\ NswLocal(ev, conv) \subseteq CallSet(ev)
                  /\ IF Directed(ev) THEN \A u \in new : Cardinality({c \in far : c[1] = u}) <= ev.q
                     ELSE Cardinality(far) <= ev.q * Cardinality(new)>>
       >>
=============================================================================
