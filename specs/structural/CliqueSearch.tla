----------------------------- MODULE CliqueSearch -----------------------------
(* Completeness of topo.BronKerbosch on RECORDED graphs of 18..36 nodes, far   *)
(* beyond Structural!MaxCliques (recursive operator, used to <= 12 nodes).     *)
(*                                                                             *)
(* Input: the "chrom" events of trace.ndjson with cl = TRUE: node list V,      *)
(* edge list E and the clique family the real routine returned.  The state     *)
(* machine is the increasing-order clique enumeration of Structural.tla        *)
(* (CliqueSteps): its reachable states are exactly the cliques of the graph,   *)
(* each once, and a state with no candidate left is a maximal clique.          *)
(*                                                                             *)
(*   TLC exhausts the state space and NoMissingClique holds                    *)
(*       ==>  every maximal clique of every recorded graph is in the returned  *)
(*            family.  StructuralTrace has checked that every returned clique  *)
(*            is maximal and none is returned twice, so the family IS the set  *)
(*            of maximal cliques.                                              *)
(*   NoMissingClique is violated  ==>  the final state's R is a maximal        *)
(*            clique of graph g that BronKerbosch did not return.              *)
EXTENDS Structural, Json

CONSTANT Skip        \* gids already decided by an earlier run

TraceLog == ndJsonDeserialize("trace.ndjson")
PairsOf(ps) == {<<ps[i][1], ps[i][2]>> : i \in DOMAIN ps}

Insts == {i \in DOMAIN TraceLog : TraceLog[i].k = "chrom" /\ TraceLog[i].cl /\ TraceLog[i].gid \notin Skip}
Pre == TLCEval([i \in Insts |->
          LET e == TraceLog[i]
              V == Rng(e.V)
              E == TLCEval(Sym(PairsOf(e.E)))
          IN [V |-> V,
              adj |-> TLCEval([v \in V |-> Succ(E, v)]),
              fam |-> TLCEval({Rng(e.cliques[j]) : j \in DOMAIN e.cliques}),
              ok |-> /\ Cardinality(V) = Len(e.V)
                     /\ \A p \in E : p[1] \in V /\ p[2] \in V /\ p[1] # p[2]]])
ASSUME \A i \in Insts : Pre[i].ok
\* announces what a clean exhaustion of this run proves (the run counts only if TLC then reports
\* "Model checking completed. No error has been found.")
ASSUME PrintT("CLIQUE-SEARCH-INSTANCES " \o ToString(Cardinality(Insts)))

VARIABLES g,      \* the instance (index of its event in the trace file)
          R,      \* a clique of it
          cand    \* the nodes adjacent to every member of R
vars == <<g, R, cand>>

Init == g \in Insts /\ R = {} /\ cand = Pre[g].V
Next == /\ \E st \in CliqueSteps(Pre[g].adj, R, cand) : R' = st[1] /\ cand' = st[2]
        /\ UNCHANGED g
Spec == Init /\ [][Next]_vars

NoMissingClique == IsCliqueLeaf(R, cand) => R \in Pre[g].fam
=============================================================================
