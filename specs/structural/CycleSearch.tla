----------------------------- MODULE CycleSearch ------------------------------
(* Completeness of topo.DirectedCyclesIn (Johnson's algorithm) on RECORDED      *)
(* digraphs of 8..16 nodes, beyond Structural!ElemCycles (recursive operator,   *)
(* used to <= 7 nodes).                                                         *)
(*                                                                              *)
(* Input: the "dcyc" events of trace.ndjson: node list V, directed edge list E  *)
(* and, for every call made on a rebuilt container, the cycles the real routine *)
(* returned (closing node dropped, rotated to the least node first).  The state *)
(* machine is the path enumeration of Structural.tla (CyclePathSteps): its      *)
(* reachable states are the simple paths whose first node is their least node,  *)
(* each once; one that has an edge back to its first node is an elementary      *)
(* cycle in canonical form, and every elementary cycle is reached that way.     *)
(*                                                                              *)
(*   TLC exhausts the state space and NoMissingCycle holds                      *)
(*       ==>  every elementary cycle of every recorded digraph was returned by  *)
(*            every call.  StructuralTrace has checked that every returned      *)
(*            cycle is an elementary cycle and none is returned twice, so each  *)
(*            output IS the set of elementary cycles.                           *)
(*   NoMissingCycle is violated  ==>  the final state's path is an elementary   *)
(*            cycle of digraph g that some call did not return.                 *)
EXTENDS Structural, Json

CONSTANT Skip        \* gids already decided by an earlier run

TraceLog == ndJsonDeserialize("trace.ndjson")
PairsOf(ps) == {<<ps[i][1], ps[i][2]>> : i \in DOMAIN ps}

Insts == {i \in DOMAIN TraceLog : TraceLog[i].k = "dcyc" /\ TraceLog[i].gid \notin Skip}
Pre == TLCEval([i \in Insts |->
          LET e == TraceLog[i]
              V == Rng(e.V)
              E == TLCEval(PairsOf(e.E))
          IN [V |-> V,
              succ |-> TLCEval([v \in V |-> Succ(E, v)]),
              fams |-> TLCEval({Rng(e.runs[j].cycles) : j \in DOMAIN e.runs}),
              ok |-> /\ Cardinality(V) = Len(e.V) /\ Len(e.runs) >= 1
                     /\ \A p \in E : p[1] \in V /\ p[2] \in V /\ p[1] # p[2]]])
ASSUME \A i \in Insts : Pre[i].ok
\* announces what a clean exhaustion of this run proves (the run counts only if TLC then reports
\* "Model checking completed. No error has been found.")
ASSUME PrintT("CYCLE-SEARCH-INSTANCES " \o ToString(Cardinality(Insts)))

VARIABLES g,      \* the instance (index of its event in the trace file)
          path    \* a simple path of it, first node least (<<>>: start node not chosen yet)
vars == <<g, path>>

Init == g \in Insts /\ path = <<>>
Next == /\ IF path = <<>> THEN \E s \in Pre[g].V : path' = <<s>>
           ELSE \E v \in CyclePathSteps(Pre[g].succ, path) : path' = Append(path, v)
        /\ UNCHANGED g
Spec == Init /\ [][Next]_vars

NoMissingCycle == (path # <<>> /\ ClosesCycle(Pre[g].succ, path)) => \A F \in Pre[g].fams : path \in F
=============================================================================
