------------------------------ MODULE RandGen ------------------------------
(* Generator role for the random generators of graph/graphs/gen: TLC enumerates the bounded grid of calls       *)
(* (parameters incl. the boundary and illegal ones, kind of destination, what the destination holds before,     *)
(* kind of source; for Gnp every script of a scripted source) and prints one case per call.  The harness makes   *)
(* each call on real containers, writes the outcome next to the case, and RandGenTrace.tla judges every outcome  *)
(* with the clauses of RandGenDefs.tla.  R1 (invariants GilbertOK, VariateOK, checked while generating): the     *)
(* positional definition of scripted Gnp equals the loop of the cited paper, skip sequences and graphs           *)
(* correspond one to one with the Gilbert law as weight, and every printed variate selects its skip.              *)
EXTENDS RandGenDefs, Json

CONSTANTS Part,    \* which part of the grid: "all" | "gnp" | "gnm" | "sw" | "pl" | "dup" | "ba" | "nsw"
          Salt

VARIABLE c
Half == <<1, 2>>
NegHalf == <<-1, 2>>
ThreeHalves == <<3, 2>>
Dsts == {"und", "dir"}
Pres == {"none", "edge"}
Base == [gen |-> "", dst |-> "und", n |-> 0, m |-> 0, d |-> 0, q |-> 0, r |-> 0, dims |-> <<>>,
         pn |-> 0, pd |-> 1, dn |-> 0, dd |-> 1, an |-> 1, ad |-> 1, sn |-> 0, sd |-> 1,
         src |-> "pcg", salt |-> 0, skips |-> <<>>, skips2 |-> <<>>, us |-> <<>>, pre |-> "none"]
With(b, f) == [x \in DOMAIN b |-> IF x \in DOMAIN f THEN f[x] ELSE b[x]]
Srcs == {[src |-> "nil", salt |-> 0], [src |-> "pcg", salt |-> 1], [src |-> "pcg", salt |-> 2]}

(* ---- Gnp ---- *)
AllPos(n) == 0 .. NPairs(n) - 1
\* a second position set for the backward pass of a directed destination, derived from the first
Shift(S, n) == IF NPairs(n) = 0 THEN {} ELSE {(x + Cardinality(S) + Salt) % NPairs(n) : x \in S}
ScriptCase(n, p, dst, S, S2, pre) ==
    LET ks == IF n < 2 THEN <<>> ELSE SkipsOf(S, -1, NPairs(n))
        ks2 == IF n < 2 \/ dst # "dir" THEN <<>> ELSE SkipsOf(S2, -1, NPairs(n))
        all == ks \o ks2
    IN With(Base, [gen |-> "Gnp", dst |-> dst, n |-> n, pn |-> p[1], pd |-> p[2], src |-> "script", pre |-> pre,
                   skips |-> ks, skips2 |-> ks2, us |-> [i \in DOMAIN all |-> VariateOf(p, all[i])]])
GnpScripted ==
    \* every script: n <= 4 for the three probabilities, n = 5 for p = 1/2 and an undirected destination;
    \* a directed destination gets every pair of scripts for n <= 3 and one derived second script for n = 4
    UNION {UNION {{ScriptCase(n, p, "und", S, {}, "none") : S \in SUBSET AllPos(n)} : n \in 0 .. 4} : p \in ProbsScripted}
    \cup {ScriptCase(5, Half, "und", S, {}, "none") : S \in SUBSET AllPos(5)}
    \cup UNION {UNION {{ScriptCase(n, p, "dir", SS[1], SS[2], "none") : SS \in (SUBSET AllPos(n)) \X (SUBSET AllPos(n))} : n \in 0 .. 3} : p \in ProbsScripted}
    \cup UNION {{ScriptCase(4, p, "dir", S, Shift(S, 4), "edge") : S \in SUBSET AllPos(4)} : p \in ProbsScripted}
GnpGrid ==
    {With(Base, [gen |-> "Gnp", dst |-> dst, n |-> n, pn |-> p[1], pd |-> p[2], pre |-> pre, src |-> s.src, salt |-> s.salt]) :
        dst \in Dsts, n \in 0 .. 6, p \in {NegHalf, RZero, <<1, 8>>, Half, <<7, 8>>, ROne, ThreeHalves}, pre \in Pres, s \in Srcs}
(* ---- Gnm ---- *)
GnmGrid ==
    UNION {{With(Base, [gen |-> "Gnm", dst |-> dst, n |-> n, m |-> m, pre |-> pre, src |-> s.src, salt |-> s.salt]) :
              dst \in Dsts, m \in -2 .. n * (n - 1) + 2, pre \in Pres, s \in Srcs} : n \in 0 .. 5}
(* ---- SmallWorldsBB ---- *)
SwGrid ==
    UNION {{With(Base, [gen |-> "SmallWorldsBB", dst |-> dst, n |-> n, d |-> d, pn |-> p[1], pd |-> p[2], pre |-> pre,
                        src |-> s.src, salt |-> s.salt]) :
              dst \in Dsts, d \in 0 .. (n - 1) \div 2 + 1, p \in {<<-1, 4>>, RZero, <<1, 8>>, Half, <<7, 8>>, ROne, <<5, 4>>},
              pre \in Pres, s \in Srcs} : n \in 2 .. 9}
(* ---- PowerLaw, BipartitePowerLaw (multigraph destinations) ---- *)
PlGrid ==
    {With(Base, [gen |-> g, dst |-> dst, n |-> n, d |-> d, pre |-> pre, src |-> s.src, salt |-> s.salt]) :
        g \in {"PowerLaw", "BipartitePowerLaw"}, dst \in {"mund", "mdir"}, n \in 0 .. 6, d \in 0 .. 3, pre \in Pres, s \in Srcs}
(* ---- Duplication (undirected destination that can remove edges) ---- *)
DupGrid ==
    {With(Base, [gen |-> "Duplication", n |-> n, dn |-> de[1], dd |-> de[2], an |-> al[1], ad |-> al[2], sn |-> si[1], sd |-> si[2],
                 pre |-> pre, src |-> "pcg", salt |-> s]) :
        n \in 0 .. 6, de \in {NegHalf, RZero, Half, ROne, ThreeHalves}, al \in {Half, ROne},
        si \in {RZero, Half, ROne, <<0, 0>>, <<2, 1>>}, pre \in Pres, s \in 1 .. 2}
(* ---- TunableClusteringScaleFree, PreferentialAttachment ---- *)
BaGrid ==
    {With(Base, [gen |-> "TunableClusteringScaleFree", n |-> n, m |-> m, pn |-> p[1], pd |-> p[2], pre |-> pre, src |-> s.src, salt |-> s.salt]) :
        n \in 0 .. 7, m \in 0 .. 4, p \in {NegHalf, RZero, Half, ROne, ThreeHalves}, pre \in Pres, s \in Srcs}
    \cup {With(Base, [gen |-> "PreferentialAttachment", n |-> n, m |-> m, src |-> s.src, salt |-> s.salt]) :
        n \in 0 .. 8, m \in 0 .. 4, s \in Srcs}
(* ---- NavigableSmallWorld: d = the local distance p of the documentation, q, r ---- *)
NswGrid ==
    {With(Base, [gen |-> "NavigableSmallWorld", dst |-> dst, dims |-> dims, d |-> p, q |-> q, r |-> r, pre |-> pre, src |-> "pcg", salt |-> s]) :
        dst \in Dsts, dims \in {<<1>>, <<2>>, <<4>>, <<2, 2>>, <<3, 2>>, <<2, 3>>, <<3, 3>>, <<2, 2, 2>>, <<4, 3>>},
        p \in 0 .. 2, q \in -1 .. 2, r \in {-1, 0, 2}, pre \in Pres, s \in 1 .. 2}

Cases == CASE Part = "gnp" -> GnpScripted \cup GnpGrid
           [] Part = "gnm" -> GnmGrid
           [] Part = "sw" -> SwGrid
           [] Part = "pl" -> PlGrid
           [] Part = "dup" -> DupGrid
           [] Part = "ba" -> BaGrid
           [] Part = "nsw" -> NswGrid
           [] Part = "all" -> GnpScripted \cup GnpGrid \cup GnmGrid \cup SwGrid \cup PlGrid \cup DupGrid \cup BaGrid \cup NswGrid
Init == c \in Cases
Next == UNCHANGED c
EmitInv == PrintT(ToJson([k |-> "rg"] @@ c))

(* ---- R1 ---- *)
\* with every scripted case: the two formulations of the edge set agree, the script is the inverse image of the
\* position set it was built from, it is consumed exactly, its skips add up to the non-edges (so its probability,
\* p^edges * (1-p)^(sum of skips), is the Gilbert law p^m (1-p)^(N-m)), and each printed variate selects its skip
PassOK(n, ks) ==
    LET N == NPairs(n) pos == GnpPositions(n, ks) IN
    n >= 2 =>
      /\ BBLoop(n, ks, 1, 1, -1) = GnpPairs(n, ks)
      /\ SkipsOf(pos, -1, N) = ks
      /\ Len(ks) = GnpDraws(n, ks)
      /\ SumSeq(ks) = N - Cardinality(pos)
      /\ Cardinality(GnpPairs(n, ks)) = Cardinality(pos)
GilbertOK == c.src = "script" => PassOK(c.n, c.skips) /\ (c.dst = "dir" => PassOK(c.n, c.skips2))
VariateOK == c.src = "script" =>
    LET all == c.skips \o c.skips2 p == <<c.pn, c.pd>> IN
    \A i \in DOMAIN all : /\ c.us[i][1] >= 0 /\ c.us[i][1] < c.us[i][2]
                          /\ (all[i] <= (IF p = Half THEN 20 ELSE 7) => GeoSkipIs(p, c.us[i], all[i]))
=============================================================================
