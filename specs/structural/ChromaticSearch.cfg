SPECIFICATION Spec
CONSTANTS
  Skip = {@SKIP@}
INVARIANT NotComplete
CHECK_DEADLOCK FALSE
