SPECIFICATION Spec
CONSTANTS
  Skip = {@SKIP@}
INVARIANT NoMissingCycle
CHECK_DEADLOCK FALSE
