INIT Init
NEXT Next
CONSTANTS
  Mode = "@MODE@"
  NMin = @NMIN@
  NMax = @NMAX@
  Salt = @SALT@
  Palette = @PALETTE@
INVARIANTS EmitInv GridOK ProdXOK EqualOK
CHECK_DEADLOCK FALSE
