---------------------------- MODULE StructuralGen ----------------------------
(* R2 generator: TLC enumerates every graph of the bounded family (all        *)
(* labelings) and prints, per graph, the answers Structural.tla defines for    *)
(* the routines whose result is determined (set valued or unique).  The Go     *)
(* harness builds the graph in real gonum containers under several id maps,    *)
(* calls the routines and compares with the printed answers.                   *)
EXTENDS Structural, Json

CONSTANTS Mode,      \* "dir" | "und" | "part" | "prod" | "gen"
          NMin, NMax, \* node counts enumerated
          Salt,      \* weight salt (VERIF_SEED)
          Palette    \* "part": colours a partial colouring may use

VARIABLE c           \* the case
DirPairs(n) == {p \in (1 .. n) \X (1 .. n) : p[1] # p[2]}
UPairs(n)   == {p \in DirPairs(n) : p[1] < p[2]}
DirGraphs == UNION {{[V |-> 1 .. n, E |-> D] : D \in SUBSET DirPairs(n)} : n \in NMin .. NMax}
UndGraphs(lo, hi) == UNION {{[V |-> 1 .. n, E |-> Sym(U)] : U \in SUBSET UPairs(n)} : n \in lo .. hi}

None == 99   \* "uncoloured" in a partial colouring
Cases == CASE Mode = "dir"  -> DirGraphs
           [] Mode = "und"  -> UndGraphs(NMin, NMax)
           [] Mode = "part" -> UNION {{[V |-> h.V, E |-> h.E, part |-> p] : p \in [h.V -> Palette \cup {None}]} : h \in UndGraphs(NMin, NMax)}
           [] Mode = "prod" -> {[a |-> x, b |-> y] : x \in UndGraphs(0, NMax), y \in UndGraphs(0, NMax)}
           [] Mode = "gen"  -> [kind : {"Complete", "Path", "Cycle", "Star", "Wheel", "Tree"}, fan : 1 .. 3, ids : UNION {[1 .. n -> 1 .. NMax] : n \in 0 .. NMax}]

Init == c \in Cases
Next == UNCHANGED c

RootRec(V, E, r) ==
    LET blk == (r % Cardinality(V)) + 1                 \* traversal with every edge into blk forbidden
        Eb == {e \in E : e[2] # blk}
    IN [r |-> r, reach |-> Reach(E, r), depth |-> BFSDepthPairs(E, r),
        blk |-> blk, reachblk |-> Reach(Eb, r),
        idom |-> LET T == IDomTree(E, r) IN {<<v, T[v]>> : v \in DOMAIN T}]

DirRec(V, E) ==
    [k |-> "dir", n |-> Cardinality(V), E |-> E,
     sccs |-> SCCs(V, E), cyc |-> CyclicComps(V, E), sorts |-> SortOutputs(V, E),
     cycles |-> ElemCycles(V, E),
     roots |-> {RootRec(V, E, r) : r \in V}]

Wt(e) == ((e[1] * 7 + e[2] * 3 + e[1] * e[2] * Salt + Salt) % 5) - 1     \* in -1..3, many ties
UndRec(V, E) ==
    LET U == UEdges(E)
        W == [e \in U |-> Wt(e)]
        dg == Degeneracy(V, E)
        M == MaxCliques(V, E)
    IN [k |-> "und", n |-> Cardinality(V), E |-> U, W |-> {<<e[1], e[2], W[e]>> : e \in U},
        ccs |-> CCs(V, E), mu |-> CyclomaticNumber(V, E),
        cliques |-> M,
        cg |-> {[a |-> ab[1], b |-> ab[2], s |-> ab[1] \cap ab[2]] : ab \in {x \in CliqueGraphEdges(V, E) : Min(x[1] \ x[2]) < Min(x[2] \ x[1])}},
        kcc |-> [kk \in 1 .. 5 |-> IF kk = 1 THEN (IF V = {} THEN {} ELSE {V}) ELSE KCliqueCommunities(V, E, kk)],
        dgn |-> dg,
        shells |-> [kk \in 1 .. dg + 1 |-> Shell(V, E, kk - 1)],
        kcores |-> [kk \in 1 .. dg + 3 |-> KCore(V, E, kk - 1)],
        msf |-> MSFWeight(V, E, W), chi |-> Chi(V, E),
        roots |-> {[r |-> r, reach |-> Reach(E, r), depth |-> BFSDepthPairs(E, r)] : r \in V}]

PartRec(V, E, p) ==
    LET part == [v \in {x \in V : p[x] # None} |-> p[v]]
    IN [k |-> "part", n |-> Cardinality(V), E |-> UEdges(E), part |-> {<<v, part[v]>> : v \in DOMAIN part},
        ok |-> PartialOK(V, E, part)]

ProdRec(a, b) ==
    [k |-> "prod", na |-> Cardinality(a.V), ea |-> UEdges(a.E), nb |-> Cardinality(b.V), eb |-> UEdges(b.E),
     nodes |-> IF a.V = {} \/ b.V = {} THEN {} ELSE a.V \X b.V,
     prods |-> [kind \in ProductKinds |->
                 {pq \in ProductEdges(kind, a.V, a.E, b.V, b.E) : pq[1][1] < pq[2][1] \/ (pq[1][1] = pq[2][1] /\ pq[1][2] < pq[2][2])}]]

Injective(s) == \A i \in DOMAIN s : \A j \in DOMAIN s : i # j => s[i] # s[j]
GenRec(kind, fan, ids) ==
    LET n == Len(ids)
        ctr == NMax                                       \* centre id for Star / Wheel: may collide with a leaf
        hasC == kind \in {"Star", "Wheel"}
        dup == ~Injective(ids) \/ (hasC /\ n > 0 /\ ctr \in Rng(ids))
        \* documented panics: an id appearing twice (only detectable with >= 2 ids, or a leaf = centre);
        \* Tree: fan-out must be non-zero and less than the number of nodes when there is more than one node
        pan == IF kind = "Tree" THEN n > 1 /\ (n <= fan \/ dup)
               ELSE IF hasC THEN dup
               ELSE n >= 2 /\ dup
    IN [k |-> "gen", kind |-> kind, fan |-> fan, ids |-> ids, ctr |-> ctr, panic |-> pan,
        nodes |-> IF pan THEN {} ELSE GenNodes(kind, ids, ctr),
        edges |-> IF pan THEN {} ELSE GenEdges(kind, ids, ctr, fan)]

Rec == CASE Mode = "dir"  -> DirRec(c.V, c.E)
         [] Mode = "und"  -> UndRec(c.V, c.E)
         [] Mode = "part" -> PartRec(c.V, c.E, c.part)
         [] Mode = "prod" -> ProdRec(c.a, c.b)
         [] Mode = "gen"  -> GenRec(c.kind, c.fan, c.ids)
EmitInv == PrintT(ToJson(Rec))
=============================================================================
