---------------------------- MODULE StructuralGen ----------------------------
(* R2 generator: TLC enumerates every graph of the bounded family (all        *)
(* labelings) and prints, per graph, the answers Structural.tla defines for    *)
(* the routines whose result is determined (set valued or unique).  The Go     *)
(* harness builds the graph in real gonum containers under several id maps,    *)
(* calls the routines and compares with the printed answers.                   *)
EXTENDS Structural, Json

CONSTANTS Mode,      \* "dir" | "und" | "part" | "prod" | "prodx" | "gen" | "grid" | "flow" | "flow5" | "walk" | "equal"
          NMin, NMax, \* node counts enumerated
          Salt,      \* weight salt (VERIF_SEED)
          Palette    \* "part": colours a partial colouring may use

VARIABLE c           \* the case
DirPairs(n) == {p \in (1 .. n) \X (1 .. n) : p[1] # p[2]}
UPairs(n)   == {p \in DirPairs(n) : p[1] < p[2]}
DirGraphs == UNION {{[V |-> 1 .. n, E |-> D] : D \in SUBSET DirPairs(n)} : n \in NMin .. NMax}
UndGraphs(lo, hi) == UNION {{[V |-> 1 .. n, E |-> Sym(U)] : U \in SUBSET UPairs(n)} : n \in lo .. hi}

None == 99   \* "uncoloured" in a partial colouring

(* "prodx": the products over arcs.  An input is a digraph on <= NMax nodes together with the kind of container *)
(* that holds it: "und" (possible only when the arc set is symmetric: every undirected graph) or directed (every *)
(* digraph, the symmetric ones too).  Every ordered pair of inputs is a case: undirected x undirected,          *)
(* undirected x directed, directed x undirected, directed x directed; each case is replayed into a directed and *)
(* an undirected destination.  Arc weights for the weight-equality agreement function of ModularExt: 1 or 2 by a *)
(* salted formula, symmetric when the input is held in an undirected container.                                  *)
DirGraphsTo(m) == UNION {{[V |-> 1 .. n, E |-> D] : D \in SUBSET DirPairs(n)} : n \in 0 .. m}
StoredGraphs(m) == {s \in [g : DirGraphsTo(m), und : BOOLEAN] : s.und => Sym(s.g.E) = s.g.E}
WBase(which, u, v) == ((u * 3 + v * 5 + u * v * Salt + which * 7 + Salt) % 2) + 1
ArcW(which, und, E) == [e \in E |-> IF und THEN WBase(which, Min({e[1], e[2]}), Max({e[1], e[2]})) ELSE WBase(which, e[1], e[2])]

(* "grid": the FULL small grid of the deterministic generators.  Model ids 1 .. NMax for the listed nodes,    *)
(* NMax + 1 for the centre of Star / Wheel, NMax + 2 for a node that is no argument of the call (it is only   *)
(* there in a pre-populated destination).  Per generator: every node count NMin .. NMax x id listings         *)
(* (ascending, descending, a rotation chosen by Salt, and - for the documented panic - the ascending listing  *)
(* with the id at place i repeated at place j, every i < j) x (Star, Wheel) the centre apart from the leaves  *)
(* or equal to the leaf at any place x (Tree) every fan-out 0 .. NMax + 1 x destination empty or              *)
(* pre-populated ("foreign": the first listed node, a foreign node and an edge between them; "overlap": the   *)
(* first two listed nodes and the edge second -> first).  What the call adds to a pre-populated destination   *)
(* is the same node and edge set: the result is the union (gonum: NodeWithID hands back the node that is      *)
(* already there, SetEdge adds to what is there).                                                             *)
GCtr == NMax + 1
GForeign == NMax + 2
Asc(n) == [i \in 1 .. n |-> i]
Desc(n) == [i \in 1 .. n |-> n + 1 - i]
Rot(n) == [i \in 1 .. n |-> ((i + Salt) % n) + 1]
Listings(n) == {Asc(n), Desc(n), Rot(n)}
DupListings(n) == {[Asc(n) EXCEPT ![p[2]] = p[1]] : p \in {q \in (1 .. n) \X (1 .. n) : q[1] < q[2]}}
PreKinds == {"none", "foreign", "overlap"}
GridCases ==
    UNION {
      [kind : {"Complete", "Path", "Cycle"}, fan : {1}, ids : Listings(n) \cup DupListings(n), ctr : {GCtr}, pre : PreKinds]
      \cup [kind : {"Star", "Wheel"}, fan : {1}, ids : DupListings(n), ctr : {GCtr}, pre : PreKinds]
      \cup UNION {[kind : {"Star", "Wheel"}, fan : {1}, ids : {l}, ctr : {GCtr} \cup Rng(l), pre : PreKinds] : l \in Listings(n)}
      \cup [kind : {"Tree"}, fan : 0 .. NMax + 1, ids : Listings(n) \cup DupListings(n), ctr : {GCtr}, pre : PreKinds]
      : n \in NMin .. NMax}
PreNodes(pre, ids) == CASE pre = "none" -> {}
                        [] pre = "foreign" -> {GForeign} \cup (IF Len(ids) > 0 THEN {ids[1]} ELSE {})
                        [] pre = "overlap" -> IF Len(ids) >= 2 THEN {ids[1], ids[2]} ELSE {}
PreEdges(pre, ids) == CASE pre = "none" -> {}
                        [] pre = "foreign" -> IF Len(ids) > 0 THEN {<<GForeign, ids[1]>>} ELSE {}
                        [] pre = "overlap" -> IF Len(ids) >= 2 /\ ids[1] # ids[2] THEN {<<ids[2], ids[1]>>} ELSE {}
(* "flow": control flow intervals of every digraph on NMin .. NMax nodes from every entry node.  "flow5": the   *)
(* digraphs on 5 nodes, entry node 1, one of 64 shards chosen by Salt: the presence of six of the twenty arcs     *)
(* (those out of nodes 4 and 5 into 1, 2, 3) is fixed by the bits of the shard number, the other fourteen range    *)
(* over every subset (16 384 digraphs per shard; the 64 shards together are all 2^20).                            *)
ShardPairs == <<<<4, 1>>, <<4, 2>>, <<4, 3>>, <<5, 1>>, <<5, 2>>, <<5, 3>>>>
ShardNo == (Salt * 37 + 11) % 64
ShardFixed == {ShardPairs[i] : i \in {j \in 1 .. 6 : (ShardNo \div (2 ^ (j - 1))) % 2 = 1}}
Flow5Graphs == {[V |-> 1 .. 5, E |-> D \cup ShardFixed] : D \in SUBSET (DirPairs(5) \ Rng(ShardPairs))}
(* "walk": IsPathIn on every digraph (held directed) and every undirected graph on NMin .. NMax nodes, every node   *)
(* sequence over the nodes and one id that is no node, up to length 4 (3 on 4 nodes).  "equal": topo.Equal on      *)
(* every ordered pair of stored graphs whose node set is ANY subset of 1 .. NMax (98 stored graphs for NMax = 3).   *)
SubGraphs(m) == UNION {{[V |-> W, E |-> D] : D \in SUBSET {p \in W \X W : p[1] # p[2]}} : W \in SUBSET (1 .. m)}
StoredSub(m) == {s \in [g : SubGraphs(m), und : BOOLEAN] : s.und => Sym(s.g.E) = s.g.E}
WalkGraphs == {s \in [g : DirGraphs, und : BOOLEAN] : s.und => Sym(s.g.E) = s.g.E}
Cases == CASE Mode = "dir"  -> DirGraphs
           [] Mode = "flow" -> DirGraphs
           [] Mode = "flow5" -> Flow5Graphs
           [] Mode = "walk" -> WalkGraphs
           [] Mode = "equal" -> {[a |-> x, b |-> y] : x \in StoredSub(NMax), y \in StoredSub(NMax)}
           [] Mode = "und"  -> UndGraphs(NMin, NMax)
           [] Mode = "part" -> UNION {{[V |-> h.V, E |-> h.E, part |-> p] : p \in [h.V -> Palette \cup {None}]} : h \in UndGraphs(NMin, NMax)}
           [] Mode = "prod" -> {[a |-> x, b |-> y] : x \in UndGraphs(0, NMax), y \in UndGraphs(0, NMax)}
           [] Mode = "prodx" -> {[a |-> x, b |-> y] : x \in StoredGraphs(NMax), y \in StoredGraphs(NMax)}
           [] Mode = "gen"  -> [kind : {"Complete", "Path", "Cycle", "Star", "Wheel", "Tree"}, fan : 1 .. 3, ids : UNION {[1 .. n -> 1 .. NMax] : n \in 0 .. NMax}]
           [] Mode = "grid" -> GridCases

Init == c \in Cases
Next == UNCHANGED c

RootRec(V, E, r) ==
    LET blk == (r % Cardinality(V)) + 1                 \* traversal with every edge into blk forbidden
        Eb == {e \in E : e[2] # blk}
    IN [r |-> r, reach |-> Reach(E, r), depth |-> BFSDepthPairs(E, r),
        blk |-> blk, reachblk |-> Reach(Eb, r),
        idom |-> LET T == IDomTree(E, r) IN {<<v, T[v]>> : v \in DOMAIN T}]

DirRec(V, E) ==
    [k |-> "dir", n |-> Cardinality(V), E |-> E,
     sccs |-> SCCs(V, E), cyc |-> CyclicComps(V, E), sorts |-> SortOutputs(V, E),
     cycles |-> ElemCycles(V, E),
     roots |-> {RootRec(V, E, r) : r \in V}]

Wt(e) == ((e[1] * 7 + e[2] * 3 + e[1] * e[2] * Salt + Salt) % 5) - 1     \* in -1..3, many ties
UndRec(V, E) ==
    LET U == UEdges(E)
        W == [e \in U |-> Wt(e)]
        dg == Degeneracy(V, E)
        M == MaxCliques(V, E)
    IN [k |-> "und", n |-> Cardinality(V), E |-> U, W |-> {<<e[1], e[2], W[e]>> : e \in U},
        ccs |-> CCs(V, E), mu |-> CyclomaticNumber(V, E),
        cliques |-> M,
        cg |-> {[a |-> ab[1], b |-> ab[2], s |-> ab[1] \cap ab[2]] : ab \in {x \in CliqueGraphEdges(V, E) : Min(x[1] \ x[2]) < Min(x[2] \ x[1])}},
        kcc |-> [kk \in 1 .. 5 |-> IF kk = 1 THEN (IF V = {} THEN {} ELSE {V}) ELSE KCliqueCommunities(V, E, kk)],
        dgn |-> dg,
        shells |-> [kk \in 1 .. dg + 1 |-> Shell(V, E, kk - 1)],
        kcores |-> [kk \in 1 .. dg + 3 |-> KCore(V, E, kk - 1)],
        msf |-> MSFWeight(V, E, W), chi |-> Chi(V, E),
        roots |-> {[r |-> r, reach |-> Reach(E, r), depth |-> BFSDepthPairs(E, r)] : r \in V}]

PartRec(V, E, p) ==
    LET part == [v \in {x \in V : p[x] # None} |-> p[v]]
    IN [k |-> "part", n |-> Cardinality(V), E |-> UEdges(E), part |-> {<<v, part[v]>> : v \in DOMAIN part},
        ok |-> PartialOK(V, E, part)]

ProdRec(a, b) ==
    [k |-> "prod", na |-> Cardinality(a.V), ea |-> UEdges(a.E), nb |-> Cardinality(b.V), eb |-> UEdges(b.E),
     nodes |-> IF a.V = {} \/ b.V = {} THEN {} ELSE a.V \X b.V,
     prods |-> [kind \in ProductKinds |->
                 {pq \in ProductEdges(kind, a.V, a.E, b.V, b.E) : pq[1][1] < pq[2][1] \/ (pq[1][1] = pq[2][1] /\ pq[1][2] < pq[2][2])}]]

\* the products over arcs: per product the arcs a directed destination must hold and the edges an undirected one must hold
ExtKeys == {"ModularExt:false", "ModularExt:weq"}
ProdXArcs(key, sa, sb) ==
    IF key \in ProductKinds THEN ProductArcs(key, sa.g.V, sa.g.E, sb.g.V, sb.g.E)
    ELSE ModularExtArcs(IF key = "ModularExt:false" THEN "false" ELSE "weq",
                        sa.g.V, sa.g.E, ArcW(0, sa.und, sa.g.E), sb.g.V, sb.g.E, ArcW(1, sb.und, sb.g.E))
StoredEdges(s) == IF s.und THEN UEdges(s.g.E) ELSE s.g.E
ProdXRec(sa, sb) ==
    LET Wa == ArcW(0, sa.und, sa.g.E)
        Wb == ArcW(1, sb.und, sb.g.E)
        A == [key \in ProductKinds \cup ExtKeys |-> ProdXArcs(key, sa, sb)]
    IN [k |-> "prodx", na |-> Cardinality(sa.g.V), aund |-> sa.und, ea |-> StoredEdges(sa),
        wa |-> {<<e[1], e[2], Wa[e]>> : e \in StoredEdges(sa)},
        nb |-> Cardinality(sb.g.V), bund |-> sb.und, eb |-> StoredEdges(sb),
        wb |-> {<<e[1], e[2], Wb[e]>> : e \in StoredEdges(sb)},
        nodes |-> IF sa.g.V = {} \/ sb.g.V = {} THEN {} ELSE sa.g.V \X sb.g.V,
        arcs |-> A,                                                   \* what a directed destination holds
        uedges |-> [key \in DOMAIN A |-> DstHolds(FALSE, A[key])],    \* what an undirected destination holds
        \* an agreement function that is always true, and no agreement function, give the Modular product
        alias |-> [key \in {"ModularExt:true", "ModularExt:nil"} |-> "Modular"]]
\* R1 with every "prodx" case: the alias claim, the weight-equality product lies between the always-false one and
\* Modular, symmetric inputs give symmetric products (then an undirected destination holds half as many edges as a
\* directed one holds arcs), and the two destinations hold the same pairs up to orientation
ProdXOK == Mode = "prodx" =>
    LET sa == c.a  sb == c.b
        Wa == ArcW(0, sa.und, sa.g.E)
        Wb == ArcW(1, sb.und, sb.g.E)
        M == ProdXArcs("Modular", sa, sb)
        F == ProdXArcs("ModularExt:false", sa, sb)
        Q == ProdXArcs("ModularExt:weq", sa, sb)
        Ext(ag) == ModularExtArcs(ag, sa.g.V, sa.g.E, Wa, sb.g.V, sb.g.E, Wb)
    IN /\ Ext("true") = M /\ Ext("nil") = M
       /\ F \subseteq Q /\ Q \subseteq M
       /\ (sa.und => \A e \in sa.g.E : Wa[e] = Wa[<<e[2], e[1]>>]) /\ (sb.und => \A e \in sb.g.E : Wb[e] = Wb[<<e[2], e[1]>>])
       /\ \A key \in ProductKinds \cup ExtKeys :
             LET X == ProdXArcs(key, sa, sb) U == DstHolds(FALSE, X) IN
             /\ DstHolds(TRUE, X) = X
             /\ Sym(U) = Sym(X) /\ \A pq \in U : <<pq[2], pq[1]>> \notin U
             /\ ((Sym(sa.g.E) = sa.g.E /\ Sym(sb.g.E) = sb.g.E /\ (key # "ModularExt:weq" \/ (sa.und /\ sb.und)))
                    => (Sym(X) = X /\ 2 * Cardinality(U) = Cardinality(X)))

\* control flow intervals: per entry node the intervals (header, nodes, the edges inside), the edges of the derived
\* graph between headers, and the classes of the input
FlowRoot(V, E, r) ==
    [r |-> r,
     ivs |-> {[h |-> iv[1], nodes |-> iv[2], inner |-> Induced(E, iv[2])] : iv \in Intervals(E, r)},
     dg |-> IvGraphEdges(E, r),
     tags |-> IvTags(E, r)]
FlowRec(V, E, roots) == [k |-> "flow", n |-> Cardinality(V), E |-> E, roots |-> {FlowRoot(V, E, r) : r \in roots}]
WalkLen(n) == IF n <= 3 THEN 4 ELSE 3
WalkRec(s) ==
    LET n == Cardinality(s.g.V)
        ids == 1 .. n + 1                               \* n + 1 is no node of the graph
    IN [k |-> "walk", n |-> n, und |-> s.und, E |-> StoredEdges(s), maxlen |-> WalkLen(n),
        yes |-> UNION {{p \in [1 .. len -> ids] : IsPathIn(s.g.V, s.g.E, p)} : len \in 0 .. WalkLen(n)}]
EqualRec(sa, sb) ==
    [k |-> "equal", nmodel |-> NMax,
     va |-> sa.g.V, aund |-> sa.und, ea |-> StoredEdges(sa),
     vb |-> sb.g.V, bund |-> sb.und, eb |-> StoredEdges(sb),
     equal |-> TopoEqual(sa.g.V, sa.g.E, sb.g.V, sb.g.E)]
\* R1 with every "equal" case: equality is that of the node sets and the arc sets
EqualOK == Mode = "equal" => (TopoEqual(c.a.g.V, c.a.g.E, c.b.g.V, c.b.g.E) <=> (c.a.g.V = c.b.g.V /\ c.a.g.E = c.b.g.E))

GenRec(kind, fan, ids) ==
    LET ctr == NMax                                       \* centre id for Star / Wheel: may collide with a leaf
        pan == GenPanics(kind, ids, ctr, fan)             \* the documented panics
    IN [k |-> "gen", kind |-> kind, fan |-> fan, ids |-> ids, ctr |-> ctr, panic |-> pan,
        pre |-> [kind |-> "none", nodes |-> {}, edges |-> {}], nmodel |-> NMax + 1,
        nodes |-> IF pan THEN {} ELSE GenNodes(kind, ids, ctr),
        edges |-> IF pan THEN {} ELSE GenEdges(kind, ids, ctr, fan)]

GridRec(kind, fan, ids, ctr, pre) ==
    LET pan == GenPanics(kind, ids, ctr, fan)
    IN [k |-> "gen", kind |-> kind, fan |-> fan, ids |-> ids, ctr |-> ctr, panic |-> pan,
        pre |-> [kind |-> pre, nodes |-> PreNodes(pre, ids), edges |-> PreEdges(pre, ids)], nmodel |-> GForeign,
        nodes |-> IF pan THEN {} ELSE GenNodes(kind, ids, ctr) \cup PreNodes(pre, ids),
        edges |-> IF pan THEN {} ELSE GenEdges(kind, ids, ctr, fan) \cup PreEdges(pre, ids)]
\* R1 on the generator definitions, evaluated with every enumerated case: the two formulations of each shape
\* agree, degrees / sizes / connectivity are those of the named graph, and the panic rule of the old "gen"
\* record is the module's GenPanics
GridOK == Mode = "grid" => GenShapeOK(c.kind, Len(c.ids), c.fan)

Rec == CASE Mode = "dir"  -> DirRec(c.V, c.E)
         [] Mode = "flow" -> FlowRec(c.V, c.E, c.V)
         [] Mode = "flow5" -> FlowRec(c.V, c.E, {1})
         [] Mode = "walk" -> WalkRec(c)
         [] Mode = "equal" -> EqualRec(c.a, c.b)
         [] Mode = "und"  -> UndRec(c.V, c.E)
         [] Mode = "part" -> PartRec(c.V, c.E, c.part)
         [] Mode = "prod" -> ProdRec(c.a, c.b)
         [] Mode = "prodx" -> ProdXRec(c.a, c.b)
         [] Mode = "gen"  -> GenRec(c.kind, c.fan, c.ids)
         [] Mode = "grid" -> GridRec(c.kind, c.fan, c.ids, c.ctr, c.pre)
EmitInv == PrintT(ToJson(Rec))
=============================================================================
