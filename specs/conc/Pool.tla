--------------------------------- MODULE Pool ---------------------------------
(* The workspace discipline of mat/pool.go on top of sync.Pool.                  *)
(*                                                                              *)
(* Part 1 (holders).  G goroutines repeatedly get a workspace, use it, and put  *)
(* it back.  A correct client puts each workspace it got exactly once.  R1      *)
(* shows the discipline keeps every buffer with at most one holder; the         *)
(* DoublePut constant models the regression (a workspace returned twice) and    *)
(* TLC then finds two holders of one buffer - the state the trace acceptor      *)
(* (ForkJoinTrace PGet/PPut) rejects in real logs.                              *)
(*                                                                              *)
(* Part 2 (size classes).  The pools are stratified by size: class k hands out  *)
(* buffers for requests of 2^(k-1) < l <= 2^k elements by RESLICING the         *)
(* buffer to l, so every buffer filed under class k must have capacity >= 2^k   *)
(* (ClassPromise); put files a buffer under PoolFor(cap).  A holder may         *)
(* replace the backing array of a workspace while it holds it (a Reset          *)
(* followed by a larger reuseAs reallocates): Regrow = 0 never, 1 only to       *)
(* power-of-two capacities (harmless: PoolFor(2^k) = k), 2 to the exact         *)
(* requested capacity (the regression: PoolFor(10) = 4 promises 16).  With      *)
(* Regrow = 2 TLC must find ClassPromise and NoSliceOutOfRange violated; the    *)
(* trace acceptor states the same clause on logged put events (CapOK).          *)
EXTENDS Integers, FiniteSets, TLC

CONSTANTS G, B, DoublePut, Regrow, MaxClass

Gs == 1 .. G
Bufs == 1 .. B
Classes == 0 .. MaxClass
Pow2(k) == 2 ^ k
MaxCap == Pow2(MaxClass)
\* ceiling of the base 2 logarithm (mat/pool.go poolFor)
PoolFor(size) == IF size <= 1 THEN 0 ELSE CHOOSE k \in 1 .. 30 : Pow2(k) >= size /\ Pow2(k - 1) < size

VARIABLES pool, holds, putsLeft,    \* pool: bag of buffers (count per buffer); holds[g]: buffer or 0
          cap, cls,                 \* capacity of each buffer; class under which a pooled buffer is filed
          oob                       \* a get resliced a buffer beyond its capacity (a run-time panic in the code)
vars == <<pool, holds, putsLeft, cap, cls, oob>>

\* buffer b starts pooled in class (b - 1) % (MaxClass + 1) with the capacity sync.Pool.New gives it
Init == /\ pool = [b \in Bufs |-> 1] /\ holds = [g \in Gs |-> 0] /\ putsLeft = [g \in Gs |-> 0]
        /\ cls = [b \in Bufs |-> (b - 1) % (MaxClass + 1)]
        /\ cap = [b \in Bufs |-> Pow2((b - 1) % (MaxClass + 1))]
        /\ oob = FALSE

\* goroutine g asks for l elements and is handed buffer b of class PoolFor(l)
Get(g, b, l) == /\ holds[g] = 0 /\ putsLeft[g] = 0 /\ pool[b] > 0 /\ cls[b] = PoolFor(l)
                /\ pool' = [pool EXCEPT ![b] = @ - 1] /\ holds' = [holds EXCEPT ![g] = b]
                /\ putsLeft' = [putsLeft EXCEPT ![g] = IF DoublePut /\ g = 1 THEN 2 ELSE 1]
                /\ oob' = (oob \/ l > cap[b])
                /\ UNCHANGED <<cap, cls>>
\* the holder needs more room than the workspace has: the backing array is replaced
Grow(g, c) == /\ holds[g] # 0 /\ putsLeft[g] > 0 /\ Regrow > 0 /\ c > cap[holds[g]]
              /\ (Regrow = 1) => (\E k \in Classes : c = Pow2(k))
              /\ cap' = [cap EXCEPT ![holds[g]] = c]
              /\ UNCHANGED <<pool, holds, putsLeft, cls, oob>>
Put(g) == /\ holds[g] # 0 /\ putsLeft[g] > 0
          /\ pool' = [pool EXCEPT ![holds[g]] = @ + 1]
          /\ cls' = [cls EXCEPT ![holds[g]] = PoolFor(cap[holds[g]])]
          /\ putsLeft' = [putsLeft EXCEPT ![g] = @ - 1]
          /\ holds' = [holds EXCEPT ![g] = IF putsLeft[g] = 1 THEN 0 ELSE @]
          /\ UNCHANGED <<cap, oob>>
Next == \E g \in Gs : Put(g) \/ (\E b \in Bufs, l \in 1 .. MaxCap : Get(g, b, l)) \/ (\E c \in 1 .. MaxCap : Grow(g, c))
Spec == Init /\ [][Next]_vars

Exclusive == \A g1, g2 \in Gs : (g1 # g2 /\ holds[g1] # 0) => holds[g1] # holds[g2]
\* every pooled buffer can serve the largest request of the class it is filed under
ClassPromise == \A b \in Bufs : pool[b] > 0 => cap[b] >= Pow2(cls[b])
NoSliceOutOfRange == ~oob
\* the clause the trace acceptor evaluates on a logged put (capacity c): the buffer goes to class PoolFor(c)
CapOK(c) == c >= Pow2(PoolFor(c))
\* ... and it is equivalent to the promise of that class (checked here for every capacity of the model)
CapClause == \A c \in 1 .. MaxCap : CapOK(c) <=> (\E k \in Classes : c = Pow2(k))
=============================================================================
