--------------------------------- MODULE Pool ---------------------------------
(* The workspace discipline of mat/pool.go on top of sync.Pool: G goroutines     *)
(* repeatedly get a workspace, use it, and put it back.  A correct client puts   *)
(* each workspace it got exactly once.  R1 shows the discipline keeps every      *)
(* buffer with at most one holder; the DoublePut constant models the regression  *)
(* (a workspace returned twice) and TLC then finds two holders of one buffer -   *)
(* the state the trace acceptor (ForkJoinTrace PGet/PPut) rejects in real logs.  *)
EXTENDS Integers, FiniteSets, TLC

CONSTANTS G, B, DoublePut

Gs == 1 .. G
Bufs == 1 .. B
VARIABLES pool, holds, putsLeft     \* pool: bag of buffers (count per buffer); holds[g]: buffer or 0
vars == <<pool, holds, putsLeft>>

Init == pool = [b \in Bufs |-> 1] /\ holds = [g \in Gs |-> 0] /\ putsLeft = [g \in Gs |-> 0]

Get(g, b) == /\ holds[g] = 0 /\ putsLeft[g] = 0 /\ pool[b] > 0
             /\ pool' = [pool EXCEPT ![b] = @ - 1] /\ holds' = [holds EXCEPT ![g] = b]
             /\ putsLeft' = [putsLeft EXCEPT ![g] = IF DoublePut /\ g = 1 THEN 2 ELSE 1]
Put(g) == /\ holds[g] # 0 /\ putsLeft[g] > 0
          /\ pool' = [pool EXCEPT ![holds[g]] = @ + 1]
          /\ putsLeft' = [putsLeft EXCEPT ![g] = @ - 1]
          /\ holds' = [holds EXCEPT ![g] = IF putsLeft[g] = 1 THEN 0 ELSE @]
Next == \E g \in Gs : Put(g) \/ \E b \in Bufs : Get(g, b)
Spec == Init /\ [][Next]_vars

OneHolder == \A b \in Bufs : Cardinality({g \in Gs : holds[g] = b}) + pool[b] <= 1 + (IF DoublePut THEN 1 ELSE 0) * 0
Exclusive == \A g1, g2 \in Gs : (g1 # g2 /\ holds[g1] # 0) => holds[g1] # holds[g2]
=============================================================================
