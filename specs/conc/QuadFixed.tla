------------------------------ MODULE QuadFixed ------------------------------
(* integrate/quad.Fixed with concurrent > 0 (and, with the same shape, the       *)
(* worker pools of diff/fd): a distributor goroutine feeds the indices 0..N-1    *)
(* over an unbuffered channel and closes it; W workers each accumulate a private *)
(* partial sum, then add it to the shared total under a mutex; the caller        *)
(* returns after wg.Wait().  R1: every index is evaluated exactly once for every *)
(* W in 1..N+1 and every interleaving, partial sums are merged exactly once,     *)
(* merges are mutually exclusive, no goroutine is alive at return, termination.  *)
EXTENDS Integers, Sequences, FiniteSets, TLC

CONSTANTS N, W

Wk == 1 .. W
VARIABLES nextIdx, closed, wpc, cur, part, total, evals, locked, merged, returned
vars == <<nextIdx, closed, wpc, cur, part, total, evals, locked, merged, returned>>

Init == /\ nextIdx = 0 /\ closed = FALSE
        /\ wpc = [w \in Wk |-> "recv"] /\ cur = [w \in Wk |-> -1]
        /\ part = [w \in Wk |-> {}] /\ total = {} /\ evals = [k \in 0 .. N - 1 |-> 0]
        /\ locked = 0 /\ merged = {} /\ returned = FALSE

\* tasks <- i  ||  k := <-tasks   (rendezvous)
Hand(w) == /\ nextIdx < N /\ wpc[w] = "recv"
           /\ cur' = [cur EXCEPT ![w] = nextIdx] /\ wpc' = [wpc EXCEPT ![w] = "eval"]
           /\ nextIdx' = nextIdx + 1
           /\ UNCHANGED <<closed, part, total, evals, locked, merged, returned>>
Close == /\ nextIdx = N /\ ~closed /\ closed' = TRUE
         /\ UNCHANGED <<nextIdx, wpc, cur, part, total, evals, locked, merged, returned>>
Eval(w) == /\ wpc[w] = "eval"
           /\ evals' = [evals EXCEPT ![cur[w]] = @ + 1]           \* the user function is called here
           /\ part' = [part EXCEPT ![w] = @ \cup {cur[w]}]
           /\ wpc' = [wpc EXCEPT ![w] = "recv"]
           /\ UNCHANGED <<nextIdx, closed, cur, total, locked, merged, returned>>
SeeClosed(w) == /\ wpc[w] = "recv" /\ closed /\ wpc' = [wpc EXCEPT ![w] = "lock"]
                /\ UNCHANGED <<nextIdx, closed, cur, part, total, evals, locked, merged, returned>>
Lock(w) == /\ wpc[w] = "lock" /\ locked = 0 /\ locked' = w /\ wpc' = [wpc EXCEPT ![w] = "merge"]
           /\ UNCHANGED <<nextIdx, closed, cur, part, total, evals, merged, returned>>
Merge(w) == /\ wpc[w] = "merge" /\ total' = total \cup part[w] /\ merged' = merged \cup {w}
            /\ wpc' = [wpc EXCEPT ![w] = "unlock"]
            /\ UNCHANGED <<nextIdx, closed, cur, part, evals, locked, returned>>
Unlock(w) == /\ wpc[w] = "unlock" /\ locked' = 0 /\ wpc' = [wpc EXCEPT ![w] = "done"]
             /\ UNCHANGED <<nextIdx, closed, cur, part, total, evals, merged, returned>>
Return == /\ ~returned /\ \A w \in Wk : wpc[w] = "done" /\ returned' = TRUE
          /\ UNCHANGED <<nextIdx, closed, wpc, cur, part, total, evals, locked, merged>>

Next == \/ \E w \in Wk : Hand(w) \/ Eval(w) \/ SeeClosed(w) \/ Lock(w) \/ Merge(w) \/ Unlock(w)
        \/ Close \/ Return \/ (returned /\ UNCHANGED vars)
Spec == Init /\ [][Next]_vars /\ WF_vars(Next)

MutexOK == Cardinality({w \in Wk : wpc[w] \in {"merge", "unlock"}}) <= 1
OnceEach == \A k \in 0 .. N - 1 : evals[k] <= 1
AtReturn == returned => /\ \A k \in 0 .. N - 1 : evals[k] = 1
                        /\ total = 0 .. N - 1 /\ merged = Wk /\ closed
Termination == <>returned
=============================================================================
