---------------------------- MODULE ForkJoinTrace ----------------------------
(* R3 for the fork/join code paths of C09: validates hook logs of real calls of  *)
(* Dgemm/Sgemm (parallel path), quad.Fixed (concurrent > 0), fd.Jacobian         *)
(* (Concurrent) and of the mat workspace pools.  One JSON object per line =      *)
(* one call ("run"), with its events in the order of a global sequence number    *)
(* assigned when each event was logged.  Every ordering demanded here is one     *)
(* the code establishes through a semaphore, mutex, WaitGroup or sync.Pool       *)
(* before/after the logging point, so a correct execution is always accepted.    *)
EXTENDS Integers, Sequences, FiniteSets, TLC, Json, TLCExt

TraceLog == ndJsonDeserialize("trace.ndjson")

VARIABLES r, l,          \* run index, event index within the run
          started, stepOf, ended, inUse, returned,      \* gemm (as in GemmPar)
          owner,                                        \* gemm: block -> actor ; quad/fd: actor bookkeeping
          seen, merged, inside,                         \* quad: evaluated indices, merged actors; fd: column -> actor inside
          held,                                         \* pool: buffers currently out of the pool
          sig                                           \* result signature per input id (bit-identical results)
vars == <<r, l, started, stepOf, ended, inUse, returned, owner, seen, merged, inside, held, sig>>

Run == TraceLog[r]
E == Run.ev[l]
Fresh == /\ started' = {} /\ stepOf' = <<>> /\ ended' = {} /\ inUse' = 0 /\ returned' = FALSE
         /\ owner' = <<>> /\ seen' = {} /\ merged' = {} /\ inside' = <<>> /\ held' = {}
Ext(f, k, v) == [x \in DOMAIN f \cup {k} |-> IF x = k THEN v ELSE f[x]]
Step1 == l' = l + 1 /\ UNCHANGED <<r, sig>>

(* ------------------------------- gemm --------------------------------- *)
B(e) == <<e.i, e.j>>
GStart == /\ E.e = "GStart" /\ B(E) \notin started /\ inUse < Run.cap /\ ~returned
          /\ started' = started \cup {B(E)} /\ inUse' = inUse + 1
          /\ stepOf' = Ext(stepOf, B(E), 0) /\ owner' = Ext(owner, B(E), E.a)
          /\ UNCHANGED <<ended, returned, seen, merged, inside, held>> /\ Step1
GStep == /\ E.e = "GStep" /\ B(E) \in started /\ B(E) \notin ended /\ ~returned
         /\ owner[B(E)] = E.a                     \* exactly one writer per block
         /\ E.k = stepOf[B(E)] /\ E.k < Run.nk    \* contributions in the fixed order
         /\ stepOf' = [stepOf EXCEPT ![B(E)] = @ + 1]
         /\ UNCHANGED <<started, ended, inUse, returned, owner, seen, merged, inside, held>> /\ Step1
GEnd == /\ E.e = "GEnd" /\ B(E) \in started /\ B(E) \notin ended /\ owner[B(E)] = E.a /\ ~returned
        /\ stepOf[B(E)] = Run.nk
        /\ ended' = ended \cup {B(E)} /\ inUse' = inUse - 1
        /\ UNCHANGED <<started, stepOf, returned, owner, seen, merged, inside, held>> /\ Step1
GReturn == /\ E.e = "GReturn" /\ ~returned /\ Cardinality(ended) = Run.nblk /\ started = ended
           /\ returned' = TRUE
           /\ UNCHANGED <<started, stepOf, ended, inUse, owner, seen, merged, inside, held>> /\ Step1

(* ---------------------------- quad.Fixed ------------------------------ *)
\* each index evaluated exactly once, by a worker that has not merged yet; every worker merges
\* its partial sum exactly once; the call returns after all `workers` merges
QEval == /\ E.e = "QEval" /\ E.k \notin seen /\ E.k \in 0 .. Run.n - 1 /\ E.a \notin merged /\ ~returned
         /\ seen' = seen \cup {E.k}
         /\ owner' = Ext(owner, E.a, 1)
         /\ UNCHANGED <<started, stepOf, ended, inUse, returned, merged, inside, held>> /\ Step1
QMerge == /\ E.e = "QMerge" /\ E.a \notin merged /\ ~returned
          /\ merged' = merged \cup {E.a}
          /\ UNCHANGED <<started, stepOf, ended, inUse, returned, owner, seen, inside, held>> /\ Step1
QReturn == /\ E.e = "QReturn" /\ ~returned
           /\ seen = 0 .. Run.n - 1 /\ Cardinality(merged) = Run.workers
           /\ returned' = TRUE
           /\ UNCHANGED <<started, stepOf, ended, inUse, owner, seen, merged, inside, held>> /\ Step1

(* ---------------------------- fd.Jacobian ----------------------------- *)
\* every job (column, stencil point) evaluated exactly once; column updates are mutually exclusive
Job(e) == <<e.j, e.loc>>
JEval == /\ E.e = "JEval" /\ Job(E) \notin seen /\ ~returned
         /\ seen' = seen \cup {Job(E)}
         /\ UNCHANGED <<started, stepOf, ended, inUse, returned, owner, merged, inside, held>> /\ Step1
JEnter == /\ E.e = "JEnter" /\ ~returned
          /\ (IF E.j \in DOMAIN inside THEN inside[E.j] = "" ELSE TRUE)   \* nobody else is updating column j
          /\ inside' = Ext(inside, E.j, E.a)
          /\ UNCHANGED <<started, stepOf, ended, inUse, returned, owner, seen, merged, held>> /\ Step1
JLeave == /\ E.e = "JLeave" /\ E.j \in DOMAIN inside /\ inside[E.j] = E.a /\ ~returned
          /\ inside' = [inside EXCEPT ![E.j] = ""]
          /\ merged' = merged \cup {<<E.j, Cardinality({x \in merged : x[1] = E.j})>>}   \* count updates per column
          /\ UNCHANGED <<started, stepOf, ended, inUse, returned, owner, seen, held>> /\ Step1
JJoined == /\ E.e = "JJoined" /\ ~returned
           /\ Cardinality(seen) = Run.jobs /\ Cardinality(merged) = Run.jobs
           /\ \A c \in DOMAIN inside : inside[c] = ""
           /\ returned' = TRUE
           /\ UNCHANGED <<started, stepOf, ended, inUse, owner, seen, merged, inside, held>> /\ Step1

(* ------------------------------- pools -------------------------------- *)
\* a workspace is handed out only while it is in the pool and returned only while it is out (the workspace put back is
\* one that was handed out: same kind and identity); a workspace put back goes to the size class PoolFor(capacity) and
\* must be able to serve the largest request of that class, 2^PoolFor(capacity) elements (Pool.tla: ClassPromise, CapOK).
\* cap = 0: the hook did not log the capacity of the backing slice - the clause is then vacuous.
PoolFor(size) == IF size <= 1 THEN 0 ELSE CHOOSE k \in 1 .. 30 : 2 ^ k >= size /\ 2 ^ (k - 1) < size
CapOK(c) == c = 0 \/ c >= 2 ^ PoolFor(c)
PGet == /\ E.e = "get" /\ <<E.kind, E.buf>> \notin held
        /\ held' = held \cup {<<E.kind, E.buf>>}
        /\ UNCHANGED <<started, stepOf, ended, inUse, returned, owner, seen, merged, inside>> /\ Step1
PPut == /\ E.e = "put" /\ <<E.kind, E.buf>> \in held
        /\ CapOK(E.cap)
        /\ held' = held \ {<<E.kind, E.buf>>}
        /\ UNCHANGED <<started, stepOf, ended, inUse, returned, owner, seen, merged, inside>> /\ Step1

(* ---------------------------- run boundaries -------------------------- *)
\* the result of a call must be the one seen for the same input in every other run
\* (other GOMAXPROCS, other schedule, serial reference): bit-identical tokens
SigOK == IF Run.input = "" THEN TRUE
         ELSE IF Run.input \notin DOMAIN sig THEN TRUE
         ELSE sig[Run.input] = Run.sig
EndRun == /\ l = Len(Run.ev) + 1
          /\ (Run.kind \in {"gemm", "quad", "jac"} => returned)
          /\ (Run.kind = "pool" => held = {})            \* every workspace went back
          /\ Run.leaked = 0                              \* no goroutine left behind
          /\ Run.calls = Run.expcalls                    \* user function called the documented number of times
          /\ Run.ok = 1                                  \* result = serial answer (bit-identical / to rounding, as recorded)
          /\ SigOK
          /\ sig' = IF Run.input = "" THEN sig ELSE Ext(sig, Run.input, Run.sig)
          /\ r' = r + 1 /\ l' = 1 /\ Fresh
          /\ IF r = Len(TraceLog) THEN PrintT("TRACE-ACCEPTED " \o ToString(Len(TraceLog))) ELSE TRUE

TraceInit == /\ r = 1 /\ l = 1 /\ started = {} /\ stepOf = <<>> /\ ended = {} /\ inUse = 0 /\ returned = FALSE
             /\ owner = <<>> /\ seen = {} /\ merged = {} /\ inside = <<>> /\ held = {} /\ sig = <<>>
             /\ TLCSet(1, 0) /\ TLCSet(2, 0) /\ TLCSet(3, "start")
TraceNext == /\ r <= Len(TraceLog)
             /\ IF l <= Len(Run.ev)
                THEN GStart \/ GStep \/ GEnd \/ GReturn \/ QEval \/ QMerge \/ QReturn
                     \/ JEval \/ JEnter \/ JLeave \/ JJoined \/ PGet \/ PPut
                ELSE EndRun
TraceSpec == TraceInit /\ [][TraceNext]_vars

\* progress register (state variables are not visible in a POSTCONDITION)
Progress == IF r = Len(TraceLog) + 1 THEN TLCSet(2, 1)
            ELSE LET n == r * 1000000 + l IN
                 IF n > TLCGet(1)
                 THEN TLCSet(1, n) /\ TLCSet(3, "event " \o ToString(l) \o " of run " \o ToString(r) \o " (" \o Run.kind \o " " \o Run.name \o "): "
                           \o (IF l <= Len(Run.ev) THEN ToString(E) ELSE "end-of-run conditions (returned / leaked / calls / ok / result signature)"))
                 ELSE TRUE
Accepted == IF TLCGet(2) = 1 THEN TRUE
            ELSE PrintT("TRACE-REJECTED at " \o TLCGet(3)) /\ FALSE
=============================================================================
