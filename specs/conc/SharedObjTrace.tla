--------------------------- MODULE SharedObjTrace ---------------------------
(* R3 for the shared objects of SharedObj.tla: accepts an ndjson file of      *)
(* recorded concurrent executions iff every execution is LINEARIZABLE with    *)
(* respect to the sequential object.  One line = one run:                     *)
(*   [name, base, builtin, ops]   ops[g] = the operations goroutine g issued, *)
(*   in its program order, each [op, arg, ret, pan, ok, inv, res] where inv   *)
(*   and res are stamps of one global atomic counter taken immediately        *)
(*   before the call and immediately after its return (so res(a) < inv(b)     *)
(*   means a really finished before b began; nothing else is inferred from    *)
(*   the stamps).                                                             *)
(* The acceptor keeps one cursor per goroutine and the sequential object's    *)
(* state; it may linearize the next operation of goroutine g only if no       *)
(* other goroutine has an unlinearized operation that finished before g's     *)
(* began (real-time order) and the recorded result is the sequential          *)
(* object's answer in the current state.  TLC searches all such orders; a run *)
(* is accepted iff one of them consumes every operation.                      *)
(* Sequential objects:                                                        *)
(*   registry (package unit): "new" sym -> id = base + number registered, or  *)
(*     panic iff the symbol is known (registered in this run or built in);    *)
(*     "exists" sym -> 1 iff known; "str" id -> the symbol registered under   *)
(*     that id, or panic iff no symbol has it.                                *)
(*   read-only object ("pure" key): the answer equals the serial answer       *)
(*     (ok = 1, compared bit for bit by the recorder against a run made       *)
(*     before the goroutines were started) whatever the interleaving.         *)
EXTENDS Naturals, Sequences, FiniteSets, TLC, Json

TraceLog == ndJsonDeserialize("trace.ndjson")

VARIABLES r, done, reg
tvars == <<r, done, reg>>

Run == TraceLog[r]
G == 1..Len(Run.ops)
Pending(g) == done[g] < Len(Run.ops[g])
NextOp(g) == Run.ops[g][done[g] + 1]

Builtin(s) == \E i \in 1..Len(Run.builtin) : Run.builtin[i][1] = s
BuiltinId(s, id) == \E i \in 1..Len(Run.builtin) : Run.builtin[i][1] = s /\ Run.builtin[i][2] = id
Known(s) == s \in DOMAIN reg \/ Builtin(s)
HasId(id) == (\E s \in DOMAIN reg : reg[s] = id) \/ (\E i \in 1..Len(Run.builtin) : Run.builtin[i][2] = id)

\* real-time order: g's next operation may take effect now only if nobody else still has to
\* linearize an operation that had already returned when g's was invoked
MayGoFirst(g) == \A h \in G \ {g} : Pending(h) => ~(NextOp(h).res < NextOp(g).inv)

Answer(o) ==
  IF o.op = "new" THEN IF o.pan = 1 THEN Known(o.arg)
                       ELSE ~Known(o.arg) /\ o.ret = Run.base + Cardinality(DOMAIN reg)
  ELSE IF o.op = "exists" THEN o.pan = 0 /\ ((o.ret = 1) <=> Known(o.arg))
  ELSE IF o.op = "str" THEN IF o.pan = 1 THEN ~HasId(o.arg)
                            ELSE (o.ret \in DOMAIN reg /\ reg[o.ret] = o.arg) \/ BuiltinId(o.ret, o.arg)
  ELSE IF o.op = "pure" THEN o.pan = 0 /\ o.ok = 1
  ELSE FALSE

Lin(g) == /\ r <= Len(TraceLog) /\ Pending(g) /\ MayGoFirst(g)
          /\ LET o == NextOp(g) IN
               /\ Answer(o)
               /\ reg' = IF o.op = "new" /\ o.pan = 0 THEN reg @@ (o.arg :> o.ret) ELSE reg
          /\ done' = [done EXCEPT ![g] = @ + 1] /\ r' = r

Fresh(k) == IF k <= Len(TraceLog) THEN [g \in 1..Len(TraceLog[k].ops) |-> 0] ELSE <<>>

EndRun == /\ r <= Len(TraceLog) /\ \A g \in G : ~Pending(g)
          /\ r' = r + 1 /\ done' = Fresh(r + 1) /\ reg' = <<>>
          /\ IF r = Len(TraceLog) THEN PrintT("TRACE-ACCEPTED " \o ToString(Len(TraceLog))) ELSE TRUE

TraceInit == r = 1 /\ done = Fresh(1) /\ reg = <<>> /\ TLCSet(1, 0) /\ TLCSet(2, 0) /\ TLCSet(3, "start")
TraceNext == (\E g \in DOMAIN done : Lin(g)) \/ EndRun
TraceSpec == TraceInit /\ [][TraceNext]_tvars

RECURSIVE Sum(_, _)
Sum(f, S) == IF S = {} THEN 0 ELSE LET a == CHOOSE a \in S : TRUE IN f[a] + Sum(f, S \ {a})

\* progress register (a POSTCONDITION cannot read state variables); once one linearization has
\* explained the whole file the remaining search is pruned (run with the depth-first queue)
Progress == IF TLCGet(2) = 1 THEN FALSE
            ELSE IF r = Len(TraceLog) + 1 THEN TLCSet(2, 1)
            ELSE LET n == r * 100000 + Sum(done, DOMAIN done) IN
                 IF n > TLCGet(1)
                 THEN TLCSet(1, n) /\ TLCSet(3, "run " \o ToString(r) \o " (" \o Run.name \o "): " \o ToString(Sum(done, DOMAIN done))
                          \o " operations linearized, cursors " \o ToString(done) \o ", registry " \o ToString(reg)
                          \o ", next operations " \o ToString([g \in {h \in G : Pending(h)} |-> NextOp(g)]))
                 ELSE TRUE
Accepted == IF TLCGet(2) = 1 THEN TRUE
            ELSE PrintT("TRACE-REJECTED no linearization: furthest " \o TLCGet(3)) /\ FALSE
=============================================================================
