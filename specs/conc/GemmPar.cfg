SPECIFICATION Spec
CONSTANTS
  NI = @NI@
  NJ = @NJ@
  NK = @NK@
  P = @P@
INVARIANTS TokensBounded AllDoneAtReturn
PROPERTIES Termination
CHECK_DEADLOCK TRUE
