SPECIFICATION TraceSpec
CONSTRAINT Progress
POSTCONDITION Accepted
CHECK_DEADLOCK FALSE
