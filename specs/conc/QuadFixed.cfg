SPECIFICATION Spec
CONSTANTS
  N = @N@
  W = @W@
INVARIANTS MutexOK OnceEach AtReturn
PROPERTIES Termination
CHECK_DEADLOCK TRUE
