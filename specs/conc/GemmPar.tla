------------------------------- MODULE GemmPar -------------------------------
(* The fork/join structure of blas/gonum dgemmParallel / sgemmParallel:         *)
(* C is cut into NI x NJ blocks; the caller launches one goroutine per block    *)
(* after taking a token from a semaphore of capacity P (= GOMAXPROCS); a block  *)
(* goroutine adds its NK k-contributions IN ORDER to its own block, then        *)
(* signals the WaitGroup and returns its token; the caller returns after        *)
(* wg.Wait().  Bit-identical results on every schedule follow from two facts    *)
(* the model makes explicit: a block has exactly one writer, and its            *)
(* contributions are applied in the fixed order 0,1,..,NK-1.                    *)
(* R1: TLC checks the invariants over all interleavings.                        *)
(* R3: the Trace* actions consume the hook log of a real call (events in the    *)
(* order of a global sequence number taken when the event was logged; every     *)
(* ordering the model demands is one the code establishes through the           *)
(* semaphore / WaitGroup, so the logged order of a correct run is a behaviour). *)
EXTENDS Integers, Sequences, FiniteSets, TLC, Json

CONSTANTS NI, NJ, NK, P

Blocks == (0 .. NI - 1) \X (0 .. NJ - 1)

VARIABLES started, stepOf, ended, inUse, returned, nblk, nk, cap
vars == <<started, stepOf, ended, inUse, returned, nblk, nk, cap>>

Init == /\ started = {} /\ stepOf = [b \in {} |-> 0] /\ ended = {} /\ inUse = 0 /\ returned = FALSE
        /\ nblk = NI * NJ /\ nk = NK /\ cap = P

\* the parent takes a token (blocking while cap are in use) and starts the goroutine of block b
Launch(b) == /\ ~returned /\ b \notin started /\ inUse < cap
             /\ started' = started \cup {b} /\ inUse' = inUse + 1
             /\ stepOf' = [x \in DOMAIN stepOf \cup {b} |-> IF x = b THEN 0 ELSE stepOf[x]]
             /\ UNCHANGED <<ended, returned, nblk, nk, cap>>
\* block b applies contribution number k: only the next one in order, only by its single owner
Step(b, k) == /\ b \in started /\ b \notin ended /\ k = stepOf[b] /\ k < nk
              /\ stepOf' = [stepOf EXCEPT ![b] = k + 1]
              /\ UNCHANGED <<started, ended, inUse, returned, nblk, nk, cap>>
End(b) == /\ b \in started /\ b \notin ended /\ stepOf[b] = nk
          /\ ended' = ended \cup {b} /\ inUse' = inUse - 1
          /\ UNCHANGED <<started, stepOf, returned, nblk, nk, cap>>
\* wg.Wait() passed
Return == /\ ~returned /\ Cardinality(ended) = nblk
          /\ returned' = TRUE /\ UNCHANGED <<started, stepOf, ended, inUse, nblk, nk, cap>>

Next == \/ \E b \in Blocks : Launch(b) \/ End(b) \/ \E k \in 0 .. NK : Step(b, k)
        \/ Return \/ (returned /\ UNCHANGED vars)
Spec == Init /\ [][Next]_vars /\ WF_vars(Next)

TokensBounded == inUse <= cap /\ inUse = Cardinality(started \ ended)
AllDoneAtReturn == returned => (Cardinality(ended) = nblk /\ \A b \in ended : stepOf[b] = nk)
Termination == <>returned
=============================================================================
