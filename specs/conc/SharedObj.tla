----------------------------- MODULE SharedObj -----------------------------
(* Shared objects of gonum that are documented (or built) for concurrent use: *)
(*   - the dimension registry of package unit (unit/unittype.go: a symbol     *)
(*     table behind a sync.RWMutex: NewDimension, SymbolExists,               *)
(*     Dimension.String);                                                     *)
(*   - lazily initialised read-only objects (stat/distmat.Wishart computes    *)
(*     its covariance on first use behind sync.Once; stat/card's hash         *)
(*     registry is a sync.Map filled by RegisterHash).                        *)
(* The specification is the SEQUENTIAL object; a concurrent execution is      *)
(* correct iff it is linearizable with respect to it.  This module is the     *)
(* R1 role: an implementation-shaped model of the registry (NG goroutines,    *)
(* each operation = acquire the lock / critical section / release, as the     *)
(* code does; with LOCKED = FALSE the check-then-insert of NewDimension is    *)
(* two separately scheduled steps, the classic lost-update shape) and of the  *)
(* once-initialised object (readers may only observe the value after the      *)
(* initialiser has completed; with ONCE = FALSE the object is published       *)
(* before it is filled).  TLC checks on every interleaving that every         *)
(* completed operation returned what the sequential object returns at some    *)
(* point between its invocation and its response (here: at the critical       *)
(* section), stated as the invariants below.  SharedObjTrace.tla is the R3    *)
(* role: it accepts recorded real executions iff they are linearizable.       *)
EXTENDS Naturals, Sequences, FiniteSets

CONSTANTS NG,       \* goroutines
          Syms,     \* symbols the goroutines try to register
          LOCKED,   \* NewDimension's body is one critical section (the code) or not (a mutant)
          ONCE      \* lazy initialisation behind sync.Once (the code) or check-then-publish (a mutant)

VARIABLES table,    \* sequence of registered symbols: id = position (the code: symbols slice)
          pc,       \* per goroutine: "idle", "checked" (unlocked mutant only), "done"
          want,     \* per goroutine: the symbol it registers
          got,      \* per goroutine: id returned, 0 = none yet, -1 is not expressible: use NG+Len+1 for "panicked"
          \* once-initialised object
          obj,      \* "nil", "alloc" (published, not filled), "ready"
          rd        \* per goroutine: what a reader observed: "none", "zero" (unfilled), "value"
vars == <<table, pc, want, got, obj, rd>>

G == 1..NG
Panicked == 1000

Range(s) == {s[i] : i \in DOMAIN s}

Init == /\ table = <<>> /\ pc = [g \in G |-> "idle"] /\ want \in [G -> Syms] /\ got = [g \in G |-> 0]
        /\ obj = "nil" /\ rd = [g \in G |-> "none"]

\* NewDimension as the code runs it: lookup, append, return - one critical section
NewLocked(g) == /\ LOCKED /\ pc[g] = "idle"
                /\ IF want[g] \in Range(table)
                   THEN got' = [got EXCEPT ![g] = Panicked] /\ UNCHANGED table
                   ELSE table' = Append(table, want[g]) /\ got' = [got EXCEPT ![g] = Len(table) + 1]
                /\ pc' = [pc EXCEPT ![g] = "done"] /\ UNCHANGED <<want, obj, rd>>

\* the mutant: the duplicate check and the insertion are separately scheduled
NewCheck(g) == /\ ~LOCKED /\ pc[g] = "idle"
               /\ IF want[g] \in Range(table)
                  THEN got' = [got EXCEPT ![g] = Panicked] /\ pc' = [pc EXCEPT ![g] = "done"]
                  ELSE got' = got /\ pc' = [pc EXCEPT ![g] = "checked"]
               /\ UNCHANGED <<table, want, obj, rd>>
NewInsert(g) == /\ ~LOCKED /\ pc[g] = "checked"
                /\ table' = Append(table, want[g]) /\ got' = [got EXCEPT ![g] = Len(table) + 1]
                /\ pc' = [pc EXCEPT ![g] = "done"] /\ UNCHANGED <<want, obj, rd>>

\* lazy initialisation: sync.Once runs the initialiser to completion before any caller returns
InitOnce(g) == /\ ONCE /\ obj = "nil" /\ rd[g] = "none" /\ obj' = "ready" /\ UNCHANGED <<table, pc, want, got, rd>>
\* the mutant: nil check, publish the allocation, fill it later
InitAlloc(g) == /\ ~ONCE /\ obj = "nil" /\ rd[g] = "none" /\ obj' = "alloc" /\ UNCHANGED <<table, pc, want, got, rd>>
InitFill == /\ ~ONCE /\ obj = "alloc" /\ obj' = "ready" /\ UNCHANGED <<table, pc, want, got, rd>>
Read(g) == /\ rd[g] = "none" /\ obj # "nil"
           /\ rd' = [rd EXCEPT ![g] = IF obj = "ready" THEN "value" ELSE "zero"]
           /\ UNCHANGED <<table, pc, want, got, obj>>

Next == \E g \in G : NewLocked(g) \/ NewCheck(g) \/ NewInsert(g) \/ InitOnce(g) \/ InitAlloc(g) \/ Read(g)
        \/ InitFill
Spec == Init /\ [][Next]_vars

\* the sequential registry: one id per symbol, ids dense, first registration wins
UniqueSymbols == \A i, j \in DOMAIN table : table[i] = table[j] => i = j
IdsAreTheirs  == \A g \in G : (pc[g] = "done" /\ got[g] # Panicked) => table[got[g]] = want[g]
DistinctIds   == \A g, h \in G : (g # h /\ pc[g] = "done" /\ pc[h] = "done" /\ got[g] # Panicked /\ got[h] # Panicked)
                                   => got[g] # got[h]
\* exactly one registration of each requested symbol succeeds, the others panic
OneWinner     == (\A g \in G : pc[g] = "done") =>
                   \A s \in {want[g] : g \in G} : Cardinality({g \in G : want[g] = s /\ got[g] # Panicked}) = 1
\* a reader never sees the unfilled object
NoZeroRead    == \A g \in G : rd[g] # "zero"
=============================================================================
