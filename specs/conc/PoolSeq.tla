------------------------------- MODULE PoolSeq -------------------------------
(* C09, "independent operations ... sharing the library's internal workspace     *)
(* pools, with the same results as when run one at a time": scripts of           *)
(* operations that borrow workspaces from the size-stratified pools of mat,      *)
(* with the exact result of every operation that has one.                        *)
(*                                                                              *)
(* A script is  <<hog, probes, hog', probes>>:                                   *)
(*   "hog"   mat.HOGSVD.Factorize of 2 or 3 integer matrices of full column      *)
(*           rank (theorem FullRank) with the same number of columns and         *)
(*           DIFFERENT numbers of rows - the first shorter than a later one,     *)
(*           by more than the power-of-two slack of the n x rows workspace       *)
(*           Factorize borrows (3x2 then 5x2: 6 -> 10 elements, class 8 ->       *)
(*           class 16), and the reverse order.  Only "does not panic" is         *)
(*           stated here (the factors are C06's subject).                        *)
(*   probes  unrelated operations whose operands and results are integer         *)
(*           matrices, so that the float64 computation is exact (theorem         *)
(*           ProbeExact) and the result does not depend on anything else:        *)
(*             "pow"        X = A^3                  (three n x n workspaces)    *)
(*             "mulself"    X = X A, receiver is an operand  (an r x c one)      *)
(*             "solveself"  X = U^-1 X, U unit upper triangular integer, the     *)
(*                          receiver is the right hand side  (a 4 x k one)       *)
(*           with workspace sizes 4, 8, 16, 32 - the largest request each of     *)
(*           the size classes 2..5 serves - and sizes in between.                *)
(* The harness runs every script alone on one P (the workspace Factorize put     *)
(* back is the next one handed out) and from 8 goroutines at once; every probe   *)
(* result must be the matrix printed here, bit for bit, and nothing may panic.   *)
EXTENDS Integers, Sequences, FiniteSets, TLC, Json

CONSTANTS Seed, NScripts, Emit

VARIABLE c
vars == <<c>>

RECURSIVE SumSeq(_)
SumSeq(s) == IF s = <<>> THEN 0 ELSE Head(s) + SumSeq(Tail(s))
Abs(x) == IF x < 0 THEN -x ELSE x
NCols(A) == Len(A[1])
Transp(A) == [j \in 1..NCols(A) |-> [i \in 1..Len(A) |-> A[i][j]]]
MatMul(A, B) == [i \in 1..Len(A) |-> [j \in 1..NCols(B) |-> SumSeq([k \in 1..Len(B) |-> A[i][k] * B[k][j]])]]
Ident(n) == [i \in 1..n |-> [j \in 1..n |-> IF i = j THEN 1 ELSE 0]]
MaxAbs(A) == LET S == {Abs(A[i][j]) : i \in 1..Len(A), j \in 1..NCols(A)} IN CHOOSE x \in S : \A y \in S : y <= x
Skip(k, r) == IF k < r THEN k ELSE k + 1
Minor(A, r, cc) == [i \in 1..Len(A) - 1 |-> [j \in 1..Len(A) - 1 |-> A[Skip(i, r)][Skip(j, cc)]]]
Sgn(k) == IF k % 2 = 0 THEN 1 ELSE -1
RECURSIVE Det(_)
Det(A) == IF Len(A) = 1 THEN A[1][1] ELSE SumSeq([j \in 1..Len(A) |-> Sgn(1 + j) * A[1][j] * Det(Minor(A, 1, j))])
Adj(A) == [i \in 1..Len(A) |-> [j \in 1..Len(A) |-> Sgn(i + j) * Det(Minor(A, j, i))]]

Gen(r, cc, t) == [i \in 1..r |-> [j \in 1..cc |-> (((i * (t + 1) + j * ((Seed % 5) + 2) + i * j + t) % 5) - 2)]]
\* a tall matrix with a heavy diagonal
TallMat(r, cc, t, q) == [i \in 1..r |-> [j \in 1..cc |-> Gen(r, cc, t + q)[i][j] + (IF i = j THEN 7 + q ELSE 0)]]
\* row counts of the matrices of one factorization, and the common number of columns
HogShapes == <<[rows |-> <<3, 5>>, cols |-> 2], [rows |-> <<5, 3>>, cols |-> 2], [rows |-> <<2, 3>>, cols |-> 2],
               [rows |-> <<2, 5>>, cols |-> 2], [rows |-> <<4, 7>>, cols |-> 3], [rows |-> <<7, 4>>, cols |-> 3],
               [rows |-> <<1, 3>>, cols |-> 1], [rows |-> <<3, 6>>, cols |-> 1], [rows |-> <<2, 3, 5>>, cols |-> 2],
               [rows |-> <<5, 2, 3>>, cols |-> 2], [rows |-> <<3, 4, 11>>, cols |-> 3], [rows |-> <<3, 3>>, cols |-> 2]>>
HogMats(s, t) == LET sh == HogShapes[1 + (s % Len(HogShapes))]
                 IN [q \in 1..Len(sh.rows) |-> TallMat(sh.rows[q], sh.cols, t, q - 1)]
Step(op, mats, a, x, e, want) == [op |-> op, mats |-> mats, a |-> a, x |-> x, e |-> e, want |-> want]
HogStep(s, t) == Step("hog", HogMats(s, t), <<>>, <<>>, 0, <<>>)

ProbeU(t) == [i \in 1..4 |-> [j \in 1..4 |-> IF i = j THEN 1 ELSE IF i < j THEN ((i + 2 * j + t + Seed) % 3) - 1 ELSE 0]]
Pow3(A) == MatMul(A, MatMul(A, A))
MulShapes == <<<<2, 2>>, <<2, 3>>, <<2, 4>>, <<3, 4>>, <<4, 4>>, <<5, 4>>, <<8, 4>>>>
SolveCols == <<1, 2, 3, 4, 8>>
Probes(t) ==
  <<Step("pow", <<>>, Gen(4, 4, t), <<>>, 3, Pow3(Gen(4, 4, t))), Step("pow", <<>>, Gen(2, 2, t + 1), <<>>, 3, Pow3(Gen(2, 2, t + 1)))>>
  \o [q \in 1..Len(MulShapes) |-> LET X == Gen(MulShapes[q][1], MulShapes[q][2], t + q)  A == Gen(MulShapes[q][2], MulShapes[q][2], t + q + 1)
                                  IN Step("mulself", <<>>, A, X, 1, MatMul(X, A))]
  \o [q \in 1..Len(SolveCols) |-> LET B == Gen(4, SolveCols[q], t + q + 2)
                                  IN Step("solveself", <<>>, ProbeU(t), B, 1, MatMul(Adj(ProbeU(t)), B))]
Script(s) == [k |-> "poolseq", id |-> s,
              steps |-> <<HogStep(s, s)>> \o Probes(s) \o <<HogStep(s + 5, s + 1)>> \o Probes(s + 2)]

\* theorems
FullRank(M) == Det(MatMul(Transp(M), M)) > 0
ProbeExact(st) == /\ (st.op = "solveself") => (Det(st.a) = 1 /\ MatMul(st.a, st.want) = st.x)
                  /\ (st.op = "mulself") => st.want = MatMul(st.x, st.a)
                  /\ (st.op = "pow") => st.want = MatMul(MatMul(st.a, st.a), st.a)
                  /\ (st.op # "hog") => MaxAbs(st.want) < 1048576      \* all partial sums are integers below 2^53
UnequalRows(st) == st.op = "hog" => \E p, q \in 1..Len(st.mats) : Len(st.mats[p]) # Len(st.mats[q])
Theorems == LET S == Script(c) IN
            /\ \A i \in 1..Len(S.steps) : ProbeExact(S.steps[i])
            /\ \A i \in 1..Len(S.steps) : S.steps[i].op = "hog" => \A q \in 1..Len(S.steps[i].mats) : FullRank(S.steps[i].mats[q])
            \* every script has a factorization with unequal row counts (shape 12, equal rows, only ever comes with another)
            /\ \E i \in 1..Len(S.steps) : S.steps[i].op = "hog" /\ UnequalRows(S.steps[i])

Init == c \in 0..NScripts - 1
Next == UNCHANGED vars
Spec == Init /\ [][Next]_vars
EmitCase == Emit => PrintT(ToJson(Script(c)))
=============================================================================
