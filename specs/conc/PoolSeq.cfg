SPECIFICATION Spec
CONSTANTS
  Seed = @SEED@
  NScripts = @NSCRIPTS@
  Emit = @EMIT@
INVARIANTS Theorems EmitCase
CHECK_DEADLOCK FALSE
