SPECIFICATION Spec
CONSTANTS
  NG = @NG@
  Syms = {1, 2}
  LOCKED = @LOCKED@
  ONCE = @ONCE@
INVARIANTS UniqueSymbols IdsAreTheirs DistinctIds OneWinner NoZeroRead
CHECK_DEADLOCK FALSE
