SPECIFICATION Spec
CONSTANTS
  G = 3
  B = 2
  DoublePut = @DP@
INVARIANTS Exclusive
CHECK_DEADLOCK FALSE
