SPECIFICATION Spec
CONSTANTS
  G = 3
  B = @B@
  DoublePut = @DP@
  Regrow = @REGROW@
  MaxClass = @MAXCLASS@
INVARIANTS @INVS@
CHECK_DEADLOCK FALSE
