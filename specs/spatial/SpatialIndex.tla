---------------------------- MODULE SpatialIndex ----------------------------
(* Reference semantics of gonum's spatial indexes (spatial/kdtree,           *)
(* spatial/vptree): whatever the tree looks like, it is a BAG of points, and  *)
(* every query is defined on that bag by a linear scan with exact integer     *)
(* squared Euclidean distances (and, for the box query kdtree.DoBounded, by    *)
(* the closed-box membership test of kdtree.Bounding.Contains).  Points live on a small integer lattice so    *)
(* that ties, duplicates and collinear points are the rule, not the exception.*)
(*                                                                            *)
(* A history is: a bulk construction from the sequence `built` followed by    *)
(* the one-by-one insertion of the points of `ins`.                           *)
(*   R1  TLC checks that the constructive answers (sort, take, filter) meet   *)
(*       the declarative definitions (IsNearest, IsKNearest, IsWithin), that  *)
(*       k-nearest is monotone in k, and within-radius is a prefix of it.     *)
(*   R2  with Emit = TRUE every history in the bound is printed with the      *)
(*       answers of all queries; the Go harness replays it on the real trees. *)
(*   R3  SpatialIndexTrace.tla reuses the declarative definitions to judge    *)
(*       recorded answers of the real trees on large point sets.              *)
EXTENDS Integers, Sequences, FiniteSets, TLC, Json

CONSTANTS Dim,       \* dimension of the space
          Coords,    \* coordinate values of stored points (encoded: actual + Off)
          Off,       \* encoding offset (cfg files cannot hold negative numbers)
          MaxBuilt,  \* bulk construction from at most this many points
          MaxTotal,  \* built + inserted points
          QCodes,    \* query points (on, between, outside, far), each encoded as one
                     \* integer: sum of (actual + Off) * 64^(Dim - i)  (cfg files hold no tuples)
          KSet,      \* k values for k-nearest
          RSet,      \* squared radii for within-radius
          BoxCodes,  \* corner points of the query boxes of DoBounded (encoded like QCodes)
          Emit,      \* BOOLEAN: generator role
          Far        \* BOOLEAN: the coordinates are level-coded values of astronomically different
                     \* magnitudes and distances are extended values (see "far coordinates" below)

VARIABLES built, ins
vars == <<built, ins>>

Min2(a, b) == IF a < b THEN a ELSE b
Range(s) == {s[i] : i \in DOMAIN s}

\* a finite set of integers as an increasing sequence
RECURSIVE IncSeq(_)
IncSeq(S) == IF S = {} THEN <<>>
             ELSE LET m == CHOOSE x \in S : \A y \in S : x <= y IN <<m>> \o IncSeq(S \ {m})
Ks == IncSeq(KSet)
Rs == IncSeq(RSet)
RECURSIVE Pow64(_)
Pow64(n) == IF n = 0 THEN 1 ELSE 64 * Pow64(n - 1)
Decode(c) == [i \in 1 .. Dim |-> (c \div Pow64(Dim - i)) % 64]
Queries == {Decode(c) : c \in QCodes}

(************************ exact geometry on the lattice *********************)
RECURSIVE SumSq(_, _, _)
SumSq(p, q, i) == IF i = 0 THEN 0 ELSE (p[i] - q[i]) * (p[i] - q[i]) + SumSq(p, q, i - 1)

(***************************** far coordinates ********************************)
(* A bag of points does not stop being a bag when some of its points are      *)
(* astronomically far away: the k nearest of N points are min(k, N) points    *)
(* even if the squared distance to some of them is not finite in float64, and  *)
(* a ball of infinite radius holds everything.  With Far = TRUE an encoded      *)
(* coordinate x stands, with a = x - Off, for the float64 value                 *)
(*      a                          if |a| <= 8              (level 0)           *)
(*      sgn(a) (|a| -  8) 2^500    if  9 <= |a| <= 15       (level 1)           *)
(*      sgn(a) (|a| - 16) 2^600    if 17 <= |a| <= 23       (level 2)           *)
(* Every such value is a float64, and the coding is strictly monotone, so the   *)
(* integer order on codes (boxes, Contains, DoBounded) is the order of the      *)
(* values.  A distance is an EXTENDED value coded as lev * DB + v:              *)
(*      v (exact integer) | v 2^1000 (exact, finite) | +Inf  (lev = 2, v = 0)   *)
(* and again the integer order on codes is the order of the values, +Inf        *)
(* greatest.  FarDist2 is the value of sum_i (p_i - q_i)^2 evaluated in IEEE    *)
(* double arithmetic, round to nearest (kdtree.Point.Distance and every other   *)
(* Distance method used by the harness are that loop), which on these values    *)
(* does not depend on the order of evaluation:                                   *)
(*  - two coordinates of one level differ by an exact multiple of the level's    *)
(*    unit; for different levels the higher one absorbs the lower (|v| <= 7:     *)
(*    half an ulp of 2^500 is 2^447 > 8, half an ulp of 2^600 is 2^547 > 7 2^500)*)
(*    and the difference is the higher coordinate (or its negative) exactly;      *)
(*  - the square of a level 1 difference d 2^500 is d^2 2^1000 (exact, finite,    *)
(*    d^2 <= 196), the square of a non-zero level 2 difference is >= 2^1200,      *)
(*    i.e. +Inf;                                                                  *)
(*  - a sum with an infinite term is +Inf; otherwise level 1 terms add exactly    *)
(*    (small integer multiples of 2^1000) and absorb every level 0 term (< 2^10). *)
(* FarLemma below re-derives the three rules by evaluating the loop step by step, *)
(* with explicit round-to-nearest-even, in a scaled-down binary floating point    *)
(* format (8 significant bits, overflow at 2^30, level units 2^11 and 2^21: the    *)
(* same margins in miniature) and comparing with what FarDist2 denotes there.      *)
DB == 4096
AbsI(a) == IF a < 0 THEN -a ELSE a
Lev(a) == IF AbsI(a) <= 8 THEN 0 ELSE IF AbsI(a) <= 15 THEN 1 ELSE 2
Val(a) == LET m == AbsI(a) - 8 * Lev(a) IN IF a < 0 THEN -m ELSE m
FarExp == <<0, 500, 600>>                      \* binary exponent of the unit of each level
ValidFar(x) == LET a == x - Off IN AbsI(a) <= 23 /\ AbsI(a) # 16
\* one term (p_i - q_i)^2 as <<level, value>>
FTerm(x, y) ==
    LET a == x - Off  b == y - Off IN
    IF Lev(a) = Lev(b)
    THEN LET d == Val(a) - Val(b) IN <<IF d = 0 THEN 0 ELSE Lev(a), d * d>>
    ELSE IF Lev(a) > Lev(b) THEN <<Lev(a), Val(a) * Val(a)>> ELSE <<Lev(b), Val(b) * Val(b)>>
RECURSIVE FTop(_, _, _), FSumAt(_, _, _, _)
FTop(p, q, i) == IF i = 0 THEN 0 ELSE LET t == FTerm(p[i], q[i])[1]  r == FTop(p, q, i - 1) IN IF t > r THEN t ELSE r
FSumAt(p, q, i, lv) == IF i = 0 THEN 0
                       ELSE LET t == FTerm(p[i], q[i]) IN (IF t[1] = lv THEN t[2] ELSE 0) + FSumAt(p, q, i - 1, lv)
FarDist2(p, q) == LET top == FTop(p, q, Len(p)) IN
                  IF top = 2 THEN 2 * DB ELSE top * DB + FSumAt(p, q, Len(p), top)
InfD == 2 * DB                                 \* the code of +Inf

Dist2(p, q) == IF Far THEN FarDist2(p, q) ELSE SumSq(p, q, Len(p))     \* squared Euclidean distance

\* ---- the rounding lemma in a miniature binary floating point format (R1, TLC integers suffice) ----
MP == 8                                        \* significant bits
MEmax == 30                                    \* results >= 2^MEmax overflow to +Inf
MUnit == <<0, 11, 21>>                         \* binary exponents of the level units
MInf == -1                                     \* +Inf among the non-negative results
Log2F(n) == CHOOSE e \in 0 .. 30 : 2^e <= n /\ n < 2 * (2^e)          \* n >= 1
RoundP(n) == IF n < 2^MP THEN n                \* round to nearest, ties to even, n >= 0
             ELSE LET u == 2^(Log2F(n) - (MP - 1))  q == n \div u  r == n % u  h == u \div 2 IN
                  IF r > h \/ (r = h /\ q % 2 = 1) THEN (q + 1) * u ELSE q * u
MOver(r) == IF r >= 2^MEmax THEN MInf ELSE r
MSub(x, y) == IF x >= y THEN RoundP(x - y) ELSE -RoundP(y - x)
MSq(d) == LET a == AbsI(d) IN
          IF a = 0 THEN 0 ELSE IF 2 * Log2F(a) >= MEmax THEN MInf ELSE MOver(RoundP(a * a))
MAdd(x, y) == IF x = MInf \/ y = MInf THEN MInf ELSE MOver(RoundP(x + y))
MiniVal(x) == LET a == x - Off IN Val(a) * 2^(MUnit[Lev(a) + 1])
RECURSIVE MLoopUp(_, _, _, _), MLoopDown(_, _, _, _)
MLoopUp(p, q, i, acc) == IF i > Len(p) THEN acc
                         ELSE MLoopUp(p, q, i + 1, MAdd(acc, MSq(MSub(MiniVal(p[i]), MiniVal(q[i])))))
MLoopDown(p, q, i, acc) == IF i = 0 THEN acc
                           ELSE MLoopDown(p, q, i - 1, MAdd(acc, MSq(MSub(MiniVal(p[i]), MiniVal(q[i])))))
MiniDenote(d) == IF d >= InfD THEN MInf ELSE (d % DB) * 2^(2 * MUnit[(d \div DB) + 1])
MiniCodes == {Off + a : a \in {-4, -1, 0, 2, 4, -11, -9, 10, -18, 17, 19}}
FarLemma == \A dm \in 1 .. 2 : \A p, q \in [1 .. dm -> MiniCodes] :
               /\ MLoopUp(p, q, 1, 0) = MiniDenote(FarDist2(p, q))
               /\ MLoopDown(p, q, dm, 0) = MiniDenote(FarDist2(p, q))
ASSUME Far => \A x \in Coords : ValidFar(x)

IsSquare0(n) == \E m \in 0 .. 64 : m * m = n  \* (lattice distances are far below 64^2)
\* the square root of the distance is exact (perfect square, times 2^1000 or not; +Inf)
IsSquare(n) == IF Far THEN n >= InfD \/ IsSquare0(n % DB) ELSE IsSquare0(n)

\* the linear scan: distance from q to every stored point, in storage order
DistSeq(P, q) == [i \in 1 .. Len(P) |-> Dist2(P[i], q)]

(******************* declarative definitions of the queries ******************)
\* (on distance sequences: D is the scan, R a claimed answer)
Cnt(S, v) == Cardinality({i \in 1 .. Len(S) : S[i] = v})
NonDecr(S) == \A i \in 1 .. Len(S) - 1 : S[i] <= S[i + 1]

IsNearest(R, D) ==
    IF Len(D) = 0 THEN R = <<>>
    ELSE /\ Len(R) = 1
         /\ R[1] \in Range(D)
         /\ \A i \in 1 .. Len(D) : R[1] <= D[i]

\* R is a sorted k-smallest sub-multiset of D
IsKNearest(R, D, k) ==
    /\ NonDecr(R)
    /\ Len(R) = Min2(k, Len(D))
    /\ Len(R) > 0 =>
         LET t == R[Len(R)] IN
         \A v \in Range(R) \cup {d \in Range(D) : d < t} :
            IF v < t THEN Cnt(R, v) = Cnt(D, v) ELSE Cnt(R, v) <= Cnt(D, v)

\* R is exactly the sub-multiset of D of values <= r (closed ball), sorted
IsWithin(R, D, r) ==
    /\ NonDecr(R)
    /\ \A i \in 1 .. Len(R) : R[i] <= r
    /\ \A v \in Range(R) \cup {d \in Range(D) : d <= r} : Cnt(R, v) = Cnt(D, v)

(********************** constructive answers (generator) *********************)
Sorted(D) == SortSeq(D, LAMBDA a, b : a < b)
Nearest(D) == IF Len(D) = 0 THEN <<>> ELSE <<Sorted(D)[1]>>
KNearest(D, k) == SubSeq(Sorted(D), 1, Min2(k, Len(D)))
Within(D, r) == SelectSeq(Sorted(D), LAMBDA d : d <= r)

\* minimal axis-parallel box of a non-empty point sequence
RECURSIVE MinC(_, _, _), MaxC(_, _, _)
MinC(P, i, n) == IF n = 1 THEN P[1][i] ELSE Min2(P[n][i], MinC(P, i, n - 1))
MaxC(P, i, n) == IF n = 1 THEN P[1][i] ELSE LET m == MaxC(P, i, n - 1) IN IF P[n][i] > m THEN P[n][i] ELSE m
BoxMin(P) == [i \in 1 .. Len(P[1]) |-> MinC(P, i, Len(P))]
BoxMax(P) == [i \in 1 .. Len(P[1]) |-> MaxC(P, i, Len(P))]
InBox(P, q) == Len(P) > 0 /\ \A i \in 1 .. Len(q) : BoxMin(P)[i] <= q[i] /\ q[i] <= BoxMax(P)[i]

\* The box query (kdtree.DoBounded: "performs fn on all values stored in the tree that are
\* within the specified bound"; Bounding.Contains is the closed box): the sub-bag of the
\* stored points p with lo <= p <= hi componentwise, by a scan in storage order.
Leq(a, b) == \A i \in 1 .. Len(a) : a[i] <= b[i]
InClosed(lo, hi, p) == Leq(lo, p) /\ Leq(p, hi)
BoxScan(P, lo, hi) == SelectSeq(P, LAMBDA p : InClosed(lo, hi, p))
Corners == {Decode(c) : c \in BoxCodes}
Boxes == {b \in Corners \X Corners : Leq(b[1], b[2])}

\* Does the k-d tree record bounding volumes?  The answer depends on what the USER TYPES can do
\* (kdtree documentation): New(p, bb) determines bounds for each node iff bb and the collection p is
\* a Bounder (cb); Insert(c, ib) "adds a point to the tree, updating the bounding volumes if bounding
\* is true, and the tree is empty or the tree already has bounding volumes stored, and c is an
\* Extender" (ee).  Modes of a tree:
\*   "empty"  no node                       "off"    no bounding volumes
\*   "on"     BOUNDED: every node stores a volume, and every stored volume contains every point of
\*            the node's subtree (the property's clause on bounding boxes; Contains is judged by it)
\*   "stale"  a bounded tree into which a Comparable that is not an Extender was inserted: the
\*            documentation says the volumes are not updated and nothing else.  Either the tree no
\*            longer presents itself as bounded (no volume at the root; volumes further down are
\*            then unconstrained leftovers), or it does and then every stored volume must still
\*            contain every point of its subtree.  Queries are answered from the bag in every mode.
BuildMode(cb, nb, bb) == IF nb = 0 THEN "empty" ELSE IF bb /\ cb THEN "on" ELSE "off"
InsertMode(m, ee, ib) == CASE m = "empty" -> IF ib /\ ee THEN "on" ELSE "off"
                           [] m = "on"    -> IF ee THEN "on" ELSE "stale"
                           [] OTHER       -> m
RECURSIVE InsertModes(_, _, _, _)
InsertModes(m, ee, ib, ni) == IF ni = 0 THEN m ELSE InsertModes(InsertMode(m, ee, ib), ee, ib, ni - 1)
\* a history of one collection / element type whose insertions all pass the same flag
Mode(cb, ee, nb, ni, bb, ib) == InsertModes(BuildMode(cb, nb, bb), ee, ib, ni)
\* (kdtree.Points / kdtree.Point: a Bounder of Extenders)
Bounded(nb, ni, bb, ib) == IF nb > 0 THEN bb ELSE IF ni > 0 THEN ib ELSE FALSE
\* what a dump of the stored volumes must satisfy: nodes[1] is the root, every node lists the points
\* of its subtree (sub) and, if it stores a volume (hasbox), the volume's corners lo, hi
VolumeOK(nd) == nd.hasbox => \A j \in 1 .. Len(nd.sub) : Leq(nd.lo, nd.sub[j]) /\ Leq(nd.sub[j], nd.hi)
VolumesOK(m, nodes) ==
    CASE m = "on"    -> \A i \in 1 .. Len(nodes) : nodes[i].hasbox /\ VolumeOK(nodes[i])
      [] m = "stale" -> (Len(nodes) > 0 /\ nodes[1].hasbox) => \A i \in 1 .. Len(nodes) : VolumeOK(nodes[i])
      [] OTHER       -> \A i \in 1 .. Len(nodes) : ~nodes[i].hasbox

(******************************* histories ***********************************)
Points == [1 .. Dim -> Coords]
All == built \o ins

\* bulk construction does not promise anything about the order of its input:
\* only canonical (non-decreasing by Code) sequences are enumerated, the
\* harness shuffles them.
RECURSIVE CodeR(_, _)
CodeR(p, i) == IF i = 0 THEN 0 ELSE p[i] + 64 * CodeR(p, i - 1)
Code(p) == CodeR(p, Len(p))
Canon(s) == \A i \in 1 .. Len(s) - 1 : Code(s[i]) <= Code(s[i + 1])

Init == /\ built \in {s \in UNION {[1 .. m -> Points] : m \in 0 .. MaxBuilt} : Canon(s)}
        /\ ins = <<>>

Insert(p) == /\ Len(built) + Len(ins) < MaxTotal
             /\ ins' = Append(ins, p)
             /\ UNCHANGED built

Next == \E p \in Points : Insert(p)
Spec == Init /\ [][Next]_vars

(************************* design theorems (R1) *******************************)
QD(q) == DistSeq(All, q)
SameBag(S, T) == Len(S) = Len(T) /\ \A v \in Range(S) \cup Range(T) : Cnt(S, v) = Cnt(T, v)

SortOK == \A q \in Queries : NonDecr(Sorted(QD(q))) /\ SameBag(Sorted(QD(q)), QD(q))
NearestOK == \A q \in Queries : /\ IsNearest(Nearest(QD(q)), QD(q))
                                /\ Nearest(QD(q)) = KNearest(QD(q), 1)
KNearestOK == \A q \in Queries : \A i \in DOMAIN Ks : IsKNearest(KNearest(QD(q), Ks[i]), QD(q), Ks[i])
\* monotone in k: the answer for k is a prefix of the answer for k + 1
KMonotone == \A q \in Queries : \A k \in 1 .. MaxTotal :
               LET a == KNearest(QD(q), k) b == KNearest(QD(q), k + 1)
               IN  Len(a) <= Len(b) /\ a = SubSeq(b, 1, Len(a))
WithinOK == \A q \in Queries : \A i \in DOMAIN Rs :
               /\ IsWithin(Within(QD(q), Rs[i]), QD(q), Rs[i])
               /\ Within(QD(q), Rs[i]) = KNearest(QD(q), Len(Within(QD(q), Rs[i])))
\* the declarative definitions determine the answer uniquely (as a sorted multiset)
Unique == \A q \in Queries : \A R \in {KNearest(QD(q), k) : k \in 0 .. MaxTotal} :
             \A i \in DOMAIN Ks : IsKNearest(R, QD(q), Ks[i]) => R = KNearest(QD(q), Ks[i])
BoxOK == Len(All) > 0 => \A i \in 1 .. Len(All) : InBox(All, All[i])
\* the scan answer is exactly the sub-bag inside the closed box; it grows with the box; the
\* minimal box of the bag returns the whole bag
PCnt(S, p) == Cardinality({i \in 1 .. Len(S) : S[i] = p})
BoxScanOK ==
  /\ \A b \in Boxes : LET R == BoxScan(All, b[1], b[2]) IN
        \A p \in Range(All) \cup Range(R) : PCnt(R, p) = IF InClosed(b[1], b[2], p) THEN PCnt(All, p) ELSE 0
  /\ \A b, c \in Boxes : (Leq(c[1], b[1]) /\ Leq(b[2], c[2])) =>
        Len(BoxScan(All, b[1], b[2])) <= Len(BoxScan(All, c[1], c[2]))
  /\ Len(All) > 0 => BoxScan(All, BoxMin(All), BoxMax(All)) = All

\* the modes refine what the documentation says about kdtree.Points (a Bounder of Extenders); a tree goes
\* stale only through a plain Comparable inserted into a tree built with volumes; a collection that is
\* not a Bounder and elements that are not Extenders never produce a volume
ModeOK == LET nb == Len(built) ni == Len(ins) IN \A bb, ib \in BOOLEAN :
            /\ Mode(TRUE, TRUE, nb, ni, bb, ib) = (IF nb + ni = 0 THEN "empty" ELSE IF Bounded(nb, ni, bb, ib) THEN "on" ELSE "off")
            /\ \A cb, ee \in BOOLEAN : LET m == Mode(cb, ee, nb, ni, bb, ib) IN
                  /\ m \in {"empty", "on", "off", "stale"} /\ (m = "empty" <=> nb + ni = 0)
                  /\ m = "stale" <=> (cb /\ bb /\ ~ee /\ nb > 0 /\ ni > 0)
                  /\ m = "on" => (ee \/ ni = 0) /\ (cb \/ nb = 0)
                  /\ (~cb /\ ~ee) => m \in {"empty", "off"}

\* VolumesOK accepts the dump of a (degenerate, right-leaning) tree over the bag whose nodes store the minimal
\* boxes of their subtrees, in the modes that allow volumes; rejects it once one volume loses a point of its
\* subtree; a stale tree may drop the root volume and keep anything below
ChainDump(P, box, wrong) ==
    [i \in 1 .. Len(P) |-> LET sub == SubSeq(P, i, Len(P)) IN
        [hasbox |-> box, sub |-> sub,
         lo |-> BoxMin(IF i = wrong /\ Len(sub) > 1 THEN Tail(sub) ELSE sub),
         hi |-> BoxMax(IF i = wrong /\ Len(sub) > 1 THEN Tail(sub) ELSE sub)]]
VolumeLemma ==
    Len(All) > 0 =>
      LET good == ChainDump(All, TRUE, 0) none == ChainDump(All, FALSE, 0) IN
      /\ VolumesOK("on", good) /\ VolumesOK("stale", good) /\ ~VolumesOK("off", good)
      /\ VolumesOK("off", none) /\ VolumesOK("stale", none) /\ ~VolumesOK("on", none)
      /\ \A w \in 1 .. Len(All) - 1 :
            LET bad == ChainDump(All, TRUE, w)
                loses == ~InClosed(bad[w].lo, bad[w].hi, All[w])          \* the first point of the subtree fell out
            IN  /\ loses => (~VolumesOK("on", bad) /\ ~VolumesOK("stale", bad))
                /\ ~loses => VolumesOK("on", bad)
                /\ VolumesOK("stale", [bad EXCEPT ![1].hasbox = FALSE])

(**************************** generator role (R2) *****************************)
Act(p) == [i \in 1 .. Len(p) |-> p[i] - Off]
ActSeq(P) == [i \in 1 .. Len(P) |-> Act(P[i])]
\* (ks / rs are printed once; knn[i] answers k = ks[i], within[i] answers r = rs[i])
QueryRec(q) ==
  LET D == QD(q) IN
  [q |-> Act(q), ds |-> D, near |-> Nearest(D),
   knn |-> [i \in DOMAIN Ks |-> KNearest(D, Ks[i])],
   within |-> [i \in DOMAIN Rs |-> Within(D, Rs[i])],
   inbox |-> InBox(All, q),
   \* qfin: the query is finitely distant from every stored point (always, on the plain lattice)
   qfin |-> \A i \in 1 .. Len(D) : ~Far \/ D[i] < InfD,
   \* exact: every distance a vantage point tree can meet while answering q (query to
   \* stored point, stored point to stored point) is an integer, hence exact in floating point
   exact |-> /\ \A i \in 1 .. Len(D) : IsSquare(D[i])
             /\ \A i, j \in 1 .. Len(All) : IsSquare(Dist2(All[i], All[j]))]

EmitState ==
  Emit => PrintT(ToJson(
    [k |-> "h", dim |-> Dim, built |-> ActSeq(built), ins |-> ActSeq(ins), n |-> Len(All),
     \* far coordinates: binary exponents of the level units and the radix of the distance codes (<<>> / 0 on the lattice);
     \* pfin: the stored points are pairwise finitely distant (vptree: "Points in p must not be infinitely distant")
     far |-> IF Far THEN FarExp ELSE <<>>, db |-> IF Far THEN DB ELSE 0,
     pfin |-> \A i, j \in 1 .. Len(All) : ~Far \/ Dist2(All[i], All[j]) < InfD,
     bounded |-> {[cb |-> cb, ee |-> ee, bb |-> bb, ib |-> ib, v |-> Mode(cb, ee, Len(built), Len(ins), bb, ib)] :
                     cb \in BOOLEAN, ee \in BOOLEAN, bb \in BOOLEAN, ib \in BOOLEAN},
     box |-> IF Len(All) = 0 THEN <<>> ELSE <<Act(BoxMin(All)), Act(BoxMax(All))>>,
     ks |-> Ks, rs |-> Rs, rsq |-> [i \in DOMAIN Rs |-> IsSquare(Rs[i])],
     boxes |-> {[lo |-> Act(b[1]), hi |-> Act(b[2]), pts |-> ActSeq(BoxScan(All, b[1], b[2]))] : b \in Boxes},
     qs |-> {QueryRec(q) : q \in Queries}]))
=============================================================================
