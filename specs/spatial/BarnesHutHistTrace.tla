------------------------- MODULE BarnesHutHistTrace -------------------------
(* R3 (code->spec): accepts an ndjson log of real histories of barneshut      *)
(* Plane / Volume objects iff every logged answer is what BarnesHutHist.tla    *)
(* defines.  The state is advanced by the transition function Apply of the    *)
(* specification (the one LogFaithful ties to its actions); the observations   *)
(* of the real object are judged on the resulting state:                       *)
(*   new(ps)                      a new object made from the slice ps (also    *)
(*                                separates histories)                         *)
(*   reset(err)                   err must be FALSE when all positions differ  *)
(*   move | mass | append | remove (i, x, m), n = len(Particles) afterwards    *)
(*   force(id, x, m, th, f, ..)   ForceOn of member id (0: an external         *)
(*                                particle) with theta = 0 (th = 0) or the     *)
(*                                tiny theta (th = 1): f must be the direct    *)
(*                                sum over the current slice whenever the      *)
(*                                specification determines it (always for      *)
(*                                th = 0; Tiny(ps, tree) for th = 1); the      *)
(*                                force law must never have been handed an     *)
(*                                aggregate, and always the query particle.    *)
(* Coordinates are actual (possibly negative) integers; they must lie in the   *)
(* range the constants declare, because ThetaOpensEveryCell was checked for it.*)
EXTENDS BarnesHutHist, TLCExt

TraceLog == ndJsonDeserialize("trace.ndjson")

VARIABLES l
tvars == <<ps0, ps, tree, nid, hist, l>>
Ev == TraceLog[l]

CoordLo == CHOOSE a \in Coords : \A b \in Coords : a <= b
CoordHi == CHOOSE a \in Coords : \A b \in Coords : b <= a
InRange(x) == Len(x) = Dim /\ \A i \in 1 .. Dim : x[i] + Off \in CoordLo .. CoordHi
Cur == [P |-> ps, t |-> tree, nx |-> nid]
Go(S) == ps' = S.P /\ tree' = S.t /\ nid' = S.nx /\ l' = l + 1 /\ UNCHANGED <<ps0, hist>>

New == /\ l <= Len(TraceLog) /\ Ev.ev = "new"
       /\ \A k \in 1 .. Len(Ev.ps) : InRange(Ev.ps[k].x) /\ Ev.ps[k].m > 0
       /\ Ev.n = Len(Ev.ps)
       /\ Go([P |-> WithIds(Ev.ps), t |-> "none", nx |-> Len(Ev.ps) + 1])

ResetEv == /\ l <= Len(TraceLog) /\ Ev.ev = "reset"
           /\ Distinct(ps) => ~Ev.err
           /\ Ev.n = Len(ps)
           /\ Go(Apply(Cur, [op |-> "reset"]))

Mutation == /\ l <= Len(TraceLog) /\ Ev.ev \in {"move", "mass", "append", "remove"}
            /\ InRange(Ev.x) /\ Ev.m > 0
            /\ IF Ev.ev = "append" THEN Ev.i = Len(ps) + 1 /\ Ev.id = nid ELSE Ev.i \in 1 .. Len(ps)
            /\ LET S == Apply(Cur, [op |-> Ev.ev, i |-> Ev.i, x |-> Ev.x, m |-> Ev.m])
               IN  Ev.n = Len(S.P) /\ Go(S)

ForceEv == /\ l <= Len(TraceLog) /\ Ev.ev = "force"
           /\ InRange(Ev.x) /\ Ev.m > 0 /\ Ev.th \in {0, 1}
           /\ Ev.n = Len(ps)
           /\ Ev.id # 0 => \E k \in 1 .. Len(ps) : ps[k].id = Ev.id /\ ps[k].x = Ev.x /\ ps[k].m = Ev.m
           /\ Ev.bad = 0
           /\ (Ev.th = 0 \/ Tiny(ps, tree)) =>
                 /\ Ev.exact
                 /\ Ev.f = Force(ps, Ev.id, Ev.x, Ev.m)
                 /\ Ev.agg = 0
           /\ Go(Cur)

TraceInit == ps0 = <<>> /\ ps = <<>> /\ tree = "none" /\ nid = 1 /\ hist = <<>> /\ l = 1
TraceNext == New \/ ResetEv \/ Mutation \/ ForceEv
TraceSpec == TraceInit /\ [][TraceNext]_tvars

Accepted ==
    LET d == TLCGet("stats").diameter IN
    IF d - 1 = Len(TraceLog) THEN PrintT("TRACE-ACCEPTED " \o ToString(Len(TraceLog)))
    ELSE /\ PrintT("TRACE-REJECTED at event " \o ToString(d) \o ": " \o ToString(TraceLog[d]))
         /\ FALSE
=============================================================================
