SPECIFICATION Spec
CONSTANTS
  Dim = @DIM@
  Coords = @COORDS@
  Off = @OFF@
  Masses = @MASSES@
  MaxN = @MAXN@
  MaxInit = @MAXINIT@
  MaxOps = @MAXOPS@
  ProbeCodes = @PROBES@
  StartBuilt = @STARTBUILT@
  ThetaLog2 = @THETALOG2@
  Shard = @SHARD@
  NShards = @NSHARDS@
  Emit = @EMIT@
INVARIANTS @INVS@
CHECK_DEADLOCK FALSE
