SPECIFICATION TraceSpec
CONSTANTS
  Dim = @DIM@
  Coords = @COORDS@
  Off = @OFF@
  Masses = {1,2,3}
  MaxN = 0
  MaxInit = 0
  MaxOps = 0
  ProbeCodes = {}
  StartBuilt = FALSE
  ThetaLog2 = @THETALOG2@
  Shard = 0
  NShards = 1
  Emit = FALSE
POSTCONDITION Accepted
CHECK_DEADLOCK FALSE
