------------------------- MODULE SpatialIndexTrace -------------------------
(* R3 (code->spec): accepts an ndjson log of a real history of a k-d tree    *)
(* (bulk construction, insertions) with the answers the real kdtree / vptree  *)
(* gave to queries, iff every answer is what SpatialIndex.tla defines on the  *)
(* bag of stored points.  Answers are logged as the POINTS the tree returned, *)
(* in the order it returned them; all distances are recomputed here by the    *)
(* linear scan (exact integers), nothing the implementation claims about      *)
(* distances is trusted - except `cd`, the distances kdtree reported, which    *)
(* must equal the recomputed ones.                                            *)
(* The k-d trees are built over USER TYPES as well: build events say whether   *)
(* the collection is a Bounder (cb), build / insert events whether the          *)
(* elements are Extenders (ee); the mode of the tree ("empty" "on" "off"        *)
(* "stale") follows SpatialIndex.tla BuildMode / InsertMode and decides what    *)
(* the stored volumes must satisfy (VolumesOK).                                 *)
(* Events: reset | build(pts, bounding, cb, ee) | insert(p, bounding, ee) |     *)
(*         query(impl, kind, q, k, r, res, cd) | contains(q, res) | tree(nodes)*)
(*         | dobounded(lo, hi, res, stopped): the points kdtree.DoBounded       *)
(*         visited for the closed box [lo, hi] (lo <= hi) must be, as a bag,   *)
(*         BoxScan of the stored points; it was not interrupted.               *)
EXTENDS SpatialIndex, TLCExt

TraceLog == ndJsonDeserialize("trace.ndjson")

VARIABLES l,      \* cursor
          bmode,  \* does the k-d tree record bounding volumes?  "empty" | "on" | "off" | "stale"
          rootbox \* observed: the root stores a volume (only a stale tree has the choice)
tvars == <<built, ins, l, bmode, rootbox>>
Ev == TraceLog[l]

Reset == /\ l <= Len(TraceLog) /\ Ev.ev = "reset"
         /\ built' = <<>> /\ ins' = <<>> /\ bmode' = "empty" /\ rootbox' = FALSE /\ l' = l + 1

Build == /\ l <= Len(TraceLog) /\ Ev.ev = "build"
         /\ built' = Ev.pts /\ ins' = <<>>
         /\ bmode' = BuildMode(Ev.cb, Len(Ev.pts), Ev.bounding)
         /\ Ev.len = Len(Ev.pts) /\ Ev.bounded = (bmode' = "on") /\ rootbox' = Ev.bounded
         /\ l' = l + 1

InsertEv == /\ l <= Len(TraceLog) /\ Ev.ev = "insert"
            /\ ins' = Append(ins, Ev.p) /\ UNCHANGED built
            /\ bmode' = InsertMode(bmode, Ev.ee, Ev.bounding)            \* kdtree.Insert documentation
            /\ (bmode = "empty") = (Len(All) = 0)
            /\ Ev.len = Len(All) + 1 /\ rootbox' = Ev.bounded
            /\ bmode' # "stale" => Ev.bounded = (bmode' = "on")
            /\ l' = l + 1

\* the returned points, in the order returned, with distances recomputed by the scan
ResD(q, res) == [i \in 1 .. Len(res) |-> Dist2(res[i], q)]
\* no point is returned more often than it is stored
SubBag(res, P) == \A i \in 1 .. Len(res) :
    Cardinality({j \in 1 .. Len(res) : res[j] = res[i]}) <= Cardinality({j \in 1 .. Len(P) : P[j] = res[i]})

Query == /\ l <= Len(TraceLog) /\ Ev.ev = "query"
         /\ LET D == DistSeq(All, Ev.q)
                R == ResD(Ev.q, Ev.res)
            IN  /\ CASE Ev.kind = "nearest" -> R = Nearest(D)
                     [] Ev.kind = "knn"     -> R = KNearest(D, Ev.k)
                     [] Ev.kind = "within"  -> R = Within(D, Ev.r)
                /\ SubBag(Ev.res, All)
                /\ Ev.impl = "kd" => Ev.cd = R
         /\ UNCHANGED <<built, ins, bmode, rootbox>> /\ l' = l + 1

Contains == /\ l <= Len(TraceLog) /\ Ev.ev = "contains"
            /\ ~rootbox => Ev.res = TRUE         \* "If no bounding has been constructed Contains returns true"
            /\ bmode \in {"empty", "off"} => Ev.res = TRUE
            /\ InBox(All, Ev.q) => Ev.res = TRUE  \* a stored volume contains every stored point, hence their minimal box
            /\ UNCHANGED <<built, ins, bmode, rootbox>> /\ l' = l + 1

DoBoundedEv == /\ l <= Len(TraceLog) /\ Ev.ev = "dobounded"
               /\ Leq(Ev.lo, Ev.hi)
               /\ LET S == BoxScan(All, Ev.lo, Ev.hi) IN
                    /\ Len(Ev.res) = Len(S)
                    /\ \A p \in Range(S) : PCnt(Ev.res, p) = PCnt(S, p)
               /\ Ev.stopped = FALSE
               /\ UNCHANGED <<built, ins, bmode, rootbox>> /\ l' = l + 1

\* dump of the real tree: for every node its bounding box and the points of its subtree
Tree == /\ l <= Len(TraceLog) /\ Ev.ev = "tree"
        /\ Len(Ev.nodes) = Len(All)
        /\ VolumesOK(bmode, Ev.nodes)
        /\ Len(All) > 0 => Ev.nodes[1].hasbox = rootbox
        \* the root's subtree is the bag
        /\ Len(All) > 0 => /\ Len(Ev.nodes[1].sub) = Len(All)
                           /\ SubBag(Ev.nodes[1].sub, All)
        /\ UNCHANGED <<built, ins, bmode, rootbox>> /\ l' = l + 1

TraceInit == built = <<>> /\ ins = <<>> /\ bmode = "empty" /\ rootbox = FALSE /\ l = 1
TraceNext == Reset \/ Build \/ InsertEv \/ Query \/ Contains \/ Tree \/ DoBoundedEv
TraceSpec == TraceInit /\ [][TraceNext]_tvars

Accepted ==
    LET d == TLCGet("stats").diameter IN
    IF d - 1 = Len(TraceLog) THEN PrintT("TRACE-ACCEPTED " \o ToString(Len(TraceLog)))
    ELSE /\ PrintT("TRACE-REJECTED at event " \o ToString(d) \o ": " \o ToString(TraceLog[d]))
         /\ FALSE
=============================================================================
