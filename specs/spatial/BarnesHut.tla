------------------------------ MODULE BarnesHut ------------------------------
(* The clause "Barnes-Hut forces with zero opening angle equal the direct    *)
(* pairwise sum": for a list of particles (lattice position, integer mass)    *)
(* and a force law F, the force on a probe particle p is                       *)
(*        DirectSum(p) = sum over every particle e of the list of F(p, e).     *)
(* The force law used is F(p, e) = m_p m_e |v|^2 v with v = e - p: it is       *)
(* exact in integers (hence in floating point on small lattices), non-linear   *)
(* in v (so replacing particles by their centre of mass changes the result)    *)
(* and zero on coincident particles.                                           *)
(*   R1  Newton's third law for the sum: the forces on all particles of the    *)
(*       list add up to zero; the force on a single particle is zero.          *)
(*   R2  every particle list in the bound is printed with the force on every   *)
(*       particle of the list and on external probes; the harness asks the     *)
(*       real Plane / Volume with theta = 0.                                   *)
EXTENDS Integers, Sequences, FiniteSets, TLC, Json

CONSTANTS Dim, Coords, Off, Masses, MaxN, ProbeCodes, Emit
VARIABLES ps              \* sequence of particles [x |-> position, m |-> mass]
vars == <<ps>>

RECURSIVE Pow64(_)
Pow64(n) == IF n = 0 THEN 1 ELSE 64 * Pow64(n - 1)
Decode(c) == [i \in 1 .. Dim |-> (c \div Pow64(Dim - i)) % 64]

RECURSIVE SumSq(_, _)
SumSq(v, i) == IF i = 0 THEN 0 ELSE v[i] * v[i] + SumSq(v, i - 1)
Vec(p, e) == [i \in 1 .. Dim |-> e[i] - p[i]]                      \* from p to e
F(p, mp, e, me) == LET v == Vec(p, e) n2 == SumSq(v, Dim) IN [i \in 1 .. Dim |-> mp * me * n2 * v[i]]
ZeroV == [i \in 1 .. Dim |-> 0]
AddV(a, b) == [i \in 1 .. Dim |-> a[i] + b[i]]
RECURSIVE SumTo(_, _, _)
SumTo(p, mp, n) == IF n = 0 THEN ZeroV ELSE AddV(F(p, mp, ps[n].x, ps[n].m), SumTo(p, mp, n - 1))
DirectSum(p, mp) == SumTo(p, mp, Len(ps))

Kinds == [x : [1 .. Dim -> Coords], m : Masses]
Init == ps = <<>>
Next == Len(ps) < MaxN /\ \E k \in Kinds : ps' = Append(ps, k)
Spec == Init /\ [][Next]_vars

RECURSIVE Total(_)
Total(n) == IF n = 0 THEN ZeroV ELSE AddV(DirectSum(ps[n].x, ps[n].m), Total(n - 1))
ThirdLaw == Total(Len(ps)) = ZeroV
Single == Len(ps) = 1 => DirectSum(ps[1].x, ps[1].m) = ZeroV

Act(p) == [i \in 1 .. Dim |-> p[i] - Off]
EmitState ==
  Emit => PrintT(ToJson(
    [k |-> "bh", dim |-> Dim,
     ps |-> [i \in 1 .. Len(ps) |-> [x |-> Act(ps[i].x), m |-> ps[i].m]],
     own |-> [i \in 1 .. Len(ps) |-> DirectSum(ps[i].x, ps[i].m)],
     probes |-> {[x |-> Act(Decode(c)), m |-> 3, f |-> DirectSum(Decode(c), 3)] : c \in ProbeCodes}]))
=============================================================================
