SPECIFICATION TraceSpec
CONSTANTS
  Dim = 1
  Coords = {}
  Off = 0
  MaxBuilt = 0
  MaxTotal = 0
  QCodes = {}
  KSet = {}
  RSet = {}
  BoxCodes = {}
  Emit = FALSE
  Far = @FAR@
POSTCONDITION Accepted
CHECK_DEADLOCK FALSE
