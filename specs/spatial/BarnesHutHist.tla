---------------------------- MODULE BarnesHutHist ----------------------------
(* HISTORIES of one barneshut.Plane / barneshut.Volume object.                *)
(*                                                                            *)
(* What the documentation of spatial/barneshut promises and this module says: *)
(*  - Plane.Particles is an exported slice; "Reset must be called if the      *)
(*    Particles field or elements of Particles have been altered, UNLESS      *)
(*    ForceOn is called with theta=0 or no data structures have been          *)
(*    previously built".  Hence a theta = 0 query is, in every state of the   *)
(*    object, the direct pairwise sum over the CURRENT slice, whatever tree   *)
(*    (none / fresh / stale / half-built after a failed Reset) the object     *)
(*    holds; and so is any query of an object that never built a tree.        *)
(*  - "Calls to f will include p in the p1 position and a non-nil p2 if the   *)
(*    force interaction is with a non-aggregate mass center": the force law   *)
(*    may depend on the identity of the two particles.                        *)
(*  - Reset returns an error only when "the plane is too large to allow       *)
(*    particle coordinates to be distinguished": never for distinct small     *)
(*    lattice positions; for coincident particles either outcome is accepted, *)
(*    and the object stays usable (theta = 0 queries, a later Reset).         *)
(*  - theta > 0 right after a successful Reset: a cell is replaced by its     *)
(*    centre of mass only if s/d < theta (s the cell size, d the distance     *)
(*    from the query to the centre of mass).  A cell with at least two        *)
(*    particles at distinct lattice positions a, b contains both, so its      *)
(*    longest side is >= 1 and any mean of its Dim sides is >= 1/Dim; the     *)
(*    centre of mass lies in the hull of the particles, so d <= sqrt(Dim) *   *)
(*    Span.  With theta = 2^-ThetaLog2 and Dim^3 Span^2 < 4^ThetaLog2         *)
(*    (ASSUME ThetaOpensEveryCell below, checked by TLC on the constants) no  *)
(*    such cell satisfies s/d < theta: every cell is opened, every            *)
(*    interaction is with a single particle, and the result is again the      *)
(*    direct sum.  This is only claimed when all positions are distinct.      *)
(*                                                                            *)
(* State machine.  ps is the current slice (identity, lattice position,       *)
(* integer mass), tree the status of the object's tree.  Actions:             *)
(*   Reset | Move(i, x) | SetMass(i, m) | Add(particle) | Remove(i)           *)
(* (all mutations WITHOUT Reset).  Queries are not actions: after every       *)
(* action the answers of ALL queries (theta = 0 on every member of the slice  *)
(* and on external probes on / off the lattice; the same with the tiny theta  *)
(* when that is determined) are logged in hist, so a state is a history with  *)
(* everything an observer may ask along it.                                   *)
(*                                                                            *)
(* Force law (exact in integers, hence in floating point on small lattices):  *)
(*   Law(p1, p2) = 0                               if p1 and p2 are the same  *)
(*                                                  particle (identity)       *)
(*               = m1 m2 ((|v|^2 + 1) v + u)       otherwise, v = x2 - x1,    *)
(*                                                  u = (1, 2[, 3])           *)
(* non-linear in v (a centre of mass gives another value), non-zero at v = 0  *)
(* (coincident but distinct particles interact), zero on the particle itself  *)
(* (whether an implementation includes or skips the pair (p, p) is invisible).*)
(*                                                                            *)
(*   R1  TypeOK, LogFaithful (replaying the logged operations from the        *)
(*       initial slice gives ps), TotalLaw (the forces on all members add up  *)
(*       to u Sum_{k#l} m_k m_l: the antisymmetric part cancels), OrderFree *)
(*       (the sum does not depend on the order of the slice), TinyOnlyFresh.  *)
(*   R2  every maximal history in the bound (model checking), or random long  *)
(*       ones (-simulate), printed as one JSON line; the harness replays it   *)
(*       into a real Plane / Volume and compares every answer exactly.        *)
EXTENDS Integers, Sequences, FiniteSets, TLC, Json

CONSTANTS Dim,         \* 2 (Plane) or 3 (Volume)
          Coords,      \* coordinate values of particles (encoded: actual + Off)
          Off,         \* encoding offset (cfg files cannot hold negative numbers)
          Masses,      \* integer masses
          MaxN,        \* at most this many particles in the slice
          MaxInit,     \* the initial slice has at most this many
          MaxOps,      \* length of a history (the initial "lit" entry included)
          ProbeCodes,  \* external query points, sum of (actual + Off) * 64^(Dim - i)
          StartBuilt,  \* BOOLEAN: the first action of every history is Reset
          ThetaLog2,   \* the tiny opening angle is 2^-ThetaLog2
          Shard, NShards,
          Emit         \* BOOLEAN: generator role

VARIABLES ps0,   \* the slice the object was made from (constant along a behaviour)
          ps,    \* the current slice: sequence of [id, x, m]
          tree,  \* "none" never built | "fresh" built from ps | "stale" | "unknown" (Reset of coincident particles)
          nid,   \* next unused identity
          hist   \* the log
vars == <<ps0, ps, tree, nid, hist>>

ProbeMass == 3

RECURSIVE Pow(_, _)
Pow(b, n) == IF n = 0 THEN 1 ELSE b * Pow(b, n - 1)
Decode(c) == [i \in 1 .. Dim |-> (c \div Pow(64, Dim - i)) % 64]
RECURSIVE IncSeq(_)
IncSeq(S) == IF S = {} THEN <<>>
             ELSE LET m == CHOOSE x \in S : \A y \in S : x <= y IN <<m>> \o IncSeq(S \ {m})
Probes == LET cs == IncSeq(ProbeCodes) IN [j \in 1 .. Len(cs) |-> Decode(cs[j])]

(***************************** the tiny theta *********************************)
AllCoords == Coords \cup {Probes[j][i] : j \in 1 .. Len(Probes), i \in 1 .. Dim}
Span == LET hi == CHOOSE a \in AllCoords : \A b \in AllCoords : b <= a
            lo == CHOOSE a \in AllCoords : \A b \in AllCoords : a <= b
        IN  IF hi = lo THEN 1 ELSE hi - lo
\* (s/d)^2 >= (1/Dim)^2 / (Dim Span^2) > theta^2 = 4^-ThetaLog2
ASSUME ThetaOpensEveryCell ==
         /\ ThetaLog2 \in 1 .. 15 /\ Dim \in {2, 3} /\ Span \in 1 .. 63
         /\ Dim * Dim * Dim * Span * Span < Pow(4, ThetaLog2)

(******************************* force law ************************************)
RECURSIVE SumSq(_, _)
SumSq(v, i) == IF i = 0 THEN 0 ELSE v[i] * v[i] + SumSq(v, i - 1)
ZeroV == [i \in 1 .. Dim |-> 0]
AddV(a, b) == [i \in 1 .. Dim |-> a[i] + b[i]]
Law(id1, x1, m1, id2, x2, m2) ==
  IF id1 = id2 THEN ZeroV
  ELSE LET v == [i \in 1 .. Dim |-> x2[i] - x1[i]]
           n2 == SumSq(v, Dim)
       IN  [i \in 1 .. Dim |-> m1 * m2 * ((n2 + 1) * v[i] + i)]

\* the direct pairwise sum over the slice P, on the particle (id, x, m)
RECURSIVE SumTo(_, _, _, _, _)
SumTo(P, id, x, m, n) ==
  IF n = 0 THEN ZeroV ELSE AddV(Law(id, x, m, P[n].id, P[n].x, P[n].m), SumTo(P, id, x, m, n - 1))
Force(P, id, x, m) == SumTo(P, id, x, m, Len(P))

Distinct(P) == \A i, j \in 1 .. Len(P) : i # j => P[i].x # P[j].x

(******************************** the log *************************************)
Act(p) == [i \in 1 .. Dim |-> p[i] - Off]
\* is the answer of a query with the tiny theta determined (= the direct sum)?
Tiny(P, t) == Distinct(P) /\ t \in {"fresh", "none"}
Entry(op, i, x, m, P, t) ==
  [op |-> op, i |-> i, x |-> x, m |-> m, n |-> Len(P), tree |-> t,
   \* outcome of the Reset: "nil" it must succeed, "any" (coincident particles), "-" not a Reset
   err |-> IF op # "reset" THEN "-" ELSE IF Distinct(P) THEN "nil" ELSE "any",
   tiny |-> Tiny(P, t),
   own |-> [k \in 1 .. Len(P) |-> Force(P, P[k].id, P[k].x, P[k].m)],
   probes |-> [j \in 1 .. Len(Probes) |-> Force(P, 0, Probes[j], ProbeMass)]]

(****************************** state machine *********************************)
Pos == [1 .. Dim -> Coords]
Kinds == [x : Pos, m : Masses]
WithIds(s) == [k \in 1 .. Len(s) |-> [id |-> k, x |-> s[k].x, m |-> s[k].m]]

RECURSIVE CodeR(_, _)
CodeR(p, i) == IF i = 0 THEN 0 ELSE p[i] + 7 * CodeR(p, i - 1)
RECURSIVE ShardOf(_, _)
ShardOf(s, n) == IF n = 0 THEN 0 ELSE (CodeR(s[n].x, Dim) + 3 * s[n].m + 5 * ShardOf(s, n - 1)) % NShards

Init == /\ ps0 \in {WithIds(s) : s \in {t \in UNION {[1 .. n -> Kinds] : n \in 0 .. MaxInit} : ShardOf(t, Len(t)) = Shard}}
        /\ ps = ps0
        /\ tree = "none"
        /\ nid = Len(ps0) + 1
        /\ hist = <<Entry("lit", 0, ZeroV, 0, ps0, "none")>>

Step(op, i, x, m, P, t) ==
  /\ Len(hist) < MaxOps
  /\ ps' = P
  /\ tree' = t
  /\ hist' = Append(hist, Entry(op, i, x, m, P, t))
  /\ UNCHANGED ps0

Stale(t) == IF t = "none" THEN "none" ELSE "stale"
Without(P, i) == SubSeq(P, 1, i - 1) \o SubSeq(P, i + 1, Len(P))

Reset == /\ Step("reset", 0, ZeroV, 0, ps, IF Distinct(ps) THEN "fresh" ELSE "unknown")
         /\ UNCHANGED nid
Move(i, x) == /\ x # ps[i].x
              /\ Step("move", i, x, ps[i].m, [ps EXCEPT ![i].x = x], Stale(tree))
              /\ UNCHANGED nid
SetMass(i, m) == /\ m # ps[i].m
                 /\ Step("mass", i, ps[i].x, m, [ps EXCEPT ![i].m = m], Stale(tree))
                 /\ UNCHANGED nid
Add(k) == /\ Len(ps) < MaxN
          /\ Step("append", Len(ps) + 1, k.x, k.m, Append(ps, [id |-> nid, x |-> k.x, m |-> k.m]), Stale(tree))
          /\ nid' = nid + 1
Remove(i) == /\ Step("remove", i, ps[i].x, ps[i].m, Without(ps, i), Stale(tree))
             /\ UNCHANGED nid

Mutate == \/ \E i \in 1 .. Len(ps) : \E x \in Pos : Move(i, x)
          \/ \E i \in 1 .. Len(ps) : \E m \in Masses : SetMass(i, m)
          \/ \E k \in Kinds : Add(k)
          \/ \E i \in 1 .. Len(ps) : Remove(i)
Next == IF StartBuilt /\ Len(hist) = 1 THEN Reset ELSE Reset \/ Mutate
Spec == Init /\ [][Next]_vars

(************************* design theorems (R1) *******************************)
Statuses == {"none", "fresh", "stale", "unknown"}
TypeOK == /\ tree \in Statuses
          /\ Len(ps) <= MaxN
          /\ \A k \in 1 .. Len(ps) : ps[k].id \in 1 .. nid - 1 /\ ps[k].x \in Pos /\ ps[k].m \in Masses
          /\ \A k, l \in 1 .. Len(ps) : k # l => ps[k].id # ps[l].id
          /\ Len(hist) \in 1 .. MaxOps

\* the log is faithful: its operations, applied to the initial slice, give ps and tree
Apply(S, e) ==     \* S = [P, t, nx]
  CASE e.op = "reset"  -> [P |-> S.P, t |-> IF Distinct(S.P) THEN "fresh" ELSE "unknown", nx |-> S.nx]
    [] e.op = "move"   -> [P |-> [S.P EXCEPT ![e.i].x = e.x], t |-> Stale(S.t), nx |-> S.nx]
    [] e.op = "mass"   -> [P |-> [S.P EXCEPT ![e.i].m = e.m], t |-> Stale(S.t), nx |-> S.nx]
    [] e.op = "append" -> [P |-> Append(S.P, [id |-> S.nx, x |-> e.x, m |-> e.m]), t |-> Stale(S.t), nx |-> S.nx + 1]
    [] e.op = "remove" -> [P |-> Without(S.P, e.i), t |-> Stale(S.t), nx |-> S.nx]
    [] OTHER           -> S
RECURSIVE Replay(_)
Replay(n) == IF n = 1 THEN [P |-> ps0, t |-> "none", nx |-> Len(ps0) + 1] ELSE Apply(Replay(n - 1), hist[n])
LogFaithful == LET S == Replay(Len(hist)) IN
  /\ S.P = ps /\ S.t = tree /\ S.nx = nid
  /\ hist[Len(hist)].n = Len(ps) /\ hist[Len(hist)].tree = tree
  /\ hist[Len(hist)].own = [k \in 1 .. Len(ps) |-> Force(ps, ps[k].id, ps[k].x, ps[k].m)]

\* the antisymmetric part of the law cancels in the total (Newton's third law), the push u adds up
RECURSIVE Total(_), SumM(_), SumM2(_)
Total(n) == IF n = 0 THEN ZeroV ELSE AddV(Force(ps, ps[n].id, ps[n].x, ps[n].m), Total(n - 1))
SumM(n) == IF n = 0 THEN 0 ELSE ps[n].m + SumM(n - 1)
SumM2(n) == IF n = 0 THEN 0 ELSE ps[n].m * ps[n].m + SumM2(n - 1)
\* (sum over ordered pairs k # l of m_k m_l) = (sum m)^2 - sum m^2
TotalLaw == LET n == Len(ps) IN Total(n) = [i \in 1 .. Dim |-> i * (SumM(n) * SumM(n) - SumM2(n))]
Rev(P) == [k \in 1 .. Len(P) |-> P[Len(P) + 1 - k]]
OrderFree == /\ \A k \in 1 .. Len(ps) : Force(Rev(ps), ps[k].id, ps[k].x, ps[k].m) = Force(ps, ps[k].id, ps[k].x, ps[k].m)
             /\ \A j \in 1 .. Len(Probes) : Force(Rev(ps), 0, Probes[j], ProbeMass) = Force(ps, 0, Probes[j], ProbeMass)
             /\ Len(ps) = 1 => Force(ps, ps[1].id, ps[1].x, ps[1].m) = ZeroV
             /\ Len(ps) = 0 => \A j \in 1 .. Len(Probes) : Force(ps, 0, Probes[j], ProbeMass) = ZeroV
\* a tiny-theta answer is only ever claimed with distinct positions and a tree that is fresh or absent
TinyOnlyFresh == \A n \in 1 .. Len(hist) : hist[n].tiny => hist[n].tree \in {"fresh", "none"} /\ hist[n].err # "any"

(**************************** generator role (R2) *****************************)
ActE(e) == [e EXCEPT !.x = IF e.op \in {"lit", "reset"} THEN ZeroV ELSE Act(e.x)]
EmitHist ==
  (Emit /\ Len(hist) = MaxOps) => PrintT(ToJson(
    [k |-> "bhh", dim |-> Dim, tl |-> ThetaLog2, pm |-> ProbeMass,
     probes |-> [j \in 1 .. Len(Probes) |-> Act(Probes[j])],
     init |-> [k \in 1 .. Len(ps0) |-> [x |-> Act(ps0[k].x), m |-> ps0[k].m]],
     hist |-> [n \in 1 .. Len(hist) |-> ActE(hist[n])]]))
=============================================================================
