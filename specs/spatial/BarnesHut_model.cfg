SPECIFICATION Spec
CONSTANTS
  Dim = @DIM@
  Coords = @COORDS@
  Off = @OFF@
  Masses = @MASSES@
  MaxN = @MAXN@
  ProbeCodes = @PROBES@
  Emit = @EMIT@
INVARIANTS @INVS@
CHECK_DEADLOCK FALSE
