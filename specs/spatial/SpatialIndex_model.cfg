SPECIFICATION Spec
CONSTANTS
  Dim = @DIM@
  Coords = @COORDS@
  Off = @OFF@
  MaxBuilt = @MAXBUILT@
  MaxTotal = @MAXTOTAL@
  QCodes = @QCODES@
  KSet = @KS@
  RSet = @RS@
  Emit = @EMIT@
INVARIANTS @INVS@
CHECK_DEADLOCK FALSE
