SPECIFICATION Spec
CONSTANTS
  Dim = @DIM@
  Coords = @COORDS@
  Off = @OFF@
  MaxBuilt = @MAXBUILT@
  MaxTotal = @MAXTOTAL@
  QCodes = @QCODES@
  KSet = @KS@
  RSet = @RS@
  BoxCodes = @BOXES@
  Emit = @EMIT@
  Far = @FAR@
INVARIANTS @INVS@
CHECK_DEADLOCK FALSE
