---------------------------- MODULE DotAbstract ----------------------------
(* Abstract structure carried by a DOT document: named nodes with attribute   *)
(* lists, edges between named nodes with attribute lists and ports.  The      *)
(* property is that Marshal followed by Unmarshal is the identity on this     *)
(* structure for every name / key / value / port string, however hostile to   *)
(* quoting.  Strings are sequences of code points.                            *)
(*                                                                             *)
(* What the abstract model can say about a string:                             *)
(*   "plain"   any string that is not already in a DOT-quoted form: must come  *)
(*             back unchanged;                                                 *)
(*   "html"    <...> without inner angle brackets: a DOT HTML string, must     *)
(*             come back unchanged;                                            *)
(*   "lexical" the string is itself of the form "..." or <...<...> : what it   *)
(*             denotes is a matter of the DOT lexical grammar, which is not    *)
(*             specified here (documented: IDs are unquoted during             *)
(*             unmarshalling if appropriate); only totality is expected.       *)
(* The lexical grammar of DOT itself is not re-specified.                      *)
EXTENDS Integers, Sequences, FiniteSets, TLC, Json

CONSTANTS Mode,   \* "roles" | "pairs" | "shapes" | "multi" (multigraphs: parallel lines, MarshalMulti / UnmarshalMulti)
                  \* | "ports" (both ends ported, every stored orientation / reversal rule / graph kind)
          Seed, Shard, NShards, Emit

VARIABLE val
vars == <<val>>

DQ == 34  BS == 92  LT == 60  GT == 62
Alphabet == <<DQ, BS, 45, 32, 10, LT, GT, 233, 97, 49>>     \* " \ - space newline < > e-acute a 1
Str1 == {<<Alphabet[i]>> : i \in 1 .. Len(Alphabet)}
Str2 == {<<Alphabet[i], Alphabet[j]>> : i, j \in 1 .. Len(Alphabet)}
Keywords == { <<110,111,100,101>>, <<101,100,103,101>>, <<103,114,97,112,104>>, <<100,105,103,114,97,112,104>>,
              <<115,117,98,103,114,97,112,104>>, <<115,116,114,105,99,116>>, <<78,111,100,101>>, <<71,82,65,80,72>> }
Special == { <<>>, <<97,DQ,98,BS,99>>, <<97,32,98>>, <<LT,97,GT>>, <<DQ,97,DQ>>, <<LT,LT,97,GT>>, <<LT,97,GT,GT>>,
             <<45,49>>, <<49,46>>, <<46,53>>, <<49,97>>, <<45,46>>, <<BS,DQ>>, <<97,10,98>>, <<BS,110>>, <<BS,BS,110>>,
             <<DQ,LT,97,GT,DQ>>, <<97,BS>>, <<DQ,BS,DQ>>, <<DQ,DQ,DQ>>, <<LT,32,GT>>, <<97,45,GT,98>>, <<97,45,45,98>>,
             <<47,47,97>>, <<47,42,97,42,47>>, <<35,97>>, <<97,59,98>>, <<123,97,125>>, <<91,97,93>>, <<97,61,98>>,
             <<97,44,98>>, <<97,58,98>>, <<233,233>>, <<8364>>, <<128512>>, <<97,9,98>>, <<97,13,10,98>> }
Pool == Str1 \cup Str2 \cup Keywords \cup Special

QuotedForm(s) == Len(s) >= 2 /\ s[1] = DQ /\ s[Len(s)] = DQ
AngleForm(s) == Len(s) >= 2 /\ s[1] = LT /\ s[Len(s)] = GT
InnerClean(s) == \A i \in 2 .. (Len(s) - 1) : s[i] # LT /\ s[i] # GT
Class(s) == IF QuotedForm(s) THEN "lexical"
            ELSE IF AngleForm(s) THEN (IF InnerClean(s) THEN "html" ELSE "lexical")
            ELSE "plain"
Exact(s) == Class(s) # "lexical"
Expected(s) == s          \* for Exact(s): the identity

NamePool == {s \in Pool : Exact(s)}
PortPool == {s \in NamePool : s # <<>>}

\* a structure: nodes = sequence of [id, attrs], edges = sequence of [u, v, attrs, fp, fc, tp, tc]
\* (u, v index nodes; fp/tp port strings, fc/tc compass tokens, empty = none)
Attr(k, v) == [k |-> k, v |-> v]
X == <<120>>   Y == <<121>>   Lbl == <<108,97,98,101,108>>   V == <<118>>
NodeR(id, attrs) == [id |-> id, attrs |-> attrs]
EdgeR(u, v, attrs, fp, fc, tp, tc) == [u |-> u, v |-> v, attrs |-> attrs, fp |-> fp, fc |-> fc, tp |-> tp, tc |-> tc]
Compass == { <<>>, <<110>>, <<115,119>>, <<95>> }           \* none, n, sw, _

\* "roles": every pool string in every role, one role at a time
Roles(d) ==
     {[dir |-> d, role |-> "node-id", nodes |-> <<NodeR(s, <<>>), NodeR(X, <<>>)>>,
       edges |-> <<EdgeR(1, 2, <<>>, <<>>, <<>>, <<>>, <<>>)>>] : s \in NamePool \ {X}}
\cup {[dir |-> d, role |-> "node-attr-value", nodes |-> <<NodeR(X, <<Attr(Lbl, s)>>), NodeR(Y, <<>>)>>,
       edges |-> <<>>] : s \in Pool}
\cup {[dir |-> d, role |-> "node-attr-key", nodes |-> <<NodeR(X, <<Attr(s, V), Attr(Lbl, X)>>)>>,
       edges |-> <<>>] : s \in NamePool \ {Lbl, <<>>}}
\cup {[dir |-> d, role |-> "edge-attr-value", nodes |-> <<NodeR(X, <<>>), NodeR(Y, <<>>)>>,
       edges |-> <<EdgeR(1, 2, <<Attr(Lbl, s)>>, <<>>, <<>>, <<>>, <<>>)>>] : s \in Pool}
\cup {[dir |-> d, role |-> "edge-attr-key", nodes |-> <<NodeR(X, <<>>), NodeR(Y, <<>>)>>,
       edges |-> <<EdgeR(2, 1, <<Attr(s, V)>>, <<>>, <<>>, <<>>, <<>>)>>] : s \in NamePool \ {<<>>}}
\cup {[dir |-> d, role |-> "port", nodes |-> <<NodeR(X, <<>>), NodeR(Y, <<>>)>>,
       edges |-> <<EdgeR(1, 2, <<>>, s, c, <<>>, <<>>)>>] : s \in PortPool, c \in Compass}
\cup {[dir |-> d, role |-> "port", nodes |-> <<NodeR(X, <<>>), NodeR(Y, <<>>)>>,
       edges |-> <<EdgeR(1, 2, <<Attr(Lbl, X)>>, <<>>, c, s, <<>>)>>] : s \in PortPool, c \in Compass}

\* "pairs": two hostile names in one graph, each also used as the other's attribute value and as ports
Hash(s) == IF s = <<>> THEN 7 ELSE (s[1] * 31 + s[Len(s)] * 17 + Len(s))
Pairs(d) == {[dir |-> d, role |-> "pair",
              nodes |-> <<NodeR(p[1], <<Attr(Lbl, p[2])>>), NodeR(p[2], <<Attr(p[1], p[2])>>)>>,
              edges |-> <<EdgeR(1, 2, <<Attr(Lbl, p[1])>>, p[1], <<>>, p[2], <<110>>)>>]
               : p \in {q \in (PortPool \ {Lbl}) \X (PortPool \ {Lbl}) :
                          q[1] # q[2] /\ ((Hash(q[1]) + 3 * Hash(q[2]) + Seed) % NShards) = Shard}}

\* "shapes": every simple graph on three seed-chosen hostile names, with and without attributes / ports
RECURSIVE ToSeq(_)
ToSeq(S) == IF S = {} THEN <<>> ELSE LET x == CHOOSE y \in S : TRUE IN <<x>> \o ToSeq(S \ {x})
PoolSeq == ToSeq(PortPool)
Pick(i) == PoolSeq[((Seed * 37 + i * 11) % Cardinality(PortPool)) + 1]
PairsOf(d) == IF d THEN {<<1,2>>, <<2,1>>, <<1,3>>, <<3,1>>, <<2,3>>, <<3,2>>} ELSE {<<1,2>>, <<1,3>>, <<2,3>>}
SeqOf(S) == ToSeq(S)
Shapes(d) == {[dir |-> d, role |-> "shape",
               nodes |-> [i \in 1 .. 3 |-> NodeR(Pick(i + 3 * t), IF a THEN <<Attr(Lbl, Pick(i + 1 + 3 * t))>> ELSE <<>>)],
               edges |-> LET es == SeqOf(E) IN
                         [k \in 1 .. Len(es) |->
                            EdgeR(es[k][1], es[k][2], IF a THEN <<Attr(Pick(k + 5), Pick(k + 6))>> ELSE <<>>,
                                  IF a THEN Pick(k + 7) ELSE <<>>, <<>>, <<>>, IF a THEN <<115,119>> ELSE <<>>)]]
                : E \in SUBSET PairsOf(d), a \in BOOLEAN,
                  t \in {u \in 0 .. 3 : Cardinality({Pick(1 + 3 * u), Pick(2 + 3 * u), Pick(3 + 3 * u)}) = 3}}

\* "multi": two nodes with seed-chosen hostile names and every multiset of up to three lines between them, each
\* line with its own attribute value and port taken from the pool
LineKinds(d) == IF d THEN {<<1, 2>>, <<2, 1>>} ELSE {<<1, 2>>}
Multi(d) == {[dir |-> d, role |-> "multi",
              nodes |-> <<NodeR(Pick(1 + t), <<>>), NodeR(Pick(2 + t), <<Attr(Lbl, Pick(3 + t))>>)>>,
              edges |-> [k \in 1 .. Len(ls) |->
                           EdgeR(ls[k][1], ls[k][2], <<Attr(Lbl, Pick(k + t + 4))>>, Pick(k + t + 9), <<>>, <<>>, <<>>)]]
               : ls \in UNION {[1 .. n -> LineKinds(d)] : n \in 1 .. 3},
                 t \in {u \in 0 .. 40 : Pick(1 + u) # Pick(2 + u)}}

(*************************** "ports" **************************************)
(* The abstract content of an edge is its two ENDS, each a node with a port *)
(* string and a compass point.  A directed edge is the ordered pair <<tail  *)
(* end, head end>>; an undirected edge is the SET of its two ends, carried  *)
(* here as the pair (a, b) with a.node < b.node.                             *)
(*                                                                           *)
(* What Marshal is handed is a REPRESENTATION of that content: an edge       *)
(* object with From / To / FromPort / ToPort.  For an undirected edge both   *)
(* orientations (From = a or From = b) represent the same abstract edge, and *)
(* which of them the encoder sees when it asks the graph for Edge(n, t) with *)
(* n the smaller ID depends on                                               *)
(*   rev  what the edge's ReversedEdge / ReversedLine does: "swap" returns   *)
(*        an edge with ends and ports exchanged, "self" returns the receiver *)
(*        (documented: "otherwise the receiver should be returned            *)
(*        unaltered"; graph/formats/rdf.Statement does this);                *)
(*   gk   the graph: "lib" = simple / multi UndirectedGraph (they call       *)
(*        Reversed* when the stored orientation is the other one), "stored"  *)
(*        = a graph that returns the edge object as it was stored.           *)
(* None of this may show in the document: Unmarshal(Marshal(rep)) must have  *)
(* the abstract content Abs(rep), whatever the representation.               *)
End(i, p, c) == [node |-> i, port |-> p, compass |-> c]
AbsD(e) == [a |-> End(e.u, e.fp, e.fc), b |-> End(e.v, e.tp, e.tc)]
AbsU(e) == IF e.u < e.v THEN AbsD(e) ELSE [a |-> End(e.v, e.tp, e.tc), b |-> End(e.u, e.fp, e.fc)]
Abs(d, e) == IF d THEN AbsD(e) ELSE AbsU(e)
\* the representation of abstract edge x whose From end is a ("ab") or b ("ba")
Rep(x, o, attrs) == IF o = "ab" THEN EdgeR(x.a.node, x.b.node, attrs, x.a.port, x.a.compass, x.b.port, x.b.compass)
                    ELSE EdgeR(x.b.node, x.a.node, attrs, x.b.port, x.b.compass, x.a.port, x.a.compass)

CompassP == { <<>>, <<110>>, <<115,119>> }                  \* none, n, sw
CompassTokens == { <<95>>, <<110>>, <<110,101>>, <<101>>, <<115,101>>, <<115>>, <<115,119>>, <<119>>, <<110,119>>, <<99>> }
PT == CHOOSE u \in 0 .. 60 : Cardinality({Pick(1 + u), Pick(2 + u), Pick(3 + u), Pick(4 + u), Pick(5 + u), Pick(6 + u)}) = 6
PortsP == { <<>>, Pick(3 + PT), Pick(4 + PT) }               \* none and two different hostile port strings
\* abstract edges between nodes 1 and 2: every port / compass combination at the two ends
AbsEdges(d) == {[a |-> End(p[1], fp, fc), b |-> End(p[2], tp, tc)] :
                   p \in (IF d THEN {<<1, 2>>, <<2, 1>>} ELSE {<<1, 2>>}), fp \in PortsP, tp \in PortsP, fc \in CompassP, tc \in CompassP}
\* a few abstract edges for a second, parallel line: different strings and different compass points at the two ends
FewEdges(d) == {[a |-> End(p[1], q[1], q[2]), b |-> End(p[2], q[3], q[4])] :
                   p \in (IF d THEN {<<1, 2>>, <<2, 1>>} ELSE {<<1, 2>>}),
                   q \in { <<Pick(4 + PT), <<101>>, Pick(3 + PT), <<119>>>>, <<<<>>, <<>>, Pick(3 + PT), <<110>>>>,
                           <<Pick(3 + PT), <<>>, <<>>, <<115>>>> }}
Orients(d) == IF d THEN {"ab"} ELSE {"ab", "ba"}
RepKinds(d) == IF d THEN {<<"swap", "lib">>} ELSE {"swap", "self"} \X {"lib", "stored"}
PortNodes == <<NodeR(Pick(1 + PT), <<>>), NodeR(Pick(2 + PT), <<Attr(Lbl, Pick(5 + PT))>>)>>
PortCase(d, m, rk, es) == [dir |-> d, role |-> IF m THEN "ports-multi" ELSE "ports", rev |-> rk[1], gk |-> rk[2],
                           nodes |-> PortNodes, edges |-> es]
PortsSpace(d) ==
     {PortCase(d, m, rk, <<Rep(x, o, <<>>)>>) : m \in BOOLEAN, rk \in RepKinds(d), x \in AbsEdges(d), o \in Orients(d)}
\cup {PortCase(d, TRUE, rk, <<Rep(x, o, <<Attr(Lbl, X)>>), Rep(y, o2, <<Attr(Lbl, Pick(6 + PT))>>)>>) :
         rk \in RepKinds(d), x \in AbsEdges(d), o \in Orients(d), y \in FewEdges(d), o2 \in Orients(d)}
InShard(c) == LET e == c.edges[1] IN ((Hash(e.fp) + 3 * Hash(e.tp) + 5 * Hash(e.fc) + 7 * Hash(e.tc) + Len(c.edges) + Seed) % NShards) = Shard
Ports == {c \in PortsSpace(TRUE) \cup PortsSpace(FALSE) : InShard(c)}

Space == IF Mode = "ports" THEN Ports
         ELSE IF Mode = "multi" THEN Multi(TRUE) \cup Multi(FALSE)
         ELSE IF Mode = "roles" THEN Roles(TRUE) \cup Roles(FALSE)
         ELSE IF Mode = "pairs" THEN Pairs(TRUE) \cup Pairs(FALSE)
         ELSE Shapes(TRUE) \cup Shapes(FALSE)

Init == val \in Space
Next == UNCHANGED val
Spec == Init /\ [][Next]_vars

(***************************** theorems (R1) ********************************)
Rng(f) == {f[i] : i \in DOMAIN f}
IsMulti == val.role \in {"multi", "ports-multi"}
\* what is handed to the encoder is a well-formed structure whose node names are pairwise distinct and exact,
\* so that "the same structure comes back" is well defined
WellFormed == /\ \A i, j \in DOMAIN val.nodes : val.nodes[i].id = val.nodes[j].id => i = j
              /\ \A i \in DOMAIN val.nodes : Exact(val.nodes[i].id)
              /\ \A e \in Rng(val.edges) : e.u \in DOMAIN val.nodes /\ e.v \in DOMAIN val.nodes /\ e.u # e.v
                                           /\ Exact(e.fp) /\ Exact(e.tp)
              /\ \A i, j \in DOMAIN val.edges :
                    (i # j /\ ~IsMulti) => {val.edges[i].u, val.edges[i].v} # {val.edges[j].u, val.edges[j].v}
                               \/ (val.dir /\ val.edges[i].u # val.edges[j].u)
\* the abstraction does not depend on the representation: both stored orientations of an undirected edge have the
\* same abstract content, and the content is what the representation was made from
AbsRepInvariant == Mode = "ports" =>
                     /\ \A d \in BOOLEAN : \A x \in AbsEdges(d) \cup FewEdges(d) : \A o \in Orients(d) : Abs(d, Rep(x, o, <<>>)) = x
                     /\ \A x \in AbsEdges(FALSE) : AbsU(Rep(x, "ab", <<>>)) = AbsU(Rep(x, "ba", <<>>)) /\ x.a.node < x.b.node
\* a port string is never a compass token (":n" alone is read as a compass point - a matter of the DOT grammar) and
\* the two port strings and the two compass points used at the two ends are different
PortsDistinct == \A e \in Rng(val.edges) : e.fp \notin CompassTokens /\ e.tp \notin CompassTokens
PortsConst == Mode = "ports" => /\ Cardinality(PortsP) = 3 /\ PortsP \subseteq (PortPool \cup {<<>>})
                                /\ CompassP \subseteq (CompassTokens \cup {<<>>})
ASSUME AbsRepInvariant
ASSUME PortsConst
\* the classification is total, and the identity expectation preserves distinctness
ClassTotal == \A s \in Pool : Class(s) \in {"plain", "html", "lexical"} /\ (Exact(s) => Expected(s) = s)

(**************************** generator (R2) ********************************)
S(s) == [c |-> s, exact |-> Exact(s), cls |-> Class(s)]
AttrsJ(as) == [i \in DOMAIN as |-> [k |-> S(as[i].k), v |-> S(as[i].v)]]
EmitCase ==
  Emit => PrintT(ToJson([k |-> "dot", dir |-> val.dir, role |-> val.role,
                         rev |-> IF "rev" \in DOMAIN val THEN val.rev ELSE "swap",
                         gk |-> IF "gk" \in DOMAIN val THEN val.gk ELSE "lib",
                         nodes |-> [list |-> [i \in DOMAIN val.nodes |->
                                       [id |-> S(val.nodes[i].id), attrs |-> [list |-> AttrsJ(val.nodes[i].attrs)]]]],
                         edges |-> [list |-> [i \in DOMAIN val.edges |->
                                       [u |-> val.edges[i].u, v |-> val.edges[i].v,
                                        attrs |-> [list |-> AttrsJ(val.edges[i].attrs)],
                                        fp |-> S(val.edges[i].fp), fc |-> S(val.edges[i].fc),
                                        tp |-> S(val.edges[i].tp), tc |-> S(val.edges[i].tc),
                                        abs |-> LET x == Abs(val.dir, val.edges[i]) IN
                                                [a |-> [node |-> x.a.node, port |-> S(x.a.port), compass |-> S(x.a.compass)],
                                                 b |-> [node |-> x.b.node, port |-> S(x.b.port), compass |-> S(x.b.compass)]]]]]]))
=============================================================================
