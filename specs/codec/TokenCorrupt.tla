---------------------------- MODULE TokenCorrupt ----------------------------
(* Decoder totality on structurally corrupted documents.  A document is a     *)
(* sequence of tokens; the case space is every single deletion, duplication,   *)
(* adjacent transposition and substitution by a hostile token, at every        *)
(* position of a few base documents (DOT and N-Quads).  The specification      *)
(* does not say which corrupted documents are still in the language (the       *)
(* lexical and syntactic grammars are not re-specified in TLA+); the only      *)
(* expectation is totality: the decoder returns an error or a value, and the   *)
(* value is a consistent graph / statement - never a panic or a hang.          *)
EXTENDS Integers, Sequences, FiniteSets, TLC, Json

CONSTANTS Family,  \* "dot" | "nq"
          Emit
VARIABLE val
vars == <<val>>

DotDocs == {
  <<"strict", "digraph", "G", "{", "a", "->", "b", ":", "p", ":", "n", "[", "label", "=", "\"x y\"", ",", "w", "=", "1.5", "]", ";",
    "subgraph", "s", "{", "c", "->", "d", "}", "node", "[", "shape", "=", "box", "]", ";", "e", "}">>,
  <<"graph", "{", "a", "--", "{", "b", "c", "}", "--", "<b>", "[", "k", "=", "<<i>v</i>>", "]", "edge", "[", "k", "=", "v", "]", "}">>,
  <<"digraph", "\"q\\\"r\"", "{", "graph", "[", "rankdir", "=", "LR", "]", "\"a b\"", "->", "\"a b\"", ":", "\"p q\"", "->", "-1", "}">> }
DotHostile == {"{", "}", "[", "]", "\"", "<", ">", "->", "--", ";", "=", ":", ",", "/*", "//", "#", "\\", "subgraph", "strict", "\"\\", "<<", ""}

NqDocs == {
  <<"<http://a>", "<http://p>", "\"lit\"", "^^", "<http://t>", "<http://g>", ".">>,
  <<"_:b1", "<http://p>", "\"l\\\"i\\u00e9t\"", "@en-GB", "_:g", ".", "#", "c">>,
  <<"<http://a>", "<http://p>", "_:b2", ".">> }
NqHostile == {"\"", "<", ">", "_:", "\\", "\"\\u00", "\"\\", "^^", "@", "#", ".", "", "<<", "_:b.", "\"a\"@", "\"a\"^^"}

Docs == IF Family = "dot" THEN DotDocs ELSE NqDocs
Hostile == IF Family = "dot" THEN DotHostile ELSE NqHostile

Del(d, i) == SubSeq(d, 1, i - 1) \o SubSeq(d, i + 1, Len(d))
Dup(d, i) == SubSeq(d, 1, i) \o SubSeq(d, i, Len(d))
Swap(d, i) == [d EXCEPT ![i] = d[i + 1], ![i + 1] = d[i]]
Sub(d, i, t) == [d EXCEPT ![i] = t]
Ins(d, i, t) == SubSeq(d, 1, i) \o <<t>> \o SubSeq(d, i + 1, Len(d))
Corruptions(d) == {Del(d, i) : i \in 1 .. Len(d)} \cup {Dup(d, i) : i \in 1 .. Len(d)}
                  \cup {Swap(d, i) : i \in 1 .. (Len(d) - 1)}
                  \cup {Sub(d, i, t) : i \in 1 .. Len(d), t \in Hostile}
                  \cup {Ins(d, i, t) : i \in 0 .. Len(d), t \in Hostile}
                  \cup {SubSeq(d, 1, i) : i \in 0 .. Len(d)}
CorrOf == [d \in Docs |-> Corruptions(d)]      \* tabulated once
Space == Docs \cup UNION {CorrOf[d] : d \in Docs}

Init == val \in Space
Next == UNCHANGED val
Spec == Init /\ [][Next]_vars

\* every case is one edit away from a base document (or is one)
OneEdit == \E d \in Docs : val = d \/ val \in CorrOf[d]
Sane == Len(val) <= 1 + (CHOOSE m \in {Len(d) : d \in Docs} : \A d \in Docs : Len(d) <= m)

EmitCase == Emit => PrintT(ToJson([k |-> "tok", family |-> Family, base |-> val \in Docs, tokens |-> [list |-> val]]))
=============================================================================
