SPECIFICATION Spec
CONSTANTS
  MaxOps = @MAXOPS@
  Emit = @EMIT@
  Shard = @SHARD@
  NShards = @NSHARDS@
INVARIANTS KnownIsReturned KnownGrows Total EofSticks EmitPool EmitHist
CHECK_DEADLOCK FALSE
