---------------------------- MODULE DotSubgraph ----------------------------
(* Decode side of the abstract DOT model: edge statements whose end points   *)
(* are SUBGRAPHS, nested.                                                      *)
(*                                                                             *)
(* Abstract terms                                                              *)
(*   vertex  ::=  node n  |  subgraph [name] { stmt ; ... ; stmt }            *)
(*   stmt    ::=  node n  |  subgraph ...  |  vertex op vertex [op vertex]    *)
(* The DOT rule (the language definition; gonum/graph/encoding/dot follows it, *)
(* its tests pin `A -> {B C}` and the repaired cases `a -> b -> {a}`): an edge *)
(* statement v1 op v2 op ... makes an edge from every node of v(i) to every    *)
(* node of v(i+1); A SUBGRAPH END POINT STANDS FOR ALL NODES OF THE SUBGRAPH,  *)
(* INCLUDING THOSE OF SUBGRAPHS NESTED IN IT and those that are end points of  *)
(* edge statements inside it (VNodes below); statements inside a subgraph end  *)
(* point are statements of the graph as well (their edges exist too).  Each    *)
(* node of an end point counts once (a set).                                   *)
(*   UnmarshalMulti: one line per (statement, adjacent pair of end points,     *)
(*     node of the left, node of the right) - a bag; a pair (n, n) is a self   *)
(*     loop line.                                                              *)
(*   Unmarshal (simple graph): the set of those pairs; if one of them is a     *)
(*     self pair the call returns an error (simple graphs have no self loops;  *)
(*     "panic setting edge" is turned into an error - repaired in b9c9924).    *)
(*   Undirected documents (graph, --): pairs are unordered.                    *)
(* The document text is the token sequence Doc(...) below, joined by single    *)
(* spaces by the harness; subgraphs are written `{`, `subgraph {` or           *)
(* `subgraph <unique name> {`.                                                  *)
EXTENDS Integers, Sequences, FiniteSets, TLC, Json

CONSTANTS Mode,     \* "small": <= 3 leaves, with second statements / earlier node statements; "four": 4 leaves; "chain": 3 end points
          AllPats,  \* "four" / 4-leaf "chain": every pattern of repeated names (15) instead of three
          Seed, Shard, NShards, Emit

VARIABLE val
vars == <<val>>

NameStr == <<"a", "b", "c", "d", "e", "f">>          \* node n is written NameStr[n]
NodeNames == {NameStr[i] : i \in DOMAIN NameStr}

(***************************** terms *****************************************)
\* leaves carry a leaf INDEX (preorder); the node a leaf names is pat[index] (so one shape serves every pattern
\* of repeated names)
Leaf(i) == [t |-> "n", id |-> i, nm |-> 0, body |-> <<>>]
Sub(nm, body) == [t |-> "s", id |-> 0, nm |-> nm, body |-> body]      \* nm: 0 `{`, 1 `subgraph {`, 2 `subgraph name {`
St(t, vs) == [t |-> t, v |-> vs]                                       \* t: "node" | "sub" | "edge"

RECURSIVE Vtx(_, _, _), Bodies(_, _, _), Stmts(_, _, _)
\* vertices of nesting depth <= d over the leaves lo .. lo+n-1
Vtx(d, lo, n) == (IF n = 1 THEN {Leaf(lo)} ELSE {})
                 \cup (IF d >= 1 THEN {Sub((lo + n + d) % 3, b) : b \in Bodies(d - 1, lo, n)} ELSE {})
Bodies(d, lo, n) == {<<s>> : s \in Stmts(d, lo, n)}
                    \cup UNION {{<<s>> \o rest : s \in Stmts(d, lo, k), rest \in Bodies(d, lo + k, n - k)} : k \in 1 .. n - 1}
Stmts(d, lo, n) == (IF n = 1 THEN {St("node", <<Leaf(lo)>>)} ELSE {})
                   \cup {St("sub", <<v>>) : v \in {x \in Vtx(d, lo, n) : x.t = "s"}}
                   \cup UNION {{St("edge", <<x, y>>) : x \in Vtx(d, lo, k), y \in Vtx(d, lo + k, n - k)} : k \in 1 .. n - 1}

(***************************** semantics *************************************)
RECURSIVE VNodes(_, _), SNodes(_, _)
VNodes(v, pat) == IF v.t = "n" THEN {pat[v.id]} ELSE UNION {SNodes(v.body[i], pat) : i \in DOMAIN v.body}
SNodes(s, pat) == UNION {VNodes(s.v[i], pat) : i \in DOMAIN s.v}

RECURSIVE SetSeq(_)
SetSeq(S) == IF S = {} THEN <<>> ELSE LET x == CHOOSE y \in S : TRUE IN <<x>> \o SetSeq(S \ {x})
RECURSIVE Cat(_)
Cat(ss) == IF ss = <<>> THEN <<>> ELSE Head(ss) \o Cat(Tail(ss))
\* the bag of lines of a statement / of the statements inside a vertex, as a sequence of pairs <<from, to>>
RECURSIVE VLines(_, _), SLines(_, _)
VLines(v, pat) == IF v.t = "n" THEN <<>> ELSE Cat([i \in DOMAIN v.body |-> SLines(v.body[i], pat)])
SLines(s, pat) == Cat([i \in DOMAIN s.v |-> VLines(s.v[i], pat)])
                  \o (IF s.t = "edge"
                      THEN Cat([i \in 1 .. Len(s.v) - 1 |-> SetSeq(VNodes(s.v[i], pat) \X VNodes(s.v[i + 1], pat))])
                      ELSE <<>>)
DocNodes(stmts, pat) == UNION {SNodes(stmts[i], pat) : i \in DOMAIN stmts}
DocLines(stmts, pat) == Cat([i \in DOMAIN stmts |-> SLines(stmts[i], pat)])

Rng(f) == {f[i] : i \in DOMAIN f}
Norm(dir, p) == IF dir \/ p[1] <= p[2] THEN p ELSE <<p[2], p[1]>>
MultiLines(dir, stmts, pat) == LET L == DocLines(stmts, pat) IN [i \in DOMAIN L |-> Norm(dir, L[i])]
SimpleErr(stmts, pat) == \E p \in Rng(DocLines(stmts, pat)) : p[1] = p[2]
SimpleEdges(dir, stmts, pat) == Rng(MultiLines(dir, stmts, pat))

(***************************** document text *********************************)
RECURSIVE VTok(_, _, _, _), STok(_, _, _, _), BodyTok(_, _, _, _)
\* path: a string unique to the place of the vertex in the document (names of named subgraphs)
VTok(v, pat, op, path) ==
    IF v.t = "n" THEN <<NameStr[pat[v.id]]>>
    ELSE (CASE v.nm = 0 -> <<>> [] v.nm = 1 -> <<"subgraph">> [] OTHER -> <<"subgraph", path>>)
         \o <<"{">> \o BodyTok(v.body, pat, op, path) \o <<"}">>
STok(s, pat, op, path) ==
    IF s.t = "edge"
    THEN Cat([i \in DOMAIN s.v |-> (IF i = 1 THEN <<>> ELSE <<op>>) \o VTok(s.v[i], pat, op, path \o "_" \o ToString(i))])
    ELSE VTok(s.v[1], pat, op, path \o "_1")
BodyTok(b, pat, op, path) ==
    Cat([i \in DOMAIN b |-> (IF i = 1 THEN <<>> ELSE <<";">>) \o STok(b[i], pat, op, path \o "_" \o ToString(i))])
Doc(dir, stmts, pat) == <<IF dir THEN "digraph" ELSE "graph", "{">> \o BodyTok(stmts, pat, IF dir THEN "->" ELSE "--", "s") \o <<"}">>

(***************************** the families **********************************)
\* patterns of repeated names over n leaves: restricted growth strings (the first leaf is node 1, a later leaf is a
\* node already used or the next new one)
MaxTo(f, i) == IF i = 0 THEN 0 ELSE CHOOSE m \in {f[j] : j \in 1 .. i} : \A j \in 1 .. i : f[j] <= m
RG(n) == {f \in [1 .. n -> 1 .. n] : f[1] = 1 /\ \A i \in 2 .. n : f[i] <= MaxTo(f, i - 1) + 1}
Distinct(n) == [i \in 1 .. n |-> i]
FewPats(n) == {Distinct(n), [Distinct(n) EXCEPT ![n] = 1], [i \in 1 .. n |-> IF i <= 2 THEN i ELSE i - 1]}   \* all different; last = first; third = second

\* top level edge statements over n leaves: two end points of depth <= 3
Top2(n) == UNION {{St("edge", <<x, y>>) : x \in Vtx(3, 1, k), y \in Vtx(3, k + 1, n - k)} : k \in 1 .. n - 1}
\* chains of three end points of depth <= 2
Top3(n) == UNION {{St("edge", <<x, y, z>>) : x \in Vtx(2, 1, k[1]), y \in Vtx(2, k[1] + 1, k[2]), z \in Vtx(2, k[1] + k[2] + 1, n - k[1] - k[2])}
                    : k \in {q \in (1 .. n) \X (1 .. n) : q[1] + q[2] < n}}
\* a second statement over two further leaves (fresh nodes): a stale list of subgraph nodes would show in it;
\* an earlier node statement for the node of the last leaf: the node exists before the subgraph mentions it
Second(lo) == {St("edge", <<Sub(0, <<St("node", <<Leaf(lo)>>)>>), Leaf(lo + 1)>>),
               St("edge", <<Leaf(lo), Sub(1, <<St("node", <<Leaf(lo + 1)>>)>>)>>)}
Ext(pat, n) == [i \in 1 .. n + 2 |-> IF i <= n THEN pat[i] ELSE MaxTo(pat, n) + (i - n)]
Case(stmts, pat, fam) == [stmts |-> stmts, pat |-> pat, fam |-> fam]
Small == UNION {
           {Case(<<s>>, pat, "one") : s \in Top2(n), pat \in RG(n)}
           \cup {Case(<<s, s2>>, Ext(pat, n), "two") : s \in Top2(n), pat \in RG(n), s2 \in Second(n + 1)}
           \cup {Case(<<St("node", <<Leaf(n)>>), s>>, pat, "pre") : s \in Top2(n), pat \in RG(n)}
           : n \in 2 .. 3}
Four == {Case(<<s>>, pat, "four") : s \in Top2(4), pat \in (IF AllPats THEN RG(4) ELSE FewPats(4))}
Chain == UNION {{Case(<<s>>, pat, "chain") : s \in Top3(n), pat \in (IF n = 3 \/ AllPats THEN RG(n) ELSE FewPats(n))} : n \in 3 .. 4}

\* shard selector: a number read off the brackets of the document
Spread(c) == LET d == Doc(TRUE, c.stmts, c.pat)
                 S == {i \in DOMAIN d : d[i] = "{"}
                 F(i) == i * i
             IN Len(d) * 5 + Cardinality(S) * 3 + (IF S = {} THEN 0 ELSE LET m == CHOOSE i \in S : \A j \in S : j <= i IN F(m))
                + (LET T == {i \in DOMAIN d : d[i] = "}"} k == CHOOSE i \in T : \A j \in T : i <= j IN 7 * k)
Space == LET F == CASE Mode = "small" -> Small [] Mode = "four" -> Four [] Mode = "chain" -> Chain
         IN {c \in F : NShards = 1 \/ (Spread(c) + Seed) % NShards = Shard}

Init == val \in Space
Next == UNCHANGED val
Spec == Init /\ [][Next]_vars

(***************************** theorems (R1) ********************************)
\* Second formulation, read off the TEXT instead of the term: every edge operator token joins the end point that
\* ends just before it with the end point that starts just after it; an end point is a node name or a bracketed
\* span, and stands for the node names written inside the span.
Level(d, i) == Cardinality({k \in 1 .. i : d[k] = "{"}) - Cardinality({k \in 1 .. i : d[k] = "}"})
LeftSpan(d, i) == IF d[i - 1] # "}" THEN (i - 1) .. (i - 1)
                  ELSE LET open == CHOOSE j \in 1 .. i - 1 : /\ d[j] = "{" /\ Level(d, j - 1) = Level(d, i - 1)
                                                             /\ \A k \in j + 1 .. i - 1 : ~(d[k] = "{" /\ Level(d, k - 1) = Level(d, i - 1))
                       IN open .. (i - 1)
RightSpan(d, i) == IF d[i + 1] \in NodeNames THEN (i + 1) .. (i + 1)
                   ELSE LET open == CHOOSE j \in i + 1 .. Len(d) : d[j] = "{" /\ \A k \in i + 1 .. j - 1 : d[k] # "{"
                            close == CHOOSE j \in open .. Len(d) : /\ d[j] = "}" /\ Level(d, j) = Level(d, open - 1)
                                                                   /\ \A k \in open .. j - 1 : ~(d[k] = "}" /\ Level(d, k) = Level(d, open - 1))
                        IN open .. close
NameNo(s) == CHOOSE n \in DOMAIN NameStr : NameStr[n] = s
NamesIn(d, span) == {NameNo(d[k]) : k \in {j \in span : d[j] \in NodeNames}}
Bag(sq) == [p \in Rng(sq) |-> Cardinality({i \in DOMAIN sq : sq[i] = p})]
\* one bag of pairs per operator token, summed
RECURSIVE SumBags(_, _, _)
SumBags(d, ops, acc) == IF ops = {} THEN acc
                        ELSE LET i == CHOOSE k \in ops : TRUE
                                 P == NamesIn(d, LeftSpan(d, i)) \X NamesIn(d, RightSpan(d, i))
                             IN SumBags(d, ops \ {i}, [p \in DOMAIN acc \cup P |-> (IF p \in DOMAIN acc THEN acc[p] ELSE 0) + (IF p \in P THEN 1 ELSE 0)])
TextBag(d, op) == SumBags(d, {k \in DOMAIN d : d[k] = op}, <<>>)
TextAgrees == LET d == Doc(TRUE, val.stmts, val.pat) IN
              /\ Level(d, Len(d)) = 0 /\ \A i \in 2 .. Len(d) - 1 : Level(d, i) >= 1                 \* brackets balanced
              /\ NamesIn(d, 1 .. Len(d)) = DocNodes(val.stmts, val.pat)
              /\ LET L == DocLines(val.stmts, val.pat) B == TextBag(d, "->")
                 IN DOMAIN B = Rng(L) /\ \A p \in Rng(L) : B[p] = Bag(L)[p]
\* the undirected document differs from the directed one in the graph keyword and the operator only; named subgraphs
\* have pairwise different names
TextForms == LET d == Doc(TRUE, val.stmts, val.pat) u == Doc(FALSE, val.stmts, val.pat) IN
             /\ Len(d) = Len(u) /\ \A i \in DOMAIN d : (d[i] = u[i]) \/ (d[i] = "->" /\ u[i] = "--") \/ (i = 1 /\ d[i] = "digraph" /\ u[i] = "graph")
             /\ \A i, j \in DOMAIN d : (i < j /\ d[i] = "subgraph" /\ d[j] = "subgraph" /\ d[i + 1] # "{" /\ d[j + 1] # "{") => d[i + 1] # d[j + 1]
\* simple and multi results are two views of the same pairs; undirected = directed up to orientation
ViewsAgree == /\ \A dir \in BOOLEAN : SimpleEdges(dir, val.stmts, val.pat) = Rng(MultiLines(dir, val.stmts, val.pat))
              /\ Len(MultiLines(TRUE, val.stmts, val.pat)) = Len(MultiLines(FALSE, val.stmts, val.pat))
              /\ {Norm(FALSE, p) : p \in SimpleEdges(TRUE, val.stmts, val.pat)} = SimpleEdges(FALSE, val.stmts, val.pat)
              /\ SimpleErr(val.stmts, val.pat) <=> \E p \in SimpleEdges(TRUE, val.stmts, val.pat) : p[1] = p[2]
              /\ \A p \in Rng(DocLines(val.stmts, val.pat)) : p[1] \in DocNodes(val.stmts, val.pat) /\ p[2] \in DocNodes(val.stmts, val.pat)

(**************************** generator (R2) ********************************)
EmitCase ==
  Emit => PrintT(ToJson([k |-> "dotsub", fam |-> val.fam,
                         names |-> [list |-> NameStr],
                         nodes |-> DocNodes(val.stmts, val.pat),
                         docd |-> Doc(TRUE, val.stmts, val.pat), docu |-> Doc(FALSE, val.stmts, val.pat),
                         err |-> SimpleErr(val.stmts, val.pat),
                         linesd |-> [list |-> MultiLines(TRUE, val.stmts, val.pat)],
                         linesu |-> [list |-> MultiLines(FALSE, val.stmts, val.pat)],
                         edgesd |-> SimpleEdges(TRUE, val.stmts, val.pat),
                         edgesu |-> SimpleEdges(FALSE, val.stmts, val.pat)]))
=============================================================================
