SPECIFICATION HSpec
CONSTANTS
  Gens = {1, 2}
  Ids = {1}
  Streams = {1, 2}
  MaxN = 1000000
  MaxTok = 1000000
  B = @B@
  Free = @FREE@
  TailLen = @TAIL@
  Shard = @SHARD@
  NShards = @NSHARDS@
  Emit = @EMIT@
INVARIANTS SnapSound ImgSound SameBytesSameStream PrepRuns ObsSound EmitCase
CHECK_DEADLOCK FALSE
