----------------------------- MODULE Graph6Ids -----------------------------
(* graph6 / digraph6 Encode on ANY graph (on top of Graph6).                  *)
(*                                                                             *)
(* Documentation of graph6.Encode / digraph6.Encode: "returns a graph6         *)
(* encoding of the topology of the given graph using a lexical ordering of the *)
(* nodes by ID to map them to [0, n)".  So the encoding is a function of the   *)
(* node ID SET S (any 64-bit integers: negative, zero, sparse, mixed sign) and *)
(* the arc set A over S:                                                       *)
(*     rank(x) = number of members of S smaller than x                         *)
(*     Encode(S, A) = Enc([n |-> |S|, e |-> {<<rank(u), rank(v)>> : <<u,v>> \in A}]) *)
(* with Enc the format arithmetic of Graph6.  Nothing else about the IDs       *)
(* matters - in particular not whether the largest ID happens to be n-1, the   *)
(* smallest 0, or whether IDs are non-negative.                                *)
(*                                                                             *)
(* TLC integers are 32 bit, node IDs 64 bit: an ID is a record [a, d]          *)
(*    a = -1 : math.MinInt64 + d   (0 <= d <= 8)                               *)
(*    a =  0 : d                                                               *)
(*    a =  1 : math.MaxInt64 + d   (-7 <= d <= 0)                              *)
(* ordered lexicographically by (a, d) - which is the numeric order, the d     *)
(* being small - and handed to the harness as its DECIMAL STRING (IdStr).      *)
(*                                                                             *)
(* R1 (every enumerated case): rank is an order isomorphism of S onto 0..n-1;  *)
(* the encoding is strictly valid and decodes (Graph6!Dec) to the rank image;  *)
(* the encoding is the one of the rank image read as a graph on 0..n-1.        *)
(* R2: every case is printed with the sorted ID strings, the arcs as pairs of  *)
(* ID strings, the expected bytes and the rank-relabelled adjacency.           *)
EXTENDS Graph6

CONSTANTS IdN,       \* all ID sets with at most IdN members
          Wide,      \* BOOLEAN: the wide pool (11 IDs) or the narrow one (8 IDs)
          Shard, NShards

Id(a, d) == [a |-> a, d |-> d]
Less(x, y) == x.a < y.a \/ (x.a = y.a /\ x.d < y.d)

\* MinInt64, MinInt64+1, -5, -1, 0, 1, 2, 3, 7, MaxInt64-1, MaxInt64
PoolWide == {Id(-1, 0), Id(-1, 1), Id(0, -5), Id(0, -1), Id(0, 0), Id(0, 1), Id(0, 2), Id(0, 3), Id(0, 7), Id(1, -1), Id(1, 0)}
\* MinInt64, -2, -1, 0, 1, 2, 3, MaxInt64
PoolNarrow == {Id(-1, 0), Id(0, -2), Id(0, -1), Id(0, 0), Id(0, 1), Id(0, 2), Id(0, 3), Id(1, 0)}
Pool == IF Wide THEN PoolWide ELSE PoolNarrow

\* math.MinInt64 = -9223372036854775808, math.MaxInt64 = 9223372036854775807
IdStr(x) == CASE x.a = 0 -> ToString(x.d)
              [] x.a = -1 -> "-922337203685477580" \o ToString(8 - x.d)
              [] x.a = 1 -> "922337203685477580" \o ToString(7 + x.d)

ASSUME PoolRepresentable ==
  \A x \in PoolWide \cup PoolNarrow :
     /\ x.a \in {-1, 0, 1}
     /\ x.a = -1 => x.d \in 0 .. 8          \* one decimal digit changes
     /\ x.a = 1 => x.d \in -7 .. 0
     /\ x.a = 0 => x.d \in -1000000 .. 1000000
ASSUME LessIsNumeric ==
  /\ \A x, y \in PoolWide \cup PoolNarrow : (x.a = 0 /\ y.a = 0) => (Less(x, y) <=> x.d < y.d)
  /\ \A x, y \in PoolWide \cup PoolNarrow : x # y => (Less(x, y) <=> ~Less(y, x))
  /\ \A x, y, z \in PoolWide : (Less(x, y) /\ Less(y, z)) => Less(x, z)
  /\ IdStr(Id(-1, 0)) = "-9223372036854775808" /\ IdStr(Id(1, 0)) = "9223372036854775807"
  /\ IdStr(Id(-1, 1)) = "-9223372036854775807" /\ IdStr(Id(1, -1)) = "9223372036854775806"
  /\ IdStr(Id(0, -5)) = "-5" /\ IdStr(Id(0, 0)) = "0"

(****************************** the definition *******************************)
Rank(S, x) == Cardinality({y \in S : Less(y, x)})
PairsOver(S) == IF Directed THEN {p \in S \X S : p[1] # p[2]}
                ELSE {p \in S \X S : Less(p[1], p[2])}         \* an undirected edge, written smaller end first
Relabel(S, A) == [n |-> Cardinality(S), e |-> {<<Rank(S, p[1]), Rank(S, p[2])>> : p \in A}]
EncIds(S, A) == Enc(Relabel(S, A))

\* the largest ID is n-1 although the IDs are not 0..n-1 (an ID-is-the-index shortcut taken on this test goes wrong);
\* likewise the smallest ID is 0 although ...
IsIndexSet(S) == S = {Id(0, i) : i \in 0 .. (Cardinality(S) - 1)}
MaxIs(S, v) == S # {} /\ Id(0, v) \in S /\ \A y \in S : y = Id(0, v) \/ Less(y, Id(0, v))
MinIs(S, v) == S # {} /\ Id(0, v) \in S /\ \A y \in S : y = Id(0, v) \/ Less(Id(0, v), y)
Boundary(S) == ~IsIndexSet(S) /\ (MaxIs(S, Cardinality(S) - 1) \/ MinIs(S, 0))

(****************************** case space ***********************************)
IdSets == {S \in SUBSET Pool : Cardinality(S) <= IdN}
Cases == UNION {{[ids |-> S, arcs |-> A] : A \in {B \in SUBSET PairsOver(S) : ((Cardinality(B) + Seed) % NShards) = Shard}} : S \in IdSets}

IInit == val \in Cases
INext == UNCHANGED val
ISpec == IInit /\ [][INext]_vars

\* the enumeration contains what it is meant to contain
ASSUME NonVacuous ==
  /\ \E S \in IdSets : Cardinality(S) = IdN /\ MaxIs(S, IdN - 1) /\ ~IsIndexSet(S) /\ \E y \in S : y.a = 0 /\ y.d < 0
  /\ \E S \in IdSets : Cardinality(S) = IdN /\ MinIs(S, 0) /\ ~IsIndexSet(S)
  /\ \E S \in IdSets : Cardinality(S) = IdN /\ IsIndexSet(S)
  /\ \E S \in IdSets : Cardinality(S) >= 2 /\ \A y \in S : Less(y, Id(0, 0))
  /\ \E S \in IdSets : Id(-1, 0) \in S /\ Id(1, 0) \in S
  /\ {} \in IdSets

(****************************** theorems (R1) ********************************)
RankIso == LET S == val.ids  n == Cardinality(S) IN
           /\ {Rank(S, x) : x \in S} = 0 .. (n - 1)
           /\ \A x, y \in S : Less(x, y) <=> Rank(S, x) < Rank(S, y)
RoundTripIds == LET g == Relabel(val.ids, val.arcs)  s == EncIds(val.ids, val.arcs) IN
                /\ g \in Graphs(Cardinality(val.ids))
                /\ Class(s) = "valid"
                /\ Dec(s) = g
                /\ Cardinality(g.e) = Cardinality(val.arcs)                \* no two arcs fall on one adjacency bit
\* an index set is its own rank image: Encode on IDs 0..n-1 is the plain format
IndexSetPlain == IsIndexSet(val.ids) => Relabel(val.ids, val.arcs).e = {<<p[1].d, p[2].d>> : p \in val.arcs}

(**************************** generator (R2) ********************************)
Sorted(S) == [i \in 1 .. Cardinality(S) |-> IdStr(CHOOSE x \in S : Rank(S, x) = i - 1)]
Symmetric(A) == \A p \in A : <<p[2], p[1]>> \in A
EmitIds ==
  Emit => LET g == Relabel(val.ids, val.arcs) IN
          PrintT(ToJson([k |-> "gid", dir |-> Directed, ids |-> Sorted(val.ids),
                         arcs |-> {<<IdStr(p[1]), IdStr(p[2])>> : p \in val.arcs},
                         sym |-> Directed /\ Symmetric(val.arcs), boundary |-> Boundary(val.ids),
                         n |-> g.n, edges |-> Pairs(g.e), enc |-> [bytes |-> Enc(g)]]))
=============================================================================
