------------------------------ MODULE HllState ------------------------------
(* Abstract state of a HyperLogLog sketch (stat/card) and the rules its        *)
(* binary form, Union and SetHash are documented to obey.                      *)
(*                                                                             *)
(* A sketch is [h, p, reg]: hash function token h (0 = not set), precision p,  *)
(* registers reg[0 .. 2^p-1].  An observation with hash value x touches        *)
(* register idx = the top p bits of x and raises it to rho = 1 + number of     *)
(* leading zeros of the remaining q = W - p bits.  Observations are given as   *)
(* <<idx, k>>: the remaining bits are 2^k (rho = q - k), or zero when k = Z    *)
(* (rho = q + 1); the harness supplies a hash function that returns exactly    *)
(* idx * 2^q + rest, so the registers are known to the specification.          *)
(*                                                                             *)
(* Rules (from the documentation):                                             *)
(*  Marshal/Unmarshal  the decoded sketch has the same p and registers; the    *)
(*      receiver's hash must be the same type as the stored one, or unset and  *)
(*      the stored one registered; otherwise an error.  A decoded sketch keeps *)
(*      counting exactly like the original.                                    *)
(*  Union(r, a, b)  error iff precisions differ, hash functions of a and b     *)
(*      differ, or r has a hash set that differs; else r = pointwise max.      *)
(*  SetHash  error iff the receiver already has a hash function.               *)
(*  Corrupted encodings (field grid)  accepted only if they denote a           *)
(*      well-formed sketch: size = W, 4 <= p <= W, 2^p registers, hash rule.   *)
EXTENDS Integers, Sequences, FiniteSets, TLC, Json

CONSTANTS W,      \* 32 or 64
          Modes,  \* subset of {"rt", "union", "sethash", "corrupt"}
          Seed, Emit

VARIABLE val
vars == <<val>>

Z == 99                              \* "remaining bits are zero"
Hashes == {1, 2, 3}                  \* 1, 2: registered hash types; 3: a type that is not registered
Registered == {1, 2}
M(p) == 2 ^ p
Rho(p, k) == IF k = Z THEN (W - p) + 1 ELSE (W - p) - k
Max(a, b) == IF a >= b THEN a ELSE b
Empty(h, p) == [h |-> h, p |-> p, reg |-> [i \in 0 .. (M(p) - 1) |-> 0]]
Write(s, o) == [s EXCEPT !.reg[o[1]] = Max(@, Rho(s.p, o[2]))]
RECURSIVE WriteAll(_, _)
WriteAll(s, os) == IF os = <<>> THEN s ELSE WriteAll(Write(s, Head(os)), Tail(os))
RegSeq(s) == [i \in 1 .. M(s.p) |-> s.reg[i - 1]]

\* seed-dependent observation sequences (idx < 16 so that they fit every precision used)
Obs(a, n) == [j \in 1 .. n |-> << (a * 5 + j * 7 + Seed) % 16,
                                 IF (a + j) % 5 = 0 THEN Z ELSE (a * 3 + j * 11 + Seed) % (W - 6) >>]
ObsSets == {Obs(a, n) : a \in 0 .. 3, n \in {0, 1, 5}}

(* ---- Marshal / Unmarshal ---- *)
UnmarshalOK(stored, recvW, recvH) ==
   /\ recvW = W
   /\ IF recvH = 0 THEN stored.h \in Registered ELSE recvH = stored.h
RtCases == IF "rt" \notin Modes THEN {} ELSE
   {[k |-> "rt", src |-> [h |-> h, p |-> p, obs |-> os], recvw |-> rw, recvh |-> rh, more |-> Obs(h + p, 3)]
      : h \in Hashes, p \in {4, 6}, os \in ObsSets, rw \in {32, 64}, rh \in {0, 1, 2, 3}}
RtSketch(c) == WriteAll(Empty(c.src.h, c.src.p), c.src.obs)
RtExpect(c) == IF UnmarshalOK(RtSketch(c), c.recvw, c.recvh) THEN "ok" ELSE "error"
RtAfter(c) == WriteAll(RtSketch(c), c.more)

(* ---- Union ---- *)
UnionOK(rh, a, b) == a.p = b.p /\ a.h = b.h /\ (rh = 0 \/ rh = a.h)
UnionReg(a, b) == [i \in 1 .. M(a.p) |-> Max(a.reg[i - 1], b.reg[i - 1])]
\* alias: which sketch is the receiver ("fresh": a third sketch with hash rh)
UnionCases == IF "union" \notin Modes THEN {} ELSE
   {[k |-> "union", a |-> [h |-> ha, p |-> pa, obs |-> Obs(ha, 5)], b |-> [h |-> hb, p |-> pb, obs |-> Obs(hb + 2, 5)],
     alias |-> al, rh |-> IF al = "a" THEN ha ELSE IF al = "b" THEN hb ELSE rh]
      : ha \in {1, 2}, hb \in {1, 2}, pa \in {4, 5}, pb \in {4, 5}, al \in {"fresh", "a", "b"}, rh \in {0, 1, 2}}
USk(x) == WriteAll(Empty(x.h, x.p), x.obs)
UnionExpect(c) == IF UnionOK(c.rh, USk(c.a), USk(c.b)) THEN "ok" ELSE "error"

(* ---- SetHash ---- *)
SetHashCases == IF "sethash" \notin Modes THEN {} ELSE {[k |-> "sethash", rh |-> rh, newh |-> nh] : rh \in {0, 1, 2}, nh \in {1, 2}}
SetHashExpect(c) == IF c.rh = 0 THEN "ok" ELSE "error"

(* ---- corrupted encodings ---- *)
CorruptCases == IF "corrupt" \notin Modes THEN {} ELSE
   {[k |-> "corrupt", size |-> sz, h |-> h, p |-> p, reglen |-> rl, recvh |-> rh]
      : sz \in {0, 8, 32, 64}, h \in Hashes, rh \in {0, 1},
        p \in {0, 3, 4, 5, 10}, rl \in {0, 1, 15, 16, 17, 31, 32, 33, 1024}}
WellFormed(c) == c.size = W /\ c.p >= 4 /\ c.p <= W /\ c.reglen = M(c.p)
                 /\ (IF c.recvh = 0 THEN c.h \in Registered ELSE c.recvh = c.h)
CorruptExpect(c) == IF WellFormed(c) THEN "ok" ELSE "error"

Init == val \in RtCases \cup UnionCases \cup SetHashCases \cup CorruptCases
Next == UNCHANGED val
Spec == Init /\ [][Next]_vars

(***************************** theorems (R1) ********************************)
\* registers only grow, stay within 0 .. q+1, and the order of observations does not matter
RegBounds == val.k = "rt" => \A i \in DOMAIN RtAfter(val).reg :
                 /\ RtAfter(val).reg[i] >= RtSketch(val).reg[i]
                 /\ RtAfter(val).reg[i] >= 0 /\ RtAfter(val).reg[i] <= (W - val.src.p) + 1
Rev(s) == [i \in 1 .. Len(s) |-> s[Len(s) + 1 - i]]
OrderFree == val.k = "rt" => WriteAll(Empty(val.src.h, val.src.p), Rev(val.src.obs)) = RtSketch(val)
\* union is commutative, idempotent, and equals observing both streams in one sketch
UnionLaws == (val.k = "union" /\ val.a.p = val.b.p) =>
               /\ UnionReg(USk(val.a), USk(val.b)) = UnionReg(USk(val.b), USk(val.a))
               /\ UnionReg(USk(val.a), USk(val.a)) = RegSeq(USk(val.a))
               /\ UnionReg(USk(val.a), USk(val.b)) = RegSeq(WriteAll(USk(val.a), val.b.obs))
\* a well-formed corrupted encoding is exactly one a marshaller could have produced
CorruptIsMarshal == val.k = "corrupt" => (WellFormed(val) => val.reglen = M(val.p) /\ val.size = W)

(**************************** generator (R2) ********************************)
ObsJ(os) == [list |-> os]
EmitCase ==
  Emit =>
    CASE val.k = "rt" ->
           PrintT(ToJson([k |-> "rt", w |-> W, h |-> val.src.h, p |-> val.src.p, obs |-> ObsJ(val.src.obs),
                          recvw |-> val.recvw, recvh |-> val.recvh, expect |-> RtExpect(val),
                          reg |-> RegSeq(RtSketch(val)), more |-> ObsJ(val.more), regafter |-> RegSeq(RtAfter(val))]))
      [] val.k = "union" ->
           PrintT(ToJson([k |-> "union", w |-> W, a |-> [h |-> val.a.h, p |-> val.a.p, obs |-> ObsJ(val.a.obs)],
                          b |-> [h |-> val.b.h, p |-> val.b.p, obs |-> ObsJ(val.b.obs)], alias |-> val.alias,
                          rh |-> val.rh, expect |-> UnionExpect(val),
                          reg |-> [list |-> IF UnionExpect(val) = "ok" THEN UnionReg(USk(val.a), USk(val.b)) ELSE <<>>]]))
      [] val.k = "sethash" ->
           PrintT(ToJson([k |-> "sethash", w |-> W, rh |-> val.rh, newh |-> val.newh, expect |-> SetHashExpect(val)]))
      [] val.k = "corrupt" ->
           PrintT(ToJson([k |-> "corrupt", w |-> W, size |-> val.size, h |-> val.h, p |-> val.p, reglen |-> val.reglen,
                          recvh |-> val.recvh, expect |-> CorruptExpect(val)]))
=============================================================================
