SPECIFICATION Spec
CONSTANTS
  Mode = "@MODE@"
  AllPats = @ALLPATS@
  Seed = @SEED@
  Shard = @SHARD@
  NShards = @NSHARDS@
  Emit = @EMIT@
INVARIANTS TextAgrees TextForms ViewsAgree EmitCase
CHECK_DEADLOCK FALSE
