SPECIFICATION Spec
CONSTANTS
  Directed = @DIRECTED@
  Modes = @MODES@
  MaxN = @MAXN@
  MaxLen = @MAXLEN@
  Alphabet = @ALPHABET@
  BigNs = @BIGNS@
  Seed = @SEED@
  Emit = @EMIT@
INVARIANTS RoundTrip ReEncode DecTyped EmitCase
CHECK_DEADLOCK FALSE
