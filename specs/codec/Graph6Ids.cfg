SPECIFICATION ISpec
CONSTANTS
  Directed = @DIRECTED@
  Modes = {}
  MaxN = 0
  MaxLen = 0
  Alphabet = {}
  BigNs = {}
  Seed = @SEED@
  Emit = @EMIT@
  IdN = @IDN@
  Wide = @WIDE@
  Shard = @SHARD@
  NShards = @NSHARDS@
INVARIANTS RankIso RoundTripIds IndexSetPlain EmitIds
CHECK_DEADLOCK FALSE
