----------------------------- MODULE PrngStream -----------------------------
(* Abstract state of a pseudo-random generator for the purpose of its binary  *)
(* form.  The abstract state of a generator is its FUTURE OUTPUT STREAM: a     *)
(* generator is at position n of output stream s.  Stream s >= 1 is the stream *)
(* a generator produces after Seed(seed number s); stream Default = 0 is the   *)
(* stream of a value that came from the constructor and was never seeded.      *)
(*                                                                             *)
(*   Make(g, "ctor")  a new value from the constructor: place <<Default, 0>>   *)
(*   Make(g, "zero")  a new zero value: a legal RECEIVER of Seed and of        *)
(*                    UnmarshalBinary, its own stream is not modelled          *)
(*   Seed(g, s)       place <<s, 0>> whatever the generator was before         *)
(*   Out / Adv        the generator yields the outputs at its place            *)
(*   Save(g, k, b)    MarshalBinary: slot k holds the place of g; b is an      *)
(*                    opaque token for the BYTES that were written             *)
(*   Restore(g, k)    UnmarshalBinary of the bytes of slot k into ANY          *)
(*                    generator of the type (fresh from the constructor, a     *)
(*                    zero value, used on another stream, or the saver         *)
(*                    itself) puts it at the saved place: it continues the     *)
(*                    same output stream                                       *)
(*   Refuse(g)        truncated state must be refused; the generator is then   *)
(*                    in a state the model does not track                      *)
(*                                                                             *)
(* Bytes: the model does not know the encoding, only two laws about it.        *)
(*   re-encoding   a generator that was restored from bytes b (or has just     *)
(*                 written b) and has not been seeded / stepped since writes   *)
(*                 exactly b again:  encode(decode(b)) = b;                    *)
(*   injectivity   the same bytes never stand for two different places.        *)
(* img[g] is the token the generator is known to encode to (0 = not known),    *)
(* tok[b] the place token b stands for.                                        *)
(*                                                                             *)
(* R1: TLC explores the machine for small bounds.  R2: PrngHist enumerates     *)
(* histories of this machine and prints them with the expected observations.   *)
(* R3: PrngStreamTrace validates logs of the real generators, in which every   *)
(* output is identified by its place in the reference streams.                 *)
EXTENDS Integers, Sequences, FiniteSets, TLC

CONSTANTS Gens, Ids, Streams, MaxN, MaxTok

VARIABLES pos, snap, img, tok
svars == <<pos, snap, img, tok>>

Default == 0
Unknown == [s |-> 0 - 1, n |-> 0 - 1]      \* exists, but the model does not know its stream
Absent == [s |-> 0 - 2, n |-> 0 - 2]       \* no such generator yet
Known(p) == p.s >= 0
Place == [s : Streams \cup {Default}, n : 0 .. MaxN] \cup {Unknown, Absent}
NoSnap == [p |-> Unknown, b |-> 0]

Make(g, f) == /\ pos' = [pos EXCEPT ![g] = IF f = "ctor" THEN [s |-> Default, n |-> 0] ELSE Unknown]
              /\ img' = [img EXCEPT ![g] = 0] /\ UNCHANGED <<snap, tok>>
Seed(g, s) == /\ pos[g] # Absent
              /\ pos' = [pos EXCEPT ![g] = [s |-> s, n |-> 0]]
              /\ img' = [img EXCEPT ![g] = 0] /\ UNCHANGED <<snap, tok>>
\* j outputs: the outputs at places n .. n + j - 1 of the stream, in this order
Adv(g, j) == /\ Known(pos[g]) /\ j >= 1
             /\ pos' = [pos EXCEPT ![g] = [s |-> pos[g].s, n |-> pos[g].n + j]]
             /\ img' = [img EXCEPT ![g] = 0] /\ UNCHANGED <<snap, tok>>
Out(g, p) == p = pos[g] /\ Adv(g, 1)
\* which byte tokens MarshalBinary may produce
Fresh == Len(tok) + 1
LegalTok(g, b) == IF img[g] # 0 THEN b = img[g]
                  ELSE b = Fresh \/ (b \in 1 .. Len(tok) /\ tok[b] = pos[g])
Save(g, k, b) == /\ Known(pos[g]) /\ LegalTok(g, b)
                 /\ snap' = [snap EXCEPT ![k] = [p |-> pos[g], b |-> b]]
                 /\ img' = [img EXCEPT ![g] = b]
                 /\ tok' = IF b = Fresh THEN Append(tok, pos[g]) ELSE tok
                 /\ UNCHANGED pos
Restore(g, k) == /\ pos[g] # Absent /\ snap[k].b # 0
                 /\ pos' = [pos EXCEPT ![g] = snap[k].p]
                 /\ img' = [img EXCEPT ![g] = snap[k].b] /\ UNCHANGED <<snap, tok>>
Refuse(g) == /\ pos[g] # Absent
             /\ pos' = [pos EXCEPT ![g] = Unknown]
             /\ img' = [img EXCEPT ![g] = 0] /\ UNCHANGED <<snap, tok>>

Init == /\ pos = [g \in Gens |-> Absent] /\ snap = [k \in Ids |-> NoSnap]
        /\ img = [g \in Gens |-> 0] /\ tok = <<>>
Next == \E g \in Gens :
          \/ \E f \in {"ctor", "zero"} : Make(g, f)
          \/ \E s \in Streams : Seed(g, s)
          \/ (Known(pos[g]) /\ pos[g].n < MaxN /\ Out(g, pos[g]))
          \/ \E k \in Ids : \/ Restore(g, k)
                            \/ \E b \in 1 .. MaxTok : Save(g, k, b)
          \/ Refuse(g)
Spec == Init /\ [][Next]_svars

TypeOK == /\ \A g \in Gens : pos[g] \in Place /\ img[g] \in 0 .. Len(tok)
          /\ \A k \in Ids : snap[k].p \in Place /\ snap[k].b \in 0 .. Len(tok)
          /\ \A b \in 1 .. Len(tok) : Known(tok[b])
\* a snapshot is a place some generator has been at, and its bytes stand for that place
SnapSound == \A k \in Ids : snap[k].b # 0 => Known(snap[k].p) /\ snap[k].p.n <= MaxN /\ tok[snap[k].b] = snap[k].p
\* a generator that is known to encode to b is at the place b stands for: so decoding b and encoding again gives b,
\* and every generator restored from the same bytes continues the same stream
ImgSound == \A g \in Gens : img[g] # 0 => Known(pos[g]) /\ tok[img[g]] = pos[g]
SameBytesSameStream == \A g, h \in Gens : (img[g] # 0 /\ img[g] = img[h]) => pos[g] = pos[h]
\* restoring makes the generator indistinguishable from the saver at the time of saving
RestoreExact == [][\A g \in Gens, k \in Ids : (snap[k].b # 0 /\ pos'[g] = snap[k].p /\ pos[g] # pos'[g] /\ snap' = snap)
                      => pos'[g].s = snap[k].p.s /\ pos'[g].n = snap[k].p.n]_svars
\* MarshalBinary does not disturb the generator
SaveIsReadOnly == [][\A g \in Gens : (tok' # tok \/ snap' # snap) => pos'[g] = pos[g]]_svars
=============================================================================
