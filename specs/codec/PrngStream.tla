----------------------------- MODULE PrngStream -----------------------------
(* Abstract state of a pseudo-random generator for the purpose of its binary  *)
(* form: a generator is at position n of output stream s (the stream a fresh   *)
(* generator seeded with seed number s produces).  MarshalBinary captures      *)
(* <<s, n>>; UnmarshalBinary of those bytes into ANY generator of the type     *)
(* (fresh, used, on another stream) puts it at <<s, n>>: it continues the same *)
(* output stream.  Truncated state must be refused.                            *)
(*                                                                             *)
(* R1: TLC explores the machine for small bounds (TypeOK, restored generators  *)
(* replay exactly the saved suffix).  R3: PrngStreamTrace validates logs of    *)
(* the real generators, in which every output is identified by its place in    *)
(* the reference streams.                                                      *)
EXTENDS Integers, Sequences, FiniteSets, TLC

CONSTANTS Gens, Ids, Streams, MaxN

VARIABLES pos, snap
svars == <<pos, snap>>

Unknown == [s |-> 0 - 1, n |-> 0 - 1]
Place == [s : Streams, n : 0 .. MaxN] \cup {Unknown}

New(g, s) == /\ pos' = [pos EXCEPT ![g] = [s |-> s, n |-> 0]] /\ UNCHANGED snap
\* the generator yields the output at its place and advances
Out(g, p) == /\ pos[g] # Unknown /\ p = pos[g]
             /\ pos' = [pos EXCEPT ![g] = [s |-> p.s, n |-> p.n + 1]] /\ UNCHANGED snap
Save(g, k) == /\ pos[g] # Unknown /\ snap' = [snap EXCEPT ![k] = pos[g]] /\ UNCHANGED pos
Restore(g, k) == /\ snap[k] # Unknown /\ pos' = [pos EXCEPT ![g] = snap[k]] /\ UNCHANGED snap
\* a refused (truncated) state leaves the generator in a state the model does not track
Refuse(g) == /\ pos' = [pos EXCEPT ![g] = Unknown] /\ UNCHANGED snap

Init == pos = [g \in Gens |-> Unknown] /\ snap = [k \in Ids |-> Unknown]
Next == \E g \in Gens :
          \/ \E s \in Streams : New(g, s)
          \/ (pos[g] # Unknown /\ pos[g].n < MaxN /\ Out(g, pos[g]))
          \/ \E k \in Ids : Save(g, k) \/ Restore(g, k)
          \/ Refuse(g)
Spec == Init /\ [][Next]_svars

TypeOK == (\A g \in Gens : pos[g] \in Place) /\ (\A k \in Ids : snap[k] \in Place)
\* a snapshot is a place some generator has been at: never ahead of every stream's exploration bound
SnapReached == \A k \in Ids : snap[k] # Unknown => snap[k].n <= MaxN
\* restoring makes the generator indistinguishable from the saver at the time of saving
RestoreExact == [][\A g \in Gens, k \in Ids : (snap[k] # Unknown /\ pos'[g] = snap[k] /\ pos[g] # pos'[g] /\ snap' = snap)
                      => pos'[g].s = snap[k].s /\ pos'[g].n = snap[k].n]_svars
=============================================================================
