--------------------------- MODULE NQuadsAbstract ---------------------------
(* Abstract content of an N-Quads statement: subject (IRI or blank node),     *)
(* predicate (IRI), object (IRI, blank node, or literal = text + optional      *)
(* language tag or datatype IRI) and optional graph label (IRI or blank).      *)
(* Property: Statement.String followed by ParseNQuad is the identity on this   *)
(* content, whatever the literal text contains.  Texts are code point          *)
(* sequences; the lexical grammar of N-Quads (escapes) is not re-specified:    *)
(* the specification only says that the content comes back unchanged.          *)
EXTENDS Integers, Sequences, FiniteSets, TLC, Json

CONSTANTS Mode,  \* "lit1": every literal text of the pool in a fixed statement; "lit2": pairs text x qualifier x shapes
          Seed, Shard, NShards, Emit
VARIABLE val
vars == <<val>>

\* " \ newline CR tab space < > ' @ ^ . # _ : e-acute euro emoji NUL-free control (1) DEL a
Alphabet == <<34, 92, 10, 13, 9, 32, 60, 62, 39, 64, 94, 46, 35, 95, 58, 233, 8364, 128512, 1, 127, 97>>
Str1 == {<<Alphabet[i]>> : i \in 1 .. Len(Alphabet)}
Str2 == {<<Alphabet[i], Alphabet[j]>> : i, j \in 1 .. Len(Alphabet)}
Special == { <<>>, <<92,110>>, <<92,92,110>>, <<92,117,48,48,52,49>>, <<34,64,101,110>>, <<34,94,94,60,97,62>>,
             <<97,34,32,46>>, <<32,46,10>>, <<95,58,98>>, <<60,97,62>>, <<97,92>>, <<92,34>>, <<34,34,34>>,
             <<8232>>, <<65279>>, <<55295>>, <<57344>>, <<1114111>>, <<133>>, <<160>> }
Texts == Str1 \cup Str2 \cup Special

IriA == <<104,116,116,112,58,47,47,101,120,46,111,114,103,47,97>>          \* http://ex.org/a
IriP == <<104,116,116,112,58,47,47,101,120,46,111,114,103,47,112>>         \* http://ex.org/p
IriU == <<104,116,116,112,58,47,47,101,120,46,111,114,103,47,233,35,120>>  \* http://ex.org/e-acute#x
IriT == <<104,116,116,112,58,47,47,101,120,46,111,114,103,47,116>>         \* http://ex.org/t  (a datatype)
Iri(t) == [kind |-> "iri", text |-> t, qual |-> <<>>]
Blank(t) == [kind |-> "blank", text |-> t, qual |-> <<>>]
Lit(t, q) == [kind |-> "literal", text |-> t, qual |-> q]
None == [kind |-> "none", text |-> <<>>, qual |-> <<>>]
Quals == { <<>>, <<64,101,110>>, <<64,101,110,45,71,66>>, IriT, IriU }     \* none, @en, @en-GB, datatypes
Subjects == {Iri(IriA), Iri(IriU), Blank(<<98,49>>), Blank(<<98,46,50>>), Blank(<<98,45,51>>)}
Labels == {None, Iri(IriA), Blank(<<103>>)}
St(s, p, o, l) == [s |-> s, p |-> p, o |-> o, l |-> l]

Hash(t) == IF t = <<>> THEN 3 ELSE t[1] + 7 * t[Len(t)] + Len(t)
Space == IF Mode = "lit1"
         THEN {St(Iri(IriA), Iri(IriP), Lit(t, <<>>), None) : t \in Texts}
              \cup {St(s, Iri(IriP), o, l) : s \in Subjects, o \in Subjects, l \in Labels}
         ELSE {St(s, Iri(IriP), Lit(t, q), l)
                 : t \in {x \in Texts : ((Hash(x) + Seed) % NShards) = Shard}, q \in Quals, s \in {Iri(IriA), Blank(<<98,49>>)}, l \in Labels}

Init == val \in Space
Next == UNCHANGED val
Spec == Init /\ [][Next]_vars

\* the content is well formed (so "the same content comes back" is well defined)
WellFormed == /\ val.s.kind \in {"iri", "blank"} /\ val.p.kind = "iri"
              /\ val.o.kind \in {"iri", "blank", "literal"} /\ val.l.kind \in {"none", "iri", "blank"}
              /\ \A t \in {val.s, val.p, val.o, val.l} : t.kind # "literal" => t.qual = <<>>

T(t) == [kind |-> t.kind, text |-> [c |-> t.text], qual |-> [c |-> t.qual]]
EmitCase == Emit => PrintT(ToJson([k |-> "nq", s |-> T(val.s), p |-> T(val.p), o |-> T(val.o), l |-> T(val.l)]))
=============================================================================
