SPECIFICATION Spec
CONSTANTS
  W = @W@
  Modes = @MODES@
  Seed = @SEED@
  Emit = @EMIT@
INVARIANTS RegBounds OrderFree UnionLaws CorruptIsMarshal EmitCase
CHECK_DEADLOCK FALSE
