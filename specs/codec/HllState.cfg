SPECIFICATION Spec
CONSTANTS
  W = @W@
  Mode = "@MODE@"
  Seed = @SEED@
  Emit = @EMIT@
INVARIANTS RegBounds OrderFree UnionLaws CorruptIsMarshal EmitCase
CHECK_DEADLOCK FALSE
