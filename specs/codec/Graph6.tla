------------------------------- MODULE Graph6 -------------------------------
(* Reference semantics of the graph6 / digraph6 text formats (B. McKay,       *)
(* formats.txt) as pure arithmetic on byte sequences.                          *)
(*                                                                             *)
(* A graph is a record [n, e]: order n (nodes 0..n-1) and a set e of pairs    *)
(* (u < v for graph6, u # v for digraph6).  A string is a sequence of byte     *)
(* values.  Enc / Dec / Valid are written from the format text, not from the   *)
(* code: the size header N(n) (1, 4 or 8 bytes with the 126 markers), the bit  *)
(* vector x(0,1),x(0,2),x(1,2),x(0,3),... (graph6) or the row-major adjacency  *)
(* matrix (digraph6, '&' prefix), padded on the right with zeros to a multiple *)
(* of six and packed big-endian into bytes 63..126.                            *)
(*                                                                             *)
(* Roles: R1 (every run): the round-trip theorems below are checked  *)
(* as invariants on every enumerated graph / string.  R2 (Emit = TRUE): every  *)
(* enumerated case is printed with the expected encoding / classification /    *)
(* decoded graph; the Go harness replays it into graph6.Encode, IsValid and    *)
(* the query methods of graph6.Graph / digraph6.Graph.                         *)
EXTENDS Integers, Sequences, FiniteSets, TLC, Json

CONSTANTS Directed,  \* BOOLEAN: digraph6 (TRUE) or graph6 (FALSE)
          Modes,     \* subset of {"graphs", "big"} or of {"strings", "mutants", "bigmut", "hdr"}: case spaces to enumerate
          MaxN,      \* graphs / mutants: all graphs of order 0..MaxN
          MaxLen,    \* strings: all byte strings of length 0..MaxLen over Alphabet
          Alphabet,  \* set of byte values
          BigNs,     \* big / bigmut / hdr: set of orders
          Seed,      \* salt of the edge formula of the big family
          Emit       \* BOOLEAN: generator role

VARIABLE val
vars == <<val>>

(******************************* graphs *************************************)
Nodes(n) == 0 .. (n - 1)
AllPairs(n) == IF Directed THEN {p \in Nodes(n) \X Nodes(n) : p[1] # p[2]}
               ELSE {p \in Nodes(n) \X Nodes(n) : p[1] < p[2]}
Graphs(n) == [n : {n}, e : SUBSET AllPairs(n)]

(* the order in which the format lists the adjacency bits *)
RECURSIVE UpperCols(_)
UpperCols(n) == IF n <= 1 THEN <<>>
                ELSE UpperCols(n - 1) \o [i \in 1 .. (n - 1) |-> <<i - 1, n - 1>>]
RowMajor(n) == [k \in 1 .. (n * n) |-> <<(k - 1) \div n, (k - 1) % n>>]
Slots(n) == IF Directed THEN RowMajor(n) ELSE UpperCols(n)
NeedBits(n) == IF Directed THEN n * n ELSE (n * (n - 1)) \div 2

(******************************* encoding ***********************************)
Sx(n, sh) == ((n \div (2 ^ sh)) % 64) + 63
Header(n) == IF n < 63 THEN <<n + 63>>
             ELSE IF n < 258048 THEN <<126, Sx(n, 12), Sx(n, 6), Sx(n, 0)>>
             ELSE <<126, 126, Sx(n, 30), Sx(n, 24), Sx(n, 18), Sx(n, 12), Sx(n, 6), Sx(n, 0)>>
\* the same number in the wider (non-minimal) forms; readers accept them, writers never produce them
Header4(n) == <<126, Sx(n, 12), Sx(n, 6), Sx(n, 0)>>
Header8(n) == <<126, 126, Sx(n, 30), Sx(n, 24), Sx(n, 18), Sx(n, 12), Sx(n, 6), Sx(n, 0)>>

BitSeq(g) == LET sl == Slots(g.n) IN [k \in 1 .. Len(sl) |-> IF sl[k] \in g.e THEN 1 ELSE 0]
Pad6(b) == b \o [i \in 1 .. ((6 - (Len(b) % 6)) % 6) |-> 0]
Pack(b) == LET p == Pad6(b) IN
           [k \in 1 .. (Len(p) \div 6) |->
              63 + 32 * p[6*k-5] + 16 * p[6*k-4] + 8 * p[6*k-3] + 4 * p[6*k-2] + 2 * p[6*k-1] + p[6*k]]
Prefix == IF Directed THEN <<38>> ELSE <<>>          \* '&'
Enc(g) == Prefix \o Header(g.n) \o Pack(BitSeq(g))

(******************************* decoding ***********************************)
PrefixOK(s) == IF Directed THEN Len(s) >= 1 /\ s[1] = 38 ELSE TRUE
Body(s) == IF Directed THEN SubSeq(s, 2, Len(s)) ELSE s
Printable(t) == \A i \in 1 .. Len(t) : t[i] >= 63 /\ t[i] <= 126

Bad == [ok |-> FALSE, n |-> 0, w |-> 0]
\* orders above HugeN need more than 10^8 data bytes; every string handled here is shorter,
\* so such a header can never be followed by the right amount of data (and 32-bit TLC
\* integers could not hold n*n).
HugeN == 40000
Hdr(t) ==
  IF Len(t) = 0 THEN Bad
  ELSE IF t[1] # 126 THEN [ok |-> TRUE, n |-> t[1] - 63, w |-> 1]
  ELSE IF Len(t) >= 2 /\ t[2] # 126 THEN
       IF Len(t) >= 4 THEN [ok |-> TRUE, n |-> (t[2]-63) * 4096 + (t[3]-63) * 64 + (t[4]-63), w |-> 4]
       ELSE Bad
  ELSE IF Len(t) >= 8 THEN
       IF t[3] = 63 /\ t[4] = 63 /\ t[5] = 63
       THEN [ok |-> TRUE, n |-> (t[6]-63) * 4096 + (t[7]-63) * 64 + (t[8]-63), w |-> 8]
       ELSE [ok |-> TRUE, n |-> HugeN + 1, w |-> 8]
  ELSE Bad

Valid(s) == /\ PrefixOK(s)
            /\ LET t == Body(s) IN
               /\ Printable(t)
               /\ LET h == Hdr(t) IN
                  /\ h.ok
                  /\ h.n <= HugeN
                  /\ Len(t) - h.w = (NeedBits(h.n) + 5) \div 6

\* the following operators are applied to Valid strings only
Order(s) == Hdr(Body(s)).n
Data(s) == LET t == Body(s) IN SubSeq(t, Hdr(t).w + 1, Len(t))
BitOf(d, k) == ((d[((k - 1) \div 6) + 1] - 63) \div (2 ^ (5 - ((k - 1) % 6)))) % 2
SetSlots(s) == LET n == Order(s)  sl == Slots(n)  d == Data(s) IN
               {sl[k] : k \in {j \in 1 .. NeedBits(n) : BitOf(d, j) = 1}}
Dec(s) == [n |-> Order(s), e |-> {p \in SetSlots(s) : p[1] # p[2]}]
Loops(s) == {p[1] : p \in {q \in SetSlots(s) : q[1] = q[2]}}     \* digraph6 diagonal bits
PadClean(s) == LET d == Data(s) IN \A k \in (NeedBits(Order(s)) + 1) .. (6 * Len(d)) : BitOf(d, k) = 0
Canonical(s) == Hdr(Body(s)).w = Len(Header(Order(s)))

\* "valid": exactly what a conforming writer produces.  "lax": well formed for every reader
\* that ignores padding bits / accepts a wider size field / ignores diagonal bits; the format
\* text and the package documentation leave open whether IsValid holds for these, but if it
\* does the value must be Dec(s).  "invalid": everything else (documented: the null graph).
Class(s) == IF ~Valid(s) THEN "invalid"
            ELSE IF Canonical(s) /\ PadClean(s) /\ Loops(s) = {} THEN "valid"
            ELSE "lax"

(************************ enumerated case spaces ****************************)
RECURSIVE Strings(_)
Strings(k) == IF k <= 0 THEN {<<>>}
              ELSE LET S == Strings(k - 1) IN
                   S \cup {Append(s, b) : s \in {x \in S : Len(x) = k - 1}, b \in Alphabet}
\* (TLC evaluates constant definitions eagerly: each space is empty unless its mode is selected)
StringSpace == IF "strings" \notin Modes THEN {}
               ELSE IF Directed
               THEN Strings(MaxLen - 1) \cup {<<38>> \o s : s \in Strings(MaxLen)}
               ELSE Strings(MaxLen)

Mut(s, pos) == {SubSeq(s, 1, k) : k \in (0 .. Len(s)) \cap (pos \cup {Len(s) - 1})}
               \cup {[s EXCEPT ![i] = b] : i \in (1 .. Len(s)) \cap (pos \cup {Len(s)}), b \in Alphabet}
               \cup {Append(s, b) : b \in Alphabet}
SmallGraphs == IF Modes \cap {"graphs", "mutants"} = {} THEN {} ELSE UNION {Graphs(n) : n \in 0 .. MaxN}
MutantSpace == IF "mutants" \notin Modes THEN {} ELSE UNION {Mut(Enc(g), 0 .. 64) : g \in SmallGraphs}

\* seed-dependent family around the header-width change at n = 63
BigE(n, d) == {p \in AllPairs(n) : ((p[1] * 7 + p[2] * 13 + p[1] * p[2] + Seed * 31 + d * 17) % 11) < d}
BigGraphs == IF "big" \notin Modes THEN {} ELSE {[n |-> n, e |-> BigE(n, d)] : n \in BigNs, d \in {0, 1, 5, 11}}
BigMutSpace == IF "bigmut" \notin Modes THEN {} ELSE UNION {Mut(Enc([n |-> n, e |-> BigE(n, 5)]), 0 .. 10) : n \in BigNs}

\* header grid: every width of size field (minimal or not) x data length need-1, need, need+1
\* x fill byte, for the given orders
Fill(k, b) == [i \in 1 .. k |-> b]
HdrSpace == IF "hdr" \notin Modes THEN {} ELSE {Prefix \o h \o Fill(k, b) :
               h \in UNION {{Header(n), Header4(n), Header8(n)} : n \in BigNs},
               k \in UNION {{(NeedBits(n) + 5) \div 6 - 1, (NeedBits(n) + 5) \div 6, (NeedBits(n) + 5) \div 6 + 1} \cap Nat
                              : n \in BigNs},
               b \in {63, 64, 95, 126}}

GraphMode == Modes \subseteq {"graphs", "big"}
Init == val \in IF GraphMode
               THEN (IF "graphs" \in Modes THEN SmallGraphs ELSE {}) \cup BigGraphs
               ELSE StringSpace \cup MutantSpace \cup BigMutSpace \cup HdrSpace
Next == UNCHANGED val
Spec == Init /\ [][Next]_vars


(***************************** theorems (R1) ********************************)
\* encode then decode is the identity, and a writer's output is strictly valid
RoundTrip == GraphMode => /\ Class(Enc(val)) = "valid"
                          /\ Dec(Enc(val)) = val
\* decode then encode is the identity on strictly valid strings; on lax strings it
\* normalises to the strictly valid encoding of the same graph
ReEncode == ~GraphMode =>
              CASE Class(val) = "valid" -> Enc(Dec(val)) = val
                [] Class(val) = "lax"   -> /\ Enc(Dec(val)) # val
                                           /\ Class(Enc(Dec(val))) = "valid"
                                           /\ Dec(Enc(Dec(val))) = Dec(val)
                [] OTHER -> TRUE
\* a decoded graph is a graph of the right kind
DecTyped == (~GraphMode /\ Valid(val)) => Dec(val).e \subseteq AllPairs(Dec(val).n)

\* the size field: widths change exactly at 63 and 258048, and reading inverts writing
ASSUME HeaderWidths ==
  /\ Len(Header(0)) = 1 /\ Len(Header(62)) = 1 /\ Header(62) = <<125>>
  /\ Len(Header(63)) = 4 /\ Header(63) = <<126, 63, 63, 126>>
  /\ Len(Header(258047)) = 4 /\ Header(258047) = <<126, 125, 126, 126>>
  /\ Len(Header(258048)) = 8 /\ Header(258048) = <<126, 126, 63, 63, 63, 126, 63, 63>>
ASSUME HeaderInverse ==
  \A n \in {0, 1, 62, 63, 64, 4095, 4096, 39999, 40000} :
     /\ Hdr(Header(n)) = [ok |-> TRUE, n |-> n, w |-> Len(Header(n))]
     /\ Hdr(Header4(n)).n = n /\ Hdr(Header8(n)).n = n
     /\ Hdr(Header(n) \o <<126, 126>>).n = n
ASSUME HeaderHuge == Hdr(Header(258048)).n > HugeN /\ Hdr(Header(2147483647)).n > HugeN

(**************************** generator (R2) ********************************)
Pairs(S) == {<<p[1], p[2]>> : p \in S}
EmitCase ==
  Emit =>
    IF GraphMode
    THEN PrintT(ToJson([k |-> "g", dir |-> Directed, n |-> val.n, edges |-> Pairs(val.e),
                        enc |-> [bytes |-> Enc(val)]]))
    ELSE IF Valid(val)
         THEN PrintT(ToJson([k |-> "s", dir |-> Directed, s |-> [bytes |-> val], cls |-> Class(val),
                             n |-> Dec(val).n, edges |-> Pairs(Dec(val).e), loops |-> Loops(val),
                             canon |-> Canonical(val), padclean |-> PadClean(val),
                             reenc |-> [bytes |-> Enc(Dec(val))]]))
         ELSE PrintT(ToJson([k |-> "s", dir |-> Directed, s |-> [bytes |-> val], cls |-> "invalid",
                             n |-> 0, edges |-> {}, loops |-> {}, canon |-> FALSE, padclean |-> FALSE,
                             reenc |-> [bytes |-> <<>>]]))
=============================================================================
