--------------------------- MODULE PrngStreamTrace ---------------------------
(* R3: accepts an ndjson log of real generators iff it is a behaviour of      *)
(* PrngStream.  Events (every event carries every field):                      *)
(*   make     a new value, f = "ctor" (from the constructor) or "zero"         *)
(*   seed     Seed with seed number s                                          *)
(*   out      one output, given by its place <<s, n>> in the reference streams *)
(*            (s = n = -1 when the value is in no reference stream)            *)
(*   save     MarshalBinary into slot k; b numbers the distinct byte strings   *)
(*            in order of first appearance                                     *)
(*   restore  UnmarshalBinary of slot k with cut bytes cut off / ext bytes     *)
(*            appended; err = an error was returned.  A panic is a failure of  *)
(*            the recorder itself and never reaches the log as a legal event.  *)
(*   reset    next generator type                                              *)
(* Expectations on lengths: complete state must be accepted; truncated state   *)
(* must be refused; state followed by extra bytes may be refused or accepted   *)
(* (the documentation does not say) - but if it is accepted the generator is   *)
(* at the saved place.                                                         *)
EXTENDS PrngStream, Json, TLCExt

TraceLog == ndJsonDeserialize("trace.ndjson")
VARIABLE l
tvars == <<pos, snap, img, tok, l>>
Ev == TraceLog[l]
Has == l <= Len(TraceLog)

TMake == Has /\ Ev.op = "make" /\ Ev.f \in {"ctor", "zero"} /\ Make(Ev.g, Ev.f) /\ l' = l + 1
TSeed == Has /\ Ev.op = "seed" /\ Ev.s \in Streams /\ Seed(Ev.g, Ev.s) /\ l' = l + 1
TOut == Has /\ Ev.op = "out" /\ Out(Ev.g, [s |-> Ev.s, n |-> Ev.n]) /\ l' = l + 1
TSave == Has /\ Ev.op = "save" /\ Ev.err = FALSE /\ Save(Ev.g, Ev.k, Ev.b) /\ l' = l + 1
TRestore == Has /\ Ev.op = "restore" /\ Ev.cut = 0 /\ Ev.err = FALSE /\ Restore(Ev.g, Ev.k) /\ l' = l + 1
TRefuse == Has /\ Ev.op = "restore" /\ (Ev.cut > 0 \/ Ev.ext > 0) /\ Ev.err = TRUE /\ snap[Ev.k].b # 0 /\ Refuse(Ev.g) /\ l' = l + 1
TReset == /\ Has /\ Ev.op = "reset" /\ pos' = [g \in Gens |-> Absent] /\ snap' = [k \in Ids |-> NoSnap]
          /\ img' = [g \in Gens |-> 0] /\ tok' = <<>> /\ l' = l + 1

TraceInit == Init /\ l = 1
TraceNext == TMake \/ TSeed \/ TOut \/ TSave \/ TRestore \/ TRefuse \/ TReset
TraceSpec == TraceInit /\ [][TraceNext]_tvars

Accepted ==
    LET d == TLCGet("stats").diameter IN
    IF d - 1 = Len(TraceLog) THEN PrintT("TRACE-ACCEPTED " \o ToString(Len(TraceLog)))
    ELSE /\ PrintT("TRACE-REJECTED at event " \o ToString(d) \o ": " \o ToString(TraceLog[d]))
         /\ FALSE
=============================================================================
