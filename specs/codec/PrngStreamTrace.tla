--------------------------- MODULE PrngStreamTrace ---------------------------
(* R3: accepts an ndjson log of real generators iff it is a behaviour of      *)
(* PrngStream.  Events: new (seeded with stream s), out (one output, given by  *)
(* its place <<s, n>> in the reference streams; s = n = -1 when the value is   *)
(* not in any reference stream), save (MarshalBinary into slot k), restore     *)
(* (UnmarshalBinary of slot k, cut = number of bytes cut off, err = an error   *)
(* was returned), reset (next generator type).                                 *)
EXTENDS PrngStream, Json, TLCExt

TraceLog == ndJsonDeserialize("trace.ndjson")
VARIABLE l
tvars == <<pos, snap, l>>
Ev == TraceLog[l]
Has == l <= Len(TraceLog)

TNew == Has /\ Ev.op = "new" /\ New(Ev.g, Ev.s) /\ l' = l + 1
TOut == Has /\ Ev.op = "out" /\ Out(Ev.g, [s |-> Ev.s, n |-> Ev.n]) /\ l' = l + 1
TSave == Has /\ Ev.op = "save" /\ Ev.err = FALSE /\ Save(Ev.g, Ev.k) /\ l' = l + 1
\* complete state must be accepted, truncated state must be refused
TRestore == Has /\ Ev.op = "restore" /\ Ev.cut = 0 /\ Ev.err = FALSE /\ Restore(Ev.g, Ev.k) /\ l' = l + 1
TRefuse == Has /\ Ev.op = "restore" /\ Ev.cut > 0 /\ Ev.err = TRUE /\ Refuse(Ev.g) /\ l' = l + 1
TReset == Has /\ Ev.op = "reset" /\ pos' = [g \in Gens |-> Unknown] /\ snap' = [k \in Ids |-> Unknown] /\ l' = l + 1

TraceInit == Init /\ l = 1
TraceNext == TNew \/ TOut \/ TSave \/ TRestore \/ TRefuse \/ TReset
TraceSpec == TraceInit /\ [][TraceNext]_tvars

Accepted ==
    LET d == TLCGet("stats").diameter IN
    IF d - 1 = Len(TraceLog) THEN PrintT("TRACE-ACCEPTED " \o ToString(Len(TraceLog)))
    ELSE /\ PrintT("TRACE-REJECTED at event " \o ToString(d) \o ": " \o ToString(TraceLog[d]))
         /\ FALSE
=============================================================================
