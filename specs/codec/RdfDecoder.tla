----------------------------- MODULE RdfDecoder -----------------------------
(* The N-Quads stream decoder rdf.Decoder as an OBJECT WITH A HISTORY.         *)
(*                                                                             *)
(* Documentation (graph/formats/rdf):                                          *)
(*   Decoder: "Statements returned by calls to the Unmarshal method have their *)
(*     Terms' UID fields set so that unique terms will have unique IDs ... IDs *)
(*     created by the decoder all exist within a single namespace and so Terms *)
(*     can be uniquely identified by their UID.  Term UIDs are based from 1."  *)
(*   NewDecoder(r): "a new Decoder that takes input from r".                   *)
(*   Reset(r): "resets the decoder to use the provided io.Reader, retaining    *)
(*     the existing Term ID mapping."                                          *)
(*   Unmarshal: "returns the next statement from the input stream."            *)
(*   Terms: "the mapping between terms and graph node IDs constructed during   *)
(*     decoding the RDF statement stream."                                     *)
(*                                                                             *)
(* Abstract state: left = the lines of the current reader not yet consumed,    *)
(* known = the set of terms that have been given a UID.  The UID itself is not *)
(* modelled as a number: the documentation promises an INJECTION of terms into *)
(* the integers >= 1 that only grows during the life of the decoder, Reset     *)
(* included (so: equal term <=> equal UID over the whole history).             *)
(*                                                                             *)
(* A document is a sequence of lines (N-Quads: statement? (EOL statement)*      *)
(* EOL?, EOL = CR / LF runs; the harness joins the lines with LF or CRLF, with *)
(* or without a final EOL).  A line is a statement (3 or 4 terms from a pool   *)
(* of written forms, single spaces, " ." at the end), a line without content   *)
(* (empty, white space, comment) or a line that violates the grammar (no       *)
(* object; a literal as subject).  The lexical grammar is NOT re-specified:    *)
(* the pool holds plain terms whose abstract content (kind, text, qualifier)   *)
(* is written next to them.                                                    *)
(*                                                                             *)
(* Operations: new(d) = NewDecoder(reader of d); zreset(d) = Reset(reader of   *)
(* d) on a zero-value Decoder; reset(d); u = one Unmarshal; drain = Unmarshal  *)
(* until io.EOF.  Expected per Unmarshal: the statement's terms, a parse error *)
(* (the line is consumed, the decoder goes on with the next line), or io.EOF   *)
(* (also on every later call, until Reset) - never a panic.                    *)
EXTENDS Integers, Sequences, FiniteSets, TLC, Json

CONSTANTS MaxOps,   \* operations per history, the creating one included
          Emit, Shard, NShards

VARIABLES left, known, hist, eof
vars == <<left, known, hist, eof>>

(****************************** terms and lines ******************************)
RECURSIVE Rep(_, _)
Rep(s, n) == IF n = 0 THEN "" ELSE s \o Rep(s, n - 1)
LongIri == "http://ex.org/" \o Rep("0123456789", 52)          \* 534 characters: longer than anything a decoder may cache whole

T(w, kind, text, qual) == [w |-> w, kind |-> kind, text |-> text, qual |-> qual]
Pool == << T("<http://ex.org/a>", "iri", "http://ex.org/a", ""),                       \* 1
           T("<http://ex.org/p>", "iri", "http://ex.org/p", ""),                       \* 2
           T("_:b0", "blank", "b0", ""),                                               \* 3
           T("\"Bob\"@en", "literal", "Bob", "@en"),                                   \* 4
           T("<http://ex.org/g1>", "iri", "http://ex.org/g1", ""),                     \* 5
           T("<http://ex.org/c>", "iri", "http://ex.org/c", ""),                       \* 6
           T("<http://ex.org/q>", "iri", "http://ex.org/q", ""),                       \* 7
           T("\"x\"^^<http://ex.org/t>", "literal", "x", "http://ex.org/t"),           \* 8
           T("_:g", "blank", "g", ""),                                                 \* 9
           T("\"a\"", "literal", "a", ""),                                             \* 10
           T("<" \o LongIri \o ">", "iri", LongIri, ""),                               \* 11
           T("<b:>", "iri", "b:", "") >>                                               \* 12
TermNos == 1 .. Len(Pool)
ASSUME PoolDistinct == \A i, j \in TermNos : i # j => (Pool[i].w # Pool[j].w /\ <<Pool[i].kind, Pool[i].text, Pool[i].qual>> # <<Pool[j].kind, Pool[j].text, Pool[j].qual>>)

St(s, p, o, l) == [k |-> "st", s |-> s, p |-> p, o |-> o, l |-> l, text |-> ""]        \* l = 0: no graph label
Skip(t) == [k |-> "skip", s |-> 0, p |-> 0, o |-> 0, l |-> 0, text |-> t]
Bad(t) == [k |-> "bad", s |-> 0, p |-> 0, o |-> 0, l |-> 0, text |-> t]
LineText(x) == IF x.k # "st" THEN x.text
               ELSE Pool[x.s].w \o " " \o Pool[x.p].w \o " " \o Pool[x.o].w \o (IF x.l = 0 THEN "" ELSE " " \o Pool[x.l].w) \o " ."
NoObject == Bad("<http://ex.org/a> <http://ex.org/p> .")
LitSubject == Bad("\"Bob\"@en <http://ex.org/p> <http://ex.org/new> .")

Docs == << \* 1: comment, empty line, two statements (the second with a graph label)
           << Skip("# comment"), Skip(""), St(1, 2, 3, 0), St(3, 2, 4, 5) >>,
           \* 2: known and new terms, a grammar violation in the middle, white space at the end
           << St(3, 7, 6, 0), NoObject, St(6, 7, 8, 5), Skip("  ") >>,
           \* 3: nothing
           << >>,
           \* 4: a blank graph label, a violation, a term too long to be cached, a two-character term; a repeated statement
           << St(1, 2, 3, 9), LitSubject, Skip(" # c"), St(11, 2, 10, 0), St(12, 2, 12, 12), St(1, 2, 3, 9) >> >>
DocNos == 1 .. Len(Docs)

(****************************** the machine **********************************)
RECURSIVE DropSkips(_)
DropSkips(ls) == IF ls # <<>> /\ Head(ls).k = "skip" THEN DropSkips(Tail(ls)) ELSE ls
TermsOf(x) == {x.s, x.p, x.o} \cup (IF x.l = 0 THEN {} ELSE {x.l})

\* one Unmarshal on the lines ls: outcome and the lines left
Out(res, x) == [res |-> res, s |-> x.s, p |-> x.p, o |-> x.o, l |-> x.l]
NoLine == Skip("")
One(ls) == LET r == DropSkips(ls) IN
           IF r = <<>> THEN [out |-> Out("eof", NoLine), rest |-> <<>>, new |-> {}]
           ELSE IF Head(r).k = "bad" THEN [out |-> Out("error", NoLine), rest |-> Tail(r), new |-> {}]
           ELSE [out |-> Out("stmt", Head(r)), rest |-> Tail(r), new |-> TermsOf(Head(r))]
\* Unmarshal until io.EOF: every outcome on the way
RECURSIVE Outs(_)
Outs(ls) == LET x == One(ls) IN IF x.out.res = "eof" THEN <<x.out>> ELSE <<x.out>> \o Outs(x.rest)
NewOf(outs) == UNION {IF outs[i].res = "stmt" THEN TermsOf(outs[i]) ELSE {} : i \in DOMAIN outs}

Entry(op, d, outs, kn) == [op |-> op, d |-> d, outs |-> outs, known |-> kn]

Init == left = <<>> /\ known = {} /\ hist = <<>> /\ eof = FALSE
Create == /\ hist = <<>>
          /\ \E op \in {"new", "zreset"}, d \in DocNos :
                /\ left' = Docs[d] /\ known' = {} /\ eof' = FALSE
                /\ hist' = <<Entry(op, d, <<>>, {})>>
ResetTo == /\ hist # <<>>
           /\ \E d \in DocNos :
                /\ left' = Docs[d] /\ eof' = FALSE
                /\ UNCHANGED known                                   \* "retaining the existing Term ID mapping"
                /\ hist' = Append(hist, Entry("reset", d, <<>>, known))
Unmarshal == /\ hist # <<>>
             /\ LET x == One(left) IN
                /\ left' = x.rest
                /\ known' = known \cup x.new
                /\ eof' = (x.out.res = "eof")
                /\ hist' = Append(hist, Entry("u", 0, <<x.out>>, known'))
Drain == /\ hist # <<>>
         /\ LET outs == Outs(left) IN
            /\ left' = <<>>
            /\ known' = known \cup NewOf(outs)
            /\ eof' = TRUE
            /\ hist' = Append(hist, Entry("drain", 0, outs, known'))
Next == Len(hist) < MaxOps /\ (Create \/ ResetTo \/ Unmarshal \/ Drain)
Spec == Init /\ [][Next]_vars
Done == Len(hist) = MaxOps

(****************************** theorems (R1) ********************************)
AllOuts == [i \in 1 .. Len(hist) |-> hist[i].outs]
RECURSIVE Flat(_)
Flat(ss) == IF ss = <<>> THEN <<>> ELSE Head(ss) \o Flat(Tail(ss))
\* known = exactly the terms of the statements returned so far (second formulation, over the whole history)
KnownIsReturned == known = NewOf(Flat(AllOuts))
\* the mapping only grows; Reset, errors and io.EOF leave it as it was
KnownGrows == \A i \in 2 .. Len(hist) :
                 /\ hist[i - 1].known \subseteq hist[i].known
                 /\ hist[i].op = "reset" => hist[i].known = hist[i - 1].known
                 /\ (hist[i].op = "u" /\ hist[i].outs[1].res # "stmt") => hist[i].known = hist[i - 1].known
\* every Unmarshal has one of the three outcomes; io.EOF exactly when neither a statement nor a violation is left;
\* a drain returns one outcome per line with content and then io.EOF
Content(ls) == Cardinality({i \in DOMAIN ls : ls[i].k # "skip"})
Total == /\ \A i \in 1 .. Len(hist) : \A j \in DOMAIN hist[i].outs : hist[i].outs[j].res \in {"stmt", "error", "eof"}
         /\ (One(left).out.res = "eof") <=> (Content(left) = 0)
         /\ Len(Outs(left)) = Content(left) + 1
         /\ Outs(left)[Len(Outs(left))].res = "eof"
\* after io.EOF every further Unmarshal is io.EOF, until Reset
EofSticks == /\ eof => (left = <<>> /\ One(left).out.res = "eof")
             /\ \A i \in 2 .. Len(hist) :
                  (hist[i].op \in {"u", "drain"} /\ hist[i - 1].op \in {"u", "drain"}
                   /\ hist[i - 1].outs[Len(hist[i - 1].outs)].res = "eof") => hist[i].outs = <<Out("eof", NoLine)>>
\* the pool's statements use terms of the right kind in each place
WellFormedDocs == \A d \in DocNos : \A i \in DOMAIN Docs[d] : LET x == Docs[d][i] IN x.k = "st" =>
                     /\ Pool[x.s].kind \in {"iri", "blank"} /\ Pool[x.p].kind = "iri"
                     /\ x.l # 0 => Pool[x.l].kind \in {"iri", "blank"}
ASSUME WellFormedDocs

(**************************** generator (R2) ********************************)
PoolJ == [i \in TermNos |-> Pool[i]]
DocsJ == [d \in DocNos |-> [i \in DOMAIN Docs[d] |-> [k |-> Docs[d][i].k, text |-> LineText(Docs[d][i])]]]
Sel == LET ds == [i \in 1 .. Len(hist) |-> hist[i].d + Len(hist[i].outs)] IN
       (ds[1] + 3 * ds[2] + 5 * ds[Len(hist)]) % NShards
\* the pool and the documents are printed once (initial state: the first line of the output); a history refers to them by number
EmitPool == (Emit /\ hist = <<>>) => PrintT(ToJson([k |-> "rdfpool", pool |-> PoolJ, docs |-> DocsJ]))
EmitHist == (Emit /\ Done /\ Sel = Shard) => PrintT(ToJson([k |-> "rdfdec", ops |-> hist]))
=============================================================================
