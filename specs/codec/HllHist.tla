------------------------------ MODULE HllHist ------------------------------
(* Decoder histories on an INITIALISED HyperLogLog receiver (stat/card), on   *)
(* top of HllState.  The property: "decoders are total: ... yields an error    *)
(* ... or a well-formed value, never ... an internally inconsistent object".   *)
(* For UnmarshalBinary into a sketch that is already in use this means:        *)
(*   an ACCEPTED input makes the receiver equal to the encoded sketch          *)
(*     (precision and registers; the receiver keeps its hash function);        *)
(*   a REJECTED input (error returned) leaves the receiver as it was: same     *)
(*     precision, same registers - so the same Count, further Writes land in   *)
(*     the same registers, MarshalBinary writes the same sketch, Union with a  *)
(*     compatible sketch still works.                                          *)
(* The receiver is the state machine [h, p, reg] of HllState with the actions  *)
(* Write, Decode(blob), Union(receiver, source), Reset.  Observations are      *)
(* known to the specification exactly (identity hash functions), so after      *)
(* every action the harness reads the receiver back (MarshalBinary) and must   *)
(* find the precision and registers printed here; Count() is a function of     *)
(* (p, registers): the printed state number sid tells the harness which reads  *)
(* must return the same number.                                                *)
(*                                                                             *)
(* A blob is what UnmarshalBinary is handed: the four documented fields        *)
(* (hash width, hash type, precision, registers) and a cut: <<4, 0>> for a     *)
(* complete encoding, <<f, part>> for one truncated after f complete fields    *)
(* (part 0: exactly there; 1: one byte into the next field; 2: one byte short  *)
(* of the end of the next field).  The decision table (documentation of        *)
(* UnmarshalBinary, New and the error values): accepted iff complete, width =  *)
(* W, hash type = the receiver's, 4 <= p <= W and exactly 2^p registers.       *)
EXTENDS HllState

CONSTANTS Full     \* FALSE: context / every operation / probe at the three free places; TRUE: every operation at the first two

VARIABLES recv,    \* the receiver
          hist,    \* the operations done, each with the expected result and the expected state after it
          ini      \* number of the prepared configuration
hvars == <<val, recv, hist, ini>>

(***************************** blobs *****************************************)
Complete == <<4, 0>>
Blob(size, h, p, reg, cut) == [size |-> size, h |-> h, p |-> p, reg |-> reg, cut |-> cut]
NoBlob == Blob(0, 0, 0, <<>>, Complete)
\* exactly 2^p registers (2^p is evaluated for p <= 30 only: every enumerated blob has fewer than 2^30 registers - BlobsSmall -
\* so for a larger precision field the count cannot be right)
RegCountOK(b) == IF b.p <= 30 THEN Len(b.reg) = M(b.p) ELSE FALSE
Accept(b, r) == /\ b.cut = Complete
                /\ b.size = W
                /\ b.h = r.h
                /\ b.p >= 4 /\ b.p <= W
                /\ RegCountOK(b)
Decoded(b, r) == [h |-> r.h, p |-> b.p, reg |-> [i \in 0 .. (Len(b.reg) - 1) |-> b.reg[i + 1]]]

\* the encoding of a sketch
Enc(s) == Blob(W, s.h, s.p, RegSeq(s), Complete)
\* source sketches: hash h, precision p, five observations that differ from the receiver's
SrcRec(h, p) == [h |-> h, p |-> p, obs |-> Obs(h + p, 5)]
Src(h, p) == USk(SrcRec(h, p))
Other(p) == 9 - p                                        \* the machine's precisions are 4 and 5
OtherHash(h) == 3 - h
Take(s, n) == [i \in 1 .. n |-> IF i <= Len(s) THEN s[i] ELSE 1]     \* first n registers, padded with ones

\* every documented rejection class, as corruptions of valid encodings of sketches with the receiver's hash
\* (r: the receiver now).  cls names the one clause of the decision table the blob violates.
Rejected(r) ==
  LET same == Enc(Src(r.h, r.p))             \* precision = the receiver's
      oth == Enc(Src(r.h, Other(r.p)))       \* the other precision
      WithP(b, p) == [b EXCEPT !.p = p]
      WithReg(b, n) == [b EXCEPT !.reg = Take(b.reg, n)]
  IN {<<"p-below-4", WithP(same, 0)>>, <<"p-below-4", WithP(oth, 3)>>,
      <<"p-below-4", WithP(WithReg(same, 8), 3)>>, <<"p-below-4", WithP(WithReg(oth, 1), 0)>>,    \* 2^p registers, p too small
      <<"p-above-w", WithP(same, W + 1)>>, <<"p-above-w", WithP(oth, 255)>>,
      <<"register-count", WithReg(same, M(r.p) - 1)>>, <<"register-count", WithReg(same, M(r.p) + 1)>>,
      <<"register-count", WithReg(same, 0)>>, <<"register-count", WithReg(same, 1)>>,
      <<"register-count", WithReg(oth, M(Other(r.p)) - 1)>>,
      <<"register-count", WithP(oth, r.p)>>,             \* registers of another precision than the field says
      <<"register-count", WithP(same, Other(r.p))>>,     \* as many registers as the receiver has, another p in the field
      <<"register-count", WithP(same, 10)>>,
      \* the largest documented precision, p = W: 2^W registers are needed and none is there
      <<"register-count-p-w", WithP(WithReg(same, 0), W)>>}
     \cup {<<"truncated", [oth EXCEPT !.cut = <<f, part>>]>> : f \in 0 .. 3, part \in 0 .. 2}
     \cup {<<"truncated", [same EXCEPT !.cut = <<3, part>>]>> : part \in 0 .. 2}
     \cup {<<"hash", [same EXCEPT !.h = OtherHash(r.h)]>>, <<"hash", [oth EXCEPT !.h = 3]>>}
     \cup {<<"width", [oth EXCEPT !.size = sz]>> : sz \in {0, 8, 96 - W}}

(***************************** operations ************************************)
Op(op, cls, blob, o, src) == [op |-> op, cls |-> cls, blob |-> blob, o |-> o, src |-> src]
NoSrc == [h |-> 0, p |-> 0, obs |-> <<>>]
NoObs == <<0, 0>>
WriteOp(o) == Op("write", "", NoBlob, o, NoSrc)
DecodeOp(cls, b) == Op("decode", cls, b, NoObs, NoSrc)
UnionOp(cls, s) == Op("union", cls, NoBlob, NoObs, s)
ResetOp == Op("reset", "", NoBlob, NoObs, NoSrc)
NopOp == Op("nop", "", NoBlob, NoObs, NoSrc)

W1 == <<3, 2>>   W2 == <<15, Z>>   W3 == <<7, 0>>   \* observations (register, rank code) of the Write operations
DecodeSame(r) == DecodeOp("valid-same-p", Enc(Src(r.h, r.p)))
DecodeOther(r) == DecodeOp("valid-other-p", Enc(Src(r.h, Other(r.p))))
UniOK(r) == UnionOp("compatible", SrcRec(r.h, r.p))
UniBadP(r) == UnionOp("other-precision", SrcRec(r.h, Other(r.p)))
UniBadHash(r) == UnionOp("other-hash", SrcRec(OtherHash(r.h), r.p))
RejectedOps(r) == {DecodeOp(x[1], x[2]) : x \in Rejected(r)}
AllOps(r) == {WriteOp(W1), WriteOp(W2), DecodeSame(r), DecodeOther(r), UniOK(r), UniBadP(r), UniBadHash(r), ResetOp}
             \cup RejectedOps(r)
\* what may come before a decode (the register slice of the receiver came from New, from an earlier decode of either
\* precision, from Union; or an earlier rejected decode) and what probes the receiver after it
RejCountSame(r) == DecodeOp("register-count", [Enc(Src(r.h, r.p)) EXCEPT !.p = Other(r.p)])
RejCountOther(r) == DecodeOp("register-count", [Enc(Src(r.h, Other(r.p))) EXCEPT !.p = r.p])
CtxOps(r) == {NopOp, WriteOp(W1), DecodeSame(r), DecodeOther(r), ResetOp, UniOK(r), RejCountSame(r), RejCountOther(r)}
ProbeOps(r) == {WriteOp(W1), WriteOp(W2), DecodeSame(r), DecodeOther(r), UniOK(r), UniBadP(r), ResetOp, RejCountOther(r)}
OpsAt(i, r) == IF i = 4 THEN {WriteOp(W3)}                  \* every history ends with a Write
               ELSE IF i = 3 THEN ProbeOps(r)
               ELSE IF i = 2 THEN AllOps(r)
               ELSE IF Full THEN AllOps(r) \cup {NopOp} ELSE CtxOps(r)

\* the receiver after operation o, and the documented result
Result(r, o) == CASE o.op = "decode" -> IF Accept(o.blob, r) THEN "ok" ELSE "error"
                  [] o.op = "union" -> IF o.src.p = r.p /\ o.src.h = r.h THEN "ok" ELSE "error"
                  [] OTHER -> "ok"
After(r, o) == CASE o.op = "write" -> Write(r, o.o)
                 [] o.op = "decode" -> IF Accept(o.blob, r) THEN Decoded(o.blob, r) ELSE r        \* rejected: as it was
                 [] o.op = "union" -> IF Result(r, o) = "ok"
                                      THEN [r EXCEPT !.reg = [i \in 0 .. (M(r.p) - 1) |-> Max(r.reg[i], USk(o.src).reg[i])]]
                                      ELSE r
                 [] o.op = "reset" -> Empty(r.h, r.p)
                 [] o.op = "nop" -> r

(***************************** histories *************************************)
\* prepared configurations: precision, hash, observations already made
Prep == << [h |-> 1, p |-> 4, obs |-> <<>>], [h |-> 1, p |-> 4, obs |-> Obs(1, 5)],
           [h |-> 2, p |-> 5, obs |-> Obs(2, 5)], [h |-> 2, p |-> 5, obs |-> <<>>] >>
Initial(i) == USk(Prep[i])
Step(o, r) == [o |-> o, res |-> Result(r, o), st |-> After(r, o)]

HInit == /\ val = [k |-> "hist"]
         /\ ini \in 1 .. Len(Prep)
         /\ recv = Initial(ini)
         /\ hist = <<>>
HNext == /\ Len(hist) < 4
         /\ \E o \in OpsAt(Len(hist) + 1, recv) :
               /\ hist' = Append(hist, Step(o, recv))
               /\ recv' = After(recv, o)
         /\ UNCHANGED <<val, ini>>
HSpec == HInit /\ [][HNext]_hvars
Done == Len(hist) = 4

(***************************** theorems (R1) ********************************)
\* never an internally inconsistent object: in every reachable state the receiver has 4 <= p <= W, exactly 2^p
\* registers with values a Write can produce, and the hash function it was made with
StateWellFormed == /\ recv.p \in {4, 5} /\ recv.h = Prep[ini].h
                   /\ DOMAIN recv.reg = 0 .. (M(recv.p) - 1)
                   /\ \A i \in DOMAIN recv.reg : recv.reg[i] >= 0 /\ recv.reg[i] <= (W - recv.p) + 1
\* the enumerated rejection classes are rejected by the decision table, each for the one clause it is named after,
\* and the two valid encodings are accepted
OneClause(b, r, cls) ==
   LET cl == << b.cut = Complete, b.size = W, b.h = r.h, b.p >= 4, b.p <= W, (b.p < 4 \/ b.p > W) \/ RegCountOK(b) >>
       name == << {"truncated"}, {"width"}, {"hash"}, {"p-below-4"}, {"p-above-w"}, {"register-count", "register-count-p-w"} >>
   IN \A i \in 1 .. 6 : cl[i] <=> (cls \notin name[i])
\* (checked where the rejected blobs are applied: before the first and the second free operation)
ClassesRejected == Len(hist) <= 1 =>
                   /\ \A x \in Rejected(recv) : ~Accept(x[2], recv) /\ OneClause(x[2], recv, x[1])
                   /\ Accept(DecodeSame(recv).blob, recv) /\ Accept(DecodeOther(recv).blob, recv)
                   /\ Cardinality(Rejected(recv)) = 35
BlobsSmall == Len(hist) <= 1 => \A x \in Rejected(recv) : Len(x[2].reg) <= 1024
\* in every prepared configuration the blobs carry registers that differ from the receiver's (an overwrite would show)
BlobsDiffer == Len(hist) = 0 => \A x \in Rejected(recv) : Len(x[2].reg) >= 8 => \E i \in 1 .. Len(x[2].reg) : i - 1 \notin DOMAIN recv.reg \/ x[2].reg[i] # recv.reg[i - 1]
\* rejected operations change nothing, accepted decodes give the source, along every history
Before(i) == IF i = 1 THEN Initial(ini) ELSE hist[i - 1].st
HistSound == \A i \in 1 .. Len(hist) :
                /\ (hist[i].res = "error" => hist[i].st = Before(i))
                /\ (hist[i].o.op = "decode" /\ hist[i].res = "ok") =>
                      /\ hist[i].st.p = hist[i].o.blob.p /\ RegSeq(hist[i].st) = hist[i].o.blob.reg /\ hist[i].st.h = Before(i).h
                /\ (hist[i].o.cls \in {"truncated", "width", "hash", "p-below-4", "p-above-w", "register-count", "register-count-p-w", "other-precision", "other-hash"}
                      => hist[i].res = "error")
                /\ (hist[i].o.cls \in {"valid-same-p", "valid-other-p", "compatible"} => hist[i].res = "ok")

(**************************** generator (R2) ********************************)
\* a state as printed: precision, number of registers, the non-zero registers as <<index, value>>
StJ(s) == [p |-> s.p, n |-> M(s.p), nz |-> {<<i, s.reg[i]>> : i \in {j \in DOMAIN s.reg : s.reg[j] # 0}}]
SeqNZ(q) == {<<i - 1, q[i]>> : i \in {j \in DOMAIN q : q[j] # 0}}
States == <<Initial(ini)>> \o [i \in 1 .. Len(hist) |-> hist[i].st]
Sid(i) == CHOOSE j \in 1 .. i : States[j] = States[i] /\ \A k \in 1 .. (j - 1) : States[k] # States[i]    \* first place with this state
OpJ(i) == LET x == hist[i] IN
          [op |-> x.o.op, cls |-> x.o.cls, o |-> x.o.o,
           blob |-> [size |-> x.o.blob.size, h |-> x.o.blob.h, p |-> x.o.blob.p, n |-> Len(x.o.blob.reg), nz |-> SeqNZ(x.o.blob.reg),
                     cutf |-> x.o.blob.cut[1], cutpart |-> x.o.blob.cut[2]],
           src |-> [h |-> x.o.src.h, p |-> x.o.src.p, obs |-> ObsJ(x.o.src.obs)],
           res |-> x.res, st |-> StJ(x.st), sid |-> Sid(i + 1)]
EmitHist == (Emit /\ Done) =>
              PrintT(ToJson([k |-> "hist", w |-> W, ini |-> ini, h |-> Prep[ini].h, p |-> Prep[ini].p, obs |-> ObsJ(Prep[ini].obs),
                             st |-> StJ(Initial(ini)), ops |-> [i \in 1 .. Len(hist) |-> OpJ(i)]]))
=============================================================================
