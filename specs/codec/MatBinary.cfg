SPECIFICATION Spec
CONSTANTS
  Mode = "@MODE@"
  Seed = @SEED@
  Emit = @EMIT@
INVARIANTS RoundTrip SliceStream Canonical EmitCase
CHECK_DEADLOCK FALSE
