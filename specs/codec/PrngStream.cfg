SPECIFICATION Spec
CONSTANTS
  Gens = {1, 2}
  Ids = {1}
  Streams = @STREAMS@
  MaxN = @MAXN@
  MaxTok = @MAXTOK@
INVARIANTS TypeOK SnapSound ImgSound SameBytesSameStream
PROPERTIES RestoreExact SaveIsReadOnly
CHECK_DEADLOCK FALSE
