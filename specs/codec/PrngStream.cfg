SPECIFICATION Spec
CONSTANTS
  Gens = {1, 2}
  Ids = {1}
  Streams = {1, 2}
  MaxN = @MAXN@
INVARIANTS TypeOK SnapReached
PROPERTIES RestoreExact
CHECK_DEADLOCK FALSE
