SPECIFICATION Spec
CONSTANTS
  Mode = "@MODE@"
  Seed = @SEED@
  Shard = @SHARD@
  NShards = @NSHARDS@
  Emit = @EMIT@
INVARIANTS WellFormed ClassTotal EmitCase
CHECK_DEADLOCK FALSE
