SPECIFICATION Spec
CONSTANTS
  Mode = "@MODE@"
  Seed = @SEED@
  Shard = @SHARD@
  NShards = @NSHARDS@
  Emit = @EMIT@
INVARIANTS WellFormed ClassTotal PortsDistinct EmitCase
CHECK_DEADLOCK FALSE
