SPECIFICATION TraceSpec
CONSTANTS
  Gens = {1, 2, 3, 4}
  Ids = {1, 2, 3, 4, 5, 6}
  Streams = {1, 2, 3}
  MaxN = 1000000
  MaxTok = 1000000
POSTCONDITION Accepted
CHECK_DEADLOCK FALSE
