SPECIFICATION Spec
CONSTANTS
  NB = @NB@
  NPred = @NPRED@
  WithLit = @WITHLIT@
  NIriLabels = @NIRILABELS@
  BlankLabels = @BLANKLABELS@
  MinQ = @MINQ@
  MaxQ = @MAXQ@
  Shard = @SHARD@
  NShards = @NSHARDS@
  ShardFrom = @SHARDFROM@
  Emit = @EMIT@
INVARIANTS @INVS@
CHECK_DEADLOCK FALSE
