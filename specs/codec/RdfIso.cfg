SPECIFICATION Spec
CONSTANTS
  NB = @NB@
  MinQ = @MINQ@
  MaxQ = @MAXQ@
  Shard = @SHARD@
  NShards = @NSHARDS@
  ShardFrom = @SHARDFROM@
  Emit = @EMIT@
INVARIANTS @INVS@
CHECK_DEADLOCK FALSE
