SPECIFICATION HSpec
CONSTANTS
  W = @W@
  Modes = {}
  Seed = @SEED@
  Emit = @EMIT@
  Full = @FULL@
INVARIANTS StateWellFormed ClassesRejected BlobsSmall BlobsDiffer HistSound EmitHist
CHECK_DEADLOCK FALSE
