------------------------------ MODULE MatBinary ------------------------------
(* The binary form of mat.Dense and mat.VecDense as documented at             *)
(* (Dense).MarshalBinary: a 40-byte little-endian header                       *)
(*     0-3 version=1 | 4 'G' | 5 'F' | 6 'A' | 7 0 | 8-15 rows | 16-23 cols    *)
(*     | 24-31 0 | 32-39 0                                                      *)
(* followed by rows*cols 8-byte elements in row-major order.                   *)
(*                                                                             *)
(* 64-bit quantities (dimensions, element bit patterns) are 4-tuples of 16-bit *)
(* limbs <<l0, l1, l2, l3>>, least significant first, two's complement: TLC    *)
(* integers are 32-bit, and elements are opaque bit patterns anyway (NaN        *)
(* payloads and the sign of zero must survive as bits).                        *)
(*                                                                             *)
(* Decide(kind, api, b) is the decoders' decision table written from the       *)
(* documentation with EXACT arithmetic (no wrap-around): a byte string is      *)
(* accepted iff it is a header of the right type with positive dimensions      *)
(* whose true product P fits, followed by exactly (slice API) / at least       *)
(* (stream API) 8*P bytes.  Everything else must be an error.                  *)
(* For the stream API a byte string b stands for every stream that delivers b  *)
(* and then ends OR BREAKS (a read error other than end-of-file), however the  *)
(* bytes are cut into reads: the decision only depends on the bytes delivered. *)
EXTENDS Integers, Sequences, FiniteSets, TLC, Json

CONSTANTS Mode,   \* "enc" (values) | "dec" (byte strings: dimension grid, other fields, truncations)
          Seed, Emit

VARIABLE val
vars == <<val>>

(***************************** 64-bit limb values ***************************)
I(n) == <<n % 65536, n \div 65536, 0, 0>>          \* 0 <= n < 2^31
Zero == I(0)
MinusOne == <<65535, 65535, 65535, 65535>>
MinI64 == <<0, 0, 0, 32768>>
MaxI64 == <<65535, 65535, 65535, 32767>>
P31 == <<0, 32768, 0, 0>>
P32 == <<0, 0, 1, 0>>
P61 == <<0, 0, 0, 8192>>
P62 == <<0, 0, 0, 16384>>
\* 274177 * 67280421310721 = 2^64 + 1: a product that wraps around to 1 in 64-bit arithmetic
F1 == <<12033, 4, 0, 0>>                            \* 274177 = 4*65536 + 12033
F2 == <<53505, 61852, 15664, 0>>                    \* 67280421310721 = 0x3D30 F19C D101
ASSUME F1[1] + 65536 * F1[2] = 274177

Neg(v) == v[4] >= 32768
IsZero(v) == v = Zero
Pos(v) == ~Neg(v) /\ ~IsZero(v)
PMax == 4096                                         \* elements: every input handled here is shorter
SmallV(v) == v[3] = 0 /\ v[4] = 0 /\ v[2] < 32       \* 0 <= value < 2^21 (then Val(v) is a TLC integer)
Val(v) == v[1] + 65536 * v[2]                        \* for SmallV
\* the true product rows*cols is positive and at most PMax (decided without overflow)
Fits(r, c) == /\ Pos(r) /\ Pos(c) /\ SmallV(r) /\ SmallV(c)
              /\ Val(r) <= PMax /\ Val(c) <= PMax /\ Val(r) <= PMax \div Val(c)
\* bit length, to bound the true product from below
RECURSIVE BL16(_)
BL16(x) == IF x = 0 THEN 0 ELSE 1 + BL16(x \div 2)
BL(v) == IF v[4] # 0 THEN 48 + BL16(v[4]) ELSE IF v[3] # 0 THEN 32 + BL16(v[3])
         ELSE IF v[2] # 0 THEN 16 + BL16(v[2]) ELSE BL16(v[1])

LE16(x) == <<x % 256, x \div 256>>
LE64(v) == LE16(v[1]) \o LE16(v[2]) \o LE16(v[3]) \o LE16(v[4])
Limbs(b, off) == [i \in 1 .. 4 |-> b[off + 2*i - 1] + 256 * b[off + 2*i]]   \* 8 bytes after offset off

(********************************* header ***********************************)
GoodHdr(r, c) == [version |-> <<1, 0, 0, 0>>, form |-> 71, packing |-> 70, uplo |-> 65, unit |-> 0,
                  rows |-> r, cols |-> c, ku |-> Zero, kl |-> Zero]
HdrBytes(h) == h.version \o <<h.form, h.packing, h.uplo, h.unit>>
               \o LE64(h.rows) \o LE64(h.cols) \o LE64(h.ku) \o LE64(h.kl)
RECURSIVE Flat(_)
Flat(elems) == IF elems = <<>> THEN <<>> ELSE LE64(Head(elems)) \o Flat(Tail(elems))

\* a matrix value: r, c (small integers) and the row-major sequence of element bit patterns
EncDense(m) == HdrBytes(GoodHdr(I(m.r), I(m.c))) \o Flat(m.e)
EncVec(m) == HdrBytes(GoodHdr(I(m.r), I(1))) \o Flat(m.e)

(****************************** decision table ******************************)
Parse(b) == [version |-> SubSeq(b, 1, 4), form |-> b[5], packing |-> b[6], uplo |-> b[7], unit |-> b[8],
             rows |-> Limbs(b, 8), cols |-> Limbs(b, 16), ku |-> Limbs(b, 24), kl |-> Limbs(b, 32)]
TypeOK(h) == h.version = <<1, 0, 0, 0>> /\ h.form = 71 /\ h.packing = 70 /\ h.uplo = 65 /\ h.unit = 0
             /\ h.ku = Zero /\ h.kl = Zero
DimsOK(kind, h) == Fits(h.rows, h.cols) /\ (kind = "vec" => h.cols = I(1))
Need(h) == 8 * Val(h.rows) * Val(h.cols)
Accept(kind, api, b) ==
   /\ Len(b) >= 40
   /\ LET h == Parse(b) IN
      /\ TypeOK(h) /\ DimsOK(kind, h)
      /\ IF api = "slice" THEN Len(b) - 40 = Need(h) ELSE Len(b) - 40 >= Need(h)
Decode(b) == LET h == Parse(b) IN
             [r |-> Val(h.rows), c |-> Val(h.cols),
              e |-> [k \in 1 .. (Val(h.rows) * Val(h.cols)) |-> Limbs(b, 40 + 8 * (k - 1))]]
\* Why the header is rejected (advisory; the documentation does not promise which error is returned)
Why(kind, b) == IF Len(b) < 40 THEN "short"
                ELSE LET h == Parse(b) IN
                     IF ~TypeOK(h) THEN "type"
                     ELSE IF Neg(h.rows) \/ Neg(h.cols) THEN "negative"
                     ELSE IF IsZero(h.rows) \/ IsZero(h.cols) THEN "zero"
                     ELSE IF kind = "vec" /\ h.cols # I(1) THEN "shape"
                     ELSE IF ~Fits(h.rows, h.cols) THEN "huge"
                     ELSE "length"
\* The stream decoders allocate rows*cols elements before reading them (documented: "does not limit the
\* size of the unmarshaled matrix ... should not be used on untrusted data"), so a claimed size that is
\* representable is really allocated.  Such headers are not fed to the stream API.  Fed are: headers the
\* decision rejects without looking at the size, sizes within PMax, and sizes of at least 2^60 elements,
\* whose byte count exceeds every int and which therefore can never be allocated (product of two numbers
\* of bit lengths a and b is at least 2^(a+b-2)).
StreamSafe(b) == Len(b) < 40 \/
                 LET h == Parse(b) IN
                 \/ ~TypeOK(h) \/ ~Pos(h.rows) \/ ~Pos(h.cols) \/ Fits(h.rows, h.cols)
                 \/ BL(h.rows) + BL(h.cols) >= 62

(******************************* case spaces ********************************)
\* element bit patterns: +0, -0, 1.0, -2.5, +Inf, -Inf, quiet NaN with payload, negative NaN with payload,
\* smallest denormal, largest finite, pi
Tokens == << <<0,0,0,0>>, <<0,0,0,32768>>, <<0,0,0,16368>>, <<0,0,0,49156>>, <<0,0,0,32752>>, <<0,0,0,65520>>,
             <<1,0,0,32760>>, <<2989,0,0,65528>>, <<1,0,0,0>>, <<65535,65535,65535,32751>>,
             <<11544,21572,8699,16393>> >>
NT == Len(Tokens)
Mat(r, c, s) == [r |-> r, c |-> c,
                 e |-> [k \in 1 .. (r * c) |-> Tokens[((((k - 1) \div c) * 5 + ((k - 1) % c) * 3 + Seed + s) % NT) + 1]]]
EncSpace == IF Mode # "enc" THEN {} ELSE {Mat(r, c, s) : r \in 1 .. 4, c \in 1 .. 4, s \in 0 .. (NT - 1)}

DimVals == {MinusOne, MinI64, Zero, I(1), I(2), I(3), P31, P32, P61, P62, MaxI64, F1, F2}
Payload(k) == [i \in 1 .. k |-> (i * 37 + Seed) % 256]
PayLens(r, c) == {0, 8, 16, 24, 48} \cup
                 (IF Fits(r, c) THEN {8 * Val(r) * Val(c) + d : d \in {-8, -1, 0, 1, 8}} ELSE {})
HdrSpace == IF Mode # "dec" THEN {} ELSE
            UNION {{HdrBytes(GoodHdr(d[1], d[2])) \o Payload(k) : k \in PayLens(d[1], d[2]) \cap Nat}
                     : d \in DimVals \X DimVals}

\* every other header field, alone and in pairs, on a 2x3 and a 3x1 payload
FieldAlts == [version : {<<1,0,0,0>>, <<0,0,0,0>>, <<2,0,0,0>>, <<1,0,0,1>>, <<0,1,0,0>>},
              form : {71, 83, 84, 0}, packing : {70, 66, 80}, uplo : {65, 85, 76}, unit : {0, 1, 2},
              ku : {Zero, I(1), MinusOne}, kl : {Zero, I(1)}]
Differs(f) == Cardinality({k \in DOMAIN f : f[k] # GoodHdr(Zero, Zero)[k]})
FieldSpace == IF Mode # "dec" THEN {} ELSE
              {HdrBytes([version |-> f.version, form |-> f.form, packing |-> f.packing, uplo |-> f.uplo,
                         unit |-> f.unit, rows |-> I(d[1]), cols |-> I(d[2]), ku |-> f.ku, kl |-> f.kl])
                 \o Payload(8 * d[1] * d[2]) : f \in {g \in FieldAlts : Differs(g) <= 2}, d \in {<<2, 3>>, <<3, 1>>}}

\* every truncation and every one-byte extension of valid encodings
TruncSpace == IF Mode # "dec" THEN {} ELSE
              UNION {{SubSeq(b, 1, k) : k \in 0 .. Len(b)} \cup {Append(b, 7)}
                       : b \in {EncDense(Mat(2, 2, 0)), EncDense(Mat(1, 1, 3)), EncVec(Mat(3, 1, 1)), EncDense(Mat(1, 3, 2))}}

Init == val \in IF Mode = "enc" THEN EncSpace ELSE HdrSpace \cup FieldSpace \cup TruncSpace
Next == UNCHANGED val
Spec == Init /\ [][Next]_vars

(***************************** theorems (R1) ********************************)
Kinds == {"dense", "vec"}
Apis == {"slice", "stream"}
\* marshal then unmarshal is the identity, through both APIs; a one-column Dense and a VecDense share a form
RoundTrip == Mode = "enc" =>
   /\ \A api \in Apis : Accept("dense", api, EncDense(val)) /\ Decode(EncDense(val)) = val
   /\ val.c = 1 => /\ EncVec(val) = EncDense(val)
                   /\ \A api \in Apis : Accept("vec", api, EncVec(val))
   /\ val.c # 1 => \A api \in Apis : ~Accept("vec", api, EncDense(val))
\* the slice decision is the stream decision plus "no trailing bytes"; acceptance determines the value read
SliceStream == Mode # "enc" =>
   \A kind \in Kinds :
      /\ Accept(kind, "slice", val) => Accept(kind, "stream", val)
      /\ Accept(kind, "stream", val) => Accept(kind, "slice", SubSeq(val, 1, 40 + Need(Parse(val))))
      /\ Accept("vec", "slice", val) => Accept("dense", "slice", val)
\* an accepted string is the encoding of the value it decodes to (the form is canonical)
Canonical == Mode # "enc" => (Accept("dense", "slice", val) => EncDense(Decode(val)) = val)

(**************************** generator (R2) ********************************)
Exp(kind, api, b) == IF Accept(kind, api, b) THEN "ok" ELSE "error"
EmitCase ==
  Emit =>
    IF Mode = "enc"
    THEN PrintT(ToJson([k |-> "enc", r |-> val.r, c |-> val.c, e |-> val.e, bytes |-> EncDense(val)]))
    ELSE PrintT(ToJson([k |-> "dec", bytes |-> [b |-> val],
                        dense |-> [slice |-> Exp("dense", "slice", val), stream |-> Exp("dense", "stream", val),
                                   why |-> Why("dense", val)],
                        vec |-> [slice |-> Exp("vec", "slice", val), stream |-> Exp("vec", "stream", val),
                                 why |-> Why("vec", val)],
                        streamsafe |-> StreamSafe(val),
                        r |-> IF Accept("dense", "stream", val) THEN Decode(val).r ELSE 0,
                        c |-> IF Accept("dense", "stream", val) THEN Decode(val).c ELSE 0,
                        e |-> [e |-> IF Accept("dense", "stream", val) THEN Decode(val).e ELSE <<>>]]))
=============================================================================
