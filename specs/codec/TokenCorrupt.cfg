SPECIFICATION Spec
CONSTANTS
  Family = "@FAMILY@"
  Emit = @EMIT@
INVARIANTS OneEdit Sane EmitCase
CHECK_DEADLOCK FALSE
