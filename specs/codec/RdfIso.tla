------------------------------- MODULE RdfIso -------------------------------
(* RDF dataset isomorphism by brute force, on QUADS.                           *)
(*                                                                             *)
(* Terms (integer tokens): blank nodes 1..NB, one IRI (10), one literal (11),  *)
(* predicates 20, 21, graph IRIs 30, 31, and 0 for "no graph label" (the       *)
(* default graph).  A quad is <<s, p, o, g>> with                              *)
(*    s a blank node or the IRI,                                               *)
(*    p one of NPred predicates,                                               *)
(*    o a blank node, the IRI or (WithLit) the literal,                        *)
(*    g the default graph, one of NIriLabels graph IRIs or (BlankLabels) a     *)
(*      blank node of the SAME pool 1..NB, so that a blank node can be         *)
(*      subject / object of one statement and graph label of another.          *)
(* A quad is identified by a code 0..Q-1; a dataset is a SET of quad codes     *)
(* (RDF semantics: a statement list denotes the set of its statements).  The   *)
(* same triple in two or three graphs is simply two or three codes that differ *)
(* in the label digit only.                                                    *)
(*                                                                             *)
(*   Iso(D, E) == \E bijection of blank labels mapping D onto E                *)
(*                                                                             *)
(* Over the label pool 1..NB every bijection between the blank nodes of two    *)
(* datasets extends to a permutation of the pool, so the isomorphism class of  *)
(* D is its orbit under Perms.  Key(D) is the smallest member of the orbit     *)
(* (sorted code sequences, lexicographic order): two datasets are isomorphic   *)
(* iff their keys are equal.                                                   *)
(*                                                                             *)
(* The datasets are enumerated as a state graph (Init the empty dataset, Next  *)
(* adds a quad with a larger code).                                            *)
(* R1: Iso is an equivalence whose classes are the orbits (checked on every    *)
(* enumerated dataset), orbit-stabiliser counting, the statement order used    *)
(* for Deduplicate is a strict total order on distinct quads.                  *)
(* R2: every dataset with at most MaxQ quads is printed with its key, and once *)
(* per run the PLAN: every permutation of 1..n and every way of listing n      *)
(* statements with one or two repetitions (surjections of 1..n+1, 1..n+2 onto  *)
(* 1..n).  The harness                                                         *)
(*  (i)/(ii) canonicalises each dataset with URDNA2015, URGNA2012 and          *)
(*     IsoCanonicalHashes (+C14n) under several blank label namings and the    *)
(*     statement orders of the plan and checks that "same canonical output"    *)
(*     is exactly "same key" (URGNA2012, a GRAPH normalization algorithm that  *)
(*     by its definition writes every blank graph name as "_:g" and does not   *)
(*     follow the graph position, only where ~HasBlankGraphLabel);             *)
(*  (iii) feeds every listing with repetitions to Deduplicate and expects the  *)
(*     statements of the dataset, each once, in the order SortPos states       *)
(*     ("sorted in lexical order": by subject, predicate, object, label);      *)
(*  (iv) checks Isomorphic(a, b) = (Key(a) = Key(b)).                          *)
EXTENDS Integers, Sequences, FiniteSets, TLC, Json

CONSTANTS NB,          \* size of the blank label pool
          NPred,       \* 1 or 2 predicates
          WithLit,     \* the literal is a possible object
          NIriLabels,  \* 0, 1 or 2 named graphs with an IRI label
          BlankLabels, \* the blank nodes are possible graph labels
          MinQ, MaxQ,  \* dataset sizes
          Shard, NShards, \* of the datasets with at least ShardFrom quads only the classes of one shard are selected
          ShardFrom,
          Emit

VARIABLE val
vars == <<val>>

Blanks == 1 .. NB
Default == 0
IRI == 10
Lit == 11
BlankSeq == [i \in 1 .. NB |-> i]
SubjSeq == BlankSeq \o <<IRI>>
ObjSeq == BlankSeq \o <<IRI>> \o (IF WithLit THEN <<Lit>> ELSE <<>>)
PredSeq == SubSeq(<<20, 21>>, 1, NPred)
LabelSeq == <<Default>> \o SubSeq(<<30, 31>>, 1, NIriLabels) \o (IF BlankLabels THEN BlankSeq ELSE <<>>)
NS == Len(SubjSeq)
NO == Len(ObjSeq)
NP == Len(PredSeq)
NL == Len(LabelSeq)
Q == NS * NP * NO * NL
ASSUME NPred \in 1 .. 2 /\ NIriLabels \in 0 .. 2 /\ NB \in 1 .. 3 /\ Q <= 256

Idx(seq, x) == CHOOSE i \in 1 .. Len(seq) : seq[i] = x
QuadOfDef(c) == <<SubjSeq[(c \div (NP * NO * NL)) + 1], PredSeq[((c \div (NO * NL)) % NP) + 1],
                  ObjSeq[((c \div NL) % NO) + 1], LabelSeq[(c % NL) + 1]>>
QuadTab == TLCEval([c \in 0 .. (Q - 1) |-> QuadOfDef(c)])
QuadOf(c) == QuadTab[c]
CodeOf(q) == (((Idx(SubjSeq, q[1]) - 1) * NP + (Idx(PredSeq, q[2]) - 1)) * NO + (Idx(ObjSeq, q[3]) - 1)) * NL
             + (Idx(LabelSeq, q[4]) - 1)
ASSUME \A c \in 0 .. (Q - 1) : CodeOf(QuadOf(c)) = c

Perms == {f \in [Blanks -> Blanks] : \A a, b \in Blanks : f[a] = f[b] => a = b}
MapTerm(f, t) == IF t \in Blanks THEN f[t] ELSE t
\* a relabelling acts on subject, object AND graph label
MapQuad(f, q) == <<MapTerm(f, q[1]), q[2], MapTerm(f, q[3]), MapTerm(f, q[4])>>
\* the action of a permutation on quad codes, tabulated once
PermCode == TLCEval([f \in Perms |-> [c \in 0 .. (Q - 1) |-> CodeOf(MapQuad(f, QuadOf(c)))]])
Apply(f, D) == {PermCode[f][c] : c \in D}
QuadBlanks(q) == {q[1], q[3], q[4]} \cap Blanks
BlanksOf(D) == UNION {QuadBlanks(QuadOf(c)) : c \in D}
\* some graph is named by a blank node
HasBlankGraphLabel(D) == \E c \in D : QuadOf(c)[4] \in Blanks

Orbit(D) == {Apply(f, D) : f \in Perms}
Aut(D) == {f \in Perms : Apply(f, D) = D}
\* the definition: a bijection between the blank nodes of D and of E that maps D onto E
Bij(A, B) == {f \in [A -> B] : (\A a, b \in A : f[a] = f[b] => a = b) /\ {f[a] : a \in A} = B}
MapTermP(f, t) == IF t \in DOMAIN f THEN f[t] ELSE t
IsoDef(D, E) == \E f \in Bij(BlanksOf(D), BlanksOf(E)) :
                   {CodeOf(<<MapTermP(f, QuadOf(c)[1]), QuadOf(c)[2], MapTermP(f, QuadOf(c)[3]), MapTermP(f, QuadOf(c)[4])>>) : c \in D} = E
Iso(D, E) == E \in Orbit(D)

\* a dataset as the increasing sequence of its codes
RECURSIVE Sorted(_)
Sorted(D) == IF D = {} THEN <<>> ELSE LET m == CHOOSE x \in D : \A y \in D : x <= y IN <<m>> \o Sorted(D \ {m})
\* lexicographic order on sequences of equal length
LexLeq(a, b) == a = b \/ \E i \in 1 .. Len(a) : a[i] < b[i] /\ \A j \in 1 .. (i - 1) : a[j] = b[j]
Key(D) == LET O == {Sorted(E) : E \in Orbit(D)} IN CHOOSE s \in O : \A t \in O : LexLeq(s, t)

RECURSIVE KSub(_, _)
KSub(k, lo) == IF k = 0 THEN {{}} ELSE UNION {{({c} \cup T) : T \in KSub(k - 1, c + 1)} : c \in lo .. (Q - 1)}
\* sharding by the class key, so that a whole isomorphism class falls into one shard
KeyHash(k) == LET h[i \in 0 .. Len(k)] == IF i = 0 THEN 7 ELSE (h[i - 1] * 31 + k[i] * k[i] + 3 * k[i] + 1) % 65521 IN h[Len(k)]
InShard(D) == (KeyHash(Key(D)) % NShards) = Shard

(******************* statement order (for Deduplicate) **********************)
\* "sorted in lexical order": statements are compared by subject, predicate, object, label as written in
\* N-Quads.  The written form of a term is the harness's business (it binds blank label i to a string under
\* a NAMING); the module only fixes the order the written forms have: no label < the literal ("lit") < IRIs
\* (<http://example.org/a>, .../g1>, .../g2>, .../p>, .../q>) < blank labels (_:..), and among blank labels
\* the order given per naming below.  The harness refuses to run if its strings do not have this order.
NamingNames == {"b", "rev", "c14n", "prefix", "mixed"}
\* BlankRank[nm][i] = place of the label of blank node i among the labels of the naming
\*   b: b1 b2 b3   rev: z y x   c14n: c14n2 c14n0 c14n1   prefix: a aa aaa   mixed: n10 n9 N1
BlankRank == [b |-> <<1, 2, 3>>, rev |-> <<3, 2, 1>>, c14n |-> <<3, 1, 2>>, prefix |-> <<1, 2, 3>>, mixed |-> <<2, 3, 1>>]
TermTokens == {Default, Lit, IRI, 20, 21, 30, 31} \cup Blanks
TermRank(nm, t) == CASE t = Default -> 0 [] t = Lit -> 1 [] t = IRI -> 2 [] t = 30 -> 3 [] t = 31 -> 4
                     [] t = 20 -> 5 [] t = 21 -> 6 [] OTHER -> 10 + BlankRank[nm][t]
QuadLess(nm, x, y) == \E i \in 1 .. 4 : TermRank(nm, x[i]) < TermRank(nm, y[i])
                                        /\ \A j \in 1 .. (i - 1) : TermRank(nm, x[j]) = TermRank(nm, y[j])
\* place (0-based) of each statement of the sequence qs in the sorted list
SortPos(nm, qs) == [i \in 1 .. Len(qs) |-> Cardinality({j \in 1 .. Len(qs) : QuadLess(nm, qs[j], qs[i])})]

\* the datasets are enumerated as a state graph: each one is reached exactly once, by adding its quads in
\* increasing code order
Init == val = {}
Next == /\ Cardinality(val) < MaxQ
        /\ \E c \in 0 .. (Q - 1) : (\A x \in val : x < c) /\ val' = val \cup {c}
Selected == Cardinality(val) >= MinQ /\ (Cardinality(val) < ShardFrom \/ InShard(val))
Spec == Init /\ [][Next]_vars
QuadSeq(D) == LET s == Sorted(D) IN [i \in 1 .. Len(s) |-> QuadOf(s[i])]

(***************************** theorems (R1) ********************************)
\* the orbit formulation agrees with the definition by bijections of the blank nodes actually present
OrbitIsDef == Selected => \A E \in Orbit(val) : IsoDef(val, E)
DefIsOrbit == (Selected /\ Cardinality(val) <= 2) =>
                 \A E \in KSub(Cardinality(val), 0) : IsoDef(val, E) => E \in Orbit(val)
\* equivalence: reflexive, and every member of the class has the same class (symmetry + transitivity)
Equivalence == Selected =>
               /\ Iso(val, val)
               /\ \A E \in Orbit(val) : Orbit(E) = Orbit(val) /\ Key(E) = Key(val) /\ Cardinality(E) = Cardinality(val)
\* the shard selector is constant on isomorphism classes
ShardInvariant == Selected => \A E \in Orbit(val) : InShard(E)
OrbitStabiliser == Selected => Cardinality(Orbit(val)) * Cardinality(Aut(val)) = Cardinality(Perms)
\* the statement order is a strict total order on the statements of a dataset (the sorted list is a
\* permutation of the dataset), under every naming
SortTotal == Selected => \A nm \in NamingNames :
                LET p == SortPos(nm, QuadSeq(val)) IN {p[i] : i \in DOMAIN p} = 0 .. (Cardinality(val) - 1)
\* the quad relation refines the triple relation: forgetting the graph labels maps isomorphic datasets to
\* isomorphic triple sets (the converse fails - the label is part of the statement - which is why two
\* datasets that differ only in one label have different keys: Key is injective on orbits by construction)
Strip(D) == {c \div NL : c \in D}
StripPerm == TLCEval([f \in Perms |-> [t \in 0 .. ((Q \div NL) - 1) |-> PermCode[f][t * NL] \div NL]])
LabelsMatter == Selected => \A E \in Orbit(val) : \E f \in Perms : {StripPerm[f][t] : t \in Strip(val)} = Strip(E)

(**************************** generator (R2) ********************************)
PermSeqs(n) == {s \in [1 .. n -> 1 .. n] : {s[i] : i \in 1 .. n} = 1 .. n}
Surj(len, n) == {s \in [1 .. len -> 1 .. n] : {s[i] : i \in 1 .. len} = 1 .. n}
\* listings of n statements with repetitions: one repetition, and two (not for n = 4: 1 560 listings)
DupSeqs(n) == Surj(n + 1, n) \cup (IF n <= 3 THEN Surj(n + 2, n) ELSE {})
Plan == [k |-> "plan",
         perms |-> [n \in 1 .. MaxQ |-> PermSeqs(n)],
         dups |-> [n \in 1 .. MaxQ |-> DupSeqs(n)],
         rank |-> [nm \in NamingNames |-> [t \in TermTokens |-> TermRank(nm, t)]]]
EmitCase ==
  Emit => IF val = {} THEN PrintT(ToJson(Plan))
          ELSE Selected =>
               LET qs == QuadSeq(val) IN
               PrintT(ToJson([k |-> "d", quads |-> qs, key |-> Key(val),
                         aut |-> Cardinality(Aut(val)), nblank |-> Cardinality(BlanksOf(val)),
                         orbit |-> Cardinality(Orbit(val)), bgl |-> HasBlankGraphLabel(val),
                         pos |-> [nm \in NamingNames |-> SortPos(nm, qs)]]))
=============================================================================
