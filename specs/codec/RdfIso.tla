------------------------------- MODULE RdfIso -------------------------------
(* RDF dataset isomorphism by brute force.                                     *)
(*                                                                             *)
(* Terms: blank nodes 1..NB, one IRI (10), one literal (11); predicates 20,21. *)
(* A quad (default graph) is <<s, p, o>> with s a blank or the IRI and o a     *)
(* blank, the IRI or the literal; it is identified by a code 0..Q-1.  A        *)
(* dataset is a set of quad codes.                                             *)
(*                                                                             *)
(*   Iso(D, E) == \E bijection of blank labels mapping D onto E                *)
(*                                                                             *)
(* Over the label pool 1..NB every bijection between the blank nodes of two    *)
(* datasets extends to a permutation of the pool, so the isomorphism class of  *)
(* D is its orbit under Perms.  Key(D) is the smallest member of the orbit in  *)
(* a fixed order: two datasets are isomorphic iff their keys are equal.        *)
(*                                                                             *)
(* The datasets are enumerated as a state graph (Init the empty dataset, Next *)
(* adds a quad with a larger code).                                            *)
(* R1: Iso is an equivalence whose classes are the orbits (checked on every    *)
(* enumerated dataset), orbit-stabiliser counting.  R2: every dataset with at  *)
(* most MaxQ quads is printed with its key; the harness canonicalises each one *)
(* with URDNA2015, URGNA2012 and IsoCanonicalHashes+C14n under several blank   *)
(* label namings and statement orders and checks that "same canonical output"  *)
(* is exactly "same key", and that Isomorphic(a, b) = (Key(a) = Key(b)).       *)
EXTENDS Integers, Sequences, FiniteSets, TLC, Json

CONSTANTS NB,        \* size of the blank label pool
          MinQ, MaxQ,\* dataset sizes
          Shard, NShards, \* of the datasets with at least ShardFrom quads only the classes of one shard are selected
          ShardFrom,
          Emit

VARIABLE val
vars == <<val>>

Blanks == 1 .. NB
IRI == 10
Lit == 11
SubjSeq == [i \in 1 .. NB |-> i] \o <<IRI>>
ObjSeq == [i \in 1 .. NB |-> i] \o <<IRI, Lit>>
PredSeq == <<20, 21>>
NS == Len(SubjSeq)
NO == Len(ObjSeq)
NP == Len(PredSeq)
Q == NS * NP * NO
ASSUME Q <= 40                                     \* keys are two 20-bit masks

QuadOf(c) == <<SubjSeq[(c \div (NP * NO)) + 1], PredSeq[((c \div NO) % NP) + 1], ObjSeq[(c % NO) + 1]>>
Idx(seq, x) == CHOOSE i \in 1 .. Len(seq) : seq[i] = x
CodeOf(q) == ((Idx(SubjSeq, q[1]) - 1) * NP + (Idx(PredSeq, q[2]) - 1)) * NO + (Idx(ObjSeq, q[3]) - 1)
ASSUME \A c \in 0 .. (Q - 1) : CodeOf(QuadOf(c)) = c

Perms == {f \in [Blanks -> Blanks] : \A a, b \in Blanks : f[a] = f[b] => a = b}
MapTerm(f, t) == IF t \in Blanks THEN f[t] ELSE t
MapQuad(f, q) == <<MapTerm(f, q[1]), q[2], MapTerm(f, q[3])>>
\* the action of a permutation on quad codes, tabulated once
PermCode == [f \in Perms |-> [c \in 0 .. (Q - 1) |-> CodeOf(MapQuad(f, QuadOf(c)))]]
Apply(f, D) == {PermCode[f][c] : c \in D}
BlanksOf(D) == UNION {{QuadOf(c)[1], QuadOf(c)[3]} \cap Blanks : c \in D}

Orbit(D) == {Apply(f, D) : f \in Perms}
Aut(D) == {f \in Perms : Apply(f, D) = D}
\* the definition: a bijection between the blank nodes of D and of E that maps D onto E
Bij(A, B) == {f \in [A -> B] : (\A a, b \in A : f[a] = f[b] => a = b) /\ {f[a] : a \in A} = B}
MapTermP(f, t) == IF t \in DOMAIN f THEN f[t] ELSE t
IsoDef(D, E) == \E f \in Bij(BlanksOf(D), BlanksOf(E)) :
                   {CodeOf(<<MapTermP(f, QuadOf(c)[1]), QuadOf(c)[2], MapTermP(f, QuadOf(c)[3])>>) : c \in D} = E
Iso(D, E) == E \in Orbit(D)

RECURSIVE Sum(_, _)
Sum(f, S) == IF S = {} THEN 0 ELSE LET c == CHOOSE x \in S : TRUE IN f[c] + Sum(f, S \ {c})
PowHi == [c \in 0 .. 39 |-> IF c >= 20 THEN 2 ^ (c - 20) ELSE 0]
PowLo == [c \in 0 .. 39 |-> IF c < 20 THEN 2 ^ c ELSE 0]
Mask(D) == <<Sum(PowHi, D), Sum(PowLo, D)>>
Leq(a, b) == a[1] < b[1] \/ (a[1] = b[1] /\ a[2] <= b[2])
Rep(D) == CHOOSE E \in Orbit(D) : \A F \in Orbit(D) : Leq(Mask(E), Mask(F))
Key(D) == Mask(Rep(D))

RECURSIVE KSub(_, _)
KSub(k, lo) == IF k = 0 THEN {{}} ELSE UNION {{({c} \cup T) : T \in KSub(k - 1, c + 1)} : c \in lo .. (Q - 1)}
\* sharding by a label-invariant of the dataset (its quads with every blank node replaced by one token),
\* so that a whole isomorphism class falls into one shard
Skel(c) == LET q == QuadOf(c) IN
           (IF q[1] \in Blanks THEN 0 ELSE 1) * 7 + (q[2] - 20) * 3 + (IF q[3] \in Blanks THEN 0 ELSE q[3] - 9) * 11
SkelOf == [c \in 0 .. (Q - 1) |-> Skel(c)]
InShard(D) == (Sum(SkelOf, D) % NShards) = Shard

\* the datasets are enumerated as a state graph: each one is reached exactly once, by adding its quads in
\* increasing code order
Init == val = {}
Next == /\ Cardinality(val) < MaxQ
        /\ \E c \in 0 .. (Q - 1) : (\A x \in val : x < c) /\ val' = val \cup {c}
Selected == Cardinality(val) >= MinQ /\ (Cardinality(val) < ShardFrom \/ InShard(val))
Spec == Init /\ [][Next]_vars

(***************************** theorems (R1) ********************************)
\* the orbit formulation agrees with the definition by bijections of the blank nodes actually present
OrbitIsDef == Selected => \A E \in Orbit(val) : IsoDef(val, E)
DefIsOrbit == (Selected /\ Cardinality(val) <= 2) =>
                 \A E \in KSub(Cardinality(val), 0) : IsoDef(val, E) => E \in Orbit(val)
\* equivalence: reflexive, and every member of the class has the same class (symmetry + transitivity)
Equivalence == Selected =>
               /\ Iso(val, val)
               /\ \A E \in Orbit(val) : Orbit(E) = Orbit(val) /\ Key(E) = Key(val) /\ Cardinality(E) = Cardinality(val)
\* the shard selector is constant on isomorphism classes
ShardInvariant == Selected => \A E \in Orbit(val) : InShard(E)
OrbitStabiliser == Selected => Cardinality(Orbit(val)) * Cardinality(Aut(val)) = Cardinality(Perms)

(**************************** generator (R2) ********************************)
EmitCase ==
  (Emit /\ Selected) => PrintT(ToJson([k |-> "d", quads |-> {QuadOf(c) : c \in val}, key |-> Key(val),
                         aut |-> Cardinality(Aut(val)), nblank |-> Cardinality(BlanksOf(val)),
                         orbit |-> Cardinality(Orbit(val))]))
=============================================================================
