------------------------------ MODULE PrngHist ------------------------------
(* R2 generator over PrngStream: every history of the abstract machine that   *)
(* starts with a PREPARED configuration of two generators and continues with  *)
(* Free arbitrary operations, printed with the observations the machine        *)
(* expects, for replay into the real generators.                               *)
(*                                                                             *)
(* B is the block size of the generator family in stream units (MT19937: 624   *)
(* words, MT19937_64: 312 words; a small number for generators without block   *)
(* state).  Prepared configurations put generator 1 at index 0, 1, B-1, B and  *)
(* B+1 of its stream (or leave it as the constructor made it: never seeded,    *)
(* never stepped), and give generator 2 an unrelated prior state (absent, from *)
(* the constructor, a zero value, or seeded on another stream at index 0, 1,   *)
(* B).  Free operations: Make (constructor / zero value), Seed, Step by 1,     *)
(* B-1 or B outputs, Save into the slot, Restore from the slot - into a value  *)
(* that was just made, into a generator with unrelated prior state, or into    *)
(* the saver itself, in every order.  Only histories in which some Restore     *)
(* happens are printed; every printed history ends with the expected final     *)
(* place of both generators (observed by the replayer over the next TailLen       *)
(* outputs, which crosses a block boundary) and the byte token each generator  *)
(* must re-encode to.                                                          *)
EXTENDS PrngStream, Json

CONSTANTS B, Free, TailLen, Shard, NShards, Emit

VARIABLES h,        \* the operations so far, each with the observation the machine expects
          script,   \* prepared operations still to be done
          free,     \* free operations done
          ini       \* number of the prepared configuration (for sharding)
hvars == <<pos, snap, img, tok, h, script, free, ini>>

Op(op, g, f, s, j) == [op |-> op, g |-> g, f |-> f, s |-> s, j |-> j]
MakeOp(g, f) == Op("make", g, f, 0, 0)
SeedOp(g, s) == Op("seed", g, "", s, 0)
StepOp(g, j) == Op("step", g, "", 0, j)
SaveOp(g) == Op("save", g, "", 0, 0)
RestoreOp(g) == Op("restore", g, "", 0, 0)

Slot == CHOOSE k \in Ids : TRUE
\* the byte token a Save of g produces here: the one it is known to encode to, otherwise a new one (whether the
\* real bytes coincide with earlier ones is then left open)
TokOf(g) == IF img[g] # 0 THEN img[g] ELSE Fresh
Enabled(o) == CASE o.op = "make" -> TRUE
                [] o.op = "seed" -> pos[o.g] # Absent
                [] o.op = "step" -> Known(pos[o.g])
                [] o.op = "save" -> Known(pos[o.g])
                [] o.op = "restore" -> pos[o.g] # Absent /\ snap[Slot].b # 0
Do(o) == CASE o.op = "make" -> Make(o.g, o.f)
           [] o.op = "seed" -> Seed(o.g, o.s)
           [] o.op = "step" -> Adv(o.g, o.j)
           [] o.op = "save" -> Save(o.g, Slot, TokOf(o.g))
           [] o.op = "restore" -> Restore(o.g, Slot)
\* what is printed for operation o done in the current state, as the tuple <<op, g, f, seed, j, s, n, b>>: the place
\* before it (step: the outputs are the places n .. n+j-1 of stream s) and the byte token (save: the bytes written;
\* restore: the bytes read)
Obs(o) == << o.op, o.g, o.f, o.s, o.j,
             IF o.op = "step" THEN pos[o.g].s ELSE 0, IF o.op = "step" THEN pos[o.g].n ELSE 0,
             IF o.op = "save" THEN TokOf(o.g) ELSE IF o.op = "restore" THEN snap[Slot].b ELSE 0 >>
OpOf(r) == r[1]   ObsJ(r) == r[5]   ObsS(r) == r[6]   ObsN(r) == r[7]   ObsB(r) == r[8]

Steps == {1, B - 1, B}
FreeOps == {MakeOp(g, f) : g \in Gens, f \in {"ctor", "zero"}} \cup {SeedOp(g, s) : g \in Gens, s \in Streams}
           \cup {StepOp(g, j) : g \in Gens, j \in Steps} \cup {SaveOp(g) : g \in Gens} \cup {RestoreOp(g) : g \in Gens}

\* prepared configurations
At(g, s, i) == <<MakeOp(g, "ctor"), SeedOp(g, s)>> \o (IF i = 0 THEN <<>> ELSE IF i = B + 1 THEN <<StepOp(g, B), StepOp(g, 1)>> ELSE <<StepOp(g, i)>>)
Prep1 == <<  <<MakeOp(1, "ctor")>>, At(1, 1, 0), At(1, 1, 1), At(1, 1, B - 1), At(1, 1, B), At(1, 1, B + 1)  >>
Prep2 == <<  <<>>, <<MakeOp(2, "ctor")>>, <<MakeOp(2, "zero")>>, At(2, 2, 0), At(2, 2, 1), At(2, 2, B)  >>
NPrep == Len(Prep1) * Len(Prep2)
PrepOf(i) == Prep1[((i - 1) \div Len(Prep2)) + 1] \o Prep2[((i - 1) % Len(Prep2)) + 1]

HInit == /\ Init /\ h = <<>> /\ free = 0
         /\ ini \in {i \in 1 .. NPrep : i % NShards = Shard}
         /\ script = PrepOf(ini)
HNext == \/ /\ script # <<>> /\ Enabled(Head(script)) /\ Do(Head(script))
            /\ h' = Append(h, Obs(Head(script))) /\ script' = Tail(script) /\ UNCHANGED <<free, ini>>
         \/ /\ script = <<>> /\ free < Free
            /\ \E o \in FreeOps : Enabled(o) /\ Do(o) /\ h' = Append(h, Obs(o))
            /\ free' = free + 1 /\ UNCHANGED <<script, ini>>
HSpec == HInit /\ [][HNext]_hvars

(***************************** theorems (R1) ********************************)
\* prepared operations are always enabled when their turn comes (no prepared history is silently dropped)
PrepRuns == script # <<>> => Enabled(Head(script))
\* every recorded step observation is a known place, every recorded byte token exists
ObsSound == \A i \in 1 .. Len(h) : /\ (OpOf(h[i]) = "step" => ObsS(h[i]) \in Streams \cup {Default} /\ ObsN(h[i]) >= 0 /\ ObsJ(h[i]) >= 1)
                                   /\ (OpOf(h[i]) \in {"save", "restore"} => ObsB(h[i]) \in 1 .. Len(tok))
Complete == script = <<>> /\ free = Free
HasRestore == \E i \in 1 .. Len(h) : OpOf(h[i]) = "restore"

(**************************** generator (R2) ********************************)
Fin(g) == << g, pos[g].s, pos[g].n, img[g] >>        \* s < 0: the machine does not know the place
EmitCase == (Emit /\ Complete /\ HasRestore) =>
               PrintT(ToJson([k |-> "prng-hist", blk |-> B, tail |-> TailLen, ini |-> ini, ops |-> h,
                              fin |-> [i \in 1 .. Cardinality(Gens) |-> Fin(i)]]))
=============================================================================
