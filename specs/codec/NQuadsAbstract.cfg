SPECIFICATION Spec
CONSTANTS
  Mode = "@MODE@"
  Seed = @SEED@
  Shard = @SHARD@
  NShards = @NSHARDS@
  Emit = @EMIT@
INVARIANTS WellFormed EmitCase
CHECK_DEADLOCK FALSE
