SPECIFICATION Spec
CONSTANTS
  Fns = @FNS@
  NMin = @NMIN@
  NMax = @NMAX@
  NVar = @NVAR@
  Seed = @SEED@
INVARIANTS Emit @EXTRA@
CHECK_DEADLOCK FALSE
