----------------------------- MODULE SliceAlias -----------------------------
(* Aliasing lemma (R1).  The ...To primitives are defined as scalar loops      *)
(*     for i: dst[i] = op(s[i], t[i])        (CumSum/CumProd: dst[i] = dst[i-1] op s[i]) *)
(* This module executes that loop one element at a time on a memory in which   *)
(* dst IS one of the sources (the in-place forms Add, Sub, AddScaled, Scale,   *)
(* Mul are exactly this) and TLC checks, for every content over a small value  *)
(* alphabet and every length up to N, that                                     *)
(*   - after k steps the first k destination cells hold the functional         *)
(*     definition's values (SlicePrims operators evaluated on the INITIAL      *)
(*     contents) and the remaining cells still hold their initial values       *)
(*     (so a kernel that loads several not-yet-written elements ahead, as the  *)
(*     unrolled SIMD loops do, reads the same values), and                     *)
(*   - the other source is never written.                                      *)
(* This is what makes the expectation "aliased call = fresh-destination call"  *)
(* used by the conformance replay well defined.                                *)
EXTENDS Integers, Sequences, FiniteSets, TLC

CONSTANTS N2,   \* maximal length for two-source operations
          N1    \* maximal length for one-source operations

P == INSTANCE SlicePrims WITH Fns <- {}, NMin <- 0, NMax <- 0, NVar <- 1, Seed <- 0,
                              c <- [f |-> "", n |-> 0, v |-> 0]

Alphabet == {-1, 2, P!NZero, P!PInf}
Alpha == -2

Ops2 == {"AddTo", "SubTo", "MulTo", "AddScaledTo"}   \* dst = x or dst = y
Ops1 == {"ScaleTo", "CumSum", "CumProd"}              \* dst = x

VARIABLES op, al, x0, y0, x, y, i
vars == <<op, al, x0, y0, x, y, i>>

Init == \/ /\ op \in Ops2 /\ al \in {"x", "y"}
           /\ \E n \in 0..N2 : x0 \in [1..n -> Alphabet] /\ y0 \in [1..n -> Alphabet]
           /\ x = x0 /\ y = y0 /\ i = 1
        \/ /\ op \in Ops1 /\ al = "x"
           /\ \E n \in 0..N1 : x0 \in [1..n -> Alphabet]
           /\ y0 = <<>> /\ x = x0 /\ y = y0 /\ i = 1

\* the value the loop body stores into dst[i], reading the CURRENT memory
Body == LET d == IF al = "x" THEN x ELSE y IN
  CASE op = "AddTo"       -> P!XAdd(x[i], y[i])
    [] op = "SubTo"       -> P!XSub(x[i], y[i])
    [] op = "MulTo"       -> P!XMul(x[i], y[i])
    [] op = "AddScaledTo" -> P!XAdd(y[i], P!XMul(Alpha, x[i]))
    [] op = "ScaleTo"     -> P!XMul(Alpha, x[i])
    [] op = "CumSum"      -> IF i = 1 THEN x[1] ELSE P!XAdd(d[i-1], x[i])
    [] op = "CumProd"     -> IF i = 1 THEN x[1] ELSE P!XMul(d[i-1], x[i])

Step == /\ i <= Len(x0)
        /\ IF al = "x" THEN x' = [x EXCEPT ![i] = Body] /\ y' = y
                       ELSE y' = [y EXCEPT ![i] = Body] /\ x' = x
        /\ i' = i + 1
        /\ UNCHANGED <<op, al, x0, y0>>
Next == Step
Spec == Init /\ [][Next]_vars

\* the functional definition on the initial contents
Def == CASE op = "AddTo"       -> P!AddV(x0, y0)
         [] op = "SubTo"       -> P!SubV(x0, y0)
         [] op = "MulTo"       -> P!MulV(x0, y0)
         [] op = "AddScaledTo" -> P!AxpyV(Alpha, x0, y0)
         [] op = "ScaleTo"     -> P!ScaleV(Alpha, x0)
         [] op = "CumSum"      -> IF Len(x0) = 0 THEN <<>> ELSE P!CumSumV(x0)
         [] op = "CumProd"     -> IF Len(x0) = 0 THEN <<>> ELSE P!CumProdV(x0)

AliasLemma ==
  LET d == IF al = "x" THEN x ELSE y
      d0 == IF al = "x" THEN x0 ELSE y0 IN
  /\ \A j \in 1..Len(x0) : d[j] = IF j < i THEN Def[j] ELSE d0[j]
  /\ al = "x" => y = y0
  /\ al = "y" => x = x0
Terminates == <>(i = Len(x0) + 1)

(* storage-map lemma for the strided forms: VecIdx is injective and stays inside the backing
   array of length BackLen, and Lay puts exactly the logical elements there *)
IncSet == {1, 2, 3, 4, 5, -1, -2, -3, -4, -5}
VecIdxOK == \A n \in 0..6 : \A inc \in IncSet :
              /\ \A k \in 1..n : P!VecIdx(k, n, inc) \in 1..P!BackLen(n, inc)
              /\ \A k, l \in 1..n : P!VecIdx(k, n, inc) = P!VecIdx(l, n, inc) => k = l
              /\ n > 0 => (inc > 0 => P!VecIdx(1, n, inc) = 1) /\ (inc < 0 => P!VecIdx(n, n, inc) = 1)
ASSUME VecIdxOK
\* the linear-time Lay used by the generator is the VecIdx-defined array
LayOK == \A n \in 0..6 : \A inc \in IncSet :
           LET xs == [q \in 1..n |-> 10 + q] IN
           /\ Len(P!Lay(xs, inc, 777)) = Len(P!LayDef(xs, inc, 777))
           /\ \A p \in 1..Len(P!LayDef(xs, inc, 777)) : P!Lay(xs, inc, 777)[p] = P!LayDef(xs, inc, 777)[p]
ASSUME LayOK

(* laws of the extended-integer arithmetic tables (IEEE-754 facts the expectations rely on) *)
Vals == {-3, -1, 0, 1, 2, P!NaN, P!PInf, P!NInf, P!NZero}
Laws == /\ \A a, b \in Vals : P!XAdd(a, b) = P!XAdd(b, a) /\ P!XMul(a, b) = P!XMul(b, a)
        /\ \A a \in Vals : P!XNeg(P!XNeg(a)) = a /\ P!XMul(1, a) = a /\ P!XMul(-1, a) = P!XNeg(a)
        /\ \A a \in Vals : P!XAdd(a, P!NZero) = a                       \* -0 is the additive identity
        /\ \A a, b \in Vals : P!XSub(a, b) = P!XAdd(a, P!XMul(-1, b))    \* Sub via axpy(-1)
        /\ \A a, b \in Vals : P!XAdd(a, b) = P!XAdd(P!XMul(1, b), a)     \* Add via axpy(1)
        /\ \A a, b \in Vals : (P!IsNaN(a) \/ P!IsNaN(b)) => P!IsNaN(P!XAdd(a, b)) /\ P!IsNaN(P!XMul(a, b))
        /\ \A a \in Vals : ~P!XLt(a, a) /\ (P!XEq(a, a) = ~P!IsNaN(a))
        /\ P!XEq(0, P!NZero) /\ P!IsNaN(P!XMul(0, P!PInf)) /\ P!IsNaN(P!XAdd(P!PInf, P!NInf))
        /\ P!XDiv(1, 0) = P!PInf /\ P!XDiv(-1, 0) = P!NInf /\ P!XDiv(1, P!NZero) = P!NInf
        /\ P!IsNaN(P!XDiv(0, 0)) /\ P!XDiv(-4, 2) = -2 /\ P!XDiv(3, P!NInf) = P!NZero
ASSUME Laws
(* complex values whose components are extended integers (SlicePrims.tla, ZCase): the facts the
   component-special families rely on *)
ZVals == {-2, 0, 1, 3, P!NaN, P!PInf, P!NInf, P!NZero}
ZC == ZVals \X ZVals
Fin(a) == ~P!IsNaN(a) /\ ~P!IsInf(a)
NumEq(a, b) == a = b \/ (P!IsZero(a) /\ P!IsZero(b))            \* -0 = +0
ZEq(p, q) == NumEq(p[1], q[1]) /\ NumEq(p[2], q[2])
ZLaws ==
  \* the product formula (ac - bd) + (ad + bc)i does not depend on the order of the factors, so one
  \* expectation serves dst[i] * s[i], s[i] * dst[i], alpha * x[i] and every kernel's operand order
  /\ \A p, q \in ZC : P!ZMul(p, q) = P!ZMul(q, p)
  /\ \A p, q \in ZC : ZEq(P!ZConj(P!ZMul(p, q)), P!ZMul(P!ZConj(p), P!ZConj(q)))
  \* on elements finite in both components a real scalar f may equally be applied as f + 0i,
  \* and an addition as an axpy with the unit scalar ...
  /\ \A f \in ZVals : \A p \in ZC : (Fin(f) /\ Fin(p[1]) /\ Fin(p[2])) => ZEq(P!ZMul(<<f, 0>>, p), P!ZRScale(f, p))
  /\ \A p, q \in ZC : (Fin(q[1]) /\ Fin(q[2])) => ZEq(P!ZAdd(p, P!ZMul(<<1, 0>>, q)), P!ZAdd(p, q))
                                                  /\ ZEq(P!ZAdd(p, P!ZMul(<<-1, 0>>, q)), P!ZSub(p, q))
  \* ... but NOT on an element with exactly one non-finite component: the zero imaginary part of
  \* the scalar meets it (0 * Inf = NaN) and contaminates the finite component, which the
  \* component-wise definition keeps.  This is why ScaleReal / Add / Sub are NOT products.
  /\ \A f \in {-2, 1, 3} : \A p \in ZC : (~Fin(p[1]) /\ Fin(p[2])) =>
        P!IsNaN(P!ZMul(<<f, 0>>, p)[2]) /\ Fin(P!ZRScale(f, p)[2])
  /\ \A f \in {-2, 1, 3} : \A p \in ZC : (Fin(p[1]) /\ ~Fin(p[2])) =>
        P!IsNaN(P!ZMul(<<f, 0>>, p)[1]) /\ Fin(P!ZRScale(f, p)[1])
  /\ \A p, q \in ZC : (Fin(p[1]) /\ Fin(p[2]) /\ ~Fin(q[1]) /\ Fin(q[2])) =>
        Fin(P!ZAdd(p, q)[2]) /\ P!IsNaN(P!ZAdd(p, P!ZMul(<<1, 0>>, q))[2])
  \* a product with an infinite factor is never finite in both components, so the set accepted at
  \* an open position (anything not finite in both components) contains the value of the Go formula
  \* and every infinity a recovering product could return
  /\ \A p, q \in ZC : (P!ZIsInf(p) \/ P!ZIsInf(q)) => LET r == P!ZMul(p, q) IN ~(Fin(r[1]) /\ Fin(r[2]))
  /\ \A p, q \in ZC : P!ZMulOpen(p, q) => P!IsNaN(P!ZMul(p, q)[1]) /\ P!IsNaN(P!ZMul(p, q)[2])
ASSUME ZLaws
=============================================================================
