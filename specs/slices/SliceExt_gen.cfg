SPECIFICATION Spec
CONSTANTS
  Fns = @FNS@
  NMin = @NMIN@
  NMax = @NMAX@
  NVar = @NVAR@
  Seed = @SEED@
INVARIANTS XEmit
CHECK_DEADLOCK FALSE
