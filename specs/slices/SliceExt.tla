------------------------------ MODULE SliceExt ------------------------------
(* Extension of SlicePrims: the functions of cmplxs and floats that have no    *)
(* integer-valued scalar loop (moduli, general-L norms, log-space forms,       *)
(* tolerance predicates), the documented panics, and the internal kernels that *)
(* no exported function of gonum calls (strided ...To forms, LinfDist,         *)
(* internal/math32, internal/cmplx64).  Same conventions as SlicePrims:        *)
(*   - values are extended integers Int u {NaN, PInf, NInf, NZero}; a complex  *)
(*     value is a pair of them, printed interleaved;                           *)
(*   - moduli are taken of PYTHAGOREAN pairs only (re^2 + im^2 a perfect       *)
(*     square), so every modulus, 1-norm and max-norm printed here is an exact *)
(*     integer; the implementation may round (hypot), so the harness compares  *)
(*     against the exact value with the printed bound tol (in units of 2^-52   *)
(*     resp. 2^-23 relative), evaluated in rational arithmetic;                *)
(*   - where the documentation leaves the answer open the case says so (open,  *)
(*     alt, or a list of allowed values per position).                         *)
(* R2: Init of SlicePrims over Fns x lengths x variants, invariant XEmit.      *)
(* R1: the ASSUMEs at the end (lemmas about the definitions used here).        *)
EXTENDS SlicePrims

XBase(f, n, v) ==
  [f |-> f, n |-> n, v |-> v, x |-> Empty, y |-> Empty, a |-> 0, ai |-> 0, si |-> 0, k |-> 0, w |-> Empty, s |-> 0,
   iw |-> Empty, allow |-> Empty, e |-> 0, e32 |-> 0, tol |-> 0, alt |-> KEEP, incx |-> 1, incy |-> 1, b |-> FALSE,
   skip |-> FALSE, open |-> FALSE, ex |-> Empty, bb |-> Empty, m |-> 0, lens |-> Empty, g |-> "", incd |-> 1,
   offs |-> Empty, cls |-> Empty]
XSkip(f, n, v) == [XBase(f, n, v) EXCEPT !.skip = TRUE]

(***************************** complex extended values **********************)
KEEPP == <<KEEP, KEEP>>
CIsNaNC(p) == (IsNaN(p[1]) \/ IsNaN(p[2])) /\ ~(IsInf(p[1]) \/ IsInf(p[2]))     \* cmplx.IsNaN
CIsInfC(p) == IsInf(p[1]) \/ IsInf(p[2])                                        \* cmplx.IsInf
CIsFin(p)  == ~CIsNaNC(p) /\ ~CIsInfC(p)
CEqX(p, q) == XEq(p[1], q[1]) /\ XEq(p[2], q[2])                               \* complex ==
CInj(z, pos, pr) == IF pr = KEEPP \/ Len(z) = 0 THEN z ELSE [i \in 1..Len(z) |-> IF i = pos THEN pr ELSE z[i]]
XFlat(z) == Flat(z)
Cls(p) == IF CIsInfC(p) THEN "inf" ELSE IF CIsNaNC(p) THEN "nan" ELSE "fin"

\* Pythagorean (and axis) pairs with their moduli
PT == << <<3, 4>>, <<0, 2>>, <<-5, 12>>, <<1, 0>>, <<-8, -6>>, <<0, 0>>, <<4, -3>>, <<-7, 0>>, <<0, -1>>,
         <<12, 5>>, <<8, 15>>, <<-6, 8>>, <<0, 3>>, <<-4, 0>> >>
IsqrtX(t) == CHOOSE r \in 0..40 : r * r = t
HasIsqrt(t) == \E r \in 0..40 : r * r = t
ModP(p) == IsqrtX(p[1] * p[1] + p[2] * p[2])
PVec(n, v) == [p \in 1..n |-> Pick(PT, p * 5 + 3 * v + Seed)]
\* modulus of an extended pair: +Inf if a component is infinite (hypot), NaN if one is NaN
XModP(p) == IF CIsInfC(p) THEN PInf ELSE IF CIsNaNC(p) THEN NaN ELSE ModP(<<Num(p[1]), Num(p[2])>>)
\* one special pair injected at a swept position
CKind(v) == Pick(<< KEEPP, <<NaN, 1>>, <<PInf, 2>>, <<1, NInf>>, KEEPP, <<NZero, 0>>, <<NaN, NaN>>, <<NInf, -2>>, KEEPP, <<2, NaN>> >>, v)
CVecS(n, v) == CInj(CVec(n, 3, 1, v), PosX(n, v), CKind(v))

\* the predicate handed to cmplxs.Count / Find on both sides: real(z) > 0
CIsPosRe(p) == XLt(0, p[1])
\* the predicate handed to cmplxs.EqualFunc: the real parts are numerically equal
CReEq(p, q) == XEq(p[1], q[1])
\* the predicate handed to floats.EqualFunc: equal magnitudes
FAbsEq(a, b) == XEq(XAbs(a), XAbs(b))

MaxOf(S) == CHOOSE m \in S : \A t \in S : t <= m
SumI(x) == Fold(LAMBDA s, t : s + t, 0, x)

(****************** general-L norm data: cubes summing to a cube ************)
\* 3^3 + 4^3 + 5^3 = 6^3 ; eight such blocks give 12^3.  The moduli 3, 4, 5 sit at the
\* first 3*nb positions after a salted rotation, zeros elsewhere.
NBlocks(n, v) == IF n >= 24 /\ v % 2 = 1 THEN 8 ELSE 1
BlockRoot(n, v) == IF NBlocks(n, v) = 8 THEN 12 ELSE 6
BRot(p, n, v) == ((p + Seed + 3 * v) % n) + 1
BMag(q, nb) == IF q <= 3 * nb THEN 3 + ((q - 1) % 3) ELSE 0
BlockVec(n, v) == [p \in 1..n |-> LET m == BMag(BRot(p, n, v), NBlocks(n, v)) IN
                                  IF (p + v + Seed) % 3 = 0 THEN -m ELSE m]
\* complex elements with those moduli
BPair(m, p) == CASE m = 0 -> <<0, 0>>
                 [] m = 3 -> Pick(<< <<0, 3>>, <<-3, 0>> >>, p)
                 [] m = 4 -> Pick(<< <<-4, 0>>, <<0, 4>> >>, p)
                 [] m = 5 -> Pick(<< <<3, -4>>, <<-4, 3>>, <<0, 5>> >>, p)
CBlockVec(n, v) == [p \in 1..n |-> BPair(BMag(BRot(p, n, v), NBlocks(n, v)), p + v)]

(******************************** tolerance predicates **********************)
\* EqualApprox(s1, s2, tol): every pair within tol absolutely OR relatively,
\*     |a-b| <= tol  \/  |a-b| <= tol * max(|a|, |b|),   tol = T/4.
\* Complex operands are Gaussian integers; the inequalities are decided on squares:
\*     16 |a-b|^2  vs  T^2   and   16 |a-b|^2  vs  T^2 max(|a|^2, |b|^2).
\* An EXACT equality is pinned only where the floating-point moduli are exact (axis-aligned
\* operands); otherwise the element is "open" (hypot may round either way).
N2(p) == p[1] * p[1] + p[2] * p[2]
Axis(p) == p[1] = 0 \/ p[2] = 0
MaxI(a, b) == IF a > b THEN a ELSE b
ApxElem(a, b, T) ==      \* "T" true, "F" false, "O" open ; a, b finite Gaussian integers
  LET d == CSub2(a, b)  DD == 16 * N2(d)  MM == MaxI(N2(a), N2(b)) IN
  IF d = <<0, 0>> \/ DD < T * T \/ DD < T * T * MM THEN "T"
  ELSE IF (DD = T * T /\ Axis(d)) \/ (DD = T * T * MM /\ Axis(d) /\ Axis(a) /\ Axis(b)) THEN "T"
  ELSE IF DD = T * T \/ DD = T * T * MM THEN "O"
  ELSE "F"
ApxDelta(p, v) == Pick(<< <<0, 0>>, <<0, 0>>, <<1, 0>>, <<0, 0>>, <<0, -2>>, <<0, 0>>, <<3, 4>>, <<1, 1>>, <<0, 0>>, <<-1, 0>>, <<0, 0>> >>,
                       p * 3 + v + Seed)
ApxTol(v) == Pick(<<0, 1, 2, 4, 6, 8, 20, 3>>, v + Seed)

(**************************** log-space forms ********************************)
\* LogSpan(dst, 2^a, 2^b) with (b - a) divisible by n - 1: element i is 2^(a + (i-1) st) exactly.
\* The implementation goes through log and exp; its result is compared with the exact power
\* within tol = 9 K + 8 units of 2^-52 relative (K the largest |exponent|: every intermediate is
\* bounded by K ln 2 and carries a few ulp of it into the argument of exp).  The ENDPOINTS are
\* documented to be l and u themselves.
LsA(n, v) == ((Seed + 3 * v + n) % 17) - 8
LsStep(n, v) == IF n <= 12 THEN Pick(<<1, -2, 3, 0, -1, 2, -3>>, v + n) ELSE Pick(<<1, 0, -1>>, v + n)
AbsIx(k) == IF k < 0 THEN -k ELSE k
LsExps(n, v) == [i \in 1..n |-> LsA(n, v) + (i - 1) * LsStep(n, v)]
LsK(n, v) == MaxOf({AbsIx(LsExps(n, v)[i]) : i \in 1..n})

\* zero / negative endpoints: "will return NaNs if either l or u are negative, and will return
\* all zeros if l or u is zero", together with the endpoint clause: per position the set of values
\* either clause allows.
LzPairs == << <<0, 4>>, <<4, 0>>, <<0, 0>>, <<-2, 4>>, <<4, -2>>, <<-2, 0>>, <<0, -1>>, <<-1, -8>>, <<0, 1>> >>
LzAllowed(l, u, i, n) ==
  LET neg == l < 0 \/ u < 0   zer == l = 0 \/ u = 0
      ends == IF i = 1 THEN {l} ELSE IF i = n THEN {u} ELSE {}
  IN (IF neg THEN {NaN} ELSE {}) \cup (IF zer THEN {0} ELSE {}) \cup ends

(*************** the scalar loop that documents f64.LinfDist ****************)
\*   norm = |t[0]-s[0]| ; for i >= 1: d = |t[i]-s[i]| ; if d > norm || IsNaN(norm) { norm = d }
LinfLoop(s, t) ==
  IF Len(s) = 0 THEN 0 ELSE
  LET d == SubSeq([i \in 1..Len(s) |-> XAbs(XSub(t[i], s[i]))], 1, Len(s)) IN
  Fold(LAMBDA norm, di : IF XLt(norm, di) \/ IsNaN(norm) THEN di ELSE norm, d[1], SubSeq(d, 2, Len(d)))

\* strided storage with a leading offset: off guard cells, then Lay
LayOff(x, inc, off, g) == [p \in 1..off |-> g] \o Lay(x, inc, g)
GuardArr(len) == [p \in 1..len |-> Guard]
PIncs == <<1, 2, 3, 1, 4, 5, 2, 1, 3>>
PInc(v, k) == Pick(PIncs, v * k + Seed + k)
OffOf(v, k) == (v * k + Seed + k) % 3

(********************* NearestIdxForSpan: remaining special cases ***********)
\* documented: equivalent to NearestIdx(Span(n, l, u), v).  With n = 2 the span is <<l, u>> (both
\* elements are documented endpoints), so the definition applies to special l, u as well.  All
\* members of a tie are accepted (the source disclaims ties), and every index for v = NaN.
Sp2Vals == <<NaN, PInf, NInf, 3, -2, 0, 5>>
TieSet(x, q) == LET ok == {i \in 1..Len(x) : ~IsNaN(DistS(q, x[i]))} IN
                IF ok = {} THEN 1..Len(x) ELSE {i \in ok : \A j \in ok : XLe(DistS(q, x[i]), DistS(q, x[j]))}
Span2Allowed(l, u, q) == IF IsNaN(q) THEN {1, 2}
                         ELSE NearestSet(<<l, u>>, q) \cup (IF IsInf(q) THEN {} ELSE TieSet(<<l, u>>, q))

(*************************** the documented panics **************************)
\* rule "eq2": panics iff the two slice lengths differ; "eq3": iff the three are not all equal;
\* "min1": iff the slice is empty; "min2": iff shorter than 2; "n2": iff the integer n < 2;
\* "unsorted": Within on unsorted data of length >= 2 (always panics)
PanicTab == <<
  <<"floats.Add", "eq2">>, <<"floats.Sub", "eq2">>, <<"floats.Mul", "eq2">>, <<"floats.Div", "eq2">>,
  <<"floats.AddScaled", "eq2">>, <<"floats.CumSum", "eq2">>, <<"floats.CumProd", "eq2">>, <<"floats.ScaleTo", "eq2">>,
  <<"floats.Dot", "eq2">>, <<"floats.Distance", "eq2">>, <<"floats.Argsort", "eq2">>, <<"floats.ArgsortStable", "eq2">>,
  <<"floats.AddTo", "eq3">>, <<"floats.SubTo", "eq3">>, <<"floats.MulTo", "eq3">>, <<"floats.DivTo", "eq3">>,
  <<"floats.AddScaledTo", "eq3">>,
  <<"floats.Max", "min1">>, <<"floats.Min", "min1">>, <<"floats.MaxIdx", "min1">>, <<"floats.MinIdx", "min1">>,
  <<"floats.NearestIdx", "min1">>, <<"floats.LogSumExp", "min1">>,
  <<"floats.Span", "min2">>, <<"floats.LogSpan", "min2">>, <<"floats.Within", "min2">>, <<"floats.Within", "unsorted">>,
  <<"floats.NearestIdxForSpan", "n2">>,
  <<"cmplxs.Add", "eq2">>, <<"cmplxs.Sub", "eq2">>, <<"cmplxs.Mul", "eq2">>, <<"cmplxs.MulConj", "eq2">>,
  <<"cmplxs.Div", "eq2">>, <<"cmplxs.AddScaled", "eq2">>, <<"cmplxs.CumSum", "eq2">>, <<"cmplxs.CumProd", "eq2">>,
  <<"cmplxs.ScaleTo", "eq2">>, <<"cmplxs.ScaleRealTo", "eq2">>, <<"cmplxs.Dot", "eq2">>, <<"cmplxs.Distance", "eq2">>,
  <<"cmplxs.Abs", "eq2">>, <<"cmplxs.Real", "eq2">>, <<"cmplxs.Imag", "eq2">>,
  <<"cmplxs.AddTo", "eq3">>, <<"cmplxs.SubTo", "eq3">>, <<"cmplxs.MulTo", "eq3">>, <<"cmplxs.MulConjTo", "eq3">>,
  <<"cmplxs.DivTo", "eq3">>, <<"cmplxs.AddScaledTo", "eq3">>, <<"cmplxs.Complex", "eq3">>,
  <<"cmplxs.MaxAbs", "min1">>, <<"cmplxs.MinAbs", "min1">>, <<"cmplxs.MaxAbsIdx", "min1">>, <<"cmplxs.MinAbsIdx", "min1">>,
  <<"cmplxs.NearestIdx", "min1">>,
  <<"cmplxs.Span", "min2">>, <<"cmplxs.LogSpan", "min2">> >>
NPanic == Len(PanicTab)
MustPanic(rule, l) == CASE rule = "eq2" -> l[1] # l[2]
                        [] rule = "eq3" -> ~(l[1] = l[2] /\ l[2] = l[3])
                        [] rule = "min1" -> l[1] = 0
                        [] rule = "min2" -> l[1] < 2
                        [] rule = "n2" -> l[1] < 2
                        [] rule = "unsorted" -> TRUE

(*********************** internal/math32 and internal/cmplx64 ***************)
M32Vals == <<-3, NZero, 0, 1, 4, NaN, PInf, NInf, 2>>
\* Max / Min as documented (signed zeros, NaN, infinities)
XMax(a, b) == IF a = PInf \/ b = PInf THEN PInf ELSE IF IsNaN(a) \/ IsNaN(b) THEN NaN
              ELSE IF IsZero(a) /\ IsZero(b) THEN (IF a = NZero /\ b = NZero THEN NZero ELSE 0)
              ELSE IF XLt(b, a) THEN a ELSE b
XMin(a, b) == IF a = NInf \/ b = NInf THEN NInf ELSE IF IsNaN(a) \/ IsNaN(b) THEN NaN
              ELSE IF IsZero(a) /\ IsZero(b) THEN (IF a = NZero \/ b = NZero THEN NZero ELSE 0)
              ELSE IF XLt(a, b) THEN a ELSE b
\* Hypot as documented: +Inf if an argument is infinite (even with a NaN), else NaN if one is NaN
HypPairs == << <<3, 4>>, <<-5, 12>>, <<0, 0>>, <<-3, 0>>, <<NZero, 2>>, <<PInf, 1>>, <<NaN, NInf>>, <<NaN, 2>>, <<1, NaN>>,
               <<8, -15>>, <<NInf, NaN>>, <<0, -7>>, <<20, 21>> >>
XHyp(p) == IF CIsInfC(p) THEN PInf ELSE IF IsNaN(p[1]) \/ IsNaN(p[2]) THEN NaN ELSE ModP(<<Num(p[1]), Num(p[2])>>)
\* Sqrt of the square of a Gaussian integer r = (a, b) with a >= 0 (and b >= 0 when a = 0): "the
\* result r is chosen so that real(r) >= 0 and imag(r) has the same sign as imag(x)"
SqRoots == << <<3, 4>>, <<2, -1>>, <<0, 3>>, <<5, 0>>, <<1, 1>>, <<4, -3>>, <<0, 0>>, <<2, 3>>, <<1, -4>>, <<0, 1>>, <<6, -1>>,
              <<1, -1>>, <<3, -3>>, <<2, 2>> >>

(********************************* the cases *********************************)
XFns == {"CAbs", "CCount", "CFind", "CDist1", "CDistInf", "CDist2", "CDistL3", "CNorm1", "CNormInf", "CNormL3",
         "CEqualSame", "CEqualApprox", "CReverse", "CSpan", "CSpanEnds", "CSpanEndsFin", "CLogSpan", "CLogSpanZ",
         "CMaxAbsV", "CMinAbsV", "CNearestIdx", "EqualApprox", "LogSpan", "LogSpanZ", "LogSumExp", "SumComp",
         "NormL3", "DistL3", "NISpanInf", "NISpan2", "EqualLens", "Panics",
         "KScalIncTo", "KAxpyIncTo", "KCScalIncTo", "KCAxpyIncTo", "KLinfDist", "M32"}

\* nearest element of a complex slice: squared distances of Gaussian integers; the lowest index
\* among the minimisers is pinned when all minimisers have the same |re|, |im| (then their
\* floating-point distances are identical); otherwise rounding may separate a mathematical tie
\* and every minimiser is accepted
CNearAllowed(z, q) ==
  LET ok == {i \in 1..Len(z) : CIsFin(z[i])}
      d2(i) == N2(CSub2(<<Num(z[i][1]), Num(z[i][2])>>, q))
      mins == {i \in ok : \A j \in ok : d2(i) <= d2(j)}
      shape(i) == LET d == CSub2(<<Num(z[i][1]), Num(z[i][2])>>, q) IN {AbsIx(d[1]), AbsIx(d[2])}
  IN IF ok = {} THEN 1..Len(z)
     ELSE IF \A i, j \in mins : shape(i) = shape(j) THEN {Least(mins)} ELSE mins

\* first index of the largest / smallest modulus among the non-NaN elements (an infinite
\* component makes the modulus +Inf); every index if all elements are NaN
XN2(p) == IF CIsInfC(p) THEN 2000000000 ELSE N2(<<Num(p[1]), Num(p[2])>>)
CMaxAbsAllowed(z) == LET ok == {i \in 1..Len(z) : ~CIsNaNC(z[i])} IN
                     IF ok = {} THEN 1..Len(z) ELSE {Least({i \in ok : \A j \in ok : XN2(z[j]) <= XN2(z[i])})}
CMinAbsAllowed(z) == LET ok == {i \in 1..Len(z) : ~CIsNaNC(z[i])} IN
                     IF ok = {} THEN 1..Len(z) ELSE {Least({i \in ok : \A j \in ok : XN2(z[i]) <= XN2(z[j])})}
CNaNPrefix(z, k) == [i \in 1..Len(z) |-> IF i <= k THEN <<NaN, 1>> ELSE z[i]]
CIdxData(n, v) == IF v % 7 = 5 THEN CNaNPrefix(CVecS(n, v), (n + 1) \div 2)
                  ELSE IF v % 7 = 6 THEN CNaNPrefix(CVecS(n, v), n) ELSE CVecS(n, v)

XCase(f, n, v) ==
  LET B0 == XBase(f, n, v) IN
  CASE f = "CAbs" ->
         LET z == CInj(PVec(n, v), PosX(n, v), CKind(v)) IN
         [B0 EXCEPT !.x = XFlat(z), !.w = [i \in 1..n |-> XModP(z[i])], !.tol = 4]
    [] f = "CCount" ->
         LET z == CVecS(n, v) IN [B0 EXCEPT !.x = XFlat(z), !.k = Cardinality(Sat(z, CIsPosRe))]
    [] f = "CFind" ->
         LET z == CVecS(n, v)
             kk == Pick(<<-1, 0, 1, 2, 3, n, n + 1, 5>>, v + n)
             r == FindS(z, CIsPosRe, kk)
         IN [B0 EXCEPT !.x = XFlat(z), !.k = kk, !.iw = r.inds, !.b = r.err]
    \* ---- Distance(s, t, L) = L-norm of s - t ; t = s + d with Pythagorean d
    [] f = "CDist1" ->
         LET s0 == CVec(n, 5, 2, v)  d == PVec(n, v)  t0 == Map2(CAdd2, s0, d)
             sp == Pick(<<KEEPP, <<NaN, 1>>, <<PInf, 0>>, KEEPP, <<2, NInf>>, KEEPP>>, v)
             ss == CInj(s0, PosX(n, v), sp)
         IN [B0 EXCEPT !.x = XFlat(ss), !.y = XFlat(t0), !.tol = n + 4,
               !.s = IF n = 0 \/ sp = KEEPP THEN SumI([i \in 1..n |-> ModP(d[i])])
                     ELSE IF CIsNaNC(sp) THEN NaN ELSE PInf]
    [] f = "CDistInf" ->
         LET s0 == CVec(n, 5, 2, v)  d == PVec(n, v)  t0 == Map2(CAdd2, s0, d)
             sp == Pick(<<KEEPP, <<NaN, 1>>, <<PInf, 0>>, KEEPP, <<2, NInf>>, KEEPP>>, v)
             ss == CInj(s0, PosX(n, v), sp)
             rest == {ModP(d[i]) : i \in (1..n) \ {PosX(n, v)}} \cup {0}
         IN [B0 EXCEPT !.x = XFlat(ss), !.y = XFlat(t0), !.tol = 4,
               !.s = IF n = 0 THEN 0
                     ELSE IF sp = KEEPP THEN MaxOf({ModP(d[i]) : i \in 1..n})
                     ELSE IF CIsNaNC(sp) THEN NaN ELSE PInf,
               \* a NaN difference: math.Max semantics (NaN) or "skip NaN" (the largest other entry)
               !.alt = IF n > 0 /\ CIsNaNC(sp) THEN MaxOf(rest) ELSE KEEP]
    [] f = "CDist2" ->
         IF n = 0 THEN [B0 EXCEPT !.s = 0]
         ELSE IF ~HasSqSol(2 * n) THEN XSkip(f, n, v)
         ELSE LET s0 == CVec(n, 5, 2, v)  d == CSqVec(n, v)  t0 == Map2(CAdd2, s0, d)
                  sp == Pick(<<KEEP, KEEP, NaN, KEEP, PInf, KEEP, KEEP, NInf>>, v)
                  ss == IF sp = KEEP THEN s0 ELSE [s0 EXCEPT ![PosX(n, v)] = <<sp, s0[PosX(n, v)][2]>>]
                  \* every fourth variant carries one more element with s = t (a zero difference adds nothing)
                  same == IF v % 4 = 3 THEN << <<D(n, 3, 2, v), D(n, 5, 1, v)>> >> ELSE <<>>
              IN [B0 EXCEPT !.x = XFlat(ss \o same), !.y = XFlat(t0 \o same), !.e = ExpOf(v), !.e32 = ExpOf32(v), !.tol = 2 * n + 8,
                    !.s = IF sp = KEEP THEN SqRoot(2 * n) ELSE IF sp = NaN THEN NaN ELSE PInf]
    [] f = "CDistL3" ->
         IF n < 3 THEN XSkip(f, n, v) ELSE
         LET s0 == CVec(n, 5, 2, v)  d == CBlockVec(n, v) IN
         [B0 EXCEPT !.x = XFlat(s0), !.y = XFlat(Map2(CAdd2, s0, d)), !.a = 3, !.s = BlockRoot(n, v), !.tol = 16]
    \* ---- Norm(s, L)
    [] f = "CNorm1" ->
         LET z0 == PVec(n, v)
             sp == Pick(<<KEEPP, KEEPP, <<1, NaN>>, KEEPP, <<NInf, 0>>, KEEPP>>, v)
             z == CInj(z0, PosX(n, v), sp)
         IN [B0 EXCEPT !.x = XFlat(z), !.tol = n + 4,
               !.s = IF n = 0 \/ sp = KEEPP THEN SumI([i \in 1..n |-> ModP(z0[i])]) ELSE IF CIsNaNC(sp) THEN NaN ELSE PInf]
    [] f = "CNormInf" ->
         LET z0 == PVec(n, v)
             sp == Pick(<<KEEPP, KEEPP, <<1, NaN>>, KEEPP, <<NInf, 0>>, KEEPP>>, v)
             z == CInj(z0, PosX(n, v), sp)
             rest == {ModP(z0[i]) : i \in (1..n) \ {PosX(n, v)}} \cup {0}
         IN [B0 EXCEPT !.x = XFlat(z), !.tol = 4,
               !.s = IF n = 0 THEN 0 ELSE IF sp = KEEPP THEN MaxOf({ModP(z0[i]) : i \in 1..n})
                     ELSE IF CIsNaNC(sp) THEN NaN ELSE PInf,
               !.alt = IF n > 0 /\ CIsNaNC(sp) THEN MaxOf(rest) ELSE KEEP]
    [] f = "CNormL3" ->
         IF n < 3 THEN XSkip(f, n, v) ELSE
         [B0 EXCEPT !.x = XFlat(CBlockVec(n, v)), !.a = 3, !.s = BlockRoot(n, v), !.tol = 16]
    \* ---- Equal / Same / HasNaN / EqualFunc(CReEq) / EqualLengths ; bb = <<Equal, Same, HasNaN, EqualFunc>>
    [] f = "CEqualSame" ->
         LET z == CIdxData(n, v)
             u0 == CASE v % 4 = 0 -> z
                     [] v % 4 = 1 -> CInj(z, PosY(n, v), <<9, 9>>)
                     [] v % 4 = 2 -> [i \in 1..n |-> <<IF z[i][1] = 0 THEN NZero ELSE IF z[i][1] = NZero THEN 0 ELSE z[i][1], z[i][2]>>]
                     [] OTHER -> [i \in 1..n |-> IF CIsNaNC(z[i]) THEN <<2, NaN>> ELSE z[i]]
             short == v % 5 = 4 /\ n > 0
             u == IF short THEN SubSeq(u0, 1, n - 1) ELSE u0
             all(P(_, _)) == ~short /\ \A i \in 1..n : P(z[i], u[i])
         IN [B0 EXCEPT !.x = XFlat(z), !.y = XFlat(u), !.k = IF short THEN 0 ELSE 1,
               !.bb = << all(CEqX), all(LAMBDA p, q : CEqX(p, q) \/ (CIsNaNC(p) /\ CIsNaNC(q))),
                         \E i \in 1..n : CIsNaNC(z[i]), all(CReEq) >>]
    [] f = "CEqualApprox" ->
         LET a0 == CVec(n, 3, 1, v)  b0 == [p \in 1..n |-> CAdd2(a0[p], ApxDelta(p, v))]  T == ApxTol(v)
             sp == Pick(<<KEEPP, KEEPP, <<NaN, 1>>, KEEPP, <<PInf, 2>>, KEEPP, KEEPP>>, v)
             ver == [p \in 1..n |-> IF sp # KEEPP /\ p = PosX(n, v) THEN (IF CIsNaNC(sp) THEN "F" ELSE "T")
                                    ELSE ApxElem(a0[p], b0[p], T)]
             \* k = 0: the second slice is one element shorter ("equal lengths and ..." fails)
             short == v % 5 = 4 /\ n > 0
             yb == CInj(b0, PosX(n, v), sp)
         IN [B0 EXCEPT !.x = XFlat(CInj(a0, PosX(n, v), sp)), !.y = XFlat(IF short THEN SubSeq(yb, 1, n - 1) ELSE yb), !.a = T,
               !.k = IF short THEN 0 ELSE 1,
               !.b = ~short /\ \A p \in 1..n : ver[p] = "T",
               !.open = ~short /\ (\A p \in 1..n : ver[p] # "F") /\ (\E p \in 1..n : ver[p] = "O")]
    [] f = "CReverse" ->
         LET z == CVecS(n, v) IN [B0 EXCEPT !.x = XFlat(z), !.w = XFlat([i \in 1..n |-> z[n + 1 - i]])]
    \* ---- Span: l + i*step exactly on Gaussian integers; endpoints l and u
    [] f = "CSpan" ->
         IF n < 2 THEN XSkip(f, n, v) ELSE
         LET l == <<2 * D(n, 3, 1, v), D(n, 5, 2, v)>>
             st == Pick(<< <<1, 0>>, <<-2, 1>>, <<0, 3>>, <<0, 0>>, <<-1, -1>>, <<2, -2>> >>, v + n)
             pt(i) == <<l[1] + (i - 1) * st[1], l[2] + (i - 1) * st[2]>>
         IN [B0 EXCEPT !.x = XFlat(<<l, pt(n)>>), !.w = XFlat([i \in 1..n |-> pt(i)])]
    \* special endpoints: only the documented endpoint clause, by class (a complex NaN / infinity
    \* has no unique representation: any value of the same class is "l")
    [] f = "CSpanEnds" ->
         IF n < 2 THEN XSkip(f, n, v) ELSE
         LET l == Pick(<< <<NaN, 0>>, <<PInf, 1>>, <<0, NInf>>, <<1, 2>>, <<NaN, NaN>>, <<-2, 1>>, <<NInf, NInf>> >>, v)
             u == IF CIsFin(l) THEN Pick(<< <<NaN, 1>>, <<PInf, 0>>, <<2, NInf>> >>, v + n)
                  ELSE Pick(<< <<2, -1>>, <<NInf, 0>>, <<NaN, 2>>, <<0, PInf>>, <<3, 3>> >>, v + n)
         IN [B0 EXCEPT !.x = XFlat(<<l, u>>), !.cls = <<Cls(l), Cls(u)>>]
    \* finite endpoints whose step is not representable: the endpoints are still documented
    [] f = "CSpanEndsFin" ->
         IF n < 2 THEN XSkip(f, n, v) ELSE
         [B0 EXCEPT !.x = <<3 * D(n, 3, 1, v) + 1, D(n, 4, 4, v), 5 * D(n, 5, 2, v + 1) - 2, 2 * D(n, 3, 5, v) + 1>>]
    \* ---- LogSpan: exponents of the powers of two; ex = expected exponents, tol = 9 K + 8
    [] f \in {"CLogSpan", "LogSpan"} ->
         IF n < 2 THEN XSkip(f, n, v) ELSE
         [B0 EXCEPT !.ex = LsExps(n, v), !.tol = 9 * LsK(n, v) + 8]
    [] f \in {"CLogSpanZ", "LogSpanZ"} ->
         IF n < 2 THEN XSkip(f, n, v) ELSE
         LET pr == Pick(LzPairs, v)  l == pr[1]  u == pr[2]
             \* a complex number is not "negative": the NaN clause is only read for floats
             skipc == f = "CLogSpanZ" /\ (l < 0 \/ u < 0)
         IN IF skipc THEN XSkip(f, n, v)
            ELSE [B0 EXCEPT !.a = l, !.k = u, !.allow = [i \in 1..n |-> Asc(LzAllowed(l, u, i, n))]]
    \* ---- MaxAbs / MinAbs (values) and their indices with NaN entries
    [] f = "CMaxAbsV" -> IF n = 0 THEN XSkip(f, n, v) ELSE
         LET z == CIdxData(n, v) IN [B0 EXCEPT !.x = XFlat(z), !.allow = Asc(CMaxAbsAllowed(z))]
    [] f = "CMinAbsV" -> IF n = 0 THEN XSkip(f, n, v) ELSE
         LET z == CIdxData(n, v) IN [B0 EXCEPT !.x = XFlat(z), !.allow = Asc(CMinAbsAllowed(z))]
    [] f = "CNearestIdx" -> IF n = 0 THEN XSkip(f, n, v) ELSE
         LET z == CIdxData(n, v)
             q == Pick(<< <<0, 0>>, <<1, -2>>, <<3, 4>>, <<PInf, 0>>, <<NaN, 1>>, <<-4, 1>>, <<2, 2>>, <<0, NInf>>, <<-1, -1>>, <<5, 0>> >>, v + n)
         IN [B0 EXCEPT !.x = XFlat(z), !.a = q[1], !.ai = q[2],
               !.allow = Asc(IF CIsNaNC(q) THEN 1..n
                             \* infinitely far from everything: the tie rule (lowest comparable index)
                             \* or the element of largest modulus, as implemented
                             ELSE IF CIsInfC(q) THEN CMaxAbsAllowed(z) \cup
                                    (LET ok == {i \in 1..n : ~CIsNaNC(z[i])} IN IF ok = {} THEN {} ELSE {Least(ok)})
                             ELSE CNearAllowed(z, q))]
    \* ---- floats
    [] f = "EqualApprox" ->
         LET a0 == Vec(n, 3, 1, v)  dl == [p \in 1..n |-> ApxDelta(p, v)[1] + ApxDelta(p + 1, v)[2]]
             b0 == [p \in 1..n |-> a0[p] + dl[p]]  T == ApxTol(v)
             sp == Pick(<<KEEP, KEEP, NaN, KEEP, PInf, KEEP, NInf>>, v)
             xa == Inj(a0, PosX(n, v), sp)   xb == Inj(b0, PosX(n, v), sp)
             \* 4|a-b| <= T  or  4|a-b| <= T max(|a|,|b|)   (all quantities exact in floating point)
             ok(p) == IF sp # KEEP /\ p = PosX(n, v) THEN sp # NaN
                      ELSE LET d == AbsIx(dl[p]) IN d = 0 \/ 4 * d <= T \/ 4 * d <= T * MaxI(AbsIx(a0[p]), AbsIx(b0[p]))
             \* k = 0: the second slice is one element shorter; "equal lengths and ..." fails for
             \* Equal, Same, EqualApprox, EqualFunc and EqualLengths alike
             short == v % 5 = 4 /\ n > 0
         IN [B0 EXCEPT !.x = xa, !.y = IF short THEN SubSeq(xb, 1, n - 1) ELSE xb, !.a = T, !.k = IF short THEN 0 ELSE 1,
               !.b = ~short /\ \A p \in 1..n : ok(p),
               \* EqualFunc with FAbsEq
               !.bb = << ~short /\ \A p \in 1..n : FAbsEq(xa[p], xb[p]) >>]
    [] f = "LogSumExp" -> IF n = 0 THEN XSkip(f, n, v) ELSE
         LET x0 == Vec(n, 3, 1, v)  kind == v % 6  pos == PosX(n, v)
             sh == Pick(<<5, -3, 40, -17, 1, 700>>, v + n) IN
         CASE kind = 0 -> \* shift invariance: LSE(x + c) - LSE(x) = c ; m bounds both values
                          [B0 EXCEPT !.g = "shift", !.x = x0, !.y = [p \in 1..n |-> x0[p] + sh], !.a = sh,
                             !.tol = 4, !.m = 3 + AbsIx(sh) + 8]
           [] kind = 1 -> \* one finite element among -Inf: the value itself
                          [B0 EXCEPT !.g = "value", !.x = [p \in 1..n |-> IF p = pos THEN 7 * x0[p] ELSE NInf],
                             !.s = 7 * x0[pos], !.tol = 4]
           [] kind = 2 -> [B0 EXCEPT !.g = "class", !.x = [p \in 1..n |-> NInf], !.s = NInf]
           [] kind = 3 -> [B0 EXCEPT !.g = "class", !.x = Inj(Inj(x0, PosY(n, v), NInf), pos, PInf), !.s = PInf]
           [] kind = 4 -> [B0 EXCEPT !.g = "class", !.x = Inj(x0, pos, NaN), !.s = NaN]
           [] OTHER    -> IF n < 2 THEN XSkip(f, n, v) ELSE
                          [B0 EXCEPT !.g = "class", !.x = Inj(Inj(x0, D1(n, v), NaN), D2(n, v), PInf), !.s = NaN, !.alt = PInf]
    \* SumCompensated: exact on integer data; on the cancellation pattern  .. +2^100 .. -2^100 ..
    \* the plain left-to-right sum loses every small term met before -2^100 (each is below half an
    \* ulp of 2^100): its error is m = |sum of those|.  "Greater accuracy than Sum": the error must
    \* be smaller than m (equal to the exact sum s if m = 0).
    [] f = "SumComp" ->
         LET x0 == Vec(n, 3, 1, v) IN
         IF v % 2 = 0 \/ n < 3 THEN [B0 EXCEPT !.x = x0, !.ex = [p \in 1..n |-> 0], !.s = SumI(x0), !.m = 0]
         ELSE LET pb == D1(n, v)  pn == D2(n, v)
                  xs == [p \in 1..n |-> IF p = pb THEN 1 ELSE IF p = pn THEN -1 ELSE x0[p]]
                  es == [p \in 1..n |-> IF p = pb \/ p = pn THEN 100 ELSE 0]
                  small == [p \in 1..n |-> IF p = pb \/ p = pn THEN 0 ELSE x0[p]]
              IN [B0 EXCEPT !.x = xs, !.ex = es, !.s = SumI(small),
                    !.m = AbsIx(SumI([p \in 1..n |-> IF p < pn THEN small[p] ELSE 0]))]
    [] f = "NormL3" -> IF n < 3 THEN XSkip(f, n, v) ELSE
         [B0 EXCEPT !.x = BlockVec(n, v), !.a = 3, !.s = BlockRoot(n, v), !.tol = 16]
    [] f = "DistL3" -> IF n < 3 THEN XSkip(f, n, v) ELSE
         LET y0 == Vec(n, 5, 2, v) IN
         [B0 EXCEPT !.x = AddV(y0, BlockVec(n, v)), !.y = y0, !.a = 3, !.s = BlockRoot(n, v), !.tol = 16]
    \* NearestIdxForSpan on finite spans with v = +-Inf / NaN
    [] f = "NISpanInf" -> IF n < 2 THEN XSkip(f, n, v) ELSE
         LET l == 2 * D(n, 3, 1, v)   st == Pick(<<2, -2, 0, 4, -4>>, v + n)
             u == l + (n - 1) * st    q == Pick(<<PInf, NInf, NaN>>, v)
         IN [B0 EXCEPT !.a = l, !.k = u, !.s = q,
               !.allow = Asc(IF IsNaN(q) THEN 1..n ELSE NearestSet(SpanS(n, l, u), q))]
    \* n = 2 with special endpoints: every (l, u, v) of the grid ; the length field enumerates the grid
    [] f = "NISpan2" ->
         LET nv == Len(Sp2Vals)
             l == Sp2Vals[(n % nv) + 1]  u == Sp2Vals[((n \div nv) % nv) + 1]  q == Sp2Vals[(v % nv) + 1]
         IN IF n >= nv * nv \/ v >= nv THEN XSkip(f, n, v)
            ELSE [B0 EXCEPT !.a = l, !.k = u, !.s = q, !.allow = Asc(Span2Allowed(l, u, q))]
    \* EqualLengths of up to three slices (also none): lens = the lengths, b = all equal
    [] f = "EqualLens" ->
         LET cnt == v % 4   ls == SubSeq(<<n % 4, (n \div 4) % 4, (n \div 16) % 4>>, 1, cnt) IN
         IF n >= 64 \/ v >= 4 THEN XSkip(f, n, v)
         ELSE [B0 EXCEPT !.lens = ls, !.b = \A i, j \in 1..cnt : ls[i] = ls[j]]
    \* documented panics: lens = argument lengths (0..3 each), g = function, b = must panic
    [] f = "Panics" ->
         IF n >= 64 \/ v >= NPanic THEN XSkip(f, n, v) ELSE
         LET row == PanicTab[v + 1]  ls == <<n % 4, (n \div 4) % 4, (n \div 16) % 4>>
             arity == CASE row[2] = "eq3" -> 3 [] row[2] = "eq2" -> 2 [] OTHER -> 1 IN
         \* lengths beyond the arity are irrelevant: enumerate them only at 0
         IF (arity < 3 /\ ls[3] # 0) \/ (arity < 2 /\ ls[2] # 0) \/ (row[2] = "unsorted" /\ ls[1] < 2) THEN XSkip(f, n, v)
         ELSE [B0 EXCEPT !.g = row[1], !.cls = <<row[2]>>, !.lens = ls, !.b = MustPanic(row[2], ls)]
    \* ---- kernels without an exported caller (called directly, real and complex)
    \* ScalIncTo:  dst[i*incDst] = alpha * x[i*incX]
    [] f = "KScalIncTo" ->
         LET xf == XData(n, v)  a == Alpha(v)  ix == PInc(v, 1)  id == PInc(v, 2) IN
         [B0 EXCEPT !.a = a, !.incx = ix, !.incd = id, !.x = Lay(xf, ix, Guard),
            !.y = GuardArr(BackLen(n, id)), !.w = Lay(ScaleV(a, xf), id, Guard)]
    \* AxpyIncTo:  dst[idst + i*incDst] = alpha*x[ix + i*incX] + y[iy + i*incY]
    [] f = "KAxpyIncTo" ->
         LET xf == XData(n, v)  yf == YData(n, v)  a == Alpha(v)
             ix == PInc(v, 1)  iy == PInc(v, 2)  id == PInc(v, 3)
             ox == OffOf(v, 1)  oy == OffOf(v, 2)  od == OffOf(v, 3) IN
         [B0 EXCEPT !.a = a, !.incx = ix, !.incy = iy, !.incd = id, !.offs = <<ox, oy, od>>,
            !.x = LayOff(xf, ix, ox, Guard), !.y = LayOff(yf, iy, oy, Guard),
            !.w = LayOff(AxpyV(a, xf, yf), id, od, Guard)]
    [] f = "KCScalIncTo" ->
         LET xf == CVec(n, 3, 1, v)  a == CAlpha(v)  ix == PInc(v, 1)  id == PInc(v, 2) IN
         [B0 EXCEPT !.a = a[1], !.ai = a[2], !.incx = ix, !.incd = id, !.x = Flat(Lay(xf, ix, CGuard)),
            !.y = Flat([p \in 1..BackLen(n, id) |-> CGuard]),
            !.w = Flat(Lay([i \in 1..n |-> CMul2(a, xf[i])], id, CGuard))]
    [] f = "KCAxpyIncTo" ->
         LET xf == CVec(n, 3, 1, v)  yf == CVec(n, 5, 2, v)  a == CAlpha(v)
             ix == PInc(v, 1)  iy == PInc(v, 2)  id == PInc(v, 3)
             ox == OffOf(v, 1)  oy == OffOf(v, 2)  od == OffOf(v, 3) IN
         [B0 EXCEPT !.a = a[1], !.ai = a[2], !.incx = ix, !.incy = iy, !.incd = id, !.offs = <<ox, oy, od>>,
            !.x = Flat(LayOff(xf, ix, ox, CGuard)), !.y = Flat(LayOff(yf, iy, oy, CGuard)),
            !.w = Flat(LayOff([i \in 1..n |-> CAdd2(yf[i], CMul2(a, xf[i]))], id, od, CGuard))]
    \* LinfDist: the documented loop, on data with one special (v < 16: XData / YData) or an
    \* ordered pair of specials at two swept positions
    [] f = "KLinfDist" ->
         LET pair == n >= 2 /\ v % 2 = 1
             s0 == IF pair THEN PairXX(Vec(n, 3, 1, v), n, v) ELSE XData(n, v)
             t0 == IF pair THEN PairYY(Vec(n, 5, 2, v), n, v) ELSE YData(n, v)
         IN [B0 EXCEPT !.x = s0, !.y = t0, !.s = LinfLoop(s0, t0)]
    \* internal/math32 and internal/cmplx64: the length field enumerates the argument grid
    [] f = "M32" ->
         LET nv == Len(M32Vals)  a == M32Vals[(n % nv) + 1]  b == M32Vals[((n \div nv) % nv) + 1]  g9 == n < nv * nv IN
         CASE v = 0 /\ g9 /\ ~IsNaN(b) -> [B0 EXCEPT !.g = "math32.Copysign", !.x = <<a, b>>, !.s = IF IsNaN(a) THEN NaN ELSE Signed(Neg1(b), XAbs(a))]
           [] v = 1 /\ g9 -> [B0 EXCEPT !.g = "math32.Max", !.x = <<a, b>>, !.s = XMax(a, b)]
           [] v = 2 /\ g9 -> [B0 EXCEPT !.g = "math32.Min", !.x = <<a, b>>, !.s = XMin(a, b)]
           [] v = 3 /\ n < nv /\ ~IsNaN(a) -> [B0 EXCEPT !.g = "math32.Signbit", !.x = <<a>>, !.b = Neg1(a)]
           [] v = 4 /\ n < Len(HypPairs) -> [B0 EXCEPT !.g = "math32.Hypot", !.x = HypPairs[n + 1], !.s = XHyp(HypPairs[n + 1]), !.tol = 4]
           [] v = 5 /\ n < Len(HypPairs) /\ ~(CIsInfC(HypPairs[n + 1]) /\ (IsNaN(HypPairs[n + 1][1]) \/ IsNaN(HypPairs[n + 1][2]))) ->
                       [B0 EXCEPT !.g = "cmplx64.Abs", !.x = HypPairs[n + 1], !.s = XHyp(HypPairs[n + 1]), !.tol = 4]
           [] v = 6 /\ g9 -> [B0 EXCEPT !.g = "cmplx64.IsInf", !.x = <<a, b>>, !.b = CIsInfC(<<a, b>>)]
           [] v = 7 /\ g9 -> [B0 EXCEPT !.g = "cmplx64.IsNaN", !.x = <<a, b>>, !.b = CIsNaNC(<<a, b>>)]
           [] v = 8 /\ n = 0 -> [B0 EXCEPT !.g = "cmplx64.Inf", !.w = <<PInf, PInf>>]
           [] v = 9 /\ n = 0 -> [B0 EXCEPT !.g = "cmplx64.NaN", !.w = <<NaN, NaN>>]
           [] v = 10 /\ n < Len(SqRoots) ->
                       LET r == SqRoots[n + 1]  sq == CMul2(r, r) IN
                       [B0 EXCEPT !.g = "cmplx64.Sqrt", !.x = sq, !.w = r, !.tol = 6, !.m = AbsIx(r[1]) + AbsIx(r[2])]
           [] OTHER -> XSkip(f, n, v)

XEmit == LET r == XCase(c.f, c.n, c.v) IN
         r.skip \/ ( /\ \A i \in 1..Len(r.w) : IsVal(r.w[i])
                     /\ \A i \in 1..Len(r.x) : IsVal(r.x[i])
                     /\ \A i \in 1..Len(r.y) : IsVal(r.y[i])
                     /\ IsVal(r.s)
                     /\ PrintT(ToJson(r)) )

(************************ lemmas about these definitions (R1) ***************)
\* every pair of PT, every block pair and every Hypot argument has an integer modulus
ASSUME \A i \in 1..Len(PT) : HasIsqrt(N2(PT[i]))
ASSUME \A m \in {3, 4, 5} : \A p \in 0..5 : N2(BPair(m, p)) = m * m
ASSUME \A i \in 1..Len(HypPairs) : CIsFin(HypPairs[i]) => HasIsqrt(N2(<<Num(HypPairs[i][1]), Num(HypPairs[i][2])>>))
\* the cube identities behind the general-L cases
ASSUME 3 * 3 * 3 + 4 * 4 * 4 + 5 * 5 * 5 = 6 * 6 * 6 /\ 8 * (6 * 6 * 6) = 12 * 12 * 12
ASSUME \A n \in 3..40 : \A v \in 0..5 : SumI([p \in 1..n |-> LET m == AbsIx(BlockVec(n, v)[p]) IN m * m * m]) = LET r == BlockRoot(n, v) IN r * r * r
\* on NaN-free data the documented LinfDist loop is the maximum absolute difference
ASSUME \A s, t \in [1..3 -> {-2, 0, 3, PInf}] : LinfLoop(s, t) = MaxAbsS(SubV(t, s)) \/ \E i \in 1..3 : IsNaN(XSub(t[i], s[i]))
\* ... and a NaN is never the result unless every difference is NaN (the loop replaces a NaN norm)
ASSUME \A s \in [1..3 -> {-2, NaN, 3}] : LET t == <<1, 1, 1>> IN IsNaN(LinfLoop(s, t)) <=> \A i \in 1..3 : IsNaN(s[i])
\* the approximate-equality verdict is monotone in the tolerance and never "F" on equal operands
ApxOps == {<<0, 0>>, <<1, 0>>, <<3, 4>>, <<-2, 2>>, <<0, -5>>}
ASSUME \A a, b \in ApxOps : \A T \in {0, 1, 2, 4, 8, 20} :
         /\ (a = b => ApxElem(a, b, T) = "T")
         /\ ApxElem(a, b, T) = ApxElem(b, a, T)
         /\ (ApxElem(a, b, T) = "T" => \A T2 \in {T + 1, 2 * T + 1} : ApxElem(a, b, T2) = "T")
\* LogSpan exponents form an arithmetic progression from a to the exponent of u
ASSUME \A n \in 2..20 : \A v \in 0..6 : LsExps(n, v)[1] = LsA(n, v) /\ \A i \in 2..n : LsExps(n, v)[i] - LsExps(n, v)[i-1] = LsStep(n, v)
\* the square roots are the ones the documentation selects
ASSUME \A i \in 1..Len(SqRoots) : SqRoots[i][1] >= 0 /\ (SqRoots[i][1] = 0 => SqRoots[i][2] >= 0)
\* Max/Min laws
ASSUME \A a, b \in {-3, 0, NZero, 2, PInf, NInf, NaN} : XMax(a, b) = XMax(b, a) /\ XMin(a, b) = XMin(b, a) /\ XMax(a, a) = a
=============================================================================
