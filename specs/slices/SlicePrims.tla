----------------------------- MODULE SlicePrims -----------------------------
(* Reference semantics of gonum's slice primitives (floats, the f64/f32       *)
(* kernels behind them and behind BLAS level 1) as their SCALAR-LOOP          *)
(* DEFINITIONS over sequences of extended integers                            *)
(*        Int  \cup  {NaN, PInf, NInf, NZero}                                 *)
(* with the IEEE-754 arithmetic tables for the special values written out as  *)
(* operators.  On such data every float operation any implementation can      *)
(* perform is exact, so the value the real code must return is unique and is  *)
(* what this module prints.                                                   *)
(*   R2  Init ranges over  Fns x lengths x variants ; the invariant Emit      *)
(*       prints one JSON case (operands and expected result) per state.       *)
(*   R1  the theorems at the end (checked as invariants on every case).       *)
(* The Euclidean norm is specified on (m, e) pairs meaning m * 2^e: the data  *)
(* are integer tuples whose sum of squares is a perfect square r^2, so that   *)
(* the exact norm is r * 2^e.                                                 *)
EXTENDS Integers, Sequences, FiniteSets, TLC, Json

CONSTANTS Fns,     \* set of function names to enumerate
          NMin, NMax, \* lengths
          NVar,    \* number of data variants per (function, length)
          Seed     \* data salt (VERIF_SEED)

VARIABLE c         \* the current case  [f, n, v]

(************************* extended integers ********************************)
NaN   == 1000000001
PInf  == 1000000002
NInf  == 1000000003
NZero == 1000000004
KEEP  == 1000000009      \* "inject nothing" marker, never a value

IsNaN(a)  == a = NaN
IsInf(a)  == a = PInf \/ a = NInf
IsZero(a) == a = 0 \/ a = NZero
Neg1(a)   == a = NInf \/ a = NZero \/ (a < 0)          \* sign bit (a # NaN)
Num(a)    == CASE a = NZero -> 0 [] a = PInf -> 2000000000 [] a = NInf -> -2000000000 [] OTHER -> a
Signed(neg, mag) == IF neg THEN (CASE mag = 0 -> NZero [] mag = PInf -> NInf [] OTHER -> -mag) ELSE mag

XNeg(a) == CASE a = NaN -> NaN [] a = PInf -> NInf [] a = NInf -> PInf
             [] a = NZero -> 0 [] a = 0 -> NZero [] OTHER -> -a
XAbs(a) == CASE a = NaN -> NaN [] a = NInf -> PInf [] a = NZero -> 0 [] a = PInf -> PInf
             [] OTHER -> IF a < 0 THEN -a ELSE a
XAdd(a, b) ==
  IF IsNaN(a) \/ IsNaN(b) THEN NaN
  ELSE IF IsInf(a) THEN (IF IsInf(b) /\ a # b THEN NaN ELSE a)
  ELSE IF IsInf(b) THEN b
  ELSE IF a = NZero THEN b                 \* -0 + -0 = -0 ; -0 + x = x
  ELSE IF b = NZero THEN a
  ELSE a + b                               \* x + (-x) = +0 (round to nearest)
XSub(a, b) == XAdd(a, XNeg(b))
XMul(a, b) ==
  IF IsNaN(a) \/ IsNaN(b) THEN NaN
  ELSE IF IsInf(a) \/ IsInf(b)
       THEN (IF IsZero(a) \/ IsZero(b) THEN NaN ELSE Signed(Neg1(a) # Neg1(b), PInf))
  ELSE IF IsZero(a) \/ IsZero(b) THEN Signed(Neg1(a) # Neg1(b), 0)
  ELSE a * b
\* division is only ever applied by the generator to exactly divisible data
Exact(a, b) == XAbs(a) % XAbs(b) = 0
XDiv(a, b) ==
  IF IsNaN(a) \/ IsNaN(b) THEN NaN
  ELSE IF IsInf(a) THEN (IF IsInf(b) THEN NaN ELSE Signed(Neg1(a) # Neg1(b), PInf))
  ELSE IF IsInf(b) THEN Signed(Neg1(a) # Neg1(b), 0)
  ELSE IF IsZero(b) THEN (IF IsZero(a) THEN NaN ELSE Signed(Neg1(a) # Neg1(b), PInf))
  ELSE IF IsZero(a) THEN Signed(Neg1(a) # Neg1(b), 0)
  ELSE Signed(Neg1(a) # Neg1(b), XAbs(a) \div XAbs(b))
\* IEEE comparisons (false whenever a NaN is involved; -0 = +0)
XLt(a, b) == ~IsNaN(a) /\ ~IsNaN(b) /\ Num(a) < Num(b)
XLe(a, b) == ~IsNaN(a) /\ ~IsNaN(b) /\ Num(a) <= Num(b)
XEq(a, b) == ~IsNaN(a) /\ ~IsNaN(b) /\ Num(a) = Num(b)

(************************** scalar-loop definitions *************************)
Map2(Op(_, _), x, y) == [i \in 1..Len(x) |-> Op(x[i], y[i])]
Map1(Op(_), x)       == [i \in 1..Len(x) |-> Op(x[i])]

\* left fold: acc := z; for i: acc := Op(acc, x[i])
Fold(Op(_, _), z, x) ==
  LET F[i \in 0..Len(x)] == IF i = 0 THEN z ELSE Op(F[i-1], x[i]) IN F[Len(x)]
\* running fold: dst[1] = x[1]; dst[i] = Op(dst[i-1], x[i])
Scan(Op(_, _), x) ==
  LET F[i \in 1..Len(x)] == IF i = 1 THEN x[1] ELSE Op(F[i-1], x[i]) IN [i \in 1..Len(x) |-> F[i]]

AddV(x, y)          == Map2(XAdd, x, y)
SubV(x, y)          == Map2(XSub, x, y)
MulV(x, y)          == Map2(XMul, x, y)
DivV(x, y)          == Map2(XDiv, x, y)
ScaleV(a, x)        == [i \in 1..Len(x) |-> XMul(a, x[i])]
AddConstV(a, x)     == [i \in 1..Len(x) |-> XAdd(x[i], a)]
AxpyV(a, x, y)      == [i \in 1..Len(x) |-> XAdd(y[i], XMul(a, x[i]))]   \* y + a*x
CumSumV(x)          == Scan(XAdd, x)
CumProdV(x)         == Scan(XMul, x)
SumS(x)             == Fold(XAdd, 0, x)
ProdS(x)            == Fold(XMul, 1, x)
DotS(x, y)          == SumS(MulV(x, y))
Norm1S(x)           == SumS(Map1(XAbs, x))
\* "maximum absolute value" (only used on NaN-free data)
MaxAbsS(x)          == Fold(LAMBDA m, a : IF XLt(m, XAbs(a)) THEN XAbs(a) ELSE m, 0, x)

\* first index of the maximum / minimum, NaN entries skipped; 1 if there is no non-NaN entry
NonNaN(x)  == {i \in 1..Len(x) : ~IsNaN(x[i])}
Least(S)   == CHOOSE i \in S : \A j \in S : i <= j
MaxIdxS(x) == IF NonNaN(x) = {} THEN 1
              ELSE Least({i \in NonNaN(x) : \A j \in NonNaN(x) : XLe(x[j], x[i])})
MinIdxS(x) == IF NonNaN(x) = {} THEN 1
              ELSE Least({i \in NonNaN(x) : \A j \in NonNaN(x) : XLe(x[i], x[j])})

\* NearestIdx: the set of indices the documentation allows.
\*   finite v : lowest index among those minimising |v - s[i]| (NaN distances are never nearer);
\*   v = +-Inf: every non-NaN element is infinitely far in IEEE arithmetic, so the documented
\*              "lowest index on ties" gives the first non-NaN index, while the extended-real
\*              reading implemented in the source (and pinned by its tests) gives MaxIdx/MinIdx:
\*              both are accepted;  v = NaN: all distances NaN, nothing documented -> index 1.
DistS(v, a) == XAbs(XSub(v, a))
NearestSet(x, v) ==
  IF IsNaN(v) THEN {1}
  ELSE IF v = PInf THEN {MaxIdxS(x)} \cup (IF \E i \in NonNaN(x) : x[i] = PInf THEN {} ELSE {IF NonNaN(x) = {} THEN 1 ELSE Least(NonNaN(x))})
  ELSE IF v = NInf THEN {MinIdxS(x)} \cup (IF \E i \in NonNaN(x) : x[i] = NInf THEN {} ELSE {IF NonNaN(x) = {} THEN 1 ELSE Least(NonNaN(x))})
  ELSE LET ok == {i \in 1..Len(x) : ~IsNaN(DistS(v, x[i]))} IN
       IF ok = {} THEN {1}
       ELSE {Least({i \in ok : \A j \in ok : XLe(DistS(v, x[i]), DistS(v, x[j]))})}

\* Within: first i with s[i] <= v < s[i+1] (s sorted, no NaN), 0 if none  (1-based; 0 = "-1")
WithinS(x, v) == LET S == {i \in 1..Len(x)-1 : XLe(x[i], v) /\ XLt(v, x[i+1])} IN
                 IF S = {} THEN 0 ELSE Least(S)

\* Find(f, s, k): indices of the first k elements satisfying f, all if k < 0; error iff k > 0 and fewer found
Sat(x, P(_))  == {i \in 1..Len(x) : P(x[i])}
Asc(S)        == [k \in 1..Cardinality(S) |-> CHOOSE i \in S : Cardinality({j \in S : j < i}) = k - 1]
FindS(x, P(_), k) ==
  LET all == Asc(Sat(x, P)) IN
  IF k = 0 THEN [inds |-> <<>>, err |-> FALSE]
  ELSE IF k < 0 THEN [inds |-> all, err |-> FALSE]
  ELSE IF Len(all) >= k THEN [inds |-> SubSeq(all, 1, k), err |-> FALSE]
  ELSE [inds |-> all, err |-> TRUE]

\* Argsort: sorted values and, per output position, the set of original positions that may be
\* reported there (any position holding that value; the outputs must be distinct).  The stable
\* variant pins the k-th occurrence.  NaN-free data only (the order is not defined with NaN).
RankLt(x, i, j) == XLt(x[i], x[j]) \/ (XEq(x[i], x[j]) /\ i < j)
Force(f)        == SubSeq(f, 1, Len(f))      \* TLC: evaluate a lazily represented sequence once
Ranks(x)        == LET n == Len(x) IN Force([i \in 1..n |-> Cardinality({j \in 1..n : RankLt(x, j, i)})])
StablePerm(x)   == LET n == Len(x)  r == Ranks(x) IN Force([k \in 1..n |-> CHOOSE i \in 1..n : r[i] = k - 1])
Sorted(x)       == LET p == StablePerm(x) IN Force([k \in 1..Len(x) |-> x[p[k]]])
ArgAllowed(x)   == LET s == Sorted(x) IN Force([k \in 1..Len(x) |-> Asc({i \in 1..Len(x) : XEq(x[i], s[k])})])

\* Span(n, l, u) on data with (u - l) divisible by (n - 1): l + i*step, endpoints exact
SpanS(n, l, u) == LET step == (u - l) \div (n - 1) IN [i \in 1..n |-> l + (i - 1) * step]
\* NearestIdxForSpan(n, l, u, v) = NearestIdx(Span(n, l, u), v) where the nearest point is
\* unique; on exact half-way points the source disclaims the tie rule: both neighbours allowed.
NearestSpanSet(n, l, u, v) ==
  LET s == SpanS(n, l, u)
      d(i) == XAbs(v - s[i])
  IN {i \in 1..n : \A j \in 1..n : d(i) <= d(j)}

\* BLAS-style strided storage: logical element i (1..n) of a vector with increment inc lives at
\* VecIdx of a backing array of length 1 + (n-1)*|inc| ; negative inc runs backwards.
AbsI(k)            == IF k < 0 THEN -k ELSE k
VecIdx(i, n, inc)  == IF inc > 0 THEN 1 + (i - 1) * inc ELSE 1 + (n - i) * (-inc)
BackLen(n, inc)    == IF n = 0 THEN 0 ELSE 1 + (n - 1) * AbsI(inc)
LayDef(x, inc, guard) == LET n == Len(x) IN
  [p \in 1..BackLen(n, inc) |-> IF \E i \in 1..n : VecIdx(i, n, inc) = p
                                THEN x[CHOOSE i \in 1..n : VecIdx(i, n, inc) = p] ELSE guard]
\* the same array computed by inverting VecIdx (linear time for the generator); SliceAlias.tla
\* checks Lay = LayDef for every n <= 6 and increment +-1..5
Lay(x, inc, guard) == LET n == Len(x)  a == AbsI(inc) IN
  [p \in 1..BackLen(n, inc) |-> IF (p - 1) % a = 0
                                THEN x[IF inc > 0 THEN (p - 1) \div a + 1 ELSE n - (p - 1) \div a] ELSE guard]

(******************************* data ***************************************)
Pick(s, k) == s[(k % Len(s)) + 1]
D(p, a, b, v) == ((p * a + b + Seed + 5 * v) % 7) - 3                  \* -3..3
Vec(n, a, b, v) == [p \in 1..n |-> D(p, a, b, v)]
Inj(x, pos, val) == IF val = KEEP \/ Len(x) = 0 THEN x
                    ELSE [i \in 1..Len(x) |-> IF i = pos THEN val ELSE x[i]]
PosX(n, v) == IF n = 0 THEN 0 ELSE ((Seed + 3 * v + n) % n) + 1
PosY(n, v) == IF n = 0 THEN 0 ELSE ((5 * Seed + 7 * v + 2 * n + 1) % n) + 1
KindX(v) == Pick(<<KEEP, NaN, PInf, NZero, NInf, KEEP, 0, PInf>>, v)
KindY(v) == Pick(<<KEEP, KEEP, NInf, 0, KEEP, NaN, NZero, PInf, KEEP, PInf>>, v)
Alpha(v) == Pick(<<2, -1, 3, 0, -2, 1, NZero, PInf, NaN, -3, NInf>>, v + Seed)
FinAlpha(v) == Pick(<<2, -1, 3, -2, 1, -3>>, v + Seed)

XData(n, v) == Inj(Vec(n, 3, 1, v), PosX(n, v), KindX(v))
YData(n, v) == Inj(Vec(n, 5, 2, v), PosY(n, v), KindY(v))
\* divisors +-1, +-2, +-4 ; dividends multiples of 4
DivY(n, v) == Inj([p \in 1..n |-> Pick(<<1, -2, 4, -1, 2, -4>>, p * 5 + Seed + v)], PosY(n, v), KindY(v))
DivX(n, v) == Inj([p \in 1..n |-> 4 * D(p, 3, 1, v)], PosX(n, v), KindX(v))
\* products stay below 2^31: mostly +-1, a +-2 every sixth position (at most 12 of them)
ProdX(n, v) == Inj([p \in 1..n |-> IF (p + Seed + v) % 6 = 0 THEN Pick(<<2, -2>>, p \div 6 + v)
                                    ELSE Pick(<<1, -1, 1, 1, -1>>, p * 3 + v + Seed)],
                   PosX(n, v), KindX(v))
\* sorted data for Within (non-decreasing, with repeated values; specials only at the ends)
SortedX(n, v) == LET base == [p \in 1..n |-> (p * 2 + ((p + Seed + v) % 3)) \div 2 - 3] IN
                 CASE v % 5 = 3 /\ n > 0 -> [base EXCEPT ![n] = PInf]
                   [] v % 5 = 4 /\ n > 0 -> [base EXCEPT ![1] = NInf]
                   [] OTHER -> base
\* data with at most one NaN / Inf injected, for index helpers
IdxX(n, v) == Inj(Inj(Vec(n, 3, 1, v), PosX(n, v), KindX(v)), PosY(n, v), KindY(v))
\* all-NaN prefix variants exercise "NaN skipped"
NaNPrefix(x, k) == [i \in 1..Len(x) |-> IF i <= k THEN NaN ELSE x[i]]
IdxData(n, v) == IF v % 7 = 5 THEN NaNPrefix(IdxX(n, v), (n + 1) \div 2)
                 ELSE IF v % 7 = 6 THEN NaNPrefix(IdxX(n, v), n) ELSE IdxX(n, v)

\* Euclidean norm data: n nonzero integers in 1..4 (k2 twos, k3 threes, k4 fours, the rest ones)
\* whose sum of squares n + 3 k2 + 8 k3 + 15 k4 is a perfect square r^2.
IsSq(t, r) == r * r = t
RMax(n) == IF n <= 150 THEN 18 ELSE 110
SqSol(n) == CHOOSE s \in (0..6) \X (0..6) \X (0..6) \X (0..RMax(n)) :
              /\ s[1] + s[2] + s[3] <= n
              /\ IsSq(n + 3 * s[1] + 8 * s[2] + 15 * s[3], s[4])
HasSqSol(n) == \E s \in (0..6) \X (0..6) \X (0..6) \X (0..RMax(n)) :
              /\ s[1] + s[2] + s[3] <= n
              /\ IsSq(n + 3 * s[1] + 8 * s[2] + 15 * s[3], s[4])
\* the k-th logical slot (after a salted rotation) holds a 2, 3, 4 or 1; signs by formula
SqVec(n, v) == LET s == SqSol(n)
                   rot(p) == ((p + Seed + 3 * v) % n) + 1
                   mag(q) == IF q <= s[1] THEN 2 ELSE IF q <= s[1] + s[2] THEN 3
                             ELSE IF q <= s[1] + s[2] + s[3] THEN 4 ELSE 1
               IN [p \in 1..n |-> IF (p * 3 + v + Seed) % 4 = 0 THEN -mag(rot(p)) ELSE mag(rot(p))]
SqRoot(n) == IF n = 0 THEN 0 ELSE SqSol(n)[4]
\* exponent encodings (cfg files and JSON stay non-negative: e = Exps[k], emitted as a signed int)
Exps == <<0, 500, 1010, -520, -1040>>
ExpOf(v) == Pick(Exps, v)
Exps32 == <<0, 60, 120, -70, -140>>      \* the same regimes for float32
ExpOf32(v) == Pick(Exps32, v)

Incs == <<1, 2, -1, 3, -2, 4, 5, -3, 1, -5>>
\* every fifth variant has both increments 1 (the unit-stride kernels behind BLAS level 1)
IncX(v) == IF v % 5 = 4 THEN 1 ELSE Pick(Incs, v + Seed)
IncY(v) == IF v % 5 = 4 THEN 1 ELSE Pick(Incs, 3 * v + 1 + Seed)
Guard == 777

(***************************** the cases ************************************)
Empty == <<>>
Base(f, n, v) == [f |-> f, n |-> n, v |-> v, x |-> Empty, y |-> Empty, a |-> 0, ai |-> 0, si |-> 0, k |-> 0,
                  w |-> Empty, s |-> 0, iw |-> Empty, allow |-> Empty, e |-> 0, e32 |-> 0, tol |-> 0, alt |-> KEEP,
                  incx |-> 1, incy |-> 1, b |-> FALSE, skip |-> FALSE, opn |-> Empty, wk |-> Empty]
W2(f, n, v, x, y, w)    == [Base(f, n, v) EXCEPT !.x = x, !.y = y, !.w = w]
W2a(f, n, v, a, x, y, w) == [Base(f, n, v) EXCEPT !.x = x, !.y = y, !.a = a, !.w = w]
S2(f, n, v, x, y, s)    == [Base(f, n, v) EXCEPT !.x = x, !.y = y, !.s = s]
Skip(f, n, v)           == [Base(f, n, v) EXCEPT !.skip = TRUE]

IsPos(a) == XLt(0, a)

RCase(f, n, v) ==
  LET x == XData(n, v)  y == YData(n, v)  a == Alpha(v) IN
  CASE f = "Add"         -> W2(f, n, v, x, y, AddV(x, y))
    [] f = "AddTo"       -> W2(f, n, v, x, y, AddV(x, y))
    [] f = "Sub"         -> W2(f, n, v, x, y, SubV(x, y))
    [] f = "SubTo"       -> W2(f, n, v, x, y, SubV(x, y))
    [] f = "Mul"         -> W2(f, n, v, x, y, MulV(x, y))
    [] f = "MulTo"       -> W2(f, n, v, x, y, MulV(x, y))
    [] f = "Div"         -> W2(f, n, v, DivX(n, v), DivY(n, v), DivV(DivX(n, v), DivY(n, v)))
    [] f = "DivTo"       -> W2(f, n, v, DivX(n, v), DivY(n, v), DivV(DivX(n, v), DivY(n, v)))
    [] f = "AddConst"    -> W2a(f, n, v, a, x, Empty, AddConstV(a, x))
    [] f = "Scale"       -> W2a(f, n, v, a, x, Empty, ScaleV(a, x))
    [] f = "ScaleTo"     -> W2a(f, n, v, a, x, Empty, ScaleV(a, x))
    \* AddScaled(dst = y, alpha, s = x): y + alpha * x
    [] f = "AddScaled"   -> W2a(f, n, v, a, x, y, AxpyV(a, x, y))
    [] f = "AddScaledTo" -> W2a(f, n, v, a, x, y, AxpyV(a, x, y))
    [] f = "CumSum"      -> W2(f, n, v, x, Empty, IF n = 0 THEN Empty ELSE CumSumV(x))
    [] f = "CumProd"     -> W2(f, n, v, ProdX(n, v), Empty, IF n = 0 THEN Empty ELSE CumProdV(ProdX(n, v)))
    [] f = "Sum"         -> S2(f, n, v, x, Empty, SumS(x))
    [] f = "Prod"        -> S2(f, n, v, ProdX(n, v), Empty, ProdS(ProdX(n, v)))
    [] f = "Dot"         -> S2(f, n, v, x, y, DotS(x, y))
    [] f = "Norm1"       -> S2(f, n, v, x, Empty, Norm1S(x))
    [] f = "Dist1"       -> S2(f, n, v, x, y, Norm1S(SubV(y, x)))
    \* NaN is outside the documented contract of the max-norm ("maximum absolute value")
    [] f = "NormInf"     -> LET z == Map1(LAMBDA t : IF IsNaN(t) THEN 1 ELSE t, x) IN S2(f, n, v, z, Empty, MaxAbsS(z))
    [] f = "DistInf"     -> LET z == Map1(LAMBDA t : IF IsNaN(t) THEN 1 ELSE t, x)
                                u == Map1(LAMBDA t : IF IsNaN(t) \/ IsInf(t) THEN 2 ELSE t, y)
                            IN S2(f, n, v, z, u, MaxAbsS(SubV(u, z)))
    \* Euclidean norm of m * 2^e, exact value r * 2^e ; tolerance (n + 4) ulp-units, see harness
    [] f = "Norm2"       -> IF n = 0 THEN [Base(f, n, v) EXCEPT !.s = 0]
                            ELSE IF ~HasSqSol(n) THEN Skip(f, n, v)
                            ELSE LET m == SqVec(n, v)
                                     sp == KindX(v)
                                     spec == sp \in {NaN, PInf, NInf}
                                     xx == IF spec THEN Inj(m, PosX(n, v), sp) ELSE m
                                 IN [Base(f, n, v) EXCEPT !.x = xx, !.e = ExpOf(v), !.e32 = ExpOf32(v), !.tol = n + 4,
                                       !.s = IF sp = NaN THEN NaN ELSE IF spec THEN PInf ELSE SqRoot(n)]
    \* distance: x = y + m  (everything scaled by 2^e)
    [] f = "Dist2"       -> IF n = 0 THEN [Base(f, n, v) EXCEPT !.s = 0]
                            ELSE IF ~HasSqSol(n) THEN Skip(f, n, v)
                            ELSE LET m == SqVec(n, v)
                                     yy == Vec(n, 5, 2, v)
                                 IN [Base(f, n, v) EXCEPT !.x = AddV(yy, m), !.y = yy, !.e = ExpOf(v), !.e32 = ExpOf32(v),
                                       !.tol = n + 6, !.s = SqRoot(n)]
    [] f = "MaxIdx"      -> IF n = 0 THEN Skip(f, n, v) ELSE
                            LET z == IdxData(n, v) IN [Base(f, n, v) EXCEPT !.x = z, !.s = z[MaxIdxS(z)],
                                  !.allow = IF NonNaN(z) = {} THEN Asc(1..n) ELSE <<MaxIdxS(z)>>]
    [] f = "MinIdx"      -> IF n = 0 THEN Skip(f, n, v) ELSE
                            LET z == IdxData(n, v) IN [Base(f, n, v) EXCEPT !.x = z, !.s = z[MinIdxS(z)],
                                  !.allow = IF NonNaN(z) = {} THEN Asc(1..n) ELSE <<MinIdxS(z)>>]
    [] f = "NearestIdx"  -> IF n = 0 THEN Skip(f, n, v) ELSE
                            LET z == IdxData(n, v)
                                q == Pick(<<0, 1, -2, 3, PInf, NInf, NaN, -4, 2, 5>>, v + n)
                            IN [Base(f, n, v) EXCEPT !.x = z, !.a = q, !.allow = Asc(NearestSet(z, q))]
    [] f = "Within"      -> IF n < 2 THEN Skip(f, n, v) ELSE
                            LET z == SortedX(n, v)
                                q == Pick(<<0, z[1], z[n], -5, 2, NaN, z[(n + 1) \div 2], PInf, NInf, 99>>, v + n + Seed)
                            IN [Base(f, n, v) EXCEPT !.x = z, !.a = q, !.k = WithinS(z, q)]
    [] f = "Find"        -> LET z == IdxData(n, v)
                                kk == Pick(<<-1, 0, 1, 2, 3, n, n + 1, 5>>, v + n)
                                r == FindS(z, IsPos, kk)
                            IN [Base(f, n, v) EXCEPT !.x = z, !.k = kk, !.iw = r.inds, !.b = r.err]
    \* Equal: same length and all elements numerically identical (NaN # NaN, -0 = +0);
    \* Same: as Equal but NaN treated as the same; HasNaN; Reverse
    [] f = "EqualSame"   -> LET z == IdxData(n, v)
                                u == IF v % 3 = 0 THEN z ELSE IF v % 3 = 1 THEN Inj(z, PosY(n, v), 9)
                                     ELSE Map1(LAMBDA t : IF t = 0 THEN NZero ELSE IF t = NZero THEN 0 ELSE t, z)
                            IN [Base(f, n, v) EXCEPT !.x = z, !.y = u,
                                  !.b = \A i \in 1..n : XEq(z[i], u[i]),
                                  !.k = IF \A i \in 1..n : (XEq(z[i], u[i]) \/ (IsNaN(z[i]) /\ IsNaN(u[i]))) THEN 1 ELSE 0,
                                  !.s = IF \E i \in 1..n : IsNaN(z[i]) THEN 1 ELSE 0]
    [] f = "Reverse"     -> LET z == IdxData(n, v) IN [Base(f, n, v) EXCEPT !.x = z, !.w = [i \in 1..n |-> z[n + 1 - i]]]
    [] f = "Count"       -> LET z == IdxData(n, v) IN [Base(f, n, v) EXCEPT !.x = z, !.k = Cardinality(Sat(z, IsPos))]
    \* (unstable sort: -0 and +0 compare equal and may come out in either order, so no -0 here)
    [] f = "Argsort"     -> LET z == Force(Map1(LAMBDA t : IF IsNaN(t) THEN 1 ELSE IF t = NZero THEN 0 ELSE t, IdxX(n, v)))
                            IN [Base(f, n, v) EXCEPT !.x = z, !.w = IF n = 0 THEN Empty ELSE Sorted(z),
                                  !.allow = IF n = 0 THEN Empty ELSE ArgAllowed(z)]
    [] f = "ArgsortStable" -> LET z == Force(Map1(LAMBDA t : IF IsNaN(t) THEN 1 ELSE t, IdxX(n, v)))
                            IN [Base(f, n, v) EXCEPT !.x = z, !.w = IF n = 0 THEN Empty ELSE Sorted(z),
                                  !.iw = IF n = 0 THEN Empty ELSE StablePerm(z)]
    \* Span over n points with integer step; endpoints l, u
    [] f = "Span"        -> IF n < 2 THEN Skip(f, n, v) ELSE
                            LET l == D(n, 3, 1, v) * 2   st == Pick(<<1, -2, 3, 0, -1, 4>>, v + n)
                            IN [Base(f, n, v) EXCEPT !.a = l, !.k = l + (n - 1) * st, !.w = SpanS(n, l, l + (n - 1) * st)]
    \* Span with a NaN / Inf endpoint: only the documented endpoints are pinned ("the first element
    \* of the destination is l, the final element of the destination is u")
    [] f = "SpanEnds"    -> IF n < 2 THEN Skip(f, n, v) ELSE
                            LET l == Pick(<<NaN, PInf, NInf, 1, -2, PInf, NInf, NaN>>, v)
                                u == IF IsNaN(l) \/ IsInf(l) THEN Pick(<<2, NInf, NInf, NaN, PInf, 3, PInf, NaN, -1>>, v + n)
                                     ELSE Pick(<<NaN, PInf, NInf>>, v + n)
                            IN [Base(f, n, v) EXCEPT !.x = <<l, u>>]
    \* the same documented endpoint clause for finite l, u whose step (u-l)/(n-1) is not
    \* representable: the interior is not pinned (rounding), the endpoints are
    [] f = "SpanEndsFin" -> IF n < 2 THEN Skip(f, n, v) ELSE
                            [Base(f, n, v) EXCEPT !.x = <<3 * D(n, 3, 1, v) + 1, 5 * D(n, 5, 2, v + 1) - 2>>]
    \* step 2 so that exact half-way queries exist; query v2/2 in half units: the harness passes q/2
    [] f = "NearestIdxForSpan" -> IF n < 2 THEN Skip(f, n, v) ELSE
                            \* step 0: the degenerate span l = u. All n elements of Span(n, l, l) are exactly l (no
                            \* rounding is involved), and NearestIdx documents the LOWEST index among equals, so the
                            \* documented equivalence pins index 1 for every finite query.
                            LET l == 2 * D(n, 3, 1, v)   st == Pick(<<2, -2, 4, -4, 0>>, v + n)
                                u == l + (n - 1) * st
                                q == Pick(<<l - 3, l, l + 1, l + st, u, u + 5, l + st * ((n - 1) \div 2) + 1,
                                            u - 1, l + 3, u - st - 1, l - 1>>, v + Seed)
                            IN [Base(f, n, v) EXCEPT !.a = l, !.k = u, !.s = q,
                                  !.allow = IF st = 0 THEN <<1>> ELSE Asc(NearestSpanSet(n, l, u, q))]
    \* ---- strided (BLAS level 1) forms: whole backing arrays with guard elements
    [] f = "Axpy"        -> LET fa == FinAlpha(v)  ix == IncX(v)  iy == IncY(v)
                                xf == Vec(n, 3, 1, v)  yf == Vec(n, 5, 2, v) IN
                            [Base(f, n, v) EXCEPT !.a = fa, !.incx = ix, !.incy = iy,
                               !.x = Lay(xf, ix, Guard), !.y = Lay(yf, iy, Guard),
                               !.w = Lay(AxpyV(fa, xf, yf), iy, Guard)]
    [] f = "DotInc"      -> LET ix == IncX(v)  iy == IncY(v)
                                xf == Vec(n, 3, 1, v)  yf == Vec(n, 5, 2, v) IN
                            [Base(f, n, v) EXCEPT !.incx = ix, !.incy = iy,
                               !.x = Lay(xf, ix, Guard), !.y = Lay(yf, iy, Guard), !.s = DotS(xf, yf)]
    [] f = "ScalInc"     -> LET fa == FinAlpha(v)  ix == AbsI(IncX(v))  xf == Vec(n, 3, 1, v) IN
                            [Base(f, n, v) EXCEPT !.a = fa, !.incx = ix, !.x = Lay(xf, ix, Guard),
                               !.w = Lay(ScaleV(fa, xf), ix, Guard)]
    [] f = "AsumInc"     -> LET ix == AbsI(IncX(v))  xf == Vec(n, 3, 1, v) IN
                            [Base(f, n, v) EXCEPT !.incx = ix, !.x = Lay(xf, ix, Guard), !.s = Norm1S(xf)]
    [] f = "Nrm2Inc"     -> IF n = 0 THEN [Base(f, n, v) EXCEPT !.s = 0]
                            ELSE IF ~HasSqSol(n) THEN Skip(f, n, v)
                            ELSE LET ix == AbsI(IncX(v)) IN
                                 [Base(f, n, v) EXCEPT !.incx = ix, !.x = Lay(SqVec(n, v), ix, Guard),
                                    !.e = ExpOf(v), !.e32 = ExpOf32(v), !.tol = n + 4, !.s = SqRoot(n)]


(************************ complex slices (Gaussian integers) ****************)
\* a complex value is a pair <<re, im>> of plain integers; only finite data (the IEEE behaviour
\* of complex multiplication on infinities is not part of any documented contract here)
CAdd2(a, b) == <<a[1] + b[1], a[2] + b[2]>>
CSub2(a, b) == <<a[1] - b[1], a[2] - b[2]>>
CMul2(a, b) == <<a[1] * b[1] - a[2] * b[2], a[1] * b[2] + a[2] * b[1]>>
CConj(a)    == <<a[1], -a[2]>>
CNorm2(a)   == a[1] * a[1] + a[2] * a[2]
IDiv(a, b)  == IF a < 0 THEN -((-a) \div b) ELSE a \div b            \* b > 0, exact
CDiv2(a, b) == LET t == CMul2(a, CConj(b)) IN <<IDiv(t[1], CNorm2(b)), IDiv(t[2], CNorm2(b))>>
CDivExact(a, b) == LET t == CMul2(a, CConj(b)) IN AbsI(t[1]) % CNorm2(b) = 0 /\ AbsI(t[2]) % CNorm2(b) = 0
Flat(z)     == [k \in 1..2 * Len(z) |-> z[(k + 1) \div 2][2 - (k % 2)]]
CVec(n, a, b, v) == [p \in 1..n |-> <<D(p, a, b, v), D(p, a + 1, b + 3, v)>>]
CAlpha(v)   == Pick(<< <<2, -1>>, <<0, 1>>, <<-1, 0>>, <<1, 2>>, <<0, 0>>, <<-2, 3>>, <<1, 0>> >>, v + Seed)
CUnits      == << <<1, 0>>, <<0, 1>>, <<-1, 0>>, <<0, -1>>, <<1, 0>>, <<0, -1>> >>
\* products stay small: units, with a (1+i) or (1-i) every sixth position
CProdX(n, v) == [p \in 1..n |-> IF (p + Seed + v) % 6 = 0 THEN Pick(<< <<1, 1>>, <<1, -1>> >>, p \div 6 + v)
                                 ELSE Pick(CUnits, p * 5 + v + Seed)]
\* divisors: units, +-2, +-2i, 1+i ; dividends even
CDivY(n, v) == [p \in 1..n |-> Pick(<< <<1, 0>>, <<0, -2>>, <<1, 1>>, <<-1, 0>>, <<0, 1>>, <<2, 0>>, <<-1, 1>>, <<0, 2>>, <<-2, 0>> >>,
                                      p * 5 + Seed + v)]
CDivX(n, v) == [p \in 1..n |-> <<2 * D(p, 3, 1, v), 2 * D(p, 4, 4, v)>>]
CSumS(z)    == Fold(CAdd2, <<0, 0>>, z)
CW2(f, n, v, x, y, w) == [Base(f, n, v) EXCEPT !.x = Flat(x), !.y = Flat(y), !.w = Flat(w)]
CW2a(f, n, v, a, x, y, w) == [Base(f, n, v) EXCEPT !.x = Flat(x), !.y = Flat(y), !.a = a[1], !.ai = a[2], !.w = Flat(w)]
CS2(f, n, v, x, y, s) == [Base(f, n, v) EXCEPT !.x = Flat(x), !.y = Flat(y), !.s = s[1], !.si = s[2]]
CEmpty == <<>>
CGuard == <<Guard, Guard>>
\* first index of the largest / smallest modulus (compared through the squared modulus)
CMaxAbsIdx(z) == Least({i \in 1..Len(z) : \A j \in 1..Len(z) : CNorm2(z[j]) <= CNorm2(z[i])})
CMinAbsIdx(z) == Least({i \in 1..Len(z) : \A j \in 1..Len(z) : CNorm2(z[i]) <= CNorm2(z[j])})
\* pairs built from the real perfect-square tuple of length 2n
CSqVec(n, v) == LET m == SqVec(2 * n, v) IN [p \in 1..n |-> <<m[2 * p - 1], m[2 * p]>>]

CFns == {"CAdd", "CAddTo", "CSub", "CSubTo", "CMul", "CMulTo", "CMulConj", "CMulConjTo", "CDiv", "CDivTo",
         "CAddConst", "CScale", "CScaleTo", "CScaleReal", "CScaleRealTo", "CAddScaled", "CAddScaledTo",
         "CCumSum", "CCumProd", "CSum", "CProd", "CDot", "CNorm2", "CMaxAbsIdx", "CMinAbsIdx",
         "CReal", "CImag", "CComplex", "CAxpy", "CDotu", "CDotc", "CScal", "CDscal", "CAsum", "CNrm2"}

CCase(f, n, v) ==
  LET x == CVec(n, 3, 1, v)  y == CVec(n, 5, 2, v)  a == CAlpha(v)  ra == FinAlpha(v) IN
  CASE f = "CAdd"        -> CW2(f, n, v, x, y, Map2(CAdd2, x, y))
    [] f = "CAddTo"      -> CW2(f, n, v, x, y, Map2(CAdd2, x, y))
    [] f = "CSub"        -> CW2(f, n, v, x, y, Map2(CSub2, x, y))
    [] f = "CSubTo"      -> CW2(f, n, v, x, y, Map2(CSub2, x, y))
    [] f = "CMul"        -> CW2(f, n, v, x, y, Map2(CMul2, x, y))
    [] f = "CMulTo"      -> CW2(f, n, v, x, y, Map2(CMul2, x, y))
    \* x * conj(y)
    [] f = "CMulConj"    -> CW2(f, n, v, x, y, Map2(LAMBDA p, q : CMul2(p, CConj(q)), x, y))
    [] f = "CMulConjTo"  -> CW2(f, n, v, x, y, Map2(LAMBDA p, q : CMul2(p, CConj(q)), x, y))
    [] f = "CDiv"        -> CW2(f, n, v, CDivX(n, v), CDivY(n, v), Map2(CDiv2, CDivX(n, v), CDivY(n, v)))
    [] f = "CDivTo"      -> CW2(f, n, v, CDivX(n, v), CDivY(n, v), Map2(CDiv2, CDivX(n, v), CDivY(n, v)))
    [] f = "CAddConst"   -> CW2a(f, n, v, a, x, CEmpty, [i \in 1..n |-> CAdd2(x[i], a)])
    [] f = "CScale"      -> CW2a(f, n, v, a, x, CEmpty, [i \in 1..n |-> CMul2(a, x[i])])
    [] f = "CScaleTo"    -> CW2a(f, n, v, a, x, CEmpty, [i \in 1..n |-> CMul2(a, x[i])])
    [] f = "CScaleReal"  -> CW2a(f, n, v, <<ra, 0>>, x, CEmpty, [i \in 1..n |-> <<ra * x[i][1], ra * x[i][2]>>])
    [] f = "CScaleRealTo" -> CW2a(f, n, v, <<ra, 0>>, x, CEmpty, [i \in 1..n |-> <<ra * x[i][1], ra * x[i][2]>>])
    \* y + a * x, dst = y
    [] f = "CAddScaled"  -> CW2a(f, n, v, a, x, y, [i \in 1..n |-> CAdd2(y[i], CMul2(a, x[i]))])
    [] f = "CAddScaledTo" -> CW2a(f, n, v, a, x, y, [i \in 1..n |-> CAdd2(y[i], CMul2(a, x[i]))])
    [] f = "CCumSum"     -> CW2(f, n, v, x, CEmpty, IF n = 0 THEN CEmpty ELSE Scan(CAdd2, x))
    [] f = "CCumProd"    -> CW2(f, n, v, CProdX(n, v), CEmpty, IF n = 0 THEN CEmpty ELSE Scan(CMul2, CProdX(n, v)))
    [] f = "CSum"        -> CS2(f, n, v, x, CEmpty, CSumS(x))
    [] f = "CProd"       -> CS2(f, n, v, CProdX(n, v), CEmpty, Fold(CMul2, <<1, 0>>, CProdX(n, v)))
    \* cmplxs.Dot: sum conj(x[i]) * y[i]
    [] f = "CDot"        -> CS2(f, n, v, x, y, CSumS(Map2(LAMBDA p, q : CMul2(CConj(p), q), x, y)))
    [] f = "CReal"       -> [Base(f, n, v) EXCEPT !.x = Flat(x), !.w = [i \in 1..n |-> x[i][1]]]
    [] f = "CImag"       -> [Base(f, n, v) EXCEPT !.x = Flat(x), !.w = [i \in 1..n |-> x[i][2]]]
    \* Complex(dst, real, imag): x = reals, y = imaginary parts, w = flattened pairs
    [] f = "CComplex"    -> [Base(f, n, v) EXCEPT !.x = Vec(n, 3, 1, v), !.y = Vec(n, 5, 2, v),
                               !.w = Flat([i \in 1..n |-> <<D(i, 3, 1, v), D(i, 5, 2, v)>>])]
    [] f = "CMaxAbsIdx"  -> IF n = 0 THEN Skip(f, n, v) ELSE [Base(f, n, v) EXCEPT !.x = Flat(x), !.k = CMaxAbsIdx(x)]
    [] f = "CMinAbsIdx"  -> IF n = 0 THEN Skip(f, n, v) ELSE [Base(f, n, v) EXCEPT !.x = Flat(x), !.k = CMinAbsIdx(x)]
    [] f = "CNorm2"      -> IF n = 0 THEN [Base(f, n, v) EXCEPT !.s = 0]
                            ELSE IF ~HasSqSol(2 * n) THEN Skip(f, n, v)
                            ELSE [Base(f, n, v) EXCEPT !.x = Flat(CSqVec(n, v)), !.e = ExpOf(v), !.e32 = ExpOf32(v),
                                    !.tol = 2 * n + 4, !.s = SqRoot(2 * n)]
    \* ---- strided forms
    [] f = "CAxpy"       -> LET ix == IncX(v)  iy == IncY(v) IN
                            [Base(f, n, v) EXCEPT !.a = a[1], !.ai = a[2], !.incx = ix, !.incy = iy,
                               !.x = Flat(Lay(x, ix, CGuard)), !.y = Flat(Lay(y, iy, CGuard)),
                               !.w = Flat(Lay([i \in 1..n |-> CAdd2(y[i], CMul2(a, x[i]))], iy, CGuard))]
    [] f = "CDotu"       -> LET ix == IncX(v)  iy == IncY(v)  r == CSumS(Map2(CMul2, x, y)) IN
                            [Base(f, n, v) EXCEPT !.incx = ix, !.incy = iy, !.s = r[1], !.si = r[2],
                               !.x = Flat(Lay(x, ix, CGuard)), !.y = Flat(Lay(y, iy, CGuard))]
    [] f = "CDotc"       -> LET ix == IncX(v)  iy == IncY(v)
                                r == CSumS(Map2(LAMBDA p, q : CMul2(CConj(p), q), x, y)) IN
                            [Base(f, n, v) EXCEPT !.incx = ix, !.incy = iy, !.s = r[1], !.si = r[2],
                               !.x = Flat(Lay(x, ix, CGuard)), !.y = Flat(Lay(y, iy, CGuard))]
    [] f = "CScal"       -> LET ix == AbsI(IncX(v)) IN
                            [Base(f, n, v) EXCEPT !.a = a[1], !.ai = a[2], !.incx = ix, !.x = Flat(Lay(x, ix, CGuard)),
                               !.w = Flat(Lay([i \in 1..n |-> CMul2(a, x[i])], ix, CGuard))]
    [] f = "CDscal"      -> LET ix == AbsI(IncX(v)) IN
                            [Base(f, n, v) EXCEPT !.a = ra, !.incx = ix, !.x = Flat(Lay(x, ix, CGuard)),
                               !.w = Flat(Lay([i \in 1..n |-> <<ra * x[i][1], ra * x[i][2]>>], ix, CGuard))]
    \* BLAS asum of a complex vector: sum |re| + |im|
    [] f = "CAsum"       -> LET ix == AbsI(IncX(v)) IN
                            [Base(f, n, v) EXCEPT !.incx = ix, !.x = Flat(Lay(x, ix, CGuard)),
                               !.s = SumS([i \in 1..n |-> AbsI(x[i][1]) + AbsI(x[i][2])])]
    [] f = "CNrm2"       -> IF n = 0 THEN [Base(f, n, v) EXCEPT !.s = 0]
                            ELSE IF ~HasSqSol(2 * n) THEN Skip(f, n, v)
                            ELSE LET ix == AbsI(IncX(v)) IN
                                 [Base(f, n, v) EXCEPT !.incx = ix, !.x = Flat(Lay(CSqVec(n, v), ix, CGuard)),
                                    !.e = ExpOf(v), !.e32 = ExpOf32(v), !.tol = 2 * n + 4, !.s = SqRoot(2 * n)]


(**************** fixed-size helpers of spatial/r2 and spatial/r3 ***********)
\* vectors are sequences of 2 or 3 integers, matrices sequences of 9 integers (row major);
\* the length parameter n only salts the data.
P3(n, v) == [i \in 1..3 |-> D(i + 3 * n, 3, 1, v)]
Q3(n, v) == [i \in 1..3 |-> D(i + 3 * n, 5, 2, v)]
A9(n, v) == [i \in 1..9 |-> D(i + 2 * n, 3, 1, v)]
B9(n, v) == [i \in 1..9 |-> D(i + 5 * n, 5, 2, v)]
At(m, i, j) == m[3 * (i - 1) + j]
Mat9(F(_, _)) == [k \in 1..9 |-> F(((k - 1) \div 3) + 1, ((k - 1) % 3) + 1)]
Cross3(p, q) == <<p[2] * q[3] - p[3] * q[2], p[3] * q[1] - p[1] * q[3], p[1] * q[2] - p[2] * q[1]>>
Dot3(p, q) == p[1] * q[1] + p[2] * q[2] + p[3] * q[3]
Det3(m) == At(m, 1, 1) * (At(m, 2, 2) * At(m, 3, 3) - At(m, 2, 3) * At(m, 3, 2))
         - At(m, 1, 2) * (At(m, 2, 1) * At(m, 3, 3) - At(m, 2, 3) * At(m, 3, 1))
         + At(m, 1, 3) * (At(m, 2, 1) * At(m, 3, 2) - At(m, 2, 2) * At(m, 3, 1))
SFns == {"R3Add", "R3Sub", "R3Scale", "R3Dot", "R3Cross", "R3Norm2", "R2Add", "R2Sub", "R2Scale", "R2Dot",
         "R2Cross", "R2Norm2", "R3MatMulVec", "R3MatMulVecTrans", "R3MatAdd", "R3MatSub", "R3MatScale",
         "R3MatMul", "R3MatDet", "R3MatOuter", "R3MatSkew", "R3MatT", "R3VecRow", "R3VecCol"}
SCase(f, n, v) ==
  LET p == P3(n, v)  q == Q3(n, v)  a == A9(n, v)  b == B9(n, v)  fa == FinAlpha(v)
      p2 == SubSeq(p, 1, 2)  q2 == SubSeq(q, 1, 2)
      B0 == Base(f, n, v) IN
  CASE f = "R3Add"    -> [B0 EXCEPT !.x = p, !.y = q, !.w = [i \in 1..3 |-> p[i] + q[i]]]
    [] f = "R3Sub"    -> [B0 EXCEPT !.x = p, !.y = q, !.w = [i \in 1..3 |-> p[i] - q[i]]]
    [] f = "R3Scale"  -> [B0 EXCEPT !.x = p, !.a = fa, !.w = [i \in 1..3 |-> fa * p[i]]]
    [] f = "R3Dot"    -> [B0 EXCEPT !.x = p, !.y = q, !.s = Dot3(p, q)]
    [] f = "R3Cross"  -> [B0 EXCEPT !.x = p, !.y = q, !.w = Cross3(p, q)]
    [] f = "R3Norm2"  -> [B0 EXCEPT !.x = p, !.s = Dot3(p, p)]
    [] f = "R2Add"    -> [B0 EXCEPT !.x = p2, !.y = q2, !.w = [i \in 1..2 |-> p[i] + q[i]]]
    [] f = "R2Sub"    -> [B0 EXCEPT !.x = p2, !.y = q2, !.w = [i \in 1..2 |-> p[i] - q[i]]]
    [] f = "R2Scale"  -> [B0 EXCEPT !.x = p2, !.a = fa, !.w = [i \in 1..2 |-> fa * p[i]]]
    [] f = "R2Dot"    -> [B0 EXCEPT !.x = p2, !.y = q2, !.s = p[1] * q[1] + p[2] * q[2]]
    [] f = "R2Cross"  -> [B0 EXCEPT !.x = p2, !.y = q2, !.s = p[1] * q[2] - p[2] * q[1]]
    [] f = "R2Norm2"  -> [B0 EXCEPT !.x = p2, !.s = p[1] * p[1] + p[2] * p[2]]
    [] f = "R3MatMulVec" -> [B0 EXCEPT !.x = a, !.y = p, !.w = [i \in 1..3 |-> At(a, i, 1) * p[1] + At(a, i, 2) * p[2] + At(a, i, 3) * p[3]]]
    [] f = "R3MatMulVecTrans" -> [B0 EXCEPT !.x = a, !.y = p, !.w = [j \in 1..3 |-> At(a, 1, j) * p[1] + At(a, 2, j) * p[2] + At(a, 3, j) * p[3]]]
    [] f = "R3MatAdd" -> [B0 EXCEPT !.x = a, !.y = b, !.w = [k \in 1..9 |-> a[k] + b[k]]]
    [] f = "R3MatSub" -> [B0 EXCEPT !.x = a, !.y = b, !.w = [k \in 1..9 |-> a[k] - b[k]]]
    [] f = "R3MatScale" -> [B0 EXCEPT !.x = a, !.a = fa, !.w = [k \in 1..9 |-> fa * a[k]]]
    [] f = "R3MatMul" -> [B0 EXCEPT !.x = a, !.y = b,
                            !.w = Mat9(LAMBDA i, j : At(a, i, 1) * At(b, 1, j) + At(a, i, 2) * At(b, 2, j) + At(a, i, 3) * At(b, 3, j))]
    [] f = "R3MatDet" -> [B0 EXCEPT !.x = a, !.s = Det3(a)]
    [] f = "R3MatOuter" -> [B0 EXCEPT !.x = p, !.y = q, !.a = fa, !.w = Mat9(LAMBDA i, j : fa * p[i] * q[j])]
    [] f = "R3MatSkew" -> [B0 EXCEPT !.x = p, !.w = <<0, -p[3], p[2], p[3], 0, -p[1], -p[2], p[1], 0>>]
    [] f = "R3MatT"   -> [B0 EXCEPT !.x = a, !.w = Mat9(LAMBDA i, j : At(a, j, i))]
    [] f = "R3VecRow" -> [B0 EXCEPT !.x = a, !.k = n % 3, !.w = [j \in 1..3 |-> At(a, (n % 3) + 1, j)]]
    [] f = "R3VecCol" -> [B0 EXCEPT !.x = a, !.k = n % 3, !.w = [i \in 1..3 |-> At(a, i, (n % 3) + 1)]]


(*************** pairs of special values at two swept positions *************)
\* variant v: the ordered pair of kinds (K1 at the lower position, K2 at the higher one) is
\* v mod 16; the pair of position classes {first, second, middle, n-2, n-1, last, salted}
\* rotates with v div 16, the length and the seed, so that every (kind pair, position pair,
\* unroll residue) combination is met across the lengths.
PKinds == <<NaN, PInf, NInf, NZero>>
K1(v) == PKinds[(v % 4) + 1]
K2(v) == PKinds[((v \div 4) % 4) + 1]
PairCls == << <<1, 6>>, <<1, 2>>, <<3, 6>>, <<1, 3>>, <<5, 6>>, <<2, 7>>, <<4, 6>>, <<1, 7>>, <<3, 5>>, <<2, 3>>,
              <<4, 5>>, <<7, 6>>, <<1, 5>>, <<2, 4>>, <<3, 7>>, <<1, 4>>, <<2, 6>>, <<3, 4>>, <<5, 7>>, <<2, 5>>, <<4, 7>> >>
Clamp(p, n) == IF p < 1 THEN 1 ELSE IF p > n THEN n ELSE p
PosCls(n, v, k) == Clamp(CASE k = 1 -> 1 [] k = 2 -> 2 [] k = 3 -> (n + 1) \div 2 [] k = 4 -> n - 2
                           [] k = 5 -> n - 1 [] k = 6 -> n [] OTHER -> ((Seed + 7 * n + v) % n) + 1, n)
PJ(n, v) == PairCls[((v \div 16 + n + Seed) % 21) + 1]
PA(n, v) == PosCls(n, v, PJ(n, v)[1])
PB(n, v) == PosCls(n, v, PJ(n, v)[2])
P1(n, v) == IF PA(n, v) <= PB(n, v) THEN PA(n, v) ELSE PB(n, v)
P2(n, v) == IF PA(n, v) <= PB(n, v) THEN PB(n, v) ELSE PA(n, v)
\* two distinct positions (n >= 2) for the insertion form
D1(n, v) == IF P1(n, v) = P2(n, v) /\ P1(n, v) = n THEN n - 1 ELSE P1(n, v)
D2(n, v) == IF P1(n, v) = P2(n, v) THEN (IF P1(n, v) = n THEN n ELSE P1(n, v) + 1) ELSE P2(n, v)
\* both specials into x (replacing the formula values)
PairX(x, n, v) == Inj(Inj(x, P1(n, v), K1(v)), P2(n, v), K2(v))
\* two-vector forms: K1 into x at P1; K2 into x at P2 / into y at P2 / into y at P1 (same position)
PMode(n, v) == (v \div 16 + n + Seed + v) % 4
PairXX(x, n, v) == IF PMode(n, v) = 0 THEN PairX(x, n, v) ELSE Inj(x, P1(n, v), K1(v))
PairYY(y, n, v) == CASE PMode(n, v) = 0 -> y [] PMode(n, v) = 2 -> Inj(y, P1(n, v), K2(v)) [] OTHER -> Inj(y, P2(n, v), K2(v))
\* insertion of two values into a sequence m of length n - 2, giving length n
Ins2(m, n, p1, a, p2, b) == [i \in 1..n |-> IF i = p1 THEN a ELSE IF i = p2 THEN b
                                           ELSE m[IF i < p1 THEN i ELSE IF i < p2 THEN i - 1 ELSE i - 2]]
SqVec0(n, v) == IF n = 0 THEN <<>> ELSE SqVec(n, v)
HasSq0(n) == n = 0 \/ HasSqSol(n)
\* class of a Euclidean norm whose terms include the specials in S: NaN dominates, then Inf
AnyNaN(S) == \E a \in S : IsNaN(a)
AnyInf(S) == \E a \in S : IsInf(a)
NormClass(S, r) == IF AnyNaN(S) THEN NaN ELSE IF AnyInf(S) THEN PInf ELSE r
\* maximum absolute value with NaN dominating (math.Max semantics) / with NaN entries ignored
MaxAbsNaN(x) == IF \E i \in 1..Len(x) : IsNaN(x[i]) THEN NaN ELSE MaxAbsS(x)
MaxAbsSkip(x) == MaxAbsS(Map1(LAMBDA t : IF IsNaN(t) THEN 0 ELSE t, x))
HasNaNV(x) == \E i \in 1..Len(x) : IsNaN(x[i])
IncP(n, v) == ((v \div 16 + n + v) % 3) + 1
IncPY(n, v) == Pick(<<1, -2, 3, -1, 2, -3>>, v \div 16 + n + 2 * v + Seed)

PFns == {"SumP", "DotP", "Norm1P", "NormInfP", "Norm2P", "Dist1P", "DistInfP", "Dist2P", "CumSumP", "MaxIdxP",
         "MinIdxP", "DotIncP", "AsumIncP", "Nrm2IncP", "CNorm2P", "CNrm2P", "CAsumP"}

PCase(f, n, v) ==
  IF n < 2 THEN Skip(f, n, v) ELSE
  LET x0 == Vec(n, 3, 1, v)  y0 == Vec(n, 5, 2, v)
      x == PairX(x0, n, v)
      xx == PairXX(x0, n, v)  yy == PairYY(y0, n, v)
      B0 == Base(f, n, v) IN
  CASE f = "SumP"     -> [B0 EXCEPT !.x = x, !.s = SumS(x)]
    [] f = "Norm1P"   -> [B0 EXCEPT !.x = x, !.s = Norm1S(x)]
    \* max norm: math.Max semantics (NaN dominates); an implementation that skips NaN entries
    \* (as Distance does) is equally within the documentation: both values are accepted
    [] f = "NormInfP" -> [B0 EXCEPT !.x = x, !.s = MaxAbsNaN(x), !.alt = IF HasNaNV(x) THEN MaxAbsSkip(x) ELSE KEEP]
    [] f = "CumSumP"  -> [B0 EXCEPT !.x = x, !.w = CumSumV(x)]
    [] f = "MaxIdxP"  -> [B0 EXCEPT !.x = x, !.s = x[MaxIdxS(x)], !.allow = IF NonNaN(x) = {} THEN Asc(1..n) ELSE <<MaxIdxS(x)>>]
    [] f = "MinIdxP"  -> [B0 EXCEPT !.x = x, !.s = x[MinIdxS(x)], !.allow = IF NonNaN(x) = {} THEN Asc(1..n) ELSE <<MinIdxS(x)>>]
    [] f = "DotP"     -> [B0 EXCEPT !.x = xx, !.y = yy, !.s = DotS(xx, yy)]
    [] f = "Dist1P"   -> [B0 EXCEPT !.x = xx, !.y = yy, !.s = Norm1S(SubV(yy, xx))]
    [] f = "DistInfP" -> LET d == SubV(yy, xx) IN
                         [B0 EXCEPT !.x = xx, !.y = yy, !.s = MaxAbsNaN(d), !.alt = IF HasNaNV(d) THEN MaxAbsSkip(d) ELSE KEEP]
    \* Euclidean norm: a perfect-square tuple of length n-2 with the two specials INSERTED (a -0
    \* adds nothing to the sum of squares); NaN if any NaN, else +Inf if any Inf, else r * 2^e
    [] f = "Norm2P"   -> IF ~HasSq0(n - 2) THEN Skip(f, n, v) ELSE
                         [B0 EXCEPT !.x = Ins2(SqVec0(n - 2, v), n, D1(n, v), K1(v), D2(n, v), K2(v)),
                            !.e = ExpOf(v \div 16 + n), !.e32 = ExpOf32(v \div 16 + n), !.tol = n + 4, !.s = NormClass({K1(v), K2(v)}, SqRoot(n - 2))]
    \* distance: x = y + m on the tuple positions; at the inserted positions either
    \* (x, y) = (K1, 0) and (0, K2), or (K1, K2) at one position and (0, 0) at the other
    [] f = "Dist2P"   -> IF ~HasSq0(n - 2) THEN Skip(f, n, v) ELSE
                         LET m == SqVec0(n - 2, v)  yb == Vec(n - 2, 5, 2, v)
                             same == PMode(n, v) = 2
                             xa == IF same THEN K1(v) ELSE K1(v)   ya == IF same THEN K2(v) ELSE 0
                             xb == 0                               yc == IF same THEN 0 ELSE K2(v)
                         IN [B0 EXCEPT !.x = Ins2(AddV(yb, m), n, D1(n, v), xa, D2(n, v), xb),
                               !.y = Ins2(yb, n, D1(n, v), ya, D2(n, v), yc),
                               !.e = ExpOf(v \div 16 + n), !.e32 = ExpOf32(v \div 16 + n), !.tol = n + 6,
                               !.s = NormClass({XSub(xa, ya), XSub(xb, yc)}, SqRoot(n - 2))]
    \* ---- strided forms, increments 1..3 (y also negative)
    [] f = "DotIncP"  -> LET ix == IncP(n, v)  iy == IncPY(n, v) IN
                         [B0 EXCEPT !.incx = ix, !.incy = iy, !.x = Lay(xx, ix, Guard), !.y = Lay(yy, iy, Guard),
                            !.s = DotS(xx, yy)]
    [] f = "AsumIncP" -> LET ix == IncP(n, v) IN
                         [B0 EXCEPT !.incx = ix, !.x = Lay(x, ix, Guard), !.s = Norm1S(x)]
    [] f = "Nrm2IncP" -> IF ~HasSq0(n - 2) THEN Skip(f, n, v) ELSE
                         LET ix == IncP(n, v) IN
                         [B0 EXCEPT !.incx = ix, !.e = ExpOf(v \div 16 + n), !.e32 = ExpOf32(v \div 16 + n), !.tol = n + 4,
                            !.x = Lay(Ins2(SqVec0(n - 2, v), n, D1(n, v), K1(v), D2(n, v), K2(v)), ix, Guard),
                            !.s = NormClass({K1(v), K2(v)}, SqRoot(n - 2))]
    \* ---- complex: the 2n real components carry the tuple of length 2n-2 and the two specials.
    \* With both an Inf and a NaN present a complex norm may follow hypot (Inf wins inside one
    \* element, and in the reference-BLAS scaled sum) or the real rule (NaN wins): both accepted.
    [] f = "CNorm2P"  -> IF ~HasSq0(2 * n - 2) THEN Skip(f, n, v) ELSE
                         LET S == {K1(v), K2(v)} IN
                         [B0 EXCEPT !.e = ExpOf(v \div 16 + n), !.e32 = ExpOf32(v \div 16 + n), !.tol = 2 * n + 4,
                            !.x = Ins2(SqVec0(2 * n - 2, v), 2 * n, D1(2 * n, v), K1(v), D2(2 * n, v), K2(v)),
                            !.s = NormClass(S, SqRoot(2 * n - 2)), !.alt = IF AnyNaN(S) /\ AnyInf(S) THEN PInf ELSE KEEP]
    [] f = "CNrm2P"   -> IF ~HasSq0(2 * n - 2) THEN Skip(f, n, v) ELSE
                         LET S == {K1(v), K2(v)}  ix == IncP(n, v)
                             m == Ins2(SqVec0(2 * n - 2, v), 2 * n, D1(2 * n, v), K1(v), D2(2 * n, v), K2(v))
                             z == [p \in 1..n |-> <<m[2 * p - 1], m[2 * p]>>] IN
                         [B0 EXCEPT !.incx = ix, !.e = ExpOf(v \div 16 + n), !.e32 = ExpOf32(v \div 16 + n), !.tol = 2 * n + 4,
                            !.x = Flat(Lay(z, ix, CGuard)),
                            !.s = NormClass(S, SqRoot(2 * n - 2)), !.alt = IF AnyNaN(S) /\ AnyInf(S) THEN PInf ELSE KEEP]
    [] f = "CAsumP"   -> LET ix == IncP(n, v)
                             m == PairX(Flat(CVec(n, 3, 1, v)), 2 * n, v)
                             z == [p \in 1..n |-> <<m[2 * p - 1], m[2 * p]>>] IN
                         [B0 EXCEPT !.incx = ix, !.x = Flat(Lay(z, ix, CGuard)), !.s = Norm1S(m)]

(********* complex slices whose COMPONENTS range over the extended integers *********)
\* The Gaussian-integer families above (CFns) never meet an infinity or a NaN.  Here a complex
\* value is a pair <<re, im>> of EXTENDED integers and the scalar-loop definitions are evaluated
\* with the IEEE tables XAdd / XSub / XMul / XNeg of this module, component by component:
\*   - Add, Sub, AddConst, CumSum, Sum, Real, Imag, Complex, ScaleReal (and BLAS zdscal / csscal)
\*     are component-wise BY DEFINITION: (a+bi) + (c+di) = (a+c) + (b+d)i, f (a+bi) = fa + fb i.
\*     An element with exactly one non-finite component keeps its other, finite, component.
\*   - Scale, Mul, MulConj, AddScaled (BLAS zscal / zaxpy) contain a full complex product.  Its
\*     scalar definition is the product of the Go language as the reference loops of gonum
\*     (internal/asm/c128, c64: dst[i] = alpha * x[i] ...) evaluate it,
\*           (a+bi)(c+di) = (ac - bd) + (ad + bc)i ,
\*     every operation an IEEE operation (0 * Inf = NaN, Inf - Inf = NaN).  XMul and XAdd are
\*     commutative, so the value does not depend on the order of the factors or of the two
\*     partial products (ZMulComm in SliceAlias.tla).  Where this formula gives NaN in BOTH
\*     components although a factor has an infinite component, a product with the recovery step
\*     of C99 Annex G (which Go does not perform but would be a legitimate refinement) returns an
\*     infinity instead: such elements are listed in "opn" and the harness accepts any result
\*     there that is not finite in both components.
\* The sign of a zero component is pinned where a component is copied or multiplied by a real
\* scalar (Real, Imag, Complex, ScaleReal, zdscal) and for AddConst; elsewhere -0 = +0.
ZAdd(a, b)     == <<XAdd(a[1], b[1]), XAdd(a[2], b[2])>>
ZSub(a, b)     == <<XSub(a[1], b[1]), XSub(a[2], b[2])>>
ZMul(a, b)     == <<XSub(XMul(a[1], b[1]), XMul(a[2], b[2])), XAdd(XMul(a[1], b[2]), XMul(a[2], b[1]))>>
ZConj(a)       == <<a[1], XNeg(a[2])>>
ZRScale(f, a)  == <<XMul(f, a[1]), XMul(f, a[2])>>
ZIsInf(a)      == IsInf(a[1]) \/ IsInf(a[2])
ZMulOpen(a, b) == LET p == ZMul(a, b) IN IsNaN(p[1]) /\ IsNaN(p[2]) /\ (ZIsInf(a) \/ ZIsInf(b))

\* data: the Gaussian-integer vectors of the finite families with ONE element of x (and, in about
\* half of the variants, one element of y) whose components are replaced by a pattern; KEEP leaves
\* the formula value.  The first six patterns have exactly one non-finite component.
ZPats  == << <<PInf, KEEP>>, <<KEEP, NaN>>, <<NInf, KEEP>>, <<KEEP, PInf>>, <<NaN, KEEP>>, <<KEEP, NInf>>,
             <<PInf, PInf>>, <<NZero, KEEP>>, <<PInf, NInf>>, <<NaN, PInf>>, <<KEEP, NZero>>, <<NInf, NaN>>,
             <<PInf, 0>>, <<PInf, NZero>>, <<NZero, NInf>>, <<NaN, NaN>>, <<0, NInf>>, <<NZero, NZero>> >>
ZYPats == << <<KEEP, KEEP>>, <<KEEP, PInf>>, <<KEEP, KEEP>>, <<NaN, KEEP>>, <<KEEP, KEEP>>, <<NInf, KEEP>>,
             <<KEEP, NZero>>, <<KEEP, KEEP>>, <<PInf, NInf>>, <<KEEP, KEEP>>, <<0, PInf>>, <<KEEP, NaN>>, <<KEEP, KEEP>> >>
ZInj(z, pos, pat) == IF Len(z) = 0 THEN z
                     ELSE [i \in 1..Len(z) |-> IF i # pos THEN z[i]
                                               ELSE <<IF pat[1] = KEEP THEN z[i][1] ELSE pat[1],
                                                      IF pat[2] = KEEP THEN z[i][2] ELSE pat[2]>>]
ZX(n, v) == ZInj(CVec(n, 3, 1, v), PosX(n, v), Pick(ZPats, v + 5 * n + Seed))
ZY(n, v) == ZInj(CVec(n, 5, 2, v), PosY(n, v), Pick(ZYPats, 3 * v + n + Seed))
\* scalars: mostly finite; the strided BLAS forms return early for alpha = 0 (reference BLAS), so
\* they get non-zero scalars only
ZAlphaNZ(v)  == Pick(<< <<2, -1>>, <<0, 1>>, <<-1, 0>>, <<1, 2>>, <<1, 0>>, <<-2, 3>>, <<PInf, 0>>, <<2, NaN>>,
                        <<NZero, 1>>, <<3, NInf>>, <<2, 0>> >>, v + Seed)
ZAlpha(v)    == IF (v + Seed) % 13 = 11 THEN <<0, 0>> ELSE IF (v + Seed) % 13 = 12 THEN <<NZero, 0>> ELSE ZAlphaNZ(v)
ZRAlphaNZ(v) == Pick(<<2, -1, 3, PInf, -2, 1, NaN, -3, NInf>>, v + Seed)
ZOpn(P(_), n) == Asc({i \in 1..n : P(i)})

ZFns == {"ZCAdd", "ZCAddTo", "ZCSub", "ZCSubTo", "ZCAddConst", "ZCScaleReal", "ZCScaleRealTo", "ZCReal", "ZCImag",
         "ZCComplex", "ZCCumSum", "ZCSum", "ZCDscal",
         "ZCScale", "ZCScaleTo", "ZCMul", "ZCMulTo", "ZCMulConj", "ZCMulConjTo", "ZCAddScaled", "ZCAddScaledTo",
         "ZCScal", "ZCAxpy"}

ZCase(f, n, v) ==
  LET x == ZX(n, v)  y == ZY(n, v)  a == ZAlpha(v)  ra == Alpha(v)
      one == <<1, 0>>  mone == <<-1, 0>>
      B0 == Base(f, n, v)
      XY == [B0 EXCEPT !.x = Flat(x), !.y = Flat(y)]
      XA == [B0 EXCEPT !.x = Flat(x), !.a = a[1], !.ai = a[2]]
      XYA == [B0 EXCEPT !.x = Flat(x), !.y = Flat(y), !.a = a[1], !.ai = a[2]]
      XR == [B0 EXCEPT !.x = Flat(x), !.a = ra]
      sc == [i \in 1..n |-> ZMul(a, x[i])]
      ax == [i \in 1..n |-> ZAdd(y[i], ZMul(a, x[i]))]
      mu == [i \in 1..n |-> ZMul(x[i], y[i])]
      mc == [i \in 1..n |-> ZMul(x[i], ZConj(y[i]))]
      rs == [i \in 1..n |-> ZRScale(ra, x[i])]
      oa == ZOpn(LAMBDA i : ZMulOpen(a, x[i]), n)
      om == ZOpn(LAMBDA i : ZMulOpen(x[i], y[i]), n)
      oc == ZOpn(LAMBDA i : ZMulOpen(x[i], ZConj(y[i])), n)
  IN
  \* ---- component-wise by definition.  "wk" is NOT an accepted value: it is what the form
  \* y + (+-1 + 0i) * x (a full complex product with a unit scalar) gives, printed so that this one
  \* departure from the definition gets a signature of its own (see the harness, kind "axpyform")
  CASE f = "ZCAdd"        -> [XY EXCEPT !.w = Flat(Map2(ZAdd, x, y)), !.wk = Flat([i \in 1..n |-> ZAdd(x[i], ZMul(one, y[i]))])]
    [] f = "ZCAddTo"      -> [XY EXCEPT !.w = Flat(Map2(ZAdd, x, y)), !.wk = Flat([i \in 1..n |-> ZAdd(ZMul(one, x[i]), y[i])])]
    [] f = "ZCSub"        -> [XY EXCEPT !.w = Flat(Map2(ZSub, x, y)), !.wk = Flat([i \in 1..n |-> ZAdd(x[i], ZMul(mone, y[i]))])]
    [] f = "ZCSubTo"      -> [XY EXCEPT !.w = Flat(Map2(ZSub, x, y)), !.wk = Flat([i \in 1..n |-> ZAdd(x[i], ZMul(mone, y[i]))])]
    [] f = "ZCAddConst"   -> [XA EXCEPT !.w = Flat([i \in 1..n |-> ZAdd(x[i], a)])]
    [] f = "ZCScaleReal"  -> [XR EXCEPT !.w = Flat(rs)]
    [] f = "ZCScaleRealTo" -> [XR EXCEPT !.w = Flat(rs)]
    [] f = "ZCReal"       -> [B0 EXCEPT !.x = Flat(x), !.w = [i \in 1..n |-> x[i][1]]]
    [] f = "ZCImag"       -> [B0 EXCEPT !.x = Flat(x), !.w = [i \in 1..n |-> x[i][2]]]
    [] f = "ZCComplex"    -> LET re == XData(n, v)  im == YData(n, v) IN
                             [B0 EXCEPT !.x = re, !.y = im, !.w = Flat([i \in 1..n |-> <<re[i], im[i]>>])]
    [] f = "ZCCumSum"     -> [B0 EXCEPT !.x = Flat(x), !.w = IF n = 0 THEN Empty ELSE Flat(Scan(ZAdd, x))]
    [] f = "ZCSum"        -> LET r == Fold(ZAdd, <<0, 0>>, x) IN [B0 EXCEPT !.x = Flat(x), !.s = r[1], !.si = r[2]]
    [] f = "ZCDscal"      -> LET ix == AbsI(IncX(v))  fa == ZRAlphaNZ(v) IN
                             [B0 EXCEPT !.a = fa, !.incx = ix, !.x = Flat(Lay(x, ix, CGuard)),
                                !.w = Flat(Lay([i \in 1..n |-> ZRScale(fa, x[i])], ix, CGuard))]
  \* ---- a full complex product inside
    [] f = "ZCScale"      -> [XA EXCEPT !.w = Flat(sc), !.opn = oa]
    [] f = "ZCScaleTo"    -> [XA EXCEPT !.w = Flat(sc), !.opn = oa]
    [] f = "ZCMul"        -> [XY EXCEPT !.w = Flat(mu), !.opn = om]
    [] f = "ZCMulTo"      -> [XY EXCEPT !.w = Flat(mu), !.opn = om]
    [] f = "ZCMulConj"    -> [XY EXCEPT !.w = Flat(mc), !.opn = oc]
    [] f = "ZCMulConjTo"  -> [XY EXCEPT !.w = Flat(mc), !.opn = oc]
    [] f = "ZCAddScaled"  -> [XYA EXCEPT !.w = Flat(ax), !.opn = oa]
    [] f = "ZCAddScaledTo" -> [XYA EXCEPT !.w = Flat(ax), !.opn = oa]
  \* ---- strided; "opn" lists positions of the backing array
    [] f = "ZCScal"       -> LET ix == AbsI(IncX(v))  b == ZAlphaNZ(v) IN
                             [B0 EXCEPT !.a = b[1], !.ai = b[2], !.incx = ix, !.x = Flat(Lay(x, ix, CGuard)),
                                !.w = Flat(Lay([i \in 1..n |-> ZMul(b, x[i])], ix, CGuard)),
                                !.opn = Asc({VecIdx(i, n, ix) : i \in {j \in 1..n : ZMulOpen(b, x[j])}})]
    [] f = "ZCAxpy"       -> LET ix == IncX(v)  iy == IncY(v)  b == ZAlphaNZ(v) IN
                             [B0 EXCEPT !.a = b[1], !.ai = b[2], !.incx = ix, !.incy = iy,
                                !.x = Flat(Lay(x, ix, CGuard)), !.y = Flat(Lay(y, iy, CGuard)),
                                !.w = Flat(Lay([i \in 1..n |-> ZAdd(y[i], ZMul(b, x[i]))], iy, CGuard)),
                                !.opn = Asc({VecIdx(i, n, iy) : i \in {j \in 1..n : ZMulOpen(b, x[j])}})]


Case(f, n, v) == IF f \in CFns THEN CCase(f, n, v) ELSE IF f \in SFns THEN SCase(f, n, v)
                 ELSE IF f \in PFns THEN PCase(f, n, v) ELSE IF f \in ZFns THEN ZCase(f, n, v) ELSE RCase(f, n, v)

\* every emitted complex division is exact
CDivOK == c.f \in {"CDiv", "CDivTo"} => \A i \in 1..c.n : CDivExact(CDivX(c.n, c.v)[i], CDivY(c.n, c.v)[i])

(************************** generator state space ***************************)
Init == c \in [f : Fns, n : NMin..NMax, v : 0..NVar-1]
Next == UNCHANGED c
Spec == Init /\ [][Next]_c

\* one JSON line per case; the printed values must lie in the value domain (no 32-bit overflow,
\* no marker leaking out of the data generators)
IsVal(a) == a \in {NaN, PInf, NInf, NZero} \/ (a > -1000000000 /\ a < 1000000000)
Emit == LET r == Case(c.f, c.n, c.v) IN
        r.skip \/ ( /\ \A i \in 1..Len(r.w) : IsVal(r.w[i])
                    /\ \A i \in 1..Len(r.x) : IsVal(r.x[i])
                    /\ IsVal(r.s)
                    /\ PrintT(ToJson(r)) )

(************************ theorems about the semantics (R1) *****************)
\* checked on every generated case: the identities that make the expectations independent of
\* evaluation order hold.
\* summation of the emitted data does not depend on the order of accumulation (so any unrolled /
\* multi-accumulator kernel must return the same value): reversed and two-lane sums agree
Rev(x) == [i \in 1..Len(x) |-> x[Len(x) + 1 - i]]
Lane(x, r) == LET idx == Asc({i \in 1..Len(x) : i % 2 = r}) IN [k \in 1..Len(idx) |-> x[idx[k]]]
OrderFree == LET x == XData(c.n, c.v)  y == YData(c.n, c.v)  p == MulV(x, y) IN
             /\ SumS(x) = SumS(Rev(x))
             /\ SumS(x) = XAdd(SumS(Lane(x, 0)), SumS(Lane(x, 1)))
             /\ SumS(p) = SumS(Rev(p))
             /\ SumS(p) = XAdd(SumS(Lane(p, 0)), SumS(Lane(p, 1)))
=============================================================================
