------------------------------ MODULE CScalar ------------------------------
(* cmplxs/cscalar on exactly specifiable inputs (and the number grammar of    *)
(* floats/scalar.ParseWithNA).                                                *)
(*                                                                            *)
(*  eq     EqualWithinAbs / Rel / AbsOrRel and Same on Gaussian QUARTER-      *)
(*         integers a = (A + B i)/4 and tolerances T/4.  The documented       *)
(*         inequalities |a-b| <= tol and |a-b| <= tol max(|a|,|b|) are        *)
(*         decided on squares of integers.  A modulus is irrational in        *)
(*         general, so an EXACT equality is pinned only where the floating    *)
(*         point moduli are exact (axis-aligned operands); otherwise the      *)
(*         verdict is "O" (open: hypot may round either way).                 *)
(*  round  Round / RoundEven((k1 + k2 i)/2^j, prec): component-wise the       *)
(*         rational round(x 10^prec)/10^prec with ties away from zero / to    *)
(*         even; Round(+-0) = +0 ; infinities and NaN by class.               *)
(*  parse  ParseWithNA on a TOKEN GRID of the documented grammar              *)
(*         "[+-]N+-Ni, may be parenthesized, order of components not strict"  *)
(*         built by concatenation from sign, number and suffix tokens, each   *)
(*         string with the value it denotes; and a list of strings outside    *)
(*         the grammar (error).                                               *)
(*  fparse floats/scalar.ParseWithNA on sign x number tokens.                 *)
(* R1: the ASSUMEs at the end.  R2: one printed case per point of a table.    *)
EXTENDS Integers, Sequences, FiniteSets, TLC, Json

CONSTANTS Mode      \* "eq" | "round" | "parse" | "fparse"
VARIABLE c

NaN  == 1000000001
PInf == 1000000002
NInf == 1000000003
IsNaN(a) == a = NaN
IsInf(a) == a = PInf \/ a = NInf
AbsI(x) == IF x < 0 THEN -x ELSE x
SgnI(x) == IF x < 0 THEN -1 ELSE IF x > 0 THEN 1 ELSE 0
MaxI(x, y) == IF x > y THEN x ELSE y

(************************** tolerance comparisons ***************************)
Q == {-4, 0, 3, 4}
FinOps == {<<A, B>> : A \in Q, B \in Q}
SpcOps == {<<NaN, 0>>, <<0, NaN>>, <<NaN, NaN>>, <<PInf, 0>>, <<PInf, 4>>, <<0, NInf>>, <<NInf, NInf>>}
Tols == {0, 2, 4, 5, 8}
HasNaN(p) == IsNaN(p[1]) \/ IsNaN(p[2])
HasInf(p) == IsInf(p[1]) \/ IsInf(p[2])
IsFin(p) == ~HasNaN(p) /\ ~HasInf(p)
CIsNaN(p) == HasNaN(p) /\ ~HasInf(p)             \* cmplx.IsNaN
CEq(p, q) == ~HasNaN(p) /\ ~HasNaN(q) /\ p = q    \* complex == (no -0 in this grid)
N2(p) == p[1] * p[1] + p[2] * p[2]
Sub(p, q) == <<p[1] - q[1], p[2] - q[2]>>
Axis(p) == p[1] = 0 \/ p[2] = 0

\* |a-b| <= T/4   <=>   N2(a-b) <= T^2      (a, b in quarter units)
AbsV(a, b, T) ==
  IF HasNaN(a) \/ HasNaN(b) THEN "F"
  ELSE IF CEq(a, b) THEN "T"
  ELSE IF HasInf(a) /\ HasInf(b) THEN "O"       \* inf - inf
  ELSE IF HasInf(a) \/ HasInf(b) THEN "F"       \* an infinite difference exceeds every finite tolerance
  ELSE LET d == Sub(a, b) IN
       IF N2(d) < T * T THEN "T" ELSE IF N2(d) > T * T THEN "F" ELSE IF Axis(d) THEN "T" ELSE "O"
\* |a-b| <= (T/4) max(|a|,|b|)   <=>   16 N2(a-b) <= T^2 max(N2(a), N2(b))
RelV(a, b, T) ==
  IF HasNaN(a) \/ HasNaN(b) THEN "F"
  ELSE IF CEq(a, b) THEN "T"
  ELSE IF HasInf(a) \/ HasInf(b) THEN "O"       \* the formula reads inf <= tol inf; the code answers false
  ELSE LET d == Sub(a, b)  L == 16 * N2(d)  R == T * T * MaxI(N2(a), N2(b)) IN
       IF L < R THEN "T" ELSE IF L > R THEN "F" ELSE IF Axis(d) /\ Axis(a) /\ Axis(b) THEN "T" ELSE "O"
OrV(x, y) == IF x = "T" \/ y = "T" THEN "T" ELSE IF x = "F" /\ y = "F" THEN "F" ELSE "O"
SameV(a, b) == CEq(a, b) \/ (CIsNaN(a) /\ CIsNaN(b))

EqCase(a, b, Ta, Tr) == [k |-> "eq", a |-> a, b |-> b, ta |-> Ta, tr |-> Tr, abs |-> AbsV(a, b, Ta), rel |-> RelV(a, b, Tr),
                         both |-> OrV(AbsV(a, b, Ta), RelV(a, b, Tr)), same |-> SameV(a, b)]
EqCases == {EqCase(a, b, Ta, Tr) : a \in FinOps, b \in FinOps, Ta \in Tols, Tr \in Tols}
           \cup {EqCase(a, b, t[1], t[2]) : a \in SpcOps, b \in FinOps \cup SpcOps, t \in {<<2, 2>>, <<0, 8>>}}
           \cup {EqCase(a, b, t[1], t[2]) : a \in FinOps, b \in SpcOps, t \in {<<2, 2>>, <<0, 8>>}}

(********************************** rounding ********************************)
RECURSIVE Pow(_, _)
Pow(b, e) == IF e = 0 THEN 1 ELSE b * Pow(b, e - 1)
RoundQ(n, d, even) ==
  LET a == AbsI(n)  q == a \div d  r == a % d IN
  SgnI(n) * (IF 2 * r > d THEN q + 1
             ELSE IF 2 * r < d THEN q
             ELSE IF even THEN (IF q % 2 = 0 THEN q ELSE q + 1) ELSE q + 1)
RoundDef(k, j, p, even) ==
  IF p >= 0 THEN <<RoundQ(k * Pow(10, p), Pow(2, j), even), Pow(10, p)>>
  ELSE <<RoundQ(k, Pow(2, j) * Pow(10, -p), even) * Pow(10, -p), 1>>
Precs == {0, 1, 2, 3}            \* prec = index - 1
RoundCases ==
  {[k |-> "round", re |-> k1, im |-> k2, j |-> j, prec |-> pp - 1, even |-> ev,
    rre |-> LET q == RoundDef(k1, j, pp - 1, ev) IN [num |-> q[1], den |-> q[2]],
    rim |-> LET q == RoundDef(k2, j, pp - 1, ev) IN [num |-> q[1], den |-> q[2]],
    zero |-> k1 = 0 /\ k2 = 0]
     : k1 \in -9 .. 9, k2 \in {-5, 0, 3, 10, -2}, j \in 0 .. 2, pp \in Precs, ev \in BOOLEAN}
\* special values: "+0" .. as component names; cls = class of the documented result
RoundSpecials == {[k |-> "roundspecial", x |-> x[1], cls |-> x[2], prec |-> pp - 1, even |-> ev] :
                    x \in { <<<<"+0", "-0">>, "zero">>, <<<<"-0", "-0">>, "zero">>, <<<<"-0", "+0">>, "zero">>, <<<<"+0", "+0">>, "zero">>,
                            <<<<"+Inf", "1.5">>, "inf">>, <<<<"1.5", "-Inf">>, "inf">>, <<<<"-Inf", "+Inf">>, "inf">>,
                            <<<<"NaN", "2.5">>, "nan">>, <<<<"NaN", "NaN">>, "nan">>, <<<<"0.5", "NaN">>, "nan">> },
                    pp \in Precs, ev \in BOOLEAN}

(********************************* ParseWithNA ******************************)
\* number tokens with the rational they denote
Nums == << [t |-> "1", n |-> 1, d |-> 1], [t |-> "2.5", n |-> 5, d |-> 2], [t |-> "1e2", n |-> 100, d |-> 1],
           [t |-> ".5", n |-> 1, d |-> 2], [t |-> "0", n |-> 0, d |-> 1], [t |-> "12", n |-> 12, d |-> 1],
           [t |-> "0.375", n |-> 3, d |-> 8], [t |-> "2.5e-1", n |-> 1, d |-> 4] >>
Nums4 == SubSeq(Nums, 1, 4)
Sgn0 == << [t |-> "", s |-> 1], [t |-> "+", s |-> 1], [t |-> "-", s |-> -1] >>     \* leading sign (optional)
Sgn1 == << [t |-> "+", s |-> 1], [t |-> "-", s |-> -1] >>                          \* sign between the parts
Range(s) == {s[i] : i \in 1..Len(s)}
Wrap(s, par) == IF par THEN "(" \o s \o ")" ELSE s
Val(re, im) == [cls |-> "fin", re |-> re, im |-> im]
Rat(sg, num) == [n |-> sg.s * num.n, d |-> num.d]
Zero == [n |-> 0, d |-> 1]
\* the four forms of the grammar
ValidStrs ==
     {[s |-> Wrap(s0.t \o n1.t, par), par |-> par, v |-> Val(Rat(s0, n1), Zero)] : s0 \in Range(Sgn0), n1 \in Range(Nums), par \in BOOLEAN}
  \cup {[s |-> Wrap(s0.t \o n1.t \o "i", par), par |-> par, v |-> Val(Zero, Rat(s0, n1))] : s0 \in Range(Sgn0), n1 \in Range(Nums), par \in BOOLEAN}
  \cup {[s |-> Wrap(s0.t \o n1.t \o s1.t \o n2.t \o "i", par), par |-> par, v |-> Val(Rat(s0, n1), Rat(s1, n2))] :
          s0 \in Range(Sgn0), n1 \in Range(Nums4), s1 \in Range(Sgn1), n2 \in Range(Nums4), par \in BOOLEAN}
  \cup {[s |-> Wrap(s0.t \o n1.t \o "i" \o s1.t \o n2.t, par), par |-> par, v |-> Val(Rat(s1, n2), Rat(s0, n1))] :
          s0 \in Range(Sgn0), n1 \in Range(Nums4), s1 \in Range(Sgn1), n2 \in Range(Nums4), par \in BOOLEAN}
\* words for the non-finite values: compared by class (a complex infinity / NaN has many representations)
WordStrs == {[s |-> w[1], v |-> [cls |-> w[2], re |-> Zero, im |-> Zero]] :
               w \in {<<"NaN", "nan">>, <<"nan", "nan">>, <<"Inf", "inf">>, <<"inf", "inf">>, <<"INF", "inf">>, <<"-Inf", "inf">>,
                      <<"+Inf", "inf">>, <<"(Inf)", "inf">>, <<"1+Infi", "inf">>, <<"-Inf+2i", "inf">>, <<"NaN+2i", "nan">>,
                      <<"1-NaNi", "nan">>}}
\* outside the grammar
Invalid == {"", "(", ")", "()", "(1+2i", "1+2i)", "abc", "1+", "+", "-", "1+2", "1i+2i", "1+2i+3", " 1", "1 ", "1+2j",
            "1 + 2i", "1,5", "--1", "1+-2i", "i1", "1ii", "((1))", "(1))", "1e", "1e+", "e1", ".", "+.", "1.2.3", "1_0",
            "NA", "2i3", "1+2i3", "(1)+2i", "1+(2i)", "*1", "1+2*i", "x+2i",
            "1ex", "1e5x", "Ix", "Inx", "Infx", "Nx", "Nax", "NaNx", "1+Inf", "1e5+x", "2.5.i", ".e1"}
InvalidStrs == {[s |-> t, v |-> [cls |-> "err", re |-> Zero, im |-> Zero]] : t \in Invalid}
Missings == {"NA", "", "1", "-2.5+1i"}
ParseCase(x, m) == [k |-> "parse", s |-> x.s, missing |-> m,
                    \* "If s equals missing, weight is returned as 0, otherwise 1"
                    r |-> IF x.s = m THEN [cls |-> "fin", re |-> Zero, im |-> Zero, w |-> 0]
                          ELSE [cls |-> x.v.cls, re |-> x.v.re, im |-> x.v.im, w |-> 1]]
ParseCases == {ParseCase(x, "NA") : x \in ValidStrs}
              \cup {ParseCase(x, m) : x \in WordStrs \cup InvalidStrs, m \in Missings}
              \cup {ParseCase(x, x.s) : x \in {y \in ValidStrs : ~y.par}}
              \cup {ParseCase([s |-> "-2.5+1i", v |-> Val([n |-> -5, d |-> 2], [n |-> 1, d |-> 1])], m) : m \in Missings}

\* floats/scalar.ParseWithNA: sign x number tokens, words, strings that are not numbers
FValid == {[s |-> s0.t \o n1.t, v |-> [cls |-> "fin", re |-> Rat(s0, n1), im |-> Zero]] : s0 \in Range(Sgn0), n1 \in Range(Nums)}
          \cup {[s |-> w[1], v |-> [cls |-> w[2], re |-> Zero, im |-> Zero]] :
                  w \in {<<"NaN", "nan">>, <<"nan", "nan">>, <<"Inf", "+inf">>, <<"+Inf", "+inf">>, <<"-Inf", "-inf">>,
                         <<"inf", "+inf">>, <<"-infinity", "-inf">>}}
FInvalid == {"", "abc", " 1", "1 ", "1,5", "--1", "1e", ".", "1.2.3", "NA", "1+2i", "1i", "(1)", "+", "0x"}
FParseCases == {ParseCase(x, m) : x \in FValid, m \in {"NA", "1", ""}}
               \cup {ParseCase([s |-> t, v |-> [cls |-> "err", re |-> Zero, im |-> Zero]], m) : t \in FInvalid, m \in {"NA", "1", ""}}

(******************************** state machine *****************************)
Init == CASE Mode = "eq" -> c \in EqCases
          [] Mode = "round" -> (c \in RoundCases \/ c \in RoundSpecials)
          [] Mode = "parse" -> c \in ParseCases
          [] Mode = "fparse" -> c \in FParseCases
Next == UNCHANGED c
Spec == Init /\ [][Next]_c
Emit == PrintT(ToJson(c))

(************************************ R1 ************************************)
\* the verdicts are symmetric, monotone in the tolerance, "T" on equal finite operands, and the
\* relative verdict does not depend on a common scale factor of the operands
ASSUME \A a, b \in FinOps : \A T \in Tols :
         /\ AbsV(a, b, T) = AbsV(b, a, T) /\ RelV(a, b, T) = RelV(b, a, T)
         /\ (a = b => AbsV(a, b, T) = "T" /\ RelV(a, b, T) = "T")
         /\ \A T2 \in Tols : (T <= T2 /\ AbsV(a, b, T) = "T") => AbsV(a, b, T2) # "F"
         /\ \A T2 \in Tols : (T <= T2 /\ RelV(a, b, T) = "T") => RelV(a, b, T2) # "F"
         /\ RelV(<<2 * a[1], 2 * a[2]>>, <<2 * b[1], 2 * b[2]>>, T) = RelV(a, b, T)
ASSUME \A a \in FinOps \cup SpcOps : SameV(a, a) = ~(HasNaN(a) /\ HasInf(a))
\* rounding: odd function, error at most half a unit of the last place kept, modes differ only at ties
ASSUME \A kk \in -12 .. 12 : \A j \in 0 .. 2 : \A pp \in Precs : \A ev \in BOOLEAN :
  LET p == pp - 1  q == RoundDef(kk, j, p, ev)  m == RoundDef(-kk, j, p, ev) IN
  /\ m[1] = -q[1] /\ m[2] = q[2]
  /\ (p >= j) => q[1] * Pow(2, j) = kk * q[2]
  /\ 2 * AbsI(q[1] * Pow(2, j) - kk * q[2]) * (IF p >= 0 THEN q[2] ELSE 1) <= Pow(2, j) * q[2] * (IF p >= 0 THEN 1 ELSE Pow(10, -p))
\* every string of the grid is distinct from every string outside the grammar
ASSUME \A x \in ValidStrs : x.s \notin Invalid
ASSUME \A x \in WordStrs : x.s \notin Invalid
=============================================================================
