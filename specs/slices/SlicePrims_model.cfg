SPECIFICATION Spec
CONSTANTS
  Fns = {"Sum"}
  NMin = 0
  NMax = @NMAX@
  NVar = @NVAR@
  Seed = @SEED@
INVARIANTS OrderFree
CHECK_DEADLOCK FALSE
