SPECIFICATION Spec
CONSTANTS
  Mode = "@MODE@"
INVARIANTS Emit
CHECK_DEADLOCK FALSE
