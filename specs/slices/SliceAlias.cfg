SPECIFICATION Spec
CONSTANTS
  N2 = @N2@
  N1 = @N1@
INVARIANTS AliasLemma
CHECK_DEADLOCK FALSE
