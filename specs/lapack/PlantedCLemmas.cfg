SPECIFICATION CSpec
CONSTANTS
  Fam = "@FAM@"
  Small = @SMALL@
  Big = @BIG@
  Nrhs = @NRHS@
  Seed = @SEED@
INVARIANTS C2Lemma C2gLemma LatdfLemma GtsLemma TdmLemma RsclLemma
CHECK_DEADLOCK FALSE
