--------------------------- MODULE PlantedCLemmas ---------------------------
(* Property C02, role R1: the lemmas behind PlantedC.tla, checked by TLC on   *)
(* every instance of the bounded case space (same Init as the generator).     *)
(*  C2Lemma     the exact reference algorithm (Gaussian elimination with      *)
(*              complete pivoting over rationals) finds at every step s < r a *)
(*              STRICTLY unique entry of largest modulus, at the planted      *)
(*              position, and returns the planted interchanges and factors;   *)
(*              after r steps the Schur complement is exactly zero;           *)
(*              Getc2Accept accepts the planted factorization at tolerance 0  *)
(*              (for r < n with the zero pivots replaced by a perturbation    *)
(*              and the corresponding slack) and rejects mutated ones;        *)
(*  C2gLemma    on the general matrices the reference algorithm (any tie      *)
(*              resolved by CHOOSE) is accepted at tolerance 0, its rank is   *)
(*              the rank found by fraction-free elimination;                  *)
(*  GtsLemma    the "gts" matrices are exactly singular;                       *)
(*  LatdfLemma  for every sign vector h in {+-1}^n the solution of            *)
(*              Z*x = f + h through the planted factors is a dyadic number    *)
(*              num / 2^e with e <= 30 and |num| < 2^31 in every component    *)
(*              (so the floating point solve is exact whatever signs the      *)
(*              look-ahead picks), LatdfAccept accepts it (and -x for the     *)
(*              other reading) and rejects the solutions for h with one       *)
(*              component 0 or 3; SumsqAccept accepts the exact update and    *)
(*              rejects a changed one.                                        *)
EXTENDS PlantedC, LuRef

CI == CInst(cs)
RatM(S, n, den) == Fn([i \in 0 .. n - 1 |-> Fn([j \in 0 .. n - 1 |-> RNorm(S[i + 1][j + 1], den)])])
V0(S, n) == Fn([i \in 0 .. n - 1 |-> S[i + 1]])

(************************ reference complete pivoting ************************)
SwI(i, a, b) == IF i = a THEN b ELSE IF i = b THEN a ELSE i
RECURSIVE C2Ref(_, _, _, _, _, _)
C2Ref(M, ip, jp, s, n, uq) ==
  LET Cand == {<<a, b>> : a \in s .. n - 1, b \in s .. n - 1}
      best == CHOOSE p \in Cand : \A q \in Cand : ~RAbsLt(M[p[1]][p[2]], M[q[1]][q[2]])
  IN IF RZero(M[best[1]][best[2]]) THEN [A |-> M, ip |-> ip, jp |-> jp, uq |-> uq, rank |-> s]
     ELSE IF s = n - 1 THEN [A |-> M, ip |-> Append(ip, s), jp |-> Append(jp, s), uq |-> uq, rank |-> n]
     ELSE LET u == \A q \in Cand : q = best \/ RAbsLt(M[q[1]][q[2]], M[best[1]][best[2]])
              Y == Mat(n, n, LAMBDA i, j : M[SwI(i, s, best[1])][SwI(j, s, best[2])])
              Z == Mat(n, n, LAMBDA i, j : IF i > s /\ j = s THEN RDiv(Y[i][s], Y[s][s]) ELSE Y[i][j])
              W == Mat(n, n, LAMBDA i, j : IF i > s /\ j > s THEN RSub(Z[i][j], RMul(Z[i][s], Z[s][j])) ELSE Z[i][j])
          IN C2Ref(W, Append(ip, best[1]), Append(jp, best[2]), s + 1, n, uq /\ u)

\* complete the interchange sequences with the identity and give zero pivots the value dlt
Complete(S, n, dlt) ==
  [F |-> Mat(n, n, LAMBDA i, j : IF i = j /\ i >= S.rank THEN dlt ELSE S.A[i][j]),
   ip |-> Fn([i \in 0 .. n - 1 |-> IF i < Len(S.ip) THEN S.ip[i + 1] ELSE i]),
   jp |-> Fn([i \in 0 .. n - 1 |-> IF i < Len(S.jp) THEN S.jp[i + 1] ELSE i])]

Dlt == <<1, 1024>>
C2Lemma ==
  cs.f = "c2" =>
    LET I == TLCEval(CI)
        n == I.n
        r == I.rank
        A == RatM(I.A, n, 2)
        F == RatM(I.LU, n, 2)
        S == C2Ref(A, <<>>, <<>>, 0, n, TRUE)
        ip == V0(I.ipiv, n)
        jp == V0(I.jpiv, n)
        Fd == Mat(n, n, LAMBDA i, j : IF i = j /\ i >= r THEN Dlt ELSE F[i][j])
        slack == IF r = n THEN RI(0) ELSE Dlt
    IN /\ I.den = 2 /\ S.rank = r /\ S.uq
       /\ \A s \in 0 .. Min(r, n - 1) - 1 : S.ip[s + 1] = ip[s] /\ S.jp[s + 1] = jp[s]
       /\ \A s \in r .. n - 1 : ip[s] = s /\ jp[s] = s
       /\ \A i, j \in 0 .. n - 1 : S.A[i][j] = F[i][j]
       /\ \A i \in 0 .. n - 1 : \A j \in 0 .. i - 1 : Abs(I.LU[i + 1][j + 1]) <= 1            \* multipliers 0, +-1/2
       /\ \A i, j \in 0 .. n - 1 : Abs(I.A[i + 1][j + 1]) < 8192
       /\ Getc2Accept(A, Fd, ip, jp, n, RI(0), slack)
       \* mutations: one changed element of U, one changed multiplier, a wrong interchange
       /\ ~Getc2Accept(A, Mat(n, n, LAMBDA i, j : IF i = 0 /\ j = n - 1 THEN RAdd(Fd[i][j], RI(1)) ELSE Fd[i][j]), ip, jp, n, RI(0), slack)
       /\ (r = n /\ n >= 2) =>
            /\ ~Getc2Accept(A, Mat(n, n, LAMBDA i, j : IF i = n - 1 /\ j = 0 THEN RAdd(Fd[i][j], <<1, 2>>) ELSE Fd[i][j]), ip, jp, n, RI(0), slack)
            /\ ~Getc2Accept(A, Fd, Fn([i \in 0 .. n - 1 |-> IF i = 0 THEN (IF ip[0] = 0 THEN 1 ELSE 0) ELSE ip[i]]), jp, n, RI(0), slack)
            /\ ~Getc2Accept(A, Fd, ip, Fn([i \in 0 .. n - 1 |-> IF i = 0 THEN (IF jp[0] = 0 THEN 1 ELSE 0) ELSE jp[i]]), n, RI(0), slack)
       \* right-hand sides
       /\ \A i \in 1 .. n, j \in 1 .. I.R : I.B[i][j] = SumR(LAMBDA t : I.A[i][t] * I.X[t][j], 1, n)
       /\ (I.R > 0 /\ n >= 1) => \A k \in 0 .. n - 1 : \A j \in k + 1 .. n - 1 : Abs(I.LU[k + 1][j + 1]) <= 6 /\ Abs(I.LU[k + 1][k + 1]) >= 8

\* a valid LU factorization without interchanges that is not a complete-pivoting one is rejected
ASSUME LET A == Mat(2, 2, LAMBDA i, j : IF i = 1 /\ j = 0 THEN RI(0) ELSE IF i = j THEN RI(1) ELSE RI(2))
           id == Fn([i \in 0 .. 1 |-> i])
       IN ~Getc2Accept(A, A, id, id, 2, RI(0), RI(0))
\* ... and one with a multiplier of modulus 2 as well
ASSUME LET A == Mat(2, 2, LAMBDA i, j : IF i = 0 THEN RI(1) ELSE IF j = 0 THEN RI(2) ELSE RI(5))
           F == Mat(2, 2, LAMBDA i, j : IF i = 0 THEN RI(1) ELSE IF j = 0 THEN RI(2) ELSE RI(3))
           id == Fn([i \in 0 .. 1 |-> i])
       IN ~Getc2Accept(A, F, id, id, 2, RI(0), RI(0))

C2gLemma ==
  cs.f = "c2g" =>
    LET I == TLCEval(CI)
        n == I.n
        A == RatM(I.A, n, 1)
        S == C2Ref(A, <<>>, <<>>, 0, n, TRUE)
        C == Complete(S, n, Dlt)
    IN /\ S.rank = I.rank
       /\ Getc2Accept(A, C.F, C.ip, C.jp, n, RI(0), IF S.rank = n THEN RI(0) ELSE Dlt)
       /\ I.maxA <= 3

(* GtsLemma: the tridiagonal matrix is exactly singular - the exact reference *)
(* elimination with partial pivoting (LuRef!Getf2) meets a zero pivot.        *)
GtsLemma ==
  cs.f = "gts" =>
    LET I == TLCEval(CI)
        n == I.n
        A == Fn([i \in 0 .. n - 1 |-> Fn([j \in 0 .. n - 1 |->
                 IF j = i THEN RNorm(I.gd[i + 1], 2) ELSE IF j = i - 1 THEN RNorm(I.gdl[j + 1], 2)
                 ELSE IF j = i + 1 THEN RNorm(I.gdu[i + 1], 2) ELSE RI(0)])])
    IN /\ ~Getf2(A, 0, 0, n, n).ok /\ ~I.ok
       /\ (I.v = 1 => \A i \in 1 .. n - 1 : I.gdl[i] # 0 /\ I.gdu[i] # 0)

(* TdmLemma: the printed products are the dense defining sums; RsclLemma: the *)
(* quotient is a normal number (or zero) and xi < 2^10.                       *)
TdmLemma ==
  cs.f = "tdm" =>
    LET I == TLCEval(CI)
        m == I.m
        n == I.n
        A == Mat(m, m, LAMBDA i, j : IF j = i THEN I.gd[i + 1] ELSE IF j = i - 1 THEN I.gdl[j + 1]
                                     ELSE IF j = i + 1 THEN I.gdu[i + 1] ELSE 0)
    IN \A q \in 1 .. 16 :
         LET al == I.res[q][1][1][1]
             be == I.res[q][1][1][2]
         IN \A i \in 1 .. m, j \in 1 .. n :
              /\ I.res[q][2][i][j] = al * SumR(LAMBDA k : A[i - 1][k - 1] * I.B[k][j], 1, m) + be * I.C[i][j]
              /\ I.res[q][3][i][j] = al * SumR(LAMBDA k : A[k - 1][i - 1] * I.B[k][j], 1, m) + be * I.C[i][j]
RsclLemma ==
  cs.f = "rscl" =>
    LET I == TLCEval(CI)
    IN /\ I.ex - I.ea >= 0 - 1022 /\ I.ex - I.ea + 10 <= 1023
       /\ I.ex >= 0 - 1074 + 0 /\ I.ex + 10 <= 1023 /\ I.ea >= 0 - 1074 /\ I.ea <= 1023
       /\ \A i \in 1 .. I.n : Abs(I.xi[i]) < 1024
       /\ I.sg \in {-1, 1}

(********************************* Dlatdf ***********************************)
\* dyadic numbers <<num, e>> = num / 2^e with num odd or e = 0
RECURSIVE DyN(_, _)
DyN(a, e) == IF a = 0 THEN <<0, 0>> ELSE IF e > 0 /\ a % 2 = 0 THEN DyN(a \div 2, e - 1) ELSE <<a, e>>
DyAdd(x, y) == LET e == Max(x[2], y[2]) IN DyN(x[1] * Pow2(e - x[2]) + y[1] * Pow2(e - y[2]), e)
DyMulI(x, k) == DyN(x[1] * k, x[2])
DyShr(x, k) == DyN(x[1], x[2] + k)
RECURSIVE DySumR(_, _, _)
DySumR(G(_), a, b) == IF a > b THEN <<0, 0>> ELSE DyAdd(G(a), DySumR(G, a + 1, b))
RECURSIVE Log2(_)
Log2(p) == IF p <= 1 THEN 0 ELSE 1 + Log2(p \div 2)

\* x = Z^-1 * g for Z = P0^T*L0*U0*Q0^T through the planted factors (LU2 = factors times 2)
LatdfSolve(LU2, ip, jp, g, n) ==
  LET rp == Pos(ip, n, n)
      cp == Pos(jp, n, n)
      RECURSIVE Y(_)
      Y(i) == DyAdd(<<g[rp[i]], 0>>, DyMulI(DySumR(LAMBDA k : DyShr(DyMulI(Y(k), LU2[i][k]), 1), 0, i - 1), 0 - 1))
      yv == Fn([i \in 0 .. n - 1 |-> Y(i)])
      RECURSIVE XP(_)
      XP(i) == LET u == LU2[i][i] \div 2
                   num == DyAdd(yv[i], DyMulI(DySumR(LAMBDA j : DyMulI(XP(j), LU2[i][j] \div 2), i + 1, n - 1), 0 - 1))
               IN DyMulI(DyShr(num, Log2(Abs(u))), IF u < 0 THEN 0 - 1 ELSE 1)
      xp == Fn([i \in 0 .. n - 1 |-> XP(i)])
      cinv == InvPerm(cp, n)
  IN Fn([j \in 0 .. n - 1 |-> xp[cinv[j]]])

LatdfMax == 5
Signs(n) == [0 .. n - 1 -> {-1, 1}]
LatdfLemma ==
  (cs.f = "c2" /\ cs.m = cs.n /\ cs.n <= LatdfMax) =>
    LET I == TLCEval(CI)
        n == I.n
        LU2 == Fn([i \in 0 .. n - 1 |-> Fn([j \in 0 .. n - 1 |-> I.LU[i + 1][j + 1]])])
        ip == V0(I.ipiv, n)
        jp == V0(I.jpiv, n)
        Z == RatM(I.A, n, 2)
    IN \A c \in 0 .. I.R :            \* c = 0: f = 0 (every look-ahead comparison is a tie)
         LET f == Fn([i \in 0 .. n - 1 |-> IF c = 0 THEN 0 ELSE I.X[i + 1][c]])
         IN /\ \A h \in Signs(n) :
                 LET x == LatdfSolve(LU2, ip, jp, Fn([i \in 0 .. n - 1 |-> f[i] + h[i]]), n)
                 IN /\ \A i \in 0 .. n - 1 : x[i][2] <= 30
                    /\ n <= 3 =>
                         LET xr == Fn([i \in 0 .. n - 1 |-> RNorm(x[i][1], Pow2(x[i][2]))])
                             fr == Fn([i \in 0 .. n - 1 |-> RI(f[i])])
                         IN /\ LatdfAccept(Z, xr, fr, n)
                            /\ LatdfAccept(Z, Fn([i \in 0 .. n - 1 |-> RNeg(xr[i])]), fr, n)
            \* mutations of h: a component 0 (the update of one row dropped) or 3 is rejected
            /\ n <= 3 => \A q \in 0 .. n - 1 : \A bad \in {0, 3} :
                 LET x == LatdfSolve(LU2, ip, jp, Fn([i \in 0 .. n - 1 |-> f[i] + (IF i = q THEN bad ELSE 1)]), n)
                     xr == Fn([i \in 0 .. n - 1 |-> RNorm(x[i][1], Pow2(x[i][2]))])
                 IN (\E i \in 0 .. n - 1 : Abs(2 * f[i] + (IF i = q THEN bad ELSE 1)) # 1)
                      => ~LatdfAccept(Z, xr, Fn([i \in 0 .. n - 1 |-> RI(f[i])]), n)

\* SumsqAccept on constants: 2^2 * (3 + 5/4) = 2^2 * 3 + (1 + 4) accepted, a changed sum rejected
ASSUME SumsqAccept(RI(2), <<17, 4>>, RI(2), RI(3), Fn([i \in 0 .. 1 |-> RI(i + 1)]), 2, RI(0))
ASSUME ~SumsqAccept(RI(2), <<18, 4>>, RI(2), RI(3), Fn([i \in 0 .. 1 |-> RI(i + 1)]), 2, <<1, 1048576>>)
ASSUME SumsqAccept(RI(1), RI(17), RI(2), RI(3), Fn([i \in 0 .. 1 |-> RI(i + 1)]), 2, RI(0))
\* LatdfNullAccept on constants: Z = diag(2, 4), f = (1, 2): x = ((1 + 3/5)/2, (2 + 4/5)/4) has Z*x - f = (3/5, 4/5)
ASSUME LET Z == Mat(2, 2, LAMBDA i, j : IF i # j THEN RI(0) ELSE RI(2 * (i + 1)))
           f == Fn([i \in 0 .. 1 |-> RI(i + 1)])
           x == Fn([i \in 0 .. 1 |-> IF i = 0 THEN <<4, 5>> ELSE <<7, 10>>])
           y == Fn([i \in 0 .. 1 |-> IF i = 0 THEN <<4, 5>> ELSE <<3, 4>>])
       IN /\ LatdfNullAccept(Z, x, f, 2, RI(0))
          /\ LatdfNullAccept(Z, Fn([i \in 0 .. 1 |-> RNeg(x[i])]), f, 2, RI(0))
          /\ ~LatdfNullAccept(Z, y, f, 2, <<1, 1000>>)
          /\ NullTolT(Z, x, 2) = <<1369, 25>>
=============================================================================
