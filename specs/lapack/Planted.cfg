SPECIFICATION Spec
CONSTANTS
  Fam = "@FAM@"
  Small = @SMALL@
  Big = @BIG@
  Nrhs = @NRHS@
  Seed = @SEED@
INVARIANTS Emit
CHECK_DEADLOCK FALSE
