------------------------------ MODULE PlantedC ------------------------------
(* Property C02 - third generator of planted LAPACK instances (role R2):      *)
(* LU with COMPLETE pivoting and the routines built on it.                    *)
(*   "c2"   A = P0^T * L0 * U0 * Q0^T with a strictly unique complete-pivot   *)
(*          sequence (Dgetc2), full rank and rank deficient, right-hand       *)
(*          sides with planted integer solutions (Dgesc2, also with the       *)
(*          right-hand side multiplied by 2^990 so that the routine must      *)
(*          scale), and the data of the Dif-estimate contribution (Dlatdf);   *)
(*   "c2g"  general small integer matrices (every 2x2 matrix over -2..2 and   *)
(*          formula-filled 3x3 / 4x4 matrices over -3..3): ties everywhere,   *)
(*          no unique factorization - judged by the acceptance predicate      *)
(*          Getc2Accept below (the weaker binding).                           *)
(*   "gts"  exactly singular general tridiagonal systems (Dgtsv must return   *)
(*          ok = false): A = L*U with one u_k = 0 (no interchange needed,     *)
(*          the zero pivot appears at step k, also k = n-1), and the zero     *)
(*          diagonal matrices of odd order (every step interchanges, the      *)
(*          last pivot vanishes).                                             *)
(*   "tdm"  tridiagonal times dense, C := alpha*op(A)*B + beta*C (Dlagtm) on   *)
(*          integer data: the defining sums;                                  *)
(*   "rscl" x := x / a for a = +-2^ea and x = xi * 2^ex (Drscl) where 1/a or   *)
(*          a itself is at or beyond the ends of the exponent range but the   *)
(*          quotient is a normal number: expected exactly.                    *)
(* The definition of the factorization, Getc2Accept, and the definition of    *)
(* what Dlatdf must return, LatdfAccept / SumsqAccept, are stated here over   *)
(* exact rationals; PlantedCLemmas.tla has TLC check them on the reference    *)
(* algorithm's output and on mutations.  The harness evaluates the same       *)
(* formulas with math/big.Rat on what gonum returned (cpiv.go, each function  *)
(* names its operator).                                                       *)
EXTENDS PlantedX

COn(f) == Fam = f \/ Fam = "call"

(****************************************************************************)
(* "c2": planted complete pivoting.                                         *)
(*   L0 unit lower triangular, off-diagonal entries in {0, +-1/2}, at most   *)
(*      two per row, only in columns < r (r = rank);                         *)
(*   U0 upper triangular, u_kk = +-2^(n-k+1) for k < r, other entries of     *)
(*      rows < r in -3..3, rows >= r zero;                                   *)
(*   P0, Q0 as LAPACK interchange sequences ipiv, jpiv (steps 0..r-1 are     *)
(*      formula-chosen, the others are the identity).                        *)
(* Step s < r sees the Schur complement S_s = L0[s:,s:] * U0[s:,s:] (in the  *)
(* planted order): S_s[s][s] = u_ss, and every other entry is a sum of at    *)
(* most three products |l|*|u| <= 1/2*|u_kk| or 3 plus possibly one u_jj     *)
(* with j > s, i.e. at most |u_ss|/2 + 3 < |u_ss| (|u_ss| >= 8 for s <= n-2) *)
(* - the entry of largest modulus is strictly unique, so EVERY complete      *)
(* pivoting rule (first or last maximum) must choose the planted position.   *)
(* C2Lemma runs the exact reference algorithm and checks that strictness at  *)
(* every step instead of trusting this argument.  After r steps the Schur    *)
(* complement is exactly zero.  All values are printed times den = 2.        *)
(* Exactness in floating point: the entries of every Schur complement are    *)
(* integers / 2 of modulus < 2^12, the multipliers are exactly 0, +-1/2.     *)
(*                                                                          *)
(* Expected from Dgetc2 (documentation: A = P*L*U*Q, row i interchanged with *)
(* ipiv[i], column j with jpiv[j], k >= 0 iff U[k,k] was perturbed):         *)
(*   r = n:  ipiv, jpiv, L and U exactly as planted, k = -1;                 *)
(*   r < n:  steps 0..r-1 as planted; the remaining Schur complement is      *)
(*           zero, every pivot r..n-1 must be perturbed, so r <= k <= n-1;   *)
(*           which zero is taken as pivot is not determined: the result is   *)
(*           judged by Getc2Accept with the returned interchanges.           *)
(* Right-hand sides: X0 integer, B = A * X0; Dgesc2 with the planted factors *)
(* must return scale * X0 with the scale factor it reports (0 < scale <= 1); *)
(* all operations are exact (divisions by powers of two, partial sums of     *)
(* integers / 2^k).  With B * 2^bigexp the routine has to scale by a number  *)
(* that is not a power of two; then the comparison uses the bound            *)
(* 2^-30 * scale * 2^bigexp * max|X0|, which covers the rounding of a        *)
(* backward-stable triangular solve: with M = D^-1 * U0 = I + N, |N| <= 3/4, *)
(* || |U0^-1| |U0| ||_inf = || |M^-1| |M| ||_inf <= 8 * 1.75^7 * 6.25 < 2^12 *)
(* and c * n * 2^-53 * 2^12 < 2^-30 for n <= 8.                              *)
(****************************************************************************)
C2Parts(n, r, sd) ==
  LET ipiv == Fn([j \in 0 .. n - 1 |-> IF j >= r THEN j ELSE j + (H(j, n + sd, 201) % (n - j))])
      jpiv == Fn([j \in 0 .. n - 1 |-> IF j >= r THEN j ELSE j + (H(j, n + sd, 202) % (n - j))])
      Cols == Fn([i \in 0 .. n - 1 |-> IF i = 0 THEN {} ELSE {x \in {H(i + 2 * n, t + sd, 203) % i : t \in 1 .. 2} : x < r}])
      LNum(i, k) == IF k \in Cols[i] THEN Sign(i + 2 * n, k + sd, 204) ELSE 0                 \* times 2
      U(k, j) == IF k >= r \/ j < k THEN 0
                 ELSE IF k = j THEN Sign(k + 2 * n, k + sd, 205) * Pow2(n - k + 1)
                 ELSE (H(k + 2 * n, j + sd, 206) % 7) - 3
      LU2(i, j) == SumSet(LAMBDA k : LNum(i, k) * U(k, j), {k \in Cols[i] : k <= j}) + (IF i <= j THEN 2 * U(i, j) ELSE 0)
      LUm == Mat(n, n, LU2)
      rinv == InvPerm(Pos(ipiv, n, n), n)
      cinv == InvPerm(Pos(jpiv, n, n), n)
      A == Mat(n, n, LAMBDA a, b : LUm[rinv[a]][cinv[b]])
      F == Mat(n, n, LAMBDA i, j : IF i > j THEN LNum(i, j) ELSE 2 * U(i, j))
  IN [ipiv |-> ipiv, jpiv |-> jpiv, A |-> A, F |-> F]

C2BigExp == 990
C2Inst(n, r, sd) ==
  LET p == C2Parts(n, r, sd)
      R == IF r = n THEN Nrhs ELSE 0
      Xm == Mat(n, R, LAMBDA i, j : (H(i + 2 * n, j + sd, 207) % 9) - 4)
      B == Mat(n, R, LAMBDA i, j : SumR(LAMBDA k : p.A[i][k] * Xm[k][j], 0, n - 1))
  IN [fam |-> "c2", m |-> n, n |-> n, v |-> sd, den |-> 2, rank |-> r,
      A |-> MatSeq(p.A, n, n), LU |-> MatSeq(p.F, n, n), ipiv |-> VecSeq(p.ipiv, n), jpiv |-> VecSeq(p.jpiv, n),
      maxA |-> NormMax(p.A, n, n),
      R |-> R, X |-> MatSeq(Xm, n, R), B |-> MatSeq(B, n, R), bigexp |-> C2BigExp,
      \* Dlatdf: the columns of X serve as the incoming contribution f; rd lists the incoming
      \* (rdsum, log2 rdscal) pairs
      rd |-> <<<<0, 0>>, <<3, 1>>, <<7, -1>>>>,
      tol |-> 0]

C2Cases == {[f |-> "c2", m |-> r, n |-> n, v |-> sd, w |-> 0] : n \in 1 .. Small, r \in 0 .. Small, sd \in {0, 1}}
C2Valid(x) == x.m <= x.n /\ (x.v = 0 \/ x.m = x.n)

(****************************************************************************)
(* "c2g": general integer matrices.  kind 0: the 2x2 matrix with entries     *)
(* a, b, c, d in -2..2 (all 625); kind 1: n in {3, 4}, entries               *)
(* (H % 7) - 3, with the first row repeated (times -1) in the last one for   *)
(* every third instance (exactly singular).  nonsing is decided exactly by   *)
(* fraction-free elimination.  A non-singular integer matrix of order <= 4   *)
(* with entries of modulus <= 3 has pivots >= 1 / (growth * 3)^3 >> smin, so *)
(* k = -1 is required; for singular matrices k is not judged (rounding may   *)
(* leave a tiny non-zero last pivot).                                        *)
(****************************************************************************)
\* Bareiss fraction-free elimination with row / column search for a non-zero pivot: the rank
RECURSIVE RankFrom(_, _, _, _)
RankFrom(M, prev, k, n) ==
  IF k = n THEN n
  ELSE LET Cand == {<<a, b>> : a \in k .. n - 1, b \in k .. n - 1}
           NZ == {p \in Cand : M[p[1]][p[2]] # 0}
       IN IF NZ = {} THEN k
          ELSE LET p == CHOOSE q \in NZ : TRUE
                   sw(i, a, b) == IF i = a THEN b ELSE IF i = b THEN a ELSE i
                   Y == Mat(n, n, LAMBDA i, j : M[sw(i, k, p[1])][sw(j, k, p[2])])
                   Z == Mat(n, n, LAMBDA i, j : IF i > k /\ j > k THEN (Y[k][k] * Y[i][j] - Y[i][k] * Y[k][j]) \div prev ELSE Y[i][j])
               IN RankFrom(Z, Y[k][k], k + 1, n)
Rank(M, n) == RankFrom(M, 1, 0, n)

C2gMat(kind, n, q) ==
  IF kind = 0 THEN LET P5(t) == IF t = 0 THEN 1 ELSE IF t = 1 THEN 5 ELSE IF t = 2 THEN 25 ELSE 125
                       e(t) == ((q \div P5(t)) % 5) - 2
                   IN Mat(2, 2, LAMBDA i, j : e(2 * i + j))
  ELSE Mat(n, n, LAMBDA i, j : IF q % 3 = 2 /\ i = n - 1 THEN 0 - ((H(0, j + 7 * q, 211) % 7) - 3) ELSE (H(i, j + 7 * q, 211) % 7) - 3)
C2gInst(kind, n, q) ==
  LET A == C2gMat(kind, n, q)
  IN [fam |-> "c2g", m |-> n, n |-> n, v |-> q, den |-> 1, kind |-> kind,
      A |-> MatSeq(A, n, n), maxA |-> NormMax(A, n, n), rank |-> Rank(A, n), tol |-> 0]
C2gCases == {[f |-> "c2g", m |-> 0, n |-> 2, v |-> q, w |-> 0] : q \in 0 .. 624}
              \cup {[f |-> "c2g", m |-> 1, n |-> n, v |-> q, w |-> 0] : n \in {3, 4}, q \in 0 .. 10 * Small - 1}

(****************************************************************************)
(* Acceptance predicates (normative; evaluated by TLC on exact data in       *)
(* PlantedCLemmas and by the harness on gonum's output).  Matrices are       *)
(* 0-based functions of rationals <<num, den>>; tau is the relative          *)
(* tolerance (4 * n * 2^-52, i.e. 8 * gamma_n), slack an absolute one that   *)
(* is non-zero only when the routine reported a perturbed pivot (k >= 0:     *)
(* 2^-40 * max(|A|_max, 1)).                                                 *)
(****************************************************************************)
RAbsV(x) == <<Abs(x[1]), x[2]>>
RLeq(x, y) == x[1] * y[2] <= y[1] * x[2]
Getc2Accept(A, F, ip, jp, n, tau, slack) ==
  LET rp == Pos(ip, n, n)
      cp == Pos(jp, n, n)
      Ap(i, j) == A[rp[i]][cp[j]]
      Lf(i, k) == IF k < i THEN F[i][k] ELSE IF k = i THEN RI(1) ELSE RI(0)
      Uf(k, j) == IF k <= j THEN F[k][j] ELSE RI(0)
      Bnd(i, j) == RSumR(LAMBDA k : RMul(RAbsV(Lf(i, k)), RAbsV(Uf(k, j))), 0, n - 1)
      \* the Schur complement before step s, from the returned factors
      Sch(s, i, j) == RSub(Ap(i, j), RSumR(LAMBDA k : RMul(Lf(i, k), Uf(k, j)), 0, s - 1))
      Allow(i, j) == RAdd(RMul(tau, Bnd(i, j)), slack)
  IN /\ \A i \in 0 .. n - 1 : ip[i] \in i .. n - 1 /\ jp[i] \in i .. n - 1           \* interchange sequences
     /\ n >= 1 => ip[n - 1] = n - 1 /\ jp[n - 1] = n - 1
     /\ \A i \in 0 .. n - 1 : ~RZero(F[i][i])                                        \* U can be solved with
     /\ \A i \in 0 .. n - 1 : \A k \in 0 .. i - 1 : RLeq(RAbsV(F[i][k]), RI(1))       \* |l| <= 1
     /\ \A i, j \in 0 .. n - 1 : RLeq(RAbsV(Sch(n, i, j)), Allow(i, j))               \* P*A*Q = L*U
     /\ \A s \in 0 .. n - 2 : \A i, j \in s .. n - 1 :                                \* complete pivoting
          RLeq(RAbsV(Sch(s, i, j)), RAdd(RAbsV(F[s][s]), Allow(i, j)))

\* Dlatdf, job LocalLookAhead: x solves Z*x = f + h with every h_i = +-1 (the reference routine
\* DLATDF; gonum's comment writes Z*x = h - f, which is the same statement about -x: both accepted)
IsPM1(x) == x = RI(1) \/ x = RI(0 - 1)
LatdfAccept(Z, x, f, n) ==
  LET Zx(i) == RSumR(LAMBDA j : RMul(Z[i][j], x[j]), 0, n - 1)
  IN \/ \A i \in 0 .. n - 1 : IsPM1(RSub(Zx(i), f[i]))
     \/ \A i \in 0 .. n - 1 : IsPM1(RAdd(Zx(i), f[i]))
\* Dlatdf, job NormalizedNullVector: h = +-e with e a normalised vector (2-norm one) that is not
\* otherwise determined; stated is only  || Z*x - f ||_2 = 1  (or || Z*x + f ||_2 = 1, the other
\* reading), with the absolute allowance NullTol = 2^-30 * (1 + n * max|Z| * max|x|)^2 on the square,
\* which covers the residual  c * n * eps * |L| |U| |x|  of the two triangular solves (|l| <= 1/2,
\* |u| <= max|Z|) and the rounding of the normalisation.
RMaxR2(G(_), a, b) == LET RECURSIVE Go(_)
                          Go(i) == IF i > b THEN RI(0) ELSE LET r == Go(i + 1) IN IF RLeq(r, G(i)) THEN G(i) ELSE r
                      IN Go(a)
NullTolT(Z, x, n) ==
  LET mz == RMaxR2(LAMBDA i : RMaxR2(LAMBDA j : RAbsV(Z[i][j]), 0, n - 1), 0, n - 1)
      mx == RMaxR2(LAMBDA i : RAbsV(x[i]), 0, n - 1)
      t == RAdd(RI(1), RMul(RI(n), RMul(mz, mx)))
  IN RMul(t, t)
NullTol(Z, x, n) == RMul(<<1, 1073741824>>, NullTolT(Z, x, n))
LatdfNullAccept(Z, x, f, n, tol) ==
  LET Zx(i) == RSumR(LAMBDA j : RMul(Z[i][j], x[j]), 0, n - 1)
      Dev(sg) == RAbsV(RSub(RSumR(LAMBDA i : LET d == RAdd(Zx(i), RMul(RI(sg), f[i])) IN RMul(d, d), 0, n - 1), RI(1)))
  IN RLeq(Dev(0 - 1), tol) \/ RLeq(Dev(1), tol)
\* the updated scaled sum of squares: scale^2 * sumsq = rdscal^2 * rdsum + sum x_i^2 (relative tau)
SumsqAccept(scale, sumsq, rdscal, rdsum, x, n, tau) ==
  LET want == RAdd(RMul(RMul(rdscal, rdscal), rdsum), RSumR(LAMBDA i : RMul(x[i], x[i]), 0, n - 1))
      got == RMul(RMul(scale, scale), sumsq)
  IN /\ ~RAbsLt(scale, RI(0)) /\ sumsq[1] >= 0
     /\ RLeq(RAbsV(RSub(got, want)), RMul(tau, want))

(****************************************************************************)
(* "gts": singular tridiagonal matrices, values times den = 2 (the exact     *)
(* elimination forms only integers / 2 of small modulus, so the computed     *)
(* pivots are the exact ones and the zero pivot is met exactly).  Nothing is *)
(* promised about b, dl, d, du after a failed call.  Variant 0 (A = L*U, one *)
(* u_k = 0): only A itself is exact - eliminating A^T divides by entries    *)
(* that are not powers of two, so A^T is not driven; variant 1 (zero        *)
(* diagonal, off-diagonal entries +-2^k): A and A^T.                        *)
(****************************************************************************)
GtsInst(n, v, kz) ==
  LET u == Fn([i \in 0 .. n - 1 |-> IF v = 0 /\ i = kz THEN 0 ELSE Sign(i, n + kz, 221) * Pow2(1 + (H(i, n + kz, 222) % 3))])
      ln == Fn([i \in 0 .. n - 2 |-> (H(i, n + kz, 223) % 3) - 1])
      cc == Fn([i \in 0 .. n - 2 |-> (H(i, n + kz, 224) % 7) - 3])
      gdl == Fn([i \in 0 .. n - 2 |-> IF v = 1 THEN 2 * u[i] ELSE ln[i] * u[i]])
      gd == Fn([i \in 0 .. n - 1 |-> IF v = 1 THEN 0 ELSE 2 * u[i] + (IF i > 0 THEN ln[i - 1] * cc[i - 1] ELSE 0)])
      gdu == Fn([i \in 0 .. n - 2 |-> IF v = 1 THEN 2 * u[i + 1] ELSE 2 * cc[i]])
      GB == Mat(n, Nrhs, LAMBDA i, j : 2 * ((H(i, j + kz, 225) % 9) - 4))
  IN [fam |-> "gts", m |-> n, n |-> n, v |-> v, den |-> 2, kz |-> kz, ok |-> FALSE, R |-> Nrhs,
      gdl |-> VecSeq(gdl, n - 1), gd |-> VecSeq(gd, n), gdu |-> VecSeq(gdu, n - 1), GB |-> MatSeq(GB, n, Nrhs), tol |-> 0]
\* orders above 8 are left out: GtsLemma runs the exact rational elimination in TLC's 32-bit integers, and at n = 10 a
\* seed-dependent fill overflows them (thorough tier, seed 2: "Overflow when computing 302245*75559" - a run that TLC
\* cannot finish is exit 2, not a verdict)
GtsMaxN == IF Small + 2 > 8 THEN 8 ELSE Small + 2
GtsCases == {[f |-> "gts", m |-> kz, n |-> n, v |-> 0, w |-> 0] : n \in 1 .. GtsMaxN, kz \in 0 .. GtsMaxN - 1}
              \cup {[f |-> "gts", m |-> 0, n |-> n, v |-> 1, w |-> 0] : n \in 1 .. GtsMaxN}
GtsValid(x) == IF x.v = 0 THEN x.m < x.n ELSE x.n % 2 = 1

(****************************************************************************)
(* "tdm": A tridiagonal m x m (dl, d, du integers in -3..3), B and C m x n   *)
(* integers, every (alpha, beta) in {0, 1, -1, 2} x {0, 1, -1, 3}.  res lists *)
(* <<alpha, beta, alpha*A*B + beta*C, alpha*A^T*B + beta*C>>.                *)
(****************************************************************************)
TdmInst(m, n) ==
  LET dl == Fn([i \in 0 .. m - 2 |-> (H(i, m + n, 231) % 7) - 3])
      d == Fn([i \in 0 .. m - 1 |-> (H(i, m + n, 232) % 7) - 3])
      du == Fn([i \in 0 .. m - 2 |-> (H(i, m + n, 233) % 7) - 3])
      A(i, j) == IF j = i THEN d[i] ELSE IF j = i - 1 THEN dl[j] ELSE IF j = i + 1 THEN du[i] ELSE 0
      B == Mat(m, n, LAMBDA i, j : (H(i, j + m, 234) % 9) - 4)
      C == Mat(m, n, LAMBDA i, j : (H(i, j + m, 235) % 9) - 4)
      AB(t, i, j) == SumR(LAMBDA k : (IF t = 0 THEN A(i, k) ELSE A(k, i)) * B[k][j], Max(0, i - 1), Min(m - 1, i + 1))
      Res(al, be, t) == MatSeq(Mat(m, n, LAMBDA i, j : al * AB(t, i, j) + be * C[i][j]), m, n)
      AL == <<0, 1, -1, 2>>
      BE == <<0, 1, -1, 3>>
  IN [fam |-> "tdm", m |-> m, n |-> n, v |-> 0, den |-> 1,
      gdl |-> VecSeq(dl, m - 1), gd |-> VecSeq(d, m), gdu |-> VecSeq(du, m - 1),
      B |-> MatSeq(B, m, n), C |-> MatSeq(C, m, n),
      res |-> [q \in 1 .. 16 |-> LET al == AL[1 + ((q - 1) \div 4)]
                                     be == BE[1 + ((q - 1) % 4)]
                                 IN <<<<<<al, be>>>>, Res(al, be, 0), Res(al, be, 1)>>],
      tol |-> 0]
TdmCases == {[f |-> "tdm", m |-> m, n |-> n, v |-> 0, w |-> 0] : m \in 0 .. Small, n \in 0 .. 3}

(****************************************************************************)
(* "rscl": x = xi * 2^ex (xi integers of modulus < 2^10), a = sg * 2^ea.     *)
(* Expected: x[i] / a = sg * xi * 2^(ex-ea), exactly (multiplications by      *)
(* powers of two are exact as long as no intermediate leaves the normal      *)
(* range, which the routine is documented to avoid where possible; here the  *)
(* final result is normal, RsclLemma).  ea = -1060 is a subnormal divisor.   *)
(****************************************************************************)
RsclE(w) == CASE w = 0 -> <<0, 0>> [] w = 1 -> <<3, 0>> [] w = 2 -> <<-3, 0>> [] w = 3 -> <<600, 0>> [] w = 4 -> <<-600, 0>>
              [] w = 5 -> <<1000, 0>> [] w = 6 -> <<-1000, 0>> [] w = 7 -> <<1023, 60>> [] w = 8 -> <<-1060, -1000>>
              [] w = 9 -> <<1000, 990>> [] w = 10 -> <<-1000, -990>> [] w = 11 -> <<-1074, -1060>>
RsclInst(n, w, sg) ==
  [fam |-> "rscl", m |-> n, n |-> n, v |-> w, den |-> 1, ea |-> RsclE(w)[1], ex |-> RsclE(w)[2], sg |-> sg,
   xi |-> [i \in 1 .. n |-> (H(i, n + w, 241) % 2001) - 1000], tol |-> 0]
RsclCases == {[f |-> "rscl", m |-> sg, n |-> n, v |-> w, w |-> 0] : n \in 0 .. Small, w \in 0 .. 11, sg \in {0, 1}}

(****************************************************************************)
CCases == (IF COn("c2") THEN {x \in C2Cases : C2Valid(x)} ELSE {})
          \cup (IF COn("c2g") THEN C2gCases ELSE {})
          \cup (IF COn("gts") THEN {x \in GtsCases : GtsValid(x)} ELSE {})
          \cup (IF COn("tdm") THEN TdmCases ELSE {})
          \cup (IF COn("rscl") THEN RsclCases ELSE {})
CInst(x) == CASE x.f = "c2" -> C2Inst(x.n, x.m, x.v)
              [] x.f = "c2g" -> C2gInst(x.m, x.n, x.v)
              [] x.f = "gts" -> GtsInst(x.n, x.v, x.m)
              [] x.f = "tdm" -> TdmInst(x.m, x.n)
              [] x.f = "rscl" -> RsclInst(x.n, x.v, IF x.m = 0 THEN 1 ELSE -1)
CInit == cs \in CCases
CSpec == CInit /\ [][Next]_cs
CEmit == PrintT(ToJson(CInst(cs)))
=============================================================================
