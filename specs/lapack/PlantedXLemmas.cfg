SPECIFICATION XSpec
CONSTANTS
  Fam = "@FAM@"
  Small = @SMALL@
  Big = @BIG@
  Nrhs = @NRHS@
  Seed = @SEED@
INVARIANTS LusLemma PstLemma QlLemma LauumLemma TbLemma ConLemma NrmLemma
CHECK_DEADLOCK FALSE
