--------------------------- MODULE PlantedLemmas ----------------------------
(* Property C02, role R1: the lemmas that make the expected values printed by *)
(* Planted.tla the UNIQUE right answer, checked by TLC on every instance of   *)
(* the bounded case space (same Init as the generator):                       *)
(*  LuLemma     the reference partial-pivoting elimination (LuRef!Getf2, exact *)
(*              rationals, first index of the maximum) applied to the planted  *)
(*              A returns exactly the printed packed factors, interchanges and *)
(*              ok flag (also for the planted zero pivot);                     *)
(*  CholLemma   the reference (exact, integer) Cholesky recurrence applied to  *)
(*              the planted A returns exactly L0, and breaks down exactly at   *)
(*              the planted non-positive pivot for variants 1 and 2;           *)
(*  QrLemma     Q0 is orthogonal, Q0*R0 = A, R0 is upper trapezoidal with a    *)
(*              non-zero diagonal (full rank, so QR is unique up to signs),    *)
(*              and the printed Q0*C, Q0^T*C, C*Q0, C*Q0^T equal the defining  *)
(*              sums;                                                          *)
(*  LarftLemma  I - V*T*V^T = H_0*H_1*...*H_{k-1} for the printed T;           *)
(*  SolveLemma  the printed right-hand sides satisfy B = A*X0, BT = A^T*X0.    *)
EXTENDS Planted, LuRef

I == Inst(cs)
Z0(S, m, n) == Fn([i \in 0 .. m - 1 |-> Fn([j \in 0 .. n - 1 |-> S[i + 1][j + 1]])])   \* 0-based view
RatOf(S, m, n, den) == Fn([i \in 0 .. m - 1 |-> Fn([j \in 0 .. n - 1 |-> RNorm(S[i + 1][j + 1], den)])])

LuLemma ==
  Fam = "lu" =>
    LET m == I.m
        n == I.n
        S == Getf2(RatOf(I.A, m, n, I.den), 0, 0, m, n)
        E == RatOf(I.LU, m, n, I.den)
    IN /\ S.A = E
       /\ S.ok = I.ok
       /\ \A j \in 1 .. Min(m, n) : S.piv[j] = I.ipiv[j]

SolveLemma ==
  Fam \in {"lu", "chol", "pb"} =>
    LET n == I.n
        A == Z0(I.A, I.m, n)
        X == Z0(I.X, n, I.R)
    IN I.R > 0 =>
        /\ \A i \in 0 .. n - 1, j \in 0 .. I.R - 1 : I.B[i + 1][j + 1] = SumR(LAMBDA k : A[i][k] * X[k][j], 0, n - 1)
        /\ Fam = "lu" => \A i \in 0 .. n - 1, j \in 0 .. I.R - 1 :
                            I.BT[i + 1][j + 1] = SumR(LAMBDA k : A[k][i] * X[k][j], 0, n - 1)

\* exact Cholesky recurrence over the integers; returns [L, fail] with fail = -1 on success,
\* the index of the first non-positive pivot otherwise, -2 if a root or quotient is not exact
ISqrt(d) == IF \E s \in 1 .. d : s * s = d THEN CHOOSE s \in 1 .. d : s * s = d ELSE 0
RECURSIVE CholFrom(_, _, _, _)
CholFrom(A, L, j, n) ==
  IF j = n THEN [L |-> L, fail |-> -1]
  ELSE LET d == A[j][j] - SumR(LAMBDA k : L[j][k] * L[j][k], 0, j - 1)
           s == IF d > 0 THEN ISqrt(d) ELSE 0
           num(i) == A[i][j] - SumR(LAMBDA k : L[i][k] * L[j][k], 0, j - 1)
       IN IF d <= 0 THEN [L |-> L, fail |-> j]
          ELSE IF s = 0 \/ \E i \in j + 1 .. n - 1 : num(i) % s # 0 THEN [L |-> L, fail |-> -2]
          ELSE CholFrom(A, Fn([i \in 0 .. n - 1 |-> Fn([c \in 0 .. n - 1 |->
                          IF c # j THEN L[i][c] ELSE IF i = j THEN s ELSE IF i > j THEN num(i) \div s ELSE 0])]), j + 1, n)

CholLemma ==
  Fam \in {"chol", "pb"} =>
    LET n == I.n
        A == Z0(I.A, n, n)
        S == CholFrom(A, Mat(n, n, LAMBDA i, j : 0), 0, n)
    IN /\ \A i, j \in 0 .. n - 1 : A[i][j] = A[j][i]
       /\ IF I.v = 0 THEN S.fail = -1 /\ S.L = Z0(I.L, n, n)
          ELSE S.fail = I.kbad

QrLemma ==
  Fam = "qr" =>
    LET m == I.m
        n == I.n
        k == I.k
        Q == Z0(I.Q, m, m)
        R == Z0(I.RR, k, n)
        A == Z0(I.A, m, n)
        C == Z0(I.C, m, I.R)
        CR == Z0(I.CR, I.R, m)
    IN /\ \A a, b \in 0 .. m - 1 : SumR(LAMBDA r : Q[r][a] * Q[r][b], 0, m - 1) = (IF a = b THEN 1 ELSE 0)
       /\ \A t \in 0 .. k - 1 : (R[t][t] # 0 /\ \A c \in 0 .. t - 1 : R[t][c] = 0)
       /\ \A i \in 0 .. m - 1, c \in 0 .. n - 1 : A[i][c] = SumR(LAMBDA t : Q[i][t] * R[t][c], 0, k - 1)
       /\ \A i \in 0 .. m - 1, j \in 0 .. I.R - 1 :
            /\ I.QC[i + 1][j + 1] = SumR(LAMBDA t : Q[i][t] * C[t][j], 0, m - 1)
            /\ I.QTC[i + 1][j + 1] = SumR(LAMBDA t : Q[t][i] * C[t][j], 0, m - 1)
            /\ I.CQ[j + 1][i + 1] = SumR(LAMBDA t : CR[j][t] * Q[t][i], 0, m - 1)
            /\ I.CQT[j + 1][i + 1] = SumR(LAMBDA t : CR[j][t] * Q[i][t], 0, m - 1)
       /\ \A i \in 0 .. m - 1 : Q[i][I.qidx[i + 1]] # 0

\* column pivoting is forced: at every free step t the pivot column strictly dominates (with
\* margin) every later column in the norm of its rows t.., the fixed columns lead in ascending
\* order, jpvt is a permutation and A*P0 = Q0*R0 with Q0 orthogonal
PivotLemma ==
  Fam = "qp3" =>
    LET m == I.m
        n == I.n
        k == I.k
        nf == I.nf
        Q == Z0(I.Q, m, m)
        R == Z0(I.RR, k, n)
        A == Z0(I.A, m, n)
        jp == I.jpvt
    IN /\ {jp[j] : j \in 1 .. n} = 0 .. n - 1
       /\ \A j \in 1 .. n : (j <= nf) = (I.jin[jp[j] + 1] = 0)
       /\ \A j \in 1 .. nf - 1 : jp[j] < jp[j + 1]
       /\ \A a, b \in 0 .. m - 1 : SumR(LAMBDA r : Q[r][a] * Q[r][b], 0, m - 1) = (IF a = b THEN 1 ELSE 0)
       /\ \A t \in 0 .. k - 1 : (R[t][t] # 0 /\ \A c \in 0 .. t - 1 : R[t][c] = 0)
       /\ \A i \in 0 .. m - 1, c \in 0 .. n - 1 : A[i][jp[c + 1]] = SumR(LAMBDA t : Q[i][t] * R[t][c], 0, k - 1)
       /\ \A t \in nf .. k - 1 : \A c \in t + 1 .. n - 1 :
              R[t][t] * R[t][t] >= 12 + SumR(LAMBDA i : R[i][c] * R[i][c], t, k - 1)

\* planted inverses: T * Tinv = I, A * Ainv = I, T * (A_chol^{-1}) * T^T = I (scaled integers),
\* and the reference elimination on A = P0^T L T returns exactly the printed packed factors
MMulR(X, Y, n) == Mat(n, n, LAMBDA i, j : SumR(LAMBDA t : X[i][t] * Y[t][j], 0, n - 1))
Scal(n, c) == Mat(n, n, LAMBDA i, j : IF i = j THEN c ELSE 0)
InverseLemma ==
  Fam = "tri" =>
    LET n == I.n
        T == Z0(I.T, n, n)
        Ti == Z0(I.Inv, n, n)
    IN /\ \A i \in 0 .. n - 1 : \A j \in 0 .. i - 1 : T[i][j] = 0 /\ Ti[i][j] = 0
       /\ I.unit => \A i \in 0 .. n - 1 : T[i][i] = 1
       /\ I.ok => MMulR(T, Ti, n) = Scal(n, 4)
       /\ ~I.ok => T[I.kz][I.kz] = 0
       /\ I.deep =>
            LET A2 == Z0(I.A, n, n)
                AI == Z0(I.AI, n, n)
                PI == Z0(I.PI, n, n)
                Tt == Mat(n, n, LAMBDA i, j : T[j][i])
                S == Getf2(RatOf(I.A, n, n, 2), 0, 0, n, n)
            IN /\ MMulR(A2, AI, n) = Scal(n, 16)
               /\ MMulR(MMulR(T, PI, n), Tt, n) = Scal(n, 16)
               /\ \A i \in 0 .. n - 1 : T[i][i] > 0
               /\ S.A = RatOf(I.LU, n, n, 2) /\ S.ok
               /\ \A j \in 1 .. n : S.piv[j] = I.ipiv[j]

\* least squares: normal equations and range / null-space conditions for the planted answers
LsLemma ==
  Fam = "ls" =>
    LET m == I.m
        n == I.n
        R == I.R
        A == Z0(I.A, m, n)
        Q == Z0(I.Q, m, m)
        X0 == Z0(I.X, n, R)
        B == Z0(I.B, m, R)
        XM == Z0(I.XMN, m, R)
        BM == Z0(I.BMN, n, R)
        Res(i, j) == SumR(LAMBDA c : A[i][c] * X0[c][j], 0, n - 1) - B[i][j]
    IN /\ \A a, b \in 0 .. m - 1 : SumR(LAMBDA r : Q[r][a] * Q[r][b], 0, m - 1) = (IF a = b THEN 1 ELSE 0)
       \* range(A) = span of the first n columns of Q (when A has full rank): Q2^T A = 0
       /\ \A t \in n .. m - 1, c \in 0 .. n - 1 : SumR(LAMBDA i : Q[i][t] * A[i][c], 0, m - 1) = 0
       \* A^T (A X0 - BLS) = 0
       /\ \A c \in 0 .. n - 1, j \in 0 .. R - 1 : SumR(LAMBDA i : A[i][c] * Res(i, j), 0, m - 1) = 0
       \* A^T XMN = BMN and XMN orthogonal to the null space of A^T (= span Q2)
       /\ \A c \in 0 .. n - 1, j \in 0 .. R - 1 : SumR(LAMBDA i : A[i][c] * XM[i][j], 0, m - 1) = BM[c][j]
       /\ \A t \in n .. m - 1, j \in 0 .. R - 1 : SumR(LAMBDA i : Q[i][t] * XM[i][j], 0, m - 1) = 0
       \* full column rank (variant 0): Q1^T A = R0 is upper triangular with non-zero diagonal
       /\ \A t \in 0 .. n - 1 : \A c \in 0 .. n - 1 :
            LET r == SumR(LAMBDA i : Q[i][t] * A[i][c], 0, m - 1)
            IN (c < t => r = 0) /\ (c = t => ((r # 0) = (t # I.kz)))

\* tridiagonal: the exact L*D*L^T recurrence on the planted (pd, pe) returns (D, l) or breaks
\* down exactly at the planted index; the general system is non-singular (all u_i # 0 are
\* implied by gd/gdl/gdu being S*L*U) and B = A*X0 by the defining tridiagonal product
RECURSIVE PtFrom(_, _, _, _, _)
PtFrom(d, e, Dv, lv, i) ==       \* sequences (1-based); returns <<D, l, fail>>
  IF i > Len(d) THEN <<Dv, lv, -1>>
  ELSE LET Di == IF i = 1 THEN d[1] ELSE d[i] - lv[i - 1] * e[i - 1]
       IN IF Di <= 0 THEN <<Dv, lv, i - 1>>
          ELSE IF i = Len(d) THEN <<Append(Dv, Di), lv, -1>>
          ELSE IF e[i] % Di # 0 THEN <<Dv, lv, -2>>
          ELSE PtFrom(d, e, Append(Dv, Di), Append(lv, e[i] \div Di), i + 1)
\* determinant of the leading k x k block of a tridiagonal matrix (three-term recurrence)
RECURSIVE TdDet(_, _, _, _)
TdDet(d, dl, du, k) ==
  IF k = 0 THEN 1
  ELSE IF k = 1 THEN d[1]
  ELSE d[k] * TdDet(d, dl, du, k - 1) - dl[k - 1] * du[k - 1] * TdDet(d, dl, du, k - 2)
TdLemma ==
  Fam = "td" =>
    LET S == PtFrom(I.pd, I.pe, <<>>, <<>>, 1)
    IN /\ IF I.ok THEN S[3] = -1 /\ S[1] = I.D /\ S[2] = I.l ELSE S[3] = I.kbad
       \* variant 2 (zero diagonal): the structure that forces an interchange at every step, and
       \* non-singularity (the determinant itself for n <= 6, where it fits TLC's integers; for
       \* larger n it is the product over the pairs of -dl*du, times the last diagonal entry
       \* for odd n, by the same recurrence)
       /\ I.v = 2 =>
            /\ \A i \in 1 .. I.n - 1 : I.gdl[i] # 0 /\ I.gdu[i] # 0
            /\ \A i \in 1 .. I.n : (I.gd[i] # 0) = (i = I.n /\ I.n % 2 = 1)
            /\ I.n <= 6 => TdDet(I.gd, I.gdl, I.gdu, I.n) # 0

AuxLemma ==
  Fam = "aux" =>
    LET J == TLCEval(I)      \* evaluate the instance once
        m == J.m
        n == J.n
    IN /\ {J.kc[j] : j \in 1 .. n} = 0 .. n - 1
       /\ {J.kr[i] : i \in 1 .. m} = 0 .. m - 1
       \* backward undoes forward
       /\ \A i \in 1 .. m, j \in 1 .. n : J.pcF[i][j] = J.A[i][J.kc[j] + 1] /\ J.pcB[i][J.kc[j] + 1] = J.A[i][j]
       /\ \A i \in 1 .. m, j \in 1 .. n : J.prF[i][j] = J.A[J.kr[i] + 1][j] /\ J.prB[J.kr[i] + 1][j] = J.A[i][j]
       /\ J.k2 >= J.k1 - 1 /\ \A k \in 1 .. J.k2 + 1 : J.ipiv[k] >= 0 /\ J.ipiv[k] < Max(m, 1)
       \* norms: max <= one-norm, max <= inf-norm
       /\ J.nge[1] <= J.nge[2] /\ J.nge[1] <= J.nge[3]

\* n x n integer matrices
MMul(X, Y, n) == Mat(n, n, LAMBDA i, j : SumR(LAMBDA t : X[i][t] * Y[t][j], 0, n - 1))
Ident(n) == Mat(n, n, LAMBDA i, j : IF i = j THEN 1 ELSE 0)
RECURSIVE HProd(_, _, _, _, _)
HProd(P, V, tau, i, nk) ==      \* P * H_i * ... * H_{k-1}
  IF i = nk[2] THEN P
  ELSE HProd(MMul(P, Mat(nk[1], nk[1], LAMBDA a, b : (IF a = b THEN 1 ELSE 0) - tau[i + 1] * V[a][i] * V[b][i]), nk[1]),
             V, tau, i + 1, nk)
LarftLemma ==
  Fam = "larft" =>
    LET n == I.m
        k == I.k
        V == Z0(I.A, n, k)
        T == Z0(I.T, k, k)
        VTV(a, b) == SumR(LAMBDA x : SumR(LAMBDA y : V[a][x] * T[x][y] * V[b][y], 0, k - 1), 0, k - 1)
        P == HProd(Ident(n), V, I.tau, 0, <<n, k>>)
    IN /\ \A a, b \in 0 .. n - 1 : P[a][b] = (IF a = b THEN 1 ELSE 0) - VTV(a, b)
       /\ \A x \in 0 .. k - 1 : \A y \in 0 .. x - 1 : T[x][y] = 0
=============================================================================
