----------------------------- MODULE LuBlocked ------------------------------
(* Property C02, role R1 (design model).                                      *)
(*                                                                            *)
(* The blocked LU driver (lapack/gonum/dgetrf.go: Dgetrf) as a state machine  *)
(* over an exact rational matrix, at the grain of the calls it makes:         *)
(*   Panel (Dgetf2 on the current column panel, pivots shifted by j),         *)
(*   SwapLeft / SwapRight (the two Dlaswp calls),  Trsm,  Gemm,               *)
(* parameterised by the block size nb exactly as the code selects the path    *)
(* (nb <= 1 or min(m,n) <= nb: unblocked).  The unblocked algorithm           *)
(* (dgetf2.go: Dgetf2, partial pivoting, first index of the maximum, a zero   *)
(* pivot column is skipped and reported) is the recursive operator Getf2.     *)
(*                                                                            *)
(* TLC checks, for every matrix over Alpha with m*n <= MaxEnum, formula       *)
(* filled matrices up to MaxDim x MaxDim, and every nb in 1..MaxNb:           *)
(*   PanelInvariant   at every panel boundary j:  P_j * A0 = L_j * R_j, where *)
(*                    L_j holds the j finished columns of L and R_j the j     *)
(*                    finished rows of U above the current trailing block     *)
(*                    (so the trailing block is the exact Schur complement    *)
(*                    and the finished part is final);                        *)
(*   BlockedEqualsUnblocked  the final matrix, pivots and ok flag equal those *)
(*                    of Getf2 on the same input (as rationals);              *)
(*   Structure        ipiv[i] in i..m-1;                                      *)
(*   Reconstruct      P*A0 = L*U at the end (the property's identity).        *)
EXTENDS LuRef

CONSTANTS AlphaEnc, \* entry alphabet (each value + 1, cfg files cannot hold negative numbers)
          MaxEnum,  \* enumerate all matrices over Alpha with m, n <= 3 and m*n <= MaxEnum
          MaxDim,   \* formula-filled matrices for all shapes up to MaxDim x MaxDim
          NSalt,    \* number of formula fills per shape
          MaxNb     \* block sizes 1..MaxNb

Alpha == {a - 1 : a \in AlphaEnc}

VARIABLES p,     \* [m, n, nb, A0]  the input (constant along a behaviour)
          A,     \* current contents of the array a
          ipiv,  \* interchanges recorded so far (function on 0..mn-1, -1 = not yet set)
          ok, j, pc
vars == <<p, A, ipiv, ok, j, pc>>

(***************************** blocked driver *******************************)
M == p.m
N == p.n
NB == p.nb
MN == Min(M, N)
JB == Min(MN - j, NB)

\* Dlaswp(k1 = j, k2 = j+jb-1, incX = 1) restricted to columns c1..c2
RECURSIVE Laswp(_, _, _, _, _)
Laswp(X, c1, c2, i, last) ==
  IF i > last THEN X
  ELSE LET ip == ipiv[i]
           Y == IF ip = i THEN X
                ELSE Fn([r \in Rows(X) |-> IF r = i THEN Fn([k \in DOMAIN X[r] |-> IF k >= c1 /\ k <= c2 THEN X[ip][k] ELSE X[r][k]])
                                        ELSE IF r = ip THEN Fn([k \in DOMAIN X[r] |-> IF k >= c1 /\ k <= c2 THEN X[i][k] ELSE X[r][k]])
                                        ELSE X[r]])
       IN Laswp(Y, c1, c2, i + 1, last)

Start == /\ pc = "start"
         /\ IF NB <= 1 \/ MN <= NB
            THEN LET S == Getf2(A, 0, 0, M, N)
                 IN /\ A' = S.A /\ ok' = S.ok
                    /\ ipiv' = Fn([i \in 0 .. MN - 1 |-> S.piv[i + 1]])
                    /\ pc' = "done" /\ UNCHANGED <<p, j>>
            ELSE pc' = "panel" /\ UNCHANGED <<p, A, ipiv, ok, j>>

Panel == /\ pc = "panel"
         /\ LET S == Getf2(A, j, j, M - j, JB)
            IN /\ A' = S.A /\ ok' = (ok /\ S.ok)
               /\ ipiv' = Fn([i \in 0 .. MN - 1 |-> IF i >= j /\ i < j + JB THEN j + S.piv[i - j + 1] ELSE ipiv[i]])
         /\ pc' = "swapleft" /\ UNCHANGED <<p, j>>

SwapLeft == /\ pc = "swapleft"
            /\ A' = Laswp(A, 0, j - 1, j, j + JB - 1)
            /\ pc' = IF j + JB < N THEN "swapright" ELSE "next"
            /\ UNCHANGED <<p, ipiv, ok, j>>

SwapRight == /\ pc = "swapright"
             /\ A' = Laswp(A, j + JB, N - 1, j, j + JB - 1)
             /\ pc' = "trsm" /\ UNCHANGED <<p, ipiv, ok, j>>

\* A12 := L11^{-1} A12 (unit lower triangular forward substitution, row by row)
RECURSIVE TrsmRow(_, _, _)
TrsmRow(X, i, last) ==
  IF i > last THEN X
  ELSE TrsmRow(Fn([r \in Rows(X) |-> IF r # i THEN X[r]
                   ELSE Fn([k \in DOMAIN X[r] |-> IF k < j + JB THEN X[r][k]
                           ELSE RSub(X[i][k], RSumR(LAMBDA t : RMul(X[i][t], X[t][k]), j, i - 1))])]), i + 1, last)

Trsm == /\ pc = "trsm"
        /\ A' = TrsmRow(A, j, j + JB - 1)
        /\ pc' = IF j + JB < M THEN "gemm" ELSE "next"
        /\ UNCHANGED <<p, ipiv, ok, j>>

Gemm == /\ pc = "gemm"
        /\ A' = Fn([r \in Rows(A) |-> IF r < j + JB THEN A[r]
                    ELSE Fn([k \in DOMAIN A[r] |-> IF k < j + JB THEN A[r][k]
                            ELSE RSub(A[r][k], RSumR(LAMBDA t : RMul(A[r][t], A[t][k]), j, j + JB - 1))])])
        /\ pc' = "next" /\ UNCHANGED <<p, ipiv, ok, j>>

NextPanel == /\ pc = "next"
             /\ j' = j + NB
             /\ pc' = IF j + NB < MN THEN "panel" ELSE "done"
             /\ UNCHANGED <<p, A, ipiv, ok>>

Finished == pc = "done" /\ UNCHANGED vars
Next == Start \/ Panel \/ SwapLeft \/ SwapRight \/ Trsm \/ Gemm \/ NextPanel \/ Finished

(******************************** inputs ************************************)
RatMat(X) == Fn([i \in DOMAIN X |-> Fn([k \in DOMAIN X[i] |-> RI(X[i][k])])])
EnumShapes == {s \in (1 .. 3) \X (1 .. 3) : s[1] * s[2] <= MaxEnum}
EnumInputs == UNION {{[m |-> s[1], n |-> s[2], A0 |-> RatMat(X)] : X \in [0 .. s[1] - 1 -> [0 .. s[2] - 1 -> Alpha]]} : s \in EnumShapes}
FillInputs == {[m |-> m, n |-> n, A0 |-> RatMat(Mat(m, n, LAMBDA i, k : (Hash(i, k, s, m * 7 + n) % 7) - 3))] :
                 m \in 1 .. MaxDim, n \in 1 .. MaxDim, s \in 1 .. NSalt}

Init == /\ \E x \in EnumInputs \cup FillInputs : \E nb \in 1 .. MaxNb :
             /\ p = [m |-> x.m, n |-> x.n, nb |-> nb, A0 |-> x.A0]
             /\ A = x.A0
             /\ ipiv = Fn([i \in 0 .. Min(x.m, x.n) - 1 |-> -1])
        /\ ok = TRUE /\ j = 0 /\ pc = "start"

Spec == Init /\ [][Next]_vars

(****************************** properties **********************************)
\* number of finished columns at the points where the invariant is stated
Done == IF pc = "done" THEN MN ELSE j
AtBoundary == pc \in {"start", "panel", "done"}

\* rows of A0 as they stand after the interchanges recorded for columns 0..k-1
PA0(k) == LET pos == Pos(ipiv, k, M) IN Fn([i \in 0 .. M - 1 |-> p.A0[pos[i]]])
\* (L_k * R_k)[i][c]:  L_k = finished columns of L (unit diagonal, identity beyond k),
\*                     R_k = finished rows of U on top of [0 | trailing block]
LR(k, i, c) ==
  RAdd(RSumR(LAMBDA t : RMul(A[i][t], A[t][c]), 0, Min(Min(i, k), c + 1) - 1),
       IF i < k THEN (IF c >= i THEN A[i][c] ELSE <<0, 1>>)
                ELSE (IF c >= k THEN A[i][c] ELSE <<0, 1>>))

PanelInvariant ==
  AtBoundary => LET k == Done
                    Q == PA0(k)
                IN \A i \in 0 .. M - 1, c \in 0 .. N - 1 : LR(k, i, c) = Q[i][c]

Ref == Getf2(p.A0, 0, 0, M, N)
BlockedEqualsUnblocked ==
  pc = "done" => /\ A = Ref.A
                 /\ \A i \in 0 .. MN - 1 : ipiv[i] = Ref.piv[i + 1]
                 /\ ok = Ref.ok
Structure == pc = "done" => \A i \in 0 .. MN - 1 : ipiv[i] >= i /\ ipiv[i] < M
\* ok is false exactly when U has a zero on its diagonal
OkMeaning == pc = "done" => (ok = \A i \in 0 .. MN - 1 : ~RZero(A[i][i]))
\* termination: no deadlock before "done" (checked by TLC), and the panel counter is bounded
Progress == j <= MN + NB
=============================================================================
