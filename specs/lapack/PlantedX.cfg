SPECIFICATION XSpec
CONSTANTS
  Fam = "@FAM@"
  Small = @SMALL@
  Big = @BIG@
  Nrhs = @NRHS@
  Seed = @SEED@
INVARIANTS XEmit
CHECK_DEADLOCK FALSE
