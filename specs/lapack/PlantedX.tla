------------------------------ MODULE PlantedX ------------------------------
(* Property C02 - second generator of planted LAPACK instances (role R2).     *)
(* It extends Planted.tla (same constants, same case variable) with the       *)
(* families                                                                   *)
(*   "lus"   LU at the ends of the exponent range (sub-safe-minimum and       *)
(*           subnormal pivots, entries near 2^1000);                          *)
(*   "pst"   pivoted Cholesky  P^T A P = L L^T  with a forced pivot order,    *)
(*           full rank and rank deficient (Dpstrf / Dpstf2);                  *)
(*   "ql"    A = Q0 * L0 (QL: Dgeql2, Dorg2l, Dorgql) and, transposed,        *)
(*           A^T = L0^T * Q0^T (RQ: Dgerq2, Dgerqf, Dorgr2, Dormr2);          *)
(*   "lauum" U*U^T and L^T*L of integer triangles (Dlauum / Dlauu2);          *)
(*   "con"   matrices with exactly known inverse and the two-sided bounds of  *)
(*           the condition estimators (Dgecon, Dpocon, Dtrcon, Dpbcon,        *)
(*           through them Dlacn2);                                            *)
(*   "tb"    triangular band systems with integer solutions (Dtbtrs);         *)
(*   "nrm"   max / one / infinity / Frobenius norms of general, symmetric,    *)
(*           trapezoidal, symmetric band, tridiagonal and symmetric           *)
(*           tridiagonal integer matrices whose sum of squares is a perfect   *)
(*           square (Dlange, Dlansy, Dlantr, Dlansb, Dlangt, Dlanst; also     *)
(*           Hessenberg, general band and triangular band: Dlanhs, Dlangb,    *)
(*           Dlantb).                                                         *)
(* Fam selects one family or a group ("xb": the families with block-size      *)
(* dependent code, "xn": the others).  The uniqueness / definition lemmas are *)
(* in PlantedXLemmas.tla.                                                     *)
EXTENDS Planted

XB == {"lus", "pst", "ql", "lauum"}
XN == {"con", "tb", "nrm"}
XOn(f) == Fam = f \/ (Fam = "xb" /\ f \in XB) \/ (Fam = "xn" /\ f \in XN) \/ Fam = "xall"

Sizes1p == (1 .. Small) \cup {x % 1000 : x \in Big}

(****************************************************************************)
(* "lus": the planted LU instance  A = P0^T * L0 * U0  of Planted!LuInst     *)
(* (l in {0, +-1/2}, u_jj = +-2^k with k in 1..4, other u in -3..3, all      *)
(* values printed times den = 2) multiplied by 2^sc.                         *)
(*                                                                          *)
(* Exactness.  Write every quantity as an integer multiple of the unit       *)
(* w = 2^(sc-1).  The entries of A, of every Schur complement               *)
(* (sum_{k>=j} l_ik u_kj), the rows of U0 and every product l*u that the     *)
(* elimination forms are integers in this unit with modulus far below 2^53   *)
(* (PlantedXLemmas!LusLemma checks both on every stage of the reference      *)
(* elimination and bounds sum_k |l_ik||u_kj|, which covers every partial sum *)
(* in any order of accumulation, i.e. the blocked Dtrsm / Dgemm variants).   *)
(* For sc >= -1073 the unit is >= 2^-1074 (the spacing of the subnormal      *)
(* numbers) and for sc <= 1000 the largest value is < 2^1024, so every       *)
(* operand and every exact result is a float64; IEEE arithmetic then returns *)
(* the exact result.  The multipliers are quotients a/p of two such numbers  *)
(* with exact value in {0, +-1/2}: one division is exact.  (Forming 1/p is   *)
(* not possible for |p| < 2^-1024, which is why Dgetf2 divides below the     *)
(* safe minimum.)  Elimination is homogeneous: P(cA) = L(cU), and the pivot  *)
(* search sees c times the unscaled column, so the unique expected result is *)
(* (ipiv, L0, 2^sc * U0) with ok = true (variant 1: the planted exactly zero *)
(* pivot, ok = false).                                                       *)
(*   sc = -1070, -1060 : every pivot is subnormal;                           *)
(*   sc = -1025        : pivots 2^(k-1025): k <= 2 below the safe minimum    *)
(*                       2^-1022, k >= 3 at or above it (both branches);     *)
(*   sc = 1000         : entries up to 2^1005, l*u does not overflow.        *)
(* Right-hand sides (B = A*X0 scaled by 2^sc, X0 integer) are emitted only   *)
(* for sc > 0 (R = 0 otherwise).                                             *)
(****************************************************************************)
LusExps == {0 - 1070, 0 - 1060, 0 - 1025, 1000}
LusInst(m, n, v, e) ==
  LET base == LuInst(m, n, v)
  IN [fam |-> "lus", sc |-> e, R |-> (IF e > 0 THEN base.R ELSE 0)] @@ base
LusCases == {[f |-> "lus", m |-> s[1], n |-> s[2], v |-> v, w |-> e] :
               s \in {t \in Shapes2 : t[1] >= 1 /\ t[2] >= 1}, v \in {0, 1}, e \in LusExps}
LusValid(x) == x.v = 0 \/ x.w = 0 - 1060

(****************************************************************************)
(* "pst": pivoted Cholesky.  L0 is n x r lower trapezoidal with a strictly   *)
(* decreasing positive diagonal (2^(r-j) for r <= 10, r-j+1 otherwise) and   *)
(* at most 2 off-diagonal entries +-1 per row; p0 is a permutation and       *)
(*     A[p0[i]][p0[j]] = (L0 * L0^T)[i][j].                                  *)
(* After j elimination steps in the planted order the remaining diagonal is  *)
(* d_i = sum_{k=j..min(i,r-1)} L0[i][k]^2: d_j = L0[j][j]^2 and, for i > j,  *)
(* d_i <= 2 + L0[j+1][j+1]^2 < d_j (margin >= 1 in exact integers, the       *)
(* computation is exact or within a few ulps), so complete pivoting must     *)
(* choose p0[j] at step j < r; after r steps the remainder is exactly zero,  *)
(* so the algorithm must stop with rank = r and ok = (r = n) for every       *)
(* non-negative tolerance below the smallest pivot (4) and for the default   *)
(* n*eps*max(diag).  Determined are: rank, ok, piv[0..r-1], and the first r  *)
(* columns of the factor, where row i is the row of L0 that belongs to the   *)
(* original index piv[i] (for i >= r the order of the remaining indices is   *)
(* left to the implementation, piv must be a permutation).                   *)
(* PlantedXLemmas!PstLemma runs the exact reference algorithm.               *)
(****************************************************************************)
PstInst(n, r) ==
  LET ip == Fn([t \in 0 .. n - 1 |-> t + (H(t, n + r, 101) % (n - t))])
      p0 == Pos(ip, n, n)                     \* p0[i] = original index at position i
      pinv == InvPerm(p0, n)
      dg(j) == IF r <= 10 THEN Pow2(r - j) ELSE r - j + 1
      Cols == Fn([i \in 0 .. n - 1 |-> IF i = 0 \/ r = 0 THEN {} ELSE {H(i, t, 102) % Min(i, r) : t \in 1 .. 2}])
      Lv(i, k) == IF k >= r THEN 0 ELSE IF i = k THEN dg(k)
                  ELSE IF i > k /\ k \in Cols[i] THEN Sign(i, k, 103) ELSE 0
      L == Mat(n, Max(r, 1), Lv)
      Sup(i) == {k \in Cols[i] \cup {i} : k < r}
      G(i, j) == SumSet(LAMBDA k : L[i][k] * L[j][k], Sup(i) \cap Sup(j))
      A == Mat(n, n, LAMBDA i, j : G(pinv[i], pinv[j]))
  IN [fam |-> "pst", m |-> n, n |-> n, v |-> r, den |-> 1, rank |-> r, ok |-> (r = n),
      A |-> MatSeq(A, n, n), L |-> MatSeq(L, n, r), piv |-> VecSeq(p0, n),
      tol |-> 30 * n * Norm1(A, n, n)]
PstCases == {[f |-> "pst", m |-> n, n |-> n, v |-> r, w |-> 0] : n \in 1 .. Small, r \in 0 .. Small}
              \cup UNION {{[f |-> "pst", m |-> b % 1000, n |-> b % 1000, v |-> r, w |-> 0] :
                               r \in {b % 1000, (b % 1000) - 4, (b % 1000) \div 2 - 3}} : b \in Big}
PstValid(x) == x.v >= 0 /\ x.v <= x.n

(****************************************************************************)
(* "ql":  A = Q0 * L0 with Q0 an m x m signed permutation and L0 the m x n   *)
(* lower trapezoidal matrix of the QL factorization: L0[i][j] # 0 only for   *)
(* j - i <= n - m, "diagonal" elements L0[m-k+t][n-k+t] = +-2^e (k =         *)
(* min(m,n)), other entries in -3..3.  For m >= n the last n rows of L0 form *)
(* a non-singular lower triangle, for m < n the last m columns do: the QL    *)
(* factorization of A is unique up to the signs S of the k reflector         *)
(* directions, L = S*L0 (rows m-k..m-1) and Q(:, m-k+t) = s_t*Q0(:, m-k+t).  *)
(* The transposed array A^T = L0^T * Q0^T is the RQ factorization of A^T     *)
(* (R = L0^T upper trapezoidal in LAPACK's RQ layout, Q = Q0^T), unique up   *)
(* to R*S, S*Q.  The harness reads S off the computed triangular factor.     *)
(* Products with Q0 are printed as in the "qr" family.                       *)
(****************************************************************************)
QlInst(m, n) ==
  LET k == Min(m, n)
      ip == Fn([t \in 0 .. m - 1 |-> t + (H(t, m + n, 111) % (m - t))])
      perm == Pos(ip, m, m)
      qidx == InvPerm(perm, m)
      sg == Fn([t \in 0 .. m - 1 |-> Sign(t, m, 112)])
      Lv(i, j) == IF j - i > n - m THEN 0
                  ELSE IF j - i = n - m THEN Sign(i, j, 113) * Pow2(H(i, j, 114) % 4)
                  ELSE (H(i, j, 115) % 7) - 3
      L0 == Mat(m, n, Lv)
      A == Mat(m, n, LAMBDA i, c : sg[qidx[i]] * L0[qidx[i]][c])
      Qv(i, t) == IF perm[t] = i THEN sg[t] ELSE 0
      NC == Nrhs
      C == Mat(m, NC, LAMBDA i, j : (H(i, j, 116) % 9) - 4)
      CR == Mat(NC, m, LAMBDA i, j : (H(i, j, 117) % 9) - 4)
      QC(i, j) == sg[qidx[i]] * C[qidx[i]][j]
      QTC(t, j) == sg[t] * C[perm[t]][j]
      CQ(i, t) == sg[t] * CR[i][perm[t]]
      CQT(i, j) == sg[qidx[j]] * CR[i][qidx[j]]
  IN [fam |-> "ql", m |-> m, n |-> n, v |-> 0, den |-> 1, k |-> k,
      A |-> MatSeq(A, m, n), LL |-> MatSeq(L0, m, n), Q |-> MatSeq(Mat(m, m, Qv), m, m),
      qidx |-> VecSeq(qidx, m), perm |-> VecSeq(perm, m),
      R |-> NC, C |-> MatSeq(C, m, NC), CR |-> MatSeq(CR, NC, m),
      QC |-> MatSeq(Mat(m, NC, QC), m, NC), QTC |-> MatSeq(Mat(m, NC, QTC), m, NC),
      CQ |-> MatSeq(Mat(NC, m, CQ), NC, m), CQT |-> MatSeq(Mat(NC, m, CQT), NC, m),
      tol |-> 30 * Max(Max(m, n), 1) * Norm1(A, m, n)]
QlCases == {[f |-> "ql", m |-> s[1], n |-> s[2], v |-> 0, w |-> 0] : s \in Shapes2}

(****************************************************************************)
(* "lauum":  U upper triangular with integer entries in -3..3;               *)
(*   P = U * U^T  (Dlauum / Dlauu2 with uplo = Upper store its upper         *)
(*   triangle).  With L = U^T stored in the lower triangle, L^T * L = U*U^T  *)
(*   = P again, and its lower triangle is stored.  Exact in floating point.  *)
(****************************************************************************)
LauumInst(n) ==
  LET U == Mat(n, n, LAMBDA i, j : IF j < i THEN 0 ELSE (H(i, j, 121) % 7) - 3)
      P == Mat(n, n, LAMBDA i, j : SumR(LAMBDA k : U[i][k] * U[j][k], Max(i, j), n - 1))
  IN [fam |-> "lauum", m |-> n, n |-> n, v |-> 0, den |-> 1,
      T |-> MatSeq(U, n, n), PI |-> MatSeq(P, n, n), tol |-> 30 * Max(n, 1) * Norm1(P, n, n)]
LauumCases == {[f |-> "lauum", m |-> n, n |-> n, v |-> 0, w |-> 0] : n \in (0 .. Small + 2) \cup {x % 1000 : x \in Big}}

(****************************************************************************)
(* "tb": triangular band systems.  T upper triangular with bandwidth kd,     *)
(* diagonal +-2^e (variant 1: unit diagonal, not referenced; variant 2: one  *)
(* exactly zero diagonal element, ok = false and B unchanged), other band    *)
(* entries in -3..3; B = T*X0, BT = T^T*X0 with integer X0.  Substitution    *)
(* forms only integers (the partial sums of b_i - sum t_ij x_j) and divides  *)
(* an integer multiple of 2^e by 2^e: exact.  The lower variants are driven  *)
(* with T^T stored in the lower band.                                        *)
(****************************************************************************)
TbInst(n, kd, v) ==
  LET kz == IF v = 2 THEN H(n, kd, 131) % n ELSE -1
      Tv(i, j) == IF j < i \/ j - i > kd THEN 0
                  ELSE IF i = j THEN (IF v = 1 THEN 1 ELSE IF i = kz THEN 0 ELSE Sign(i, n, 132) * Pow2(H(i, kd, 133) % 3))
                  ELSE (H(i, j, 134) % 7) - 3
      T == Mat(n, n, Tv)
      R == Nrhs
      X == Mat(n, R, LAMBDA i, j : (H(i, j, 135) % 9) - 4)
      B == Mat(n, R, LAMBDA i, j : SumR(LAMBDA k : T[i][k] * X[k][j], i, Min(n - 1, i + kd)))
      BT == Mat(n, R, LAMBDA i, j : SumR(LAMBDA k : T[k][i] * X[k][j], Max(0, i - kd), i))
  IN [fam |-> "tb", m |-> n, n |-> n, kd |-> kd, v |-> v, den |-> 1, unit |-> (v = 1), ok |-> (v # 2), kz |-> kz,
      T |-> MatSeq(T, n, n), R |-> R, X |-> MatSeq(X, n, R), B |-> MatSeq(B, n, R), BT |-> MatSeq(BT, n, R),
      tol |-> 100 * Max(n, 1) * (1 + NormMax(X, n, R))]
TbCases == {[f |-> "tb", m |-> kd, n |-> n, v |-> v, w |-> 0] : n \in 0 .. Small + 1, kd \in 0 .. Small, v \in {0, 1, 2}}
             \cup {[f |-> "tb", m |-> b % 1000, n |-> b \div 1000, v |-> v, w |-> 0] : b \in Big, v \in {0, 1}}
TbValid(x) == x.v # 2 \/ x.n >= 1

(****************************************************************************)
(* "con": condition estimators.                                             *)
(*                                                                          *)
(* Every instance is an integer matrix A (n x n) together with an integer    *)
(* matrix W and an integer wd > 0 such that  A * W = wd * I,  i.e.           *)
(*        M := A^{-1} = W / wd      exactly                                  *)
(* (PlantedXLemmas!ConLemma checks the product).  The routines estimate      *)
(* ||M||_1 (norm = one) or ||M||_inf = ||M^T||_1 (norm = infinity) with      *)
(* DLACN2 (Hager / Higham), which is handed x := M*x and x := M^T*x.  Two    *)
(* facts hold for every input:                                               *)
(*  (upper)  every value the estimator can return is  ||M*x||_1 / ||x||_1    *)
(*           for some x # 0 (or 2/(3n) * ||M*b||_1 with ||b||_1 = 3n/2),     *)
(*           hence   est <= ||M||_1;                                         *)
(*  (lower)  the first iterate is x = u = (1/n, .., 1/n) and est starts at   *)
(*           ||M*u||_1; with xi = sign(M*u), z = M^T*xi the next probe is    *)
(*           e_j, j = argmax |z_j|, and                                      *)
(*              ||M*e_j||_1 >= |xi^T*M*e_j| = |z_j| >= sum_j z_j/n = ||M*u||_1;*)
(*           the same argument makes every later probe at least as large,   *)
(*           so the iteration never ends below ||M*u||_1; every exit of the  *)
(*           iteration (repeated sign vector, no increase, no new index,     *)
(*           iteration limit) passes through the final stage                 *)
(*              est := max(est, 2 * ||M*b||_1 / (3n)),                       *)
(*              b_i = (-1)^i * (1 + i/(n-1)),    i = 0..n-1   (n > 1);       *)
(*           for n = 1 the result is |M| itself.  Hence                      *)
(*              est >= max(||M*u||_1, 2*||M*b||_1/(3n)).                     *)
(* Both bounds are printed as exact rationals <<num, den>>, for M ("one")    *)
(* and for M^T ("inf"), with ||A||_1 and ||A||_inf, so that                  *)
(*        lower*(1-tol) <= 1/(rcond*||A||) <= upper*(1+tol)                  *)
(* is decidable on the value a routine returned.  The rounding allowance     *)
(* tol = n*2^-40 is sound because ConLemma bounds the condition numbers:     *)
(* kappa_1(A), kappa_inf(A) <= 256, and the solves are backward stable, so   *)
(* computed norms deviate by a relative c*n*kappa*2^-53 with a modest c.     *)
(*                                                                          *)
(* Kinds (field kind):                                                      *)
(*  0 "lu"    A = L*U, L unit lower, U = Uu*D, Uu unit upper (entries in     *)
(*            {-1,0,1}, sparse), D = diag(+-1, +-2):  W = 2 * U^{-1} * L^{-1} *)
(*            from the integer inverses of unit triangular matrices, wd = 2. *)
(*            The exact factors are handed to Dgecon (field LU, packed).     *)
(*  1 "tri"   A = U of kind 0 (variant: unit diagonal): Dtrcon with both     *)
(*            uplo (lower = A^T stored) and Dgecon with L = I.               *)
(*  2 "r1"    diagonal plus rank one: W = c*I + x*y^T, A = (c + y^T*x)*I -   *)
(*            x*y^T with x, y in {-1,0,1}^n and c = 2n+1, so that            *)
(*            A*W = c*(c + y^T*x)*I; dense; Dgecon after Dgetrf.             *)
(*  3 "hager" W = q*[[2,e,e],[e,1+t,-t],[e,-t,1+t]] with e = 1/q (the family *)
(*            on which Hager's iteration stops at column 0, a local maximum  *)
(*            2+2e, while ||M||_1 = 1+2t+e; only the final stage rescues the *)
(*            estimate), A = adj(W), wd = det(W).  A is symmetric positive   *)
(*            definite: Dgecon after Dgetrf, Dpocon after Dpotrf.            *)
(*  4 "band"  A = C*C^T, C = L*Dg lower band (bandwidth kd), L unit with     *)
(*            entries in {-1,0,1}, Dg = diag(1 or 2): W = (2C^{-1})^T *      *)
(*            (2C^{-1}), wd = 4.  The exact factor C is handed to Dpbcon and *)
(*            Dpocon.                                                        *)
(* For kinds 2 and 3 the harness needs the factorization of A from Dgetrf:   *)
(* ConLemma checks with the exact reference elimination that no interchange  *)
(* occurs and that every pivot exceeds the other candidates by 1/64, so the  *)
(* computed factorization has P = I and the estimator works on A itself.     *)
(****************************************************************************)
\* inverse of a unit lower triangular integer matrix, row by row
RECURSIVE LInvRows(_, _, _, _)
LInvRows(L, X, i, n) ==
  IF i = n THEN X
  ELSE LInvRows(L, Fn([r \in 0 .. n - 1 |-> IF r # i THEN X[r]
                        ELSE Fn([j \in 0 .. n - 1 |-> IF j > i THEN 0 ELSE IF j = i THEN 1
                                  ELSE 0 - SumR(LAMBDA k : L[i][k] * X[k][j], j, i - 1)])]), i + 1, n)
LInv(L, n) == LInvRows(L, Mat(n, n, LAMBDA i, j : 0), 0, n)
Tr(X, n) == Mat(n, n, LAMBDA i, j : X[j][i])
MulN(X, Y, n) == Mat(n, n, LAMBDA i, j : SumR(LAMBDA k : X[i][k] * Y[k][j], 0, n - 1))

\* the four sums that the bounds are made of, for M = W/wd (t = 0) or M^T (t = 1)
ConB(W, wd, n, t) ==
  LET E(i, j) == IF t = 0 THEN W[i][j] ELSE W[j][i]
      nrm == MaxR(LAMBDA j : SumR(LAMBDA i : Abs(E(i, j)), 0, n - 1), 0, n - 1)                  \* wd * ||M||_1
      su == SumR(LAMBDA i : Abs(SumR(LAMBDA j : E(i, j), 0, n - 1)), 0, n - 1)                    \* n * wd * ||M u||_1
      sb == SumR(LAMBDA i : Abs(SumR(LAMBDA j : E(i, j) * (IF j % 2 = 0 THEN 1 ELSE -1) * (n - 1 + j), 0, n - 1)), 0, n - 1)
                                                                                                  \* (n-1) * wd * ||M b||_1
  IN [up |-> <<nrm, wd>>,
      lo |-> IF n = 1 THEN <<<<su, wd>>, <<su, wd>>>>
             ELSE <<<<su, n * wd>>, <<2 * sb, 3 * n * (n - 1) * wd>>>>]

ConRec(kind, n, kd, v, A, W, wd, LU, haveLU, CH, haveCH, spd, tri, unit) ==
  [fam |-> "con", kind |-> kind, m |-> n, n |-> n, kd |-> kd, v |-> v, den |-> 1,
   A |-> MatSeq(A, n, n), W |-> MatSeq(W, n, n), wd |-> wd,
   nA |-> <<Norm1(A, n, n), NormInf(A, n, n)>>,
   one |-> ConB(W, wd, n, 0), inf |-> ConB(W, wd, n, 1),
   LU |-> MatSeq(LU, n, n), haveLU |-> haveLU, L |-> MatSeq(CH, n, n), haveCH |-> haveCH,
   \* gecon: Dgecon is driven (with the factors LU if haveLU, otherwise with the factorization that
   \* Dgetrf computes, for which ConLemma excludes interchanges: kinds 2 and 3)
   gecon |-> (haveLU \/ kind \in {2, 3}),
   spd |-> spd, tri |-> tri, unit |-> unit, tol |-> 0]

DInv2(d) == (IF d < 0 THEN -1 ELSE 1) * (2 \div Abs(d))      \* 2/d for d in {+-1, +-2}
ConLuParts(n, v) ==
  LET LC == Fn([i \in 0 .. n - 1 |-> IF i = 0 THEN {} ELSE {H(i, t + v, 141) % i : t \in 1 .. 2}])
      UC == Fn([i \in 0 .. n - 1 |-> IF i = n - 1 THEN {} ELSE {i + 1 + (H(i, t + v, 142) % (n - 1 - i)) : t \in 1 .. 2}])
      L == Mat(n, n, LAMBDA i, j : IF i = j THEN 1 ELSE IF j \in LC[i] THEN Sign(i, j + v, 143) ELSE 0)
      Uu == Mat(n, n, LAMBDA i, j : IF i = j THEN 1 ELSE IF j \in UC[i] THEN Sign(i, j + v, 144) ELSE 0)
      d == Fn([j \in 0 .. n - 1 |-> Sign(j, n + v, 145) * (1 + (H(j, n + v, 146) % 2))])
  IN [L |-> L, Uu |-> Uu, d |-> d]

ConInst(kind, n, v, w) ==
  LET Z == Mat(n, n, LAMBDA i, j : 0)
  IN CASE kind = 0 ->
       LET p == ConLuParts(n, v)
           U == Mat(n, n, LAMBDA i, j : p.Uu[i][j] * p.d[j])
           A == MulN(p.L, U, n)
           Li == LInv(p.L, n)
           Ui == Tr(LInv(Tr(p.Uu, n), n), n)                                        \* Uu^{-1}
           Ud == Mat(n, n, LAMBDA i, j : DInv2(p.d[i]) * Ui[i][j])                   \* 2 * D^{-1} * Uu^{-1} = 2 * U^{-1}
           W == MulN(Ud, Li, n)
           LU == Mat(n, n, LAMBDA i, j : IF i > j THEN p.L[i][j] ELSE U[i][j])
       IN ConRec(0, n, 0, v, A, W, 2, LU, TRUE, Z, FALSE, FALSE, FALSE, FALSE)
     [] kind = 1 ->
       LET p == ConLuParts(n, v)
           unit == (w = 1)
           U == Mat(n, n, LAMBDA i, j : p.Uu[i][j] * (IF unit THEN 1 ELSE p.d[j]))
           Ui == Tr(LInv(Tr(p.Uu, n), n), n)
           W == Mat(n, n, LAMBDA i, j : (IF unit THEN 2 ELSE DInv2(p.d[i])) * Ui[i][j])
       IN ConRec(1, n, 0, v, U, W, 2, U, TRUE, Z, FALSE, FALSE, TRUE, unit)
     [] kind = 2 ->
       LET x == Fn([i \in 0 .. n - 1 |-> (H(i, n + v, 151) % 3) - 1])
           y == Fn([i \in 0 .. n - 1 |-> (H(i, n + v, 152) % 3) - 1])
           c == 2 * n + 1
           sp == c + SumR(LAMBDA i : x[i] * y[i], 0, n - 1)          \* >= n + 1
           \* (c*I + x*y^T) * ((c + y^T*x)*I - x*y^T) = c*(c + y^T*x)*I ;  A is strictly diagonally
           \* dominant by columns (diagonal >= n, off-diagonal column sum <= n - 1)
           Wm == Mat(n, n, LAMBDA i, j : (IF i = j THEN c ELSE 0) + x[i] * y[j])
           Am == Mat(n, n, LAMBDA i, j : (IF i = j THEN sp ELSE 0) - x[i] * y[j])
       IN ConRec(2, n, 0, v, Am, Wm, c * sp, Z, FALSE, Z, FALSE, FALSE, FALSE, FALSE)
     [] kind = 3 ->
       LET q == Pow2(1 + v)          \* e = 1/q
           t == Pow2(w)
           Wm == <<<<2 * q, 1, 1>>, <<1, q * (1 + t), 0 - q * t>>, <<1, 0 - q * t, q * (1 + t)>>>>
           B(i, j) == Wm[i + 1][j + 1]
           Adj(i, j) == B((j + 1) % 3, (i + 1) % 3) * B((j + 2) % 3, (i + 2) % 3)
                        - B((j + 1) % 3, (i + 2) % 3) * B((j + 2) % 3, (i + 1) % 3)
           det == SumR(LAMBDA j : B(0, j) * Adj(j, 0), 0, 2)
       IN ConRec(3, 3, 0, v, Mat(3, 3, Adj), Mat(3, 3, B), det, Z, FALSE, Z, FALSE, TRUE, FALSE, FALSE)
     [] kind = 4 ->
       LET kd == w
           L == Mat(n, n, LAMBDA i, j : IF i = j THEN 1 ELSE IF j < i /\ i - j <= kd THEN (H(i, j + v, 161) % 3) - 1 ELSE 0)
           dg == Fn([j \in 0 .. n - 1 |-> 1 + (H(j, n + v, 162) % 2)])
           C == Mat(n, n, LAMBDA i, j : L[i][j] * dg[j])
           Li == LInv(L, n)
           Ci2 == Mat(n, n, LAMBDA i, j : (2 \div dg[i]) * Li[i][j])                \* 2 * C^{-1}
           A == Mat(n, n, LAMBDA i, j : SumR(LAMBDA k : C[i][k] * C[j][k], 0, Min(i, j)))
           W == MulN(Tr(Ci2, n), Ci2, n)
       IN ConRec(4, n, kd, v, A, W, 4, Z, FALSE, C, TRUE, TRUE, FALSE, FALSE)

\* kappa_1 and kappa_inf at most 256 (the rounding allowance of the two-sided test relies on it)
ConKappaOK(I) == /\ I.nA[1] * I.one.up[1] <= 256 * I.wd
                 /\ I.nA[2] * I.inf.up[1] <= 256 * I.wd
ConCases0 == {[f |-> "con", m |-> 0, n |-> n, v |-> v, w |-> 0] : n \in 1 .. Small + 2, v \in 0 .. 3}
               \cup {[f |-> "con", m |-> 1, n |-> n, v |-> v, w |-> w] : n \in 1 .. Small + 2, v \in 0 .. 1, w \in 0 .. 1}
               \cup {[f |-> "con", m |-> 2, n |-> n, v |-> v, w |-> 0] : n \in 2 .. Small + 2, v \in 0 .. 3}
               \cup {[f |-> "con", m |-> 3, n |-> 3, v |-> v, w |-> w] : v \in 0 .. 2, w \in 0 .. 3}
               \cup {[f |-> "con", m |-> 4, n |-> n, v |-> v, w |-> w] : n \in 1 .. Small + 2, v \in 0 .. 1, w \in 0 .. 2}
ConValid(x) == (x.m = 4 => x.w <= Max(x.n - 1, 0)) /\ ConKappaOK(ConInst(x.m, x.n, x.v, x.w))

(****************************************************************************)
(* "nrm": norms.  One instance carries a list of items, one per matrix       *)
(* structure; each item has the effective full matrix E0 (zero outside the   *)
(* structure, mirrored for symmetric structures, ones on a unit diagonal)    *)
(* filled with integers in -9..9, its max / one / infinity norms, and a      *)
(* second matrix EF that differs from E0 in at most two elements of          *)
(* multiplicity one so that the sum of squares of EF is a perfect square     *)
(* fro^2 (fro = -1: not possible, Frobenius not judged):                     *)
(*   the "parity" element is set to 1 or 2 so that the sum S of the other    *)
(*   squares is not = 2 (mod 4); then S = d*e with d <= e of equal parity (d *)
(*   the largest such divisor below sqrt(S)), and the "fix-up" element is    *)
(*   y = (e-d)/2, so that S + y^2 = ((e+d)/2)^2.                             *)
(* Sums of squares of integers below 2^26 are exact in floating point and    *)
(* the square root of a perfect square is exact; the verdict nevertheless    *)
(* uses the rounding bound tolF = 30*max(r,c)*eps*fro.  The harness also     *)
(* scales EF by 2^e for the exponents e in exps (exact): the norm scales     *)
(* with it, without overflow or underflow.                                   *)
(****************************************************************************)
RECURSIVE ISqrtB(_, _, _)
ISqrtB(S, lo, hi) == IF lo >= hi THEN lo
                     ELSE LET mid == (lo + hi + 1) \div 2
                          IN IF mid * mid <= S THEN ISqrtB(S, mid, hi) ELSE ISqrtB(S, lo, mid - 1)
ISqrtX(S) == ISqrtB(S, 0, Min(S, 40000))
RECURSIVE BestD(_, _)
BestD(S, d) == IF d <= 1 THEN 1
               ELSE IF S % d = 0 /\ (d + S \div d) % 2 = 0 THEN d ELSE BestD(S, d - 1)
SumSq(E, r, c) == SumR(LAMBDA i : SumR(LAMBDA j : E[i][j] * E[i][j], 0, c - 1), 0, r - 1)

\* item of structure kind on an r x c effective matrix; In(i,j): inside the structure (value from the
\* fill), One(i,j): implicit one; sym: mirror; p1, p2: parity / fix-up positions (<<-1,-1>> = none)
NrmItem(kind, up, unit, kd, r, c, In(_, _), One(_, _), sym, p1, p2, salt) ==
  LET Fill(i, j) == LET a == IF sym /\ i > j THEN j ELSE i
                        b == IF sym /\ i > j THEN i ELSE j
                        h == (H(a, b, salt) % 19) - 9
                    IN IF h = 0 THEN 1 ELSE h
      E0 == Mat(r, c, LAMBDA i, j : IF One(i, j) THEN 1 ELSE IF In(i, j) THEN Fill(i, j) ELSE 0)
      At(E, p) == IF p[1] < 0 THEN 0 ELSE E[p[1]][p[2]]
      Sbase == SumSq(E0, r, c) - At(E0, p1) * At(E0, p1) - At(E0, p2) * At(E0, p2)
      v1 == IF p1[1] < 0 THEN 0 ELSE IF (Sbase + 1) % 4 = 2 THEN 2 ELSE 1
      S == Sbase + v1 * v1                                      \* everything but the fix-up element
      rt == ISqrtX(S)
      possible == IF p2[1] < 0 THEN rt * rt = S ELSE S % 4 # 2
      d == IF S = 0 THEN 0 ELSE BestD(S, rt)
      y == IF p2[1] < 0 THEN 0 ELSE IF S = 0 THEN At(E0, p2) ELSE (S \div d - d) \div 2
      fro == IF ~possible THEN -1 ELSE IF p2[1] < 0 THEN rt ELSE IF S = 0 THEN Abs(y) ELSE (S \div d + d) \div 2
      EF == Mat(r, c, LAMBDA i, j : IF <<i, j>> = p2 /\ possible THEN y ELSE IF <<i, j>> = p1 THEN v1 ELSE E0[i][j])
  IN [kind |-> kind, up |-> up, unit |-> unit, kd |-> kd, r |-> r, c |-> c,
      E0 |-> MatSeq(E0, r, c), EF |-> MatSeq(EF, r, c),
      n3 |-> <<NormMax(E0, r, c), Norm1(E0, r, c), NormInf(E0, r, c)>>, fro |-> fro,
      \* exponents of the scalings of EF (an implicit unit diagonal does not scale)
      exps |-> IF unit THEN <<0>> ELSE <<0, 1000, 0 - 1000>>,
      tolF |-> 30 * Max(Max(r, c), 1) * Max(fro, 0)]

None2 == <<-1, -1>>
NrmInst(m, n, v) ==
  LET k == Min(m, n)
      kd == IF k = 0 THEN 0 ELSE H(m, n, 171 + v) % k
      F(i, j) == FALSE
      corner(a, b) == IF a >= 1 /\ b >= 1 THEN <<0, 0>> ELSE None2
      last(a, b) == IF a * b > 1 THEN <<a - 1, b - 1>> ELSE None2
      ge == NrmItem("ge", TRUE, FALSE, 0, m, n, LAMBDA i, j : TRUE, F, FALSE, last(m, n), corner(m, n), 172 + v)
      sy == NrmItem("sy", TRUE, FALSE, 0, k, k, LAMBDA i, j : TRUE, F, TRUE, last(k, k), corner(k, k), 173 + v)
      tr(up, unit) ==
        NrmItem("tr", up, unit, 0, m, n,
                LAMBDA i, j : IF up THEN j >= i ELSE j <= i,
                LAMBDA i, j : unit /\ i = j, FALSE,
                IF ~unit THEN (IF k > 1 THEN <<k - 1, k - 1>> ELSE None2)
                ELSE IF up THEN (IF m >= 1 /\ n >= 3 THEN <<0, n - 1>> ELSE None2)
                ELSE (IF n >= 1 /\ m >= 3 THEN <<m - 1, 0>> ELSE None2),
                IF ~unit THEN corner(m, n)
                ELSE IF up THEN (IF m >= 1 /\ n >= 2 THEN <<0, 1>> ELSE None2)
                ELSE (IF n >= 1 /\ m >= 2 THEN <<1, 0>> ELSE None2),
                174 + v)
      sb == NrmItem("sb", TRUE, FALSE, kd, k, k, LAMBDA i, j : Abs(i - j) <= kd, F, TRUE, last(k, k), corner(k, k), 175 + v)
      gt == NrmItem("gt", TRUE, FALSE, 1, k, k, LAMBDA i, j : Abs(i - j) <= 1, F, FALSE, last(k, k), corner(k, k), 176 + v)
      st == NrmItem("st", TRUE, FALSE, 1, k, k, LAMBDA i, j : Abs(i - j) <= 1, F, TRUE, last(k, k), corner(k, k), 177 + v)
      \* upper Hessenberg (Dlanhs), general band with kl = kd sub- and ku super-diagonals (Dlangb),
      \* triangular band with kd off-diagonals (Dlantb)
      ku == IF n = 0 THEN 0 ELSE H(m, n, 178 + v) % n
      diag1 == IF k > 1 THEN <<1, 1>> ELSE None2
      hs == NrmItem("hs", TRUE, FALSE, 1, k, k, LAMBDA i, j : j >= i - 1, F, FALSE, last(k, k), corner(k, k), 179 + v)
      gb == [ku |-> ku] @@ NrmItem("gb", TRUE, FALSE, kd, m, n, LAMBDA i, j : j - i <= ku /\ i - j <= kd, F, FALSE,
                                   diag1, corner(m, n), 180 + v)
      tb(up, unit) ==
        NrmItem("tb", up, unit, kd, k, k,
                LAMBDA i, j : IF up THEN j >= i /\ j - i <= kd ELSE j <= i /\ i - j <= kd,
                LAMBDA i, j : unit /\ i = j, FALSE,
                IF ~unit THEN diag1
                ELSE IF kd >= 1 /\ k >= 3 THEN (IF up THEN <<1, 2>> ELSE <<2, 1>>) ELSE None2,
                IF ~unit THEN corner(k, k)
                ELSE IF kd >= 1 /\ k >= 2 THEN (IF up THEN <<0, 1>> ELSE <<1, 0>>) ELSE None2,
                181 + v)
  IN [fam |-> "nrm", m |-> m, n |-> n, v |-> v, den |-> 1,
      items |-> <<ge, sy, tr(TRUE, FALSE), tr(TRUE, TRUE), tr(FALSE, FALSE), tr(FALSE, TRUE), sb, gt, st,
                  hs, gb, tb(TRUE, FALSE), tb(TRUE, TRUE), tb(FALSE, FALSE), tb(FALSE, TRUE)>>,
      tol |-> 0]
NrmCases == {[f |-> "nrm", m |-> s[1], n |-> s[2], v |-> v, w |-> 0] : s \in Shapes2, v \in {0, 1}}

(****************************************************************************)
XCases == (IF XOn("lus") THEN {x \in LusCases : LusValid(x)} ELSE {})
          \cup (IF XOn("pst") THEN {x \in PstCases : PstValid(x)} ELSE {})
          \cup (IF XOn("ql") THEN QlCases ELSE {})
          \cup (IF XOn("lauum") THEN LauumCases ELSE {})
          \cup (IF XOn("con") THEN {x \in ConCases0 : ConValid(x)} ELSE {})
          \cup (IF XOn("tb") THEN {x \in TbCases : TbValid(x)} ELSE {})
          \cup (IF XOn("nrm") THEN NrmCases ELSE {})

XInst(x) == CASE x.f = "lus" -> LusInst(x.m, x.n, x.v, x.w)
              [] x.f = "pst" -> PstInst(x.n, x.v)
              [] x.f = "ql" -> QlInst(x.m, x.n)
              [] x.f = "lauum" -> LauumInst(x.n)
              [] x.f = "con" -> ConInst(x.m, x.n, x.v, x.w)
              [] x.f = "tb" -> TbInst(x.n, x.m, x.v)
              [] x.f = "nrm" -> NrmInst(x.m, x.n, x.v)

XInit == cs \in XCases
XSpec == XInit /\ [][Next]_cs
XEmit == PrintT(ToJson(XInst(cs)))
=============================================================================
