------------------------------- MODULE LaLib --------------------------------
(* Small exact-arithmetic library for the LAPACK specifications (property     *)
(* C02): integer hashing for formula-filled operands, finite sums, row        *)
(* interchange sequences (LAPACK ipiv convention, zero based), and rational   *)
(* arithmetic on normalised pairs <<num, den>> (den > 0, gcd = 1).            *)
(* Matrices are functions  [0..m-1 -> [0..n-1 -> value]].                     *)
EXTENDS Integers, Sequences, FiniteSets, TLC

Min(a, b) == IF a < b THEN a ELSE b
Max(a, b) == IF a < b THEN b ELSE a
Abs(x) == IF x < 0 THEN -x ELSE x

RECURSIVE SumR(_, _, _)
SumR(F(_), a, b) == IF a > b THEN 0 ELSE F(a) + SumR(F, a + 1, b)

RECURSIVE MaxR(_, _, _)
MaxR(F(_), a, b) == IF a > b THEN 0 ELSE Max(F(a), MaxR(F, a + 1, b))

RECURSIVE SumSet(_, _)
SumSet(F(_), S) == IF S = {} THEN 0
                   ELSE LET x == CHOOSE y \in S : TRUE IN F(x) + SumSet(F, S \ {x})

RECURSIVE Pow2(_)
Pow2(k) == IF k = 0 THEN 1 ELSE 2 * Pow2(k - 1)

\* Deterministic data salt. All arguments are small (i, j <= 400, s <= 60,
\* sd <= 96) so that every intermediate stays below 2^31.
Hash(i, j, s, sd) ==
  LET a == ((i + 1) * (j + 3) * 73 + i * 1009 + j * 9176 + s * 40099 + sd * 8111 + ((i * 7 + j * 13 + s) % 11) * 523) % 7919
      b == (a * a + 31 * a + 7 * i + 3 * j + s) % 7907      \* second, quadratic, mixing round
  IN (b * 89 + a) % 7901

\* matrices as 0-based functions; serialised as sequences of rows
\* TLC keeps [x \in S |-> e] as a lazy value that re-evaluates e at every application;
\* TLCEval materialises it (essential: everything below is built from such functions).
Fn(f) == TLCEval(f)
Mat(m, n, F(_, _)) == Fn([i \in 0 .. m - 1 |-> Fn([j \in 0 .. n - 1 |-> F(i, j)])])
MatSeq(A, m, n) == Fn([i \in 1 .. m |-> Fn([j \in 1 .. n |-> A[i - 1][j - 1]])])
VecSeq(v, n) == Fn([i \in 1 .. n |-> v[i - 1]])

(* Row interchanges.  ipiv is a function 0..k-1 -> 0..m-1 with ipiv[j] >= j.  *)
(* Applying the interchanges j = 0, 1, .., k-1 in this order to the rows of X *)
(* gives P*X.  Pos(ipiv, k, m)[r] is the row of X that ends at position r.    *)
SwapF(p, a, b) == Fn([r \in DOMAIN p |-> IF r = a THEN p[b] ELSE IF r = b THEN p[a] ELSE p[r]])
RECURSIVE PosFrom(_, _, _, _)
PosFrom(p, ipiv, j, k) == IF j = k THEN p ELSE PosFrom(SwapF(p, j, ipiv[j]), ipiv, j + 1, k)
Pos(ipiv, k, m) == PosFrom(Fn([r \in 0 .. m - 1 |-> r]), ipiv, 0, k)
\* inverse of a permutation given as a function on 0..m-1
InvPerm(p, m) == Fn([r \in 0 .. m - 1 |-> CHOOSE s \in 0 .. m - 1 : p[s] = r])

(******************************* rationals **********************************)
RECURSIVE Gcd(_, _)
Gcd(a, b) == IF b = 0 THEN a ELSE Gcd(b, a % b)
RNorm(n, d) == LET g == Gcd(Abs(n), Abs(d))
                   s == IF d < 0 THEN -1 ELSE 1
               IN <<(s * n) \div g, (s * d) \div g>>
RI(n) == <<n, 1>>
RAdd(x, y) == RNorm(x[1] * y[2] + y[1] * x[2], x[2] * y[2])
RSub(x, y) == RNorm(x[1] * y[2] - y[1] * x[2], x[2] * y[2])
RMul(x, y) == RNorm(x[1] * y[1], x[2] * y[2])
RDiv(x, y) == RNorm(x[1] * y[2], x[2] * y[1])
RZero(x) == x[1] = 0
RAbsLt(x, y) == Abs(x[1]) * y[2] < Abs(y[1]) * x[2]
RNeg(x) == <<-x[1], x[2]>>
RECURSIVE RSumR(_, _, _)
RSumR(F(_), a, b) == IF a > b THEN <<0, 1>> ELSE RAdd(F(a), RSumR(F, a + 1, b))
=============================================================================
