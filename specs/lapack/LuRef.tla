------------------------------- MODULE LuRef --------------------------------
(* Property C02: reference semantics of unblocked LU with partial pivoting    *)
(* (LAPACK Dgetf2) over exact rationals.  Shared by LuBlocked (R1 model of    *)
(* the blocked driver) and PlantedLemmas (uniqueness of planted instances).   *)
EXTENDS LaLib

Rows(X) == DOMAIN X
RAbs(x) == <<Abs(x[1]), x[2]>>

(************************ the unblocked algorithm ***************************)
\* index (relative to r0+jj) of the first entry of largest modulus in column c, rows lo..hi
RECURSIVE ArgMax(_, _, _, _, _)
ArgMax(X, c, lo, hi, best) ==
  IF lo > hi THEN best
  ELSE ArgMax(X, c, lo + 1, hi, IF RAbsLt(X[best][c], X[lo][c]) THEN lo ELSE best)

\* One column step of Dgetf2 on the sub-matrix rows r0..r0+mm-1, columns c0..c0+nn-1.
\* S = [A, piv, ok];  piv collects the local (sub-matrix relative) pivot rows.
Getf2Col(S, r0, c0, mm, nn, jj) ==
  LET X  == S.A
      r  == r0 + jj
      c  == c0 + jj
      jp == ArgMax(X, c, r, r0 + mm - 1, r)
      zero == RZero(X[jp][c])
      \* swap rows r and jp over the sub-matrix columns only
      Y == IF zero \/ jp = r THEN X
           ELSE Fn([i \in Rows(X) |-> IF i = r THEN Fn([k \in DOMAIN X[i] |-> IF k >= c0 /\ k < c0 + nn THEN X[jp][k] ELSE X[i][k]])
                                   ELSE IF i = jp THEN Fn([k \in DOMAIN X[i] |-> IF k >= c0 /\ k < c0 + nn THEN X[r][k] ELSE X[i][k]])
                                   ELSE X[i]])
      \* scale the column below the pivot
      Z == IF zero THEN Y
           ELSE Fn([i \in Rows(Y) |-> IF i > r /\ i < r0 + mm
                                      THEN Fn([k \in DOMAIN Y[i] |-> IF k = c THEN RDiv(Y[i][c], Y[r][c]) ELSE Y[i][k]])
                                      ELSE Y[i]])
      \* rank-one update of the trailing sub-matrix
      W == Fn([i \in Rows(Z) |-> IF i > r /\ i < r0 + mm
                                 THEN Fn([k \in DOMAIN Z[i] |-> IF k > c /\ k < c0 + nn
                                                               THEN RSub(Z[i][k], RMul(Z[i][c], Z[r][k])) ELSE Z[i][k]])
                                 ELSE Z[i]])
  IN [A |-> W, piv |-> Append(S.piv, jp - r0), ok |-> S.ok /\ ~zero]

RECURSIVE Getf2From(_, _, _, _, _, _)
Getf2From(S, r0, c0, mm, nn, jj) ==
  IF jj >= Min(mm, nn) THEN S ELSE Getf2From(Getf2Col(S, r0, c0, mm, nn, jj), r0, c0, mm, nn, jj + 1)
Getf2(X, r0, c0, mm, nn) == Getf2From([A |-> X, piv |-> <<>>, ok |-> TRUE], r0, c0, mm, nn, 0)
=============================================================================
