SPECIFICATION Spec
CONSTANTS
  Fam = "@FAM@"
  Small = @SMALL@
  Big = @BIG@
  Nrhs = @NRHS@
  Seed = @SEED@
INVARIANTS LuLemma SolveLemma CholLemma QrLemma LarftLemma PivotLemma InverseLemma LsLemma TdLemma AuxLemma
CHECK_DEADLOCK FALSE
