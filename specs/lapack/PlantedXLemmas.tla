--------------------------- MODULE PlantedXLemmas ---------------------------
(* Property C02, role R1: the lemmas behind the instances of PlantedX.tla,    *)
(* checked by TLC on every instance of the bounded case space (same Init as   *)
(* the generator).                                                            *)
(*  LusLemma    the exact reference elimination (LuRef!Getf2, rationals)      *)
(*              returns the printed factors / interchanges / ok; on every     *)
(*              stage every entry, every multiplier and every product l*u is  *)
(*              an integer multiple of 1/2 (of 2^(sc-1) after scaling) of     *)
(*              modulus <= 2^20, |l| <= 1, and 2^(sc-1) >= 2^-1074,           *)
(*              2^(sc+21) <= 2^1023: all floating point operations of any     *)
(*              elimination order are exact;                                  *)
(*  PstLemma    the exact reference pivoted Cholesky (complete pivoting,      *)
(*              integer arithmetic) finds a strictly unique pivot at every    *)
(*              step, the planted order, the planted factor and rank, and an  *)
(*              exactly zero remainder;                                       *)
(*  QlLemma     Q0 orthogonal, A = Q0*L0, L0 lower trapezoidal in the QL      *)
(*              layout with non-zero diagonal, products with Q0 as printed;   *)
(*  LauumLemma, TbLemma   the printed products are the defining sums;         *)
(*  ConLemma    A*W = wd*I, lower <= upper for both norms, kappa <= 256, the  *)
(*              factors handed over multiply to A, and where the harness must *)
(*              factor A itself no interchange can occur;                     *)
(*  NrmLemma    the sum of squares of EF is fro^2, EF differs from E0 in at   *)
(*              most two elements, symmetric structures are symmetric.        *)
EXTENDS PlantedX, LuRef

XI == XInst(cs)
Z0(S, m, n) == Fn([i \in 0 .. m - 1 |-> Fn([j \in 0 .. n - 1 |-> S[i + 1][j + 1]])])   \* 0-based view
RatOf(S, m, n, den) == Fn([i \in 0 .. m - 1 |-> Fn([j \in 0 .. n - 1 |-> RNorm(S[i + 1][j + 1], den)])])
Half(x) == x[2] \in {1, 2}

RECURSIVE LusStages(_, _, _, _)
LusStages(S, m, n, jj) ==
  /\ \A i \in 0 .. m - 1, k \in 0 .. n - 1 : Half(S.A[i][k]) /\ Abs(S.A[i][k][1]) <= 1048576
  /\ IF jj >= Min(m, n) THEN TRUE
     ELSE LET T == Getf2Col(S, 0, 0, m, n, jj)
          IN /\ \A i \in jj + 1 .. m - 1 : Half(T.A[i][jj]) /\ Abs(T.A[i][jj][1]) <= 1        \* multipliers in {0, +-1/2, +-1}
             /\ \A i \in jj + 1 .. m - 1, k \in jj + 1 .. n - 1 : Half(RMul(T.A[i][jj], T.A[jj][k]))
             /\ LusStages(T, m, n, jj + 1)

LusLemma ==
  cs.f = "lus" =>
    LET I == TLCEval(XI)
        m == I.m
        n == I.n
        A0 == RatOf(I.A, m, n, I.den)
        S == Getf2(A0, 0, 0, m, n)
    IN /\ I.den = 2
       /\ S.A = RatOf(I.LU, m, n, I.den)
       /\ S.ok = I.ok
       /\ \A j \in 1 .. Min(m, n) : S.piv[j] = I.ipiv[j]
       /\ LusStages([A |-> A0, piv |-> <<>>, ok |-> TRUE], m, n, 0)
       \* every partial sum of a_ij - sum_k l_ik*u_kj, in units of 1/2
       /\ \A i \in 1 .. m, j \in 1 .. n :
            Abs(I.A[i][j]) + SumR(LAMBDA k : Abs(I.LU[i][k]) * Abs(I.LU[k][j]), 1, Min(i - 1, j)) <= 1048576
       /\ I.sc - 1 >= 0 - 1074
       /\ I.sc + 21 <= 1023

(***************************** pivoted Cholesky ******************************)
Sw(i, a, b) == IF i = a THEN b ELSE IF i = b THEN a ELSE i
RECURSIVE PstRef(_, _, _, _, _, _, _)
PstRef(X, Lm, pv, j, n, uniq, exact) ==
  IF j = n THEN [rank |-> n, piv |-> pv, L |-> Lm, uniq |-> uniq, exact |-> exact, rest |-> 0]
  ELSE LET best == CHOOSE i \in j .. n - 1 : \A t \in j .. n - 1 : X[t][t] < X[i][i] \/ (X[t][t] = X[i][i] /\ t >= i)
           d == X[best][best]
       IN IF d <= 0 THEN [rank |-> j, piv |-> pv, L |-> Lm, uniq |-> uniq, exact |-> exact, rest |-> d]
          ELSE LET u == \A t \in j .. n - 1 : t = best \/ X[t][t] < d
                   Y == Mat(n, n, LAMBDA a, b : X[Sw(a, j, best)][Sw(b, j, best)])
                   L1 == Fn([a \in 0 .. n - 1 |-> Lm[Sw(a, j, best)]])
                   pv1 == Fn([a \in 0 .. n - 1 |-> pv[Sw(a, j, best)]])
                   s == ISqrtX(d)
                   ex == s * s = d /\ \A a \in j + 1 .. n - 1 : Y[a][j] % s = 0
                   L2 == Mat(n, n, LAMBDA a, b : IF b # j THEN L1[a][b] ELSE IF a = j THEN s ELSE IF a > j THEN Y[a][j] \div s ELSE 0)
                   Y2 == Mat(n, n, LAMBDA a, b : IF a > j /\ b > j THEN Y[a][b] - L2[a][j] * L2[b][j] ELSE Y[a][b])
               IN PstRef(Y2, L2, pv1, j + 1, n, uniq /\ u, exact /\ ex)

PstLemma ==
  cs.f = "pst" =>
    LET I == TLCEval(XI)
        n == I.n
        r == I.rank
        A == Z0(I.A, n, n)
        S == PstRef(A, Mat(n, n, LAMBDA i, j : 0), Fn([i \in 0 .. n - 1 |-> i]), 0, n, TRUE, TRUE)
    IN /\ \A i, j \in 0 .. n - 1 : A[i][j] = A[j][i]
       /\ S.rank = r /\ S.uniq /\ S.exact /\ S.rest = 0
       /\ I.ok = (r = n)
       /\ \A j \in 0 .. r - 1 : S.piv[j] = I.piv[j + 1] /\ S.L[j][j] >= 2
       \* row i of the factor belongs to the original index piv[i]; beyond the rank the order of the
       \* rows is whatever the interchanges left (not determined), their contents are
       /\ \A i \in 0 .. n - 1, j \in 0 .. r - 1 :
            S.L[i][j] = I.L[(CHOOSE t \in 1 .. n : I.piv[t] = S.piv[i])][j + 1]
       /\ {I.piv[i] : i \in 1 .. n} = 0 .. n - 1

(********************************* QL / RQ **********************************)
QlLemma ==
  cs.f = "ql" =>
    LET I == TLCEval(XI)
        m == I.m
        n == I.n
        k == I.k
        Q == Z0(I.Q, m, m)
        L == Z0(I.LL, m, n)
        A == Z0(I.A, m, n)
        C == Z0(I.C, m, I.R)
        CR == Z0(I.CR, I.R, m)
    IN /\ \A a, b \in 0 .. m - 1 : SumR(LAMBDA r : Q[r][a] * Q[r][b], 0, m - 1) = (IF a = b THEN 1 ELSE 0)
       /\ \A i \in 0 .. m - 1, j \in 0 .. n - 1 : (j - i > n - m => L[i][j] = 0) /\ (j - i = n - m => L[i][j] # 0)
       /\ \A t \in 0 .. k - 1 : L[m - k + t][n - k + t] # 0
       /\ \A i \in 0 .. m - 1, c \in 0 .. n - 1 : A[i][c] = SumR(LAMBDA t : Q[i][t] * L[t][c], 0, m - 1)
       /\ \A i \in 0 .. m - 1, j \in 0 .. I.R - 1 :
            /\ I.QC[i + 1][j + 1] = SumR(LAMBDA t : Q[i][t] * C[t][j], 0, m - 1)
            /\ I.QTC[i + 1][j + 1] = SumR(LAMBDA t : Q[t][i] * C[t][j], 0, m - 1)
            /\ I.CQ[j + 1][i + 1] = SumR(LAMBDA t : CR[j][t] * Q[t][i], 0, m - 1)
            /\ I.CQT[j + 1][i + 1] = SumR(LAMBDA t : CR[j][t] * Q[i][t], 0, m - 1)
       /\ \A i \in 0 .. m - 1 : Q[i][I.qidx[i + 1]] # 0

LauumLemma ==
  cs.f = "lauum" =>
    LET I == TLCEval(XI)
        n == I.n
        U == Z0(I.T, n, n)
        P == Z0(I.PI, n, n)
    IN /\ \A i \in 0 .. n - 1 : \A j \in 0 .. i - 1 : U[i][j] = 0
       /\ \A i, j \in 0 .. n - 1 : P[i][j] = SumR(LAMBDA t : U[i][t] * U[j][t], 0, n - 1) /\ P[i][j] = P[j][i]

TbLemma ==
  cs.f = "tb" =>
    LET I == TLCEval(XI)
        n == I.n
        T == Z0(I.T, n, n)
        X == Z0(I.X, n, I.R)
    IN /\ \A i, j \in 0 .. n - 1 : (j < i \/ j - i > I.kd) => T[i][j] = 0
       /\ I.ok = (\A i \in 0 .. n - 1 : T[i][i] # 0)
       /\ I.unit => \A i \in 0 .. n - 1 : T[i][i] = 1
       /\ \A i \in 0 .. n - 1, j \in 0 .. I.R - 1 :
            /\ I.B[i + 1][j + 1] = SumR(LAMBDA t : T[i][t] * X[t][j], 0, n - 1)
            /\ I.BT[i + 1][j + 1] = SumR(LAMBDA t : T[t][i] * X[t][j], 0, n - 1)

(**************************** condition estimators ***************************)
RLeq(x, y) == x[1] * y[2] <= y[1] * x[2]          \* x <= y for fractions with positive denominators
\* fraction-free elimination without interchanges; TRUE iff at the stages where partial pivoting has a
\* choice (k <= n-2) the diagonal entry is positive and exceeds every candidate below it by the factor 64/63
RECURSIVE NoPivot(_, _, _, _)
NoPivot(M, prev, k, n) ==
  IF k >= n - 1 THEN TRUE
  ELSE /\ M[k][k] > 0
       /\ \A i \in k + 1 .. n - 1 : 64 * Abs(M[i][k]) <= 63 * M[k][k]
       /\ IF k = n - 2 THEN TRUE
          ELSE NoPivot(Mat(n, n, LAMBDA i, j : IF i > k /\ j > k THEN (M[k][k] * M[i][j] - M[i][k] * M[k][j]) \div prev ELSE M[i][j]),
                       M[k][k], k + 1, n)

ConLemma ==
  cs.f = "con" =>
    LET I == TLCEval(XI)
        n == I.n
        A == Z0(I.A, n, n)
        W == Z0(I.W, n, n)
        LU == Z0(I.LU, n, n)
        C == Z0(I.L, n, n)
    IN /\ I.wd > 0
       /\ \A i, j \in 0 .. n - 1 : SumR(LAMBDA t : A[i][t] * W[t][j], 0, n - 1) = (IF i = j THEN I.wd ELSE 0)
       /\ \A b \in {I.one, I.inf} : b.up[2] > 0 /\ \A t \in 1 .. 2 : b.lo[t][2] > 0 /\ b.lo[t][1] >= 0 /\ RLeq(b.lo[t], b.up)
       /\ ConKappaOK(I)
       /\ I.haveLU => \A i, j \in 0 .. n - 1 :
            A[i][j] = SumR(LAMBDA t : (IF t = i THEN 1 ELSE LU[i][t]) * LU[t][j], 0, Min(i, j))
       /\ I.haveCH => /\ \A i, j \in 0 .. n - 1 : A[i][j] = SumR(LAMBDA t : C[i][t] * C[j][t], 0, Min(i, j))
                      /\ \A i \in 0 .. n - 1 : C[i][i] > 0 /\ \A j \in 0 .. n - 1 : (j > i \/ i - j > I.kd) => C[i][j] = 0
       /\ I.spd => \A i, j \in 0 .. n - 1 : A[i][j] = A[j][i]
       /\ I.tri => \A i \in 0 .. n - 1 : (\A j \in 0 .. i - 1 : A[i][j] = 0) /\ (I.unit => A[i][i] = 1)
       \* kinds whose factorization is computed by the routine under test: no interchange can occur
       /\ I.gecon = (I.haveLU \/ I.kind \in {2, 3})
       /\ I.kind = 2 => \A j \in 0 .. n - 1 : A[j][j] >= 1 + SumR(LAMBDA i : IF i = j THEN 0 ELSE Abs(A[i][j]), 0, n - 1)
       /\ I.kind = 3 => NoPivot(A, 1, 0, n)

(********************************** norms ***********************************)
NrmLemma ==
  cs.f = "nrm" =>
    LET I == TLCEval(XI)
    IN \A q \in 1 .. Len(I.items) :
         LET it == I.items[q]
             r == it.r
             c == it.c
             E0 == Z0(it.E0, r, c)
             EF == Z0(it.EF, r, c)
             mx == NormMax(EF, r, c)
             Ps == {<<i, j>> : i \in 0 .. r - 1, j \in 0 .. c - 1}
             pm == IF Ps = {} THEN <<-1, -1>>
                   ELSE CHOOSE p \in Ps : Abs(EF[p[1]][p[2]]) = mx
             \* sum of the squares of all elements but one of largest modulus (no 32-bit overflow)
             rest == SumR(LAMBDA i : SumR(LAMBDA j : IF <<i, j>> = pm THEN 0 ELSE EF[i][j] * EF[i][j], 0, c - 1), 0, r - 1)
         IN /\ it.fro >= 0 => (it.fro - mx) * (it.fro + mx) = rest
            /\ Cardinality({p \in Ps : E0[p[1]][p[2]] # EF[p[1]][p[2]]}) <= 2
            /\ it.kind \in {"sy", "sb", "st"} => \A p \in Ps : E0[p[1]][p[2]] = E0[p[2]][p[1]] /\ EF[p[1]][p[2]] = EF[p[2]][p[1]]
            /\ it.kind \in {"sb", "gt", "st"} => \A p \in Ps : Abs(p[1] - p[2]) > it.kd => (E0[p[1]][p[2]] = 0 /\ EF[p[1]][p[2]] = 0)
            /\ it.kind = "tr" => \A p \in Ps : /\ (IF it.up THEN p[2] < p[1] ELSE p[2] > p[1]) => (E0[p[1]][p[2]] = 0 /\ EF[p[1]][p[2]] = 0)
                                               /\ (it.unit /\ p[1] = p[2]) => (E0[p[1]][p[2]] = 1 /\ EF[p[1]][p[2]] = 1)
            /\ it.kind = "hs" => \A p \in Ps : p[2] < p[1] - 1 => (E0[p[1]][p[2]] = 0 /\ EF[p[1]][p[2]] = 0)
            /\ it.kind = "gb" => \A p \in Ps : (p[2] - p[1] > it.ku \/ p[1] - p[2] > it.kd) => (E0[p[1]][p[2]] = 0 /\ EF[p[1]][p[2]] = 0)
            /\ it.kind = "tb" => \A p \in Ps : /\ (((IF it.up THEN p[2] < p[1] ELSE p[2] > p[1]) \/ Abs(p[1] - p[2]) > it.kd)
                                                     => (E0[p[1]][p[2]] = 0 /\ EF[p[1]][p[2]] = 0))
                                                 /\ ((it.unit /\ p[1] = p[2]) => (E0[p[1]][p[2]] = 1 /\ EF[p[1]][p[2]] = 1))
            /\ it.n3[1] <= it.n3[2] /\ it.n3[1] <= it.n3[3]
=============================================================================
