------------------------------ MODULE Planted -------------------------------
(* Property C02 - generator of exactly representable ("planted") LAPACK       *)
(* instances together with their UNIQUE expected results.                     *)
(*                                                                            *)
(* Every matrix is built from factors with small integer / dyadic entries;    *)
(* the specification evaluates the defining products exactly in Z (all        *)
(* values are emitted as integers scaled by the power of two `den`), so the   *)
(* expected factors, pivots, solutions and inverses are known without         *)
(* running any factorization.  The lemmas that make the expected result       *)
(* unique (partial pivoting finds exactly the planted interchanges, Cholesky  *)
(* and Householder factors are unique up to the documented sign freedom) are  *)
(* checked by TLC on the reference algorithms in LuBlocked / CholBlocked /    *)
(* QrRef.                                                                     *)
(*                                                                            *)
(* Role: R2 generator.  Init ranges over the bounded case space selected by   *)
(* the constants; the invariant Emit prints one JSON object per case.         *)
EXTENDS LaLib, TLC, Json

CONSTANTS Fam,    \* family of instances to generate (a string)
          Small,  \* every shape with all dimensions in 0..Small is generated
          Big,    \* set of additional shapes encoded as m*1000 + n
          Nrhs,   \* number of right-hand-side columns emitted (the harness uses leading column subsets)
          Seed    \* data salt (VERIF_SEED)

VARIABLE c
Sd == Seed % 97

H(i, j, s) == Hash(i, j, s, Sd)
Sign(i, j, s) == IF H(i, j, s) % 2 = 0 THEN 1 ELSE -1
Norm1(A, m, n) == MaxR(LAMBDA j : SumR(LAMBDA i : Abs(A[i][j]), 0, m - 1), 0, n - 1)
NormInf(A, m, n) == MaxR(LAMBDA i : SumR(LAMBDA j : Abs(A[i][j]), 0, n - 1), 0, m - 1)
NormMax(A, m, n) == MaxR(LAMBDA i : MaxR(LAMBDA j : Abs(A[i][j]), 0, n - 1), 0, m - 1)

Shapes2 == {<<m, n>> : m \in 0 .. Small, n \in 0 .. Small}
             \cup {<<x \div 1000, x % 1000>> : x \in Big}

(****************************************************************************)
(* LU:  A = P0^T * L0 * U0.                                                 *)
(*  L0 unit lower trapezoidal (m x mn), off-diagonal entries in {0, +-1/2}, *)
(*     at most Q non-zeros per row at formula-chosen columns;               *)
(*  U0 upper trapezoidal (mn x n), diagonal +-2^k (k in 1..4), other        *)
(*     entries in -3..3;                                                    *)
(*  P0 given as LAPACK interchange sequence ipiv (ipiv[j] in j..m-1).       *)
(* Column j of the j-th Schur complement is u_jj times column j of the      *)
(* (row permuted) L0, so its entry of largest modulus is unique and sits in *)
(* row ipiv[j]: partial pivoting must return exactly (ipiv, L0, U0).        *)
(* Variant 1 plants one exactly zero pivot u_kk (and a zero column k of L0, *)
(* no interchange at k): the factorization is still unique under the        *)
(* reference semantics (first index of the maximum) and ok must be false.   *)
(* All values are emitted times den = 2.                                    *)
(****************************************************************************)
LuQ == 4
LuInst(m, n, v) ==
  LET mn == Min(m, n)
      kz == IF v = 1 THEN H(m, n, 5) % mn ELSE -1
      ipiv == Fn([j \in 0 .. mn - 1 |-> IF j = kz THEN j ELSE j + (H(j, m, 1) % (m - j))])
      Cols == Fn([i \in 0 .. m - 1 |-> IF i = 0 THEN {}
                 ELSE {x \in {H(i, t, 2) % i : t \in 1 .. LuQ} : x < mn /\ x # kz}])
      LNum(i, k) == IF k \in Cols[i] THEN Sign(i, k, 3) ELSE 0
      U(k, j) == IF k = j THEN (IF k = kz THEN 0 ELSE Sign(k, k, 4) * Pow2(1 + (H(k, k, 6) % 4)))
                 ELSE (H(k, j, 7) % 7) - 3
      LU2(i, j) == SumSet(LAMBDA k : LNum(i, k) * U(k, j), {k \in Cols[i] : k <= j})
                   + (IF i <= j THEN 2 * U(i, j) ELSE 0)
      LUm == Mat(m, n, LU2)
      inv == InvPerm(Pos(ipiv, mn, m), m)
      A == Fn([i \in 0 .. m - 1 |-> LUm[inv[i]]])
      F(i, j) == IF i > j THEN LNum(i, j) ELSE 2 * U(i, j)
      \* right-hand sides (square non-singular instances): planted integer solution X0,
      \* B = A * X0 and BT = A^T * X0 (values times den)
      R == IF m = n /\ v = 0 THEN Nrhs ELSE 0
      X(i, j) == (H(i, j, 8) % 9) - 4
      Xm == Mat(n, R, X)
      B(i, j) == SumR(LAMBDA k : A[i][k] * Xm[k][j], 0, n - 1)
      BT(i, j) == SumR(LAMBDA k : A[k][i] * Xm[k][j], 0, n - 1)
  IN [fam |-> "lu", m |-> m, n |-> n, v |-> v, den |-> 2,
      A |-> MatSeq(A, m, n), LU |-> MatSeq(Mat(m, n, F), m, n),
      ipiv |-> VecSeq(ipiv, mn), ok |-> (v = 0), kz |-> kz,
      R |-> R, X |-> MatSeq(Xm, n, R), B |-> MatSeq(Mat(n, R, B), n, R), BT |-> MatSeq(Mat(n, R, BT), n, R),
      \* tolerance of the property: 30 * max(m,n) * eps * ||A||_1, here in units of eps/den
      tol |-> 30 * Max(m, n) * Norm1(A, m, n)]

LuCases == {[m |-> s[1], n |-> s[2], v |-> v] : s \in Shapes2, v \in {0, 1}}
LuValid(x) == x.v = 0 \/ Min(x.m, x.n) >= 1

(****************************************************************************)
Cases == CASE Fam = "lu" -> {x \in LuCases : LuValid(x)}

Inst(x) == CASE Fam = "lu" -> LuInst(x.m, x.n, x.v)

Init == c \in Cases
Next == UNCHANGED c
Spec == Init /\ [][Next]_c

Emit == PrintT(ToJson(Inst(c)))
=============================================================================
