------------------------------ MODULE Planted -------------------------------
(* Property C02 - generator of exactly representable ("planted") LAPACK       *)
(* instances together with their UNIQUE expected results.                     *)
(*                                                                            *)
(* Every matrix is built from factors with small integer / dyadic entries;    *)
(* the specification evaluates the defining products exactly in Z (all        *)
(* values are emitted as integers scaled by the power of two `den`), so the   *)
(* expected factors, pivots, solutions and inverses are known without         *)
(* running any factorization.  The lemmas that make the expected result       *)
(* unique (partial pivoting finds exactly the planted interchanges, Cholesky  *)
(* and Householder factors are unique up to the documented sign freedom) are  *)
(* checked by TLC on the reference algorithms in LuBlocked / CholBlocked /    *)
(* QrRef.                                                                     *)
(*                                                                            *)
(* Role: R2 generator.  Init ranges over the bounded case space selected by   *)
(* the constants; the invariant Emit prints one JSON object per case.         *)
EXTENDS LaLib, TLC, Json

CONSTANTS Fam,    \* family of instances to generate (a string)
          Small,  \* every shape with all dimensions in 0..Small is generated
          Big,    \* set of additional shapes encoded as m*1000 + n
          Nrhs,   \* number of right-hand-side columns emitted (the harness uses leading column subsets)
          Seed    \* data salt (VERIF_SEED)

VARIABLE cs
Sd == Seed % 97

H(i, j, s) == Hash(i, j, s, Sd)
Sign(i, j, s) == IF H(i, j, s) % 2 = 0 THEN 1 ELSE -1
Norm1(A, m, n) == MaxR(LAMBDA j : SumR(LAMBDA i : Abs(A[i][j]), 0, m - 1), 0, n - 1)
NormInf(A, m, n) == MaxR(LAMBDA i : SumR(LAMBDA j : Abs(A[i][j]), 0, n - 1), 0, m - 1)
NormMax(A, m, n) == MaxR(LAMBDA i : MaxR(LAMBDA j : Abs(A[i][j]), 0, n - 1), 0, m - 1)

Shapes2 == {<<m, n>> : m \in 0 .. Small, n \in 0 .. Small}
             \cup {<<x \div 1000, x % 1000>> : x \in Big}

(****************************************************************************)
(* LU:  A = P0^T * L0 * U0.                                                 *)
(*  L0 unit lower trapezoidal (m x mn), off-diagonal entries in {0, +-1/2}, *)
(*     at most Q non-zeros per row at formula-chosen columns;               *)
(*  U0 upper trapezoidal (mn x n), diagonal +-2^k (k in 1..4), other        *)
(*     entries in -3..3;                                                    *)
(*  P0 given as LAPACK interchange sequence ipiv (ipiv[j] in j..m-1).       *)
(* Column j of the j-th Schur complement is u_jj times column j of the      *)
(* (row permuted) L0, so its entry of largest modulus is unique and sits in *)
(* row ipiv[j]: partial pivoting must return exactly (ipiv, L0, U0).        *)
(* Variant 1 plants one exactly zero pivot u_kk (and a zero column k of L0, *)
(* no interchange at k): the factorization is still unique under the        *)
(* reference semantics (first index of the maximum) and ok must be false.   *)
(* All values are emitted times den = 2.                                    *)
(****************************************************************************)
LuQ == 4
LuInst(m, n, v) ==
  LET mn == Min(m, n)
      kz == IF v = 1 THEN H(m, n, 5) % mn ELSE -1
      ipiv == Fn([j \in 0 .. mn - 1 |-> IF j = kz THEN j ELSE j + (H(j, m, 1) % (m - j))])
      Cols == Fn([i \in 0 .. m - 1 |-> IF i = 0 THEN {}
                 ELSE {x \in {H(i, t, 2) % i : t \in 1 .. LuQ} : x < mn /\ x # kz}])
      LNum(i, k) == IF k \in Cols[i] THEN Sign(i, k, 3) ELSE 0
      U(k, j) == IF k = j THEN (IF k = kz THEN 0 ELSE Sign(k, k, 4) * Pow2(1 + (H(k, k, 6) % 4)))
                 ELSE (H(k, j, 7) % 7) - 3
      LU2(i, j) == SumSet(LAMBDA k : LNum(i, k) * U(k, j), {k \in Cols[i] : k <= j})
                   + (IF i <= j THEN 2 * U(i, j) ELSE 0)
      LUm == Mat(m, n, LU2)
      inv == InvPerm(Pos(ipiv, mn, m), m)
      A == Fn([i \in 0 .. m - 1 |-> LUm[inv[i]]])
      F(i, j) == IF i > j THEN LNum(i, j) ELSE 2 * U(i, j)
      \* right-hand sides (square non-singular instances): planted integer solution X0,
      \* B = A * X0 and BT = A^T * X0 (values times den)
      R == IF m = n /\ v = 0 THEN Nrhs ELSE 0
      X(i, j) == (H(i, j, 8) % 9) - 4
      Xm == Mat(n, R, X)
      B(i, j) == SumR(LAMBDA k : A[i][k] * Xm[k][j], 0, n - 1)
      BT(i, j) == SumR(LAMBDA k : A[k][i] * Xm[k][j], 0, n - 1)
  IN [fam |-> "lu", m |-> m, n |-> n, v |-> v, den |-> 2,
      A |-> MatSeq(A, m, n), LU |-> MatSeq(Mat(m, n, F), m, n),
      ipiv |-> VecSeq(ipiv, mn), ok |-> (v = 0), kz |-> kz,
      R |-> R, X |-> MatSeq(Xm, n, R), B |-> MatSeq(Mat(n, R, B), n, R), BT |-> MatSeq(Mat(n, R, BT), n, R),
      \* tolerance of the property: 30 * max(m,n) * eps * ||A||_1, here in units of eps/den
      tol |-> 30 * Max(m, n) * Norm1(A, m, n)]

LuCases == {[m |-> s[1], n |-> s[2], v |-> v] : s \in Shapes2, v \in {0, 1}}
LuValid(x) == x.v = 0 \/ Min(x.m, x.n) >= 1

(****************************************************************************)
(* Cholesky:  A = L0 * D * L0^T,  L0 lower triangular, diagonal 2^k          *)
(* (k in 0..2), at most Q non-zero integers in -2..2 per row left of the     *)
(* diagonal.  Variant 0: D = I (positive definite; the factor with positive  *)
(* diagonal is unique: L0).  Variant 1: one d_k = -1 (indefinite), variant   *)
(* 2: one d_k = 0 (singular positive semidefinite): the leading minor of     *)
(* order k+1 is not positive, so every Cholesky algorithm must report        *)
(* failure.  Values are integers (den = 1).  Right-hand sides B = A * X0.    *)
(****************************************************************************)
ChQ == 4
ChInst(n, v) ==
  LET kb == IF v = 0 THEN -1 ELSE H(n, v, 15) % n
      d(k) == IF k = kb THEN (IF v = 1 THEN -1 ELSE 0) ELSE 1
      Cols == Fn([i \in 0 .. n - 1 |-> IF i = 0 THEN {} ELSE {H(i, t, 12) % i : t \in 1 .. ChQ}])
      Lv(i, k) == IF i = k THEN Pow2(H(i, i, 13) % 3)
                  ELSE IF k \in Cols[i] THEN Sign(i, k, 14) * (1 + (H(i, k, 16) % 2)) ELSE 0
      L == Mat(n, n, Lv)
      Av(i, j) == SumSet(LAMBDA k : L[i][k] * d(k) * L[j][k], (Cols[i] \cup {i}) \cap (Cols[j] \cup {j}))
      A == Mat(n, n, Av)
      R == IF v = 0 THEN Nrhs ELSE 0
      X(i, j) == (H(i, j, 18) % 9) - 4
      Xm == Mat(n, R, X)
      \* B = L0 * (L0^T * X0), both factors sparse
      Yv(k, j) == SumR(LAMBDA i : L[i][k] * Xm[i][j], k, n - 1)
      Y == Mat(n, R, Yv)
      Bv(i, j) == SumSet(LAMBDA k : L[i][k] * Y[k][j], Cols[i] \cup {i})
  IN [fam |-> "chol", m |-> n, n |-> n, v |-> v, den |-> 1,
      A |-> MatSeq(A, n, n), L |-> MatSeq(L, n, n), ok |-> (v = 0), kbad |-> kb,
      R |-> R, X |-> MatSeq(Xm, n, R), B |-> MatSeq(Mat(n, R, Bv), n, R),
      tol |-> 30 * Max(n, 1) * Norm1(A, n, n)]

Sizes1 == (0 .. Small) \cup {x % 1000 : x \in Big}
ChCases == {[n |-> n, v |-> v] : n \in Sizes1, v \in {0, 1, 2}}
ChValid(x) == x.v = 0 \/ x.n >= 1

(****************************************************************************)
(* QR:  A = Q0 * R0 with Q0 an m x m signed permutation matrix               *)
(* (Q0[perm[t]][t] = sg[t]) and R0 upper trapezoidal k x n (k = min(m,n)),   *)
(* diagonal +-2^e, other entries in -3..3.  A has full rank k, so its QR     *)
(* factorization is unique up to a diagonal sign matrix S:  R = S*R0 and     *)
(* Q(:,0..k-1) = Q0(:,0..k-1)*S.  The harness reads S off the computed       *)
(* diagonal of R (the documented freedom) and compares everything else.      *)
(* For products with Q the specification prints Q0*C, Q0^T*C, C*Q0, C*Q0^T   *)
(* (S = I) together with qidx[i] = the column of Q0 that is non-zero in row  *)
(* i, so that the S-dependent sign of each row / column is determined.       *)
(* The LQ routines are driven with the transposed instance A^T = R0^T*Q0^T.  *)
(****************************************************************************)
QrInst(m, n) ==
  LET k == Min(m, n)
      \* a permutation of 0..m-1 as a product of formula-chosen interchanges
      ip == Fn([t \in 0 .. m - 1 |-> t + (H(t, m + n, 21) % (m - t))])
      perm == Pos(ip, m, m)              \* perm[t] = row of the non-zero of column t
      qidx == InvPerm(perm, m)
      sg == Fn([t \in 0 .. m - 1 |-> Sign(t, m, 22)])
      Rv(t, c) == IF c < t THEN 0
                  ELSE IF c = t THEN Sign(t, t, 23) * Pow2(H(t, t, 24) % 4)
                  ELSE (H(t, c, 25) % 7) - 3
      R0 == Mat(k, n, Rv)
      Av(i, c) == IF qidx[i] < k THEN sg[qidx[i]] * R0[qidx[i]][c] ELSE 0
      A == Mat(m, n, Av)
      Qv(i, t) == IF perm[t] = i THEN sg[t] ELSE 0
      \* operands for the Dorm* routines: C is m x NC (left) and CR is NC x m (right)
      NC == Nrhs
      Cv(i, j) == (H(i, j, 26) % 9) - 4
      C == Mat(m, NC, Cv)
      CR == Mat(NC, m, LAMBDA i, j : (H(i, j, 27) % 9) - 4)
      QC(i, j) == sg[qidx[i]] * C[qidx[i]][j]          \* (Q0 C)[i]   = sg * C[qidx[i]]
      QTC(t, j) == sg[t] * C[perm[t]][j]               \* (Q0^T C)[t] = sg[t] * C[perm[t]]
      CQ(i, t) == sg[t] * CR[i][perm[t]]               \* (C Q0)[:,t]
      CQT(i, j) == sg[qidx[j]] * CR[i][qidx[j]]        \* (C Q0^T)[:,j]
  IN [fam |-> "qr", m |-> m, n |-> n, v |-> 0, den |-> 1, k |-> k,
      A |-> MatSeq(A, m, n), RR |-> MatSeq(R0, k, n), Q |-> MatSeq(Mat(m, m, Qv), m, m),
      qidx |-> VecSeq(qidx, m), perm |-> VecSeq(perm, m),
      R |-> NC, C |-> MatSeq(C, m, NC), CR |-> MatSeq(CR, NC, m),
      QC |-> MatSeq(Mat(m, NC, QC), m, NC), QTC |-> MatSeq(Mat(m, NC, QTC), m, NC),
      CQ |-> MatSeq(Mat(NC, m, CQ), NC, m), CQT |-> MatSeq(Mat(NC, m, CQT), NC, m),
      tol |-> 30 * Max(Max(m, n), 1) * Norm1(A, m, n)]

QrCases == {[m |-> s[1], n |-> s[2]] : s \in Shapes2}

(****************************************************************************)
(* Dlarft (forward, column-wise / row-wise):  given reflectors              *)
(* H_i = I - tau_i v_i v_i^T, v_i = (0,..,0,1,v_{i+1,i},..,v_{last_i,i},0,..) *)
(* the triangular factor T of the block reflector is DEFINED by             *)
(*      H_0 H_1 ... H_{k-1} = I - V T V^T,   T upper triangular,            *)
(* equivalently by the recurrence T[i][i] = tau_i,                          *)
(*      T[0..i-1, i] = -tau_i * T[0..i-1, 0..i-1] * (V^T v_i).              *)
(* Integer v entries and tau in {0,1,2} keep T integral.  The last non-zero *)
(* row of each v_i is formula-chosen, so that all patterns of trailing      *)
(* zeros (which the code exploits to shorten its products) occur.           *)
(* PlantedLemmas checks the defining identity on these instances.           *)
(****************************************************************************)
RECURSIVE TBuild(_, _, _, _, _)
TBuild(T, W, tau, i, k) ==
  IF i = k THEN T
  ELSE TBuild(Fn([j \in 0 .. k - 1 |-> Fn([c \in 0 .. k - 1 |->
                  IF c # i THEN T[j][c]
                  ELSE IF j = i THEN tau[i]
                  ELSE IF j > i THEN 0
                  ELSE -tau[i] * SumR(LAMBDA l : T[j][l] * W[l][i], j, i - 1)])]), W, tau, i + 1, k)

LarftV(n, k, v) ==
  LET last == Fn([i \in 0 .. k - 1 |-> i + (H(i, n * 7 + v, 31) % (n - i))])
      Vv(r, i) == IF r < i THEN 0 ELSE IF r = i THEN 1 ELSE IF r > last[i] THEN 0
                  ELSE IF r = last[i] THEN Sign(r, i + v, 33) * (1 + (H(r, i, 34) % 2))
                  ELSE (H(r, i + v, 35) % 5) - 2
  IN Mat(n, k, Vv)
LarftTau(n, k, v) == Fn([i \in 0 .. k - 1 |-> LET h == H(i, n * 13 + v, 32) % 5 IN IF h = 0 THEN 0 ELSE 1 + (h % 2)])
LarftT(V, tau, n, k) ==
  LET W == Mat(k, k, LAMBDA j, i : IF j < i THEN SumR(LAMBDA r : V[r][j] * V[r][i], i, n - 1) ELSE 0)
  IN TBuild(Mat(k, k, LAMBDA j, c : 0), W, tau, 0, k)

LarftInst(n, k, v) ==
  LET V == LarftV(n, k, v)
      tau == LarftTau(n, k, v)
  IN [fam |-> "larft", m |-> n, n |-> k, v |-> v, den |-> 1, k |-> k,
      A |-> MatSeq(V, n, k), tau |-> VecSeq(tau, k), T |-> MatSeq(LarftT(V, tau, n, k), k, k),
      tol |-> 30 * n * (1 + NormMax(V, n, k))]

LarftCases == {[m |-> n, n |-> k, v |-> v] : n \in 1 .. Small + 2, k \in 1 .. 5, v \in 0 .. 7}

(****************************************************************************)
(* Pivoted QR (Dgeqp3):  A * P0 = Q0 * R0.                                  *)
(*  Q0 signed permutation as above; P0 a column permutation whose first nf  *)
(*  positions hold the nf FIXED columns (marked in the input jpvt) in        *)
(*  ascending index order - exactly what the documented pre-processing does; *)
(*  R0 upper trapezoidal with, for every free step t >= nf,                 *)
(*        |r_tt| = 6*(k-t)+6   and   all entries above the diagonal (dense) *)
(*  of modulus <= 2, so that                                                *)
(*        r_tt^2  >=  12 + sum_{i>=t} r_ic^2   for every later column c:    *)
(*  the remaining column of largest norm is unique (by a relative margin    *)
(*  > 0.7 %, far above rounding in the norm down-dating) at every step, so  *)
(*  column pivoting must return jpvt = P0, R = S*R0 and Q = Q0*S.           *)
(*  PlantedLemmas!PivotLemma checks the dominance and A*P0 = Q0*R0.         *)
(****************************************************************************)
Qp3Inst(m, n, nf) ==
  LET k == Min(m, n)
      perm == Pos(Fn([t \in 0 .. m - 1 |-> t + (H(t, m + n, 41) % (m - t))]), m, m)
      qidx == InvPerm(perm, m)
      sg == Fn([t \in 0 .. m - 1 |-> Sign(t, m, 43)])
      cp == Pos(Fn([t \in 0 .. n - 1 |-> t + (H(t, n * 3 + m, 42) % (n - t))]), n, n)
      F == {cp[i] : i \in 0 .. nf - 1}
      p0 == Fn([j \in 0 .. n - 1 |-> IF j < nf THEN CHOOSE w \in F : Cardinality({y \in F : y < w}) = j ELSE cp[j]])
      p0inv == InvPerm(p0, n)
      Rv(t, c) == IF c < t THEN 0
                  ELSE IF c = t THEN Sign(t, t, 45) * (IF t < nf THEN Pow2(H(t, t, 46) % 3) ELSE 6 * (k - t) + 6)
                  ELSE (H(t, c, 47) % 5) - 2
      R0 == Mat(k, n, Rv)
      Av(i, c) == IF qidx[i] < k THEN sg[qidx[i]] * R0[qidx[i]][p0inv[c]] ELSE 0
      A == Mat(m, n, Av)
      Qv(i, t) == IF perm[t] = i THEN sg[t] ELSE 0
  IN [fam |-> "qp3", m |-> m, n |-> n, v |-> nf, den |-> 1, k |-> k, nf |-> nf,
      A |-> MatSeq(A, m, n), RR |-> MatSeq(R0, k, n), Q |-> MatSeq(Mat(m, m, Qv), m, m),
      jin |-> [j \in 1 .. n |-> IF (j - 1) \in F THEN 0 ELSE -1], jpvt |-> VecSeq(p0, n),
      tol |-> 30 * Max(Max(m, n), 1) * Norm1(A, m, n)]

Qp3Cases == {[m |-> m, n |-> n, v |-> nf] : m \in 0 .. Small, n \in 0 .. Small, nf \in 0 .. 3}
              \cup {[m |-> b \div 1000, n |-> b % 1000, v |-> nf] : b \in Big, nf \in {0, 10}}

(****************************************************************************)
(* Triangular inverses and solves (Dtrtri, Dtrti2, Dtrtrs, Dgetri, Dpotri). *)
(*   M = (I + N1) * (I + N2),  N1 non-zero only in rows < a, columns >= a,  *)
(*   N2 only in rows < b, columns >= b  (a < b), entries in -2..2 (dense).  *)
(*   N1^2 = N2^2 = N2*N1 = 0, hence  M^{-1} = I - N1 - N2  exactly, and     *)
(*   M = I + N1 + N2 + N1*N2 is a dense-looking integer unit upper          *)
(*   triangular matrix.  T = M * D with D = diag(+-2^e) (variant 1: D = I,  *)
(*   unit diagonal not referenced; variant 2: one d_k = 0, singular), so    *)
(*   T^{-1} = D^{-1} * (I - N1 - N2), printed times 4.                      *)
(*   Solves: B = T * X0, BT = T^T * X0 with integer X0.                     *)
(*   Dpotri: A = T^T*T with positive D;  A^{-1} = T^{-1} * T^{-T} (times 16).*)
(*   Dgetri: A = P0^T * L * T with L = I + Lh/2, Lh non-zero only in rows   *)
(*   >= a, columns < a (Lh^2 = 0, L^{-1} = I - Lh/2, |l| <= 1/2 keeps the   *)
(*   planted pivots unique);  A^{-1} = T^{-1} * (I - Lh/2) * P0 (times 8).  *)
(* PlantedLemmas!InverseLemma checks T*Tinv = I, A*Ainv = I on the          *)
(* instances.                                                               *)
(****************************************************************************)
TriInst(n, v, deep) ==
  LET a == (n + 1) \div 3
      b == (2 * n + 1) \div 3
      kz == IF v = 2 THEN H(n, v, 55) % n ELSE -1
      d == Fn([i \in 0 .. n - 1 |-> IF v = 1 THEN 1 ELSE IF i = kz THEN 0
                                     ELSE (IF deep THEN 1 ELSE Sign(i, n, 51)) * Pow2(H(i, n, 52) % 3)])
      N1(i, j) == IF i < a /\ j >= a THEN (H(i, j, 53) % 5) - 2 ELSE 0
      N2(i, j) == IF i < b /\ j >= b THEN (H(i, j, 54) % 5) - 2 ELSE 0
      N1m == Mat(n, n, N1)
      N2m == Mat(n, n, N2)
      Mv(i, j) == (IF i = j THEN 1 ELSE 0) + N1m[i][j] + N2m[i][j]
                  + (IF i < a /\ j >= b THEN SumR(LAMBDA k : N1m[i][k] * N2m[k][j], a, b - 1) ELSE 0)
      T == Mat(n, n, LAMBDA i, j : Mv(i, j) * d[j])
      \* 4 * T^{-1}[i][j] = (4 / d_i) * (delta_ij - N1 - N2)   (not used when singular)
      Ti4 == Mat(n, n, LAMBDA i, j : IF d[i] = 0 THEN 0
                 ELSE (4 \div d[i]) * ((IF i = j THEN 1 ELSE 0) - N1m[i][j] - N2m[i][j]))
      R == IF v = 2 THEN 0 ELSE Nrhs
      Xm == Mat(n, R, LAMBDA i, j : (H(i, j, 56) % 9) - 4)
      Bm == Mat(n, R, LAMBDA i, j : SumR(LAMBDA k : T[i][k] * Xm[k][j], i, n - 1))
      BTm == Mat(n, R, LAMBDA i, j : SumR(LAMBDA k : T[k][i] * Xm[k][j], 0, i))
      \* Cholesky inverse (deep, v = 0): 16 * (T^{-1} T^{-T})[i][j]
      PI == Mat(n, n, LAMBDA i, j : IF deep /\ v = 0 THEN SumR(LAMBDA k : Ti4[i][k] * Ti4[j][k], Max(i, j), n - 1) ELSE 0)
      \* LU inverse (deep, v = 0)
      Lh(i, j) == IF i >= a /\ j < a THEN (H(i, j, 57) % 3) - 1 ELSE 0
      Lhm == Mat(n, n, Lh)
      ipiv == Fn([j \in 0 .. n - 1 |-> j + (H(j, n, 58) % (n - j))])
      inv == InvPerm(Pos(ipiv, n, n), n)
      \* 8 * (T^{-1} (I - Lh/2))[i][j] = 2*Ti4[i][j] - sum_k Ti4[i][k] * Lh[k][j]
      W == Mat(n, n, LAMBDA i, j : IF deep /\ v = 0
                 THEN 2 * Ti4[i][j] - (IF j < a THEN SumR(LAMBDA k : Ti4[i][k] * Lhm[k][j], Max(a, i), n - 1) ELSE 0) ELSE 0)
      \* 2 * (L*T)[i][j]
      LT2 == Mat(n, n, LAMBDA i, j : IF deep /\ v = 0
                 THEN 2 * T[i][j] + (IF i >= a THEN SumR(LAMBDA k : Lhm[i][k] * T[k][j], 0, Min(a - 1, j)) ELSE 0) ELSE 0)
  IN [fam |-> "tri", m |-> n, n |-> n, v |-> v, den |-> 1, kz |-> kz, unit |-> (v = 1), ok |-> (v # 2), deep |-> (deep /\ v = 0),
      T |-> MatSeq(T, n, n), Inv |-> MatSeq(Ti4, n, n),
      R |-> R, X |-> MatSeq(Xm, n, R), B |-> MatSeq(Bm, n, R), BT |-> MatSeq(BTm, n, R),
      PI |-> MatSeq(PI, n, n),
      LU |-> MatSeq(Mat(n, n, LAMBDA i, j : IF i > j THEN Lhm[i][j] ELSE 2 * T[i][j]), n, n),
      ipiv |-> VecSeq(ipiv, n),
      A |-> MatSeq(Fn([i \in 0 .. n - 1 |-> LT2[inv[i]]]), n, n),
      AI |-> MatSeq(Mat(n, n, LAMBDA i, j : W[i][inv[j]]), n, n),
      tol |-> 30 * Max(n, 1) * (Norm1(T, n, n) + NormInf(Ti4, n, n))]

\* "deep" instances (with the Cholesky and LU inverses) up to DeepMax; larger sizes only triangular
DeepMax == 100
TriCases == {[n |-> n, v |-> v] : n \in (0 .. Small) \cup {b % 1000 : b \in Big}, v \in {0, 1, 2}}

(****************************************************************************)
(* Least squares / minimum norm (Dgels), m >= n, A = Q0 * R0 of full column *)
(* rank: Q0 signed permutation (Q1 = its first n columns, Q2 the rest),     *)
(* R0 upper triangular with diagonal +-16 and at most 3 entries of modulus  *)
(* <= 2 right of the diagonal in each row (row diagonally dominant:         *)
(* ||R0^{-1}||_inf <= 1/10, kappa_inf(A) <= 2.2, max|a_ij| = 16 = 2^4).     *)
(*  least squares:  BLS = A*X0 + Q2*Rho  (residual orthogonal to range(A)), *)
(*                  so the unique minimiser of ||A*X - BLS|| is X0;         *)
(*  minimum norm:   BMN = A^T*XMN with XMN = Q1*Y0 in range(A), so XMN is   *)
(*                  the minimum norm solution of A^T*X = BMN.               *)
(* The transposed array drives the m < n cases of Dgels.  Variant 1 plants  *)
(* r_kk = 0 (rank deficient: ok must be false).  Scaling of A by 2^ea and of *)
(* B by 2^eb (powers of two: exact) multiplies the answers by 2^(eb-ea):    *)
(* argmin ||2^ea*A*X - 2^eb*B|| = 2^(eb-ea) * argmin ||A*X - B||, and the    *)
(* minimum norm solution scales the same way.  The instance lists the       *)
(* scalings to run (scal; scalx in addition in the thorough tier): A and B   *)
(* separately by 2^+-1000, beyond the thresholds 2^-970 / 2^970 at which     *)
(* Dgels rescales internally, for every shape, both trans values and         *)
(* nrhs in snrhs as well as Nrhs.  With max|a_ij| = 16 and |x| <= 4 every    *)
(* scaled operand and answer is representable.                               *)
(* PlantedLemmas!LsLemma checks the normal equations A^T(A*X0 - BLS) = 0,   *)
(* A^T*XMN = BMN and XMN = A*W for an integer-rational W (range condition   *)
(* through Q2^T*XMN = 0).                                                   *)
(****************************************************************************)
LsInst(m, n, v) ==
  LET perm == Pos(Fn([t \in 0 .. m - 1 |-> t + (H(t, m + n, 61) % (m - t))]), m, m)
      qidx == InvPerm(perm, m)
      sg == Fn([t \in 0 .. m - 1 |-> Sign(t, m, 62)])
      kz == IF v = 1 THEN H(m, n, 63) % n ELSE -1
      RCols == Fn([t \in 0 .. n - 1 |-> IF t = n - 1 THEN {} ELSE {t + 1 + (H(t, u, 64) % (n - 1 - t)) : u \in 1 .. 3}])
      Rv(t, c) == IF c < t THEN 0
                  ELSE IF c = t THEN (IF t = kz THEN 0 ELSE Sign(t, t, 65) * 16)
                  ELSE IF c \in RCols[t] THEN (H(t, c, 66) % 5) - 2 ELSE 0
      R0 == Mat(n, n, Rv)
      A == Mat(m, n, LAMBDA i, c : IF qidx[i] < n THEN sg[qidx[i]] * R0[qidx[i]][c] ELSE 0)
      R == Nrhs
      X0 == Mat(n, R, LAMBDA i, j : (H(i, j, 67) % 9) - 4)
      Y0 == Mat(n, R, LAMBDA i, j : (H(i, j, 68) % 9) - 4)
      Rho == Mat(m, R, LAMBDA t, j : IF t < n THEN 0 ELSE (H(t, j, 69) % 7) - 3)
      RX == Mat(n, R, LAMBDA t, j : SumSet(LAMBDA c : R0[t][c] * X0[c][j], RCols[t] \cup {t}))
      BLS == Mat(m, R, LAMBDA i, j : sg[qidx[i]] * (IF qidx[i] < n THEN RX[qidx[i]][j] ELSE Rho[qidx[i]][j]))
      XMN == Mat(m, R, LAMBDA i, j : IF qidx[i] < n THEN sg[qidx[i]] * Y0[qidx[i]][j] ELSE 0)
      BMN == Mat(n, R, LAMBDA c, j : SumR(LAMBDA t : R0[t][c] * Y0[t][j], 0, c))
  IN [fam |-> "ls", m |-> m, n |-> n, v |-> v, den |-> 1, ok |-> (v = 0), kz |-> kz, R |-> R,
      A |-> MatSeq(A, m, n), X |-> MatSeq(X0, n, R), B |-> MatSeq(BLS, m, R),
      XMN |-> MatSeq(XMN, m, R), BMN |-> MatSeq(BMN, n, R),
      scal |-> IF v = 0 /\ n > 0 THEN <<<<0, 0>>, <<1000, 0>>, <<0 - 1000, 0>>, <<0, 1000>>, <<0, 0 - 1000>>>> ELSE <<<<0, 0>>>>,
      scalx |-> IF v = 0 /\ n > 0 THEN <<<<500, 0 - 400>>, <<990, 10>>, <<0 - 990, 0 - 10>>>> ELSE <<>>,
      snrhs |-> <<1, 2>>,
      Q |-> MatSeq(Mat(m, m, LAMBDA i, t : IF perm[t] = i THEN sg[t] ELSE 0), m, m),
      tol |-> 100 * Max(m, 1) * (1 + NormMax(X0, n, R) + NormMax(XMN, m, R))]

LsCases == {[m |-> s[1], n |-> s[2], v |-> v] : s \in Shapes2, v \in {0, 1}}

(****************************************************************************)
(* Tridiagonal systems.                                                     *)
(*  "pt": symmetric positive definite A = L*D*L^T, L unit lower bidiagonal  *)
(*   (integers l_i in -2..2), D = diag(2^k): a_i = D_i + l_{i-1}^2 D_{i-1}, *)
(*   e_i = l_i D_i.  Dpttrf must return (D, l); variant 1 plants one        *)
(*   D_k = -2 (not positive definite: ok = false).  B = A*X0.               *)
(*  "gt": general A = S*(L*U), L unit lower bidiagonal (l_i in {0,+-1/2}),  *)
(*   U upper bidiagonal (u_i = +-2^k, k in 1..3, c_i in -3..3), S a         *)
(*   diagonal of powers of two.  With S = I (variant 0) partial pivoting    *)
(*   never interchanges; in variant 1 (n <= 12 only) S grows by a factor 4  *)
(*   at formula-chosen rows, which forces interchanges there while all      *)
(*   multipliers stay dyadic.  A is non-singular (u_i # 0), so X0 is the    *)
(*   unique solution of A*X = B := A*X0.  Values times den = 2.             *)
(*   Variant 2: zero diagonal (see below), interchange at every step.       *)
(****************************************************************************)
TdInst(n, v) ==
  LET R == Nrhs
      X == Mat(n, R, LAMBDA i, j : (H(i, j, 71) % 9) - 4)
      \* ---- pt
      kb == IF v = 1 THEN H(n, v, 72) % n ELSE -1
      D == Fn([i \in 0 .. n - 1 |-> IF i = kb THEN -2 ELSE Pow2(H(i, n, 73) % 3)])
      l == Fn([i \in 0 .. n - 2 |-> (H(i, n, 74) % 5) - 2])
      pa == Fn([i \in 0 .. n - 1 |-> D[i] + (IF i > 0 THEN l[i - 1] * l[i - 1] * D[i - 1] ELSE 0)])
      pe == Fn([i \in 0 .. n - 2 |-> l[i] * D[i]])
      PB == Mat(n, R, LAMBDA i, j : pa[i] * X[i][j] + (IF i > 0 THEN pe[i - 1] * X[i - 1][j] ELSE 0)
                                     + (IF i < n - 1 THEN pe[i] * X[i + 1][j] ELSE 0))
      \* ---- gt (times 2)
      u == Fn([i \in 0 .. n - 1 |-> Sign(i, n, 75) * Pow2(1 + (H(i, n, 76) % 3))])
      ln == Fn([i \in 0 .. n - 2 |-> (H(i, n, 77) % 3) - 1])       \* l_i = ln_i / 2
      cc == Fn([i \in 0 .. n - 2 |-> (H(i, n, 78) % 7) - 3])
      RECURSIVE sAt(_)
      sAt(i) == IF i = 0 THEN 0 ELSE sAt(i - 1) + (IF v = 1 /\ n <= 12 /\ H(i, n, 79) % 2 = 0 THEN 2 ELSE 0)
      sc == Fn([i \in 0 .. n - 1 |-> Pow2(sAt(i))])
      \* variant 2 ("zero diagonal"): d_i = 0 except the last one when n is odd, all off-diagonal
      \* entries +-2^k: every elimination step meets an exactly zero pivot with a non-zero
      \* subdiagonal, so partial pivoting MUST interchange.  det A = prod over pairs of
      \* (-dl du) (times d_{n-1} for odd n) # 0, so X0 is again the unique solution.
      gdl == Fn([i \in 0 .. n - 2 |-> IF v = 2 THEN 2 * u[i] ELSE sc[i + 1] * ln[i] * u[i]])                           \* 2 * dl'_i
      gd == Fn([i \in 0 .. n - 1 |-> IF v = 2 THEN (IF i = n - 1 /\ n % 2 = 1 THEN 2 * u[i] ELSE 0)
                                     ELSE sc[i] * (2 * u[i] + (IF i > 0 THEN ln[i - 1] * cc[i - 1] ELSE 0))])
      gdu == Fn([i \in 0 .. n - 2 |-> IF v = 2 THEN 2 * u[i + 1] ELSE sc[i] * 2 * cc[i]])
      GB == Mat(n, R, LAMBDA i, j : gd[i] * X[i][j] + (IF i > 0 THEN gdl[i - 1] * X[i - 1][j] ELSE 0)
                                     + (IF i < n - 1 THEN gdu[i] * X[i + 1][j] ELSE 0))
      npiv == IF v = 2 THEN n \div 2 ELSE Cardinality({i \in 0 .. n - 2 : Abs(gdl[i]) > Abs(sc[i] * 2 * u[i])})
  IN [fam |-> "td", m |-> n, n |-> n, v |-> v, den |-> 2, ok |-> (v # 1), kbad |-> kb, R |-> R,
      X |-> MatSeq(X, n, R),
      pd |-> VecSeq(pa, n), pe |-> VecSeq(pe, n - 1), D |-> VecSeq(D, n), l |-> VecSeq(l, n - 1), PB |-> MatSeq(PB, n, R),
      gdl |-> VecSeq(gdl, n - 1), gd |-> VecSeq(gd, n), gdu |-> VecSeq(gdu, n - 1), GB |-> MatSeq(GB, n, R),
      npiv |-> npiv,
      tol |-> 100 * Max(n, 1) * (1 + NormMax(X, n, R)) * 2]

TdCases == {[n |-> n, v |-> v] : n \in (0 .. Small + 4) \cup {b % 1000 : b \in Big}, v \in {0, 1}}
           \cup {[n |-> n, v |-> 2] : n \in 2 .. Small + 4}

(****************************************************************************)
(* Auxiliary integer operators: row interchanges (Dlaswp), column / row     *)
(* permutations (Dlapmt / Dlapmr) and the max / one / infinity norms of     *)
(* general, symmetric and trapezoidal matrices (Dlange, Dlansy, Dlantr).    *)
(****************************************************************************)
RECURSIVE SwapRows(_, _, _, _, _)
SwapRows(X, ipiv, k, last, step) ==
  IF (step = 1 /\ k > last) \/ (step = -1 /\ k < last) THEN X
  ELSE SwapRows(SwapF(X, k, ipiv[k]), ipiv, k + step, last, step)

AuxInst(m, n, v) ==
  LET A == Mat(m, n, LAMBDA i, j : (H(i, j, 81 + v) % 19) - 9)
      k1 == IF m = 0 THEN 0 ELSE H(m, n, 82 + v) % m
      k2 == IF m = 0 THEN -1 ELSE k1 + (H(n, m, 83) % (m - k1))
      ipiv == Fn([k \in 0 .. k2 |-> IF k < k1 THEN 0 ELSE H(k, m + v, 84) % m])
      kc == Pos(Fn([t \in 0 .. n - 1 |-> t + (H(t, n + v, 85) % (n - t))]), n, n)
      kr == Pos(Fn([t \in 0 .. m - 1 |-> t + (H(t, m + v, 86) % (m - t))]), m, m)
      kcinv == InvPerm(kc, n)
      krinv == InvPerm(kr, m)
      mn == Min(m, n)
      \* symmetric matrix defined by the upper triangle of the leading mn x mn block
      S == Mat(mn, mn, LAMBDA i, j : IF i <= j THEN A[i][j] ELSE A[j][i])
      \* trapezoids: up = 1 upper (j >= i), up = 0 lower (j <= i); unit: diagonal counts as 1
      Tr(up, unit) == Mat(m, n, LAMBDA i, j : IF i = j THEN (IF unit = 1 THEN 1 ELSE A[i][j])
                                            ELSE IF (up = 1 /\ j > i) \/ (up = 0 /\ j < i) THEN A[i][j] ELSE 0)
      N3(X, r, cN) == <<NormMax(X, r, cN), Norm1(X, r, cN), NormInf(X, r, cN)>>
  IN [fam |-> "aux", m |-> m, n |-> n, v |-> v, den |-> 1, A |-> MatSeq(A, m, n),
      k1 |-> k1, k2 |-> k2, ipiv |-> VecSeq(ipiv, k2 + 1),
      swF |-> MatSeq(SwapRows(A, ipiv, k1, k2, 1), m, n), swB |-> MatSeq(SwapRows(A, ipiv, k2, k1, -1), m, n),
      kc |-> VecSeq(kc, n), kr |-> VecSeq(kr, m),
      pcF |-> MatSeq(Mat(m, n, LAMBDA i, j : A[i][kc[j]]), m, n), pcB |-> MatSeq(Mat(m, n, LAMBDA i, j : A[i][kcinv[j]]), m, n),
      prF |-> MatSeq(Mat(m, n, LAMBDA i, j : A[kr[i]][j]), m, n), prB |-> MatSeq(Mat(m, n, LAMBDA i, j : A[krinv[i]][j]), m, n),
      nge |-> N3(A, m, n), nsy |-> N3(S, mn, mn),
      ntr |-> <<N3(Tr(1, 0), m, n), N3(Tr(1, 1), m, n), N3(Tr(0, 0), m, n), N3(Tr(0, 1), m, n)>>,
      tol |-> 0]

AuxCases == {[m |-> s[1], n |-> s[2], v |-> v] : s \in Shapes2, v \in {0, 1}}

(****************************************************************************)
(* Band Cholesky (Dpbtrf, Dpbtf2, Dpbtrs):  A = L0 * D * L0^T with L0 lower *)
(* triangular of bandwidth kd (diagonal 2^k, integers in -2..2 inside the   *)
(* band), D = I (variant 0) or one d_k = -1 (variant 1, ok = false).  A has *)
(* bandwidth kd and its Cholesky factor is L0.  B = A*X0.  Matrices are     *)
(* printed in full; the harness packs the band storage.                     *)
(****************************************************************************)
PbInst(n, kd, v) ==
  LET kb == IF v = 1 THEN H(n, kd, 91) % n ELSE -1
      d(k) == IF k = kb THEN -1 ELSE 1
      L == Mat(n, n, LAMBDA i, j : IF i = j THEN Pow2(H(i, i, 92) % 3)
                                   ELSE IF j < i /\ i - j <= kd THEN (H(i, j, 93) % 5) - 2 ELSE 0)
      A == Mat(n, n, LAMBDA i, j : IF Abs(i - j) > kd THEN 0
                                   ELSE SumR(LAMBDA k : L[i][k] * d(k) * L[j][k], Max(0, Max(i, j) - kd), Min(i, j)))
      R == IF v = 0 THEN Nrhs ELSE 0
      X == Mat(n, R, LAMBDA i, j : (H(i, j, 94) % 9) - 4)
      B == Mat(n, R, LAMBDA i, j : SumR(LAMBDA k : A[i][k] * X[k][j], Max(0, i - kd), Min(n - 1, i + kd)))
  IN [fam |-> "pb", m |-> n, n |-> n, kd |-> kd, v |-> v, den |-> 1, ok |-> (v = 0), kbad |-> kb, R |-> R,
      A |-> MatSeq(A, n, n), L |-> MatSeq(L, n, n), X |-> MatSeq(X, n, R), B |-> MatSeq(B, n, R),
      tol |-> 30 * Max(n, 1) * Norm1(A, n, n)]

PbCases == {[n |-> n, kd |-> kd, v |-> v] : n \in 0 .. Small, kd \in 0 .. Small, v \in {0, 1}}
             \cup {[n |-> b \div 1000, kd |-> b % 1000, v |-> v] : b \in Big, v \in {0, 1}}

(****************************************************************************)
Cases == CASE Fam = "lu" -> {x \in LuCases : LuValid(x)}
           [] Fam = "chol" -> {x \in ChCases : ChValid(x)}
           [] Fam = "qr" -> QrCases
           [] Fam = "qp3" -> {z \in Qp3Cases : z.v <= z.n}
           [] Fam = "tri" -> {z \in TriCases : z.v # 2 \/ z.n >= 1}
           [] Fam = "ls" -> {z \in LsCases : z.m >= z.n /\ (z.v = 0 \/ z.n >= 1)}
           [] Fam = "td" -> {z \in TdCases : z.n >= 1 \/ z.v = 0}
           [] Fam = "aux" -> AuxCases
           [] Fam = "pb" -> {z \in PbCases : z.v = 0 \/ z.n >= 1}
           [] Fam = "larft" -> {x \in LarftCases : x.n <= x.m}

Inst(x) == CASE Fam = "lu" -> LuInst(x.m, x.n, x.v)
             [] Fam = "chol" -> ChInst(x.n, x.v)
             [] Fam = "qr" -> QrInst(x.m, x.n)
             [] Fam = "qp3" -> Qp3Inst(x.m, x.n, x.v)
             [] Fam = "tri" -> TriInst(x.n, x.v, x.n <= DeepMax)
             [] Fam = "ls" -> LsInst(x.m, x.n, x.v)
             [] Fam = "td" -> TdInst(x.n, x.v)
             [] Fam = "aux" -> AuxInst(x.m, x.n, x.v)
             [] Fam = "pb" -> PbInst(x.n, x.kd, x.v)
             [] Fam = "larft" -> LarftInst(x.m, x.n, x.v)

Init == cs \in Cases
Next == UNCHANGED cs
Spec == Init /\ [][Next]_cs

Emit == PrintT(ToJson(Inst(cs)))
=============================================================================
