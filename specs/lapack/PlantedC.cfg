SPECIFICATION CSpec
CONSTANTS
  Fam = "@FAM@"
  Small = @SMALL@
  Big = @BIG@
  Nrhs = @NRHS@
  Seed = @SEED@
INVARIANTS CEmit
CHECK_DEADLOCK FALSE
