SPECIFICATION Spec
CONSTANTS
  AlphaEnc = @ALPHA@
  MaxEnum = @MAXENUM@
  MaxDim = @MAXDIM@
  NSalt = @NSALT@
  MaxNb = @MAXNB@
INVARIANTS PanelInvariant BlockedEqualsUnblocked Structure OkMeaning Progress
CHECK_DEADLOCK TRUE
