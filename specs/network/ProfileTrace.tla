---------------------------- MODULE ProfileTrace ----------------------------
(* C15, R3: accepts a log of real community.Profile runs whose score function *)
(* is community.ModularScore / ModularMultiplexScore over community.Size /    *)
(* Weight / SizeMultiplex / WeightMultiplex, iff every returned profile keeps *)
(* the documented contract:                                                   *)
(*   "Profile returns an approximate profile of score values in the           *)
(*    resolution domain [low,high)", Interval: "[low, high) ... Score is the  *)
(*    score of the interval. Reduced is the best scoring community membership *)
(*    found for the interval."                                                *)
(*   - the intervals are non-empty, ordered, adjacent (High of one = Low of   *)
(*     the next) and cover exactly [low, high);                               *)
(*   - every interval's Communities() is a partition of the graph's nodes;    *)
(*   - every interval's Score is the score function OF THOSE communities:     *)
(*     Size = 1 / number of communities, Weight = sum over the communities of *)
(*     their internal weight (all layers of a multiplex graph).               *)
(* The optimality of the communities is NOT promised ("it is unlikely to      *)
(* return the exact resolution profile") and not asserted, nor is the         *)
(* monotonicity of the scores.  A run that ended with the documented          *)
(* non-monotonicity error promises nothing and is only counted.               *)
(*                                                                            *)
(* Resolutions are floats: the log carries their ORDER RANKS (all boundaries  *)
(* of one run ranked together) and, where a boundary is a small dyadic        *)
(* rational (linear bisection), its exact value.  TLC has no reals: in emit   *)
(* mode the exact score of every interval, and the exact modularity of its    *)
(* communities at the interval's own Low, are printed for comparison with the *)
(* floats gonum reported.                                                     *)
EXTENDS Reduced, TLCExt, Json

CONSTANTS TracePath, Emit

TraceLog == ndJsonDeserialize(TracePath)

VARIABLE l

Layers(e) == 1 .. e.nl
Sgn(x) == IF x < 0 THEN 0 - 1 ELSE IF x > 0 THEN 1 ELSE 0

InputOK(e) ==
  /\ e.nl \in 1 .. 3 /\ Len(e.adj) = e.nl /\ Len(e.lw) = e.nl
  /\ e.kind \in {"single", "multi"} /\ (e.kind = "single" => e.nl = 1 /\ e.lw = <<1>>)
  /\ e.score \in {"size", "weight"}
  /\ \A k \in Layers(e) : e.lw[k] # 0 /\ Abs(e.lw[k]) <= 3 /\ LayerOK(e.adj[k], e.n, e.dir, Sgn(e.lw[k]))
  /\ RLt(e.lo, e.hi) /\ e.rlo < e.rhi

Checks(e) ==
  With(Len(e.ivs), LAMBDA k :
   [nonempty |-> k >= 1,
    cover    |-> k >= 1 => e.ivs[1].rl = e.rlo /\ e.ivs[k].rh = e.rhi,
    ordered  |-> \A i \in 1 .. k : e.ivs[i].rl < e.ivs[i].rh,
    adjacent |-> \A i \in 1 .. k - 1 : e.ivs[i].rh = e.ivs[i + 1].rl,
    partition |-> \A i \in 1 .. k : /\ IsPartitionSeq(e.ivs[i].comms, 1 .. e.n)
                                    /\ e.ivs[i].nstruct = Len(e.ivs[i].comms)])

\* the score function evaluated on a reported community structure, exactly
ScoreOf(e, comms) ==
  IF e.score = "size" THEN R(1, Len(comms))
  ELSE RInt(MapThenSumSet(LAMBDA y : MapThenSumSet(LAMBDA S : BlockSum(e.adj[y], S, S), PartSet(comms)),
                          Layers(e)))

\* the exact modularity at resolution g is printed only where the integers are argued to fit
\* (m <= 200, g = g1/g2 with g1 <= 8192, g2 <= 1024: |w (m sa g2 - g1 sk)| <= 3 (4.1e7 + 3.3e8) < 2^31)
QFits(g, D) == D.m > 0 /\ D.m <= 200 /\ g[1] > 0 /\ g[1] <= 8192 /\ g[2] <= 1024

AllTrue(r) == \A f \in DOMAIN r : r[f]

RunOK(e) ==
  /\ InputOK(e)
  /\ (e.err = "") => AllTrue(Checks(e))
  /\ (Emit /\ e.err = "") =>
       With([y \in Layers(e) |-> LayerData(e.adj[y], e.n)], LAMBDA D :
         \A i \in DOMAIN e.ivs :
           With(e.ivs[i], LAMBDA iv :
           With(iv.exact /\ \A y \in Layers(e) : QFits(iv.lo, D[y]), LAMBDA qdef :
             PrintT(ToJson([k |-> "pq", run |-> e.run, iv |-> i, n |-> e.n, kind |-> e.kind,
                            score |-> ScoreOf(e, iv.comms), sf |-> iv.score,
                            qdef |-> qdef,
                            q |-> [y \in Layers(e) |->
                                     IF ~qdef THEN RZero
                                     ELSE IF e.kind = "single" THEN SingleQ(PartSet(iv.comms), iv.lo, D[y])
                                     ELSE LayerQ(PartSet(iv.comms), e.lw[y], iv.lo, D[y])],
                            qf |-> iv.qf])))))

Init == l = 1
Next == /\ l <= Len(TraceLog)
        /\ RunOK(TraceLog[l])
        /\ l' = l + 1
TraceSpec == Init /\ [][Next]_l

Diagnose(e) ==
  IF ~InputOK(e) THEN "input outside the stated domain (recorder)"
  ELSE ToString({f \in {"nonempty", "cover", "ordered", "adjacent", "partition"} : ~Checks(e)[f]})

Accepted ==
    LET d == TLCGet("stats").diameter IN
    IF d - 1 = Len(TraceLog) THEN PrintT("TRACE-ACCEPTED " \o ToString(Len(TraceLog)))
    ELSE /\ PrintT("TRACE-REJECTED at event " \o ToString(d) \o " (run " \o ToString(TraceLog[d].run)
                   \o ", n=" \o ToString(TraceLog[d].n) \o "): failed " \o Diagnose(TraceLog[d]))
         /\ FALSE
=============================================================================
