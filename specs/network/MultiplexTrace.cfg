SPECIFICATION TraceSpec
CONSTANTS
  TracePath = "@TRACE@"
  Emit = @EMIT@
POSTCONDITION Accepted
CHECK_DEADLOCK FALSE
