----------------------------- MODULE Modularity -----------------------------
(* Modularity Q in exact rationals (shared by Community.tla, which checks the *)
(* two forms against each other on every small graph and partition, and by    *)
(* CommunityTrace.tla, which evaluates recorded Louvain hierarchies).         *)
(*                                                                            *)
(* a: adjacency matrix a[i, j]; ki[i] = SUM_j a[j, i], ko[i] = SUM_j a[i, j]; *)
(* m = SUM_ij a[i, j] (the documentation's 2m for an undirected graph, whose  *)
(* matrix holds every edge twice, and m for a directed graph); g = <<gn, gd>> *)
(* the resolution.                                                            *)
EXTENDS Integers, FiniteSets, FiniteSetsExt, NetRat

\* the defining double sum: c is a labeling of the node set Vs
\*   Q = 1/m SUM_{ij} [ a_ij - gamma ki_i ko_j / m ] delta(c_i, c_j)
QLabelV(Vs, c, g, a, ki, ko, m) ==
  LET same == {ij \in Vs \X Vs : c[ij[1]] = c[ij[2]]}
      sa == MapThenSumSet(LAMBDA ij : a[ij[1], ij[2]], same)
      sk == MapThenSumSet(LAMBDA ij : ki[ij[1]] * ko[ij[2]], same)
  IN  R(m * sa * g[2] - g[1] * sk, m * m * g[2])

\* one layer of a multiplex graph, layer weight w: the documentation's
\*   Q_layer = w SUM_{ij} [ a_ij - gamma ki_i ko_j / m ] delta(c_i, c_j)     (not divided by m)
QLayerV(Vs, c, w, g, a, ki, ko, m) ==
  LET same == {ij \in Vs \X Vs : c[ij[1]] = c[ij[2]]}
      sa == MapThenSumSet(LAMBDA ij : a[ij[1], ij[2]], same)
      sk == MapThenSumSet(LAMBDA ij : ki[ij[1]] * ko[ij[2]], same)
  IN  R(w * (m * sa * g[2] - g[1] * sk), m * g[2])

\* the same quantity summed community by community; P is a set of node sets
QComm(P, g, a, ki, ko, m) ==
  RSumF([S \in P |->
     LET w  == MapThenSumSet(LAMBDA ij : a[ij[1], ij[2]], S \X S)
         si == MapThenSumSet(LAMBDA i : ki[i], S)
         so == MapThenSumSet(LAMBDA i : ko[i], S)
     IN  RSub(R(w, m), RMul(R(g[1], g[2]), R(si * so, m * m)))])
=============================================================================
