------------------------------- MODULE NetRat -------------------------------
(* Exact rationals as normalised pairs <<num, den>>, den > 0, for the network *)
(* and community specifications (C15).  TLC integers are 32 bit: every user   *)
(* keeps numerators and denominators small (the bounds are argued where the   *)
(* operators are used); TLC reports an overflow as an error, never silently.  *)
EXTENDS Integers, FiniteSets, Functions

Abs(x) == IF x < 0 THEN -x ELSE x

RECURSIVE Gcd(_, _)
Gcd(a, b) == IF b = 0 THEN a ELSE Gcd(b, a % b)

\* normalised rational n/d (d # 0)
R(n, d) == LET s == IF d < 0 THEN -1 ELSE 1
               g == Gcd(Abs(n), Abs(d))
           IN  <<(s * n) \div g, (s * d) \div g>>

RZero == <<0, 1>>
ROne  == <<1, 1>>
RInt(k) == <<k, 1>>

\* (cross-reduce before multiplying to keep intermediates small)
RAdd(a, b) == LET g == Gcd(a[2], b[2])
              IN  R(a[1] * (b[2] \div g) + b[1] * (a[2] \div g), (a[2] \div g) * b[2])
RNeg(a)    == <<-a[1], a[2]>>
RSub(a, b) == RAdd(a, RNeg(b))
RMul(a, b) == LET g1 == Gcd(Abs(a[1]), b[2])
                  g2 == Gcd(Abs(b[1]), a[2])
                  h1 == IF g1 = 0 THEN 1 ELSE g1
                  h2 == IF g2 = 0 THEN 1 ELSE g2
              IN  R((a[1] \div h1) * (b[1] \div h2), (a[2] \div h2) * (b[2] \div h1))
RInv(a)    == R(a[2], a[1])
RDiv(a, b) == RMul(a, RInv(b))
\* (compared through the gcd-reduced difference: no cross product of the two denominators)
RLe(a, b)  == RSub(a, b)[1] <= 0
RLt(a, b)  == RSub(a, b)[1] < 0
REq(a, b)  == a = b            \* normalised representation is unique

\* sum of a rational-valued function over its domain
RSumF(f) == FoldFunction(RAdd, RZero, f)

IsRat(a) == a[2] > 0 /\ Gcd(Abs(a[1]), a[2]) = 1
=============================================================================
