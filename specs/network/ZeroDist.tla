------------------------------ MODULE ZeroDist ------------------------------
(* C15, distance-based measures on graphs whose edge weights include ZERO.    *)
(*                                                                            *)
(* A state is one weighted graph on the nodes 1..N: every pair is absent or   *)
(* carries a weight from {0, 1, 2} (every such graph, or a pseudo-random      *)
(* sample).  Distinct nodes can therefore be at distance 0 (zero-weight       *)
(* edges and paths, zero-weight cycles in undirected graphs), which is where  *)
(* "d = 0" stops meaning "the node itself".  As in Network.tla shortest paths *)
(* are found by enumerating ALL simple paths (walks through a zero-weight     *)
(* cycle are not paths: "Paths containing zero-weight cycles are not          *)
(* returned"), and every measure is the sum its documentation cites:          *)
(*                                                                            *)
(*   F(v) = SUM_u d(u,v)              E(v) = MAX_u d(u,v)                     *)
(*   H(v) = SUM_{u # v} 1/d(u,v)      R(v) = SUM_{u # v} 1/2^d(u,v)           *)
(*   C_B(v) = SUM_{s # v # t} sigma_st(v)/sigma_st,  C_B(e) likewise          *)
(*                                                                            *)
(* over the incoming finite distances.  The sums run over u # v, NOT over     *)
(* d(u,v) # 0: a distinct node at distance 0 contributes 2^0 = 1 to R and the *)
(* term 1/0 to H.  All terms of H are non-negative, so in the extended reals  *)
(* H(v) = +Inf as soon as one such node exists; the record carries the finite *)
(* part and the number of 1/0 terms.  C(v) = 1/F(v) with F(v) = 0 is left     *)
(* open (the harness skips and counts it), as Network.tla does.               *)
(*                                                                            *)
(* R1: triangle inequality, symmetry, every reachable pair has a non-empty    *)
(* set of minimal simple paths, distance 0 between distinct nodes iff a path  *)
(* of zero-weight edges joins them, and the betweenness sums counted per path *)
(* (interior nodes / edges of each shortest path) equal the sums counted per  *)
(* node / edge.  R2: one record per graph.                                    *)
EXTENDS Integers, FiniteSets, Sequences, TLC, Json, FiniteSetsExt, NetRat

CONSTANTS N,         \* number of nodes (2..5)
          Directed,  \* BOOLEAN
          Salt,      \* data salt (from VERIF_SEED)
          Sample,    \* 0: every graph; k > 0: k pseudo-random graphs
          Shard, NShards,   \* this run handles the graphs whose code is Shard modulo NShards
          Emit       \* BOOLEAN: generator role

VARIABLE G           \* G[p], p a pair: 0 = no edge, k > 0 = an edge of weight k - 1
vars == <<G>>

V == 1 .. N
SeqOf(f) == [i \in V |-> f[i]]
Pairs == IF Directed THEN {p \in V \X V : p[1] # p[2]} ELSE {p \in V \X V : p[1] < p[2]}
PIdx(p) == (p[1] - 1) * N + p[2]
Norm(u, v) == IF Directed \/ u < v THEN <<u, v>> ELSE <<v, u>>

\* pseudo-random graph number k: density 1/5 .. 4/5, half of the edges of weight 0
Hash(k, i) == ((k * 7919 + i * 104729 + (Salt % 1000) * 15485 + ((k * i) % 3001) * 6113) % 65521) % 100
Dens(k) == 20 + 15 * (k % 5)
SampleG(k) == [p \in Pairs |-> IF Hash(k, PIdx(p)) >= Dens(k) THEN 0
                               ELSE LET h == Hash(k + 17, PIdx(p) + 3) % 4 IN IF h < 2 THEN 1 ELSE h]
GCode(g) == MapThenSumSet(LAMBDA p : PIdx(p) * g[p], Pairs)

Init == IF Sample = 0 THEN G \in {g \in [Pairs -> 0 .. 3] : GCode(g) % NShards = Shard}
        ELSE G \in {SampleG(k) : k \in {j \in 1 .. Sample : j % NShards = Shard}}
Next == UNCHANGED G
Spec == Init /\ [][Next]_vars

E == {p \in Pairs : G[p] > 0}
Adj(u, v) == u # v /\ G[Norm(u, v)] > 0
W(u, v) == G[Norm(u, v)] - 1
EdgeList == {<<e[1], e[2], G[e] - 1>> : e \in E}

(***************************** all simple paths *****************************)
InjSeqs == UNION {{s \in [1 .. k -> V] : \A i, j \in 1 .. k : i # j => s[i] # s[j]} : k \in 2 .. N}
IsPath(p) == \A i \in 1 .. Len(p) - 1 : Adj(p[i], p[i + 1])
RECURSIVE PLenTo(_, _)
PLenTo(p, i) == IF i = 1 THEN 0 ELSE PLenTo(p, i - 1) + W(p[i - 1], p[i])
PLen(p) == PLenTo(p, Len(p))
Inf == 0 - 1      \* distance of an unreachable pair
Interior(p) == {p[i] : i \in 2 .. Len(p) - 1}
PEdges(p) == {Norm(p[i], p[i + 1]) : i \in 1 .. Len(p) - 1}

With(x, F(_)) == CHOOSE r \in {F(y) : y \in {x}} : TRUE

PLens(paths) == [p \in paths |-> PLen(p)]
Betw(paths)  == [s \in V, t \in V |-> {p \in paths : p[1] = s /\ p[Len(p)] = t}]
DistF(len, between) == [s \in V, t \in V |->
                  IF s = t THEN 0
                  ELSE IF between[s, t] = {} THEN Inf
                  ELSE Min({len[p] : p \in between[s, t]})]
ShF(len, between, dist) == [s \in V, t \in V |-> {p \in between[s, t] : len[p] = dist[s, t]}]
BetF(sh, ST) == [v \in V |->
                  RSumF([st \in {x \in ST : x[1] # v /\ x[2] # v} |->
                     R(Cardinality({p \in sh[st[1], st[2]] : v \in Interior(p)}),
                       Cardinality(sh[st[1], st[2]]))])]
EBetF(sh, ST) == [e \in E |->
                  RSumF([st \in ST |->
                     R(Cardinality({p \in sh[st[1], st[2]] : e \in PEdges(p)}),
                       Cardinality(sh[st[1], st[2]]))])]
\* the nodes at finite incoming distance of v, v itself excluded: the index set of H and R
OthersF(dist) == [v \in V |-> {u \in V \ {v} : dist[u, v] # Inf}]

Measures ==
  With({p \in InjSeqs : IsPath(p)}, LAMBDA paths :
  With(PLens(paths), LAMBDA len :
  With(Betw(paths), LAMBDA between :
  With(DistF(len, between), LAMBDA dist :
  With(ShF(len, between, dist), LAMBDA sh :
  With({st \in V \X V : st[1] # st[2] /\ dist[st[1], st[2]] # Inf}, LAMBDA ST :
  With(OthersF(dist), LAMBDA oth :
     [dist |-> dist, sh |-> sh, ST |-> ST, bet |-> BetF(sh, ST), ebet |-> EBetF(sh, ST),
      far |-> [v \in V |-> MapThenSumSet(LAMBDA u : dist[u, v], oth[v])],
      ecc |-> [v \in V |-> Max({dist[u, v] : u \in oth[v]} \cup {0})],
      \* H(v): finite part, and the number of terms 1/0 (H(v) = +Inf iff that number is positive)
      har |-> [v \in V |-> RSumF([u \in {x \in oth[v] : dist[x, v] > 0} |-> R(1, dist[u, v])])],
      harinf |-> [v \in V |-> Cardinality({x \in oth[v] : dist[x, v] = 0})],
      res |-> [v \in V |-> RSumF([u \in oth[v] |-> R(1, 2 ^ dist[u, v])])]])))))))

(************************** R1: identities ********************************)
ShortestOK(m) ==
    \A st \in m.ST : m.sh[st[1], st[2]] # {} /\ \A p \in m.sh[st[1], st[2]] : PLen(p) = m.dist[st[1], st[2]]
Triangle(m) ==
    \A s, t, u \in V : (m.dist[s, u] # Inf /\ m.dist[u, t] # Inf) =>
                          (m.dist[s, t] # Inf /\ m.dist[s, t] <= m.dist[s, u] + m.dist[u, t])
Symmetric(m) == ~Directed => \A s, t \in V : m.dist[s, t] = m.dist[t, s]
\* distance 0 between distinct nodes = reachability along zero-weight edges (closure by squaring, N <= 5)
ZAdj == [i \in V, j \in V |-> i = j \/ (Adj(i, j) /\ W(i, j) = 0)]
Compose(c1, c2) == [i \in V, j \in V |-> \E k \in V : c1[i, k] /\ c2[k, j]]
ZReach == With(Compose(ZAdj, ZAdj), LAMBDA c2 : Compose(c2, c2))
ZeroOK(m) == \A s, t \in V : (m.dist[s, t] = 0) = ZReach[s, t]
\* betweenness counted per path: each shortest s-t path contributes its interior nodes / its edges, weight 1/sigma_st
BetSum(m) ==
    /\ RSumF(m.bet)  = RSumF([st \in m.ST |-> R(MapThenSumSet(LAMBDA p : Len(p) - 2, m.sh[st[1], st[2]]),
                                                Cardinality(m.sh[st[1], st[2]]))])
    /\ RSumF(m.ebet) = RSumF([st \in m.ST |-> R(MapThenSumSet(LAMBDA p : Len(p) - 1, m.sh[st[1], st[2]]),
                                                Cardinality(m.sh[st[1], st[2]]))])
\* every node at distance 0 contributes a full 1 to R(v): R(v) >= the number of 1/0 terms of H(v)
TermsOK(m) == \A v \in V : RLe(RInt(m.harinf[v]), m.res[v])

Record(m) ==
  [k |-> "zdist", n |-> N, dir |-> Directed, edges |-> EdgeList,
   zero |-> (\E st \in m.ST : m.dist[st[1], st[2]] = 0),       \* some distinct pair at distance 0
   dist |-> [i \in V |-> [j \in V |-> m.dist[i, j]]],
   bet |-> SeqOf(m.bet),
   ebet |-> {<<e[1], e[2], m.ebet[e][1], m.ebet[e][2]>> : e \in E},
   far |-> SeqOf(m.far), ecc |-> SeqOf(m.ecc), har |-> SeqOf(m.har), harinf |-> SeqOf(m.harinf),
   res |-> SeqOf(m.res)]

Check ==
  With(Measures, LAMBDA m :
     /\ ShortestOK(m) /\ Triangle(m) /\ Symmetric(m) /\ ZeroOK(m) /\ BetSum(m) /\ TermsOK(m)
     /\ Emit => PrintT(ToJson(Record(m))))
=============================================================================
