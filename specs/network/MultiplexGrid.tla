--------------------------- MODULE MultiplexGrid ---------------------------
(* C15, QMultiplex over the whole documented ARGUMENT grid.                   *)
(*                                                                            *)
(* A state is one multiplex graph: Depth (2 or 3) layers on the nodes 1..N.   *)
(* For every partition of the node set and every form of the two optional     *)
(* arguments the module states the vector community.QMultiplex must return:   *)
(*                                                                            *)
(*   weights      nil | one value per layer, values from {0, 1, 2, 3, -1, -2}  *)
(*                (all ones, a zero in first / middle / last position, two     *)
(*                zeros, all zero, a negative value in first / last position)  *)
(*   resolutions  nil | ONE global value from {1/2, 1, 2, 3} | one per layer   *)
(*                                                                            *)
(* read exactly as the documentation of QMultiplex reads them ("If weights is *)
(* nil layers are equally weighted ... If resolutions is nil, a resolution of *)
(* 1.0 is used for all layers, otherwise either a single element slice may be *)
(* used to specify a global resolution, or the length of resolutions must     *)
(* equal the number of layers"): EffW / EffG below, and nothing else, turn a   *)
(* call into the per-layer (w, gamma).  The value of a layer is the defining   *)
(* double sum of Modularity.tla (QLayerV),                                     *)
(*   Q_layer = w SUM_ij [ A_ij - gamma k_i k_j / m ] delta(c_i, c_j).          *)
(* A layer under a negative weight holds non-positive edge weights of the      *)
(* magnitudes A (the harness negates them where the record says so).  A layer  *)
(* without edges has m = 0: the formula is 0/0 there and the record says       *)
(* "undefined" (denominator 0), whatever the layer weight.                     *)
(*                                                                            *)
(* R1: the factored form used for the table equals the defining double sum on  *)
(* every layer and partition; a zero layer weight gives exactly 0; the all-in- *)
(* one partition scores 0 at gamma = 1.  R2: one record per multiplex.         *)
EXTENDS Integers, FiniteSets, Sequences, TLC, Json, FiniteSetsExt, NetRat, Modularity

CONSTANTS N,         \* number of nodes (2..4)
          Depth,     \* number of layers (2 or 3)
          Directed,  \* BOOLEAN
          Weighted,  \* BOOLEAN: edge weights 1..3 (else all 1)
          Full,      \* BOOLEAN (Sample = 0): every tuple of layers; else layer 1 ranges over every graph
                     \*         and the other layers are pseudo-random functions of it
          FullGrid,  \* BOOLEAN: every weight vector over {0, 1, 2, -1} instead of the list below
          Salt,      \* data salt (from VERIF_SEED)
          Sample,    \* k > 0: k pseudo-random multiplex graphs
          Emit       \* BOOLEAN: generator role

VARIABLE Ls          \* Ls[l]: edge set of layer l, pairs <<u, v>> (u < v when undirected)
vars == <<Ls>>

V == 1 .. N
D == 1 .. Depth
Pairs == IF Directed THEN {p \in V \X V : p[1] # p[2]} ELSE {p \in V \X V : p[1] < p[2]}
PIdx(p) == (p[1] - 1) * N + p[2]
Norm(u, v) == IF Directed \/ u < v THEN <<u, v>> ELSE <<v, u>>

\* pseudo-random layer number k (densities 0, 1/5 .. 4/5: an edgeless layer now and then)
Hash(k, i) == ((k * 7919 + i * 104729 + (Salt % 1000) * 15485 + ((k * i) % 3001) * 6113) % 65521) % 100
Dens(k) == IF k % 9 = 4 THEN 0 ELSE 20 + 15 * (k % 5)
SampleGraph(k) == {p \in Pairs : Hash(k, PIdx(p)) < Dens(k)}
Code(E) == MapThenSumSet(LAMBDA p : PIdx(p) * PIdx(p), E) % 997

Init == IF Sample > 0 THEN Ls \in {[l \in D |-> SampleGraph(k * Depth + l)] : k \in 1 .. Sample}
        ELSE IF Full THEN Ls \in [D -> SUBSET Pairs]
        ELSE Ls \in {[l \in D |-> IF l = 1 THEN E1 ELSE SampleGraph(Code(E1) * 3 + l)] : E1 \in SUBSET Pairs}
Next == UNCHANGED Ls
Spec == Init /\ [][Next]_vars

WL(l, u, v) == IF ~Weighted THEN 1
               ELSE LET p == Norm(u, v)
                    IN  1 + ((p[1] * 7 + p[2] * 11 + l * 5 + Salt + Cardinality(Ls[l]) * 13) % 3)
A(l, i, j) == IF i # j /\ Norm(i, j) \in Ls[l] THEN WL(l, i, j) ELSE 0
EdgeList(l) == {<<e[1], e[2], WL(l, e[1], e[2])>> : e \in Ls[l]}

With(x, F(_)) == CHOOSE r \in {F(y) : y \in {x}} : TRUE

\* every partition of V as a restricted growth string
Labelings == {c \in [V -> V] : c[1] = 1 /\ \A i \in 2 .. N : \E j \in 1 .. i - 1 : c[i] <= c[j] + 1}
AllInOne == [i \in V |-> 1]
Singles == [i \in V |-> i]

(************************** the argument grid ******************************)
\* <<>> stands for nil
Ones == [l \in D |-> 1]
WList == IF Depth = 2
         THEN {<<>>, <<1, 1>>, <<2, 3>>, <<0, 2>>, <<2, 0>>, <<0, 0>>, <<0 - 1, 2>>, <<3, 0 - 2>>, <<0, 0 - 1>>}
         ELSE {<<>>, <<1, 1, 1>>, <<3, 1, 2>>, <<0, 2, 3>>, <<2, 0, 3>>, <<2, 3, 0>>, <<0, 0, 2>>, <<0, 3, 0>>,
               <<2, 0, 0>>, <<0, 0, 0>>, <<0 - 1, 2, 3>>, <<2, 3, 0 - 2>>, <<0, 0 - 1, 2>>}
WForms == IF FullGrid THEN {<<>>} \cup [D -> {0, 1, 2, 0 - 1}] ELSE WList
GVals == {<<1, 2>>, <<1, 1>>, <<2, 1>>, <<3, 1>>}
GForms == {<<>>} \cup {<<g>> : g \in GVals}
          \cup (IF Depth = 2 THEN {<< <<1, 2>>, <<2, 1>> >>, << <<3, 1>>, <<1, 1>> >>}
                ELSE {<< <<1, 2>>, <<2, 1>>, <<3, 1>> >>, << <<3, 1>>, <<1, 1>>, <<1, 2>> >>})

\* the documented reading of the two optional vectors
EffW(ws, l) == IF ws = <<>> THEN 1 ELSE ws[l]
EffG(gs, l) == IF gs = <<>> THEN <<1, 1>> ELSE IF Len(gs) = 1 THEN gs[1] ELSE gs[l]

(***************************** layer values ********************************)
\* derived quantities of layer l: a, ki, ko, m and, per partition, the two sums of the double sum
LayerOf(l) ==
  With([i \in V, j \in V |-> A(l, i, j)], LAMBDA a :
  With([i \in V |-> MapThenSumSet(LAMBDA j : a[i, j], V)], LAMBDA ko :
  With([j \in V |-> MapThenSumSet(LAMBDA i : a[i, j], V)], LAMBDA ki :
     [a |-> a, ki |-> ki, ko |-> ko, m |-> MapThenSumSet(LAMBDA i : ko[i], V),
      t |-> [c \in Labelings |->
               LET same == {ij \in V \X V : c[ij[1]] = c[ij[2]]}
               IN  <<MapThenSumSet(LAMBDA ij : a[ij[1], ij[2]], same),
                     MapThenSumSet(LAMBDA ij : ki[ij[1]] * ko[ij[2]], same)>>]])))

Undef == <<0, 0>>
\* Q_layer = w (sa - gamma sk / m)
QL(L, c, w, g) == IF L.m = 0 THEN Undef
                  ELSE R(w * (L.m * L.t[c][1] * g[2] - g[1] * L.t[c][2]), L.m * g[2])

\* ModularizeMultiplex "is modularised to" optimise  Q = SUM_layer Q_layer : the Louvain method starts from the
\* singleton partition and only ever makes moves that improve Q, so whatever hierarchy comes back, the
\* communities of its top level cannot score below the singletons.  Stated only where every layer has an
\* edge (no 0/0 term); elsewhere every partition is admissible.
Defined(LS) == \A l \in D : LS[l].m > 0
Tot(LS, c, ws, gs) == RSumF([l \in D |-> QL(LS[l], c, EffW(ws, l), EffG(gs, l))])

QVec(LS, c, ws, gs) == [l \in D |-> QL(LS[l], c, EffW(ws, l), EffG(gs, l))]

Call(LS, ws, gs) ==
  With(IF Defined(LS) THEN Tot(LS, Singles, ws, gs) ELSE RZero, LAMBDA base :
  [w |-> ws, g |-> gs,
   neg |-> [l \in D |-> EffW(ws, l) < 0],          \* layers that hold non-positive edge weights in this call
   qs |-> {With(QVec(LS, c, ws, gs), LAMBDA q :
           [c |-> c, nilc |-> (c = Singles),       \* "If communities is nil, the unclustered modularity score is returned"
            q |-> q,
            \* may ModularizeMultiplex(.., weights, resolutions, ..) report c as its top level?
            adm |-> IF Defined(LS) THEN RLe(base, RSumF(q)) ELSE TRUE]) : c \in Labelings}])

Record(LS) ==
  [k |-> "qmg", n |-> N, depth |-> Depth, dir |-> Directed, wtd |-> Weighted,
   layers |-> [l \in D |-> EdgeList(l)],
   calls |-> {Call(LS, ws, gs) : ws \in WForms, gs \in GForms}]

GCheck ==
  With([l \in D |-> LayerOf(l)], LAMBDA LS :
    /\ \A l \in D : LS[l].m > 0 =>
         /\ \A c \in Labelings :
              /\ QL(LS[l], c, 2, <<1, 2>>) = QLayerV(V, c, 2, <<1, 2>>, LS[l].a, LS[l].ki, LS[l].ko, LS[l].m)
              /\ QL(LS[l], c, 0 - 1, <<3, 1>>) = QLayerV(V, c, 0 - 1, <<3, 1>>, LS[l].a, LS[l].ki, LS[l].ko, LS[l].m)
              /\ QL(LS[l], c, 0, <<2, 1>>) = RZero
         /\ QL(LS[l], AllInOne, 3, <<1, 1>>) = RZero
    /\ Singles \in Labelings /\ AllInOne \in Labelings
    \* the two nil forms mean what the explicit forms mean
    /\ \A l \in D : EffW(<<>>, l) = EffW(Ones, l) /\ EffG(<<>>, l) = EffG(<< <<1, 1>> >>, l)
    /\ Emit => PrintT(ToJson(Record(LS))))
=============================================================================
