----------------------------- MODULE ProfileStep -----------------------------
(* C15, R2: community.Profile on SCRIPTED score functions.  The score function *)
(* handed to Profile is a step function the specification chooses: breakpoints *)
(* lo < b_1 < ... < b_k < hi (dyadic rationals) and values v_0, ..., v_k with  *)
(* fn(x) = v_i for b_i <= x < b_{i+1}.  From the documentation ("an            *)
(* approximate profile of score values in the resolution domain [low,high) at  *)
(* the given granularity ... If log is true, log space bisection is used,      *)
(* otherwise bisection is linear ... fn should be monotonically decreasing ... *)
(* Profile will attempt to detect non-monotonicity"):                          *)
(*   decreasing values, breakpoints further apart than the granularity:        *)
(*     exactly k+1 intervals [lo, B_1), [B_1, B_2), ..., [B_k, hi) with the    *)
(*     scores v_0, ..., v_k, each found boundary within the granularity of the *)
(*     true one: |B_i - b_i| < grain (linear), B_i / b_i in (1/U, U) with      *)
(*     U = 1 + grain + grain^2 >= e^grain (log; e^grain itself is not a        *)
(*     rational, U is the smallest bound this module can state);               *)
(*   constant function: the single interval [lo, hi);                          *)
(*   increasing values (every evaluation contradicts monotonicity): an error;  *)
(*   lo >= hi: an error (or no interval).                                      *)
(* Nothing here is shaped like the bisection: no midpoints, no recursion.      *)
(* R1: TLC checks on every case that the boundary windows are disjoint, lie    *)
(* inside (lo, hi) in order, and contain the true breakpoints (so the expected *)
(* answer is unambiguous).                                                     *)
EXTENDS Integers, FiniteSets, Sequences, TLC, Json, FiniteSetsExt, NetRat

CONSTANTS Emit

VARIABLE c
vars == <<c>>

\* all positions in 32nds
Q32(x) == R(x, 32)
Los == {8, 32}
His == {96, 128}
Grains == {<<1, 8>>, <<1, 4>>}
Cands(lo, hi) == {x \in lo + 1 .. hi - 1 : (x - lo) % 8 = 3}

RECURSIVE Asc(_)
Asc(S) == IF S = {} THEN <<>> ELSE LET m == Min(S) IN <<m>> \o Asc(S \ {m})

U(g) == RAdd(ROne, RAdd(g, RMul(g, g)))

\* the breakpoints are resolvable at granularity g (see the header)
Separated(log, g, lo, hi, bs) ==
  LET k == Len(bs) IN
  IF ~log THEN /\ \A i \in 1 .. k - 1 : RLe(RMul(RInt(2), g), Q32(bs[i + 1] - bs[i]))
               /\ k >= 1 => RLe(g, Q32(hi - bs[k]))
  ELSE /\ \A i \in 1 .. k - 1 : RLe(RMul(U(g), U(g)), R(bs[i + 1], bs[i]))
       /\ k >= 1 => RLe(U(g), R(hi, bs[k]))

Window(log, g, b) == IF ~log THEN <<RSub(Q32(b), g), RAdd(Q32(b), g)>>
                     ELSE <<RDiv(Q32(b), U(g)), RMul(Q32(b), U(g))>>

CasesFor(lo, hi) ==
  {[kind |-> kd, log |-> lg, lo |-> lo, hi |-> hi, g |-> g, bs |-> Asc(S)] :
      kd \in {"dec", "inc"}, lg \in BOOLEAN, g \in Grains,
      S \in {T \in SUBSET Cands(lo, hi) : Cardinality(T) <= 3}}
Cases == UNION {CasesFor(lo, hi) : lo \in Los, hi \in His}

Legal(x) ==
  /\ Separated(x.log, x.g, x.lo, x.hi, x.bs)
  /\ (x.kind = "inc" => Len(x.bs) >= 1)

Empties == {[kind |-> "empty", log |-> lg, lo |-> lo, hi |-> hi, g |-> <<1, 8>>, bs |-> <<>>] :
              lg \in BOOLEAN, lo \in {32, 96}, hi \in {8, 32}}

\* "The concrete type of g must be a pointer to a ReducedUndirected or a ReducedDirected, otherwise Weight
\* will panic" (WeightMultiplex: ReducedUndirectedMultiplex / ReducedDirectedMultiplex); emitted once
WeightTypes == {[fn |-> "Weight", t |-> t, panic |-> t \notin {"ReducedUndirected", "ReducedDirected"}] :
                  t \in {"ReducedUndirected", "ReducedDirected", "foreign"}}
               \cup {[fn |-> "WeightMultiplex", t |-> t,
                      panic |-> t \notin {"ReducedUndirectedMultiplex", "ReducedDirectedMultiplex"}] :
                  t \in {"ReducedUndirectedMultiplex", "ReducedDirectedMultiplex", "foreign"}}
TypeCase == [kind |-> "wcontract", log |-> FALSE, lo |-> 32, hi |-> 96, g |-> <<1, 8>>, bs |-> <<>>]

Init == c \in {x \in Cases : Legal(x)} \cup {x \in Empties : x.lo >= x.hi} \cup {TypeCase}
Next == UNCHANGED c
Spec == Init /\ [][Next]_vars

Vals(x) == LET k == Len(x.bs) IN
           IF x.kind = "inc" THEN [i \in 1 .. k + 1 |-> 2 * i - 1]
           ELSE [i \in 1 .. k + 1 |-> 3 * (k + 1 - i) + 1]

Expect(x) == IF x.kind \in {"empty", "wcontract"} THEN "error-or-empty"
             ELSE IF x.kind = "inc" THEN "error" ELSE "profile"

Wins(x) == [i \in DOMAIN x.bs |-> Window(x.log, x.g, x.bs[i])]

Check ==
  /\ c.kind = "dec" =>
       LET w == Wins(c) k == Len(c.bs) IN
       /\ \A i \in 1 .. k : RLt(w[i][1], Q32(c.bs[i])) /\ RLt(Q32(c.bs[i]), w[i][2])
       /\ \A i \in 1 .. k - 1 : RLe(w[i][2], w[i + 1][1])
       /\ k >= 1 => RLe(w[k][2], Q32(c.hi))
       /\ \A i \in 1 .. k + 1 : \A j \in 1 .. k + 1 : i < j => Vals(c)[i] > Vals(c)[j]
  /\ (Emit /\ c.kind = "wcontract") => PrintT(ToJson([k |-> "wcontract", types |-> WeightTypes]))
  /\ (Emit /\ c.kind # "wcontract") => PrintT(ToJson([k |-> "pstep", kind |-> c.kind, log |-> c.log, lo |-> Q32(c.lo), hi |-> Q32(c.hi),
                            grain |-> c.g, bps |-> [i \in DOMAIN c.bs |-> Q32(c.bs[i])],
                            vals |-> Vals(c), expect |-> Expect(c), win |-> Wins(c)]))
=============================================================================
