SPECIFICATION Spec
CONSTANTS
  N = @N@
  Directed = @DIRECTED@
  Salt = @SALT@
  Sample = @SAMPLE@
  Shard = @SHARD@
  NShards = @NSHARDS@
  Emit = @EMIT@
INVARIANTS Check
CHECK_DEADLOCK FALSE
