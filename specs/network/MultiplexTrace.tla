--------------------------- MODULE MultiplexTrace ---------------------------
(* C15, R3: accepts a log of real community.ModularizeMultiplex runs iff      *)
(* every level of every reported hierarchy is what the definitions say it     *)
(* must be (the multiplex counterpart of CommunityTrace.tla).                 *)
(*                                                                            *)
(* One event = one run: nl layers on the same n nodes (integer adjacency      *)
(* matrices, nodes numbered 1..n by increasing id; a layer with a NEGATIVE    *)
(* layer weight holds non-positive edge weights, as the documentation         *)
(* requires: "edge weight that does not sign-match the layer weight"          *)
(* panics), the integer layer weights lw, the per-layer resolutions g, the    *)
(* "all" flag, and for every level, base first: Communities(), Structure(),   *)
(* and per layer the level graph's Weight(i,j) matrix and edge existence.     *)
(*                                                                            *)
(* Required at every level (NS = node sets of the level, see Reduced.tla):    *)
(*   - Communities() is a partition of the original nodes;                    *)
(*   - Structure() is a partition of the level's own nodes and expands        *)
(*     through NS to exactly the communities;                                 *)
(*   - in EVERY layer Weight(i,j) = SUM_{u in NS[i], v in NS[j]} a_layer[u,v] *)
(*     (signed; the internal weight for i = j) and an edge is reported iff    *)
(*     that sum is not 0;                                                     *)
(*   - SUM_layer Q_layer of the top level is not below that of the singleton  *)
(*     partition (every accepted move of the local moving heuristic raises    *)
(*     the weighted sum it optimises; asserted only when every layer has an   *)
(*     edge, since Q_layer is 0/0 on an empty layer).                         *)
(* In emit mode the exact Q_layer of every level is printed next to the       *)
(* floats gonum's QMultiplex reported (on the reduced level with Structure()  *)
(* and on the original layers with Communities()).                            *)
EXTENDS Reduced, TLCExt, Json

CONSTANTS TracePath, Emit

TraceLog == ndJsonDeserialize(TracePath)

VARIABLE l

Layers(e) == 1 .. e.nl
Sgn(x) == IF x < 0 THEN 0 - 1 ELSE IF x > 0 THEN 1 ELSE 0

\* the run's input is inside the stated domain (otherwise nothing is promised and the
\* integer arithmetic below is not argued to fit): the recorder's obligation
InputOK(e) ==
  /\ e.nl \in 1 .. 3 /\ Len(e.adj) = e.nl /\ Len(e.lw) = e.nl /\ Len(e.g) = e.nl
  /\ \A k \in Layers(e) : /\ e.lw[k] # 0 /\ Abs(e.lw[k]) <= 3
                          /\ e.g[k][1] \in {1, 2} /\ e.g[k][2] \in {1, 2}
                          /\ LayerOK(e.adj[k], e.n, e.dir, Sgn(e.lw[k]))

NodeSets(e, k) == NodeSetsOf(e.n, IF k = 1 THEN <<>> ELSE e.levels[k - 1].comms)

\* the individual requirements on level k (named, so that a rejection can say which one failed)
Checks(e, k) ==
  With(e.levels[k], LAMBDA lv :
  With(NodeSets(e, k), LAMBDA ns :
  With(Len(ns), LAMBDA nn :
   [size      |-> /\ lv.nn = nn /\ Len(lv.w) = e.nl /\ Len(lv.has) = e.nl
                  /\ \A y \in Layers(e) : Len(lv.w[y]) = nn /\ Len(lv.has[y]) = nn,
    integral  |-> lv.wint,
    partition |-> IsPartitionSeq(lv.comms, 1 .. e.n),
    structure |-> StructureOK(lv.struct, lv.comms, ns),
    weights   |-> lv.nn = nn /\ \A y \in Layers(e) : \A i, j \in 1 .. nn :
                     With(BlockSum(e.adj[y], ns[i], ns[j]), LAMBDA s :
                        /\ lv.w[y][i][j] = s
                        /\ (i # j) => (lv.has[y][i][j] = IF s # 0 THEN 1 ELSE 0))])))

PartOfLevel(e, k) == PartSet(e.levels[k].comms)

\* SUM_layer [Q_layer(P) - Q_layer(singletons)] >= 0, decided digit-wise (Reduced.tla)
NotBelowSingles(e, P, D) ==
  LET ns == [y \in Layers(e) |-> LayerQNum(P, e.lw[y], e.g[y], D[y])
                                 - LayerQNum(SinglesOf(e.n), e.lw[y], e.g[y], D[y])]
      ds == [y \in Layers(e) |-> LayerQDen(e.g[y], D[y])]
  IN  SignOfSum(ns, ds) >= 0

AllTrue(r) == \A f \in DOMAIN r : r[f]

RunOK(e) ==
  /\ InputOK(e)
  /\ Len(e.levels) >= 1
  /\ \A k \in DOMAIN e.levels : AllTrue(Checks(e, k))
  /\ With([y \in Layers(e) |-> LayerData(e.adj[y], e.n)], LAMBDA D :
        /\ (\A y \in Layers(e) : D[y].m > 0 /\ LayerQDen(e.g[y], D[y]) < B4)
              => NotBelowSingles(e, PartOfLevel(e, Len(e.levels)), D)
        /\ Emit => \A k \in DOMAIN e.levels :
             PrintT(ToJson([k |-> "mq", run |-> e.run, level |-> k, n |-> e.n, nl |-> e.nl,
                            def |-> [y \in Layers(e) |-> D[y].m > 0],
                            q |-> [y \in Layers(e) |->
                                     IF D[y].m > 0 THEN LayerQ(PartOfLevel(e, k), e.lw[y], e.g[y], D[y])
                                     ELSE RZero],
                            qf |-> e.levels[k].q, qof |-> e.levels[k].qo])))

Init == l = 1
Next == /\ l <= Len(TraceLog)
        /\ RunOK(TraceLog[l])
        /\ l' = l + 1
TraceSpec == Init /\ [][Next]_l

\* the digit-wise sign agrees with direct evaluation wherever the direct products fit, and on
\* hand-computed instances where they do not (checked once per TLC run)
SignSelfTest ==
  /\ \A a, b, c \in {0 - 30001, 0 - 7, 0, 5, 12345, 30001} : \A d1, d2, d3 \in {1, 7, 97} :
        /\ SignOfSum(<<a, b, c>>, <<d1, d2, d3>>) = Sgn(a * d2 * d3 + b * d1 * d3 + c * d1 * d2)
        /\ SignOfSum(<<a, b>>, <<d1, d2>>) = Sgn(a * d2 + b * d1)
  /\ SignOfSum(<<2000000000, 0 - 2000000000>>, <<9999, 9998>>) = 0 - 1
  /\ SignOfSum(<<0 - 2000000000, 2000000000>>, <<9999, 9998>>) = 1
  /\ SignOfSum(<<1999800000, 0 - 1999600000>>, <<9999, 9998>>) = 0
  /\ SignOfSum(<<1999800000, 0 - 1999600000, 1>>, <<9999, 9998, 9997>>) = 1
  /\ SignOfSum(<<1999800000, 0 - 1999600000, 0 - 1>>, <<9999, 9998, 9997>>) = 0 - 1
  /\ SignOfSum(<<0 - 5>>, <<3>>) = 0 - 1
ASSUME SignSelfTest

\* which requirement(s) failed on the first run that was not accepted
Diagnose(e) ==
  IF ~InputOK(e) THEN "input outside the stated domain (recorder)"
  ELSE LET bad == {<<k, f>> \in (DOMAIN e.levels) \X {"size", "integral", "partition", "structure", "weights"} :
                     ~Checks(e, k)[f]}
       IN IF bad # {} THEN ToString(bad) ELSE "SUM Q_layer(top level) < SUM Q_layer(singletons)"

Accepted ==
    LET d == TLCGet("stats").diameter IN
    IF d - 1 = Len(TraceLog) THEN PrintT("TRACE-ACCEPTED " \o ToString(Len(TraceLog)))
    ELSE /\ PrintT("TRACE-REJECTED at event " \o ToString(d) \o " (run " \o ToString(TraceLog[d].run)
                   \o ", n=" \o ToString(TraceLog[d].n) \o "): failed " \o Diagnose(TraceLog[d]))
         /\ FALSE
=============================================================================
