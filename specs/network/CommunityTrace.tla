--------------------------- MODULE CommunityTrace ---------------------------
(* C15, R3: accepts a log of real community.Modularize runs iff every level   *)
(* of every reported hierarchy is what the definitions say it must be.        *)
(* One event = one run: the input graph (integer adjacency matrix, nodes      *)
(* numbered 1..n by increasing id), the resolution, and for every level, base *)
(* first: Communities() (original nodes), Structure() (ids of the level's own *)
(* nodes), the level graph's Weight(i,j) matrix and edge existence.           *)
(*                                                                            *)
(* Level k's node i stands for the node set NS_k[i]: a single original node   *)
(* at the base level, otherwise the i-th community of level k-1.  Required:   *)
(*   - Communities() is a partition of the original nodes;                    *)
(*   - Structure() is a partition of the level's own nodes and expands,       *)
(*     through NS_k, to exactly the communities (so each level coarsens the   *)
(*     one below);                                                            *)
(*   - reduced graph: Weight(i,j) = SUM_{u in NS[i], v in NS[j]} a[u,v] (the  *)
(*     internal weight for i = j), an edge is reported iff that sum is > 0;   *)
(*   - the exact Q of the top level is not below the exact Q of the singleton *)
(*     partition.                                                             *)
(* In emit mode the exact Q of every level is printed next to the floats      *)
(* gonum reported, for comparison by the harness (TLC has no reals).          *)
EXTENDS Integers, FiniteSets, Sequences, TLC, TLCExt, Json, FiniteSetsExt, Modularity

CONSTANTS TracePath, Emit

TraceLog == ndJsonDeserialize(TracePath)

VARIABLE l

Rng(s) == {s[i] : i \in DOMAIN s}
With(x, F(_)) == CHOOSE r \in {F(y) : y \in {x}} : TRUE

\* a sequence of sequences lists a partition of U: no empty part, no repeats, disjoint, covering
IsPartitionSeq(cs, U) ==
  /\ \A i \in DOMAIN cs : Len(cs[i]) > 0 /\ Cardinality(Rng(cs[i])) = Len(cs[i])
  /\ UNION {Rng(cs[i]) : i \in DOMAIN cs} = U
  /\ MapThenSumSet(LAMBDA i : Len(cs[i]), DOMAIN cs) = Cardinality(U)

NodeSets(e, k) == IF k = 1 THEN [i \in 1 .. e.n |-> {i}]
                  ELSE [i \in DOMAIN e.levels[k - 1].comms |-> Rng(e.levels[k - 1].comms[i])]

BlockSum(e, S, T) == MapThenSumSet(LAMBDA uv : e.adj[uv[1]][uv[2]], S \X T)

\* the individual requirements on level k (named, so that a rejection can say which one failed)
Checks(e, k) ==
  With(e.levels[k], LAMBDA lv :
  With(NodeSets(e, k), LAMBDA ns :
  With(Len(ns), LAMBDA nn :
   [size      |-> lv.nn = nn /\ Len(lv.w) = nn /\ Len(lv.has) = nn,
    integral  |-> lv.wint,
    partition |-> IsPartitionSeq(lv.comms, 1 .. e.n),
    structure |-> /\ IsPartitionSeq(lv.struct, 0 .. nn - 1)
                  /\ Len(lv.struct) = Len(lv.comms)
                  /\ \A c \in DOMAIN lv.struct : \A i \in Rng(lv.struct[c]) : i + 1 \in DOMAIN ns
                  /\ {Rng(lv.comms[c]) : c \in DOMAIN lv.comms}
                       = {UNION {ns[i + 1] : i \in Rng(lv.struct[c])} : c \in DOMAIN lv.struct},
    weights   |-> lv.nn = nn /\ \A i, j \in 1 .. nn :
                     With(BlockSum(e, ns[i], ns[j]), LAMBDA s :
                        /\ lv.w[i][j] = s
                        /\ (i # j) => (lv.has[i][j] = IF s > 0 THEN 1 ELSE 0))])))

QOf(e, P) ==
  With([i \in 1 .. e.n, j \in 1 .. e.n |-> e.adj[i][j]], LAMBDA a :
  With([i \in 1 .. e.n |-> MapThenSumSet(LAMBDA j : a[i, j], 1 .. e.n)], LAMBDA ko :
  With([j \in 1 .. e.n |-> MapThenSumSet(LAMBDA i : a[i, j], 1 .. e.n)], LAMBDA ki :
  With(MapThenSumSet(LAMBDA i : ko[i], 1 .. e.n), LAMBDA m :
     [P2 \in P |-> QComm(P2, e.g, a, ki, ko, m)]))))

PartOfLevel(e, k) == {Rng(e.levels[k].comms[c]) : c \in DOMAIN e.levels[k].comms}
Singles(e) == {{i} : i \in 1 .. e.n}

AllTrue(r) == \A f \in DOMAIN r : r[f]

RunOK(e) ==
  /\ Len(e.levels) >= 1
  /\ \A k \in DOMAIN e.levels : AllTrue(Checks(e, k))
  /\ With(QOf(e, {PartOfLevel(e, k) : k \in DOMAIN e.levels} \cup {Singles(e)}), LAMBDA q :
        /\ RLe(q[Singles(e)], q[PartOfLevel(e, Len(e.levels))])
        /\ Emit => \A k \in DOMAIN e.levels :
                     PrintT(ToJson([k |-> "lq", run |-> e.run, level |-> k, n |-> e.n,
                                    q |-> q[PartOfLevel(e, k)], qf |-> e.levels[k].q, qof |-> e.levels[k].qo])))

Init == l = 1
Next == /\ l <= Len(TraceLog)
        /\ RunOK(TraceLog[l])
        /\ l' = l + 1
TraceSpec == Init /\ [][Next]_l

\* which requirement(s) failed on the first run that was not accepted
Diagnose(e) ==
  LET bad == {<<k, f>> \in (DOMAIN e.levels) \X {"size", "integral", "partition", "structure", "weights"} :
                 ~Checks(e, k)[f]}
  IN IF bad # {} THEN ToString(bad) ELSE "Q(top level) < Q(singletons)"

Accepted ==
    LET d == TLCGet("stats").diameter IN
    IF d - 1 = Len(TraceLog) THEN PrintT("TRACE-ACCEPTED " \o ToString(Len(TraceLog)))
    ELSE /\ PrintT("TRACE-REJECTED at event " \o ToString(d) \o " (run " \o ToString(TraceLog[d].run)
                   \o ", n=" \o ToString(TraceLog[d].n) \o "): failed " \o Diagnose(TraceLog[d]))
         /\ FALSE
=============================================================================
