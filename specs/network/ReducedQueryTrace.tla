------------------------- MODULE ReducedQueryTrace -------------------------
(* C15, R3: the graphs a Louvain hierarchy is made of (ReducedUndirected,     *)
(* ReducedDirected and the layers of ReducedUndirectedMultiplex /             *)
(* ReducedDirectedMultiplex) answer the graph.Graph / graph.Weighted queries  *)
(* like the SET MODEL of the community graph (as C12 does for the containers).*)
(*                                                                            *)
(* One event = one level of one hierarchy, one layer: the layer's integer     *)
(* adjacency matrix a over the original nodes 1..n, the node sets the level's *)
(* nodes stand for (parts[i + 1] for the node with id i; the recorder reads   *)
(* them from the level below, this module checks that they are a partition),  *)
(* and what every query method returned for every node / pair of nodes.       *)
(*                                                                            *)
(* Model: nodes 0..nn-1; M(i,j) = SUM_{u in parts[i], v in parts[j]} a[u][v]; *)
(* there is an edge i -> j iff i # j and M(i,j) # 0 (all weights of a layer   *)
(* have one sign, so no cancellation).  Then, from the interface docs:        *)
(*   Nodes() = the node set; Node(id) = the node with that id, nil if absent; *)
(*   From(u) = {v : u -> v}; To(v) = {u : u -> v};                            *)
(*   HasEdgeBetween(x,y) iff x -> y or y -> x; HasEdgeFromTo(u,v) iff u -> v; *)
(*   Edge / WeightedEdge(u,v) non-nil iff u -> v, with end points u, v (in    *)
(*   either order for an undirected graph) and Weight() = M(u,v);             *)
(*   EdgeBetween / WeightedEdgeBetween (undirected) likewise;                 *)
(*   e.ReversedEdge() has e's end points swapped;                             *)
(*   Weight(x,y) = (M(x,y), x -> y) for x # y ("If there is no joining edge   *)
(*   ... the weight value returned is zero"), (internal weight M(x,x), true)  *)
(*   for x = y; no edge is reported for an id outside 0..nn-1.                *)
(* Undirected answers are symmetric because M is.                             *)
EXTENDS Reduced, TLCExt, Json

CONSTANTS TracePath, Emit

TraceLog == ndJsonDeserialize(TracePath)

VARIABLE l

InputOK(e) ==
  /\ e.sgn \in {0 - 1, 1}
  /\ LayerOK(e.adj, e.n, e.dir, e.sgn)
  /\ IsPartitionSeq(e.parts, 1 .. e.n)

\* the level has one node per node set (the other requirements index by it)
SizeOK(e) == e.nn = Len(e.parts)

B(x) == IF x THEN 1 ELSE 0

\* end points of a reported edge <<present, from, to, ...>> for the query (u, v), ids 0-based
Ends(e, r, u, v) == IF e.dir THEN r[2] = u /\ r[3] = v
                    ELSE {r[2], r[3]} = {u, v}

EdgeAns(e, ex, r, u, v) == r[1] = B(ex[u + 1, v + 1]) /\ (r[1] = 1 => Ends(e, r, u, v))
WEdgeAns(e, ex, m, r, u, v) == EdgeAns(e, ex, r, u, v) /\ (r[1] = 1 => r[4] = m[u + 1, v + 1])

Checks(e) ==
  With(e.nn, LAMBDA nn :
  With([i \in 1 .. nn |-> Rng(e.parts[i])], LAMBDA ns :
  With([i \in 1 .. nn, j \in 1 .. nn |-> BlockSum(e.adj, ns[i], ns[j])], LAMBDA m :
  With([i \in 1 .. nn, j \in 1 .. nn |-> i # j /\ m[i, j] # 0], LAMBDA ex :
  With(0 .. nn - 1, LAMBDA ids :
   [integral |-> e.wint,
    nodes    |-> Len(e.nodes) = nn /\ Rng(e.nodes) = ids,
    node     |-> /\ {q[1] : q \in Rng(e.nodeq)} = (0 - 1) .. nn
                 /\ \A q \in Rng(e.nodeq) : /\ q[2] = B(q[1] \in ids)
                                            /\ (q[2] = 1 => q[3] = q[1]),
    from     |-> /\ Len(e.from) = nn
                 /\ \A u \in ids : /\ Cardinality(Rng(e.from[u + 1])) = Len(e.from[u + 1])
                                   /\ Rng(e.from[u + 1]) = {v \in ids : ex[u + 1, v + 1]},
    to       |-> e.dir => /\ Len(e.to) = nn
                          /\ \A v \in ids : /\ Cardinality(Rng(e.to[v + 1])) = Len(e.to[v + 1])
                                            /\ Rng(e.to[v + 1]) = {u \in ids : ex[u + 1, v + 1]},
    hasedge  |-> \A u, v \in ids :
                    /\ e.heb[u + 1][v + 1] = B(ex[u + 1, v + 1] \/ ex[v + 1, u + 1])
                    /\ e.dir => e.heft[u + 1][v + 1] = B(ex[u + 1, v + 1]),
    edge     |-> \A u, v \in ids :
                    /\ EdgeAns(e, ex, e.edge[u + 1][v + 1], u, v)
                    /\ WEdgeAns(e, ex, m, e.wedge[u + 1][v + 1], u, v)
                    /\ ~e.dir => /\ EdgeAns(e, ex, e.eb[u + 1][v + 1], u, v)
                                 /\ WEdgeAns(e, ex, m, e.web[u + 1][v + 1], u, v),
    reversed |-> \A u, v \in ids :
                    With(e.edge[u + 1][v + 1], LAMBDA r :
                       e.rev[u + 1][v + 1] = IF r[1] = 1 THEN <<1, r[3], r[2]>> ELSE <<0, 0 - 1, 0 - 1>>),
    weight   |-> \A u, v \in ids :
                    e.weight[u + 1][v + 1] = <<m[u + 1, v + 1], B(u = v \/ ex[u + 1, v + 1])>>,
    outside  |-> \A i \in DOMAIN e.oob : e.oob[i] = 0])))))

AllTrue(r) == \A f \in DOMAIN r : r[f]

Init == l = 1
Next == /\ l <= Len(TraceLog)
        /\ InputOK(TraceLog[l])
        /\ SizeOK(TraceLog[l])
        /\ AllTrue(Checks(TraceLog[l]))
        /\ l' = l + 1
TraceSpec == Init /\ [][Next]_l

Diagnose(e) ==
  IF ~InputOK(e) THEN "input outside the stated domain (recorder)"
  ELSE IF ~SizeOK(e) THEN "size (number of nodes of the level # number of communities of the level below)"
  ELSE ToString({f \in DOMAIN Checks(e) : ~Checks(e)[f]})

Accepted ==
    LET d == TLCGet("stats").diameter IN
    IF d - 1 = Len(TraceLog) THEN PrintT("TRACE-ACCEPTED " \o ToString(Len(TraceLog)))
    ELSE /\ PrintT("TRACE-REJECTED at event " \o ToString(d) \o " (run " \o ToString(TraceLog[d].run)
                   \o " level " \o ToString(TraceLog[d].level) \o " layer " \o ToString(TraceLog[d].layer)
                   \o " " \o TraceLog[d].type \o "): failed " \o Diagnose(TraceLog[d]))
         /\ FALSE
=============================================================================
