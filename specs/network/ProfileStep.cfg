SPECIFICATION Spec
CONSTANTS
  Emit = @EMIT@
INVARIANTS Check
CHECK_DEADLOCK FALSE
