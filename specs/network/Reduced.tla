------------------------------- MODULE Reduced -------------------------------
(* C15: what a level of a Louvain hierarchy IS, stated over the original      *)
(* graph (shared by MultiplexTrace.tla, ProfileTrace.tla and                  *)
(* ReducedQueryTrace.tla).  Pure definitions: no constants, no variables.     *)
(*                                                                            *)
(* A layer of the input is an n x n integer matrix a (sequence of rows, nodes *)
(* numbered 1..n by increasing id).  Node i (0-based id i) of a reduced level *)
(* stands for a node set NS[i + 1]: a single original node at the base level, *)
(* otherwise the (i+1)-th community the level below reported.  Everything a   *)
(* reduced graph may answer is a function of the block sums                   *)
(*      M(i, j) = SUM_{u in NS[i], v in NS[j]} a[u][v]                        *)
(* (for i = j the documented "internal node weight": on the symmetric matrix  *)
(* of an undirected graph every internal edge counts twice).                  *)
(*                                                                            *)
(* Multiplex modularity (documentation of community.QMultiplex):              *)
(*   Q_layer = w_layer SUM_ij [ A*_ij - gamma_layer k_i^in k_j^out / m ]      *)
(*                              delta(c_i, c_j)                               *)
(* where A* are the MAGNITUDES of the layer's edge weights (the layer weight  *)
(* and the layer's edge weights must agree in sign, so w_layer A >= 0; this   *)
(* is the signed-network modularity of Traag, ch. 5, which the code cites),   *)
(* k and m the weighted degrees and total weight of A* (m = 2m of the         *)
(* documentation for an undirected layer, whose matrix holds each edge        *)
(* twice).  Not divided by m.                                                 *)
EXTENDS Integers, FiniteSets, Sequences, TLC, FiniteSetsExt, NetRat

Rng(s) == {s[i] : i \in DOMAIN s}

\* With(e, F) evaluates e once and hands the VALUE to F (TLC re-evaluates LET
\* definitions at every use inside nested constructors)
With(x, F(_)) == CHOOSE r \in {F(y) : y \in {x}} : TRUE

\* a sequence of sequences lists a partition of U: no empty part, no repeats, disjoint, covering
IsPartitionSeq(cs, U) ==
  /\ \A i \in DOMAIN cs : Len(cs[i]) > 0 /\ Cardinality(Rng(cs[i])) = Len(cs[i])
  /\ UNION {Rng(cs[i]) : i \in DOMAIN cs} = U
  /\ MapThenSumSet(LAMBDA i : Len(cs[i]), DOMAIN cs) = Cardinality(U)

PartSet(cs) == {Rng(cs[i]) : i \in DOMAIN cs}
SinglesOf(n) == {{i} : i \in 1 .. n}

\* node sets of a level: lower = Communities() of the level below, <<>> at the base level
NodeSetsOf(n, lower) == IF lower = <<>> THEN [i \in 1 .. n |-> {i}]
                        ELSE [i \in DOMAIN lower |-> Rng(lower[i])]

BlockSum(a, S, T) == MapThenSumSet(LAMBDA uv : a[uv[1]][uv[2]], S \X T)

\* Structure() (ids of the level's own nodes) is a partition of those nodes and expands,
\* through the node sets ns, to exactly the communities comms (so levels coarsen upwards)
StructureOK(struct, comms, ns) ==
  LET nn == Len(ns) IN
  /\ IsPartitionSeq(struct, 0 .. nn - 1)
  /\ Len(struct) = Len(comms)
  /\ \A c \in DOMAIN struct : \A i \in Rng(struct[c]) : i + 1 \in DOMAIN ns
  /\ PartSet(comms) = {UNION {ns[i + 1] : i \in Rng(struct[c])} : c \in DOMAIN struct}

\* a layer matrix is a legal input: zero diagonal, one sign (that of sgn), symmetric if undirected
LayerOK(a, n, dir, sgn) ==
  /\ Len(a) = n /\ \A i \in 1 .. n : Len(a[i]) = n /\ a[i][i] = 0
  /\ \A i, j \in 1 .. n : a[i][j] * sgn >= 0
  /\ IF dir THEN TRUE ELSE \A i, j \in 1 .. n : a[i][j] = a[j][i]   \* (IF, not \/: inside an action TLC
                                                                     \*  would explore both disjuncts)

\* derived quantities of one layer on magnitudes: [a, ki, ko, m]
LayerData(a, n) ==
  With([i \in 1 .. n, j \in 1 .. n |-> Abs(a[i][j])], LAMBDA mag :
  With([i \in 1 .. n |-> MapThenSumSet(LAMBDA j : mag[i, j], 1 .. n)], LAMBDA ko :
  With([j \in 1 .. n |-> MapThenSumSet(LAMBDA i : mag[i, j], 1 .. n)], LAMBDA ki :
     [a |-> mag, ki |-> ki, ko |-> ko, m |-> MapThenSumSet(LAMBDA i : ko[i], 1 .. n)])))

\* the two integer sums of a partition P (a set of node sets) in one layer
SumA(P, D) == MapThenSumSet(LAMBDA S : MapThenSumSet(LAMBDA ij : D.a[ij[1], ij[2]], S \X S), P)
SumK(P, D) == MapThenSumSet(LAMBDA S : MapThenSumSet(LAMBDA i : D.ki[i], S)
                                       * MapThenSumSet(LAMBDA j : D.ko[j], S), P)

\* Q_layer as numerator / denominator (integers; den = m * gd > 0 when m > 0)
LayerQNum(P, w, g, D) == w * (D.m * SumA(P, D) * g[2] - g[1] * SumK(P, D))
LayerQDen(g, D) == D.m * g[2]
LayerQ(P, w, g, D) == R(LayerQNum(P, w, g, D), LayerQDen(g, D))

\* single layer modularity (community.Q): LayerQ with w = 1 divided by m
SingleQ(P, g, D) == R(D.m * SumA(P, D) * g[2] - g[1] * SumK(P, D), D.m * D.m * g[2])

(* ---- sign of SUM_l N_l / d_l without leaving 32 bits ---------------------- *)
(* TLC integers are Java ints.  With 0 < d_l < 10^4 and |N_l| < 2^31 the sum   *)
(* over a common denominator does not fit, so the products N_l * PROD_{k#l} d_k *)
(* are formed digit-wise in base B = 10^4 (at most three terms: every partial  *)
(* coefficient stays below 6 * 10^8) and only the sign is read off.            *)
B4 == 10000
OthersProd(ds, l) == LET o == DOMAIN ds \ {l} IN
                     IF o = {} THEN 1
                     ELSE IF Cardinality(o) = 1 THEN ds[CHOOSE k \in o : TRUE]
                     ELSE LET k1 == CHOOSE k \in o : TRUE
                              k2 == CHOOSE k \in o \ {k1} : TRUE
                          IN  ds[k1] * ds[k2]
\* coefficients <<c0, c1, c2, c3>> of N * E in base B4 (N any int, 0 <= E < 10^8)
MulDigits(N, E) ==
  LET n0 == N % B4
      n1 == (N \div B4) % B4
      n2 == (N \div B4) \div B4          \* signed, |n2| <= 22
      e0 == E % B4
      e1 == E \div B4
  IN  <<n0 * e0, n1 * e0 + n0 * e1, n2 * e0 + n1 * e1, n2 * e1>>
\* sign (-1, 0, 1) of SUM_l ns[l] / ds[l]; Len(ns) = Len(ds) <= 3, 0 < ds[l] < B4
SignOfSum(ns, ds) ==
  LET c == [l \in DOMAIN ns |-> MulDigits(ns[l], OthersProd(ds, l))]
      s == [i \in 1 .. 4 |-> MapThenSumSet(LAMBDA l : c[l][i], DOMAIN ns)]
      r0 == s[1] % B4
      t1 == s[2] + (s[1] \div B4)
      r1 == t1 % B4
      t2 == s[3] + (t1 \div B4)
      r2 == t2 % B4
      top == s[4] + (t2 \div B4)
  IN  IF top > 0 THEN 1 ELSE IF top < 0 THEN 0 - 1
      ELSE IF r0 = 0 /\ r1 = 0 /\ r2 = 0 THEN 0 ELSE 1
=============================================================================
