----------------------------- MODULE Community -----------------------------
(* C15, modularity: Q of a partition as the defining double sum of            *)
(* graph/community's documentation, in exact rationals, for EVERY partition   *)
(* of the node set and several resolutions.  The graphs (state variable E,    *)
(* weights W) are those of Network.tla.                                       *)
(*                                                                            *)
(*   undirected  Q = 1/2m SUM_ij [A_ij - gamma k_i k_j / 2m] delta(c_i, c_j)  *)
(*   directed    Q = 1/m  SUM_ij [A_ij - gamma k_i^in k_j^out / m] delta(..)  *)
EXTENDS Network, Modularity

A(i, j) == IF Adj(i, j) THEN W(i, j) ELSE 0

\* the defining double sum and its community-wise form live in Modularity.tla
QLabel(c, g, a, ki, ko, m) == QLabelV(V, c, g, a, ki, ko, m)

\* every partition of V as a restricted growth string (label of node 1 is 1,
\* each next label at most one more than the largest so far)
Labelings == {c \in [V -> V] : c[1] = 1 /\ \A i \in 2 .. N : \E j \in 1 .. i - 1 : c[i] <= c[j] + 1}
PartOf(c) == {{i \in V : c[i] = l} : l \in {c[i] : i \in V}}
Gammas == {<<1, 2>>, <<1, 1>>, <<2, 1>>}
AllInOne == [i \in V |-> 1]
Singles == [i \in V |-> i]

QRecord(a, ki, ko, m) ==
  [k |-> "q", n |-> N, dir |-> Directed, wtd |-> Weighted, edges |-> EdgeList,
   \* "Q will panic if g has any edge with negative edge weight", "Modularize will panic if g has any
   \* edge with negative edge weight": the same graph with every weight negated must be refused
   negpanic |-> E # {},
   qs |-> {[c |-> c, g |-> g, q |-> QLabel(c, g, a, ki, ko, m)] : c \in Labelings, g \in Gammas}]

QCheck == (E # {}) =>
  With([i \in V, j \in V |-> A(i, j)], LAMBDA a :
  With([i \in V |-> MapThenSumSet(LAMBDA j : a[i, j], V)], LAMBDA ko :
  With([j \in V |-> MapThenSumSet(LAMBDA i : a[i, j], V)], LAMBDA ki :
  With(MapThenSumSet(LAMBDA i : ko[i], V), LAMBDA m :
    /\ QLabel(AllInOne, <<1, 1>>, a, ki, ko, m) = RZero
    /\ \A c \in Labelings, g \in Gammas : QLabel(c, g, a, ki, ko, m) = QComm(PartOf(c), g, a, ki, ko, m)
    \* invariance under renaming the labels (a permutation of the label set)
    /\ \A c \in Labelings : QLabel([i \in V |-> N + 1 - c[i]], <<1, 1>>, a, ki, ko, m) = QLabel(c, <<1, 1>>, a, ki, ko, m)
    /\ Singles \in Labelings /\ AllInOne \in Labelings
    /\ Emit => PrintT(ToJson(QRecord(a, ki, ko, m)))))))
=============================================================================
