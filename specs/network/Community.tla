----------------------------- MODULE Community -----------------------------
(* C15, modularity: Q of a partition as the defining double sum of            *)
(* graph/community's documentation, in exact rationals, for EVERY partition   *)
(* of the node set and several resolutions.  The graphs (state variable E,    *)
(* weights W) are those of Network.tla.                                       *)
(*                                                                            *)
(*   undirected  Q = 1/2m SUM_ij [A_ij - gamma k_i k_j / 2m] delta(c_i, c_j)  *)
(*   directed    Q = 1/m  SUM_ij [A_ij - gamma k_i^in k_j^out / m] delta(..)  *)
EXTENDS Network

A(i, j) == IF Adj(i, j) THEN W(i, j) ELSE 0

\* a: adjacency matrix, ki/ko: in/out weight sums, m: their total (undirected: 2m of the
\* documentation, directed: m).  c: labeling V -> labels.  The double sum runs over the
\* ordered pairs with equal labels.
QLabel(c, g, a, ki, ko, m) ==
  LET same == {ij \in V \X V : c[ij[1]] = c[ij[2]]}
      sa == MapThenSumSet(LAMBDA ij : a[ij[1], ij[2]], same)
      sk == MapThenSumSet(LAMBDA ij : ki[ij[1]] * ko[ij[2]], same)
  IN  R(m * sa * g[2] - g[1] * sk, m * m * g[2])

\* the same quantity summed community by community (the form used by CommunityTrace.tla)
QComm(P, g, a, ki, ko, m) ==
  RSumF([S \in P |->
     LET w  == MapThenSumSet(LAMBDA ij : a[ij[1], ij[2]], S \X S)
         si == MapThenSumSet(LAMBDA i : ki[i], S)
         so == MapThenSumSet(LAMBDA i : ko[i], S)
     IN  RSub(R(w, m), RMul(R(g[1], g[2]), R(si * so, m * m)))])

\* every partition of V as a restricted growth string (label of node 1 is 1,
\* each next label at most one more than the largest so far)
Labelings == {c \in [V -> V] : c[1] = 1 /\ \A i \in 2 .. N : \E j \in 1 .. i - 1 : c[i] <= c[j] + 1}
PartOf(c) == {{i \in V : c[i] = l} : l \in {c[i] : i \in V}}
Gammas == {<<1, 2>>, <<1, 1>>, <<2, 1>>}
AllInOne == [i \in V |-> 1]
Singles == [i \in V |-> i]

QRecord(a, ki, ko, m) ==
  [k |-> "q", n |-> N, dir |-> Directed, wtd |-> Weighted, edges |-> EdgeList,
   qs |-> {[c |-> c, g |-> g, q |-> QLabel(c, g, a, ki, ko, m)] : c \in Labelings, g \in Gammas}]

QCheck == (E # {}) =>
  With([i \in V, j \in V |-> A(i, j)], LAMBDA a :
  With([i \in V |-> MapThenSumSet(LAMBDA j : a[i, j], V)], LAMBDA ko :
  With([j \in V |-> MapThenSumSet(LAMBDA i : a[i, j], V)], LAMBDA ki :
  With(MapThenSumSet(LAMBDA i : ko[i], V), LAMBDA m :
    /\ QLabel(AllInOne, <<1, 1>>, a, ki, ko, m) = RZero
    /\ \A c \in Labelings, g \in Gammas : QLabel(c, g, a, ki, ko, m) = QComm(PartOf(c), g, a, ki, ko, m)
    \* invariance under renaming the labels (a permutation of the label set)
    /\ \A c \in Labelings : QLabel([i \in V |-> N + 1 - c[i]], <<1, 1>>, a, ki, ko, m) = QLabel(c, <<1, 1>>, a, ki, ko, m)
    /\ Singles \in Labelings /\ AllInOne \in Labelings
    /\ Emit => PrintT(ToJson(QRecord(a, ki, ko, m)))))))
=============================================================================
