----------------------------- MODULE Multiplex -----------------------------
(* C15, QMultiplex: per-layer modularity of a 2-layer multiplex graph for     *)
(* EVERY partition of the node set, integer layer weights and per-layer       *)
(* resolutions.  Layer 1 is the state graph of Network.tla (every graph in    *)
(* the bound); layer 2 is a pseudo-random graph on the same nodes derived     *)
(* from layer 1 and the salt (QMultiplex treats the layers independently, so  *)
(* the exhaustive enumeration of layer 1 is what matters).                    *)
EXTENDS Community

Code == MapThenSumSet(LAMBDA p : PIdx(p) * PIdx(p), E) % 997
E2 == SampleGraph(1 + Code)
Adj2(u, v) == u # v /\ Norm(u, v) \in E2
W2(u, v) == IF ~Weighted THEN 1
            ELSE LET p == Norm(u, v) IN 1 + ((p[1] * 5 + p[2] * 3 + Salt) % 3)
A2(i, j) == IF Adj2(i, j) THEN W2(i, j) ELSE 0
EdgeList2 == {<<e[1], e[2], W2(e[1], e[2])>> : e \in E2}

LayerWeights == {<<1, 1>>, <<2, 3>>}
LayerGammas == {<< <<1, 1>>, <<1, 1>> >>, << <<1, 2>>, <<2, 1>> >>}
\* a layer weight of zero (the layer does not count) and a NEGATIVE layer weight: the layer then
\* holds non-positive edge weights of the same magnitudes W2 (the harness negates them; "QMultiplex
\* will panic if the graph has any layer weight-scaled edge with negative edge weight") and A* of
\* the documented formula are the magnitudes: Q_layer = w * (the bracketed sum on magnitudes)
SignedWeights == {<<3, 0>>, <<2, 0 - 1>>}
SignedGammas == {<< <<1, 2>>, <<2, 1>> >>}

\* the documented refusal: some edge weight times its layer weight is negative.  neg2: layer 2 is
\* built with negated weights.  (Both layers have an edge when MCheck emits.)
Refused(w, neg2) == w[1] < 0 \/ (w[2] > 0 /\ neg2) \/ (w[2] < 0 /\ ~neg2)
Contract == {[w |-> w, neg2 |-> b, panic |-> Refused(w, b)] :
               w \in {<<1, 1>>, <<1, 0 - 1>>, <<1, 0>>, <<0 - 2, 1>>}, b \in BOOLEAN}

\* argument lengths (0 stands for nil; the graph has 2 layers): "If weights is nil layers are equally
\* weighted, otherwise the length of weights must equal the number of layers. If resolutions is nil
\* ... otherwise either a single element slice ... or the length of resolutions must equal the number
\* of layers" - every other combination must be refused
Lengths == {[nw |-> a, ng |-> b, panic |-> ~(a \in {0, 2} /\ b \in {0, 1, 2})] : a \in 0 .. 3, b \in 0 .. 3}

\* NewUndirectedLayers / NewDirectedLayers "ensuring there is a match between IDs for each layer":
\* a second layer on the node set (V minus its first `drop` nodes) plus `extra` new nodes is an error
\* iff that set differs from V (equal size, different ids included); k copies of one layer have Depth k
Layer2Nodes(x) == (V \ (1 .. x.drop)) \cup (N + 1 .. N + x.extra)
NodeSets == {[extra |-> x.extra, drop |-> x.drop, err |-> Layer2Nodes(x) # V] :
               x \in {[extra |-> 0, drop |-> 0], [extra |-> 1, drop |-> 0], [extra |-> 1, drop |-> 1],
                      [extra |-> 0, drop |-> 1]}}

\* the community-wise integer forms the trace specifications use (Reduced.tla)
Red == INSTANCE Reduced
Mat(F(_, _)) == [i \in V |-> [j \in V |-> F(i, j)]]

\* the derived quantities of one layer: <<a, ki, ko, m>>
LayerOf(F(_, _)) ==
  With([i \in V, j \in V |-> F(i, j)], LAMBDA a :
  With([i \in V |-> MapThenSumSet(LAMBDA j : a[i, j], V)], LAMBDA ko :
  With([j \in V |-> MapThenSumSet(LAMBDA i : a[i, j], V)], LAMBDA ki :
     <<a, ki, ko, MapThenSumSet(LAMBDA i : ko[i], V)>>)))

QL(c, w, g, L) == QLayerV(V, c, w, g, L[1], L[2], L[3], L[4])

MRecord(L1, L2) ==
  [k |-> "qm", n |-> N, dir |-> Directed, wtd |-> Weighted, l1 |-> EdgeList, l2 |-> EdgeList2,
   qs |-> {[c |-> c, w |-> w, g |-> g, q |-> <<QL(c, w[1], g[1], L1), QL(c, w[2], g[2], L2)>>]
             : c \in Labelings, w \in LayerWeights, g \in LayerGammas}
          \cup {[c |-> c, w |-> w, g |-> g, q |-> <<QL(c, w[1], g[1], L1), QL(c, w[2], g[2], L2)>>]
             : c \in Labelings, w \in SignedWeights, g \in SignedGammas},
   contract |-> Contract, lengths |-> Lengths, nodesets |-> NodeSets, depths |-> {0, 1, 2, 3}]

MCheck == (E # {} /\ E2 # {}) =>
  With(LayerOf(A), LAMBDA L1 :
  With(LayerOf(A2), LAMBDA L2 :
    \* a layer's multiplex score is w * m * (the single layer Q of Community.tla)
    /\ \A c \in Labelings, g \in Gammas, w \in {1, 3} :
          /\ QL(c, w, g, L1) = RMul(RInt(w * L1[4]), QLabel(c, g, L1[1], L1[2], L1[3], L1[4]))
          /\ QL(c, w, g, L2) = RMul(RInt(w * L2[4]), QLabel(c, g, L2[1], L2[2], L2[3], L2[4]))
    /\ QL(AllInOne, 1, <<1, 1>>, L1) = RZero /\ QL(AllInOne, 2, <<1, 1>>, L2) = RZero
    \* Reduced.tla's forms (sums over the communities, layer data from a matrix) are the same numbers,
    \* also for a negative layer weight on a matrix of non-positive weights
    /\ With(Red!LayerData(Mat(A), N), LAMBDA D1 :
       With(Red!LayerData([i \in V |-> [j \in V |-> 0 - A2(i, j)]], N), LAMBDA D2 :
         \A c \in Labelings, g \in Gammas :
            /\ Red!LayerQ(PartOf(c), 2, g, D1) = QL(c, 2, g, L1)
            /\ Red!LayerQ(PartOf(c), 0 - 1, g, D2) = QL(c, 0 - 1, g, L2)
            /\ Red!SingleQ(PartOf(c), g, D1) = QLabel(c, g, L1[1], L1[2], L1[3], L1[4])))
    /\ Emit => PrintT(ToJson(MRecord(L1, L2)))))
=============================================================================
