----------------------------- MODULE Multiplex -----------------------------
(* C15, QMultiplex: per-layer modularity of a 2-layer multiplex graph for     *)
(* EVERY partition of the node set, integer layer weights and per-layer       *)
(* resolutions.  Layer 1 is the state graph of Network.tla (every graph in    *)
(* the bound); layer 2 is a pseudo-random graph on the same nodes derived     *)
(* from layer 1 and the salt (QMultiplex treats the layers independently, so  *)
(* the exhaustive enumeration of layer 1 is what matters).                    *)
EXTENDS Community

Code == MapThenSumSet(LAMBDA p : PIdx(p) * PIdx(p), E) % 997
E2 == SampleGraph(1 + Code)
Adj2(u, v) == u # v /\ Norm(u, v) \in E2
W2(u, v) == IF ~Weighted THEN 1
            ELSE LET p == Norm(u, v) IN 1 + ((p[1] * 5 + p[2] * 3 + Salt) % 3)
A2(i, j) == IF Adj2(i, j) THEN W2(i, j) ELSE 0
EdgeList2 == {<<e[1], e[2], W2(e[1], e[2])>> : e \in E2}

LayerWeights == {<<1, 1>>, <<2, 3>>}
LayerGammas == {<< <<1, 1>>, <<1, 1>> >>, << <<1, 2>>, <<2, 1>> >>}

\* the derived quantities of one layer: <<a, ki, ko, m>>
LayerOf(F(_, _)) ==
  With([i \in V, j \in V |-> F(i, j)], LAMBDA a :
  With([i \in V |-> MapThenSumSet(LAMBDA j : a[i, j], V)], LAMBDA ko :
  With([j \in V |-> MapThenSumSet(LAMBDA i : a[i, j], V)], LAMBDA ki :
     <<a, ki, ko, MapThenSumSet(LAMBDA i : ko[i], V)>>)))

QL(c, w, g, L) == QLayerV(V, c, w, g, L[1], L[2], L[3], L[4])

MRecord(L1, L2) ==
  [k |-> "qm", n |-> N, dir |-> Directed, wtd |-> Weighted, l1 |-> EdgeList, l2 |-> EdgeList2,
   qs |-> {[c |-> c, w |-> w, g |-> g, q |-> <<QL(c, w[1], g[1], L1), QL(c, w[2], g[2], L2)>>]
             : c \in Labelings, w \in LayerWeights, g \in LayerGammas}]

MCheck == (E # {} /\ E2 # {}) =>
  With(LayerOf(A), LAMBDA L1 :
  With(LayerOf(A2), LAMBDA L2 :
    \* a layer's multiplex score is w * m * (the single layer Q of Community.tla)
    /\ \A c \in Labelings, g \in Gammas, w \in {1, 3} :
          /\ QL(c, w, g, L1) = RMul(RInt(w * L1[4]), QLabel(c, g, L1[1], L1[2], L1[3], L1[4]))
          /\ QL(c, w, g, L2) = RMul(RInt(w * L2[4]), QLabel(c, g, L2[1], L2[2], L2[3], L2[4]))
    /\ QL(AllInOne, 1, <<1, 1>>, L1) = RZero /\ QL(AllInOne, 2, <<1, 1>>, L2) = RZero
    /\ Emit => PrintT(ToJson(MRecord(L1, L2)))))
=============================================================================
