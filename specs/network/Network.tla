------------------------------ MODULE Network ------------------------------
(* C15, network measures: the defining formulas of graph/network and          *)
(* graph/spectral evaluated by brute force in exact rationals.                *)
(*                                                                            *)
(* A state is one graph on the nodes 1..N (every subset of the possible       *)
(* edges, or a pseudo-random sample of them); edge weights are a function of  *)
(* the graph and a salt.  Shortest paths are found by enumerating ALL simple  *)
(* paths (injective node sequences) and keeping those of minimal weight; the  *)
(* centralities are the textbook sums over those path sets.  PageRank is the  *)
(* exact solution of the stationary equation of the damped, dangling-         *)
(* corrected walk (Cramer's rule over the integers), the Laplacians are their *)
(* defining entries.  Nothing here is shaped like gonum's algorithms (no BFS, *)
(* no Brandes accumulation, no power iteration).                              *)
(*                                                                            *)
(* Roles: R1 the identities below are invariants checked on every graph;      *)
(* R2 with Emit = TRUE one JSON record per graph carries every expected value *)
(* and is replayed into gonum by harness/internal/network.                    *)
EXTENDS Integers, FiniteSets, Sequences, TLC, Json, FiniteSetsExt, NetRat

CONSTANTS N,         \* number of nodes (1..5)
          Directed,  \* BOOLEAN
          Weighted,  \* BOOLEAN: weights in 1..3 (else all 1)
          Salt,      \* data salt (from VERIF_SEED)
          Sample,    \* 0: every graph; k > 0: k pseudo-random graphs
          Emit       \* BOOLEAN: generator role

VARIABLE E           \* the edge set: pairs <<u,v>> (u < v when undirected)
vars == <<E>>

V == 1 .. N
SeqOf(f) == [i \in V |-> f[i]]
Pairs == IF Directed THEN {p \in V \X V : p[1] # p[2]} ELSE {p \in V \X V : p[1] < p[2]}
PIdx(p) == (p[1] - 1) * N + p[2]

\* pseudo-random graph number k: pair p present iff a small hash is below the
\* density chosen for k (densities 1/5 .. 4/5)
Hash(k, i) == ((k * 7919 + i * 104729 + (Salt % 1000) * 15485 + ((k * i) % 3001) * 6113) % 65521) % 100
Dens(k) == 20 + 15 * (k % 5)
SampleGraph(k) == {p \in Pairs : Hash(k, PIdx(p)) < Dens(k)}

Norm(u, v) == IF Directed \/ u < v THEN <<u, v>> ELSE <<v, u>>
Adj(u, v) == u # v /\ Norm(u, v) \in E
W(u, v) == IF ~Weighted THEN 1
           ELSE LET p == Norm(u, v)
                IN  1 + ((p[1] * 7 + p[2] * 11 + Salt + Cardinality(E) * 13) % 3)
Out(u) == {v \in V : Adj(u, v)}
In(u)  == {v \in V : Adj(v, u)}

(***************************** all simple paths *****************************)
\* every injective node sequence of length 2..N (graph independent)
InjSeqs == UNION {{s \in [1 .. k -> V] : \A i, j \in 1 .. k : i # j => s[i] # s[j]} : k \in 2 .. N}

IsPath(p) == \A i \in 1 .. Len(p) - 1 : Adj(p[i], p[i + 1])
RECURSIVE PLenTo(_, _)
PLenTo(p, i) == IF i = 1 THEN 0 ELSE PLenTo(p, i - 1) + W(p[i - 1], p[i])
PLen(p) == PLenTo(p, Len(p))

(* Everything that depends on the graph is computed once per state in a LET   *)
(* (Measures) so that TLC does not re-derive the path sets per use.           *)
Inf == 0 - 1      \* distance of an unreachable pair

Interior(p) == {p[i] : i \in 2 .. Len(p) - 1}
PEdges(p) == {Norm(p[i], p[i + 1]) : i \in 1 .. Len(p) - 1}

\* TLC re-evaluates a LET definition at every use inside nested function
\* constructors; With(e, F) evaluates e once and hands the VALUE to F.
With(x, F(_)) == CHOOSE r \in {F(y) : y \in {x}} : TRUE

PLens(paths) == [p \in paths |-> PLen(p)]
Betw(paths)  == [s \in V, t \in V |-> {p \in paths : p[1] = s /\ p[Len(p)] = t}]
DistF(len, between) == [s \in V, t \in V |->
                  IF s = t THEN 0
                  ELSE IF between[s, t] = {} THEN Inf
                  ELSE Min({len[p] : p \in between[s, t]})]
ShF(len, between, dist) == [s \in V, t \in V |-> {p \in between[s, t] : len[p] = dist[s, t]}]
\* sigma_st(v)/sigma_st summed over ordered pairs s # v # t
BetF(sh, ST) == [v \in V |->
                  RSumF([st \in {x \in ST : x[1] # v /\ x[2] # v} |->
                     R(Cardinality({p \in sh[st[1], st[2]] : v \in Interior(p)}),
                       Cardinality(sh[st[1], st[2]]))])]
EBetF(sh, ST) == [e \in E |->
                  RSumF([st \in ST |->
                     R(Cardinality({p \in sh[st[1], st[2]] : e \in PEdges(p)}),
                       Cardinality(sh[st[1], st[2]]))])]
\* distance measures use the INCOMING distances d(u, v), finite ones only
FinF(dist) == [v \in V |-> {u \in V : dist[u, v] # Inf}]

Measures ==
  With({p \in InjSeqs : IsPath(p)}, LAMBDA paths :
  With(PLens(paths), LAMBDA len :
  With(Betw(paths), LAMBDA between :
  With(DistF(len, between), LAMBDA dist :
  With(ShF(len, between, dist), LAMBDA sh :
  With({st \in V \X V : st[1] # st[2] /\ dist[st[1], st[2]] # Inf}, LAMBDA ST :
  With(FinF(dist), LAMBDA fin :
     [dist |-> dist, sh |-> sh, ST |-> ST, bet |-> BetF(sh, ST), ebet |-> EBetF(sh, ST),
      far |-> [v \in V |-> MapThenSumSet(LAMBDA u : dist[u, v], fin[v])],
      ecc |-> [v \in V |-> Max({dist[u, v] : u \in fin[v]})],
      har |-> [v \in V |-> RSumF([u \in fin[v] \ {v} |-> R(1, dist[u, v])])],
      res |-> [v \in V |-> RSumF([u \in fin[v] \ {v} |-> R(1, 2 ^ dist[u, v])])],
      \* The same graph with every weight HALVED (distances d/2, half-integers): the residual closeness
      \* sum 2^-(d/2) is  a + b*sqrt(2)  with  a = sum over even d of 2^-(d/2)  and
      \* b = sum over odd d of 2^-((d+1)/2), both exact rationals; farness halves, harmonic doubles.
      resh |-> [v \in V |-> <<RSumF([u \in {x \in fin[v] \ {v} : dist[x, v] % 2 = 0} |-> R(1, 2 ^ (dist[u, v] \div 2))]),
                              RSumF([u \in {x \in fin[v] \ {v} : dist[x, v] % 2 = 1} |-> R(1, 2 ^ ((dist[u, v] + 1) \div 2))])>>],
      farh |-> [v \in V |-> R(MapThenSumSet(LAMBDA u : dist[u, v], fin[v]), 2)],
      harh |-> [v \in V |-> RSumF([u \in fin[v] \ {v} |-> R(2, dist[u, v])])]])))))))

(******************************** PageRank **********************************)
(* Stationary vector of  x = d*M*x + ((1-d)/n)*1,  M column stochastic:       *)
(* M[i,j] = w(j,i)/z(j) when z(j) = total out-weight of j is non-zero, 1/n    *)
(* for every i when j is dangling.  Column j of (dd*I - dn*M) is multiplied   *)
(* by c(j) (= z(j), or n when dangling) to obtain the integer matrix A; with  *)
(* B_j = A with column j replaced by ones, Cramer's rule gives                *)
(*     x_j = c(j) det(B_j) / SUM_k c(k) det(B_k).                             *)
(* Magnitudes: |A| entries <= dd*9, n <= 4 (or d in {1/2,3/4}, n = 5): the    *)
(* Hadamard bound keeps every determinant below 2^31.                         *)
Z(j) == MapThenSumSet(LAMBDA v : W(j, v), Out(j))
C(j) == IF Z(j) = 0 THEN N ELSE Z(j)
MC(i, j) == IF Z(j) = 0 THEN 1 ELSE IF Adj(j, i) THEN W(j, i) ELSE 0     \* M[i,j]*c(j)

Perms == {f \in [V -> V] : \A i, j \in V : i # j => f[i] # f[j]}
SignOf == [f \in Perms |-> IF Cardinality({ij \in V \X V : ij[1] < ij[2] /\ f[ij[1]] > f[ij[2]]}) % 2 = 0 THEN 1 ELSE -1]
Sign(f) == SignOf[f]
RECURSIVE ProdTo(_, _, _)
ProdTo(m, f, i) == IF i = 0 THEN 1 ELSE ProdTo(m, f, i - 1) * m[i, f[i]]
Det(m) == MapThenSumSet(LAMBDA f : Sign(f) * ProdTo(m, f, N), Perms)

PageRank(dn, dd) ==
  With([i \in V, j \in V |-> (IF i = j THEN dd * C(j) ELSE 0) - dn * MC(i, j)], LAMBDA A :
  With([k \in V |-> C(k) * Det([i \in V, j \in V |-> IF j = k THEN 1 ELSE A[i, j]])], LAMBDA num :
  With(MapThenSumSet(LAMBDA k : num[k], V), LAMBDA tot :
     [k \in V |-> R(num[k], tot)])))

\* the defining equation, evaluated exactly on a candidate vector
MEntry(i, j) == R(MC(i, j), C(j))
IsStationary(x, dn, dd) ==
  \A i \in V :
     x[i] = RAdd(RMul(R(dn, dd), RSumF([j \in V |-> RMul(MEntry(i, j), x[j])])),
                 R(dd - dn, dd * N))

Dampings == IF Weighted \/ N > 4 THEN {<<1, 2>>, <<3, 4>>} ELSE {<<1, 2>>, <<17, 20>>}
Tols == {<<1, 100>>, <<1, 1000000>>, <<1, 100000000>>}
\* |x_k - x*|_inf <= |.|_1 <= d/(1-d) |x_k - x_{k-1}|_1 <= d/(1-d) n |x_k - x_{k-1}|_2 < d/(1-d) n tol
PRBound(d, tol) == RMul(RMul(R(d[1], d[2] - d[1]), RInt(N)), R(tol[1], tol[2]))

(******************************* Laplacians *********************************)
Deg(u) == Cardinality(Out(u))
Lap == [i \in V |-> [j \in V |-> IF i = j THEN Deg(i) ELSE IF Adj(i, j) THEN 0 - 1 ELSE 0]]
\* symmetric normalised: 1 on the diagonal of non-isolated nodes, -1/sqrt(d_i d_j) on edges:
\* stated as sign and exact square
SymLapSq == [i \in V |-> [j \in V |->
               IF i = j THEN (IF Deg(i) > 0 THEN <<1, 1, 1>> ELSE <<0, 0, 1>>)
               ELSE IF Adj(i, j) THEN <<0 - 1, 1, Deg(i) * Deg(j)>> ELSE <<0, 0, 1>>]]
\* random walk Laplacian scaled by (1-damp): (1-damp)(I - D^-1 A); entry [i][j] = -(1-damp)/deg(i)
\* (emitted for damp = 1/4; the harness also reports the transposed convention)
RWLap(dn, dd) == [i \in V |-> [j \in V |->
               IF Out(i) = {} THEN RZero
               ELSE IF i = j THEN R(dd - dn, dd)
               ELSE IF Adj(i, j) THEN R(dn - dd, dd * Deg(i)) ELSE RZero]]

(********************************* HITS *************************************)
(* network.HITS iterates  auth <- A^T hub, hub <- A auth  (each normalised to  *)
(* unit 2-norm) from hub = 1, so auth_j is parallel to (A^T A)^(j-1) A^T 1 and *)
(* hub_j to (A A^T)^j 1.  M = A^T A (resp. A A^T) is a non-negative symmetric  *)
(* positive semidefinite integer matrix; it splits into irreducible blocks,    *)
(* and the iteration acts on each block separately.  Where v = M^2 x0 is, on   *)
(* every block, already an exact eigenvector (integer cross-multiplication),   *)
(* the block eigenvalues lam_b = (Mv)_i/v_i are rational, the iterate is       *)
(* SUM_b lam_b^j v_b, and the limit direction is v restricted to the blocks of *)
(* maximal eigenvalue: an integer vector d.  Everything else (irrational       *)
(* Perron vectors) is declared not exact and only normalisation is checked.    *)
(* When the termination test |delta| < tol fires, the part on non-dominant     *)
(* blocks is below tol*rho/(1-rho), rho = lam2/lam; a factor 2 covers the      *)
(* second-order effect of the normalisation.                                   *)
AT(i, j) == IF Adj(i, j) THEN 1 ELSE 0
MAuth == [i \in V, j \in V |-> MapThenSumSet(LAMBDA k : AT(k, i) * AT(k, j), V)]
MHub  == [i \in V, j \in V |-> MapThenSumSet(LAMBDA k : AT(i, k) * AT(j, k), V)]
MulMV(m, x) == [i \in V |-> MapThenSumSet(LAMBDA j : m[i, j] * x[j], V)]
RECURSIVE VGcdTo(_, _)
VGcdTo(x, i) == IF i = 0 THEN 0 ELSE Gcd(VGcdTo(x, i - 1), x[i])
Reduce(x) == LET g == VGcdTo(x, N) IN IF g = 0 THEN x ELSE [i \in V |-> x[i] \div g]
Compose(c1, c2) == [i \in V, j \in V |-> \E k \in V : c1[i, k] /\ c2[k, j]]
\* same irreducible block (paths of length <= 4 suffice for N <= 5)
Blocks(m) == With([i \in V, j \in V |-> i = j \/ m[i, j] > 0], LAMBDA c1 :
             With(Compose(c1, c1), LAMBDA c2 : Compose(c2, c2)))

HitsDir(m, x0) ==
  With(Reduce(MulMV(m, MulMV(m, x0))), LAMBDA v :
  With(MulMV(m, v), LAMBDA mv :
  With(Blocks(m), LAMBDA blk :
    LET sup == {i \in V : v[i] > 0}
        exact == \A i, j \in sup : blk[i, j] => mv[i] * v[j] = mv[j] * v[i]
        Ge(i, j) == mv[i] * v[j] >= mv[j] * v[i]          \* lam(block of i) >= lam(block of j)
        dom == {i \in sup : \A j \in sup : Ge(i, j)}
        rest == sup \ dom
    IN [ok |-> exact /\ sup # {},
        d |-> [i \in V |-> IF i \in dom THEN v[i] ELSE 0],
        lam |-> IF sup = {} THEN RZero ELSE LET t == CHOOSE i \in dom : TRUE IN R(mv[t], v[t]),
        lam2 |-> IF rest = {} THEN RZero
                 ELSE LET j == CHOOSE j \in rest : \A k \in rest : Ge(j, k) IN R(mv[j], v[j])])))

HitsTols == {<<1, 1000>>, <<1, 100000000>>}
HitsDev(h, tol) == RMul(RMul(RInt(2), R(tol[1], tol[2])), RDiv(h.lam2, RSub(h.lam, h.lam2)))
HitsSide(h) == [ok |-> h.ok, d |-> SeqOf(h.d),
                devs |-> IF h.ok THEN {<<t[1], t[2], HitsDev(h, t)[1], HitsDev(h, t)[2]>> : t \in HitsTols}
                         ELSE {<<t[1], t[2], 0, 1>> : t \in HitsTols}]
InDeg == [i \in V |-> Cardinality(In(i))]
Ones == [i \in V |-> 1]
\* R1: an exact direction is a non-negative eigenvector of M for lam, lam2 < lam; the two
\* sides have the same dominant eigenvalue and the hub direction is A times the authority one
HitsOk(ha, hh) ==
  /\ \A h \in {<<ha, MAuth>>, <<hh, MHub>>} :
        h[1].ok => /\ \A i \in V : MulMV(h[2], h[1].d)[i] * h[1].lam[2] = h[1].lam[1] * h[1].d[i]
                   /\ \A i \in V : h[1].d[i] >= 0
                   /\ \E i \in V : h[1].d[i] > 0
                   /\ RLt(h[1].lam2, h[1].lam) /\ h[1].lam[1] > 0
  /\ (ha.ok /\ hh.ok) =>
        /\ ha.lam = hh.lam
        /\ LET ad == [i \in V |-> MapThenSumSet(LAMBDA j : AT(i, j) * ha.d[j], V)]
           IN  \A i, j \in V : ad[i] * hh.d[j] = ad[j] * hh.d[i]
  /\ (E # {}) => (ha.ok = hh.ok)

(******************************** diffusion *********************************)
(* Undirected graphs, initial heat Heat (positive integers).                   *)
(*  - Diffuse(t = 0) = exp(0) h = h, exactly.                                  *)
(*  - Diffuse with the Laplacian D - A conserves the total heat (its columns   *)
(*    sum to zero), for every t.                                               *)
(*  - DiffuseToEquilibrium iterates h <- h - L h.  With the random walk        *)
(*    Laplacian (1-damp)(I - A D^-1) (columns sum to zero: what gonum builds)  *)
(*    heat is conserved per connected component and the fixed point is         *)
(*    proportional to the degree there; with the documented orientation        *)
(*    (1-damp)(I - D^-1 A) the fixed point is constant per component, equal    *)
(*    to the degree-weighted mean.  Isolated nodes keep their heat.  Both are  *)
(*    emitted; the harness selects by the orientation of the matrix it feeds.  *)
(*  - Allowed deviation: the update is a contraction with factor               *)
(*    rho <= 1 - (1-damp)/(diam*vol) per component (Chung's bound on the       *)
(*    normalised Laplacian gap) in the degree-weighted norm, so the result is  *)
(*    within tol/(1-rho) of the fixed point there, times dmax/dmin (>= the     *)
(*    norm equivalence constant) in the 2-norm.                                *)
Heat == [i \in V |-> 1 + ((i * 5 + Salt + Cardinality(E)) % 7)]
EquiTol == <<1, 100000000>>
Diffusion(m) ==
  LET comp(v) == {u \in V : m.dist[u, v] # Inf}
      vol(S) == MapThenSumSet(LAMBDA u : Deg(u), S)
      live == {v \in V : Deg(v) > 0}
      dmax == IF live = {} THEN 1 ELSE Max({Deg(v) : v \in live})
      dmin == IF live = {} THEN 1 ELSE Min({Deg(v) : v \in live})
      dv == IF live = {} THEN 1 ELSE Max({m.ecc[v] * vol(comp(v)) : v \in live})
  IN [heat |-> SeqOf(Heat), sum |-> MapThenSumSet(LAMBDA i : Heat[i], V),
      equicol |-> [v \in V |-> IF Deg(v) = 0 THEN RInt(Heat[v])
                               ELSE R(MapThenSumSet(LAMBDA u : Heat[u], comp(v)) * Deg(v), vol(comp(v)))],
      equirow |-> [v \in V |-> IF Deg(v) = 0 THEN RInt(Heat[v])
                               ELSE R(MapThenSumSet(LAMBDA u : Deg(u) * Heat[u], comp(v)), vol(comp(v)))],
      tol |-> EquiTol,
      dev |-> RMul(R(EquiTol[1], EquiTol[2]), R(4 * dmax * dv, 3 * dmin))]
\* R1: both vectors are fixed points of h <- h - L h for their orientation of RWLap(1,4),
\* the column form conserves heat, the row form conserves degree-weighted heat
DiffOk(df) == ~Directed =>
  LET L == RWLap(1, 4) IN
  /\ \A i \in V : RSumF([j \in V |-> RMul(L[j][i], df.equicol[j])]) = RZero
  /\ \A i \in V : RSumF([j \in V |-> RMul(L[i][j], df.equirow[j])]) = RZero
  /\ RSumF(df.equicol) = RInt(df.sum)
  /\ RSumF([v \in V |-> RMul(RInt(Deg(v)), df.equirow[v])]) = RInt(MapThenSumSet(LAMBDA v : Deg(v) * Heat[v], V))

(************************** states and generator ****************************)
Init == IF Sample = 0 THEN E \in SUBSET Pairs
        ELSE E \in {SampleGraph(k) : k \in 1 .. Sample}
Next == UNCHANGED E
Spec == Init /\ [][Next]_vars

EdgeList == {<<e[1], e[2], W(e[1], e[2])>> : e \in E}

Record(m, prs, ha, hh, df) ==
  LET base == [k |-> "net", n |-> N, dir |-> Directed, wtd |-> Weighted, edges |-> EdgeList,
               dist |-> [i \in V |-> [j \in V |-> m.dist[i, j]]],
               bet |-> SeqOf(m.bet),
               ebet |-> {<<e[1], e[2], m.ebet[e][1], m.ebet[e][2]>> : e \in E},
               far |-> SeqOf(m.far), ecc |-> SeqOf(m.ecc), har |-> SeqOf(m.har), res |-> SeqOf(m.res),
               resh |-> SeqOf(m.resh), farh |-> SeqOf(m.farh), harh |-> SeqOf(m.harh),
               rwlap |-> RWLap(1, 4)]
  IN IF Directed
     THEN base @@ [pr |-> {[d |-> d, r |-> SeqOf(prs[d]),
                            tols |-> {<<t[1], t[2], PRBound(d, t)[1], PRBound(d, t)[2]>> : t \in Tols}]
                           : d \in Dampings},
                   hits |-> [auth |-> HitsSide(ha), hub |-> HitsSide(hh)]]
     ELSE base @@ [lap |-> Lap, symlap |-> SymLapSq, diff |-> df]

(**************************** R1: identities ********************************)
\* each shortest path with h hops has h-1 interior nodes and h edges; unweighted: h = dist
BetSum(m) == ~Weighted =>
    /\ RSumF(m.bet)  = RInt(MapThenSumSet(LAMBDA st : m.dist[st[1], st[2]] - 1, m.ST))
    /\ RSumF(m.ebet) = RInt(MapThenSumSet(LAMBDA st : m.dist[st[1], st[2]], m.ST))
\* every shortest path set of a reachable pair is non-empty and made of minimal paths
ShortestOK(m) ==
    \A st \in m.ST : m.sh[st[1], st[2]] # {} /\ \A p \in m.sh[st[1], st[2]] : PLen(p) = m.dist[st[1], st[2]]
\* triangle inequality of the brute-force distances
Triangle(m) ==
    \A s, t, u \in V : (m.dist[s, u] # Inf /\ m.dist[u, t] # Inf) =>
                          (m.dist[s, t] # Inf /\ m.dist[s, t] <= m.dist[s, u] + m.dist[u, t])
Symmetric(m) == ~Directed => \A s, t \in V : m.dist[s, t] = m.dist[t, s]
\* PageRank: the Cramer solution satisfies the stationary equation exactly, is positive, sums to one
PROk(prs) == Directed => \A d \in Dampings :
    LET x == prs[d] IN
      /\ IsStationary(x, d[1], d[2])
      /\ RSumF(x) = ROne
      /\ \A i \in V : x[i][1] > 0 /\ IsRat(x[i])
\* Laplacian rows sum to zero, is symmetric for undirected graphs
LapOk == ~Directed =>
    /\ \A i \in V : MapThenSumSet(LAMBDA j : Lap[i][j], V) = 0
    /\ \A i, j \in V : Lap[i][j] = Lap[j][i]
    /\ \A i \in V : RSumF(RWLap(1, 4)[i]) = RZero

\* one invariant: the measures are derived once per graph, checked, then printed
Check ==
  With(Measures, LAMBDA m :
  With([d \in Dampings |-> IF Directed THEN PageRank(d[1], d[2]) ELSE <<>>], LAMBDA prs :
  With(HitsDir(MAuth, InDeg), LAMBDA ha :
  With(HitsDir(MHub, Ones), LAMBDA hh :
  With(IF Directed THEN <<>> ELSE Diffusion(m), LAMBDA df :
     /\ BetSum(m) /\ ShortestOK(m) /\ Triangle(m) /\ Symmetric(m) /\ PROk(prs) /\ LapOk
     /\ (Directed => HitsOk(ha, hh)) /\ (~Directed => DiffOk(df))
     /\ Emit => PrintT(ToJson(Record(m, prs, ha, hh, df))))))))
=============================================================================
