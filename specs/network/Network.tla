------------------------------ MODULE Network ------------------------------
(* C15, network measures: the defining formulas of graph/network and          *)
(* graph/spectral evaluated by brute force in exact rationals.                *)
(*                                                                            *)
(* A state is one graph on the nodes 1..N (every subset of the possible       *)
(* edges, or a pseudo-random sample of them); edge weights are a function of  *)
(* the graph and a salt.  Shortest paths are found by enumerating ALL simple  *)
(* paths (injective node sequences) and keeping those of minimal weight; the  *)
(* centralities are the textbook sums over those path sets.  PageRank is the  *)
(* exact solution of the stationary equation of the damped, dangling-         *)
(* corrected walk (Cramer's rule over the integers), the Laplacians are their *)
(* defining entries.  Nothing here is shaped like gonum's algorithms (no BFS, *)
(* no Brandes accumulation, no power iteration).                              *)
(*                                                                            *)
(* Roles: R1 the identities below are invariants checked on every graph;      *)
(* R2 with Emit = TRUE one JSON record per graph carries every expected value *)
(* and is replayed into gonum by harness/internal/network.                    *)
EXTENDS Integers, FiniteSets, Sequences, TLC, Json, FiniteSetsExt, NetRat

CONSTANTS N,         \* number of nodes (1..5)
          Directed,  \* BOOLEAN
          Weighted,  \* BOOLEAN: weights in 1..3 (else all 1)
          Salt,      \* data salt (from VERIF_SEED)
          Sample,    \* 0: every graph; k > 0: k pseudo-random graphs
          Emit       \* BOOLEAN: generator role

VARIABLE E           \* the edge set: pairs <<u,v>> (u < v when undirected)
vars == <<E>>

V == 1 .. N
Pairs == IF Directed THEN {p \in V \X V : p[1] # p[2]} ELSE {p \in V \X V : p[1] < p[2]}
PIdx(p) == (p[1] - 1) * N + p[2]

\* pseudo-random graph number k: pair p present iff a small hash is below the
\* density chosen for k (densities 1/5 .. 4/5)
Hash(k, i) == ((k * 7919 + i * 104729 + (Salt % 1000) * 15485 + ((k * i) % 3001) * 6113) % 65521) % 100
Dens(k) == 20 + 15 * (k % 5)
SampleGraph(k) == {p \in Pairs : Hash(k, PIdx(p)) < Dens(k)}

Norm(u, v) == IF Directed \/ u < v THEN <<u, v>> ELSE <<v, u>>
Adj(u, v) == u # v /\ Norm(u, v) \in E
W(u, v) == IF ~Weighted THEN 1
           ELSE LET p == Norm(u, v)
                IN  1 + ((p[1] * 7 + p[2] * 11 + Salt + Cardinality(E) * 13) % 3)
Out(u) == {v \in V : Adj(u, v)}
In(u)  == {v \in V : Adj(v, u)}

(***************************** all simple paths *****************************)
\* every injective node sequence of length 2..N (graph independent)
InjSeqs == UNION {{s \in [1 .. k -> V] : \A i, j \in 1 .. k : i # j => s[i] # s[j]} : k \in 2 .. N}

IsPath(p) == \A i \in 1 .. Len(p) - 1 : Adj(p[i], p[i + 1])
RECURSIVE PLenTo(_, _)
PLenTo(p, i) == IF i = 1 THEN 0 ELSE PLenTo(p, i - 1) + W(p[i - 1], p[i])
PLen(p) == PLenTo(p, Len(p))

(* Everything that depends on the graph is computed once per state in a LET   *)
(* (Measures) so that TLC does not re-derive the path sets per use.           *)
Inf == 0 - 1      \* distance of an unreachable pair

Interior(p) == {p[i] : i \in 2 .. Len(p) - 1}
PEdges(p) == {Norm(p[i], p[i + 1]) : i \in 1 .. Len(p) - 1}

\* TLC re-evaluates a LET definition at every use inside nested function
\* constructors; With(e, F) evaluates e once and hands the VALUE to F.
With(x, F(_)) == CHOOSE r \in {F(y) : y \in {x}} : TRUE

PLens(paths) == [p \in paths |-> PLen(p)]
Betw(paths)  == [s \in V, t \in V |-> {p \in paths : p[1] = s /\ p[Len(p)] = t}]
DistF(len, between) == [s \in V, t \in V |->
                  IF s = t THEN 0
                  ELSE IF between[s, t] = {} THEN Inf
                  ELSE Min({len[p] : p \in between[s, t]})]
ShF(len, between, dist) == [s \in V, t \in V |-> {p \in between[s, t] : len[p] = dist[s, t]}]
\* sigma_st(v)/sigma_st summed over ordered pairs s # v # t
BetF(sh, ST) == [v \in V |->
                  RSumF([st \in {x \in ST : x[1] # v /\ x[2] # v} |->
                     R(Cardinality({p \in sh[st[1], st[2]] : v \in Interior(p)}),
                       Cardinality(sh[st[1], st[2]]))])]
EBetF(sh, ST) == [e \in E |->
                  RSumF([st \in ST |->
                     R(Cardinality({p \in sh[st[1], st[2]] : e \in PEdges(p)}),
                       Cardinality(sh[st[1], st[2]]))])]
\* distance measures use the INCOMING distances d(u, v), finite ones only
FinF(dist) == [v \in V |-> {u \in V : dist[u, v] # Inf}]

Measures ==
  With({p \in InjSeqs : IsPath(p)}, LAMBDA paths :
  With(PLens(paths), LAMBDA len :
  With(Betw(paths), LAMBDA between :
  With(DistF(len, between), LAMBDA dist :
  With(ShF(len, between, dist), LAMBDA sh :
  With({st \in V \X V : st[1] # st[2] /\ dist[st[1], st[2]] # Inf}, LAMBDA ST :
  With(FinF(dist), LAMBDA fin :
     [dist |-> dist, sh |-> sh, ST |-> ST, bet |-> BetF(sh, ST), ebet |-> EBetF(sh, ST),
      far |-> [v \in V |-> MapThenSumSet(LAMBDA u : dist[u, v], fin[v])],
      ecc |-> [v \in V |-> Max({dist[u, v] : u \in fin[v]})],
      har |-> [v \in V |-> RSumF([u \in fin[v] \ {v} |-> R(1, dist[u, v])])],
      res |-> [v \in V |-> RSumF([u \in fin[v] \ {v} |-> R(1, 2 ^ dist[u, v])])]])))))))

(******************************** PageRank **********************************)
(* Stationary vector of  x = d*M*x + ((1-d)/n)*1,  M column stochastic:       *)
(* M[i,j] = w(j,i)/z(j) when z(j) = total out-weight of j is non-zero, 1/n    *)
(* for every i when j is dangling.  Column j of (dd*I - dn*M) is multiplied   *)
(* by c(j) (= z(j), or n when dangling) to obtain the integer matrix A; with  *)
(* B_j = A with column j replaced by ones, Cramer's rule gives                *)
(*     x_j = c(j) det(B_j) / SUM_k c(k) det(B_k).                             *)
(* Magnitudes: |A| entries <= dd*9, n <= 4 (or d in {1/2,3/4}, n = 5): the    *)
(* Hadamard bound keeps every determinant below 2^31.                         *)
Z(j) == MapThenSumSet(LAMBDA v : W(j, v), Out(j))
C(j) == IF Z(j) = 0 THEN N ELSE Z(j)
MC(i, j) == IF Z(j) = 0 THEN 1 ELSE IF Adj(j, i) THEN W(j, i) ELSE 0     \* M[i,j]*c(j)

Perms == {f \in [V -> V] : \A i, j \in V : i # j => f[i] # f[j]}
SignOf == [f \in Perms |-> IF Cardinality({ij \in V \X V : ij[1] < ij[2] /\ f[ij[1]] > f[ij[2]]}) % 2 = 0 THEN 1 ELSE -1]
Sign(f) == SignOf[f]
RECURSIVE ProdTo(_, _, _)
ProdTo(m, f, i) == IF i = 0 THEN 1 ELSE ProdTo(m, f, i - 1) * m[i, f[i]]
Det(m) == MapThenSumSet(LAMBDA f : Sign(f) * ProdTo(m, f, N), Perms)

PageRank(dn, dd) ==
  With([i \in V, j \in V |-> (IF i = j THEN dd * C(j) ELSE 0) - dn * MC(i, j)], LAMBDA A :
  With([k \in V |-> C(k) * Det([i \in V, j \in V |-> IF j = k THEN 1 ELSE A[i, j]])], LAMBDA num :
  With(MapThenSumSet(LAMBDA k : num[k], V), LAMBDA tot :
     [k \in V |-> R(num[k], tot)])))

\* the defining equation, evaluated exactly on a candidate vector
MEntry(i, j) == R(MC(i, j), C(j))
IsStationary(x, dn, dd) ==
  \A i \in V :
     x[i] = RAdd(RMul(R(dn, dd), RSumF([j \in V |-> RMul(MEntry(i, j), x[j])])),
                 R(dd - dn, dd * N))

Dampings == IF Weighted \/ N > 4 THEN {<<1, 2>>, <<3, 4>>} ELSE {<<1, 2>>, <<17, 20>>}
Tols == {<<1, 100>>, <<1, 1000000>>, <<1, 100000000>>}
\* |x_k - x*|_inf <= |.|_1 <= d/(1-d) |x_k - x_{k-1}|_1 <= d/(1-d) n |x_k - x_{k-1}|_2 < d/(1-d) n tol
PRBound(d, tol) == RMul(RMul(R(d[1], d[2] - d[1]), RInt(N)), R(tol[1], tol[2]))

(******************************* Laplacians *********************************)
Deg(u) == Cardinality(Out(u))
Lap == [i \in V |-> [j \in V |-> IF i = j THEN Deg(i) ELSE IF Adj(i, j) THEN 0 - 1 ELSE 0]]
\* symmetric normalised: 1 on the diagonal of non-isolated nodes, -1/sqrt(d_i d_j) on edges:
\* stated as sign and exact square
SymLapSq == [i \in V |-> [j \in V |->
               IF i = j THEN (IF Deg(i) > 0 THEN <<1, 1, 1>> ELSE <<0, 0, 1>>)
               ELSE IF Adj(i, j) THEN <<0 - 1, 1, Deg(i) * Deg(j)>> ELSE <<0, 0, 1>>]]
\* random walk Laplacian scaled by (1-damp): (1-damp)(I - D^-1 A); entry [i][j] = -(1-damp)/deg(i)
\* (emitted for damp = 1/4; the harness also reports the transposed convention)
RWLap(dn, dd) == [i \in V |-> [j \in V |->
               IF Out(i) = {} THEN RZero
               ELSE IF i = j THEN R(dd - dn, dd)
               ELSE IF Adj(i, j) THEN R(dn - dd, dd * Deg(i)) ELSE RZero]]

(************************** states and generator ****************************)
Init == IF Sample = 0 THEN E \in SUBSET Pairs
        ELSE E \in {SampleGraph(k) : k \in 1 .. Sample}
Next == UNCHANGED E
Spec == Init /\ [][Next]_vars

EdgeList == {<<e[1], e[2], W(e[1], e[2])>> : e \in E}
SeqOf(f) == [i \in V |-> f[i]]

Record(m, prs) ==
  LET base == [k |-> "net", n |-> N, dir |-> Directed, wtd |-> Weighted, edges |-> EdgeList,
               dist |-> [i \in V |-> [j \in V |-> m.dist[i, j]]],
               bet |-> SeqOf(m.bet),
               ebet |-> {<<e[1], e[2], m.ebet[e][1], m.ebet[e][2]>> : e \in E},
               far |-> SeqOf(m.far), ecc |-> SeqOf(m.ecc), har |-> SeqOf(m.har), res |-> SeqOf(m.res),
               rwlap |-> RWLap(1, 4)]
  IN IF Directed
     THEN base @@ [pr |-> {[d |-> d, r |-> SeqOf(prs[d]),
                            tols |-> {<<t[1], t[2], PRBound(d, t)[1], PRBound(d, t)[2]>> : t \in Tols}]
                           : d \in Dampings}]
     ELSE base @@ [lap |-> Lap, symlap |-> SymLapSq]

(**************************** R1: identities ********************************)
\* each shortest path with h hops has h-1 interior nodes and h edges; unweighted: h = dist
BetSum(m) == ~Weighted =>
    /\ RSumF(m.bet)  = RInt(MapThenSumSet(LAMBDA st : m.dist[st[1], st[2]] - 1, m.ST))
    /\ RSumF(m.ebet) = RInt(MapThenSumSet(LAMBDA st : m.dist[st[1], st[2]], m.ST))
\* every shortest path set of a reachable pair is non-empty and made of minimal paths
ShortestOK(m) ==
    \A st \in m.ST : m.sh[st[1], st[2]] # {} /\ \A p \in m.sh[st[1], st[2]] : PLen(p) = m.dist[st[1], st[2]]
\* triangle inequality of the brute-force distances
Triangle(m) ==
    \A s, t, u \in V : (m.dist[s, u] # Inf /\ m.dist[u, t] # Inf) =>
                          (m.dist[s, t] # Inf /\ m.dist[s, t] <= m.dist[s, u] + m.dist[u, t])
Symmetric(m) == ~Directed => \A s, t \in V : m.dist[s, t] = m.dist[t, s]
\* PageRank: the Cramer solution satisfies the stationary equation exactly, is positive, sums to one
PROk(prs) == Directed => \A d \in Dampings :
    LET x == prs[d] IN
      /\ IsStationary(x, d[1], d[2])
      /\ RSumF(x) = ROne
      /\ \A i \in V : x[i][1] > 0 /\ IsRat(x[i])
\* Laplacian rows sum to zero, is symmetric for undirected graphs
LapOk == ~Directed =>
    /\ \A i \in V : MapThenSumSet(LAMBDA j : Lap[i][j], V) = 0
    /\ \A i, j \in V : Lap[i][j] = Lap[j][i]
    /\ \A i \in V : RSumF(RWLap(1, 4)[i]) = RZero

\* one invariant: the measures are derived once per graph, checked, then printed
Check ==
  With(Measures, LAMBDA m :
  With([d \in Dampings |-> IF Directed THEN PageRank(d[1], d[2]) ELSE <<>>], LAMBDA prs :
     /\ BetSum(m) /\ ShortestOK(m) /\ Triangle(m) /\ Symmetric(m) /\ PROk(prs) /\ LapOk
     /\ Emit => PrintT(ToJson(Record(m, prs)))))
=============================================================================
