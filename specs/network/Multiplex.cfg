SPECIFICATION Spec
CONSTANTS
  N = @N@
  Directed = @DIRECTED@
  Weighted = @WEIGHTED@
  Salt = @SALT@
  Sample = @SAMPLE@
  Emit = @EMIT@
INVARIANTS MCheck
CHECK_DEADLOCK FALSE
