SPECIFICATION Spec
CONSTANTS
  N = @N@
  Depth = @DEPTH@
  Directed = @DIRECTED@
  Weighted = @WEIGHTED@
  Full = @FULL@
  FullGrid = @FULLGRID@
  Salt = @SALT@
  Sample = @SAMPLE@
  Emit = @EMIT@
INVARIANTS GCheck
CHECK_DEADLOCK FALSE
