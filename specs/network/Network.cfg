SPECIFICATION Spec
CONSTANTS
  N = @N@
  Directed = @DIRECTED@
  Weighted = @WEIGHTED@
  Salt = @SALT@
  Sample = @SAMPLE@
  Emit = @EMIT@
INVARIANTS Check
CHECK_DEADLOCK FALSE
