---------------------------- MODULE WeightedHeap ----------------------------
(* The partial-sum heap shared by stat/sampleuv.Weighted (sampling without   *)
(* replacement: Take / Reweight / ReweightAll) and stat/distuv.Categorical    *)
(* (Rand / Reweight / ReweightAll, Prob / CDF / Mean), with integer weights.  *)
(*                                                                            *)
(* Two layers in one module:                                                  *)
(*  abstract   - the state IS the weight vector; a draw is a choice of an     *)
(*               index; the law is P(i) = weights[i] / total.                 *)
(*  impl-shape - `heap` laid out as in the code (children of position p at 2p *)
(*               and 2p+1, positions 1..N = code indices 0..N-1), the two     *)
(*               Reweight loops, reset(), and the two descents (Take's and    *)
(*               Rand's differ in their comparisons) for a scripted uniform   *)
(*               variate.                                                     *)
(* The uniform variate is scripted on the half-integer grid                   *)
(*   u = (2r+1)/(2*total), r \in 0..total-1, so that u*total = r + 1/2 is far *)
(* from every boundary of the partition of [0,total) induced by the weights;  *)
(* all arithmetic is in doubled units (r2 = 2r+1 against 2*weight).           *)
(*                                                                            *)
(* R1 theorems (TLC, all weight vectors in the bound, every action):          *)
(*   HeapInv, TotalOK  heap[p] = weights[p] + heap[2p] + heap[2p+1]           *)
(*   Measure           the descent is a measure preserving choice: index p is *)
(*                     chosen for exactly weights[p] grid points, hence       *)
(*                     P(p) = weights[p]/total and never a weight-0 index     *)
(*   DescentsAgree     Take's and Rand's descents choose the same index       *)
(*   TakeExact, SupportShrinks, DrainOK   Take zeroes exactly the returned    *)
(*                     index; |support| successful takes, then ok = FALSE     *)
(*   LawOK             Prob >= 0 sums to 1, CDF non-decreasing 0..1 and is    *)
(*                     the partial sum of Prob                                *)
(* R2 (Emit = TRUE): every transition out of every state is printed with the  *)
(* expected outcome and the complete observation table of the post-state.     *)
EXTENDS Integers, Sequences, FiniteSets, TLC, Json

CONSTANTS N,      \* number of items
          W,      \* weights range over 0..W
          Kind,   \* "weighted" (sampleuv.Weighted) | "categorical" (distuv.Categorical)
          Emit,   \* BOOLEAN generator role
          Salt,   \* seed for the choice of ReweightAll targets and drain variates
          NAll    \* number of ReweightAll targets per state

VARIABLES weights, heap, last
vars == <<weights, heap, last>>
View == <<weights, heap>>

Pos == 1 .. N
B == W + 1
RECURSIVE Pow(_, _)
Pow(b, e) == IF e = 0 THEN 1 ELSE b * Pow(b, e - 1)
M == Pow(B, N)                         \* number of weight vectors
Vec(k) == [p \in Pos |-> (k \div Pow(B, p - 1)) % B]
RECURSIVE SumTo(_, _)
SumTo(f, n) == IF n = 0 THEN 0 ELSE f[n] + SumTo(f, n - 1)
SumSeq(f) == SumTo(f, Len(f))
VIdx(w) == SumSeq([p \in Pos |-> w[p] * Pow(B, p - 1)])
Supp(w) == {p \in Pos : w[p] > 0}
Cat == Kind = "categorical"

(************************ implementation-shaped part *************************)
Child(h, p) == IF p <= N THEN h[p] ELSE 0

\* reset(): copy(heap, weights); for i = len-1 .. 1 { heap[((i+1)>>1)-1] += heap[i] }
RECURSIVE ResetFrom(_, _)
ResetFrom(h, p) == IF p <= 1 THEN h ELSE ResetFrom([h EXCEPT ![p \div 2] = @ + h[p]], p - 1)
Reset(w) == ResetFrom(w, N)

\* Weighted.Reweight: recompute the sums on the path to the root
RECURSIVE WUp(_, _, _)
WUp(w, h, p) == LET h2 == [h EXCEPT ![p] = w[p] + Child(h, 2 * p + 1) + Child(h, 2 * p)]
                IN IF p = 1 THEN h2 ELSE WUp(w, h2, p \div 2)

\* Categorical.Reweight: subtract the difference on the path to the root
RECURSIVE CUp(_, _, _)
CUp(h, p, delta) == IF p = 0 THEN h ELSE CUp([h EXCEPT ![p] = @ - delta], p \div 2, delta)

\* Weighted.Take descent for r2/2 = u*total (doubled units); returns a position
RECURSIVE TakeD(_, _, _, _)
TakeD(w, h, p, r2) ==
    LET r == r2 - 2 * w[p] IN
    IF r < 0 THEN p
    ELSE IF 2 * p > N THEN p
    ELSE LET l == 2 * p
             d == 2 * h[l]
         IN IF r >= d THEN (IF l + 1 > N THEN l ELSE TakeD(w, h, l + 1, r - d))
            ELSE TakeD(w, h, l, r)

\* Categorical.Rand descent; 0 = the code would index out of range
RECURSIVE RandD(_, _, _, _)
RandD(w, h, p, r2) ==
    IF p > N THEN 0
    ELSE LET r == r2 - 2 * w[p] IN
         IF r <= 0 THEN p
         ELSE IF 2 * p > N THEN 0
         ELSE LET l == 2 * p
                  d == 2 * h[l]
              IN IF r > d THEN RandD(w, h, l + 1, r - d) ELSE RandD(w, h, l, r)

Descend(w, h, r) == IF Cat THEN RandD(w, h, 1, 2 * r + 1) ELSE TakeD(w, h, 1, 2 * r + 1)

(********************************* actions ***********************************)
Out(op, ok, idx, pn) == [op |-> op, ok |-> ok, idx |-> idx, panic |-> pn]
Panic(op) == last' = Out(op, FALSE, 0, TRUE) /\ UNCHANGED <<weights, heap>>

\* w: any sequence of integers
ReweightAll(w) ==
    IF Len(w) # N THEN Panic("ReweightAll")                         \* documented panic (both types)
    ELSE IF Cat /\ (\E p \in Pos : w[p] < 0) THEN Panic("ReweightAll")   \* "All of the weights must be nonnegative"
    ELSE IF Cat /\ SumSeq(w) <= 0 THEN Panic("ReweightAll")         \* "at least one of the weights must be positive"
    ELSE /\ weights' = w
         /\ heap' = Reset(w)
         /\ last' = Out("ReweightAll", TRUE, 0, FALSE)

Reweight(p, x) ==
    IF Cat /\ x < 0 THEN Panic("Reweight")
    ELSE IF Cat /\ SumSeq([weights EXCEPT ![p] = x]) <= 0 THEN Panic("Reweight")
    ELSE /\ weights' = [weights EXCEPT ![p] = x]
         /\ heap' = IF Cat THEN CUp(heap, p, weights[p] - x) ELSE WUp(weights', heap, p)
         /\ last' = Out("Reweight", TRUE, 0, FALSE)

\* Weighted only: Take with the scripted variate (2r+1)/(2 total)
Take(r) ==
    /\ ~Cat
    /\ IF heap[1] = 0 THEN last' = Out("Take", FALSE, 0, FALSE) /\ UNCHANGED <<weights, heap>>
       ELSE LET p == TakeD(weights, heap, 1, 2 * r + 1) IN
            /\ weights' = [weights EXCEPT ![p] = 0]
            /\ heap' = WUp(weights', heap, p)
            /\ last' = Out("Take", TRUE, p, FALSE)

(************************ abstract law of a state ****************************)
\* exact rationals as <<num, den>>
Total(w) == SumSeq(w)
ProbN(w, x2) == IF x2 % 2 = 0 /\ x2 >= 0 /\ x2 \div 2 <= N - 1 THEN w[x2 \div 2 + 1] ELSE 0   \* numerator of Prob(x2/2)
CdfN(w, x2) == SumSeq([p \in Pos |-> IF 2 * (p - 1) <= x2 THEN w[p] ELSE 0])                  \* numerator of CDF(x2/2)
MeanN(w) == SumSeq([p \in Pos |-> (p - 1) * w[p]])
XGrid == 1 .. (2 * N + 5)            \* x2 = j - 4: from -3/2 to N + 1/2 in half steps
X2(j) == j - 4

\* complete observation table of a state: expected index for every grid variate, and (categorical)
\* the exact law
Obs(w, h) ==
    LET T == Total(w) IN
    [total |-> T,
     draws |-> [r \in 1 .. T |-> Descend(w, h, r - 1) - 1],           \* code index for variate (2(r-1)+1)/(2T)
     probn |-> [j \in XGrid |-> ProbN(w, X2(j))],
     cdfn  |-> [j \in XGrid |-> CdfN(w, X2(j))],
     meann |-> MeanN(w),
     \* LogProb is expressible only where Prob is 1 (-> 0) or 0 (-> -Inf): 0 | 1 | 2 = not covered
     lp    |-> [p \in Pos |-> IF T > 0 /\ w[p] = T THEN 0 ELSE IF w[p] = 0 THEN 1 ELSE 2],
     single |-> Cardinality(Supp(w)) = 1,
     \* boundary variates u = q/T (exactly representable, and u*T exact, when T is a power of two):
     \* the partition of [0,T) has a boundary at every integer, a measure-zero event on which the
     \* law allows the index of either adjacent cell (half-open to either side) - but never anything
     \* else, in particular not an index of weight zero: <<q, legal index, other legal index>>
     bd |-> IF T \in {1, 2, 4, 8, 16, 32}
            THEN [q \in 1 .. T |-> <<q - 1, Descend(w, h, q - 1) - 1,
                                     IF q >= 2 THEN Descend(w, h, q - 2) - 1 ELSE Descend(w, h, q - 1) - 1>>]
            ELSE <<>>]

\* a full drain of a Weighted: takes until ok = FALSE, variates chosen from Salt
RECURSIVE Drain(_, _, _)
Drain(w, h, k) ==
    LET T == h[1] IN
    IF T = 0 THEN << [r |-> 0, total |-> 0, ok |-> FALSE, idx |-> 0] >>
    ELSE LET r == (Salt * 7 + k * 5 + VIdx(w)) % T
             p == TakeD(w, h, 1, 2 * r + 1)
             w2 == [w EXCEPT ![p] = 0]
         IN << [r |-> r, total |-> T, ok |-> TRUE, idx |-> p - 1] >> \o Drain(w2, WUp(w2, h, p), k + 1)

(******************************* generator ***********************************)
AllTargets == {Vec((VIdx(weights) * 7 + Salt * 13 + j * 31 + 1) % M) : j \in 1 .. NAll}
BadAll == {Append(weights, 1)} \cup (IF N > 1 THEN {SubSeq(weights, 1, N - 1)} ELSE {})
          \cup (IF Cat THEN {[p \in Pos |-> 0], [weights EXCEPT ![N] = 0 - 1]} ELSE {})
Ops == [op : {"ReweightAll"}, w : AllTargets \cup BadAll]
       \cup [op : {"Reweight"}, i : Pos, x : (0 .. W) \cup (IF Cat THEN {0 - 1} ELSE {})]
       \cup (IF Cat THEN {} ELSE [op : {"Take"}, r : 0 .. (IF heap[1] > 0 THEN heap[1] - 1 ELSE 0)])

Do(o) == CASE o.op = "ReweightAll" -> ReweightAll(o.w)
           [] o.op = "Reweight"    -> Reweight(o.i, o.x)
           [] o.op = "Take"        -> Take(o.r)

\* uniform JSON shape of a call: i = code index, w = weight arguments, u = <<num, den>> scripted variate
OpJson(o) == CASE o.op = "ReweightAll" -> [op |-> o.op, i |-> 0, w |-> o.w, u |-> <<0, 1>>]
               [] o.op = "Reweight"    -> [op |-> o.op, i |-> o.i - 1, w |-> <<o.x>>, u |-> <<0, 1>>]
               [] o.op = "Take"        -> [op |-> o.op, i |-> 0, w |-> <<>>,
                                           u |-> IF heap[1] > 0 THEN <<2 * o.r + 1, 2 * heap[1]>> ELSE <<1, 2>>]

Valid(w) == ~Cat \/ Total(w) > 0

Init == /\ weights \in {w \in [Pos -> 0 .. W] : Valid(w)}
        /\ heap = Reset(weights)
        /\ last = Out("New", TRUE, 0, FALSE)

Next == \E o \in Ops :
          /\ Do(o)
          /\ Emit => PrintT(ToJson([k |-> "t", kind |-> Kind, s |-> weights, call |-> OpJson(o),
                                    out |-> [ok |-> last'.ok, idx |-> last'.idx - 1, panic |-> last'.panic],
                                    t |-> weights', obs |-> Obs(weights', heap')]))

Spec == Init /\ [][Next]_vars

(**************************** R1: invariants *********************************)
TypeOK == /\ weights \in [Pos -> 0 .. W]
          /\ heap \in [Pos -> 0 .. (N * W)]
HeapInv == \A p \in Pos : heap[p] = weights[p] + Child(heap, 2 * p) + Child(heap, 2 * p + 1)
TotalOK == heap[1] = Total(weights) /\ Valid(weights)
\* the descent of this Kind is a measure preserving choice
Measure == \A p \in Pos :
             Cardinality({r \in 0 .. heap[1] - 1 : Descend(weights, heap, r) = p}) = weights[p]
DescentsAgree == \A r \in 0 .. heap[1] - 1 :
                   TakeD(weights, heap, 1, 2 * r + 1) = RandD(weights, heap, 1, 2 * r + 1)
\* the law the state describes: Prob >= 0, sums to the CDF, CDF non-decreasing from 0 to 1
LawOK == LET T == Total(weights) IN
         T > 0 =>
           /\ \A j \in XGrid : ProbN(weights, X2(j)) >= 0
           /\ \A j \in XGrid : CdfN(weights, X2(j)) = SumSeq([i \in 1 .. j |-> ProbN(weights, X2(i))])
           /\ \A j \in XGrid : j > 1 => CdfN(weights, X2(j - 1)) <= CdfN(weights, X2(j))
           /\ CdfN(weights, X2(1)) = 0 /\ CdfN(weights, X2(2 * N + 5)) = T
           /\ MeanN(weights) = SumSeq([j \in XGrid |-> IF X2(j) % 2 = 0 THEN (X2(j) \div 2) * ProbN(weights, X2(j)) ELSE 0])
DrainOK == Cat \/
           LET d == Drain(weights, heap, 0) IN
           /\ Len(d) = Cardinality(Supp(weights)) + 1
           /\ ~d[Len(d)].ok
           /\ \A i \in 1 .. Len(d) - 1 : d[i].ok /\ weights[d[i].idx + 1] > 0
           /\ \A i, j \in 1 .. Len(d) - 1 : i # j => d[i].idx # d[j].idx

\* action properties
PanicLeavesUnchanged == [][last'.panic => UNCHANGED <<weights, heap>>]_vars
TakeExact == [][last'.op = "Take" =>
                  IF Total(weights) = 0 THEN ~last'.ok /\ UNCHANGED <<weights, heap>>
                  ELSE /\ last'.ok /\ weights[last'.idx] > 0
                       /\ weights' = [weights EXCEPT ![last'.idx] = 0]]_vars
SupportShrinks == [][(last'.op = "Take" /\ last'.ok) =>
                       Cardinality(Supp(weights')) = Cardinality(Supp(weights)) - 1]_vars
\* the heap is a function of the weights, so the abstract state is the weight vector alone
HeapIsFunctionOfWeights == heap = Reset(weights)

(**************************** R2: constructor cases **************************)
\* printed once per distinct state: New(weights) followed by the observation table, and a drain
EmitState ==
    Emit => /\ PrintT(ToJson([k |-> "n", kind |-> Kind, s |-> weights, obs |-> Obs(weights, heap),
                              drain |-> IF Cat THEN <<>> ELSE Drain(weights, heap, 0)]))
            /\ (Cat /\ VIdx(weights) = 1) =>
                  PrintT(ToJson([k |-> "nz", kind |-> Kind, s |-> [p \in Pos |-> 0], obs |-> Obs(weights, heap), drain |-> <<>>]))
=============================================================================
