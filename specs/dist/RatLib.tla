------------------------------- MODULE RatLib -------------------------------
(* Exact rational arithmetic over TLC's 32-bit integers and the vocabulary in  *)
(* which RationalLaws / SpecialFunctions / MvLaws print what the real code     *)
(* must compute.                                                               *)
(*                                                                            *)
(* A rational is a normalised pair <<num, den>>, den > 0, gcd = 1.  TLC raises *)
(* an error on integer overflow (it never wraps), so a result that is printed  *)
(* was computed exactly; the grids of the client modules are sized so that    *)
(* every intermediate value fits.  Products cross-reduce before multiplying   *)
(* and sums go through the least common denominator to keep values small.     *)
(*                                                                            *)
(* A printed VALUE is a triple <<n, d, e>> = n/d * 2^e (the binary exponent    *)
(* carries exact scalings to very large / very small magnitudes).             *)
(* A printed EXPRESSION is a tuple the harness interprets without knowing any  *)
(* law:                                                                        *)
(*   <<"q", n, d, e>>                 the float64 nearest to n/d, times 2^e    *)
(*   <<"inf", s>>, <<"nan">>          the IEEE special values as arguments     *)
(*   <<"m", "Method", args..>>        method of the case's object              *)
(*   <<"om", "pkg.Type", <<values>>, "Method", args..>>   method of another object *)
(*   <<"f", "pkg.Func", args..>>      package-level function                   *)
(*   <<"add"|"sub"|"mul"|"div", a, b>>, <<"neg"|"exp"|"log"|"sqrt", a>>        *)
(*   <<"v", name, i>>                 element i of an environment vector set   *)
(*                                    by a step of the case (draws, statistics) *)
(*   <<"fld", "Name">>                exported float64 field of the object     *)
(*   <<"dist", type, method, l, r>>, <<"mvdist", ..>>, <<"mvm", ..>>            *)
(*                                    statistical distances / multivariate     *)
(*                                    objects (FitScoreLaws, MvLaws)           *)
(* A CHECK is [id, e, k, v, tol]:  k = "rat" (e evaluates to v within the      *)
(* tolerance class tol), "pinf" | "ninf" | "nan" | "panic" (documented         *)
(* special outcomes), "sign" (sign of e is v[1]), "support" (lo <= e <= hi for  *)
(* a value or every element of an environment vector), "freq" (the fraction of *)
(* the elements of a vector that are <= c is within v of p).  A case may carry  *)
(* steps (let / call / rand / sample / samplemv: a small program run on the     *)
(* object first) and alts (alternative check lists, one of which must hold).    *)
(* Tolerance classes (bounds live in the harness, ratios are recorded):        *)
(*   "exact"    bit-for-bit                                                    *)
(*   "ops"      a few float operations on exactly representable data: 8 ulp    *)
(*   "tight"    functions computed to a few ulp by construction (Carlson's      *)
(*              duplication, minimax approximations of the complete elliptic    *)
(*              integrals): 1e-13                                               *)
(*   "special"  through lgamma / incomplete beta, gamma / pow / exp / atan:    *)
(*              1e-10 relative (to max(|v|, largest cancelling operand))       *)
(*   "prob"     a value of a CDF / survival function: 1e-10 of max(|v|, 1) --    *)
(*              the property promises Survival = 1 - CDF, so a tail computed as *)
(*              a complement is as good as one computed directly                *)
(*   "inverse"  Quantile(CDF(x)) = x and the inverse special functions: 1e-8   *)
(*   "coarse"   special functions at very large parameters: 1e-8               *)
EXTENDS Integers, Sequences, FiniteSets, TLC

Abs(x) == IF x < 0 THEN 0 - x ELSE x
Sgn(x) == IF x < 0 THEN 0 - 1 ELSE IF x > 0 THEN 1 ELSE 0
Min2(a, b) == IF a <= b THEN a ELSE b
Max2(a, b) == IF a >= b THEN a ELSE b
RECURSIVE GCD(_, _)
GCD(a, b) == IF b = 0 THEN a ELSE GCD(b, a % b)
LCM(a, b) == (a \div GCD(a, b)) * b

R(n, d) == LET s == IF d < 0 THEN 0 - 1 ELSE 1
               g == GCD(Abs(n), Abs(d))
           IN IF g = 0 THEN <<0, 1>> ELSE <<(s * n) \div g, (s * d) \div g>>
I(n) == <<n, 1>>
Zero == <<0, 1>>
One == <<1, 1>>
Half == <<1, 2>>
RNeg(p) == <<0 - p[1], p[2]>>
RAdd(p, q) == LET l == LCM(p[2], q[2]) IN R(p[1] * (l \div p[2]) + q[1] * (l \div q[2]), l)
RSub(p, q) == RAdd(p, RNeg(q))
\* p, q normalised: cross-reduce first, then multiply (the result is normalised)
RMul(p, q) == LET g1 == GCD(Abs(p[1]), q[2])
                  g2 == GCD(Abs(q[1]), p[2])
              IN IF p[1] = 0 \/ q[1] = 0 THEN Zero
                 ELSE <<(p[1] \div g1) * (q[1] \div g2), (p[2] \div g2) * (q[2] \div g1)>>
RInv(p) == IF p[1] < 0 THEN <<0 - p[2], 0 - p[1]>> ELSE <<p[2], p[1]>>       \* p # 0
RDiv(p, q) == RMul(p, RInv(q))
RSign(p) == Sgn(p[1])
\* comparison by the Euclidean algorithm (integer parts, then the reciprocals of the fractional parts):
\* no products, so it cannot overflow whatever the denominators
RECURSIVE RCmp(_, _)
RCmp(p, q) == LET fp == p[1] \div p[2]
                  fq == q[1] \div q[2]
                  rp == p[1] - fp * p[2]
                  rq == q[1] - fq * q[2]
              IN IF fp # fq THEN Sgn(fp - fq)
                 ELSE IF rp = 0 \/ rq = 0 THEN Sgn(rp - rq)
                 ELSE RCmp(<<q[2], rq>>, <<p[2], rp>>)
RLt(p, q)  == RCmp(p, q) < 0
RLeq(p, q) == RCmp(p, q) <= 0
REq(p, q)  == p = q                                  \* both normalised
RAbs(p) == <<Abs(p[1]), p[2]>>
RSq(p) == RMul(p, p)
RECURSIVE RPow(_, _)
RPow(p, k) == IF k = 0 THEN One ELSE RMul(p, RPow(p, k - 1))
RECURSIVE Pow(_, _)
Pow(b, e) == IF e = 0 THEN 1 ELSE b * Pow(b, e - 1)
\* saturating product / power: the magnitude bounds that decide whether a grid point is used
Cap == 1073741824
SatMul(a, b) == IF a = 0 \/ b = 0 THEN 0 ELSE IF a >= Cap \/ b >= Cap THEN Cap ELSE IF a > Cap \div b THEN Cap ELSE a * b
RECURSIVE SatPow(_, _)
SatPow(b, e) == IF e = 0 THEN 1 ELSE SatMul(b, SatPow(b, e - 1))
RECURSIVE Fact(_)
Fact(n) == IF n <= 1 THEN 1 ELSE n * Fact(n - 1)
RECURSIVE Choose(_, _)
Choose(n, k) == IF k < 0 \/ k > n THEN 0 ELSE IF k = 0 \/ k = n THEN 1 ELSE Choose(n - 1, k - 1) + Choose(n - 1, k)
\* sum / product of a sequence of rationals
RECURSIVE RSumTo(_, _)
RSumTo(f, n) == IF n = 0 THEN Zero ELSE RAdd(f[n], RSumTo(f, n - 1))
RSum(f) == RSumTo(f, Len(f))
RECURSIVE RProdTo(_, _)
RProdTo(f, n) == IF n = 0 THEN One ELSE RMul(f[n], RProdTo(f, n - 1))
RProd(f) == RProdTo(f, Len(f))
RECURSIVE SumTo(_, _)
SumTo(f, n) == IF n = 0 THEN 0 ELSE f[n] + SumTo(f, n - 1)
ISum(f) == SumTo(f, Len(f))
RECURSIVE Flatten(_)
Flatten(ss) == IF Len(ss) = 0 THEN <<>> ELSE Head(ss) \o Flatten(Tail(ss))
\* the sequence of the elements of f (a sequence) that satisfy the predicate given as a boolean sequence
RECURSIVE Keep(_, _)
Keep(f, b) == IF Len(f) = 0 THEN <<>> ELSE (IF Head(b) THEN <<Head(f)>> ELSE <<>>) \o Keep(Tail(f), Tail(b))
\* integer square root test
RECURSIVE IsqrtFrom(_, _)
IsqrtFrom(n, k) == IF k * k >= n THEN k ELSE IsqrtFrom(n, k + 1)
Isqrt(n) == IsqrtFrom(n, 0)                          \* least k with k*k >= n
IsSquare(n) == n >= 0 /\ Isqrt(n) * Isqrt(n) = n
RIsSquare(p) == IsSquare(p[1]) /\ IsSquare(p[2])
RSqrt(p) == <<Isqrt(p[1]), Isqrt(p[2])>>             \* for RIsSquare(p)
\* rising factorial r (r+1) .. (r+k-1)
RECURSIVE Rising(_, _)
Rising(r, k) == IF k = 0 THEN One ELSE RMul(RAdd(r, I(k - 1)), Rising(r, k - 1))
\* harmonic number
RECURSIVE Harm(_)
Harm(n) == IF n = 0 THEN Zero ELSE RAdd(R(1, n), Harm(n - 1))

(****************************** printed values ******************************)
V(r) == <<r[1], r[2], 0>>
VE(r, e) == <<r[1], r[2], e>>
VI(n) == <<n, 1, 0>>

(**************************** printed expressions ***************************)
X(r) == <<"q", r[1], r[2], 0>>
XE(r, e) == <<"q", r[1], r[2], e>>
XI(n) == <<"q", n, 1, 0>>
XInf(s) == <<"inf", s>>                              \* +Inf (s = 1) or -Inf (s = -1)
XNaN == <<"nan">>
M0(f) == <<"m", f>>
M1(f, a) == <<"m", f, a>>
M2(f, a, b) == <<"m", f, a, b>>
OM0(t, p, f) == <<"om", t, p, f>>
OM1(t, p, f, a) == <<"om", t, p, f, a>>
F1(f, a) == <<"f", f, a>>
F2(f, a, b) == <<"f", f, a, b>>
F3(f, a, b, c) == <<"f", f, a, b, c>>
Add3(a, b, c) == <<"add", <<"add", a, b>>, c>>
Add(a, b) == <<"add", a, b>>
Sub(a, b) == <<"sub", a, b>>
Mul(a, b) == <<"mul", a, b>>
Div(a, b) == <<"div", a, b>>
Neg(a) == <<"neg", a>>
Exp(a) == <<"exp", a>>
Log(a) == <<"log", a>>
Sq(a) == Mul(a, a)

(********************************* checks ***********************************)
Eq(id, e, r, tol)        == [id |-> id, e |-> e, k |-> "rat",   v |-> V(r), tol |-> tol]
EqE(id, e, r, ex, tol)   == [id |-> id, e |-> e, k |-> "rat",   v |-> VE(r, ex), tol |-> tol]
PInf(id, e)              == [id |-> id, e |-> e, k |-> "pinf",  v |-> V(Zero), tol |-> "exact"]
NInf(id, e)              == [id |-> id, e |-> e, k |-> "ninf",  v |-> V(Zero), tol |-> "exact"]
IsNaN(id, e)             == [id |-> id, e |-> e, k |-> "nan",   v |-> V(Zero), tol |-> "exact"]
Panics(id, e)            == [id |-> id, e |-> e, k |-> "panic", v |-> V(Zero), tol |-> "exact"]
SignIs(id, e, s)         == [id |-> id, e |-> e, k |-> "sign",  v |-> VI(s), tol |-> "exact"]
=============================================================================
