SPECIFICATION Spec
CONSTANTS
  Laws = {@LAWS@}
  Tier = @TIER@
  Salt = @SALT@
  Emit = @EMIT@
INVARIANTS Theorems EmitCase
CHECK_DEADLOCK FALSE
