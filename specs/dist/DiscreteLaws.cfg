SPECIFICATION Spec
CONSTANTS
  Law = "@LAW@"
  DBits = @DBITS@
  MaxN = @MAXN@
  Emit = @EMIT@
INVARIANTS Theorems EmitCase
CHECK_DEADLOCK FALSE
