SPECIFICATION Spec
CONSTANTS
  Proto = "@PROTO@"
  MaxB = @MAXB@
  MaxSteps = @MAXSTEPS@
  MaxBurn = @MAXBURN@
  MaxRate = @MAXRATE@
  Emit = @EMIT@
INVARIANTS Inv EmitScript
CHECK_DEADLOCK FALSE
