--------------------------- MODULE SamplerProtocol ---------------------------
(* The accept / reject protocols of stat/sampleuv (sample.go) and             *)
(* stat/samplemv (samplemv.go, metropolishastings.go) as state machines over  *)
(* *scripted* targets, proposals and uniform variates.                        *)
(*                                                                            *)
(* Proposals are tokens 1, 2, 3, ... (the k-th value the proposal returns).   *)
(* Densities are powers of two: a test double's LogProb returns e * ln 2 (or  *)
(* -Inf, written NEG), so every acceptance ratio is an exact dyadic rational  *)
(* a, and the scripted variate is u = a/2 (accept) or (1+a)/2 (reject): the   *)
(* comparison the code makes (accept > u) is decided with a margin of a       *)
(* factor two and cannot be moved by the rounding of exp and log.             *)
(*                                                                            *)
(*  "rejection"  accept iff u < p(x)/(C q(x)); every proposal is counted;     *)
(*               the batch holds the accepted proposals in order; a ratio     *)
(*               above 1 fails the call (batch all NaN, Err set)              *)
(*  "mh"         Metropolis-Hastings chain with BurnIn and Rate: which chain  *)
(*               states are stored; rejected proposals repeat the state       *)
(*  "lhc"        LatinHypercube: Perm (Fisher-Yates as math/rand/v2 documents *)
(*               it) then one variate per stratum                             *)
(*  "simple"     Importance weights, IID batches, SampleUniformWeighted        *)
(*  "halton"     Owen-scrambled Halton points: stratification in every base    *)
(*  "wor"        WithoutReplacement: both algorithms over scripted choices     *)
(*                                                                            *)
(* R1: counting / structural invariants below, over every script in the bound *)
(* R2: every complete script is printed with the expected batch / counters.   *)
EXTENDS Integers, Sequences, FiniteSets, TLC, Json

CONSTANTS Proto, MaxB,      \* batch length 1..MaxB
          MaxSteps,         \* rejection: bound on the number of proposals
          MaxBurn, MaxRate, \* mh
          Emit

VARIABLE s
vars == <<s>>

NEG == 99                                           \* log density -Inf
RECURSIVE Pow(_, _)
Pow(b, e) == IF e = 0 THEN 1 ELSE b * Pow(b, e - 1)
\* 2^e as <<num, den>>, NEG -> 0
Two(e) == IF e = NEG THEN <<0, 1>> ELSE IF e >= 0 THEN <<Pow(2, e), 1>> ELSE <<1, Pow(2, 0 - e)>>
Lt(p, q) == p[1] * q[2] < q[1] * p[2]
Half(a) == <<a[1], 2 * a[2]>>                       \* a/2      : accepted  (u < a)
Mid(a)  == <<a[2] + a[1], 2 * a[2]>>                \* (1+a)/2  : rejected  (u >= a), needs a < 1
One == <<1, 1>>
Zero == <<0, 1>>
Max(a, b) == IF a > b THEN a ELSE b
Range(f) == {f[i] : i \in DOMAIN f}

(******************************** rejection **********************************)
\* s = [n, c, hist = << [x, e, u] >>, batch, nprop, acc, rej, status]
\* e: log2 of p(x)/q(x); the acceptance ratio is a = 2^e / c
RExps == {0 - 2, 0 - 1, 0, 1, NEG}
RInit == s \in [n : 1 .. MaxB, c : {1, 2, 4}, hist : {<<>>}, batch : {<<>>}, nprop : {0}, acc : {0}, rej : {0}, status : {"run"}]
RNext ==
    /\ s.status = "run" /\ s.nprop < MaxSteps
    /\ \E e \in RExps, o \in {"acc", "rej"} :
         LET t == Two(e)
             a == <<t[1], t[2] * s.c>>
             x == s.nprop + 1
         IN IF Lt(One, a)
            THEN /\ o = "acc"
                 /\ s' = [s EXCEPT !.hist = Append(@, [x |-> x, e |-> e, u |-> <<1, 2>>]), !.nprop = @ + 1, !.status = "fail"]
            ELSE IF o = "acc"
            THEN /\ Lt(Zero, a)
                 /\ s' = [s EXCEPT !.hist = Append(@, [x |-> x, e |-> e, u |-> Half(a)]), !.nprop = @ + 1, !.acc = @ + 1,
                                   !.batch = Append(@, x), !.status = IF s.acc + 1 = s.n THEN "done" ELSE "run"]
            ELSE /\ Lt(a, One)
                 /\ s' = [s EXCEPT !.hist = Append(@, [x |-> x, e |-> e, u |-> Mid(a)]), !.nprop = @ + 1, !.rej = @ + 1]
RInv == /\ s.nprop = s.acc + s.rej + (IF s.status = "fail" THEN 1 ELSE 0)      \* every proposal is counted
        /\ Len(s.batch) = s.acc /\ s.acc <= s.n                               \* stored = accepted
        /\ (s.status = "done") <=> (s.acc = s.n)
        /\ \A i \in 1 .. Len(s.batch) : i > 1 => s.batch[i - 1] < s.batch[i]  \* in order of proposal
        /\ Len(s.hist) = s.nprop
RDone == s.status \in {"done", "fail"}
ROut == [proto |-> "rejection", n |-> s.n, c |-> s.c, steps |-> s.hist, ok |-> s.status = "done",
         batch |-> s.batch, proposed |-> s.nprop]

(***************************** Metropolis-Hastings ***************************)
\* scripted log2 densities: target T(x) of token x, conditional proposal density C(x, y) of x given y
T(v, x) == IF x > 0 /\ (x + v) % 4 = 0 THEN NEG ELSE ((x * v) % 3) - 1
C(v, x, y) == ((x + 2 * y + v) % 3) - 1
Rate(r) == IF r = 0 THEN 1 ELSE r
Total(n, b, r) == b + 1 + (n - 1) * Rate(r)
MInit == s \in [n : 1 .. MaxB, burn : 0 .. MaxBurn, rate : 0 .. MaxRate, v : 1 .. 6, hist : {<<>>}, chain : {<<>>}, cur : {0}, nacc : {0}]
MNext ==
    /\ Len(s.hist) < Total(s.n, s.burn, s.rate)
    /\ LET x == Len(s.hist) + 1
           tx == T(s.v, x)
           \* exp(T(x) + C(cur, x) - C(x, cur) - T(cur)) ; cur always has a finite density
           a == IF tx = NEG THEN Zero ELSE Two(tx + C(s.v, s.cur, x) - C(s.v, x, s.cur) - T(s.v, s.cur))
       IN \E o \in {"acc", "rej"} :
            IF o = "acc"
            THEN /\ Lt(Zero, a)
                 /\ s' = [s EXCEPT !.hist = Append(@, [x |-> x, u |-> IF Lt(a, One) THEN Half(a) ELSE <<1, 2>>]),
                                   !.chain = Append(@, x), !.cur = x, !.nacc = @ + 1]
            ELSE /\ Lt(a, One)
                 /\ s' = [s EXCEPT !.hist = Append(@, [x |-> x, u |-> Mid(a)]), !.chain = Append(@, s.cur)]
MDone == Len(s.hist) = Total(s.n, s.burn, s.rate)
StoredIdx(i) == s.burn + 1 + (i - 1) * Rate(s.rate)          \* chain step stored at batch position i
Stored == [i \in 1 .. s.n |-> s.chain[StoredIdx(i)]]
MInv == /\ Len(s.chain) = Len(s.hist)
        /\ \A k \in 1 .. Len(s.chain) : s.chain[k] = k \/ s.chain[k] = (IF k = 1 THEN 0 ELSE s.chain[k - 1])   \* a rejected proposal repeats the state
        /\ s.cur = (IF Len(s.chain) = 0 THEN 0 ELSE s.chain[Len(s.chain)])
        /\ Cardinality({k \in 1 .. Len(s.chain) : s.chain[k] = k}) = s.nacc
        /\ T(s.v, s.cur) # NEG
        /\ MDone => /\ Len(Stored) = s.n                                      \* stored count = batch length
                    /\ \A i \in 1 .. s.n : StoredIdx(i) > s.burn               \* burn-in states are never stored
                    /\ \A i \in 2 .. s.n : StoredIdx(i) - StoredIdx(i - 1) = Rate(s.rate)   \* every Rate-th state
                    /\ StoredIdx(s.n) = Len(s.chain)
MOut == LET tot == Total(s.n, s.burn, s.rate) IN
        [proto |-> "mh", n |-> s.n, burn |-> s.burn, rate |-> s.rate, steps |-> s.hist,
         tt |-> [x \in 1 .. (tot + 1) |-> T(s.v, x - 1)],                                       \* tt[x+1] = T(x)
         cc |-> [x \in 1 .. (tot + 1) |-> [y \in 1 .. (tot + 1) |-> C(s.v, x - 1, y - 1)]],     \* cc[x+1][y+1] = C(x, y)
         batch |-> Stored, nsteps |-> tot]

(****************************** Latin hypercube ******************************)
\* Perm(n): p = identity; for i = n-1 down to 1: swap(p[i], p[j_i]) with j_i uniform in 0..i
\* (positions and values 0-based; sequences store position k at index k+1)
Swap(p, i, j) == [p EXCEPT ![i + 1] = p[j + 1], ![j + 1] = p[i + 1]]
RECURSIVE FY(_, _, _)
FY(p, js, i) == IF i = 0 THEN p ELSE FY(Swap(p, i, js[i]), js, i - 1)
Perm(n, js) == FY([k \in 1 .. n |-> k - 1], js, n - 1)
JChoices(n) == IF n = 1 THEN {<<>>} ELSE {js \in [1 .. (n - 1) -> 0 .. (n - 1)] : \A i \in 1 .. (n - 1) : js[i] <= i}
\* variate of cell (column k, stratum i): a dyadic in (0,1) that depends on the variant
UVar(v, k, i) == <<2 * ((i + k + v) % 4) + 1, 8>>
\* s = [n (rows), d (columns), js (one choice vector per column), v]
LInit == s \in UNION {UNION {[n : {n}, d : {d}, js : [1 .. d -> JChoices(n)], v : {0, 1}] : d \in 1 .. (IF n <= 3 THEN 2 ELSE 1)} : n \in 1 .. MaxB}
LPerms == [k \in 1 .. s.d |-> Perm(s.n, s.js[k])]
\* cell[row r (0-based)][column k] = (u + i)/n for the stratum i with perm_k[i] = r
LCell(r, k) == LET i == CHOOSE i \in 0 .. s.n - 1 : LPerms[k][i + 1] = r
                   u == UVar(s.v, k, i)
               IN [num |-> u[1] + i * u[2], den |-> u[2] * s.n, stratum |-> i]
LInv == \A k \in 1 .. s.d :
          /\ Range(LPerms[k]) = 0 .. s.n - 1                       \* Perm is a permutation
          \* exactly one sample in every stratum [i/n, (i+1)/n) of every dimension
          /\ \A i \in 0 .. s.n - 1 : Cardinality({r \in 0 .. s.n - 1 :
                  LET c == LCell(r, k) IN i * c.den <= c.num * s.n /\ c.num * s.n < (i + 1) * c.den}) = 1
LOut == [proto |-> "lhc", n |-> s.n, d |-> s.d,
         \* source consumption per column: the Fisher-Yates choices (i, j_i) for i = n-1 .. 1, then the n variates
         cols |-> [k \in 1 .. s.d |-> [js |-> [m \in 1 .. (s.n - 1) |-> <<s.n - m, s.js[k][s.n - m]>>],
                                       perm |-> LPerms[k],
                                       us |-> [i \in 1 .. s.n |-> UVar(s.v, k, i - 1)]]],
         cells |-> [r \in 1 .. s.n |-> [k \in 1 .. s.d |-> LCell(r - 1, k)]]]

(********************************** simple ***********************************)
SExps == {0 - 2, 0 - 1, 0, 1, NEG}
SInit == s \in UNION {[n : {n}, es : [1 .. n -> SExps]] : n \in 1 .. MaxB}
SInv == \A i \in 1 .. s.n : Two(s.es[i])[1] >= 0
SOut == [proto |-> "simple", n |-> s.n, es |-> s.es,
         \* Importance: batch = successive proposal draws (tokens 1..n), weights[i] = p/q = 2^e_i
         weights |-> [i \in 1 .. s.n |-> Two(s.es[i])],
         \* IIDer / IID: batch = successive Rand() ; SampleUniformWeighted: the sampler's batch, weights all 1
         batch |-> [i \in 1 .. s.n |-> i]]

(********************************* Halton ************************************)
\* samplemv.Halton{Kind: Owen}: coordinate j of sample i is the radical inverse of i in base b = prime(j) with every digit
\* position r scrambled by its own uniformly drawn permutation p_r of 0..b-1:  x = Sum_r p_r[digit_r(i)] b^-(r+1).
\* Whatever the permutations are, the first K digits of 0..b^K-1 run through all combinations, so for every k with b^k | n
\* each stratum [m/b^k, (m+1)/b^k) receives exactly n/b^k of the samples 0..n-1 (the digits beyond the k-th only move a
\* point inside its stratum).  R1 checks this on the digit model for every tuple of permutations; R2 prints (n, d) with
\* the strata counts, which must hold for the real sampler under any seeded source.
HBase(j) == <<2, 3, 5>>[j]
HDigits(b) == CASE b = 2 -> 4 [] b = 3 -> 2 [] b = 5 -> 1
Digit(i, b, r) == (i \div Pow(b, r)) % b                                  \* r = 0 is the least significant digit of i
PermsOf(b) == {p \in [0 .. (b - 1) -> 0 .. (b - 1)] : \A x, y \in 0 .. (b - 1) : p[x] = p[y] => x = y}
\* the scrambled first K digits as an integer in 0 .. b^K - 1 (digit r of i has weight b^(K-1-r))
HVal(i, b, K, ps) == LET RECURSIVE Go(_)
                         Go(r) == IF r = K THEN 0 ELSE ps[r + 1][Digit(i, b, r)] * Pow(b, K - 1 - r) + Go(r + 1)
                     IN Go(0)
HStrataOK(n, b, K, ps) ==
    \A k \in 0 .. K : (n % Pow(b, k) = 0) =>
        \A m \in 0 .. (Pow(b, k) - 1) :
            Cardinality({i \in 0 .. (n - 1) : HVal(i, b, K, ps) \div Pow(b, K - k) = m}) = n \div Pow(b, k)
HInit == s \in [n : {1, 2, 3, 4, 5, 6, 8, 9, 12, 16, 18, 25, 27, 30, 36, 64, 100} \cap 1 .. (MaxB * 25), d : 1 .. 3]
HInv == \A j \in 1 .. s.d : LET b == HBase(j)
                                K == HDigits(b) IN
          (s.n <= Pow(b, K)) => \A ps \in [1 .. K -> PermsOf(b)] : HStrataOK(s.n, b, K, ps)
\* levels printed per dimension: every k >= 1 with b^k | n
RECURSIVE HLevels(_, _, _)
HLevels(n, b, k) == IF n % Pow(b, k) # 0 THEN <<>> ELSE << [cells |-> Pow(b, k), each |-> n \div Pow(b, k)] >> \o HLevels(n, b, k + 1)
HOut == [proto |-> "halton", n |-> s.n, d |-> s.d, dims |-> [j \in 1 .. s.d |-> [base |-> HBase(j), levels |-> HLevels(s.n, HBase(j), 1)]]]

(*************************** WithoutReplacement ******************************)
\* sampleuv.WithoutReplacement(idxs, n, src), k = len(idxs): k distinct integers of 0..n-1, every ordered k-tuple equally
\* likely.  The two algorithms of the implementation, over scripted choices:
\*   n < k^2    the first k entries of rand.Perm(n) (Fisher-Yates, choices j_i <= i as in the Latin hypercube part)
\*   otherwise  for i = 0..k-1 draw r uniform in 0..n-i-1 and take the r-th integer not used so far
\* R1: every script gives k distinct values in range; the direct method is a bijection between scripts and ordered
\* k-tuples, the permutation method hits every ordered k-tuple (n-k)! times: both are uniform.
RECURSIVE Fact(_)
Fact(n) == IF n <= 1 THEN 1 ELSE n * Fact(n - 1)
\* the r-th (0-based) element of 0..n-1 that is not in used
RECURSIVE NthFree(_, _, _)
NthFree(r, used, c) == IF c \in used THEN NthFree(r, used, c + 1) ELSE IF r = 0 THEN c ELSE NthFree(r - 1, used, c + 1)
RECURSIVE Direct(_, _, _)
Direct(rs, used, i) == IF i > Len(rs) THEN <<>> ELSE LET v == NthFree(rs[i], used, 0) IN <<v>> \o Direct(rs, used \cup {v}, i + 1)
DirectScripts(n, k) == {rs \in [1 .. k -> 0 .. (n - 1)] : \A i \in 1 .. k : rs[i] <= n - i}
UsesPerm(n, k) == n < k * k
WInit == s \in UNION {[n : {n}, k : 1 .. n] : n \in 1 .. (MaxB + 1)}
WTuples == IF UsesPerm(s.n, s.k) THEN {<<js, [i \in 1 .. s.k |-> Perm(s.n, js)[i]]>> : js \in JChoices(s.n)}
           ELSE {<<rs, Direct(rs, {}, 1)>> : rs \in DirectScripts(s.n, s.k)}
WInv == LET ts == WTuples
            nTuples == Fact(s.n) \div Fact(s.n - s.k)
        IN /\ \A t \in ts : /\ Len(t[2]) = s.k /\ Range(t[2]) \subseteq 0 .. (s.n - 1)
                            /\ Cardinality(Range(t[2])) = s.k
           /\ Cardinality({t[2] : t \in ts}) = nTuples                                 \* every ordered k-tuple occurs
           /\ \A t \in ts : Cardinality({u \in ts : u[2] = t[2]}) * nTuples = Cardinality(ts)   \* equally often
WOut == LET ts == WTuples IN
        [proto |-> "wor", n |-> s.n, k |-> s.k, perm |-> UsesPerm(s.n, s.k),
         \* a script = the uniform choices (m, j): "an integer below m was requested and j was delivered", and the result
         scripts |-> {[choices |-> IF UsesPerm(s.n, s.k) THEN [m \in 1 .. (s.n - 1) |-> <<s.n - m + 1, t[1][s.n - m]>>]
                                            ELSE [i \in 1 .. s.k |-> <<s.n - i + 1, t[1][i]>>],
                                idxs |-> t[2]] : t \in ts}]

(*****************************************************************************)
Init == CASE Proto = "rejection" -> RInit [] Proto = "mh" -> MInit [] Proto = "lhc" -> LInit [] Proto = "simple" -> SInit
          [] Proto = "halton" -> HInit [] Proto = "wor" -> WInit
Next == CASE Proto = "rejection" -> RNext [] Proto = "mh" -> MNext [] OTHER -> UNCHANGED s
Spec == Init /\ [][Next]_vars
Inv == CASE Proto = "rejection" -> RInv [] Proto = "mh" -> MInv [] Proto = "lhc" -> LInv [] Proto = "simple" -> SInv
        [] Proto = "halton" -> HInv [] Proto = "wor" -> WInv
EmitScript ==
    Emit => CASE Proto = "rejection" -> (RDone => PrintT(ToJson(ROut)))
              [] Proto = "mh"        -> (MDone => PrintT(ToJson(MOut)))
              [] Proto = "lhc"       -> PrintT(ToJson(LOut))
              [] Proto = "simple"    -> PrintT(ToJson(SOut))
              [] Proto = "halton"    -> PrintT(ToJson(HOut))
              [] Proto = "wor"       -> PrintT(ToJson(WOut))
=============================================================================
