--------------------------- MODULE SamplerProtocol ---------------------------
(* The accept / reject protocols of stat/sampleuv (sample.go) and             *)
(* stat/samplemv (samplemv.go, metropolishastings.go) as state machines over  *)
(* *scripted* targets, proposals and uniform variates.                        *)
(*                                                                            *)
(* Proposals are tokens 1, 2, 3, ... (the k-th value the proposal returns).   *)
(* Densities are powers of two: a test double's LogProb returns e * ln 2 (or  *)
(* -Inf, written NEG), so every acceptance ratio is an exact dyadic rational  *)
(* a, and the scripted variate is u = a/2 (accept) or (1+a)/2 (reject): the   *)
(* comparison the code makes (accept > u) is decided with a margin of a       *)
(* factor two and cannot be moved by the rounding of exp and log.             *)
(*                                                                            *)
(*  "rejection"  accept iff u < p(x)/(C q(x)); every proposal is counted;     *)
(*               the batch holds the accepted proposals in order; a ratio     *)
(*               above 1 fails the call (batch all NaN, Err set)              *)
(*  "mh"         Metropolis-Hastings chain with BurnIn and Rate: which chain  *)
(*               states are stored; rejected proposals repeat the state       *)
(*  "lhc"        LatinHypercube: Perm (Fisher-Yates as math/rand/v2 documents *)
(*               it) then one variate per stratum                             *)
(*  "simple"     Importance weights, IID batches, SampleUniformWeighted        *)
(*                                                                            *)
(* R1: counting / structural invariants below, over every script in the bound *)
(* R2: every complete script is printed with the expected batch / counters.   *)
EXTENDS Integers, Sequences, FiniteSets, TLC, Json

CONSTANTS Proto, MaxB,      \* batch length 1..MaxB
          MaxSteps,         \* rejection: bound on the number of proposals
          MaxBurn, MaxRate, \* mh
          Emit

VARIABLE s
vars == <<s>>

NEG == 99                                           \* log density -Inf
RECURSIVE Pow(_, _)
Pow(b, e) == IF e = 0 THEN 1 ELSE b * Pow(b, e - 1)
\* 2^e as <<num, den>>, NEG -> 0
Two(e) == IF e = NEG THEN <<0, 1>> ELSE IF e >= 0 THEN <<Pow(2, e), 1>> ELSE <<1, Pow(2, 0 - e)>>
Lt(p, q) == p[1] * q[2] < q[1] * p[2]
Half(a) == <<a[1], 2 * a[2]>>                       \* a/2      : accepted  (u < a)
Mid(a)  == <<a[2] + a[1], 2 * a[2]>>                \* (1+a)/2  : rejected  (u >= a), needs a < 1
One == <<1, 1>>
Zero == <<0, 1>>
Max(a, b) == IF a > b THEN a ELSE b
Range(f) == {f[i] : i \in DOMAIN f}

(******************************** rejection **********************************)
\* s = [n, c, hist = << [x, e, u] >>, batch, nprop, acc, rej, status]
\* e: log2 of p(x)/q(x); the acceptance ratio is a = 2^e / c
RExps == {0 - 2, 0 - 1, 0, 1, NEG}
RInit == s \in [n : 1 .. MaxB, c : {1, 2, 4}, hist : {<<>>}, batch : {<<>>}, nprop : {0}, acc : {0}, rej : {0}, status : {"run"}]
RNext ==
    /\ s.status = "run" /\ s.nprop < MaxSteps
    /\ \E e \in RExps, o \in {"acc", "rej"} :
         LET t == Two(e)
             a == <<t[1], t[2] * s.c>>
             x == s.nprop + 1
         IN IF Lt(One, a)
            THEN /\ o = "acc"
                 /\ s' = [s EXCEPT !.hist = Append(@, [x |-> x, e |-> e, u |-> <<1, 2>>]), !.nprop = @ + 1, !.status = "fail"]
            ELSE IF o = "acc"
            THEN /\ Lt(Zero, a)
                 /\ s' = [s EXCEPT !.hist = Append(@, [x |-> x, e |-> e, u |-> Half(a)]), !.nprop = @ + 1, !.acc = @ + 1,
                                   !.batch = Append(@, x), !.status = IF s.acc + 1 = s.n THEN "done" ELSE "run"]
            ELSE /\ Lt(a, One)
                 /\ s' = [s EXCEPT !.hist = Append(@, [x |-> x, e |-> e, u |-> Mid(a)]), !.nprop = @ + 1, !.rej = @ + 1]
RInv == /\ s.nprop = s.acc + s.rej + (IF s.status = "fail" THEN 1 ELSE 0)      \* every proposal is counted
        /\ Len(s.batch) = s.acc /\ s.acc <= s.n                               \* stored = accepted
        /\ (s.status = "done") <=> (s.acc = s.n)
        /\ \A i \in 1 .. Len(s.batch) : i > 1 => s.batch[i - 1] < s.batch[i]  \* in order of proposal
        /\ Len(s.hist) = s.nprop
RDone == s.status \in {"done", "fail"}
ROut == [proto |-> "rejection", n |-> s.n, c |-> s.c, steps |-> s.hist, ok |-> s.status = "done",
         batch |-> s.batch, proposed |-> s.nprop]

(***************************** Metropolis-Hastings ***************************)
\* scripted log2 densities: target T(x) of token x, conditional proposal density C(x, y) of x given y
T(v, x) == IF x > 0 /\ (x + v) % 4 = 0 THEN NEG ELSE ((x * v) % 3) - 1
C(v, x, y) == ((x + 2 * y + v) % 3) - 1
Rate(r) == IF r = 0 THEN 1 ELSE r
Total(n, b, r) == b + 1 + (n - 1) * Rate(r)
MInit == s \in [n : 1 .. MaxB, burn : 0 .. MaxBurn, rate : 0 .. MaxRate, v : 1 .. 6, hist : {<<>>}, chain : {<<>>}, cur : {0}, nacc : {0}]
MNext ==
    /\ Len(s.hist) < Total(s.n, s.burn, s.rate)
    /\ LET x == Len(s.hist) + 1
           tx == T(s.v, x)
           \* exp(T(x) + C(cur, x) - C(x, cur) - T(cur)) ; cur always has a finite density
           a == IF tx = NEG THEN Zero ELSE Two(tx + C(s.v, s.cur, x) - C(s.v, x, s.cur) - T(s.v, s.cur))
       IN \E o \in {"acc", "rej"} :
            IF o = "acc"
            THEN /\ Lt(Zero, a)
                 /\ s' = [s EXCEPT !.hist = Append(@, [x |-> x, u |-> IF Lt(a, One) THEN Half(a) ELSE <<1, 2>>]),
                                   !.chain = Append(@, x), !.cur = x, !.nacc = @ + 1]
            ELSE /\ Lt(a, One)
                 /\ s' = [s EXCEPT !.hist = Append(@, [x |-> x, u |-> Mid(a)]), !.chain = Append(@, s.cur)]
MDone == Len(s.hist) = Total(s.n, s.burn, s.rate)
StoredIdx(i) == s.burn + 1 + (i - 1) * Rate(s.rate)          \* chain step stored at batch position i
Stored == [i \in 1 .. s.n |-> s.chain[StoredIdx(i)]]
MInv == /\ Len(s.chain) = Len(s.hist)
        /\ \A k \in 1 .. Len(s.chain) : s.chain[k] = k \/ s.chain[k] = (IF k = 1 THEN 0 ELSE s.chain[k - 1])   \* a rejected proposal repeats the state
        /\ s.cur = (IF Len(s.chain) = 0 THEN 0 ELSE s.chain[Len(s.chain)])
        /\ Cardinality({k \in 1 .. Len(s.chain) : s.chain[k] = k}) = s.nacc
        /\ T(s.v, s.cur) # NEG
        /\ MDone => /\ Len(Stored) = s.n                                      \* stored count = batch length
                    /\ \A i \in 1 .. s.n : StoredIdx(i) > s.burn               \* burn-in states are never stored
                    /\ \A i \in 2 .. s.n : StoredIdx(i) - StoredIdx(i - 1) = Rate(s.rate)   \* every Rate-th state
                    /\ StoredIdx(s.n) = Len(s.chain)
MOut == LET tot == Total(s.n, s.burn, s.rate) IN
        [proto |-> "mh", n |-> s.n, burn |-> s.burn, rate |-> s.rate, steps |-> s.hist,
         tt |-> [x \in 1 .. (tot + 1) |-> T(s.v, x - 1)],                                       \* tt[x+1] = T(x)
         cc |-> [x \in 1 .. (tot + 1) |-> [y \in 1 .. (tot + 1) |-> C(s.v, x - 1, y - 1)]],     \* cc[x+1][y+1] = C(x, y)
         batch |-> Stored, nsteps |-> tot]

(****************************** Latin hypercube ******************************)
\* Perm(n): p = identity; for i = n-1 down to 1: swap(p[i], p[j_i]) with j_i uniform in 0..i
\* (positions and values 0-based; sequences store position k at index k+1)
Swap(p, i, j) == [p EXCEPT ![i + 1] = p[j + 1], ![j + 1] = p[i + 1]]
RECURSIVE FY(_, _, _)
FY(p, js, i) == IF i = 0 THEN p ELSE FY(Swap(p, i, js[i]), js, i - 1)
Perm(n, js) == FY([k \in 1 .. n |-> k - 1], js, n - 1)
JChoices(n) == IF n = 1 THEN {<<>>} ELSE {js \in [1 .. (n - 1) -> 0 .. (n - 1)] : \A i \in 1 .. (n - 1) : js[i] <= i}
\* variate of cell (column k, stratum i): a dyadic in (0,1) that depends on the variant
UVar(v, k, i) == <<2 * ((i + k + v) % 4) + 1, 8>>
\* s = [n (rows), d (columns), js (one choice vector per column), v]
LInit == s \in UNION {UNION {[n : {n}, d : {d}, js : [1 .. d -> JChoices(n)], v : {0, 1}] : d \in 1 .. (IF n <= 3 THEN 2 ELSE 1)} : n \in 1 .. MaxB}
LPerms == [k \in 1 .. s.d |-> Perm(s.n, s.js[k])]
\* cell[row r (0-based)][column k] = (u + i)/n for the stratum i with perm_k[i] = r
LCell(r, k) == LET i == CHOOSE i \in 0 .. s.n - 1 : LPerms[k][i + 1] = r
                   u == UVar(s.v, k, i)
               IN [num |-> u[1] + i * u[2], den |-> u[2] * s.n, stratum |-> i]
LInv == \A k \in 1 .. s.d :
          /\ Range(LPerms[k]) = 0 .. s.n - 1                       \* Perm is a permutation
          \* exactly one sample in every stratum [i/n, (i+1)/n) of every dimension
          /\ \A i \in 0 .. s.n - 1 : Cardinality({r \in 0 .. s.n - 1 :
                  LET c == LCell(r, k) IN i * c.den <= c.num * s.n /\ c.num * s.n < (i + 1) * c.den}) = 1
LOut == [proto |-> "lhc", n |-> s.n, d |-> s.d,
         \* source consumption per column: the Fisher-Yates choices (i, j_i) for i = n-1 .. 1, then the n variates
         cols |-> [k \in 1 .. s.d |-> [js |-> [m \in 1 .. (s.n - 1) |-> <<s.n - m, s.js[k][s.n - m]>>],
                                       perm |-> LPerms[k],
                                       us |-> [i \in 1 .. s.n |-> UVar(s.v, k, i - 1)]]],
         cells |-> [r \in 1 .. s.n |-> [k \in 1 .. s.d |-> LCell(r - 1, k)]]]

(********************************** simple ***********************************)
SExps == {0 - 2, 0 - 1, 0, 1, NEG}
SInit == s \in UNION {[n : {n}, es : [1 .. n -> SExps]] : n \in 1 .. MaxB}
SInv == \A i \in 1 .. s.n : Two(s.es[i])[1] >= 0
SOut == [proto |-> "simple", n |-> s.n, es |-> s.es,
         \* Importance: batch = successive proposal draws (tokens 1..n), weights[i] = p/q = 2^e_i
         weights |-> [i \in 1 .. s.n |-> Two(s.es[i])],
         \* IIDer / IID: batch = successive Rand() ; SampleUniformWeighted: the sampler's batch, weights all 1
         batch |-> [i \in 1 .. s.n |-> i]]

(*****************************************************************************)
Init == CASE Proto = "rejection" -> RInit [] Proto = "mh" -> MInit [] Proto = "lhc" -> LInit [] Proto = "simple" -> SInit
Next == CASE Proto = "rejection" -> RNext [] Proto = "mh" -> MNext [] Proto = "lhc" -> UNCHANGED s [] Proto = "simple" -> UNCHANGED s
Spec == Init /\ [][Next]_vars
Inv == CASE Proto = "rejection" -> RInv [] Proto = "mh" -> MInv [] Proto = "lhc" -> LInv [] Proto = "simple" -> SInv
EmitScript ==
    Emit => CASE Proto = "rejection" -> (RDone => PrintT(ToJson(ROut)))
              [] Proto = "mh"        -> (MDone => PrintT(ToJson(MOut)))
              [] Proto = "lhc"       -> PrintT(ToJson(LOut))
              [] Proto = "simple"    -> PrintT(ToJson(SOut))
=============================================================================
