-------------------------- MODULE SpecialFunctions --------------------------
(* The special functions of mathext at the points where they are exactly       *)
(* rational, their complement / inverse / recurrence / multiplication          *)
(* identities with rational right-hand sides, and the documented behaviour     *)
(* outside the domain (NaN, +-Inf, panics).                                    *)
(*                                                                            *)
(* Derived in the module (finite sums of IncFns): RegIncBeta at integer /      *)
(* half-integer parameters, GammaIncRegComp(n, x) / exp(-x), Beta at integers  *)
(* (factorials), harmonic numbers for Digamma.  Stated (standard identities,   *)
(* DLMF numbers in the comments; TLA+ cannot derive them): everything whose    *)
(* terms are transcendental -- the right-hand side is always a rational that   *)
(* the module computes.                                                        *)
(*                                                                            *)
(* R1 (Theorems): the rational tables are guarded as in RationalLaws (the      *)
(* incomplete beta table is monotone in x within [0,1] and symmetric under the *)
(* complement; the Erlang sums are the partial sums of exp's series: each term *)
(* is the previous one times x/k; harmonic numbers increase; zeta partial sums *)
(* increase).                                                                  *)
EXTENDS IncFns, Json

CONSTANTS Families, Tier, Salt, Emit

VARIABLE par       \* [fam |-> name, p |-> <<rationals>>]
vars == <<par>>

SeqOf(S) == LET RECURSIVE Enum(_)
                Enum(T) == IF T = {} THEN <<>> ELSE LET x == CHOOSE y \in T : TRUE IN <<x>> \o Enum(T \ {x})
            IN Enum(S)
RECURSIVE SortR(_)
SortR(S) == IF S = {} THEN <<>>
            ELSE LET m == CHOOSE y \in S : \A z \in S : RLeq(y, z) IN <<m>> \o SortR(S \ {m})
Checks(S, F(_)) == LET s == SeqOf(S) IN Flatten([i \in 1 .. Len(s) |-> F(s[i])])

SaltDen == CASE Salt % 3 = 0 -> 7 [] Salt % 3 = 1 -> 9 [] OTHER -> 6
UnitGrid == {R(j, 8) : j \in 1 .. 7} \cup {R(1, 3), R(2, 3), R(1, 5), R(4, 5), R(1, 16), R(15, 16), R(1, 64)}
            \cup {R(j, SaltDen) : j \in 1 .. (SaltDen - 1)}
SquareGrid == {R(1, 4), R(9, 16), R(1, 9), R(4, 9), R(16, 25), R(5, 9), R(8, 9), R(7, 16), R(9, 25), R(3, 4)}
Dyadic == {R(1, 8), R(1, 4), R(3, 8), Half, R(5, 8), R(3, 4), R(7, 8), R(1, 64), R(63, 64)} \cup {R(2 * (Salt % 16) + 1, 32)}

RIB == "mathext.RegIncBeta"
IIB == "mathext.InvRegIncBeta"
GP == "mathext.GammaIncReg"
GQ == "mathext.GammaIncRegComp"
GPI == "mathext.GammaIncRegInv"
GQI == "mathext.GammaIncRegCompInv"
PSI == "mathext.Digamma"
ZETA == "mathext.Zeta"
NQ == "mathext.NormalQuantile"
RF == "mathext.EllipticRF"
RD == "mathext.EllipticRD"

(******************** RegIncBeta / InvRegIncBeta: rational points *************)
\* p = <<a2, b2>>: a = a2/2, b = b2/2, one of them an integer
IBMax == IF Tier = 1 THEN 7 ELSE 5
IncBetaPars == {<<I(2 * a), I(2 * b)>> : a \in 1 .. IBMax, b \in 1 .. IBMax}
               \cup {<<I(a2), I(2 * b)>> : a2 \in {1, 3, 5, 7}, b \in 1 .. 4}
               \cup {<<I(2 * a), I(b2)>> : a \in 1 .. 4, b2 \in {1, 3, 5, 7}}
IncBetaXs(a2, b2) == {x \in UnitGrid \cup SquareGrid : BetaRegOK(a2, b2, x) /\ BetaRegOK(b2, a2, RSub(One, x))}
IncBetaThm(p) ==
    LET a2 == p[1][1]
        b2 == p[2][1]
        xs == SortR(IncBetaXs(a2, b2))
    IN /\ Len(xs) >= 1
       /\ \A i \in DOMAIN xs : RLt(Zero, BetaReg(a2, b2, xs[i])) /\ RLt(BetaReg(a2, b2, xs[i]), One)
       /\ \A i \in DOMAIN xs : i > 1 => RLt(BetaReg(a2, b2, xs[i - 1]), BetaReg(a2, b2, xs[i]))
       /\ \A i \in DOMAIN xs : RAdd(BetaReg(a2, b2, xs[i]), BetaReg(b2, a2, RSub(One, xs[i]))) = One
IncBetaChecks(p) ==
    LET a2 == p[1][1]
        b2 == p[2][1]
        a == X(R(a2, 2))
        b == X(R(b2, 2))
    IN Checks(IncBetaXs(a2, b2), LAMBDA x : LET v == BetaReg(a2, b2, x) IN
          << Eq("RegIncBeta", F3(RIB, a, b, X(x)), v, "prob"),
             Eq("RegIncBeta:complement-args", F3(RIB, b, a, X(RSub(One, x))), RSub(One, v), "prob"),
             Eq("InvRegIncBeta", F3(IIB, a, b, X(v)), x, "inverse"),
             Eq("InvRegIncBeta(RegIncBeta)", F3(IIB, a, b, F3(RIB, a, b, X(x))), x, "inverse"),
             Eq("RegIncBeta(InvRegIncBeta)", F3(RIB, a, b, F3(IIB, a, b, X(x))), x, "inverse") >>)
       \o << Eq("RegIncBeta(a,b,0)", F3(RIB, a, b, XI(0)), Zero, "exact"), Eq("RegIncBeta(a,b,1)", F3(RIB, a, b, XI(1)), One, "exact"),
             Eq("InvRegIncBeta(a,b,0)", F3(IIB, a, b, XI(0)), Zero, "exact"), Eq("InvRegIncBeta(a,b,1)", F3(IIB, a, b, XI(1)), One, "exact"),
             \* "The domain of definition is 0 <= x <= 1, and the parameters a and b must be positive. For other values ... will panic"
             Panics("RegIncBeta:x<0", F3(RIB, a, b, X(R(0 - 1, 4)))), Panics("RegIncBeta:x>1", F3(RIB, a, b, X(R(5, 4)))),
             Panics("RegIncBeta:a=0", F3(RIB, XI(0), b, X(Half))), Panics("RegIncBeta:a<0", F3(RIB, Neg(a), b, X(Half))),
             Panics("RegIncBeta:b=0", F3(RIB, a, XI(0), X(Half))), Panics("RegIncBeta:b<0", F3(RIB, a, Neg(b), X(Half))),
             Panics("InvRegIncBeta:y<0", F3(IIB, a, b, X(R(0 - 1, 4)))), Panics("InvRegIncBeta:y>1", F3(IIB, a, b, X(R(5, 4)))),
             Panics("InvRegIncBeta:a=0", F3(IIB, XI(0), b, X(Half))), Panics("InvRegIncBeta:b<0", F3(IIB, a, Neg(b), X(Half))) >>

(******************** RegIncBeta: identities at general parameters ************)
\* p = <<a, b>> positive rationals.  DLMF 8.17.4 (complement), 8.17.20 (recurrence in a: the difference is
\* x^a (1-x)^b / (a B(a,b)), so the quotient of two successive differences is rational)
GenShapes == {R(3, 10), Half, R(3, 2), R(5, 2), R(29, 4), I(2), I(11)} \cup {R((Salt % 13) + 1, 3)}
BigShapes == {I(50), I(200), R(401, 2)} \cup (IF Tier = 1 THEN {I(5000)} ELSE {})
IncBetaGenPars == {<<a, b>> : a \in GenShapes, b \in GenShapes} \cup {<<a, b>> : a \in BigShapes, b \in BigShapes \cup {R(5, 2)}}
IncBetaGenChecks(p) ==
    LET a == p[1]
        b == p[2]
        big == RLt(I(20), a) \/ RLt(I(20), b)
        cls == IF big THEN "coarse" ELSE "special"
        mean == RDiv(a, RAdd(a, b))
        var == RDiv(RMul(a, b), RMul(RSq(RAdd(a, b)), RAdd(RAdd(a, b), One)))
        \* for large shapes the function is a step at the mean: arguments around it
        xs == IF big THEN {mean} ELSE Dyadic
        \* the inverse and the recurrence quotient are well conditioned only where I_x is not within rounding of 1:
        \* arguments within two standard deviations of the mean of the Beta(a,b) law
        central(x) == big \/ RLeq(RSq(RSub(x, mean)), RMul(I(4), var))
    IN Checks(xs, LAMBDA x :
          << Eq("RegIncBeta(a,b,x)+RegIncBeta(b,a,1-x)", Add(F3(RIB, X(a), X(b), X(x)), F3(RIB, X(b), X(a), Sub(XI(1), X(x)))), One, cls) >>)
       \o Checks({x \in xs \cup {mean} : central(x)}, LAMBDA x :
          << Eq("InvRegIncBeta(RegIncBeta)", F3(IIB, X(a), X(b), F3(RIB, X(a), X(b), X(x))), x, IF big THEN "coarse" ELSE "inverse") >>
          \o (IF big THEN <<>> ELSE
                << Eq("recurrence-in-a", Div(Sub(F3(RIB, X(a), X(b), X(x)), F3(RIB, X(RAdd(a, One)), X(b), X(x))),
                                             Sub(F3(RIB, X(RAdd(a, One)), X(b), X(x)), F3(RIB, X(RAdd(a, I(2))), X(b), X(x)))),
                      \* [x^a (1-x)^b / (a B(a,b))] / [x^(a+1) (1-x)^b / ((a+1) B(a+1,b))] = (a+1) B(a+1,b) / (a x B(a,b)) = (a+1)/((a+b) x)
                      RDiv(RAdd(a, One), RMul(RAdd(a, b), x)), "special") >>))

(****************************** Beta / Lbeta *********************************)
BetaFnPars == {<<I(a), I(b)>> : a \in 1 .. 8, b \in 1 .. 8} \cup {<<a, b>> : a \in GenShapes \cup BigShapes, b \in {R(7, 4), I(3), I(150)}}
BetaFnChecks(p) ==
    LET a == p[1]
        b == p[2]
        int == a[2] = 1 /\ b[2] = 1 /\ a[1] <= 8 /\ b[1] <= 8
        small == RLeq(a, I(200)) /\ RLeq(b, I(200))      \* B(a,b) itself is far from underflow
        B(x, y) == F2("mathext.Beta", x, y)
        L(x, y) == F2("mathext.Lbeta", x, y)
    IN \* B(a+1, b) / B(a, b) = a / (a + b)     (DLMF 5.12.1 with Gamma(a+1) = a Gamma(a))
       << Eq("exp(Lbeta(a+1,b)-Lbeta(a,b))", Exp(Sub(L(X(RAdd(a, One)), X(b)), L(X(a), X(b)))), RDiv(a, RAdd(a, b)), "special"),
          Eq("Lbeta(a,b)-Lbeta(b,a)", Sub(L(X(a), X(b)), L(X(b), X(a))), Zero, "special") >>
       \o (IF small THEN
             << Eq("Beta(a+1,b)/Beta(a,b)", Div(B(X(RAdd(a, One)), X(b)), B(X(a), X(b))), RDiv(a, RAdd(a, b)), "special"),
                Eq("Beta(a,b)-Beta(b,a)", Sub(B(X(a), X(b)), B(X(b), X(a))), Zero, "special"),
                Eq("exp(Lbeta)/Beta", Div(Exp(L(X(a), X(b))), B(X(a), X(b))), One, "special") >>
           ELSE <<>>)
       \o (IF int THEN << Eq("Beta", B(X(a), X(b)), RInv(BetaK(a[1], b[1])), "special"),
                          Eq("exp(Lbeta)", Exp(L(X(a), X(b))), RInv(BetaK(a[1], b[1])), "special") >> ELSE <<>>)
BetaFnSpecial ==
    LET B(x, y) == F2("mathext.Beta", x, y)
        L(x, y) == F2("mathext.Lbeta", x, y)
    IN << IsNaN("Beta(Inf,b)", B(XInf(1), XI(2))), IsNaN("Beta(a,Inf)", B(XI(2), XInf(1))), IsNaN("Beta(0,0)", B(XI(0), XI(0))),
          IsNaN("Beta(NaN,b)", B(XNaN, XI(2))), IsNaN("Beta(a<0,b)", B(X(R(0 - 1, 2)), XI(2))), IsNaN("Beta(a,b<0)", B(XI(2), XI(0 - 3))),
          PInf("Beta(0,b)", B(XI(0), XI(2))), PInf("Beta(a,0)", B(X(R(5, 2)), XI(0))),
          IsNaN("Lbeta(Inf,b)", L(XInf(1), XI(2))), IsNaN("Lbeta(0,0)", L(XI(0), XI(0))), IsNaN("Lbeta(NaN,b)", L(XNaN, XI(2))),
          IsNaN("Lbeta(a<0,b)", L(X(R(0 - 1, 2)), XI(2))), PInf("Lbeta(0,b)", L(XI(0), XI(2))), PInf("Lbeta(a,0)", L(X(R(5, 2)), XI(0))) >>

(********************************* Digamma ***********************************)
\* psi(x+1) - psi(x) = 1/x (DLMF 5.5.2) at positive and NEGATIVE non-integer x (reflection branch of the code)
DigammaXs == {R(1, 4), R(1, 3), Half, R(2, 3), R(3, 4), One, R(3, 2), I(2), R(5, 2), I(3), R(7, 2), I(5), I(6), R(13, 2), I(7),
              R(15, 2), I(8), I(10), I(20), I(100), I(1000), R(1, 1024)}
             \cup {R(0 - 7, 4), R(0 - 3, 4), R(0 - 1, 3), R(0 - 1, 4), R(0 - 1, 2), R(0 - 5, 2), R(0 - 9, 2), R(0 - 10, 3), R(0 - 41, 4),
                   R(0 - 1, 1024), R(0 - 2047, 1024), R(0 - 201, 2)}
             \cup {R((Salt % 17) + 1, 5), R(0 - ((Salt % 17) + 1), 19)}
DigammaPars == {<<x>> : x \in DigammaXs}
DigammaChecks(p) ==
    LET x == p[1]
        psi(e) == F1(PSI, e)
    IN << Eq("psi(x+1)-psi(x)", Sub(psi(X(RAdd(x, One))), psi(X(x))), RInv(x), "special") >>
       \* duplication: psi(2x) = (psi(x) + psi(x + 1/2))/2 + ln 2   (DLMF 5.5.8)
       \o (IF (RMul(I(2), x))[2] # 1 \/ RLt(Zero, x)
           THEN << Eq("exp(psi(2x)-(psi(x)+psi(x+1/2))/2)",
                      Exp(Sub(psi(X(RMul(I(2), x))), Div(Add(psi(X(x)), psi(X(RAdd(x, Half)))), XI(2)))), I(2), "special") >>
           ELSE <<>>)
DigammaIntPars == {<<I(n)>> : n \in 2 .. 14}
DigammaIntThm(p) == RLt(Harm(p[1][1] - 2), Harm(p[1][1] - 1))
DigammaIntChecks(p) ==
    LET n == p[1][1]
        psi(e) == F1(PSI, e)
        \* psi(n + 1/2) - psi(1/2) = Sum_{k=1..n} 2/(2k-1)
        odd == RSum([k \in 1 .. Min2(n, 9) |-> R(2, 2 * k - 1)])
    IN << Eq("psi(n)-psi(1)", Sub(psi(XI(n)), psi(XI(1))), Harm(n - 1), "special"),
          Eq("psi(n+1/2)-psi(1/2)", Sub(psi(X(R(2 * Min2(n, 9) + 1, 2))), psi(X(Half))), odd, "special"),
          \* psi(1/2) - psi(1) = -2 ln 2
          Eq("exp(psi(1/2)-psi(1))", Exp(Sub(psi(X(Half)), psi(XI(1)))), R(1, 4), "special") >>

(************************** incomplete gamma functions ************************)
GammaAs == {Half, One, R(3, 2), I(2), I(3), I(5), I(10), R(7, 4), R(1, 10), I(30)} \cup {R((Salt % 9) + 1, 3)}
             \cup (IF Tier = 1 THEN {I(100), I(400)} ELSE {})
GammaXs == {R(1, 4), Half, One, I(2), I(3), I(5), I(10), I(20)} \cup {R((Salt % 11) + 1, 4)}
GammaIncPars == {<<a>> : a \in GammaAs}
GammaIncThm(p) ==
    LET a == p[1] IN
    (a[2] = 1 /\ a[1] <= 6) =>
        \A x \in GammaXs : SatMul(SatPow(Max2(x[1], x[2]), a[1]), Fact(a[1])) < Cap =>
            \* the Erlang sum is a partial sum of exp's series: term k is term k-1 times x/k
            /\ RLeq(One, ErlangSum(a[1], x))
            /\ ErlangSum(a[1] + 1, x) = RAdd(ErlangSum(a[1], x), RDiv(RPow(x, a[1]), I(Fact(a[1]))))
GammaIncChecks(p) ==
    LET a == p[1]
        erl == a[2] = 1 /\ a[1] <= 6
        big == RLt(I(50), a)
        P(s, x) == F2(GP, s, x)
        Q(s, x) == F2(GQ, s, x)
        \* arguments scaled with the shape so that neither tail is negligible
        \* (the inverse identities are well conditioned only where neither P nor Q is within rounding of 1)
        xs == IF big THEN {RMul(a, r) : r \in {R(7, 8), One, R(9, 8)}}
              ELSE {x \in GammaXs \cup {RMul(a, r) : r \in {Half, R(3, 4), One, R(5, 4), R(3, 2), I(2)}} :
                      RLeq(RMul(a, R(1, 3)), x) /\ RLeq(x, RAdd(RMul(I(3), a), I(6)))}
    IN Checks(xs, LAMBDA x :
          << Eq("P+Q", Add(P(X(a), X(x)), Q(X(a), X(x))), One, IF big THEN "coarse" ELSE "special"),
             Eq("GammaIncRegInv(GammaIncReg)", F2(GPI, X(a), P(X(a), X(x))), x, IF big THEN "coarse" ELSE "inverse"),
             Eq("GammaIncRegCompInv(GammaIncRegComp)", F2(GQI, X(a), Q(X(a), X(x))), x, IF big THEN "coarse" ELSE "inverse"),
             \* P(a,x) - P(a+1,x) = x^a exp(-x) / Gamma(a+1) (DLMF 8.8.5): quotient of successive differences = (a+1)/x
             Eq("recurrence-in-a", Div(Sub(P(X(a), X(x)), P(X(RAdd(a, One)), X(x))), Sub(P(X(RAdd(a, One)), X(x)), P(X(RAdd(a, I(2))), X(x)))),
                RDiv(RAdd(a, One), x), IF big THEN "coarse" ELSE "special") >>
          \o (IF erl /\ SatMul(SatPow(Max2(x[1], x[2]), a[1]), Fact(a[1])) < Cap
              THEN << Eq("Q(n,x)/exp(-x)", Div(Q(X(a), X(x)), Exp(X(RNeg(x)))), ErlangSum(a[1], x), "special"),
                      Eq("(1-P(n,x))/exp(-x)", Div(Sub(XI(1), P(X(a), X(x))), Exp(X(RNeg(x)))), ErlangSum(a[1], x), "special") >>
              ELSE <<>>))
       \o << Eq("P(a,0)", P(X(a), XI(0)), Zero, "exact"), Eq("Q(a,0)", Q(X(a), XI(0)), One, "exact"),
             Eq("GammaIncRegInv(a,0)", F2(GPI, X(a), XI(0)), Zero, "exact"), PInf("GammaIncRegInv(a,1)", F2(GPI, X(a), XI(1))),
             Eq("GammaIncRegCompInv(a,1)", F2(GQI, X(a), XI(1)), Zero, "exact"), PInf("GammaIncRegCompInv(a,0)", F2(GQI, X(a), XI(0))),
             \* "The input argument a must be positive and x must be non-negative or ... will panic"
             Panics("GammaIncReg:x<0", P(X(a), X(R(0 - 1, 2)))), Panics("GammaIncRegComp:x<0", Q(X(a), X(R(0 - 1, 2)))),
             Panics("GammaIncReg:a=0", P(XI(0), XI(1))), Panics("GammaIncReg:a<0", P(Neg(X(a)), XI(1))),
             Panics("GammaIncRegComp:a=0", Q(XI(0), XI(1))), Panics("GammaIncRegComp:a<0", Q(Neg(X(a)), XI(1))),
             \* (a <= 0 together with x = 0 is left open: the documentation says panic, the repository's own
             \*  TestGammaIncReg expects GammaIncReg(0, 0) = 0 - either outcome is accepted, so no case is emitted)
             Panics("GammaIncRegComp:a<=0,x=0", Q(Neg(X(a)), XI(0))),
             Panics("GammaIncRegInv:y<0", F2(GPI, X(a), X(R(0 - 1, 4)))), Panics("GammaIncRegInv:y>1", F2(GPI, X(a), X(R(3, 2)))),
             Panics("GammaIncRegInv:a<=0", F2(GPI, Neg(X(a)), X(Half))),
             Panics("GammaIncRegCompInv:y<0", F2(GQI, X(a), X(R(0 - 1, 4)))), Panics("GammaIncRegCompInv:y>1", F2(GQI, X(a), X(R(3, 2)))),
             Panics("GammaIncRegCompInv:a<=0", F2(GQI, XI(0), X(Half))) >>

(*********************************** Zeta ************************************)
\* Hurwitz zeta: Zeta(s,q) - Zeta(s,q+1) = q^-s; for negative non-integer q only at integer s (documented domain)
ZetaS == {I(2), I(3), I(4), I(6), I(10), R(3, 2), R(5, 2)}
ZetaQ == {R(1, 4), R(1, 3), Half, One, R(3, 2), I(2), R(5, 2), R(9, 4), I(4), I(9), I(10), I(25)}
         \cup {R(0 - 7, 4), R(0 - 3, 4), R(0 - 1, 3), R(0 - 1, 4), R(0 - 5, 2), R(0 - 19, 2)} \cup {R((Salt % 7) + 1, 6)}
ZetaPars == {<<s, q>> : s \in ZetaS, q \in ZetaQ}
S2(s) == s[1] * (2 \div s[2])                         \* 2s as an integer
ZetaOK(s, q) == /\ (RLt(q, Zero) => s[2] = 1)
                /\ HalfPowOK(RAbs(q), S2(s))
                /\ SatPow(Max2(Abs(q[1]), q[2]), (S2(s) + 1) \div 2) < Cap
QPowS(s, q) == IF s[2] = 1 THEN RPow(q, s[1]) ELSE HalfPow(q, S2(s))
ZetaChecks(p) ==
    LET s == p[1]
        q == p[2]
        Z(a, b) == F2(ZETA, a, b)
    IN (IF ZetaOK(s, q) THEN << Eq("Zeta(s,q)-Zeta(s,q+1)", Sub(Z(X(s), X(q)), Z(X(s), X(RAdd(q, One)))), RInv(QPowS(s, q)), "special") >> ELSE <<>>)
       \o (IF RLt(q, Zero) /\ s[2] # 1 THEN << Panics("Zeta:q<0,non-integer-s", Z(X(s), X(q))) >> ELSE <<>>)
ZetaSumPars == {<<I(s)>> : s \in {2, 3, 4, 5, 6, 8}}
ZetaSumThm(p) == \A n \in 1 .. 5 : SatPow(60, p[1][1]) < Cap =>
                    RLt(RSum([k \in 1 .. n |-> R(1, Pow(k, p[1][1]))]), RSum([k \in 1 .. (n + 1) |-> R(1, Pow(k, p[1][1]))]))
ZetaSumChecks(p) ==
    LET s == p[1][1]
        Z(a, b) == F2(ZETA, a, b)
        zs(q) == Z(XI(s), X(q))
        nmax == IF SatPow(60, s) < Cap THEN 6 ELSE IF SatPow(12, s) < Cap THEN 4 ELSE 2
    IN Flatten([n \in 1 .. nmax |-> << Eq("Zeta(s,1)-Zeta(s,n+1)", Sub(zs(One), zs(I(n + 1))), RSum([k \in 1 .. n |-> R(1, Pow(k, s))]), "special") >>])
       \* multiplication theorem Sum_{k=1..m} Zeta(s, k/m) = m^s Zeta(s, 1)   (DLMF 25.11.15)
       \o << Eq("Zeta(s,1/2)/Zeta(s,1)", Div(zs(Half), zs(One)), I(Pow(2, s) - 1), "special"),
             Eq("(Zeta(s,1/3)+Zeta(s,2/3))/Zeta(s,1)", Div(Add(zs(R(1, 3)), zs(R(2, 3))), zs(One)), I(Pow(3, s) - 1), "special"),
             Eq("(Zeta(s,1/4)+Zeta(s,3/4))/Zeta(s,1)", Div(Add(zs(R(1, 4)), zs(R(3, 4))), zs(One)), I(Pow(4, s) - Pow(2, s)), "special"),
             \* documented: +Inf at s = 1; panics for s < 1, q = 0 or a negative integer
             PInf("Zeta(1,q)", Z(XI(1), X(R(s, 2)))),
             Panics("Zeta:s<1", Z(X(Half), XI(s))), Panics("Zeta:s<1:negative", Z(XI(0 - s), XI(2))),
             Panics("Zeta:q=0", Z(XI(s), XI(0))), Panics("Zeta:q=-n", Z(XI(s), XI(0 - s))) >>

(****************************** NormalQuantile ********************************)
\* p = <<q, e>>: the probability q * 2^-e; the three branches of the code are |p - 1/2| <= 0.425, sqrt(-log p) <= 5 and the far
\* tail p < exp(-25) ~ 1.4e-11
NQPars == {<<q, I(0)>> : q \in {R(1, 4), R(1, 8), R(3, 8), R(1, 16), R(1, 64), R(1, 1024), R(1, 1048576), R(3, 40), R(17, 40)}
                              \cup {R(2 * (Salt % 16) + 1, 64)}}
          \cup {<<q, I(e)>> : q \in {One, R(3, 4)}, e \in {40, 52, 60, 200, 1000} \cup {70 + (Salt % 100)}}
NQChecks(p) ==
    LET q == p[1]
        e == p[2][1]
        x == XE(q, 0 - e)
        dy == e = 0 /\ q[2] \in {4, 8, 16, 64, 1024, 1048576}          \* 1 - p is exact
    IN << SignIs("NormalQuantile(p<1/2)<0", F1(NQ, x), 0 - 1),
          \* the standard normal CDF of the quantile
          EqE("UnitNormal.CDF(NormalQuantile(p))", OM1("distuv.Normal", <<V(Zero), V(One)>>, "CDF", F1(NQ, x)), q, 0 - e, "inverse") >>
       \o (IF e = 0 THEN << Eq("NormalQuantile(UnitNormal.CDF(x))", F1(NQ, OM1("distuv.Normal", <<V(Zero), V(One)>>, "CDF", X(RNeg(RMul(I(4), q))))),
                                RNeg(RMul(I(4), q)), "inverse") >> ELSE <<>>)
       \o (IF dy \/ (q = One /\ e <= 52)
           THEN << Eq("NormalQuantile(p)+NormalQuantile(1-p)", Add(F1(NQ, x), F1(NQ, Sub(XI(1), x))), Zero, "special") >> ELSE <<>>)
NQSpecial == << Eq("NormalQuantile(1/2)", F1(NQ, X(Half)), Zero, "exact"),
                NInf("NormalQuantile(0)", F1(NQ, XI(0))), PInf("NormalQuantile(1)", F1(NQ, XI(1))),
                Panics("NormalQuantile:p<0", F1(NQ, X(R(0 - 1, 8)))), Panics("NormalQuantile:p>1", F1(NQ, X(R(9, 8)))) >>

(**************************** elliptic integrals ******************************)
\* Carlson symmetric forms (DLMF 19.16, 19.20, 19.21): R_F(x,x,x) = x^(-1/2), R_D(x,x,x) = x^(-3/2),
\* homogeneity of degree -1/2 and -3/2, symmetry, R_D(x,y,z) + R_D(y,z,x) + R_D(z,x,y) = 3 (xyz)^(-1/2),
\* R_F(x,y,y) = R_C(x,y) = atanh(sqrt(1 - y/x)) / sqrt(x - y) for x > y.
Triples == {<<One, I(2), I(3)>>, <<Zero, One, I(2)>>, <<Half, I(3), I(7)>>, <<Zero, R(1, 4), I(5)>>, <<One, I(4), I(9)>>, <<One, I(2), I(2)>>,
            <<I(2), I(3), I(6)>>, <<Half, I(2), I(4)>>, <<R(1, 3), I(3), I(4)>>}
           \cup {<<R((Salt % 5) + 1, 2), I(2), R((Salt % 5) + 1, 1)>>}
EllipticPars == Triples
EllipticChecks(p) ==
    LET x == p[1]
        y == p[2]
        z == p[3]
        f(a, b, c) == F3(RF, X(a), X(b), X(c))
        d(a, b, c) == F3(RD, X(a), X(b), X(c))
        f4(a, b, c, e) == F3(RF, XE(a, e), XE(b, e), XE(c, e))
        d4(a, b, c, e) == F3(RD, XE(a, e), XE(b, e), XE(c, e))
        prod == RMul(x, RMul(y, z))
    IN << Eq("RF(4x,4y,4z)/RF(x,y,z)", Div(f4(x, y, z, 2), f(x, y, z)), Half, "tight"),
          Eq("RD(4x,4y,4z)/RD(x,y,z)", Div(d4(x, y, z, 2), d(x, y, z)), R(1, 8), "tight"),
          \* the same at extreme magnitudes (the documented domain reaches 2^1022/5 for R_F, its cube root for R_D)
          EqE("RF(2^600 x,..)/RF(x,y,z)", Div(f4(x, y, z, 600), f(x, y, z)), One, 0 - 300, "tight"),
          EqE("RF(2^-600 x,..)/RF(x,y,z)", Div(f4(x, y, z, 0 - 600), f(x, y, z)), One, 300, "tight"),
          EqE("RD(2^200 x,..)/RD(x,y,z)", Div(d4(x, y, z, 200), d(x, y, z)), One, 0 - 300, "tight"),
          EqE("RD(2^-200 x,..)/RD(x,y,z)", Div(d4(x, y, z, 0 - 200), d(x, y, z)), One, 300, "tight"),
          Eq("RF(x,y,z)-RF(z,x,y)", Sub(f(x, y, z), f(z, x, y)), Zero, "tight"),
          Eq("RF(x,y,z)-RF(y,x,z)", Sub(f(x, y, z), f(y, x, z)), Zero, "tight"),
          Eq("RD(x,y,z)-RD(y,x,z)", Sub(d(x, y, z), d(y, x, z)), Zero, "tight") >>
       \o (IF x # Zero /\ RIsSquare(prod)
           THEN << Eq("RD(x,y,z)+RD(y,z,x)+RD(z,x,y)", Add3(d(x, y, z), d(y, z, x), d(z, x, y)), RDiv(I(3), RSqrt(prod)), "tight") >>
           ELSE <<>>)
EllipticSqPars == {<<x>> : x \in {R(1, 4), One, I(4), I(9), R(9, 4), R(1, 16), I(1048576), R(1, 65536), R(25, 9)}}
EllipticSqChecks(p) ==
    LET x == p[1]
        r == RSqrt(x)
    IN << Eq("RF(x,x,x)", F3(RF, X(x), X(x), X(x)), RInv(r), "tight"),
          Eq("RD(x,x,x)", F3(RD, X(x), X(x), X(x)), RInv(RMul(x, r)), "tight"),
          EqE("RF(x,x,x):huge", F3(RF, XE(x, 800), XE(x, 800), XE(x, 800)), RInv(r), 0 - 400, "tight"),
          EqE("RF(x,x,x):tiny", F3(RF, XE(x, 0 - 800), XE(x, 0 - 800), XE(x, 0 - 800)), RInv(r), 400, "tight"),
          EqE("RD(x,x,x):huge", F3(RD, XE(x, 200), XE(x, 200), XE(x, 200)), RInv(RMul(x, r)), 0 - 300, "tight"),
          EqE("RD(x,x,x):tiny", F3(RD, XE(x, 0 - 200), XE(x, 0 - 200), XE(x, 0 - 200)), RInv(RMul(x, r)), 300, "tight") >>
\* R_C: exp(2 sqrt(x-y) R_F(x,y,y)) = (sqrt x + sqrt(x-y))^2 / y  for x, x-y rational squares
RCPars == {<<I(4), I(3)>>, <<I(25), I(9)>>, <<I(25), I(16)>>, <<I(9), I(5)>>, <<One, R(3, 4)>>, <<R(25, 4), I(4)>>, <<I(100), I(36)>>}
RCChecks(p) ==
    LET x == p[1]
        y == p[2]
        sx == RSqrt(x)
        sd == RSqrt(RSub(x, y))
    IN << Eq("exp(2*sqrt(x-y)*RF(x,y,y))", Exp(Mul(X(RMul(I(2), sd)), F3(RF, X(x), X(y), X(y)))), RDiv(RSq(RAdd(sx, sd)), y), "tight"),
          Eq("RF(x,y,y)-RF(y,x,y)", Sub(F3(RF, X(x), X(y), X(y)), F3(RF, X(y), X(x), X(y))), Zero, "tight") >>
\* Legendre forms and complete integrals
LegendrePars == {<<m>> : m \in {Zero, R(1, 8), R(1, 4), Half, R(3, 4), R(7, 8), R(15, 16)} \cup {R((Salt % 9) + 1, 10)}}
LegendreChecks(p) ==
    LET m == p[1]
        K == F1("mathext.CompleteK", X(m))
        E == F1("mathext.CompleteE", X(m))
        B == F1("mathext.CompleteB", X(m))
        D == F1("mathext.CompleteD", X(m))
        m1 == RSub(One, m)
    IN \* B + D = K and E = K - m D (the integrands add up), E = B + (1-m) D
       << Eq("(B+D)/K", Div(Add(B, D), K), One, "tight"),
          Eq("(E+mD)/K", Div(Add(E, Mul(X(m), D)), K), One, "tight"),
          Eq("(B+(1-m)D)/E", Div(Add(B, Mul(X(m1), D)), E), One, "tight"),
          \* Carlson forms: K = R_F(0, 1-m, 1), D = R_D(0, 1-m, 1)/3  (DLMF 19.25.1)
          Eq("K/RF(0,1-m,1)", Div(K, F3(RF, XI(0), X(m1), XI(1))), One, "tight"),
          Eq("D/RD(0,1-m,1)", Div(D, F3(RD, XI(0), X(m1), XI(1))), R(1, 3), "tight") >>
       \* F(phi, 0) = E(phi, 0) = phi on |phi| <= pi/2
       \o Checks({Half, One, R(3, 2), R(1, 8)}, LAMBDA ph :
             << Eq("EllipticF(phi,0)/phi", Div(F2("mathext.EllipticF", X(ph), XI(0)), X(ph)), One, "tight"),
                Eq("EllipticE(phi,0)/phi", Div(F2("mathext.EllipticE", X(ph), XI(0)), X(ph)), One, "tight"),
                \* F(phi,m) = sin(phi) R_F(cos^2 phi, 1 - m sin^2 phi, 1): odd in phi
                Eq("EllipticF(phi,m)+EllipticF(-phi,m)", Add(F2("mathext.EllipticF", X(ph), X(m)), F2("mathext.EllipticF", X(RNeg(ph)), X(m))), Zero, "tight"),
                Eq("EllipticE(phi,m)+EllipticE(-phi,m)", Add(F2("mathext.EllipticE", X(ph), X(m)), F2("mathext.EllipticE", X(RNeg(ph)), X(m))), Zero, "tight") >>)
EllipticSpecial ==
    << \* m = 0: K = E = pi/2, B = D = pi/4;  m = 1: E = B = 1, K = D = +Inf
       Eq("K(0)/E(0)", Div(F1("mathext.CompleteK", XI(0)), F1("mathext.CompleteE", XI(0))), One, "tight"),
       Eq("D(0)/K(0)", Div(F1("mathext.CompleteD", XI(0)), F1("mathext.CompleteK", XI(0))), Half, "tight"),
       Eq("B(0)/K(0)", Div(F1("mathext.CompleteB", XI(0)), F1("mathext.CompleteK", XI(0))), Half, "tight"),
       Eq("E(1)", F1("mathext.CompleteE", XI(1)), One, "tight"), Eq("B(1)", F1("mathext.CompleteB", XI(1)), One, "tight"),
       PInf("K(1)", F1("mathext.CompleteK", XI(1))), PInf("D(1)", F1("mathext.CompleteD", XI(1))),
       \* "returns math.NaN() if m is not in [0,1]"
       IsNaN("K(m<0)", F1("mathext.CompleteK", X(R(0 - 1, 2)))), IsNaN("K(m>1)", F1("mathext.CompleteK", XI(2))),
       IsNaN("E(m<0)", F1("mathext.CompleteE", X(R(0 - 1, 2)))), IsNaN("E(m>1)", F1("mathext.CompleteE", XI(2))),
       IsNaN("B(m<0)", F1("mathext.CompleteB", X(R(0 - 1, 2)))), IsNaN("B(m>1)", F1("mathext.CompleteB", XI(2))),
       IsNaN("D(m<0)", F1("mathext.CompleteD", X(R(0 - 1, 2)))), IsNaN("D(m>1)", F1("mathext.CompleteD", XI(2))),
       \* R_F: NaN unless 0 <= x,y,z and lower <= pairwise sums; R_D: NaN unless 0 <= x,y, lower <= z, lower <= x+y
       IsNaN("RF(x<0)", F3(RF, XI(0 - 1), XI(1), XI(1))), IsNaN("RF(z<0)", F3(RF, XI(1), XI(1), X(R(0 - 1, 1024)))),
       IsNaN("RF(0,0,z)", F3(RF, XI(0), XI(0), XI(1))), IsNaN("RF(x,0,0)", F3(RF, XI(1), XI(0), XI(0))),
       IsNaN("RF(0,y,0)", F3(RF, XI(0), XI(1), XI(0))),
       IsNaN("RD(z=0)", F3(RD, XI(1), XI(1), XI(0))), IsNaN("RD(0,0,z)", F3(RD, XI(0), XI(0), XI(1))),
       IsNaN("RD(x<0)", F3(RD, XI(0 - 1), XI(1), XI(1))), IsNaN("RD(z<0)", F3(RD, XI(1), XI(1), XI(0 - 1))) >>

(********************************** MvLgamma *********************************)
\* Gamma_d(v) = pi^(d(d-1)/4) Prod_{j=1..d} Gamma(v + (1-j)/2)
MvPars == {<<v, I(d)>> : v \in {I(2), R(5, 2), I(3), R(7, 2), I(10), R(41, 4)}, d \in 1 .. 4}
MvChecks(p) ==
    LET v == p[1]
        d == p[2][1]
        G(a, k) == <<"f", "mathext.MvLgamma", X(a), XI(k)>>
    IN << \* Gamma_d(v+1)/Gamma_d(v) = Prod_{j=1..d} (v + (1-j)/2)
          Eq("exp(MvLgamma(v+1,d)-MvLgamma(v,d))", Exp(Sub(G(RAdd(v, One), d), G(v, d))), RProd([j \in 1 .. d |-> RAdd(v, R(1 - j, 2))]), "special") >>
       \* Gamma_2(v)/Gamma_2(v-1/2) = Gamma(v)/Gamma(v-1) = v - 1
       \o (IF d = 2 THEN << Eq("exp(MvLgamma(v,2)-MvLgamma(v-1/2,2))", Exp(Sub(G(v, 2), G(RSub(v, Half), 2))), RSub(v, One), "special") >> ELSE <<>>)
       \o (IF d = 1 /\ v[2] = 1 THEN << Eq("exp(MvLgamma(n,1))", Exp(G(v, 1)), I(Fact(v[1] - 1)), "special") >> ELSE <<>>)
       \* "MvLgamma will return NaN if v < (dim-1)/2"
       \o (IF d >= 2 THEN << IsNaN("MvLgamma:v<(dim-1)/2", G(R(d - 2, 2), d)) >> ELSE <<>>)

(****************************** the case space *******************************)
One1 == {<<Zero>>}
PSet(f) == CASE f = "incbeta" -> IncBetaPars [] f = "incbeta-general" -> IncBetaGenPars [] f = "beta" -> BetaFnPars
             [] f = "beta-special" -> One1 [] f = "digamma" -> DigammaPars [] f = "digamma-int" -> DigammaIntPars
             [] f = "gammainc" -> GammaIncPars [] f = "zeta" -> ZetaPars [] f = "zeta-sums" -> ZetaSumPars
             [] f = "normalquantile" -> NQPars [] f = "normalquantile-special" -> One1
             [] f = "elliptic" -> EllipticPars [] f = "elliptic-squares" -> EllipticSqPars [] f = "elliptic-rc" -> RCPars
             [] f = "legendre" -> LegendrePars [] f = "elliptic-special" -> One1 [] f = "mvlgamma" -> MvPars
Thm(f, p) == CASE f = "incbeta" -> IncBetaThm(p) [] f = "digamma-int" -> DigammaIntThm(p) [] f = "gammainc" -> GammaIncThm(p)
               [] f = "zeta-sums" -> ZetaSumThm(p) [] OTHER -> TRUE
ChecksOf(f, p) == CASE f = "incbeta" -> IncBetaChecks(p) [] f = "incbeta-general" -> IncBetaGenChecks(p) [] f = "beta" -> BetaFnChecks(p)
                    [] f = "beta-special" -> BetaFnSpecial [] f = "digamma" -> DigammaChecks(p) [] f = "digamma-int" -> DigammaIntChecks(p)
                    [] f = "gammainc" -> GammaIncChecks(p) [] f = "zeta" -> ZetaChecks(p) [] f = "zeta-sums" -> ZetaSumChecks(p)
                    [] f = "normalquantile" -> NQChecks(p) [] f = "normalquantile-special" -> NQSpecial
                    [] f = "elliptic" -> EllipticChecks(p) [] f = "elliptic-squares" -> EllipticSqChecks(p) [] f = "elliptic-rc" -> RCChecks(p)
                    [] f = "legendre" -> LegendreChecks(p) [] f = "elliptic-special" -> EllipticSpecial [] f = "mvlgamma" -> MvChecks(p)

Init == par \in UNION {{[fam |-> f, p |-> q] : q \in PSet(f)} : f \in Families}
Next == UNCHANGED par
Spec == Init /\ [][Next]_vars

Theorems == Thm(par.fam, par.p)
\* the family and its parameters are recorded as a pseudo-object so that a failing check can be replayed alone
EmitCase == Emit => PrintT(ToJson([obj |-> [t |-> "mathext", p |-> <<>>], fam |-> par.fam, checks |-> ChecksOf(par.fam, par.p)]))
=============================================================================
