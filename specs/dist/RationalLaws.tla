---------------------------- MODULE RationalLaws ----------------------------
(* The continuous laws of stat/distuv (and Poisson) at the points where their  *)
(* functions take exactly RATIONAL values, and the identities between their    *)
(* methods whose right-hand side is a rational number.                        *)
(*                                                                            *)
(* TLA+ has no reals.  What it can state exactly:                              *)
(*  - the regularized incomplete beta function for an INTEGER second (or      *)
(*    first) parameter is a finite sum,                                       *)
(*        I_x(a, n) = x^a * Sum_{k<n} (a)_k / k! * (1-x)^k,                    *)
(*    a rational number whenever x and x^a are rational.  This gives the CDFs  *)
(*    of Beta (integer / half-integer shapes), F (an even degree of freedom)  *)
(*    and Student's t (even Nu; Nu = 1 at the three points where atan is a    *)
(*    rational multiple of pi) -- BetaReg / IBint below, with the lemmas that *)
(*    guard them (binomial-tail form = rising-factorial form = term-by-term   *)
(*    integration of the polynomial density; complement symmetry);            *)
(*  - power laws (Pareto) at arguments that are perfect powers;               *)
(*  - moments that are rational functions of the parameters, derived in the   *)
(*    module from the raw moments E[X^k] (Beta: rising factorials; F and      *)
(*    Pareto, InverseGamma: beta-prime / power integrals; Gamma family) so    *)
(*    that Mean, Variance and ExKurtosis are not copied from the code;        *)
(*  - for laws of the exponential family, f(x) / exp(r) for a rational r is   *)
(*    a rational number (Erlang tail = exp(-bx) * polynomial, Poisson pmf =   *)
(*    exp(-lambda) * lambda^k / k!): the identity is printed with an explicit *)
(*    "exp" node, the harness evaluates the node with math.Exp;               *)
(*  - symmetry, complement, inverse and recurrence identities of any law      *)
(*    (CDF(Mu+d) + CDF(Mu-d) = 1, Survival + CDF = 1, CDF(Quantile(p)) = p,    *)
(*    Prob = exp(LogProb), Prob(k+1)/Prob(k) = lambda/(k+1)): the terms are   *)
(*    transcendental, the right-hand side is rational.                        *)
(* Support rules (property C11: "forall x ... and outside the support"): below *)
(* the support CDF = 0, Survival = 1, Prob = 0, LogProb = -Inf.                *)
(*                                                                            *)
(* R1: Theorems is an invariant: on every parameter setting the CDF table is   *)
(* within [0,1], non-decreasing along the argument grid, CDF + Survival = 1,   *)
(* the quantile points invert the CDF points, the polynomial densities         *)
(* integrate to the CDF differences, the closed-form moments are the moments   *)
(* of the density.  R2: EmitCase prints the table of checks of the setting.    *)
(* Parameter order of an object = order of the float64 fields of the Go type.  *)
EXTENDS IncFns, Json

CONSTANTS Laws,    \* set of law names handled by this run
          Tier,    \* 0 quick | 1 thorough
          Salt,    \* varies locations / scales / extra grid points (VERIF_SEED)
          Emit

VARIABLE par       \* [law |-> name, p |-> <<rationals>>]
vars == <<par>>

(****************************** shared grids ********************************)
\* bits needed for q: q <= 2^Bits(q)
RECURSIVE BitsFrom(_, _)
BitsFrom(q, b) == IF Pow(2, b) >= q THEN b ELSE BitsFrom(q, b + 1)
Bits(q) == BitsFrom(q, 0)
Fits(q, n) == n * Bits(q) <= 29            \* q^n, and sums of n+1 terms bounded by q^n, fit

SaltDen == CASE Salt % 3 = 0 -> 7 [] Salt % 3 = 1 -> 9 [] OTHER -> 6
\* arguments in (0,1)
UnitGrid == {R(j, 8) : j \in 1 .. 7} \cup {R(1, 3), R(2, 3), R(1, 5), R(4, 5), R(1, 16), R(15, 16), R(1, 64)}
            \cup {R(j, SaltDen) : j \in 1 .. (SaltDen - 1)}
\* positive offsets / arguments (dyadic: exactly representable, sums with dyadic locations exact)
PosGrid == {R(1, 4), R(1, 2), One, R(3, 2), I(2), I(3), R(11, 4), I(7)} \cup {R((Salt % 5) + 1, 8)}
\* probabilities for inverse identities (dyadic, so 1 - p is exact)
ProbGrid == {R(1, 16), R(1, 8), R(1, 4), R(3, 8), R(5, 8), R(3, 4), R(7, 8), R(15, 16), R(1, 1024)}
            \cup {R(2 * (Salt % 7) + 1, 32)}
\* locations and scales of the location-scale laws (dyadic)
Locs   == {Zero, R(0 - 3, 2), I(5)} \cup {R((Salt % 9) - 4, 4)} \cup (IF Tier = 1 THEN {I(0 - 1000), R(1, 1024)} ELSE {})
Scales == {One, Half, I(3)} \cup {R((Salt % 4) + 1, 4)} \cup (IF Tier = 1 THEN {R(1, 1024), I(4096)} ELSE {})

SeqOf(S) == LET RECURSIVE Enum(_)
                Enum(T) == IF T = {} THEN <<>> ELSE LET x == CHOOSE y \in T : TRUE IN <<x>> \o Enum(T \ {x})
            IN Enum(S)
\* a set of rationals as an increasing sequence
RECURSIVE SortR(_)
SortR(S) == IF S = {} THEN <<>>
            ELSE LET m == CHOOSE y \in S : \A z \in S : RLeq(y, z) IN <<m>> \o SortR(S \ {m})
Checks(S, F(_)) == LET s == SeqOf(S) IN Flatten([i \in 1 .. Len(s) |-> F(s[i])])

\* generic lemmas over a sorted argument sequence xs and exact functions cdf, surv
CdfLemmas(xs, cdf(_), surv(_)) ==
    /\ \A i \in DOMAIN xs : RLeq(Zero, cdf(xs[i])) /\ RLeq(cdf(xs[i]), One)
    /\ \A i \in DOMAIN xs : i > 1 => RLeq(cdf(xs[i - 1]), cdf(xs[i]))
    /\ \A i \in DOMAIN xs : RAdd(cdf(xs[i]), surv(xs[i])) = One

\* central moments from raw moments m1..m4
VarRaw(m1, m2) == RSub(m2, RSq(m1))
Mu3Raw(m1, m2, m3) == RAdd(RSub(m3, RMul(I(3), RMul(m1, m2))), RMul(I(2), RPow(m1, 3)))
Mu4Raw(m1, m2, m3, m4) == RSub(RAdd(RSub(m4, RMul(I(4), RMul(m1, m3))), RMul(I(6), RMul(RSq(m1), m2))), RMul(I(3), RPow(m1, 4)))
ExKurtRaw(m1, m2, m3, m4) == RSub(RDiv(Mu4Raw(m1, m2, m3, m4), RSq(VarRaw(m1, m2))), I(3))
\* skewness^2 and its sign
Skew2Raw(m1, m2, m3) == RDiv(RSq(RDiv(Mu3Raw(m1, m2, m3), VarRaw(m1, m2))), VarRaw(m1, m2))

\* checks every law gets: complement and Prob = exp(LogProb) at the arguments xs (a set of rationals inside the
\* support), inverse identity at the probabilities ps
Generic(xs, ps) ==
    Checks(xs, LAMBDA x : << Eq("CDF+Survival", Add(M1("CDF", X(x)), M1("Survival", X(x))), One, "special"),
                             Eq("Prob/exp(LogProb)", Div(M1("Prob", X(x)), Exp(M1("LogProb", X(x)))), One, "special") >>)
    \o Checks(ps, LAMBDA p : << Eq("CDF(Quantile(p))", M1("CDF", M1("Quantile", X(p))), p, "inverse") >>)
QuantileOfCdf(xs) == Checks(xs, LAMBDA x : << Eq("Quantile(CDF(x))", M1("Quantile", M1("CDF", X(x))), x, "inverse") >>)
\* below the support (x a rational strictly below it)
Below(xs) == Checks(xs, LAMBDA x : << Eq("CDF:below-support", M1("CDF", X(x)), Zero, "exact"),
                                      Eq("Survival:below-support", M1("Survival", X(x)), One, "exact"),
                                      Eq("Prob:below-support", M1("Prob", X(x)), Zero, "exact"),
                                      NInf("LogProb:below-support", M1("LogProb", X(x))) >>)

(********************************** Beta *************************************)
\* distuv.Beta{Alpha, Beta}; p = <<a2, b2>> doubled shapes (integers): Alpha = a2/2, Beta = b2/2
BetaMaxInt == IF Tier = 1 THEN 7 ELSE 5
BetaPars == {<<I(2 * a), I(2 * b)>> : a \in 1 .. BetaMaxInt, b \in 1 .. BetaMaxInt}
            \cup {<<I(a2), I(2 * b)>> : a2 \in {1, 3, 5}, b \in 1 .. 3}
            \cup {<<I(2 * a), I(b2)>> : a \in 1 .. 3, b2 \in {1, 3, 5}}
SquareGrid == {R(1, 4), R(9, 16), R(1, 9), R(4, 9), R(16, 25), R(5, 9), R(8, 9), R(7, 16), R(9, 25), R(3, 4)}
BetaXs(a2, b2) == {x \in UnitGrid \cup SquareGrid : BetaRegOK(a2, b2, x) /\ BetaRegOK(b2, a2, RSub(One, x))}
BetaThm(p) ==
    LET a2 == p[1][1]
        b2 == p[2][1]
        xs == SortR(BetaXs(a2, b2))
        cdf(x) == BetaReg(a2, b2, x)
        surv(x) == BetaReg(b2, a2, RSub(One, x))
    IN /\ CdfLemmas(xs, cdf, surv)
       /\ Len(xs) >= (IF a2 % 2 = 0 /\ b2 % 2 = 0 THEN 3 ELSE 1)
       /\ (a2 % 2 = 0 /\ b2 % 2 = 0) =>
            LET a == a2 \div 2
                b == b2 \div 2 IN
            \* the three forms of I_x(a,b) agree; the CDF differences are the integrals of the density
            /\ \A i \in DOMAIN xs : (BetaPath(a2, b2, xs[i]) = 1 /\ SatMul(SatPow(xs[i][2], a + b), 4096) < Cap) =>
                                      /\ IBint(a, b, xs[i]) = IBpoly(a, b, xs[i])
                                      /\ IBnFits(a2, b, xs[i][2]) => IBint(a, b, xs[i]) = IBn(I(a), b, xs[i], RPow(xs[i], a))
            \* moments of the polynomial density: E[X^k] = K * Integral t^(a+k-1) (1-t)^(b-1) = K / K(a+k, b)
            /\ \A k \in 1 .. 4 : (a + b + k <= 12) => BetaRaw(I(a), I(b), k) = RDiv(BetaK(a, b), BetaK(a + k, b))
BetaChecks(p) ==
    LET a2 == p[1][1]
        b2 == p[2][1]
        a == R(a2, 2)
        b == R(b2, 2)
        xs == BetaXs(a2, b2)
        int == a2 % 2 = 0 /\ b2 % 2 = 0
        m1 == BetaRaw(a, b, 1)
        m2 == BetaRaw(a, b, 2)
        m3 == BetaRaw(a, b, 3)
        m4 == BetaRaw(a, b, 4)
    IN Checks(xs, LAMBDA x :
          << Eq("CDF", M1("CDF", X(x)), BetaReg(a2, b2, x), "prob"),
             Eq("Survival", M1("Survival", X(x)), RSub(One, BetaReg(a2, b2, x)), "prob"),
             Eq("Quantile(p)", M1("Quantile", X(BetaReg(a2, b2, x))), x, "inverse") >>
          \o (IF int THEN << Eq("Prob", M1("Prob", X(x)), BetaPdf(a2 \div 2, b2 \div 2, x), "special"),
                             Eq("exp(LogProb)", Exp(M1("LogProb", X(x))), BetaPdf(a2 \div 2, b2 \div 2, x), "special") >>
              ELSE <<>>))
       \o Generic(xs, ProbGrid) \o QuantileOfCdf(xs)
       \o Below({R(0 - 1, 4), I(0 - 3)})
       \o << Eq("CDF:above-support", M1("CDF", X(R(5, 4))), One, "exact"),
             Eq("Survival:above-support", M1("Survival", X(R(5, 4))), Zero, "exact"),
             Eq("Prob:above-support", M1("Prob", X(R(5, 4))), Zero, "exact"),
             NInf("LogProb:above-support", M1("LogProb", X(R(5, 4)))),
             Eq("CDF(0)", M1("CDF", XI(0)), Zero, "exact"), Eq("CDF(1)", M1("CDF", XI(1)), One, "exact"),
             Eq("Survival(0)", M1("Survival", XI(0)), One, "exact"), Eq("Survival(1)", M1("Survival", XI(1)), Zero, "exact"),
             Eq("Quantile(0)", M1("Quantile", XI(0)), Zero, "exact"), Eq("Quantile(1)", M1("Quantile", XI(1)), One, "exact"),
             Eq("Mean", M0("Mean"), m1, "ops"),
             Eq("Variance", M0("Variance"), VarRaw(m1, m2), "ops"),
             Eq("StdDev^2", Sq(M0("StdDev")), VarRaw(m1, m2), "special"),
             Eq("ExKurtosis", M0("ExKurtosis"), ExKurtRaw(m1, m2, m3, m4), "special"),
             Eq("NumParameters", M0("NumParameters"), I(2), "exact") >>
       \* the density at the ends of the support (0^0 = 1): a = 1 -> b at 0, a > 1 -> 0; mirrored at 1
       \o (IF int THEN << Eq("Prob(0)", M1("Prob", XI(0)), IF a2 = 2 THEN b ELSE Zero, "special"),
                          Eq("Prob(1)", M1("Prob", XI(1)), IF b2 = 2 THEN a ELSE Zero, "special") >> ELSE <<>>)
       \* Mode: documented special cases
       \o (IF a2 > 2 /\ b2 > 2 THEN << Eq("Mode", M0("Mode"), RDiv(RSub(a, One), RSub(RAdd(a, b), I(2))), "ops") >>
           ELSE IF a2 <= 2 /\ b2 <= 2 THEN << IsNaN("Mode:both<=1", M0("Mode")) >>
           ELSE IF a2 <= 2 THEN << Eq("Mode:alpha<=1", M0("Mode"), Zero, "exact") >>
           ELSE << Eq("Mode:beta<=1", M0("Mode"), One, "exact") >>)
       \* symmetric law: median 1/2
       \o (IF a2 = b2 THEN << Eq("CDF(1/2):symmetric", M1("CDF", X(Half)), Half, "prob"),
                               Eq("Quantile(1/2):symmetric", M1("Quantile", X(Half)), Half, "inverse") >> ELSE <<>>)

\* large shapes: moments stay exact, the symmetric median is 1/2 (complement lemma at x = 1/2)
BetaBigPars == {<<I(2 * a), I(2 * b)>> : a \in {20, 1000, 65536}, b \in {20, 1000, 3}}
BetaBigChecks(p) ==
    LET a == R(p[1][1], 2)
        b == R(p[2][1], 2)
        m1 == BetaRaw(a, b, 1)
    IN << Eq("Mean", M0("Mean"), m1, "ops"),
          Eq("Mode", M0("Mode"), RDiv(RSub(a, One), RSub(RAdd(a, b), I(2))), "ops"),
          \* the incomplete beta function loses digits at shapes of this size: 1e-8
          Eq("CDF+Survival", Add(M1("CDF", X(m1)), M1("Survival", X(m1))), One, "coarse"),
          Eq("CDF(0)", M1("CDF", XI(0)), Zero, "exact"), Eq("CDF(1)", M1("CDF", XI(1)), One, "exact") >>
       \o (IF a = b THEN << Eq("CDF(1/2):symmetric", M1("CDF", X(Half)), Half, "coarse"),
                             Eq("Quantile(1/2):symmetric", M1("Quantile", X(Half)), Half, "inverse"),
                             Eq("Variance", M0("Variance"), R(1, 4 * (2 * a[1] + 1)), "ops") >> ELSE <<>>)

(************************************ F **************************************)
\* distuv.F{D1, D2}: X = (U1/D1)/(U2/D2); CDF(x) = I_y(D1/2, D2/2), y = D1 x / (D1 x + D2), so x = D2 y / (D1 (1-y)).
\* raw moments (beta-prime): E[X^k] = (D2/D1)^k (D1/2)_k / ((D2/2 - 1) .. (D2/2 - k)), D2 > 2k
FPars == {<<I(d1), I(d2)>> : d1 \in {1, 2, 3, 4, 6, 10}, d2 \in {2, 4, 6, 10, 12}}
         \cup {<<I(d1), I(d2)>> : d1 \in {2, 4, 8}, d2 \in {1, 3, 5, 9}}
FXofY(d1, d2, y) == RDiv(RMul(I(d2), y), RMul(I(d1), RSub(One, y)))
FYs(d1, d2) == {y \in UnitGrid \cup SquareGrid : BetaRegOK(d1, d2, y) /\ BetaRegOK(d2, d1, RSub(One, y))}
RECURSIVE Falling(_, _)
Falling(r, k) == IF k = 0 THEN One ELSE RMul(RSub(r, I(k)), Falling(r, k - 1))      \* (r-1)(r-2)..(r-k)
FRaw(d1, d2, k) == RMul(RPow(R(d2, d1), k), RDiv(Rising(R(d1, 2), k), Falling(R(d2, 2), k)))
FThm(p) ==
    LET d1 == p[1][1]
        d2 == p[2][1]
        ys == SortR(FYs(d1, d2))
        xs == [i \in DOMAIN ys |-> FXofY(d1, d2, ys[i])]
    IN /\ Len(ys) >= (IF d1 % 2 = 0 /\ d2 % 2 = 0 THEN 3 ELSE 1)
       \* x is increasing in y, so the CDF table is non-decreasing in x
       /\ \A i \in DOMAIN xs : i > 1 => RLt(xs[i - 1], xs[i])
       /\ CdfLemmas(ys, LAMBDA y : BetaReg(d1, d2, y), LAMBDA y : BetaReg(d2, d1, RSub(One, y)))
       \* F(2,2): CDF = x / (1 + x)
       /\ (d1 = 2 /\ d2 = 2) => \A i \in DOMAIN ys : BetaReg(2, 2, ys[i]) = RDiv(xs[i], RAdd(One, xs[i]))
       \* the mean is d2/(d2-2) whatever d1
       /\ d2 > 2 => FRaw(d1, d2, 1) = R(d2, d2 - 2)
FChecks(p) ==
    LET d1 == p[1][1]
        d2 == p[2][1]
        ys == FYs(d1, d2)
        m1 == FRaw(d1, d2, 1)
        m2 == FRaw(d1, d2, 2)
        m3 == FRaw(d1, d2, 3)
        m4 == FRaw(d1, d2, 4)
    IN Checks(ys, LAMBDA y : LET x == FXofY(d1, d2, y) IN
          << Eq("CDF", M1("CDF", X(x)), BetaReg(d1, d2, y), "prob"),
             Eq("Survival", M1("Survival", X(x)), RSub(One, BetaReg(d1, d2, y)), "prob"),
             Eq("Quantile(p)", M1("Quantile", X(BetaReg(d1, d2, y))), x, "inverse"),
             Eq("Quantile(CDF(x))", M1("Quantile", M1("CDF", X(x))), x, "inverse"),
             Eq("Prob/exp(LogProb)", Div(M1("Prob", X(x)), Exp(M1("LogProb", X(x)))), One, "special") >>)
       \o Checks(ProbGrid, LAMBDA q : << Eq("CDF(Quantile(p))", M1("CDF", M1("Quantile", X(q))), q, "inverse") >>)
       \o << Eq("CDF(0)", M1("CDF", XI(0)), Zero, "exact"), Eq("Survival(0)", M1("Survival", XI(0)), One, "exact"),
             Eq("NumParameters", M0("NumParameters"), I(2), "exact") >>
       \o Below({R(0 - 1, 2), I(0 - 3)})
       \o (IF d2 > 2 THEN << Eq("Mean", M0("Mean"), m1, "ops") >> ELSE << IsNaN("Mean:d2<=2", M0("Mean")) >>)
       \o (IF d2 > 4 THEN << Eq("Variance", M0("Variance"), VarRaw(m1, m2), "ops"),
                             Eq("StdDev^2", Sq(M0("StdDev")), VarRaw(m1, m2), "special") >>
           ELSE << IsNaN("Variance:d2<=4", M0("Variance")) >>)
       \o (IF d2 > 6 THEN << Eq("Skewness^2", Sq(M0("Skewness")), Skew2Raw(m1, m2, m3), "special"),
                             SignIs("Skewness>0", M0("Skewness"), 1) >> ELSE <<>>)
       \o (IF d2 > 8 THEN << Eq("ExKurtosis", M0("ExKurtosis"), ExKurtRaw(m1, m2, m3, m4), "special") >>
           ELSE << IsNaN("ExKurtosis:d2<=8", M0("ExKurtosis")) >>)
       \* mode of the density x^(d1/2-1) (1 + d1 x/d2)^(-(d1+d2)/2): (d1-2)/d1 * d2/(d2+2), d1 > 2 (NaN documented otherwise)
       \o (IF d1 > 2 THEN << Eq("Mode", M0("Mode"), RMul(R(d1 - 2, d1), R(d2, d2 + 2)), "ops") >>
           ELSE << IsNaN("Mode:d1<=2", M0("Mode")) >>)
       \* the density at the lower end of the support: 1 for d1 = 2, 0 for d1 > 2
       \o (IF d1 = 2 THEN << Eq("Prob(0)", M1("Prob", XI(0)), One, "special") >>
           ELSE IF d1 > 2 THEN << Eq("Prob(0)", M1("Prob", XI(0)), Zero, "special") >> ELSE <<>>)

(******************************* Student's t *********************************)
\* distuv.StudentsT{Mu, Sigma, Nu}.  For z = (x - Mu)/Sigma > 0:  CDF = 1 - I_t(Nu/2, 1/2)/2,  t = Nu/(Nu + z^2),
\* I_t(Nu/2, 1/2) = 1 - I_(1-t)(1/2, Nu/2): rational for even Nu when 1 - t = z^2/(Nu + z^2) is a rational square,
\* i.e. Nu + z^2 = s^2: z = (Nu - u^2)/(2u) for rational u (then s = (Nu + u^2)/(2u)).
TNus == {I(1), I(2), I(3), I(4), I(6), I(8), R(5, 2), I(30)}
TW(nu, z) == RDiv(RSq(z), RAdd(I(nu), RSq(z)))
TPars == {<<m, s, nu>> : m \in Locs, s \in Scales, nu \in TNus}
TZs(nu) == {z \in {RDiv(RSub(I(nu), RSq(u)), RMul(I(2), u)) : u \in {One, Half, R(3, 2), R(1, 4), R(3, 4), R(1, 3), I(2), R(5, 2)}} :
              RLt(Zero, z) /\ IBnFits(1, nu \div 2, TW(nu, z)[2])}
TCdfPos(nu, z) ==      \* even nu, z > 0 with nu + z^2 a rational square
    LET w == TW(nu, z)                                  \* 1 - t
    IN RSub(One, RMul(Half, RSub(One, IBn(Half, nu \div 2, w, RSqrt(w)))))
TThm(p) ==
    LET nu == p[3] IN
    (nu[2] = 1 /\ nu[1] % 2 = 0 /\ nu[1] <= 8) =>
        LET zs == SortR(TZs(nu[1])) IN
        /\ Len(zs) >= (IF nu[1] = 8 THEN 1 ELSE 3)
        /\ \A i \in DOMAIN zs : RIsSquare(RDiv(RSq(zs[i]), RAdd(nu, RSq(zs[i]))))
        /\ \A i \in DOMAIN zs : RLt(Half, TCdfPos(nu[1], zs[i])) /\ RLt(TCdfPos(nu[1], zs[i]), One)
        /\ \A i \in DOMAIN zs : i > 1 => RLt(TCdfPos(nu[1], zs[i - 1]), TCdfPos(nu[1], zs[i]))
        \* Nu = 2: CDF = 1/2 + z / (2 sqrt(2 + z^2))
        /\ nu[1] = 2 => \A i \in DOMAIN zs : TCdfPos(2, zs[i]) = RAdd(Half, RDiv(zs[i], RMul(I(2), RSqrt(RAdd(I(2), RSq(zs[i]))))))
SymmetricChecks(m, s, ds, ps) ==
    << Eq("CDF(Mu)", M1("CDF", X(m)), Half, "ops"), Eq("Survival(Mu)", M1("Survival", X(m)), Half, "ops"),
       Eq("Quantile(1/2)", M1("Quantile", X(Half)), m, "ops"),
       NInf("Quantile(0)", M1("Quantile", XI(0))), PInf("Quantile(1)", M1("Quantile", XI(1))) >>
    \o Checks(ds, LAMBDA d : LET xp == RAdd(m, RMul(s, d))
                                 xm == RSub(m, RMul(s, d)) IN
          << Eq("CDF(Mu+d)+CDF(Mu-d)", Add(M1("CDF", X(xp)), M1("CDF", X(xm))), One, "special"),
             Eq("CDF(Mu+d)-Survival(Mu-d)", Sub(M1("CDF", X(xp)), M1("Survival", X(xm))), Zero, "special"),
             Eq("Prob(Mu+d)-Prob(Mu-d)", Sub(M1("Prob", X(xp)), M1("Prob", X(xm))), Zero, "special") >>)
    \o Checks(ps, LAMBDA q : << Eq("Quantile(p)+Quantile(1-p)", Add(M1("Quantile", X(q)), M1("Quantile", X(RSub(One, q)))), RMul(I(2), m), "special") >>)
    \o Generic({RAdd(m, RMul(s, d)) : d \in ds} \cup {RSub(m, RMul(s, d)) : d \in ds} \cup {m}, ps)
TChecks(p) ==
    LET m == p[1]
        s == p[2]
        nu == p[3]
        even == nu[2] = 1 /\ nu[1] % 2 = 0 /\ nu[1] <= 8
        k2 == nu[1] + 1                                 \* Nu odd integer: (Nu+1)/2 = k2/2 is an integer
    IN SymmetricChecks(m, s, PosGrid, ProbGrid)
       \o << Eq("Mode", M0("Mode"), m, "exact"), Eq("NumParameters", M0("NumParameters"), I(3), "exact") >>
       \o (IF RLt(One, nu) THEN << Eq("Mean", M0("Mean"), m, "exact") >> ELSE <<>>)
       \o (IF RLt(I(2), nu) THEN << Eq("Variance", M0("Variance"), RMul(RSq(s), RDiv(nu, RSub(nu, I(2)))), "ops"),
                                    Eq("StdDev^2", Sq(M0("StdDev")), RMul(RSq(s), RDiv(nu, RSub(nu, I(2)))), "special") >>
           ELSE IF RLt(One, nu) THEN << PInf("Variance:1<nu<=2", M0("Variance")) >>
           ELSE << IsNaN("Variance:nu<=1", M0("Variance")) >>)
       \* Cauchy: atan(1) = pi/4
       \o (IF nu = One THEN << Eq("CDF(Mu+Sigma)", M1("CDF", X(RAdd(m, s))), R(3, 4), "prob"),
                               Eq("CDF(Mu-Sigma)", M1("CDF", X(RSub(m, s))), R(1, 4), "prob"),
                               Eq("Survival(Mu+Sigma)", M1("Survival", X(RAdd(m, s))), R(1, 4), "prob"),
                               Eq("Quantile(3/4)-Mu", Sub(M1("Quantile", X(R(3, 4))), X(m)), s, "inverse"),
                               Eq("Quantile(1/4)-Mu", Sub(M1("Quantile", X(R(1, 4))), X(m)), RNeg(s), "inverse") >> ELSE <<>>)
       \* odd Nu: the density ratio (1 + z^2/Nu)^(-(Nu+1)/2) is rational
       \o (IF nu[2] = 1 /\ nu[1] % 2 = 1 /\ nu[1] <= 3
           THEN Checks(PosGrid, LAMBDA d : << Eq("Prob(Mu+d)/Prob(Mu)", Div(M1("Prob", X(RAdd(m, RMul(s, d)))), M1("Prob", X(m))),
                                                  RInv(RPow(RAdd(One, RDiv(RSq(d), nu)), k2 \div 2)), "special") >>)
           ELSE <<>>)
       \o (IF even
           THEN Checks(TZs(nu[1]), LAMBDA z : LET c == TCdfPos(nu[1], z) IN
                  << Eq("CDF", M1("CDF", X(RAdd(m, RMul(s, z)))), c, "prob"),
                     Eq("CDF:neg", M1("CDF", X(RSub(m, RMul(s, z)))), RSub(One, c), "prob"),
                     Eq("Survival", M1("Survival", X(RAdd(m, RMul(s, z)))), RSub(One, c), "prob"),
                     Eq("Quantile(p)-Mu", Sub(M1("Quantile", X(c)), X(m)), RMul(s, z), "inverse"),
                     Eq("Quantile(1-p)-Mu", Sub(M1("Quantile", X(RSub(One, c))), X(m)), RNeg(RMul(s, z)), "inverse") >>)
           ELSE <<>>)

(********************** Normal, Laplace, Logistic ****************************)
LocScalePars == {<<m, s>> : m \in Locs, s \in Scales}
NormalChecks(p) ==
    LET m == p[1]
        s == p[2]
    IN SymmetricChecks(m, s, PosGrid, ProbGrid)
       \o << Eq("Mean", M0("Mean"), m, "exact"), Eq("Median", M0("Median"), m, "exact"), Eq("Mode", M0("Mode"), m, "exact"),
             Eq("StdDev", M0("StdDev"), s, "exact"), Eq("Variance", M0("Variance"), RSq(s), "ops"),
             Eq("Skewness", M0("Skewness"), Zero, "exact"), Eq("ExKurtosis", M0("ExKurtosis"), Zero, "exact"),
             Eq("NumParameters", M0("NumParameters"), I(2), "exact") >>
       \* log density = const - log Sigma - (x-Mu)^2 / (2 Sigma^2): differences and parameter derivatives are rational
       \o Checks(PosGrid, LAMBDA d : LET x == RAdd(m, RMul(s, d)) IN
            << Eq("LogProb(Mu)-LogProb(Mu+d)", Sub(M1("LogProb", X(m)), M1("LogProb", X(x))), RDiv(RSq(d), I(2)), "special"),
               Eq("Prob(Mu+d)/Prob(Mu)*exp(d^2/2)", Mul(Div(M1("Prob", X(x)), M1("Prob", X(m))), Exp(X(RDiv(RSq(d), I(2))))), One, "special"),
               Eq("Score[Mu]", <<"ms", "Score", 0, X(x)>>, RDiv(d, s), "ops"),
               Eq("Score[Sigma]", <<"ms", "Score", 1, X(x)>>, RDiv(RSub(RSq(d), One), s), "ops"),
               Eq("ScoreInput", M1("ScoreInput", X(x)), RNeg(RDiv(d, s)), "ops") >>)
LaplaceChecks(p) ==
    LET m == p[1]
        s == p[2]
    IN SymmetricChecks(m, s, PosGrid, ProbGrid)
       \o << Eq("Mean", M0("Mean"), m, "exact"), Eq("Median", M0("Median"), m, "exact"), Eq("Mode", M0("Mode"), m, "exact"),
             Eq("Variance", M0("Variance"), RMul(I(2), RSq(s)), "ops"), Eq("StdDev^2", Sq(M0("StdDev")), RMul(I(2), RSq(s)), "special"),
             Eq("Skewness", M0("Skewness"), Zero, "exact"), Eq("ExKurtosis", M0("ExKurtosis"), I(3), "exact"),
             Eq("NumParameters", M0("NumParameters"), I(2), "exact"),
             Eq("Prob(Mu)", M1("Prob", X(m)), RDiv(Half, s), "special"),
             Eq("exp(LogProb(Mu))", Exp(M1("LogProb", X(m))), RDiv(Half, s), "special"),
             Eq("exp(Entropy-1)", Exp(Sub(M0("Entropy"), XI(1))), RMul(I(2), s), "special") >>
       \* CDF(Mu + s d) = 1 - exp(-d)/2,  CDF(Mu - s d) = exp(-d)/2,  density exp(-d)/(2s)
       \o Checks(PosGrid, LAMBDA d : LET xp == RAdd(m, RMul(s, d))
                                         xm == RSub(m, RMul(s, d)) IN
            << Eq("Survival(Mu+d)/exp(-d)", Div(M1("Survival", X(xp)), Exp(X(RNeg(d)))), Half, "special"),
               Eq("CDF(Mu-d)/exp(-d)", Div(M1("CDF", X(xm)), Exp(X(RNeg(d)))), Half, "special"),
               Eq("Prob(Mu+d)/exp(-d)", Div(M1("Prob", X(xp)), Exp(X(RNeg(d)))), RDiv(Half, s), "special"),
               Eq("LogProb(Mu)-LogProb(Mu+d)", Sub(M1("LogProb", X(m)), M1("LogProb", X(xp))), d, "special"),
               Eq("Score[Mu]:right", <<"ms", "Score", 0, X(xp)>>, RInv(s), "ops"),
               Eq("Score[Mu]:left", <<"ms", "Score", 0, X(xm)>>, RNeg(RInv(s)), "ops"),
               Eq("Score[Scale]", <<"ms", "Score", 1, X(xp)>>, RDiv(RSub(d, One), s), "ops"),
               Eq("ScoreInput:right", M1("ScoreInput", X(xp)), RNeg(RInv(s)), "ops"),
               Eq("ScoreInput:left", M1("ScoreInput", X(xm)), RInv(s), "ops") >>)
LogisticChecks(p) ==
    LET m == p[1]
        s == p[2]
    IN SymmetricChecks(m, s, PosGrid, ProbGrid)
       \o << Eq("Mean", M0("Mean"), m, "exact"), Eq("Median", M0("Median"), m, "exact"), Eq("Mode", M0("Mode"), m, "exact"),
             Eq("Skewness", M0("Skewness"), Zero, "exact"), Eq("ExKurtosis", M0("ExKurtosis"), R(6, 5), "ops"),
             Eq("NumParameters", M0("NumParameters"), I(2), "exact"),
             Eq("Variance/StdDev^2", Div(M0("Variance"), Sq(M0("StdDev"))), One, "special"),
             \* density E/(s (1+E)^2), E = exp(-(x-Mu)/s): 1/(4s) at the mode
             Eq("Prob(Mu)", M1("Prob", X(m)), RDiv(R(1, 4), s), "special"),
             Eq("exp(LogProb(Mu))", Exp(M1("LogProb", X(m))), RDiv(R(1, 4), s), "special") >>
       \* CDF(Mu + s d) (1 + exp(-d)) = 1
       \o Checks(PosGrid, LAMBDA d : LET xp == RAdd(m, RMul(s, d)) IN
            << Eq("CDF(Mu+d)*(1+exp(-d))", Mul(M1("CDF", X(xp)), Add(XI(1), Exp(X(RNeg(d))))), One, "special"),
               Eq("Prob(Mu+d)*(1+exp(-d))^2/exp(-d)", Div(Mul(M1("Prob", X(xp)), Sq(Add(XI(1), Exp(X(RNeg(d)))))), Exp(X(RNeg(d)))), RInv(s), "special") >>)

(********************************* Pareto ************************************)
\* distuv.Pareto{Xm, Alpha}; p = <<xm, alpha>>, alpha = k/2.  Survival(x) = (Xm/x)^Alpha, x >= Xm.
\* raw moments E[X^k] = Alpha Xm^k / (Alpha - k), k < Alpha
ParetoPars == {<<xm, al>> : xm \in {One, I(2), Half, R(3, 2), I(3)} \cup {R((Salt % 6) + 1, 4)} \cup (IF Tier = 1 THEN {I(1024), R(1, 1024)} ELSE {}),
                            al \in {Half, One, R(3, 2), I(2), I(3), I(4), I(5), I(6), I(9)}}
ParetoRatios(al) == {r \in {I(2), I(4), R(9, 4), R(3, 2), I(3), I(9), R(25, 16), R(5, 4)} :
                       /\ HalfPowOK(r, al[1] * (2 \div al[2]))
                       /\ Fits(Max2(r[1], r[2]), (al[1] \div al[2]) + 2)}
Alpha2(al) == al[1] * (2 \div al[2])             \* 2*Alpha as an integer (Alpha = k/2)
ParetoRaw(xm, al, k) == RDiv(RMul(al, RPow(xm, k)), RSub(al, I(k)))
ParetoThm(p) ==
    LET xm == p[1]
        al == p[2]
        rs == SortR(ParetoRatios(al))
        surv(r) == RInv(HalfPow(r, Alpha2(al)))
        cdf(r) == RSub(One, surv(r))
    IN /\ Len(rs) >= 3
       /\ CdfLemmas(rs, cdf, surv)
       /\ \A i \in DOMAIN rs : RLt(Zero, cdf(rs[i])) /\ RLt(cdf(rs[i]), One)
       \* hazard identity: Prob(x) = Alpha/x * Survival(x) with Prob = Alpha Xm^Alpha / x^(Alpha+1)
       /\ \A i \in DOMAIN rs : RMul(RDiv(al, xm), RInv(RMul(rs[i], HalfPow(rs[i], Alpha2(al)))))
                                 = RMul(RDiv(al, RMul(xm, rs[i])), surv(rs[i]))
ParetoChecks(p) ==
    LET xm == p[1]
        al == p[2]
        rs == ParetoRatios(al)
        \* the law is Xm times the law with Xm = 1: moments of the unit law, scaled
        m1 == ParetoRaw(One, al, 1)
        m2 == ParetoRaw(One, al, 2)
        m3 == ParetoRaw(One, al, 3)
        m4 == ParetoRaw(One, al, 4)
    IN Checks(rs, LAMBDA r : LET x == RMul(xm, r)
                                 sv == RInv(HalfPow(r, Alpha2(al))) IN
          << Eq("CDF", M1("CDF", X(x)), RSub(One, sv), "prob"),
             Eq("Survival", M1("Survival", X(x)), sv, "prob"),
             Eq("Prob", M1("Prob", X(x)), RMul(RDiv(al, x), sv), "special"),
             Eq("exp(LogProb)", Exp(M1("LogProb", X(x))), RMul(RDiv(al, x), sv), "special"),
             Eq("Quantile(p)", M1("Quantile", X(RSub(One, sv))), x, "special") >>)
       \o Generic({RMul(xm, r) : r \in rs}, ProbGrid) \o QuantileOfCdf({RMul(xm, r) : r \in rs})
       \o Below({RMul(xm, Half), RNeg(xm), Zero})
       \o << Eq("CDF(Xm)", M1("CDF", X(xm)), Zero, "exact"), Eq("Survival(Xm)", M1("Survival", X(xm)), One, "exact"),
             Eq("Prob(Xm)", M1("Prob", X(xm)), RDiv(al, xm), "special"),
             Eq("Mode", M0("Mode"), xm, "exact"), Eq("Quantile(0)", M1("Quantile", XI(0)), xm, "exact"),
             PInf("Quantile(1)", M1("Quantile", XI(1))),
             Eq("NumParameters", M0("NumParameters"), I(2), "exact") >>
       \o (IF RLt(One, al) THEN << Eq("Mean", M0("Mean"), RMul(xm, m1), "ops") >> ELSE << PInf("Mean:alpha<=1", M0("Mean")) >>)
       \o (IF RLt(I(2), al) THEN << Eq("Variance", M0("Variance"), RMul(RSq(xm), VarRaw(m1, m2)), "ops"),
                                    Eq("StdDev^2", Sq(M0("StdDev")), RMul(RSq(xm), VarRaw(m1, m2)), "special") >>
           ELSE IF RLt(One, al) THEN << PInf("Variance:1<alpha<=2", M0("Variance")) >> ELSE <<>>)
       \o (IF RLt(I(4), al) THEN << Eq("ExKurtosis", M0("ExKurtosis"), ExKurtRaw(m1, m2, m3, m4), "special") >> ELSE <<>>)
       \o (IF al = One THEN << Eq("Median:alpha=1", M0("Median"), RMul(I(2), xm), "special") >> ELSE <<>>)
       \o (IF al = I(2) THEN << Eq("Median^2:alpha=2", Sq(M0("Median")), RMul(I(2), RSq(xm)), "special") >> ELSE <<>>)
       \* entropy log(Xm/Alpha) + 1 + 1/Alpha
       \o << Eq("exp(Entropy-1-1/Alpha)", Exp(Sub(M0("Entropy"), X(RAdd(One, RInv(al))))), RDiv(xm, al), "special") >>

(**************** Exponential, Gamma, ChiSquared, Chi, InverseGamma ************)
Rates == {One, I(2), Half, I(3), R(1, 4)} \cup {R((Salt % 5) + 1, 2)} \cup (IF Tier = 1 THEN {I(1024), R(1, 1024)} ELSE {})
ArgGrid == {R(1, 4), Half, One, R(3, 2), I(2), I(3), I(5)} \cup {R((Salt % 7) + 1, 4)}

ExponentialPars == {<<r>> : r \in Rates}
ExponentialChecks(p) ==
    LET r == p[1]
        xs == {RDiv(y, r) : y \in ArgGrid}
    IN Generic(xs, ProbGrid) \o QuantileOfCdf(xs) \o Below({R(0 - 1, 2), I(0 - 4)})
       \o << Eq("Mean", M0("Mean"), RInv(r), "ops"), Eq("Variance", M0("Variance"), RInv(RSq(r)), "ops"),
             Eq("StdDev", M0("StdDev"), RInv(r), "ops"), Eq("Skewness", M0("Skewness"), I(2), "exact"),
             Eq("ExKurtosis", M0("ExKurtosis"), I(6), "exact"), Eq("Mode", M0("Mode"), Zero, "exact"),
             Eq("NumParameters", M0("NumParameters"), One, "exact"),
             Eq("CDF(0)", M1("CDF", XI(0)), Zero, "exact"), Eq("Survival(0)", M1("Survival", XI(0)), One, "exact"),
             Eq("Prob(0)", M1("Prob", XI(0)), r, "special"), Eq("Quantile(0)", M1("Quantile", XI(0)), Zero, "exact"),
             PInf("Quantile(1)", M1("Quantile", XI(1))),
             Eq("exp(-Rate*Median)", Exp(Neg(Mul(X(r), M0("Median")))), Half, "special"),
             Eq("exp(1-Entropy)", Exp(Sub(XI(1), M0("Entropy"))), r, "special") >>
       \o Checks(ArgGrid, LAMBDA y : LET x == RDiv(y, r) IN
            << Eq("Survival/exp(-Rate*x)", Div(M1("Survival", X(x)), Exp(X(RNeg(y)))), One, "special"),
               Eq("CDF+exp(-Rate*x)", Add(M1("CDF", X(x)), Exp(X(RNeg(y)))), One, "special"),
               Eq("Prob/exp(-Rate*x)", Div(M1("Prob", X(x)), Exp(X(RNeg(y)))), r, "special"),
               Eq("Prob/Survival", Div(M1("Prob", X(x)), M1("Survival", X(x))), r, "special"),
               Eq("Score", <<"ms", "Score", 0, X(x)>>, RSub(RInv(r), x), "ops"),
               Eq("ScoreInput", M1("ScoreInput", X(x)), RNeg(r), "exact") >>)

\* distuv.Gamma{Alpha, Beta}: shape Alpha, RATE Beta.  raw moments (Alpha)_k / Beta^k
\* (shapes stay within the property's box 0.3..50: below 0.3 mathext.GammaIncRegInv solves to an ABSOLUTE tolerance of a
\* few 1e-16 and the quantile of a small p, itself of that size, loses all its digits - Gamma{1/8, 1}.Quantile(2^-10) = 0)
GammaPars == {<<a, b>> : a \in {One, I(2), I(3), I(5), Half, R(5, 2), I(10)} \cup (IF Tier = 1 THEN {I(40), R(3, 10)} ELSE {}), b \in Rates}
GammaRaw(a, b, k) == RDiv(Rising(a, k), RPow(b, k))
GammaThm(p) ==
    LET a == p[1]
        b == p[2] IN
    /\ GammaRaw(a, b, 1) = RDiv(a, b)
    /\ VarRaw(GammaRaw(a, b, 1), GammaRaw(a, b, 2)) = RDiv(a, RSq(b))
    /\ (b[1] <= 16 /\ b[2] <= 16 /\ a[1] <= 16) =>
         ExKurtRaw(GammaRaw(a, b, 1), GammaRaw(a, b, 2), GammaRaw(a, b, 3), GammaRaw(a, b, 4)) = RDiv(I(6), a)
    \* Erlang tail sums increase with y, so exp(-y) ErlangSum is a survival function candidate: ErlangSum(n,0) = 1
    /\ (a[2] = 1 /\ a[1] <= 5) => ErlangSum(a[1], Zero) = One
GammaChecks(p) ==
    LET a == p[1]
        b == p[2]
        xs == {RDiv(y, b) : y \in ArgGrid}
        erl == a[2] = 1 /\ a[1] <= 5
    IN Generic(xs, ProbGrid) \o QuantileOfCdf(xs) \o Below({R(0 - 1, 2), I(0 - 4)})
       \o << Eq("Mean", M0("Mean"), RDiv(a, b), "ops"), Eq("Variance", M0("Variance"), RDiv(a, RSq(b)), "ops"),
             Eq("StdDev^2", Sq(M0("StdDev")), RDiv(a, RSq(b)), "special"),
             Eq("ExKurtosis", M0("ExKurtosis"), RDiv(I(6), a), "ops"),
             Eq("NumParameters", M0("NumParameters"), I(2), "exact"),
             Eq("CDF(0)", M1("CDF", XI(0)), Zero, "exact"), Eq("Survival(0)", M1("Survival", XI(0)), One, "exact"),
             Eq("Quantile(0)", M1("Quantile", XI(0)), Zero, "exact"), PInf("Quantile(1)", M1("Quantile", XI(1))) >>
       \o (IF RLeq(One, a) THEN << Eq("Mode", M0("Mode"), RDiv(RSub(a, One), b), "ops") >>
           ELSE << Eq("Mode:alpha<1", M0("Mode"), Zero, "exact") >>)
       \o (IF a = One THEN << Eq("Prob(0)", M1("Prob", XI(0)), b, "special") >>
           ELSE IF RLt(One, a) THEN << Eq("Prob(0)", M1("Prob", XI(0)), Zero, "exact") >> ELSE <<>>)
       \* the rate convention: Gamma(a, b) at x is Gamma(a, 1) at b x
       \o Checks(ArgGrid, LAMBDA y : LET x == RDiv(y, b) IN
            << Eq("CDF(x)-Gamma(a,1).CDF(bx)", Sub(M1("CDF", X(x)), OM1("distuv.Gamma", <<V(a), V(One)>>, "CDF", X(y))), Zero, "special") >>
            \o (IF erl THEN
                 << Eq("Survival/exp(-bx)", Div(M1("Survival", X(x)), Exp(X(RNeg(y)))), ErlangSum(a[1], y), "special"),
                    Eq("(1-CDF)/exp(-bx)", Div(Sub(XI(1), M1("CDF", X(x))), Exp(X(RNeg(y)))), ErlangSum(a[1], y), "special"),
                    Eq("Prob/exp(-bx)", Div(M1("Prob", X(x)), Exp(X(RNeg(y)))), RMul(b, RDiv(RPow(y, a[1] - 1), I(Fact(a[1] - 1)))), "special") >>
                ELSE <<>>))

\* distuv.ChiSquared{K} = Gamma(K/2, rate 1/2)
ChiSquaredPars == {<<k>> : k \in {One, I(2), I(3), I(4), I(6), I(10), Half} \cup (IF Tier = 1 THEN {I(50)} ELSE {})}
ChiSquaredChecks(p) ==
    LET k == p[1]
        a == RMul(k, Half)
        xs == {RMul(I(2), y) : y \in ArgGrid}
        erl == a[2] = 1 /\ a[1] <= 5
    IN Generic(xs, ProbGrid) \o QuantileOfCdf(xs) \o Below({R(0 - 1, 2), I(0 - 4)})
       \o << Eq("Mean", M0("Mean"), k, "exact"), Eq("Variance", M0("Variance"), RMul(I(2), k), "ops"),
             Eq("StdDev^2", Sq(M0("StdDev")), RMul(I(2), k), "special"),
             Eq("ExKurtosis", M0("ExKurtosis"), RDiv(I(12), k), "ops"),
             Eq("Mode", M0("Mode"), IF RLt(I(2), k) THEN RSub(k, I(2)) ELSE Zero, "exact"),
             Eq("NumParameters", M0("NumParameters"), One, "exact"),
             Eq("CDF(0)", M1("CDF", XI(0)), Zero, "exact"), Eq("Survival(0)", M1("Survival", XI(0)), One, "exact") >>
       \o Checks(ArgGrid, LAMBDA y : LET x == RMul(I(2), y) IN
            << Eq("CDF(x)-Gamma(K/2,1/2).CDF(x)", Sub(M1("CDF", X(x)), OM1("distuv.Gamma", <<V(a), V(Half)>>, "CDF", X(x))), Zero, "special") >>
            \o (IF erl THEN
                 << Eq("Survival/exp(-x/2)", Div(M1("Survival", X(x)), Exp(X(RNeg(y)))), ErlangSum(a[1], y), "special"),
                    Eq("Prob/exp(-x/2)", Div(M1("Prob", X(x)), Exp(X(RNeg(y)))), RMul(Half, RDiv(RPow(y, a[1] - 1), I(Fact(a[1] - 1)))), "special") >>
                ELSE <<>>))

\* distuv.Chi{K}: X = sqrt(ChiSquared(K)); E[X^2] = K; density mode sqrt(K-1)
ChiPars == {<<k>> : k \in {One, I(2), I(3), I(4), I(5), I(6), I(10)}}
ChiChecks(p) ==
    LET k == p[1]
        a == RMul(k, Half)
        xs == {I(1), I(2), Half, R(3, 2), I(3)}
        erl == a[2] = 1 /\ a[1] <= 5
    IN Generic(xs, ProbGrid) \o QuantileOfCdf(xs) \o Below({R(0 - 1, 2), I(0 - 1), I(0 - 4)})
       \o << Eq("Mean^2+Variance", Add(Sq(M0("Mean")), M0("Variance")), k, "special"),
             Eq("StdDev^2-Variance", Sub(Sq(M0("StdDev")), M0("Variance")), Zero, "special"),
             Eq("Mode^2", Sq(M0("Mode")), RSub(k, One), "special"),
             Eq("NumParameters", M0("NumParameters"), One, "exact"),
             Eq("CDF(0)", M1("CDF", XI(0)), Zero, "exact"), Eq("Survival(0)", M1("Survival", XI(0)), One, "exact"),
             Eq("CDF(Median)", M1("CDF", M0("Median")), Half, "inverse") >>
       \o Checks(xs, LAMBDA x : LET y == RMul(RSq(x), Half) IN
            << Eq("CDF(x)-ChiSquared(K).CDF(x^2)", Sub(M1("CDF", X(x)), OM1("distuv.ChiSquared", <<V(k)>>, "CDF", X(RSq(x)))), Zero, "special") >>
            \o (IF erl THEN
                 << Eq("Survival/exp(-x^2/2)", Div(M1("Survival", X(x)), Exp(X(RNeg(y)))), ErlangSum(a[1], y), "special"),
                    \* density x^(K-1) exp(-x^2/2) / (2^(K/2-1) Gamma(K/2)) = x * y^(a-1)/(a-1)! * exp(-y)
                    Eq("Prob/exp(-x^2/2)", Div(M1("Prob", X(x)), Exp(X(RNeg(y)))), RMul(x, RDiv(RPow(y, a[1] - 1), I(Fact(a[1] - 1)))), "special") >>
                ELSE <<>>))

\* distuv.InverseGamma{Alpha, Beta}: 1/X ~ Gamma(Alpha, rate Beta); raw moments Beta^k / ((Alpha-1)..(Alpha-k))
InverseGammaPars == {<<a, b>> : a \in {One, I(2), I(3), I(5), I(6), R(5, 2), R(9, 2), Half}, b \in Rates}
InvGammaRaw(a, b, k) == RDiv(RPow(b, k), Falling(a, k))
InverseGammaChecks(p) ==
    LET a == p[1]
        b == p[2]
        xs == {RDiv(b, y) : y \in ArgGrid}
        erl == a[2] = 1 /\ a[1] <= 5
        \* Beta is a scale: moments of the law with Beta = 1, scaled
        m1 == InvGammaRaw(a, One, 1)
        m2 == InvGammaRaw(a, One, 2)
        m3 == InvGammaRaw(a, One, 3)
        m4 == InvGammaRaw(a, One, 4)
    IN Generic(xs, ProbGrid) \o QuantileOfCdf(xs) \o Below({R(0 - 1, 2), I(0 - 4)})
       \o << Eq("Mode", M0("Mode"), RDiv(b, RAdd(a, One)), "ops"),
             Eq("NumParameters", M0("NumParameters"), I(2), "exact"),
             Eq("Prob(0)", M1("Prob", XI(0)), Zero, "exact") >>
       \o (IF RLt(One, a) THEN << Eq("Mean", M0("Mean"), RMul(b, m1), "ops") >> ELSE << PInf("Mean:alpha<=1", M0("Mean")) >>)
       \o (IF RLt(I(2), a) THEN << Eq("Variance", M0("Variance"), RMul(RSq(b), VarRaw(m1, m2)), "ops"),
                                   Eq("StdDev^2", Sq(M0("StdDev")), RMul(RSq(b), VarRaw(m1, m2)), "special") >>
           ELSE IF RLt(One, a) THEN << PInf("Variance:1<alpha<=2", M0("Variance")) >> ELSE <<>>)
       \o (IF RLt(I(4), a) THEN << Eq("ExKurtosis", M0("ExKurtosis"), ExKurtRaw(m1, m2, m3, m4), "special") >> ELSE <<>>)
       \o Checks(ArgGrid, LAMBDA y : LET x == RDiv(b, y) IN
            << Eq("CDF(x)-Gamma(a,b).Survival(1/x)", Sub(M1("CDF", X(x)), OM1("distuv.Gamma", <<V(a), V(b)>>, "Survival", X(RInv(x)))), Zero, "special") >>
            \o (IF erl THEN
                 << Eq("CDF/exp(-b/x)", Div(M1("CDF", X(x)), Exp(X(RNeg(y)))), ErlangSum(a[1], y), "special"),
                    \* density b^a x^(-a-1) exp(-b/x) / Gamma(a) = y^(a+1) / (b (a-1)!) * exp(-y)
                    Eq("Prob/exp(-b/x)", Div(M1("Prob", X(x)), Exp(X(RNeg(y)))), RDiv(RPow(y, a[1] + 1), RMul(b, I(Fact(a[1] - 1)))), "special") >>
                ELSE <<>>))

(********************************* Weibull ***********************************)
\* distuv.Weibull{K, Lambda}: Survival(x) = exp(-(x/Lambda)^K).  K = 1/m: E[X^k] = Lambda^k (km)!
WeibullPars == {<<k, l>> : k \in {One, I(2), I(3), Half, R(1, 3)}, l \in {One, I(2), Half, I(3)} \cup {R((Salt % 5) + 1, 4)}}
WeibullArgs(k) == IF k[2] = 1 THEN {Half, One, R(3, 2), I(2)} ELSE IF k = Half THEN {R(1, 4), One, R(9, 4), I(4)} ELSE {R(1, 8), One, I(8)}
WeibullPow(r, k) == IF k[2] = 1 THEN RPow(r, k[1]) ELSE IF k = Half THEN RSqrt(r)
                    ELSE CHOOSE c \in {Half, One, I(2)} : RPow(c, 3) = r           \* cube roots of 1/8, 1, 8
WeibullChecks(p) ==
    LET k == p[1]
        l == p[2]
        rs == WeibullArgs(k)
        xs == {RMul(l, r) : r \in rs}
        m == k[2]                                       \* K = 1/m when k[1] = 1
    IN Generic(xs, ProbGrid) \o QuantileOfCdf(xs) \o Below({R(0 - 1, 2), I(0 - 4)})
       \o << Eq("NumParameters", M0("NumParameters"), I(2), "exact"),
             Eq("CDF(0)", M1("CDF", XI(0)), Zero, "exact"), Eq("Survival(0)", M1("Survival", XI(0)), One, "exact"),
             Eq("LogSurvival(0)", M1("LogSurvival", XI(0)), Zero, "exact"),
             Eq("LogSurvival:below-support", M1("LogSurvival", XI(0 - 1)), Zero, "exact"),
             Eq("Quantile(0)", M1("Quantile", XI(0)), Zero, "exact"), PInf("Quantile(1)", M1("Quantile", XI(1))),
             Eq("CDF(Median)", M1("CDF", M0("Median")), Half, "special") >>
       \o Checks(rs, LAMBDA r : LET x == RMul(l, r)
                                    y == WeibullPow(r, k) IN
            << Eq("LogSurvival", M1("LogSurvival", X(x)), RNeg(y), "special"),
               Eq("Survival/exp(-(x/L)^K)", Div(M1("Survival", X(x)), Exp(X(RNeg(y)))), One, "special"),
               Eq("CDF+exp(-(x/L)^K)", Add(M1("CDF", X(x)), Exp(X(RNeg(y)))), One, "special"),
               \* density (K/Lambda) (x/Lambda)^(K-1) exp(-(x/Lambda)^K) = K y / x * exp(-y)
               Eq("Prob/exp(-(x/L)^K)", Div(M1("Prob", X(x)), Exp(X(RNeg(y)))), RDiv(RMul(k, y), x), "special") >>)
       \o (IF k[1] = 1 THEN
             << Eq("Mean", M0("Mean"), RMul(l, I(Fact(m))), "special"),
                Eq("Variance", M0("Variance"), RMul(RSq(l), I(Fact(2 * m) - Fact(m) * Fact(m))), "special"),
                Eq("StdDev^2", Sq(M0("StdDev")), RMul(RSq(l), I(Fact(2 * m) - Fact(m) * Fact(m))), "special") >>
           ELSE <<>>)
       \o (IF k = One THEN << Eq("Mode:K=1", M0("Mode"), Zero, "exact"), Eq("Skewness:K=1", M0("Skewness"), I(2), "special"), Eq("ExKurtosis:K=1", M0("ExKurtosis"), I(6), "special"),
                              Eq("exp(Entropy-1):K=1", Exp(Sub(M0("Entropy"), XI(1))), l, "special") >> ELSE <<>>)
       \* LogProb at 0: documented special cases (K < 1: +Inf, K > 1: -Inf; K = 1: the density is 1/Lambda, the
       \* documentation says LogProb returns 0: asserted only where both agree)
       \o (IF RLt(k, One) THEN << PInf("LogProb(0):K<1", M1("LogProb", XI(0))) >>
           ELSE IF RLt(One, k) THEN << NInf("LogProb(0):K>1", M1("LogProb", XI(0))), Eq("Prob(0):K>1", M1("Prob", XI(0)), Zero, "exact") >>
           ELSE IF l = One THEN << Eq("Prob(0):K=1", M1("Prob", XI(0)), One, "exact") >> ELSE <<>>)
       \o (IF k = I(2) THEN << Eq("Mode^2:K=2", Sq(M0("Mode")), RMul(RSq(l), Half), "special") >> ELSE <<>>)

(************************** LogNormal, GumbelRight ****************************)
LogNormalPars == {<<m, s>> : m \in {Zero, One, R(0 - 1, 2), I(2)} \cup {R((Salt % 9) - 4, 4)}, s \in {One, Half, I(2), R(1, 4)}}
LogNormalChecks(p) ==
    LET m == p[1]
        s == p[2]
        xs == {Half, One, I(2), I(3), R(1, 8)}
    IN Generic(xs, ProbGrid) \o Below({R(0 - 1, 2), I(0 - 4)})
       \* the inverse identity is well conditioned only away from the far tails: arguments Median * r, |log r| <= 4.4 Sigma
       \o Checks({One, I(2), Half, R(3, 2), R(3, 4)}, LAMBDA r :
             << Eq("Quantile(CDF(x))/x", Div(M1("Quantile", M1("CDF", Mul(M0("Median"), X(r)))), Mul(M0("Median"), X(r))), One, "inverse") >>)
       \o << Eq("log(Median)", Log(M0("Median")), m, "special"),
             Eq("log(Mean)", Log(M0("Mean")), RAdd(m, RMul(Half, RSq(s))), "special"),
             Eq("log(Mode)", Log(M0("Mode")), RSub(m, RSq(s)), "special"),
             Eq("log(Variance/Mean^2+1)", Log(Add(Div(M0("Variance"), Sq(M0("Mean"))), XI(1))), RSq(s), "special"),
             Eq("StdDev^2/Variance", Div(Sq(M0("StdDev")), M0("Variance")), One, "special"),
             Eq("CDF(Median)", M1("CDF", M0("Median")), Half, "special"),
             Eq("Survival(Median)", M1("Survival", M0("Median")), Half, "special"),
             Eq("Quantile(1/2)/Median", Div(M1("Quantile", X(Half)), M0("Median")), One, "special"),
             Eq("NumParameters", M0("NumParameters"), I(2), "exact"),
             Eq("CDF(0)", M1("CDF", XI(0)), Zero, "exact"), Eq("Survival(0)", M1("Survival", XI(0)), One, "exact"),
             Eq("Prob(0)", M1("Prob", XI(0)), Zero, "exact"),
             Eq("Quantile(0)", M1("Quantile", XI(0)), Zero, "exact"), PInf("Quantile(1)", M1("Quantile", XI(1))) >>
       \o (IF m = Zero THEN
             << Eq("Median:Mu=0", M0("Median"), One, "ops"), Eq("CDF(1):Mu=0", M1("CDF", XI(1)), Half, "ops"),
                Eq("Quantile(1/2):Mu=0", M1("Quantile", X(Half)), One, "ops") >>
             \* log-symmetry about the median 1: CDF(r) + CDF(1/r) = 1, r Prob(r) = Prob(1/r)/r
             \o Checks({I(2), I(4), R(3, 2), I(8)}, LAMBDA r :
                  << Eq("CDF(r)+CDF(1/r):Mu=0", Add(M1("CDF", X(r)), M1("CDF", X(RInv(r)))), One, "special"),
                     Eq("r^2*Prob(r)/Prob(1/r):Mu=0", Div(Mul(X(RSq(r)), M1("Prob", X(r))), M1("Prob", X(RInv(r)))), One, "special") >>)
           ELSE <<>>)
       \* log density = const - log x - log Sigma - (log x - Mu)^2/(2 Sigma^2): at x = 1, LogProb(1; Mu) - LogProb(1; 0) = -Mu^2/(2 Sigma^2)
       \o << Eq("LogProb(1)-LogNormal(0,Sigma).LogProb(1)", Sub(M1("LogProb", XI(1)), OM1("distuv.LogNormal", <<V(Zero), V(s)>>, "LogProb", XI(1))),
                RNeg(RDiv(RSq(m), RMul(I(2), RSq(s)))), "special") >>

GumbelPars == {<<m, b>> : m \in Locs, b \in Scales}
GumbelChecks(p) ==
    LET m == p[1]
        b == p[2]
        zs == {Zero, One, R(0 - 1, 2), I(2), R(0 - 3, 2), Half}
        xs == {RAdd(m, RMul(b, z)) : z \in zs}
    IN Generic(xs, ProbGrid)
       \o Checks(zs, LAMBDA z : << Eq("Quantile(CDF(x))-Mu", Sub(M1("Quantile", M1("CDF", X(RAdd(m, RMul(b, z))))), X(m)), RMul(b, z), "inverse") >>)
       \o << Eq("Mode", M0("Mode"), m, "exact"), Eq("ExKurtosis", M0("ExKurtosis"), R(12, 5), "ops"),
             Eq("NumParameters", M0("NumParameters"), I(2), "exact"),
             Eq("Variance/StdDev^2", Div(M0("Variance"), Sq(M0("StdDev"))), One, "special"),
             Eq("CDF(Median)", M1("CDF", M0("Median")), Half, "special"),
             NInf("Quantile(0)", M1("Quantile", XI(0))), PInf("Quantile(1)", M1("Quantile", XI(1))),
             \* CDF = exp(-exp(-z)); density exp(-z - exp(-z))/Beta
             Eq("log(CDF(Mu))", Log(M1("CDF", X(m))), I(0 - 1), "special"),
             Eq("Prob(Mu)*e", Mul(M1("Prob", X(m)), Exp(XI(1))), RInv(b), "special"),
             \* Mean - Mu and Median - Mu are proportional to Beta (Euler's constant, log log 2)
             Eq("(Mean-Mu)/Beta:ratio", Div(Div(Sub(M0("Mean"), X(m)), X(b)), OM0("distuv.GumbelRight", <<V(Zero), V(One)>>, "Mean")), One, "special"),
             SignIs("Skewness>0", M0("Skewness"), 1) >>
       \o Checks(zs, LAMBDA z : LET x == RAdd(m, RMul(b, z)) IN
            << Eq("-log(CDF)/exp(-z)", Div(Neg(Log(M1("CDF", X(x)))), Exp(X(RNeg(z)))), One, "special"),
               Eq("LogProb+z+exp(-z)", Exp(Add(Add(M1("LogProb", X(x)), X(z)), Exp(X(RNeg(z))))), RInv(b), "special") >>)

(********************************* Poisson ***********************************)
PoissonPars == {<<l>> : l \in {Half, One, I(2), I(3), I(5), I(12), R(1, 4), I(20), R(7, 2)} \cup {R((Salt % 11) + 1, 2)}}
PoissonChecks(p) ==
    LET l == p[1]
        ks == 0 .. 8
        pmf(k) == RDiv(RPow(l, k), I(Fact(k)))             \* times exp(-lambda)
        cdf(k) == RSum([j \in 1 .. (k + 1) |-> pmf(j - 1)])
    IN << Eq("Mean", M0("Mean"), l, "exact"), Eq("Variance", M0("Variance"), l, "exact"),
          Eq("StdDev^2", Sq(M0("StdDev")), l, "special"), Eq("ExKurtosis", M0("ExKurtosis"), RInv(l), "ops"),
          Eq("Skewness^2", Sq(M0("Skewness")), RInv(l), "special"), SignIs("Skewness>0", M0("Skewness"), 1),
          Eq("NumParameters", M0("NumParameters"), One, "exact") >>
       \o Below({R(0 - 1, 2), I(0 - 1), I(0 - 4)})
       \o Flatten([i \in 1 .. 9 |-> LET k == i - 1
                                        fits == SatMul(SatMul(SatPow(Max2(l[1], l[2]), k), Fact(k)), 64) < Cap IN
            << Eq("Prob(k+1)/Prob(k)", Div(M1("Prob", XI(k + 1)), M1("Prob", XI(k))), RDiv(l, I(k + 1)), "special"),
               Eq("CDF(k)-CDF(k-1)-Prob(k)", Sub(Sub(M1("CDF", XI(k)), M1("CDF", XI(k - 1))), M1("Prob", XI(k))), Zero, "special"),
               Eq("CDF(k)+Survival(k)", Add(M1("CDF", XI(k)), M1("Survival", XI(k))), One, "special"),
               Eq("Prob(k)/exp(LogProb(k))", Div(M1("Prob", XI(k)), Exp(M1("LogProb", XI(k)))), One, "special"),
               \* between the atoms: the CDF is a step function, the mass is 0
               Eq("CDF(k+1/2)-CDF(k)", Sub(M1("CDF", X(R(2 * k + 1, 2))), M1("CDF", XI(k))), Zero, "exact"),
               Eq("Prob(k+1/2)", M1("Prob", X(R(2 * k + 1, 2))), Zero, "exact"),
               NInf("LogProb(k+1/2)", M1("LogProb", X(R(2 * k + 1, 2)))) >>
            \o (IF fits THEN
                  << Eq("Prob(k)/exp(-lambda)", Div(M1("Prob", XI(k)), Exp(X(RNeg(l)))), pmf(k), "special"),
                     Eq("CDF(k)/exp(-lambda)", Div(M1("CDF", XI(k)), Exp(X(RNeg(l)))), cdf(k), "special") >>
                ELSE <<>>)])

(************************* extreme magnitudes (exact scalings) *****************)
\* Scale parameters 2^e, |e| up to 300: every scale-equivariant quantity is the unit-scale rational times a power of
\* two, so the expected value is still exact.  p = <<e>> (an integer); the object's parameters are printed with the
\* binary exponent.
ExtPars == {<<I(e)>> : e \in {300, 0 - 300, 40, 0 - 40} \cup {100 + (Salt % 50), 0 - (100 + (Salt % 50))}}
ExtObj(l, e) == CASE l = "normal-x" -> << V(Zero), VE(One, e) >> [] l = "laplace-x" -> << V(Zero), VE(One, e) >>
                  [] l = "logistic-x" -> << V(Zero), VE(One, e) >> [] l = "studentst-x" -> << V(Zero), VE(One, e), V(One) >>
                  [] l = "exponential-x" -> << VE(One, e) >> [] l = "gamma-x" -> << V(I(3)), VE(One, e) >>
                  [] l = "pareto-x" -> << VE(One, e), V(I(3)) >> [] l = "weibull-x" -> << V(One), VE(One, e) >>
                  [] l = "uniform-x" -> << VE(I(0 - 1), e), VE(I(3), e) >>
ExtChecks(l, p) ==
    LET e == p[1][1]
        s(r) == XE(r, e)                                   \* r * 2^e
        si(r) == XE(r, 0 - e)                              \* r * 2^-e
        sym == << Eq("CDF(0)", M1("CDF", XI(0)), Half, "ops"), Eq("Quantile(1/2)", M1("Quantile", X(Half)), Zero, "ops"),
                  Eq("Mean", M0("Mean"), Zero, "exact") >>
                \o Checks({One, R(3, 2), R(1, 4)}, LAMBDA d :
                     << Eq("CDF(s d)+CDF(-s d)", Add(M1("CDF", s(d)), M1("CDF", s(RNeg(d)))), One, "special"),
                        Eq("CDF(s d)+Survival(s d)", Add(M1("CDF", s(d)), M1("Survival", s(d))), One, "special"),
                        EqE("Quantile(CDF(s d))", M1("Quantile", M1("CDF", s(d))), d, e, "inverse"),
                        Eq("Prob/exp(LogProb)", Div(M1("Prob", s(d)), Exp(M1("LogProb", s(d)))), One, "special") >>)
    IN CASE l = "normal-x" -> sym \o << EqE("Variance", M0("Variance"), One, 2 * e, "ops"), EqE("StdDev", M0("StdDev"), One, e, "exact") >>
         [] l = "laplace-x" -> sym \o << EqE("Variance", M0("Variance"), I(2), 2 * e, "ops"), EqE("Prob(0)", M1("Prob", XI(0)), Half, 0 - e, "special"),
                                         Eq("Survival(s d)/exp(-d)", Div(M1("Survival", s(I(2))), Exp(XI(0 - 2))), Half, "special") >>
         [] l = "logistic-x" -> << Eq("CDF(0)", M1("CDF", XI(0)), Half, "ops"), Eq("Quantile(1/2)", M1("Quantile", X(Half)), Zero, "ops"),
                                   EqE("Prob(0)", M1("Prob", XI(0)), R(1, 4), 0 - e, "special"),
                                   Eq("CDF(s d)*(1+exp(-d))", Mul(M1("CDF", s(I(2))), Add(XI(1), Exp(XI(0 - 2)))), One, "special"),
                                   EqE("Quantile(CDF(s d))", M1("Quantile", M1("CDF", s(I(2)))), I(2), e, "inverse") >>
         [] l = "studentst-x" -> << Eq("CDF(0)", M1("CDF", XI(0)), Half, "ops"), Eq("CDF(Sigma)", M1("CDF", s(One)), R(3, 4), "prob"),
                                    Eq("CDF(-Sigma)", M1("CDF", s(I(0 - 1))), R(1, 4), "prob"),
                                    EqE("Quantile(3/4)", M1("Quantile", X(R(3, 4))), One, e, "inverse"),
                                    Eq("Prob(Sigma)/Prob(0)", Div(M1("Prob", s(One)), M1("Prob", XI(0))), Half, "special") >>
         [] l = "exponential-x" -> << EqE("Mean", M0("Mean"), One, 0 - e, "ops"), EqE("Variance", M0("Variance"), One, 0 - 2 * e, "ops"),
                                      EqE("Prob(0)", M1("Prob", XI(0)), One, e, "special"),
                                      Eq("CDF(y/Rate)+exp(-y)", Add(M1("CDF", si(I(2))), Exp(XI(0 - 2))), One, "special"),
                                      Eq("Survival(y/Rate)/exp(-y)", Div(M1("Survival", si(R(1, 4))), Exp(X(R(0 - 1, 4)))), One, "special"),
                                      EqE("Quantile(CDF(x))", M1("Quantile", M1("CDF", si(I(2)))), I(2), 0 - e, "inverse"),
                                      EqE("Prob(x)/Survival(x)", Div(M1("Prob", si(I(2))), M1("Survival", si(I(2)))), One, e, "special") >>
         [] l = "gamma-x" -> << EqE("Mean", M0("Mean"), I(3), 0 - e, "ops"), EqE("Variance", M0("Variance"), I(3), 0 - 2 * e, "ops"),
                                EqE("Mode", M0("Mode"), I(2), 0 - e, "ops"),
                                \* Erlang(3): Q(3, y) = exp(-y) (1 + y + y^2/2)
                                Eq("Survival(y/b)/exp(-y)", Div(M1("Survival", si(I(2))), Exp(XI(0 - 2))), ErlangSum(3, I(2)), "special"),
                                EqE("Prob(y/b)/exp(-y)", Div(M1("Prob", si(I(2))), Exp(XI(0 - 2))), I(2), e, "special"),
                                EqE("Quantile(CDF(x))", M1("Quantile", M1("CDF", si(I(2)))), I(2), 0 - e, "inverse") >>
         [] l = "pareto-x" -> << EqE("Mean", M0("Mean"), R(3, 2), e, "ops"), EqE("Variance", M0("Variance"), R(3, 4), 2 * e, "ops"),
                                 EqE("Mode", M0("Mode"), One, e, "exact"),
                                 Eq("CDF(2 Xm)", M1("CDF", s(I(2))), R(7, 8), "prob"), Eq("Survival(2 Xm)", M1("Survival", s(I(2))), R(1, 8), "special"),
                                 EqE("Prob(2 Xm)", M1("Prob", s(I(2))), R(3, 16), 0 - e, "special"),
                                 EqE("Quantile(7/8)", M1("Quantile", X(R(7, 8))), I(2), e, "special"),
                                 Eq("CDF(Xm/2)", M1("CDF", s(Half)), Zero, "exact") >>
         [] l = "weibull-x" -> << EqE("Mean", M0("Mean"), One, e, "special"), EqE("Variance", M0("Variance"), One, 2 * e, "special"),
                                  Eq("LogSurvival(2 L)", M1("LogSurvival", s(I(2))), I(0 - 2), "special"),
                                  EqE("Prob(2 L)/exp(-2)", Div(M1("Prob", s(I(2))), Exp(XI(0 - 2))), One, 0 - e, "special"),
                                  EqE("Quantile(CDF(x))", M1("Quantile", M1("CDF", s(I(2)))), I(2), e, "inverse") >>
         [] l = "uniform-x" -> << EqE("Mean", M0("Mean"), One, e, "ops"), EqE("Variance", M0("Variance"), R(4, 3), 2 * e, "ops"),
                                  Eq("CDF(0)", M1("CDF", XI(0)), R(1, 4), "ops"), Eq("CDF(2 s)", M1("CDF", s(I(2))), R(3, 4), "ops"),
                                  EqE("Prob(0)", M1("Prob", XI(0)), R(1, 4), 0 - e, "ops"),
                                  EqE("Quantile(3/4)", M1("Quantile", X(R(3, 4))), I(2), e, "ops"),
                                  Eq("ExKurtosis", M0("ExKurtosis"), R(0 - 6, 5), "ops") >>
ExtLaws == {"normal-x", "laplace-x", "logistic-x", "studentst-x", "exponential-x", "gamma-x", "pareto-x", "weibull-x", "uniform-x"}

(****************************** the case space *******************************)
TypeOf(l) == CASE l = "normal-x" -> "distuv.Normal" [] l = "laplace-x" -> "distuv.Laplace" [] l = "logistic-x" -> "distuv.Logistic"
               [] l = "studentst-x" -> "distuv.StudentsT" [] l = "exponential-x" -> "distuv.Exponential" [] l = "gamma-x" -> "distuv.Gamma"
               [] l = "pareto-x" -> "distuv.Pareto" [] l = "weibull-x" -> "distuv.Weibull" [] l = "uniform-x" -> "distuv.Uniform"
               [] l = "beta" -> "distuv.Beta" [] l = "betabig" -> "distuv.Beta" [] l = "f" -> "distuv.F"
               [] l = "studentst" -> "distuv.StudentsT" [] l = "normal" -> "distuv.Normal" [] l = "laplace" -> "distuv.Laplace"
               [] l = "logistic" -> "distuv.Logistic" [] l = "pareto" -> "distuv.Pareto" [] l = "exponential" -> "distuv.Exponential"
               [] l = "gamma" -> "distuv.Gamma" [] l = "chisquared" -> "distuv.ChiSquared" [] l = "chi" -> "distuv.Chi"
               [] l = "inversegamma" -> "distuv.InverseGamma" [] l = "weibull" -> "distuv.Weibull"
               [] l = "lognormal" -> "distuv.LogNormal" [] l = "gumbel" -> "distuv.GumbelRight" [] l = "poisson" -> "distuv.Poisson"
PSet(l) == CASE l \in ExtLaws -> ExtPars [] l = "beta" -> BetaPars [] l = "betabig" -> BetaBigPars [] l = "f" -> FPars [] l = "studentst" -> TPars
             [] l = "normal" -> LocScalePars [] l = "laplace" -> LocScalePars [] l = "logistic" -> LocScalePars
             [] l = "pareto" -> ParetoPars [] l = "exponential" -> ExponentialPars [] l = "gamma" -> GammaPars
             [] l = "chisquared" -> ChiSquaredPars [] l = "chi" -> ChiPars [] l = "inversegamma" -> InverseGammaPars
             [] l = "weibull" -> WeibullPars [] l = "lognormal" -> LogNormalPars [] l = "gumbel" -> GumbelPars
             [] l = "poisson" -> PoissonPars
Thm(l, p) == CASE l = "beta" -> BetaThm(p) [] l = "f" -> FThm(p) [] l = "studentst" -> TThm(p) [] l = "pareto" -> ParetoThm(p)
               [] l = "gamma" -> GammaThm(p) [] OTHER -> TRUE
ChecksOf(l, p) == CASE l \in ExtLaws -> ExtChecks(l, p) [] l = "beta" -> BetaChecks(p) [] l = "betabig" -> BetaBigChecks(p) [] l = "f" -> FChecks(p)
                    [] l = "studentst" -> TChecks(p) [] l = "normal" -> NormalChecks(p) [] l = "laplace" -> LaplaceChecks(p)
                    [] l = "logistic" -> LogisticChecks(p) [] l = "pareto" -> ParetoChecks(p)
                    [] l = "exponential" -> ExponentialChecks(p) [] l = "gamma" -> GammaChecks(p)
                    [] l = "chisquared" -> ChiSquaredChecks(p) [] l = "chi" -> ChiChecks(p)
                    [] l = "inversegamma" -> InverseGammaChecks(p) [] l = "weibull" -> WeibullChecks(p)
                    [] l = "lognormal" -> LogNormalChecks(p) [] l = "gumbel" -> GumbelChecks(p) [] l = "poisson" -> PoissonChecks(p)
\* the object parameters as printed values, in the order of the Go struct's float64 fields
ObjPars(l, p) == IF l \in ExtLaws THEN ExtObj(l, p[1][1])
                 ELSE IF l \in {"beta", "betabig"} THEN << V(R(p[1][1], 2)), V(R(p[2][1], 2)) >>
                 ELSE [i \in DOMAIN p |-> V(p[i])]

Init == par \in UNION {{[law |-> l, p |-> q] : q \in PSet(l)} : l \in Laws}
Next == UNCHANGED par
Spec == Init /\ [][Next]_vars

Theorems == Thm(par.law, par.p)
EmitCase == Emit => PrintT(ToJson([obj |-> [t |-> TypeOf(par.law), p |-> ObjPars(par.law, par.p)],
                                   checks |-> ChecksOf(par.law, par.p)]))
=============================================================================
