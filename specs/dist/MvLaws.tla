------------------------------- MODULE MvLaws -------------------------------
(* The multivariate laws of stat/distmv where everything is rational:          *)
(*  Normal(mu, Sigma) and StudentsT(mu, Sigma, nu) with integer mu and          *)
(*  Sigma = L L^T for a small integer lower-triangular L (so the Cholesky       *)
(*  factor the code computes is L itself, exactly): Mean, CovarianceMatrix,    *)
(*  marginals (sub-vector / sub-matrix), conditionals (Schur complements with   *)
(*  exact rational inverses of the 1x1 / 2x2 observed block; for Student's t    *)
(*  nu' = nu + |observed| and the scale factor (nu + d^2)/(nu + |observed|)),   *)
(*  differences of log densities (the log-determinant cancels: a difference of  *)
(*  quadratic forms q(x) = |L^-1 (x - mu)|^2), ScoreInput = -Sigma^-1 (x - mu); *)
(*  Uniform on integer boxes; Dirichlet with integer alpha (Mean, covariance,   *)
(*  and the density itself: a multinomial coefficient times a monomial).        *)
(*                                                                            *)
(* R1 (Theorems): Sigma is symmetric with positive diagonal; Sigma^-1 from the  *)
(* two triangular solves really inverts Sigma (Sigma * ScoreInput = -(x-mu));   *)
(* the conditional covariance is symmetric with positive diagonal; tower        *)
(* property: conditioning on {i, j} at once (2x2 inverse) equals conditioning   *)
(* on i and then on j (two 1x1 inverses) -- mean and covariance; the marginal   *)
(* of a marginal is the marginal; Dirichlet means sum to 1, covariance rows     *)
(* sum to 0, the density of Dirichlet(1,..,1) is (n-1)!.                        *)
(* Kinds added later: normal-chol / normal-prec (the same table on objects     *)
(* built by NewNormalChol / NewNormalPrecision), wishart, eigen (dist-mv), and *)
(* rand, distance, which print cases in the expression-tree format of RatLib   *)
(* for the area dist-rat (seeded draws against marginal laws; the statistical  *)
(* distances of distmv); each section states what it derives.                  *)
(* R2 (EmitCase): the table of each case for the harness area dist-mv:          *)
(*   [op, i (index list), x, y (rational vectors), v (rational vector result),  *)
(*    m (rational matrix result), r (rational scalar), tol]                     *)
EXTENDS RatLib, Json

CONSTANTS Kind,    \* "normal" | "studentst" | "uniform" | "dirichlet"
          Tier, Salt, Emit

VARIABLE par
vars == <<par>>

(***************************** rational linear algebra ***********************)
Dim(M) == Len(M)
RVec(v) == [i \in DOMAIN v |-> I(v[i])]                       \* integer vector -> rational vector
VSub(u, v) == [i \in DOMAIN u |-> RSub(u[i], v[i])]
VAdd(u, v) == [i \in DOMAIN u |-> RAdd(u[i], v[i])]
VNeg(u) == [i \in DOMAIN u |-> RNeg(u[i])]
Dot(u, v) == RSum([i \in DOMAIN u |-> RMul(u[i], v[i])])
MatVec(M, v) == [i \in DOMAIN M |-> Dot(M[i], v)]
Transpose(M) == [j \in 1 .. Len(M[1]) |-> [i \in DOMAIN M |-> M[i][j]]]
MatMul(A, B) == [i \in DOMAIN A |-> [j \in 1 .. Len(B[1]) |-> Dot(A[i], [k \in DOMAIN B |-> B[k][j]])]]
MatSub(A, B) == [i \in DOMAIN A |-> [j \in DOMAIN A[i] |-> RSub(A[i][j], B[i][j])]]
MatScale(c, A) == [i \in DOMAIN A |-> [j \in DOMAIN A[i] |-> RMul(c, A[i][j])]]
Block(M, rows, cols) == [i \in DOMAIN rows |-> [j \in DOMAIN cols |-> M[rows[i]][cols[j]]]]
Pick(v, idx) == [i \in DOMAIN idx |-> v[idx[i]]]
\* inverse of a 1x1 or 2x2 rational matrix
Inv12(M) == IF Len(M) = 1 THEN << << RInv(M[1][1]) >> >>
            ELSE LET det == RSub(RMul(M[1][1], M[2][2]), RMul(M[1][2], M[2][1]))
                 IN << << RDiv(M[2][2], det), RNeg(RDiv(M[1][2], det)) >>,
                       << RNeg(RDiv(M[2][1], det)), RDiv(M[1][1], det) >> >>
\* L w = v (L lower triangular, rational entries)
RECURSIVE Fwd(_, _, _)
Fwd(L, v, i) == IF i = 0 THEN <<>>
                ELSE LET w == Fwd(L, v, i - 1)
                     IN Append(w, RDiv(RSub(v[i], RSum([j \in 1 .. (i - 1) |-> RMul(L[i][j], w[j])])), L[i][i]))
FwdSolve(L, v) == Fwd(L, v, Len(v))
\* L^T z = w : z_i from the last to the first; built as a function over i .. n
RECURSIVE Bwd(_, _, _)
Bwd(L, w, i) == LET n == Len(w) IN
                IF i > n THEN [k \in {} |-> Zero]
                ELSE LET z == Bwd(L, w, i + 1)
                         zi == RDiv(RSub(w[i], RSum([j \in 1 .. (n - i) |-> RMul(L[i + j][i], z[i + j])])), L[i][i])
                     IN [k \in i .. n |-> IF k = i THEN zi ELSE z[k]]
BwdSolve(L, w) == LET z == Bwd(L, w, 1) IN [i \in 1 .. Len(w) |-> z[i]]
SigmaInvVec(L, v) == BwdSolve(L, FwdSolve(L, v))                 \* Sigma^-1 v, Sigma = L L^T
Quad(L, d) == LET w == FwdSolve(L, d) IN Dot(w, w)                \* d^T Sigma^-1 d
IsSym(M) == \A i, j \in DOMAIN M : M[i][j] = M[j][i]
Others(n, idx) == LET RECURSIVE Go(_)
                      Go(k) == IF k > n THEN <<>> ELSE (IF \E t \in DOMAIN idx : idx[t] = k THEN <<>> ELSE <<k>>) \o Go(k + 1)
                  IN Go(1)

\* conditional law of the unobserved coordinates given x[obs] = vals:  <<mean, covariance, d^2>>
Cond(mu, S, obs, vals) ==
    LET un == Others(Len(mu), obs)
        S11 == Block(S, un, un)
        S12 == Block(S, un, obs)
        S22i == Inv12(Block(S, obs, obs))
        dv == VSub(vals, Pick(mu, obs))
        K == MatMul(S12, S22i)
    IN << VAdd(Pick(mu, un), MatVec(K, dv)), MatSub(S11, MatMul(K, Transpose(S12))), Dot(dv, MatVec(S22i, dv)) >>

(********************************* the cases *********************************)
\* lower-triangular integer factors
Offs == {0 - 1, 0, 2}
Diags == {1, 2, 3}
L2s == {<< <<a, 0>>, <<b, c>> >> : a \in Diags, b \in Offs \cup {1}, c \in Diags}
L3s == {<< <<a, 0, 0>>, <<b, c, 0>>, <<d, e, f>> >> : a \in {1, 2}, b \in Offs, c \in {1, 3}, d \in Offs, e \in Offs, f \in {1, 2}}
LIndex(L) == ISum([i \in DOMAIN L |-> ISum([j \in DOMAIN L |-> (i * 5 + j * 3) * (L[i][j] + 2)])])
Keep3(L) == Tier = 1 \/ (LIndex(L) + Salt) % 4 = 0
Ls == L2s \cup {L \in L3s : Keep3(L)}
IntMat(M) == [i \in DOMAIN M |-> [j \in DOMAIN M |-> M[i][j][1]]]
SeqOfQ == << I(0 - 2), I(0 - 1), R(0 - 1, 2), Zero, Half, One, I(2) >>
RatM(L) == [i \in DOMAIN L |-> [j \in DOMAIN L |-> I(L[i][j])]]
SigmaOf(L) == MatMul(RatM(L), Transpose(RatM(L)))
MuOf(L) == [i \in DOMAIN L |-> ((LIndex(L) + Salt + 3 * i) % 7) - 3]
Pts(n) == IF n = 2 THEN { <<0, 0>>, <<1, 0 - 2>>, <<3, 1>>, <<0 - 2, 5>> }
          ELSE { <<0, 0, 0>>, <<1, 0 - 2, 2>>, <<3, 1, 0 - 1>>, <<0 - 2, 5, 4>> }
ObsSets(n) == IF n = 2 THEN { <<1>>, <<2>> } ELSE { <<1>>, <<2>>, <<3>>, <<1, 2>>, <<1, 3>>, <<2, 3>>, <<3, 1>> }
VarSets(n) == IF n = 2 THEN { <<1>>, <<2>>, <<2, 1>> } ELSE { <<1>>, <<3>>, <<1, 2>>, <<3, 1>>, <<2, 3>>, <<3, 2, 1>> }
ValsFor(obs) == [i \in DOMAIN obs |-> R(2 * obs[i] - 3 + (Salt % 3), i)]

SeqOf(S) == LET RECURSIVE Enum(_)
                Enum(T) == IF T = {} THEN <<>> ELSE LET x == CHOOSE y \in T : TRUE IN <<x>> \o Enum(T \ {x})
            IN Enum(S)
Checks(S, F(_)) == LET s == SeqOf(S) IN Flatten([i \in 1 .. Len(s) |-> F(s[i])])

NoV == <<>>
NoM == <<>>
Ck(op, idx, x, y, v, m, r, tol) == [op |-> op, i |-> idx, x |-> [k \in DOMAIN x |-> V(x[k])], y |-> [k \in DOMAIN y |-> V(y[k])],
                                    v |-> [k \in DOMAIN v |-> V(v[k])], m |-> [a \in DOMAIN m |-> [b \in DOMAIN m[a] |-> V(m[a][b])]],
                                    r |-> V(r), tol |-> tol]
Idx0(idx) == [k \in DOMAIN idx |-> idx[k] - 1]                    \* code indices

\* Dim; entropy n/2 (1 + log 2 pi) + log det L: Entropy + LogProb(mu) = n/2 and exp(Entropy - Entropy of the standard normal
\* law of the same dimension) = det L; Prob - exp(LogProb) = 0 (relative to Prob; both may underflow to 0); TransformNormal(z) = mu + L z (exact on integer z; into nil, into
\* a destination and in place); Quantile(1/2, .., 1/2) = mu, Quantile(p) = TransformNormal of the standard normal quantiles of p,
\* documented panic for p outside [0, 1]; SetMean(m) moves the law: LogProb(x) - LogProb(m) = -q(x - m)/2 afterwards
DetL(L) == RProd([i \in DOMAIN L |-> I(L[i][i])])
LVec(L, z) == [i \in DOMAIN L |-> RSum([j \in DOMAIN L |-> RMul(I(L[i][j]), z[j])])]
NormalMore(L) ==
    LET LR == RatM(L)
        mu == RVec(MuOf(L))
        n == Len(L)
        halves == [i \in 1 .. n |-> Half]
    IN << Ck("Dim", <<>>, NoV, NoV, NoV, NoM, I(n), "exact"),
          Ck("EntropyPlusLogProbMean", <<>>, NoV, NoV, NoV, NoM, R(n, 2), "special"),
          Ck("ExpEntropyVsUnit", <<>>, NoV, NoV, NoV, NoM, DetL(L), "special"),
          Ck("Quantile", <<>>, halves, NoV, mu, NoM, Zero, "ops"),
          Ck("QuantilePanics", <<>>, [i \in 1 .. n |-> IF i = n THEN R(9, 8) ELSE Half], NoV, NoV, NoM, Zero, "exact"),
          Ck("QuantilePanics", <<>>, [i \in 1 .. n |-> IF i = 1 THEN R(0 - 1, 8) ELSE Half], NoV, NoV, NoM, Zero, "exact") >>
       \o Checks({[i \in 1 .. n |-> R(1 + ((3 * i + k) % 7), 8)] : k \in 0 .. 2}, LAMBDA q :
            << Ck("QuantileIsTransform", <<>>, q, NoV, NoV, NoM, Zero, "special") >>)
       \o Checks(Pts(n), LAMBDA z :
            << Ck("TransformNormal", <<>>, RVec(z), NoV, VAdd(mu, LVec(L, RVec(z))), NoM, Zero, "ops"),
               Ck("ProbMinusExpLogProb", <<>>, RVec(z), NoV, NoV, NoM, Zero, "special") >>)
       \* samplemv.ProposalNormal with this covariance: log p(x | y) - log p(y | y) = -q(x - y)/2, and p(x | y) = p(y | x)
       \o Checks({<<y, x>> \in Pts(n) \X Pts(n) : y # x}, LAMBDA yx :
            << Ck("ProposalLogProbDiff", <<>>, RVec(yx[2]), RVec(yx[1]), NoV, NoM,
                  RNeg(RMul(Half, Quad(LR, VSub(RVec(yx[2]), RVec(yx[1]))))), "special") >>)
       \o Checks({<<m, x>> \in Pts(n) \X Pts(n) : m # x}, LAMBDA mx :
            << Ck("SetMeanLogProbDiff", <<>>, RVec(mx[1]), RVec(mx[2]), RVec(mx[1]), NoM,
                  RNeg(RMul(Half, Quad(LR, VSub(RVec(mx[2]), RVec(mx[1]))))), "special") >>)
\* the three constructions of one law: NewNormal(mu, Sigma), NewNormalChol(mu, chol(Sigma)), NewNormalPrecision(mu, Sigma^-1);
\* the precision matrix is an integer matrix when L has a unit diagonal
UnitDiag(L) == \A i \in DOMAIN L : L[i][i] = 1
UnitVecR(n, j) == [i \in 1 .. n |-> IF i = j THEN One ELSE Zero]
PrecOf(L) == LET n == Len(L)
                 cols == [j \in 1 .. n |-> SigmaInvVec(RatM(L), UnitVecR(n, j))]
             IN [i \in 1 .. n |-> [j \in 1 .. n |-> cols[j][i]]]
PrecThm(L) == LET P == PrecOf(L) IN
              /\ \A i, j \in DOMAIN L : P[i][j][2] = 1                         \* integer entries
              /\ IsSym(P)
              /\ MatMul(P, SigmaOf(L)) = [i \in DOMAIN L |-> UnitVecR(Len(L), i)]
Retol(cs) == [i \in DOMAIN cs |-> IF cs[i].tol = "ops" THEN [cs[i] EXCEPT !.tol = "special"] ELSE cs[i]]

NormalThm(L) ==
    LET S == SigmaOf(L)
        mu == RVec(MuOf(L))
        n == Len(L)
    IN /\ IsSym(S) /\ \A i \in 1 .. n : RLt(Zero, S[i][i])
       /\ \A x \in Pts(n) : LET d == VSub(RVec(x), mu) IN
            /\ MatVec(S, SigmaInvVec(RatM(L), d)) = d
            /\ Quad(RatM(L), d) = Dot(d, SigmaInvVec(RatM(L), d))
       /\ \A obs \in ObsSets(n) : LET c == Cond(mu, S, obs, ValsFor(obs)) IN
            /\ IsSym(c[2]) /\ \A i \in DOMAIN c[2] : RLt(Zero, c[2][i][i])
            /\ RLeq(Zero, c[3])
       \* tower property: condition on <<i, j>> = condition on i, then on (the shifted) j
       /\ n = 3 => \A obs \in {<<1, 2>>, <<1, 3>>, <<2, 3>>} :
            LET both == Cond(mu, S, obs, ValsFor(obs))
                first == Cond(mu, S, <<obs[1]>>, <<ValsFor(obs)[1]>>)
                \* after removing coordinate obs[1], coordinate obs[2] has index obs[2] - 1
                second == Cond(first[1], first[2], <<obs[2] - 1>>, <<ValsFor(obs)[2]>>)
            IN both[1] = second[1] /\ both[2] = second[2]
NormalChecks(L) ==
    LET S == SigmaOf(L)
        LR == RatM(L)
        mu == RVec(MuOf(L))
        n == Len(L)
    IN << Ck("Mean", <<>>, NoV, NoV, mu, NoM, Zero, "exact"), Ck("Cov", <<>>, NoV, NoV, NoV, S, Zero, "ops") >>
       \o Checks(VarSets(n), LAMBDA vs : << Ck("Marginal", Idx0(vs), NoV, NoV, Pick(mu, vs), Block(S, vs, vs), Zero, "ops") >>)
       \o Flatten([i \in 1 .. n |-> << Ck("MarginalSingle", <<i - 1>>, NoV, NoV, <<mu[i]>>, NoM, S[i][i], "ops") >>])
       \o Checks(ObsSets(n), LAMBDA obs : LET c == Cond(mu, S, obs, ValsFor(obs)) IN
            << Ck("Condition", Idx0(obs), ValsFor(obs), NoV, c[1], c[2], Zero, "special") >>)
       \o Checks(Pts(n), LAMBDA x : LET d == VSub(RVec(x), mu) IN
            << Ck("ScoreInput", <<>>, RVec(x), NoV, VNeg(SigmaInvVec(LR, d)), NoM, Zero, "special"),
               \* LogProb(x) - LogProb(mu) = -q(x)/2
               Ck("LogProbDiff", <<>>, RVec(x), mu, NoV, NoM, RNeg(RMul(Half, Quad(LR, d))), "special") >>)
       \o Checks({<<x, y>> \in Pts(n) \X Pts(n) : x # y}, LAMBDA xy :
            << Ck("LogProbDiff", <<>>, RVec(xy[1]), RVec(xy[2]), NoV, NoM,
                  RMul(Half, RSub(Quad(LR, VSub(RVec(xy[2]), mu)), Quad(LR, VSub(RVec(xy[1]), mu)))), "special"),
               \* the package-level NormalLogProb(x, mu, chol) is the same function
               Ck("NormalLogProbDiff", <<>>, RVec(xy[1]), RVec(xy[2]), NoV, NoM,
                  RMul(Half, RSub(Quad(LR, VSub(RVec(xy[2]), mu)), Quad(LR, VSub(RVec(xy[1]), mu)))), "special") >>)
       \o NormalMore(L)

\* Student's t: nu integer > 2
NuOf(L) == 3 + ((LIndex(L) + Salt) % 4)
TChecks(L) ==
    LET S == SigmaOf(L)
        LR == RatM(L)
        mu == RVec(MuOf(L))
        n == Len(L)
        nu == NuOf(L)
    IN << Ck("Mean", <<>>, NoV, NoV, mu, NoM, Zero, "exact"), Ck("Cov", <<>>, NoV, NoV, NoV, MatScale(R(nu, nu - 2), S), Zero, "ops"),
          Ck("Nu", <<>>, NoV, NoV, NoV, NoM, I(nu), "exact"), Ck("Dim", <<>>, NoV, NoV, NoV, NoM, I(n), "exact") >>
       \o Checks(VarSets(n), LAMBDA vs : << Ck("Marginal", Idx0(vs), NoV, NoV, Pick(mu, vs), MatScale(R(nu, nu - 2), Block(S, vs, vs)), I(nu), "ops") >>)
       \o Flatten([i \in 1 .. n |-> << Ck("MarginalSingle", <<i - 1>>, NoV, NoV, <<mu[i]>>, NoM, S[i][i], "ops") >>])
       \* conditional: nu' = nu + |obs|, Sigma' = (nu + d^2)/(nu + |obs|) * Schur complement; covariance nu'/(nu'-2) Sigma'
       \o Checks(ObsSets(n), LAMBDA obs : LET c == Cond(mu, S, obs, ValsFor(obs))
                                              nu2 == nu + Len(obs)
                                              sc == RMul(RDiv(RAdd(I(nu), c[3]), I(nu2)), R(nu2, nu2 - 2)) IN
            << Ck("Condition", Idx0(obs), ValsFor(obs), NoV, c[1], MatScale(sc, c[2]), I(nu2), "special") >>)
       \* (Prob(x)/Prob(y))^2 = ((1 + q(y)/nu) / (1 + q(x)/nu))^(nu + n)
       \o Checks({<<x, y>> \in Pts(n) \X Pts(n) : x # y}, LAMBDA xy :
            LET qx == Quad(LR, VSub(RVec(xy[1]), mu))
                qy == Quad(LR, VSub(RVec(xy[2]), mu))
                base == RDiv(RAdd(One, RDiv(qy, I(nu))), RAdd(One, RDiv(qx, I(nu))))
            IN IF SatPow(Max2(base[1], base[2]), nu + n) < Cap
               THEN << Ck("ProbRatioSq", <<>>, RVec(xy[1]), RVec(xy[2]), NoV, NoM, RPow(base, nu + n), "special") >>
               ELSE <<>>)

\* Uniform on an integer box
Boxes == { << <<0, 1>> >>, << <<0 - 2, 2>> >>, << <<0, 1>>, <<0, 1>> >>, << <<0 - 1, 3>>, <<2, 4>> >>, << <<0, 2>>, <<0 - 3, 0 - 1>>, <<5, 9>> >>,
           << <<(Salt % 5) - 2, (Salt % 5) + 1>>, <<0, 8>> >> }
Vol(b) == RProd([i \in DOMAIN b |-> I(b[i][2] - b[i][1])])
Clip(x, lo, hi) == IF RLt(x, I(lo)) THEN Zero ELSE IF RLt(I(hi), x) THEN One ELSE RDiv(RSub(x, I(lo)), I(hi - lo))
UniformChecks(b) ==
    LET n == Len(b)
        inside == {[i \in 1 .. n |-> RAdd(I(b[i][1]), RMul(t, I(b[i][2] - b[i][1])))] : t \in {R(1, 4), Half, R(7, 8)}}
        mixed == {[i \in 1 .. n |-> RAdd(I(b[i][1]), RMul(RAdd(t, I(i - 1)), I(b[i][2] - b[i][1])))] : t \in {R(1, 4), R(0 - 1, 2)}}
                 \cup {[i \in 1 .. n |-> I(b[i][1] - 1)], [i \in 1 .. n |-> I(b[i][2] + 1)]}
        IsIn(x) == \A i \in 1 .. n : RLeq(I(b[i][1]), x[i]) /\ RLeq(x[i], I(b[i][2]))
    IN << Ck("Mean", <<>>, NoV, NoV, [i \in 1 .. n |-> R(b[i][1] + b[i][2], 2)], NoM, Zero, "ops"),
          Ck("ExpEntropy", <<>>, NoV, NoV, NoV, NoM, Vol(b), "special"),
          Ck("CDF", <<>>, [i \in 1 .. n |-> I(b[i][1])], NoV, [i \in 1 .. n |-> Zero], NoM, Zero, "exact"),
          Ck("CDF", <<>>, [i \in 1 .. n |-> I(b[i][2])], NoV, [i \in 1 .. n |-> One], NoM, Zero, "exact") >>
       \o Checks(inside \cup mixed, LAMBDA x :
            << Ck("CDF", <<>>, x, NoV, [i \in 1 .. n |-> Clip(x[i], b[i][1], b[i][2])], NoM, Zero, "ops") >>
            \o (IF \A i \in 1 .. n : RLt(I(b[i][1]), x[i]) /\ RLt(x[i], I(b[i][2]))
                THEN << Ck("Prob", <<>>, x, NoV, NoV, NoM, RInv(Vol(b)), "special") >>
                ELSE IF ~IsIn(x) THEN << Ck("Prob", <<>>, x, NoV, NoV, NoM, Zero, "exact"), Ck("LogProbNInf", <<>>, x, NoV, NoV, NoM, Zero, "exact") >>
                ELSE <<>>))
       \o Checks({Zero, R(1, 4), Half, R(7, 8), One}, LAMBDA q :
            << Ck("Quantile", <<>>, [i \in 1 .. n |-> q], NoV, [i \in 1 .. n |-> RAdd(I(b[i][1]), RMul(q, I(b[i][2] - b[i][1])))], NoM, Zero, "ops") >>)
       \o << Ck("QuantilePanics", <<>>, [i \in 1 .. n |-> IF i = n THEN R(9, 8) ELSE Half], NoV, NoV, NoM, Zero, "exact"),
             Ck("QuantilePanics", <<>>, [i \in 1 .. n |-> IF i = 1 THEN R(0 - 1, 8) ELSE Half], NoV, NoV, NoM, Zero, "exact") >>

\* Dirichlet with integer alpha
Alphas == { <<1, 1>>, <<2, 3>>, <<1, 1, 1>>, <<2, 1, 4>>, <<3, 3, 2>>, <<1, 2, 3, 4>>, <<5, 1, 1, 2>>, <<(Salt % 4) + 1, 2, (Salt % 3) + 1>> }
SimplexPts(n) == IF n = 2 THEN { <<R(1, 4), R(3, 4)>>, <<Half, Half>>, <<R(2, 3), R(1, 3)>> }
                 ELSE IF n = 3 THEN { <<R(1, 4), R(1, 4), Half>>, <<R(1, 3), R(1, 3), R(1, 3)>>, <<R(1, 2), R(1, 8), R(3, 8)>> }
                 ELSE { <<R(1, 4), R(1, 4), R(1, 4), R(1, 4)>>, <<R(1, 2), R(1, 8), R(1, 8), R(1, 4)>>, <<R(1, 10), R(2, 10), R(3, 10), R(4, 10)>> }
DirMean(al) == LET a0 == ISum(al) IN [i \in DOMAIN al |-> R(al[i], a0)]
DirCov(al) == LET a0 == ISum(al) IN
              [i \in DOMAIN al |-> [j \in DOMAIN al |-> IF i = j THEN R(al[i] * (a0 - al[i]), a0 * a0 * (a0 + 1))
                                                         ELSE R(0 - (al[i] * al[j]), a0 * a0 * (a0 + 1))]]
\* density: Gamma(a0) / Prod Gamma(a_i) * Prod x_i^(a_i - 1)  =  (a0-1)! / Prod (a_i-1)! * monomial
RECURSIVE ProdFact(_, _)
ProdFact(al, k) == IF k = 0 THEN 1 ELSE Fact(al[k] - 1) * ProdFact(al, k - 1)
DirCoef(al) == RDiv(I(Fact(ISum(al) - 1)), I(ProdFact(al, Len(al))))
DirPdf(al, x) == RMul(DirCoef(al), RProd([i \in DOMAIN al |-> RPow(x[i], al[i] - 1)]))
DirichletThm(al) ==
    /\ RSum(DirMean(al)) = One
    /\ \A i \in DOMAIN al : RSum(DirCov(al)[i]) = Zero
    /\ (\A i \in DOMAIN al : al[i] = 1) => \A x \in SimplexPts(Len(al)) : DirPdf(al, x) = I(Fact(Len(al) - 1))
    /\ \A x \in SimplexPts(Len(al)) : RSum(x) = One
DirichletChecks(al) ==
    LET n == Len(al) IN
    << Ck("Mean", <<>>, NoV, NoV, DirMean(al), NoM, Zero, "ops"), Ck("Cov", <<>>, NoV, NoV, NoV, DirCov(al), Zero, "ops") >>
    \o Checks(SimplexPts(n), LAMBDA x : << Ck("Prob", <<>>, x, NoV, NoV, NoM, DirPdf(al, x), "special"),
                                           Ck("ExpLogProb", <<>>, x, NoV, NoV, NoM, DirPdf(al, x), "special") >>)
    \o << Ck("NewPanics", <<>>, [i \in 1 .. n |-> IF i = n THEN Zero ELSE I(al[i])], NoV, NoV, NoM, Zero, "exact"),
          Ck("NewPanics", <<>>, [i \in 1 .. n |-> IF i = 1 THEN R(0 - 1, 2) ELSE I(al[i])], NoV, NoV, NoM, Zero, "exact") >>

(***************************** Wishart (distmat) ******************************)
\* Wishart(V, nu), V = L L^T (d = 2), log p(X) = (nu-d-1)/2 log|X| - tr(V^-1 X)/2 - const: a difference of log densities is
\* rational when nu = d + 1 or |X| = |Y|.  d = 1, nu = 2k: the Gamma(k, rate 1/(2v)) density, p(x)/exp(-x/(2v)) rational.
ColOf(M, j) == [i \in DOMAIN M |-> M[i][j]]
TrInv(L, Xm) == RSum([j \in DOMAIN Xm |-> SigmaInvVec(RatM(L), ColOf(Xm, j))[j]])      \* tr((L L^T)^-1 Xm)
WMs == {<< <<a, 0>>, <<b, c>> >> : a \in {1, 2}, b \in {0 - 1, 0, 1}, c \in {1, 2}}
FlatM(M) == Flatten([i \in DOMAIN M |-> M[i]])
WishartPars == {<<L, nu>> : L \in {<< <<1, 0>>, <<0, 1>> >>, << <<2, 0>>, <<1, 1>> >>, << <<1, 0>>, <<0 - 1, 3>> >>}, nu \in {3, 5, 2}}
               \cup {<< << <<v>> >>, nu >> : v \in {1, 2, 3}, nu \in {2, 4, 6}}
WishartChecks(wp) ==
    LET L == wp[1]
        nu == wp[2]
        d == Len(L)
        Xs == {SigmaOf(M) : M \in WMs}
        Det(M) == RSub(RMul(M[1][1], M[2][2]), RMul(M[1][2], M[2][1]))
    IN IF d = 2
       THEN Checks({<<Xm, Y>> \in Xs \X Xs : Xm # Y /\ (nu = 3 \/ Det(Xm) = Det(Y))}, LAMBDA xy :
              << Ck("WishartLogProbDiff", <<>>, FlatM(xy[1]), FlatM(xy[2]), NoV, NoM,
                    RMul(Half, RSub(TrInv(L, xy[2]), TrInv(L, xy[1]))), "special") >>)
            \o Checks(Xs, LAMBDA Xm : << Ck("WishartProbMinusExp", <<>>, FlatM(Xm), NoV, NoV, NoM, Zero, "special") >>)
            \* not positive definite: probability 0, log probability -Inf (documented)
            \o << Ck("WishartNotPD", <<>>, << I(1), I(2), I(2), I(1) >>, NoV, NoV, NoM, Zero, "exact"),
                  Ck("WishartNotPD", <<>>, << I(1), I(1), I(1), I(1) >>, NoV, NoV, NoM, Zero, "exact"),
                  Ck("WishartNotPD", <<>>, << I(0 - 1), I(0), I(0), I(2) >>, NoV, NoV, NoM, Zero, "exact"),
                  Ck("WishartMean", <<>>, NoV, NoV, NoV, MatScale(I(nu), SigmaOf(L)), Zero, "ops") >>
       ELSE LET v == L[1][1] * L[1][1]
                k == nu \div 2
            IN Checks({One, I(2), Half, I(5), R(3, 2)}, LAMBDA x :
                 << Ck("WishartProb1", <<>>, <<x>>, << RNeg(RDiv(x, I(2 * v))) >>, NoV, NoM,
                       RDiv(RPow(x, k - 1), RMul(RPow(I(2 * v), k), I(Fact(k - 1)))), "special"),
                    Ck("WishartProbMinusExp", <<>>, <<x>>, NoV, NoV, NoM, Zero, "special") >>)
               \o << Ck("WishartNotPD", <<>>, << I(0 - 1) >>, NoV, NoV, NoM, Zero, "exact"), Ck("WishartNotPD", <<>>, << Zero >>, NoV, NoV, NoM, Zero, "exact") >>
WishartThm(wp) ==
    LET L == wp[1] IN
    Len(L) = 2 => \A M \in WMs : LET Xm == SigmaOf(M) IN
                    /\ IsSym(Xm) /\ RLt(Zero, RSub(RMul(Xm[1][1], Xm[2][2]), RMul(Xm[1][2], Xm[2][1])))
                    /\ RLt(Zero, TrInv(L, Xm))                                  \* trace of a product of two SPD matrices
                    \* V^-1 V has trace d
                    /\ TrInv(L, SigmaOf(L)) = I(2)

(***************** PositivePartEigenSym and NormalRandCov over an eigendecomposition ******************)
\* M = [[p, q], [q, p]] has the eigenvalues p - q and p + q with eigenvectors (1, -1) and (1, 1).  PositivePartEigenSym
\* reports the eigenvalues in ascending order with the negative ones replaced by zero and otherwise the wrapped
\* decomposition (At = the entries of M).  NormalRandCov panics on an EigenSym with a negative eigenvalue (documented) and
\* accepts its positive part; a zero eigenvalue confines the draws to the hyperplane c . (x - mean) = 0, c its eigenvector.
EigenPars == {<<p, q>> : p \in {2, 1, 0, 0 - 1}, q \in {1, 0 - 2, 3}} \cup {<<3, 1>>, <<5, 0 - 2>>}
EigenChecks(pq) ==
    LET p == pq[1]
        q == pq[2]
        lo == Min2(p - q, p + q)
        hi == Max2(p - q, p + q)
        M == << <<I(p), I(q)>>, <<I(q), I(p)>> >>
        mean == <<I(3), I(0 - 1)>>
        c == IF p - q <= p + q THEN <<One, I(0 - 1)>> ELSE <<One, One>>          \* eigenvector of the smaller eigenvalue
    IN << Ck("EigenPosPart", <<>>, NoV, NoV, <<I(Max2(0, lo)), I(Max2(0, hi))>>, M, I(2), "special"),
          \* r = 1: the raw decomposition must be refused, r = 2: a computed zero eigenvalue may have either sign, no verdict; x = c, y = mean, v = <<c . mean>> when the smaller eigenvalue is < 0 (it is replaced by an exact zero)
          Ck("EigenRandCov", <<>>, c, mean, IF lo < 0 THEN <<Dot(c, mean)>> ELSE NoV, NoM, IF lo < 0 THEN One ELSE IF lo = 0 THEN I(2) ELSE Zero, "special") >>
EigenThm(pq) ==
    LET p == pq[1]
        q == pq[2] IN
    \* M (1, -1)^T = (p - q)(1, -1)^T and M (1, 1)^T = (p + q)(1, 1)^T
    /\ p * 1 + q * (0 - 1) = (p - q) * 1 /\ q * 1 + p * (0 - 1) = (p - q) * (0 - 1)
    /\ p + q = (p + q) * 1 /\ q + p = (p + q) * 1

(************************ draws (rat-case format, area dist-rat) **************)
\* N draws from a seeded source, projected on one coordinate: the marginal law of the coordinate is a univariate law of
\* distuv (Normal: N(mu_i, Sigma_ii); Student's t: location mu_i, scale sqrt(Sigma_ii), nu; Dirichlet: Beta(alpha_i,
\* alpha_0 - alpha_i); Uniform: uniform on the side of the box; Wishart: X_11 / V_11 is chi-squared(nu); a uniform unit vector
\* in R^d: x_1^2 is Beta(1/2, (d-1)/2), for d = 3 x_1 is uniform on [-1, 1]).  The empirical distribution function of the
\* coordinate is within Eps of that law's CDF at the printed cut points (Dvoretzky-Kiefer-Wolfowitz, exponent >= 32), every draw
\* is finite / in the box / on the simplex / of unit length / a symmetric positive definite matrix.
RN == IF Tier = 1 THEN 80000 ELSE 20000
REps == IF Tier = 1 THEN R(3, 200) ELSE R(3, 100)
RDKW == 2 * RN * REps[1] * REps[1] >= 32 * REps[2] * REps[2]
Draws == <<"v", "draws">>
SupportCk(id, name, lo, hi) == [id |-> id, e |-> <<"v", name>>, k |-> "support", v |-> V(Zero), tol |-> "exact", lo |-> lo, hi |-> hi, lat |-> 0]
FreqCk(c, p) == [id |-> "Rand:freq", e |-> Draws, k |-> "freq", v |-> V(REps), tol |-> "exact", c |-> c, p |-> p]
Sqrt(a) == <<"sqrt", a>>
UnitN == <<V(Zero), V(One)>>
Near1Lo == XE(I(1073741823), 0 - 30)                \* 1 - 2^-30
Near1Hi == XE(I(1073741825), 0 - 30)                \* 1 + 2^-30
RCase(t, fp, how, comp, matrix, checks) ==
    [obj |-> [t |-> t, p |-> [i \in DOMAIN fp |-> V(fp[i])]],
     steps |-> << [op |-> "samplemv", n |-> RN, salt |-> 1 + Salt, kind |-> how, comp |-> comp, matrix |-> matrix] >>,
     checks |-> << SupportCk("Rand:finite", "finite", XI(1), XI(1)) >> \o checks]
FlatI(M) == Flatten([i \in DOMAIN M |-> [j \in DOMAIN M |-> I(M[i][j])]])
NormalHows == {"Rand", "Rand:dst", "NewNormalChol.Rand", "NormalRand", "NormalRandCov:Cholesky", "NormalRandCov:PivotedCholesky",
               "NormalRandCov:EigenSym", "NormalRandCov:PositivePartEigenSym", "NormalRandCov:SymDense"}
RandLs == { << <<1, 0>>, <<0, 1>> >>, << <<2, 0>>, <<0 - 1, 3>> >>, << <<1, 0, 0>>, <<2, 3, 0>>, <<0 - 1, 0, 2>> >> }
NormalRand(L, how, i) ==
    LET S == SigmaOf(L)
        mu == MuOf(L)
        n == Len(L)
    IN RCase("distmv.Normal", <<I(n)>> \o [k \in 1 .. n |-> I(mu[k])] \o FlatI(IntMat(S)), how, i - 1, 0,
             << Eq("Rand:dim", <<"v", "dim", 0>>, I(n), "exact") >>
             \o [k \in 1 .. 7 |-> LET q == SeqOfQ[k] IN
                   FreqCk(X(RAdd(I(mu[i]), q)), OM1("distuv.Normal", UnitN, "CDF", Div(X(q), Sqrt(X(S[i][i])))))])
TRand(L, i) ==
    LET S == SigmaOf(L)
        mu == MuOf(L)
        n == Len(L)
        nu == NuOf(L)
    IN RCase("distmv.StudentsT", <<I(n), I(nu)>> \o [k \in 1 .. n |-> I(mu[k])] \o FlatI(IntMat(S)), "Rand", i - 1, 0,
             [k \in 1 .. 7 |-> LET q == SeqOfQ[k] IN
                FreqCk(X(RAdd(I(mu[i]), q)), OM1("distuv.StudentsT", <<V(Zero), V(One), V(I(nu))>>, "CDF", Div(X(q), Sqrt(X(S[i][i])))))])
UniformRand(b, i) ==
    LET n == Len(b) IN
    RCase("distmv.Uniform", Flatten([k \in 1 .. n |-> <<I(b[k][1]), I(b[k][2])>>]), "Rand", i - 1, 0,
          << SupportCk("Rand:support", "draws", XI(b[i][1]), XI(b[i][2])) >>
          \o [k \in 1 .. 3 |-> FreqCk(X(RAdd(I(b[i][1]), RMul(R(k, 4), I(b[i][2] - b[i][1])))), X(R(k, 4)))])
UnitUniformRand(n, i) ==
    RCase("distmv.UnitUniform", <<I(n)>>, "Rand", i - 1, 0,
          << SupportCk("Rand:support", "draws", XI(0), XI(1)), Eq("Rand:dim", <<"v", "dim", 0>>, I(n), "exact") >>
          \o [k \in 1 .. 3 |-> FreqCk(X(R(k, 4)), X(R(k, 4)))])
RandAlphas == { <<One, One>>, <<I(2), I(3)>>, <<I(2), One, I(4)>>, <<R(1, 8), I(2), Half>>, <<I(5), One, One, I(2)>>, <<I((Salt % 4) + 1), I(2), I((Salt % 3) + 1)>> }
DirichletRand(al, i) ==
    RCase("distmv.Dirichlet", al, "Rand", i - 1, 0,
          << SupportCk("Rand:support", "draws", XI(0), XI(1)),
             SupportCk("Rand:on-the-simplex", "sum", Near1Lo, Near1Hi) >>
          \o [k \in 1 .. 7 |-> FreqCk(X(R(k, 8)), OM1("distuv.Beta", <<V(al[i]), V(RSub(RSum(al), al[i]))>>, "CDF", X(R(k, 8))))])
WishartRandPars == {<<L, nu>> : L \in {<< <<1, 0>>, <<0, 1>> >>, << <<2, 0>>, <<1, 1>> >>}, nu \in {I(3), I(5), R(5, 2)}}
                   \cup {<< << <<2>> >>, I(1)>>, << << <<1>> >>, I(4)>>, << << <<1, 0, 0>>, <<2, 3, 0>>, <<0 - 1, 0, 2>> >>, I(4)>>}
\* every diagonal entry X_ii / V_ii is chi-squared(nu) (the entries beyond the first involve the off-diagonal normal variates
\* and the chi-squared variates with nu - i degrees of freedom of the Bartlett factor, and the factor of V)
WishartRand(wp, how, i) ==
    LET L == wp[1]
        nu == wp[2]
        d == Len(L)
        vii == SigmaOf(L)[i][i]
    IN RCase("distmat.Wishart", <<I(d), nu>> \o FlatI(IntMat(SigmaOf(L))), how, (i - 1) * d + (i - 1), d,
             << SupportCk("Rand:symmetric-positive-definite", "spd", XI(1), XI(1)), Eq("Rand:dim", <<"v", "dim", 0>>, I(d * d), "exact"),
                SupportCk("Rand:support", "draws", XI(0), XInf(1)) >>
             \o [k \in 1 .. 4 |-> LET y == RMul(R(k, 2), nu) IN
                   FreqCk(X(RMul(vii, y)), OM1("distuv.ChiSquared", <<V(nu)>>, "CDF", X(y)))])
UnitVectorRand(d) ==
    RCase("distmat.UnitVector", <<I(d)>>, "UnitVecTo", 0, 0,
          << SupportCk("Rand:unit-length", "sumsq", Near1Lo, Near1Hi), SupportCk("Rand:support", "draws", XI(0 - 1), XI(1)),
             Eq("Rand:dim", <<"v", "dim", 0>>, I(d), "exact"), FreqCk(XI(0), X(Half)) >>
          \o (IF d = 1 THEN << FreqCk(X(R(0 - 1, 2)), X(Half)), FreqCk(X(Half), X(Half)) >>
              ELSE IF d = 3 THEN [k \in 1 .. 3 |-> FreqCk(X(R(k - 2, 2)), X(R(k, 4)))]
              ELSE Flatten([k \in 1 .. 3 |-> LET c == R(k, 4)
                                                 b == OM1("distuv.Beta", <<V(Half), V(R(d - 1, 2))>>, "CDF", X(RSq(c))) IN
                     << FreqCk(X(c), Add(X(Half), Mul(X(Half), b))), FreqCk(X(RNeg(c)), Sub(X(Half), Mul(X(Half), b))) >>])))
ProposalRand(L, how, i) ==
    LET S == SigmaOf(L)
        y == [k \in 1 .. Len(L) |-> 2 * k - 3]
        n == Len(L)
    IN RCase("samplemv.ProposalNormal", <<I(n)>> \o [k \in 1 .. n |-> I(y[k])] \o FlatI(IntMat(S)), how, i - 1, 0,
             [k \in 1 .. 7 |-> LET q == SeqOfQ[k] IN
                FreqCk(X(RAdd(I(y[i]), q)), OM1("distuv.Normal", UnitN, "CDF", Div(X(q), Sqrt(X(S[i][i])))))])
RandPars == {<<"normal", L, how, i>> : L \in RandLs, how \in NormalHows, i \in 1 .. 3}
            \cup {<<"studentst", L, "Rand", i>> : L \in RandLs, i \in 1 .. 3}
            \cup {<<"uniform", b, "Rand", i>> : b \in Boxes, i \in 1 .. 3}
            \cup {<<"unituniform", n, "Rand", i>> : n \in 1 .. 3, i \in 1 .. 3}
            \cup {<<"dirichlet", al, "Rand", i>> : al \in RandAlphas, i \in 1 .. 4}
            \cup {<<"wishart", wp, how, i>> : wp \in WishartRandPars, how \in {"RandSymTo", "RandSymTo:dst", "RandCholTo"}, i \in 1 .. 3}
            \cup {<<"unitvector", d, "UnitVecTo", 1>> : d \in 1 .. 5}
            \cup {<<"proposal", L, how, i>> : L \in RandLs, how \in {"ConditionalRand", "ConditionalRand:dst"}, i \in 1 .. 3}
SizeOf(q) == CASE q[1] \in {"normal", "studentst", "proposal", "uniform", "dirichlet"} -> Len(q[2]) [] q[1] = "unituniform" -> q[2] [] q[1] = "wishart" -> Len(q[2][1]) [] OTHER -> 1
RandCase(q) == CASE q[1] = "normal" -> NormalRand(q[2], q[3], q[4]) [] q[1] = "studentst" -> TRand(q[2], q[4])
                 [] q[1] = "uniform" -> UniformRand(q[2], q[4]) [] q[1] = "unituniform" -> UnitUniformRand(q[2], q[4])
                 [] q[1] = "dirichlet" -> DirichletRand(q[2], q[4]) [] q[1] = "wishart" -> WishartRand(q[2], q[3], q[4])
                 [] q[1] = "unitvector" -> UnitVectorRand(q[2]) [] q[1] = "proposal" -> ProposalRand(q[2], q[3], q[4])
RandThm(q) == /\ RDKW
              /\ 1073741823 + 1 = Pow(2, 30) /\ 1073741825 - 1 = Pow(2, 30)
              /\ q[1] = "dirichlet" => \A i \in DOMAIN q[2] : RLt(Zero, q[2][i])

(************** statistical distances (rat-case format, area dist-rat) ********)
MvN(mu, S) == <<"normal", mu, IntMat(S)>>
MvU(b) == <<"uniform", b>>
MvD(al) == <<"dirichlet", al>>
MvDist(t, f, l, r) == <<"mvdist", t, f, l, r>>
Renyi(l, r, a) == <<"mvdist", "distmv.Renyi", "DistNormal", l, r, X(a)>>
Mvm(o, f) == <<"mvm", o, f>>
TrInvS(Lr, Sl) == TrInv(Lr, Sl)
Det2(M) == RSub(RMul(M[1][1], M[2][2]), RMul(M[1][2], M[2][1]))
DistLs == { << <<1, 0>>, <<0, 1>> >>, << <<2, 0>>, <<0 - 1, 3>> >>, << <<1, 0>>, <<2, 1>> >>, << <<2, 0>>, <<0, 2>> >> }
DistMus == { <<0, 0>>, <<1, 0 - 2>>, <<3, 1>> }
NormalDistCase(ml, Ll, mr, Lr) ==
    LET Sl == SigmaOf(Ll)
        Sr == SigmaOf(Lr)
        d == Len(Ll)
        l == MvN(ml, Sl)
        r == MvN(mr, Sr)
        dl == VSub(RVec(ml), RVec(mr))
        mahR == Quad(RatM(Lr), dl)                                   \* (mu_l - mu_r)^T Sigma_r^-1 (mu_l - mu_r)
        tr == TrInv(Lr, Sl)
        Sm == MatScale(Half, [i \in 1 .. d |-> [j \in 1 .. d |-> RAdd(Sl[i][j], Sr[i][j])]])
        quad == RMul(R(1, 8), Dot(dl, MatVec(Inv12(Sm), dl)))
        kl == MvDist("distmv.KullbackLeibler", "DistNormal", l, r)
        bh == MvDist("distmv.Bhattacharyya", "DistNormal", l, r)
        he == MvDist("distmv.Hellinger", "DistNormal", l, r)
        ce == MvDist("distmv.CrossEntropy", "DistNormal", l, r)
        same == ml = mr /\ Ll = Lr
    IN [obj |-> [t |-> "mathext", p |-> <<>>], steps |-> <<>>,
        checks |->
         << \* KL = 1/2 [log|Sr|/|Sl| + mah + tr(Sr^-1 Sl) - d]
            Eq("distmv.KullbackLeibler.DistNormal:exp(2KL-rational)", Exp(Sub(Mul(XI(2), kl), X(RSub(RAdd(mahR, tr), I(d))))),
               RSq(RDiv(DetL(Lr), DetL(Ll))), "special"),
            \* D_B = quad + 1/2 log(|Sm| / sqrt(|Sl| |Sr|))
            Eq("distmv.Bhattacharyya.DistNormal:exp(2(D-quad))", Exp(Mul(XI(2), Sub(bh, X(quad)))), RDiv(Det2(Sm), RMul(DetL(Ll), DetL(Lr))), "special"),
            Eq("distmv.Bhattacharyya.DistNormal:symmetric", Sub(bh, MvDist("distmv.Bhattacharyya", "DistNormal", r, l)), Zero, "special"),
            Eq("distmv.Hellinger.DistNormal:H^2+exp(-D_B)", Add(Sq(he), Exp(Neg(bh))), One, "special"),
            \* cross entropy = KL + entropy of l; entropy + log density at the mean = d/2
            Eq("distmv.CrossEntropy.DistNormal-KL-Entropy", Sub(Sub(ce, kl), Mvm(l, "Entropy")), Zero, "special"),
            Eq("distmv.Normal.Entropy+LogProb(mean)", Add(Mvm(l, "Entropy"), Mvm(l, "LogProbAtMean")), R(d, 2), "special"),
            \* Renyi: order 0 is 0, order 1 is KL (documented special forms)
            Eq("distmv.Renyi(0).DistNormal", Renyi(l, r, Zero), Zero, "exact"),
            Eq("distmv.Renyi(1).DistNormal-KL", Sub(Renyi(l, r, One), kl), Zero, "special"),
            Panics("distmv.Renyi(-1).DistNormal", Renyi(l, r, I(0 - 1))) >>
         \o (IF same THEN << Eq("distmv.KullbackLeibler.DistNormal(p,p)", Add(kl, XI(1)), One, "special"),
                             Eq("distmv.Bhattacharyya.DistNormal(p,p)", Add(bh, XI(1)), One, "special"),
                             Eq("distmv.Hellinger.DistNormal(p,p)^2", Add(Sq(he), XI(1)), One, "special") >>
             ELSE << SignIs("distmv.KullbackLeibler.DistNormal>0", kl, 1), SignIs("distmv.Bhattacharyya.DistNormal>0", bh, 1) >>)
         \* equal covariances: no logarithm.  KL = mah/2, D_B = mah/8, Renyi of order a = a mah / 2
         \o (IF Ll = Lr THEN << Eq("distmv.KullbackLeibler.DistNormal:equal-covariance", Add(kl, XI(1)), RAdd(RMul(Half, mahR), One), "special"),
                                Eq("distmv.Bhattacharyya.DistNormal:equal-covariance", Add(bh, XI(1)), RAdd(RMul(R(1, 8), mahR), One), "special") >>
                              \o Checks({Half, R(1, 4), I(2), I(3)}, LAMBDA a :
                                   << Eq("distmv.Renyi.DistNormal:equal-covariance", Add(Renyi(l, r, a), XI(1)), RAdd(RMul(RMul(a, Half), mahR), One), "special") >>)
             ELSE Checks({Half, R(1, 4), R(3, 4)}, LAMBDA a : IF ml = mr THEN << SignIs("distmv.Renyi.DistNormal>0", Renyi(l, r, a), 1) >> ELSE <<>>))]
\* Wasserstein between commuting covariances Sr = c^2 Sl: W^2 = |mu_l - mu_r|^2 + (1-c)^2 tr Sl.  The documentation gives the
\* formula for d^2 and calls the result the distance: the value W^2 and its square root are both accepted.
WassersteinCase(ml, Ll, mr, c) ==
    LET Sl == SigmaOf(Ll)
        Lr == [i \in DOMAIN Ll |-> [j \in DOMAIN Ll |-> c * Ll[i][j]]]
        l == MvN(ml, Sl)
        r == MvN(mr, SigmaOf(Lr))
        dl == VSub(RVec(ml), RVec(mr))
        w2 == RAdd(Dot(dl, dl), RMul(I((1 - c) * (1 - c)), RSum([i \in DOMAIN Sl |-> Sl[i][i]])))
        w == MvDist("distmv.Wasserstein", "DistNormal", l, r)
    IN [obj |-> [t |-> "mathext", p |-> <<>>], steps |-> <<>>, checks |-> <<>>,
        alts |-> << << Eq("distmv.Wasserstein.DistNormal", Add(w, XI(1)), RAdd(w2, One), "special") >>,
                    << Eq("distmv.Wasserstein.DistNormal", Add(Sq(w), XI(1)), RAdd(w2, One), "special") >> >>]
BoxVol(b) == RProd([i \in DOMAIN b |-> I(b[i][2] - b[i][1])])
DistBoxes == { << <<0, 4>>, <<0, 4>> >>, << <<1, 3>>, <<0, 2>> >>, << <<0 - 1, 1>>, <<1, 5>> >>, << <<4, 6>>, <<0, 4>> >>, << <<5, 6>>, <<5, 6>> >>, << <<1, 2>>, <<1, 2>> >> }
Inside(l, r) == \A i \in DOMAIN l : r[i][1] <= l[i][1] /\ l[i][2] <= r[i][2]
OverlapLen(l, r, i) == Min2(l[i][2], r[i][2]) - Max2(l[i][1], r[i][1])
UniformDistCase(l, r) ==
    LET kl == MvDist("distmv.KullbackLeibler", "DistUniform", MvU(l), MvU(r))
        bh == MvDist("distmv.Bhattacharyya", "DistUniform", MvU(l), MvU(r))
        ov == \A i \in DOMAIN l : OverlapLen(l, r, i) > 0
    IN [obj |-> [t |-> "mathext", p |-> <<>>], steps |-> <<>>,
        checks |->
          (IF Inside(l, r) THEN << Eq("distmv.KullbackLeibler.DistUniform:exp(KL)", Exp(kl), RDiv(BoxVol(r), BoxVol(l)), "special") >>
           ELSE << PInf("distmv.KullbackLeibler.DistUniform:not-contained", kl) >>)
          \o (IF ov THEN << Eq("distmv.Bhattacharyya.DistUniform:exp(-2D)", Exp(Mul(XI(0 - 2), bh)),
                               RDiv(RSq(RProd([i \in DOMAIN l |-> I(OverlapLen(l, r, i))])), RMul(BoxVol(l), BoxVol(r))), "special"),
                            Eq("distmv.Bhattacharyya.DistUniform:symmetric", Sub(bh, MvDist("distmv.Bhattacharyya", "DistUniform", MvU(r), MvU(l))), Zero, "special") >>
              ELSE << PInf("distmv.Bhattacharyya.DistUniform:disjoint", bh) >>)]
DistAlphas == { <<1, 1>>, <<2, 3>>, <<4, 1>>, <<3, 3>> } \cup { <<1, 1, 1>>, <<2, 1, 4>>, <<3, 3, 2>> }
DirichletDistCase(l, r) ==
    LET kl == MvDist("distmv.KullbackLeibler", "DistDirichlet", MvD(l), MvD(r))
        a0 == ISum(l)
        ct == RSum([i \in DOMAIN l |-> RMul(I(l[i] - r[i]), RSub(Harm(l[i] - 1), Harm(a0 - 1)))])
    IN [obj |-> [t |-> "mathext", p |-> <<>>], steps |-> <<>>,
        checks |-> << Eq("distmv.KullbackLeibler.DistDirichlet:exp(KL-ct)", Exp(Sub(kl, X(ct))), RDiv(DirCoef(l), DirCoef(r)), "coarse") >>
                   \o (IF l = r THEN << Eq("distmv.KullbackLeibler.DistDirichlet(p,p)", Add(kl, XI(1)), One, "special") >>
                       ELSE << SignIs("distmv.KullbackLeibler.DistDirichlet>0", kl, 1) >>)]
DimMismatchCase ==
    LET l == MvN(<<0, 0>>, SigmaOf(<< <<1, 0>>, <<0, 1>> >>))
        r == MvN(<<0, 0, 0>>, SigmaOf(<< <<1, 0, 0>>, <<0, 1, 0>>, <<0, 0, 1>> >>))
    IN [obj |-> [t |-> "mathext", p |-> <<>>], steps |-> <<>>,
        checks |-> << Panics("distmv.KullbackLeibler.DistNormal:dimension-mismatch", MvDist("distmv.KullbackLeibler", "DistNormal", l, r)),
                      Panics("distmv.Bhattacharyya.DistNormal:dimension-mismatch", MvDist("distmv.Bhattacharyya", "DistNormal", l, r)),
                      Panics("distmv.Hellinger.DistNormal:dimension-mismatch", MvDist("distmv.Hellinger", "DistNormal", l, r)),
                      Panics("distmv.CrossEntropy.DistNormal:dimension-mismatch", MvDist("distmv.CrossEntropy", "DistNormal", l, r)),
                      Panics("distmv.Wasserstein.DistNormal:dimension-mismatch", MvDist("distmv.Wasserstein", "DistNormal", l, r)),
                      Panics("distmv.Renyi.DistNormal:dimension-mismatch", Renyi(l, r, Half)),
                      Panics("distmv.KullbackLeibler.DistUniform:dimension-mismatch",
                             MvDist("distmv.KullbackLeibler", "DistUniform", MvU(<< <<0, 1>> >>), MvU(<< <<0, 1>>, <<0, 1>> >>))),
                      Panics("distmv.Bhattacharyya.DistUniform:dimension-mismatch",
                             MvDist("distmv.Bhattacharyya", "DistUniform", MvU(<< <<0, 1>> >>), MvU(<< <<0, 1>>, <<0, 1>> >>))),
                      Panics("distmv.KullbackLeibler.DistDirichlet:dimension-mismatch",
                             MvDist("distmv.KullbackLeibler", "DistDirichlet", MvD(<<1, 1>>), MvD(<<1, 1, 1>>))) >>]
DistancePars == {<<"normal", ml, Ll, mr, Lr>> : ml \in DistMus, Ll \in DistLs, mr \in {<<0, 0>>, <<3, 1>>}, Lr \in DistLs}
                \cup {<<"wasserstein", ml, Ll, mr, c>> : ml \in DistMus, Ll \in DistLs, mr \in {<<0, 0>>, <<3, 1>>}, c \in {1, 2, 3}}
                \cup {<<"uniform", l, r>> : l \in DistBoxes, r \in DistBoxes}
                \cup {<<"dirichlet", l, r>> : l \in DistAlphas, r \in DistAlphas}
                \cup {<<"mismatch">>}
DistanceOK(q) == q[1] = "dirichlet" => Len(q[2]) = Len(q[3])
DistanceCase(q) == CASE q[1] = "normal" -> NormalDistCase(q[2], q[3], q[4], q[5]) [] q[1] = "wasserstein" -> WassersteinCase(q[2], q[3], q[4], q[5])
                     [] q[1] = "uniform" -> UniformDistCase(q[2], q[3]) [] q[1] = "dirichlet" -> DirichletDistCase(q[2], q[3])
                     [] q[1] = "mismatch" -> DimMismatchCase
DistanceThm(q) ==
    CASE q[1] = "normal" -> LET Sl == SigmaOf(q[3])
                                Sr == SigmaOf(q[5])
                                Sm == MatScale(Half, [i \in 1 .. 2 |-> [j \in 1 .. 2 |-> RAdd(Sl[i][j], Sr[i][j])]])
                            IN /\ RLt(Zero, Det2(Sm)) /\ RLt(Zero, TrInv(q[5], Sl))
                               /\ Det2(Sl) = RSq(DetL(q[3]))
                               \* tr(S^-1 S) = d, and by the AM-GM inequality |Sm|^2 >= |Sl| |Sr| (the Bhattacharyya distance is >= 0)
                               /\ TrInv(q[3], Sl) = I(2)
                               /\ RLeq(RMul(Det2(Sl), Det2(Sr)), RSq(Det2(Sm)))
      [] q[1] = "uniform" -> Inside(q[2], q[3]) => RLeq(BoxVol(q[2]), BoxVol(q[3]))
      [] OTHER -> TRUE

(****************************** the case space *******************************)
Pars == CASE Kind = "normal" -> Ls [] Kind = "normal-chol" -> Ls [] Kind = "normal-prec" -> {L \in Ls \cup L3s : UnitDiag(L)}
          [] Kind = "studentst" -> Ls [] Kind = "uniform" -> Boxes [] Kind = "dirichlet" -> Alphas
          [] Kind = "wishart" -> WishartPars [] Kind = "eigen" -> EigenPars [] Kind = "rand" -> {q \in RandPars : q[4] <= SizeOf(q)}
          [] Kind = "distance" -> {q \in DistancePars : DistanceOK(q)}
Thm(p) == CASE Kind = "normal" -> NormalThm(p) [] Kind = "normal-chol" -> NormalThm(p) [] Kind = "normal-prec" -> NormalThm(p) /\ PrecThm(p) [] Kind = "studentst" -> NormalThm(p) [] Kind = "dirichlet" -> DirichletThm(p)
            [] Kind = "wishart" -> WishartThm(p) [] Kind = "eigen" -> EigenThm(p) [] Kind = "rand" -> RandThm(p) [] Kind = "distance" -> DistanceThm(p) [] OTHER -> TRUE
IntM(M) == [i \in DOMAIN M |-> [j \in DOMAIN M |-> M[i][j][1]]]
Case(p) == CASE Kind = "normal" -> [kind |-> Kind, mu |-> MuOf(p), sigma |-> [i \in DOMAIN p |-> [j \in DOMAIN p |-> SigmaOf(p)[i][j][1]]], nu |-> 0, box |-> <<>>,
                                    checks |-> NormalChecks(p)]
          [] Kind = "normal-chol" -> [kind |-> "normal", ctor |-> "chol", mu |-> MuOf(p), sigma |-> IntM(SigmaOf(p)), nu |-> 0, box |-> <<>>,
                                      checks |-> NormalChecks(p)]
          [] Kind = "normal-prec" -> [kind |-> "normal", ctor |-> "prec", mu |-> MuOf(p), sigma |-> IntM(SigmaOf(p)), prec |-> IntM(PrecOf(p)), nu |-> 0, box |-> <<>>,
                                      checks |-> Retol(NormalChecks(p))]
          [] Kind = "studentst" -> [kind |-> Kind, mu |-> MuOf(p), sigma |-> [i \in DOMAIN p |-> [j \in DOMAIN p |-> SigmaOf(p)[i][j][1]]], nu |-> NuOf(p), box |-> <<>>,
                                    checks |-> TChecks(p)]
          [] Kind = "uniform" -> [kind |-> Kind, mu |-> <<>>, sigma |-> <<>>, nu |-> 0, box |-> p, checks |-> UniformChecks(p)]
          [] Kind = "dirichlet" -> [kind |-> Kind, mu |-> p, sigma |-> <<>>, nu |-> 0, box |-> <<>>, checks |-> DirichletChecks(p)]
          [] Kind = "wishart" -> [kind |-> Kind, mu |-> <<>>, sigma |-> IntMat(SigmaOf(p[1])), nu |-> p[2], box |-> <<>>, checks |-> WishartChecks(p)]
          [] Kind = "eigen" -> [kind |-> Kind, mu |-> <<3, 0 - 1>>, sigma |-> << <<p[1], p[2]>>, <<p[2], p[1]>> >>, nu |-> 0, box |-> <<>>, checks |-> EigenChecks(p)]
          [] Kind = "rand" -> RandCase(p)
          [] Kind = "distance" -> DistanceCase(p)

Init == par \in Pars
Next == UNCHANGED par
Spec == Init /\ [][Next]_vars
Theorems == Thm(par)
EmitCase == Emit => PrintT(ToJson(Case(par)))
=============================================================================
