------------------------------- MODULE MvLaws -------------------------------
(* The multivariate laws of stat/distmv where everything is rational:          *)
(*  Normal(mu, Sigma) and StudentsT(mu, Sigma, nu) with integer mu and          *)
(*  Sigma = L L^T for a small integer lower-triangular L (so the Cholesky       *)
(*  factor the code computes is L itself, exactly): Mean, CovarianceMatrix,    *)
(*  marginals (sub-vector / sub-matrix), conditionals (Schur complements with   *)
(*  exact rational inverses of the 1x1 / 2x2 observed block; for Student's t    *)
(*  nu' = nu + |observed| and the scale factor (nu + d^2)/(nu + |observed|)),   *)
(*  differences of log densities (the log-determinant cancels: a difference of  *)
(*  quadratic forms q(x) = |L^-1 (x - mu)|^2), ScoreInput = -Sigma^-1 (x - mu); *)
(*  Uniform on integer boxes; Dirichlet with integer alpha (Mean, covariance,   *)
(*  and the density itself: a multinomial coefficient times a monomial).        *)
(*                                                                            *)
(* R1 (Theorems): Sigma is symmetric with positive diagonal; Sigma^-1 from the  *)
(* two triangular solves really inverts Sigma (Sigma * ScoreInput = -(x-mu));   *)
(* the conditional covariance is symmetric with positive diagonal; tower        *)
(* property: conditioning on {i, j} at once (2x2 inverse) equals conditioning   *)
(* on i and then on j (two 1x1 inverses) -- mean and covariance; the marginal   *)
(* of a marginal is the marginal; Dirichlet means sum to 1, covariance rows     *)
(* sum to 0, the density of Dirichlet(1,..,1) is (n-1)!.                        *)
(* R2 (EmitCase): the table of each case for the harness area dist-mv:          *)
(*   [op, i (index list), x, y (rational vectors), v (rational vector result),  *)
(*    m (rational matrix result), r (rational scalar), tol]                     *)
EXTENDS RatLib, Json

CONSTANTS Kind,    \* "normal" | "studentst" | "uniform" | "dirichlet"
          Tier, Salt, Emit

VARIABLE par
vars == <<par>>

(***************************** rational linear algebra ***********************)
Dim(M) == Len(M)
RVec(v) == [i \in DOMAIN v |-> I(v[i])]                       \* integer vector -> rational vector
VSub(u, v) == [i \in DOMAIN u |-> RSub(u[i], v[i])]
VAdd(u, v) == [i \in DOMAIN u |-> RAdd(u[i], v[i])]
VNeg(u) == [i \in DOMAIN u |-> RNeg(u[i])]
Dot(u, v) == RSum([i \in DOMAIN u |-> RMul(u[i], v[i])])
MatVec(M, v) == [i \in DOMAIN M |-> Dot(M[i], v)]
Transpose(M) == [j \in 1 .. Len(M[1]) |-> [i \in DOMAIN M |-> M[i][j]]]
MatMul(A, B) == [i \in DOMAIN A |-> [j \in 1 .. Len(B[1]) |-> Dot(A[i], [k \in DOMAIN B |-> B[k][j]])]]
MatSub(A, B) == [i \in DOMAIN A |-> [j \in DOMAIN A[i] |-> RSub(A[i][j], B[i][j])]]
MatScale(c, A) == [i \in DOMAIN A |-> [j \in DOMAIN A[i] |-> RMul(c, A[i][j])]]
Block(M, rows, cols) == [i \in DOMAIN rows |-> [j \in DOMAIN cols |-> M[rows[i]][cols[j]]]]
Pick(v, idx) == [i \in DOMAIN idx |-> v[idx[i]]]
\* inverse of a 1x1 or 2x2 rational matrix
Inv12(M) == IF Len(M) = 1 THEN << << RInv(M[1][1]) >> >>
            ELSE LET det == RSub(RMul(M[1][1], M[2][2]), RMul(M[1][2], M[2][1]))
                 IN << << RDiv(M[2][2], det), RNeg(RDiv(M[1][2], det)) >>,
                       << RNeg(RDiv(M[2][1], det)), RDiv(M[1][1], det) >> >>
\* L w = v (L lower triangular, rational entries)
RECURSIVE Fwd(_, _, _)
Fwd(L, v, i) == IF i = 0 THEN <<>>
                ELSE LET w == Fwd(L, v, i - 1)
                     IN Append(w, RDiv(RSub(v[i], RSum([j \in 1 .. (i - 1) |-> RMul(L[i][j], w[j])])), L[i][i]))
FwdSolve(L, v) == Fwd(L, v, Len(v))
\* L^T z = w : z_i from the last to the first; built as a function over i .. n
RECURSIVE Bwd(_, _, _)
Bwd(L, w, i) == LET n == Len(w) IN
                IF i > n THEN [k \in {} |-> Zero]
                ELSE LET z == Bwd(L, w, i + 1)
                         zi == RDiv(RSub(w[i], RSum([j \in 1 .. (n - i) |-> RMul(L[i + j][i], z[i + j])])), L[i][i])
                     IN [k \in i .. n |-> IF k = i THEN zi ELSE z[k]]
BwdSolve(L, w) == LET z == Bwd(L, w, 1) IN [i \in 1 .. Len(w) |-> z[i]]
SigmaInvVec(L, v) == BwdSolve(L, FwdSolve(L, v))                 \* Sigma^-1 v, Sigma = L L^T
Quad(L, d) == LET w == FwdSolve(L, d) IN Dot(w, w)                \* d^T Sigma^-1 d
IsSym(M) == \A i, j \in DOMAIN M : M[i][j] = M[j][i]
Others(n, idx) == LET RECURSIVE Go(_)
                      Go(k) == IF k > n THEN <<>> ELSE (IF \E t \in DOMAIN idx : idx[t] = k THEN <<>> ELSE <<k>>) \o Go(k + 1)
                  IN Go(1)

\* conditional law of the unobserved coordinates given x[obs] = vals:  <<mean, covariance, d^2>>
Cond(mu, S, obs, vals) ==
    LET un == Others(Len(mu), obs)
        S11 == Block(S, un, un)
        S12 == Block(S, un, obs)
        S22i == Inv12(Block(S, obs, obs))
        dv == VSub(vals, Pick(mu, obs))
        K == MatMul(S12, S22i)
    IN << VAdd(Pick(mu, un), MatVec(K, dv)), MatSub(S11, MatMul(K, Transpose(S12))), Dot(dv, MatVec(S22i, dv)) >>

(********************************* the cases *********************************)
\* lower-triangular integer factors
Offs == {0 - 1, 0, 2}
Diags == {1, 2, 3}
L2s == {<< <<a, 0>>, <<b, c>> >> : a \in Diags, b \in Offs \cup {1}, c \in Diags}
L3s == {<< <<a, 0, 0>>, <<b, c, 0>>, <<d, e, f>> >> : a \in {1, 2}, b \in Offs, c \in {1, 3}, d \in Offs, e \in Offs, f \in {1, 2}}
LIndex(L) == ISum([i \in DOMAIN L |-> ISum([j \in DOMAIN L |-> (i * 5 + j * 3) * (L[i][j] + 2)])])
Keep3(L) == Tier = 1 \/ (LIndex(L) + Salt) % 4 = 0
Ls == L2s \cup {L \in L3s : Keep3(L)}
RatM(L) == [i \in DOMAIN L |-> [j \in DOMAIN L |-> I(L[i][j])]]
SigmaOf(L) == MatMul(RatM(L), Transpose(RatM(L)))
MuOf(L) == [i \in DOMAIN L |-> ((LIndex(L) + Salt + 3 * i) % 7) - 3]
Pts(n) == IF n = 2 THEN { <<0, 0>>, <<1, 0 - 2>>, <<3, 1>>, <<0 - 2, 5>> }
          ELSE { <<0, 0, 0>>, <<1, 0 - 2, 2>>, <<3, 1, 0 - 1>>, <<0 - 2, 5, 4>> }
ObsSets(n) == IF n = 2 THEN { <<1>>, <<2>> } ELSE { <<1>>, <<2>>, <<3>>, <<1, 2>>, <<1, 3>>, <<2, 3>>, <<3, 1>> }
VarSets(n) == IF n = 2 THEN { <<1>>, <<2>>, <<2, 1>> } ELSE { <<1>>, <<3>>, <<1, 2>>, <<3, 1>>, <<2, 3>>, <<3, 2, 1>> }
ValsFor(obs) == [i \in DOMAIN obs |-> R(2 * obs[i] - 3 + (Salt % 3), i)]

SeqOf(S) == LET RECURSIVE Enum(_)
                Enum(T) == IF T = {} THEN <<>> ELSE LET x == CHOOSE y \in T : TRUE IN <<x>> \o Enum(T \ {x})
            IN Enum(S)
Checks(S, F(_)) == LET s == SeqOf(S) IN Flatten([i \in 1 .. Len(s) |-> F(s[i])])

NoV == <<>>
NoM == <<>>
Ck(op, idx, x, y, v, m, r, tol) == [op |-> op, i |-> idx, x |-> [k \in DOMAIN x |-> V(x[k])], y |-> [k \in DOMAIN y |-> V(y[k])],
                                    v |-> [k \in DOMAIN v |-> V(v[k])], m |-> [a \in DOMAIN m |-> [b \in DOMAIN m[a] |-> V(m[a][b])]],
                                    r |-> V(r), tol |-> tol]
Idx0(idx) == [k \in DOMAIN idx |-> idx[k] - 1]                    \* code indices

NormalThm(L) ==
    LET S == SigmaOf(L)
        mu == RVec(MuOf(L))
        n == Len(L)
    IN /\ IsSym(S) /\ \A i \in 1 .. n : RLt(Zero, S[i][i])
       /\ \A x \in Pts(n) : LET d == VSub(RVec(x), mu) IN
            /\ MatVec(S, SigmaInvVec(RatM(L), d)) = d
            /\ Quad(RatM(L), d) = Dot(d, SigmaInvVec(RatM(L), d))
       /\ \A obs \in ObsSets(n) : LET c == Cond(mu, S, obs, ValsFor(obs)) IN
            /\ IsSym(c[2]) /\ \A i \in DOMAIN c[2] : RLt(Zero, c[2][i][i])
            /\ RLeq(Zero, c[3])
       \* tower property: condition on <<i, j>> = condition on i, then on (the shifted) j
       /\ n = 3 => \A obs \in {<<1, 2>>, <<1, 3>>, <<2, 3>>} :
            LET both == Cond(mu, S, obs, ValsFor(obs))
                first == Cond(mu, S, <<obs[1]>>, <<ValsFor(obs)[1]>>)
                \* after removing coordinate obs[1], coordinate obs[2] has index obs[2] - 1
                second == Cond(first[1], first[2], <<obs[2] - 1>>, <<ValsFor(obs)[2]>>)
            IN both[1] = second[1] /\ both[2] = second[2]
NormalChecks(L) ==
    LET S == SigmaOf(L)
        LR == RatM(L)
        mu == RVec(MuOf(L))
        n == Len(L)
    IN << Ck("Mean", <<>>, NoV, NoV, mu, NoM, Zero, "exact"), Ck("Cov", <<>>, NoV, NoV, NoV, S, Zero, "ops") >>
       \o Checks(VarSets(n), LAMBDA vs : << Ck("Marginal", Idx0(vs), NoV, NoV, Pick(mu, vs), Block(S, vs, vs), Zero, "ops") >>)
       \o Flatten([i \in 1 .. n |-> << Ck("MarginalSingle", <<i - 1>>, NoV, NoV, <<mu[i]>>, NoM, S[i][i], "ops") >>])
       \o Checks(ObsSets(n), LAMBDA obs : LET c == Cond(mu, S, obs, ValsFor(obs)) IN
            << Ck("Condition", Idx0(obs), ValsFor(obs), NoV, c[1], c[2], Zero, "special") >>)
       \o Checks(Pts(n), LAMBDA x : LET d == VSub(RVec(x), mu) IN
            << Ck("ScoreInput", <<>>, RVec(x), NoV, VNeg(SigmaInvVec(LR, d)), NoM, Zero, "special"),
               \* LogProb(x) - LogProb(mu) = -q(x)/2
               Ck("LogProbDiff", <<>>, RVec(x), mu, NoV, NoM, RNeg(RMul(Half, Quad(LR, d))), "special") >>)
       \o Checks({<<x, y>> \in Pts(n) \X Pts(n) : x # y}, LAMBDA xy :
            << Ck("LogProbDiff", <<>>, RVec(xy[1]), RVec(xy[2]), NoV, NoM,
                  RMul(Half, RSub(Quad(LR, VSub(RVec(xy[2]), mu)), Quad(LR, VSub(RVec(xy[1]), mu)))), "special") >>)

\* Student's t: nu integer > 2
NuOf(L) == 3 + ((LIndex(L) + Salt) % 4)
TChecks(L) ==
    LET S == SigmaOf(L)
        LR == RatM(L)
        mu == RVec(MuOf(L))
        n == Len(L)
        nu == NuOf(L)
    IN << Ck("Mean", <<>>, NoV, NoV, mu, NoM, Zero, "exact"), Ck("Cov", <<>>, NoV, NoV, NoV, MatScale(R(nu, nu - 2), S), Zero, "ops"),
          Ck("Nu", <<>>, NoV, NoV, NoV, NoM, I(nu), "exact") >>
       \o Checks(VarSets(n), LAMBDA vs : << Ck("Marginal", Idx0(vs), NoV, NoV, Pick(mu, vs), MatScale(R(nu, nu - 2), Block(S, vs, vs)), I(nu), "ops") >>)
       \o Flatten([i \in 1 .. n |-> << Ck("MarginalSingle", <<i - 1>>, NoV, NoV, <<mu[i]>>, NoM, S[i][i], "ops") >>])
       \* conditional: nu' = nu + |obs|, Sigma' = (nu + d^2)/(nu + |obs|) * Schur complement; covariance nu'/(nu'-2) Sigma'
       \o Checks(ObsSets(n), LAMBDA obs : LET c == Cond(mu, S, obs, ValsFor(obs))
                                              nu2 == nu + Len(obs)
                                              sc == RMul(RDiv(RAdd(I(nu), c[3]), I(nu2)), R(nu2, nu2 - 2)) IN
            << Ck("Condition", Idx0(obs), ValsFor(obs), NoV, c[1], MatScale(sc, c[2]), I(nu2), "special") >>)
       \* (Prob(x)/Prob(y))^2 = ((1 + q(y)/nu) / (1 + q(x)/nu))^(nu + n)
       \o Checks({<<x, y>> \in Pts(n) \X Pts(n) : x # y}, LAMBDA xy :
            LET qx == Quad(LR, VSub(RVec(xy[1]), mu))
                qy == Quad(LR, VSub(RVec(xy[2]), mu))
                base == RDiv(RAdd(One, RDiv(qy, I(nu))), RAdd(One, RDiv(qx, I(nu))))
            IN IF SatPow(Max2(base[1], base[2]), nu + n) < Cap
               THEN << Ck("ProbRatioSq", <<>>, RVec(xy[1]), RVec(xy[2]), NoV, NoM, RPow(base, nu + n), "special") >>
               ELSE <<>>)

\* Uniform on an integer box
Boxes == { << <<0, 1>> >>, << <<0 - 2, 2>> >>, << <<0, 1>>, <<0, 1>> >>, << <<0 - 1, 3>>, <<2, 4>> >>, << <<0, 2>>, <<0 - 3, 0 - 1>>, <<5, 9>> >>,
           << <<(Salt % 5) - 2, (Salt % 5) + 1>>, <<0, 8>> >> }
Vol(b) == RProd([i \in DOMAIN b |-> I(b[i][2] - b[i][1])])
Clip(x, lo, hi) == IF RLt(x, I(lo)) THEN Zero ELSE IF RLt(I(hi), x) THEN One ELSE RDiv(RSub(x, I(lo)), I(hi - lo))
UniformChecks(b) ==
    LET n == Len(b)
        inside == {[i \in 1 .. n |-> RAdd(I(b[i][1]), RMul(t, I(b[i][2] - b[i][1])))] : t \in {R(1, 4), Half, R(7, 8)}}
        mixed == {[i \in 1 .. n |-> RAdd(I(b[i][1]), RMul(RAdd(t, I(i - 1)), I(b[i][2] - b[i][1])))] : t \in {R(1, 4), R(0 - 1, 2)}}
                 \cup {[i \in 1 .. n |-> I(b[i][1] - 1)], [i \in 1 .. n |-> I(b[i][2] + 1)]}
        IsIn(x) == \A i \in 1 .. n : RLeq(I(b[i][1]), x[i]) /\ RLeq(x[i], I(b[i][2]))
    IN << Ck("Mean", <<>>, NoV, NoV, [i \in 1 .. n |-> R(b[i][1] + b[i][2], 2)], NoM, Zero, "ops"),
          Ck("ExpEntropy", <<>>, NoV, NoV, NoV, NoM, Vol(b), "special"),
          Ck("CDF", <<>>, [i \in 1 .. n |-> I(b[i][1])], NoV, [i \in 1 .. n |-> Zero], NoM, Zero, "exact"),
          Ck("CDF", <<>>, [i \in 1 .. n |-> I(b[i][2])], NoV, [i \in 1 .. n |-> One], NoM, Zero, "exact") >>
       \o Checks(inside \cup mixed, LAMBDA x :
            << Ck("CDF", <<>>, x, NoV, [i \in 1 .. n |-> Clip(x[i], b[i][1], b[i][2])], NoM, Zero, "ops") >>
            \o (IF \A i \in 1 .. n : RLt(I(b[i][1]), x[i]) /\ RLt(x[i], I(b[i][2]))
                THEN << Ck("Prob", <<>>, x, NoV, NoV, NoM, RInv(Vol(b)), "special") >>
                ELSE IF ~IsIn(x) THEN << Ck("Prob", <<>>, x, NoV, NoV, NoM, Zero, "exact"), Ck("LogProbNInf", <<>>, x, NoV, NoV, NoM, Zero, "exact") >>
                ELSE <<>>))
       \o Checks({Zero, R(1, 4), Half, R(7, 8), One}, LAMBDA q :
            << Ck("Quantile", <<>>, [i \in 1 .. n |-> q], NoV, [i \in 1 .. n |-> RAdd(I(b[i][1]), RMul(q, I(b[i][2] - b[i][1])))], NoM, Zero, "ops") >>)
       \o << Ck("QuantilePanics", <<>>, [i \in 1 .. n |-> IF i = n THEN R(9, 8) ELSE Half], NoV, NoV, NoM, Zero, "exact"),
             Ck("QuantilePanics", <<>>, [i \in 1 .. n |-> IF i = 1 THEN R(0 - 1, 8) ELSE Half], NoV, NoV, NoM, Zero, "exact") >>

\* Dirichlet with integer alpha
Alphas == { <<1, 1>>, <<2, 3>>, <<1, 1, 1>>, <<2, 1, 4>>, <<3, 3, 2>>, <<1, 2, 3, 4>>, <<5, 1, 1, 2>>, <<(Salt % 4) + 1, 2, (Salt % 3) + 1>> }
SimplexPts(n) == IF n = 2 THEN { <<R(1, 4), R(3, 4)>>, <<Half, Half>>, <<R(2, 3), R(1, 3)>> }
                 ELSE IF n = 3 THEN { <<R(1, 4), R(1, 4), Half>>, <<R(1, 3), R(1, 3), R(1, 3)>>, <<R(1, 2), R(1, 8), R(3, 8)>> }
                 ELSE { <<R(1, 4), R(1, 4), R(1, 4), R(1, 4)>>, <<R(1, 2), R(1, 8), R(1, 8), R(1, 4)>>, <<R(1, 10), R(2, 10), R(3, 10), R(4, 10)>> }
DirMean(al) == LET a0 == ISum(al) IN [i \in DOMAIN al |-> R(al[i], a0)]
DirCov(al) == LET a0 == ISum(al) IN
              [i \in DOMAIN al |-> [j \in DOMAIN al |-> IF i = j THEN R(al[i] * (a0 - al[i]), a0 * a0 * (a0 + 1))
                                                         ELSE R(0 - (al[i] * al[j]), a0 * a0 * (a0 + 1))]]
\* density: Gamma(a0) / Prod Gamma(a_i) * Prod x_i^(a_i - 1)  =  (a0-1)! / Prod (a_i-1)! * monomial
RECURSIVE ProdFact(_, _)
ProdFact(al, k) == IF k = 0 THEN 1 ELSE Fact(al[k] - 1) * ProdFact(al, k - 1)
DirCoef(al) == RDiv(I(Fact(ISum(al) - 1)), I(ProdFact(al, Len(al))))
DirPdf(al, x) == RMul(DirCoef(al), RProd([i \in DOMAIN al |-> RPow(x[i], al[i] - 1)]))
DirichletThm(al) ==
    /\ RSum(DirMean(al)) = One
    /\ \A i \in DOMAIN al : RSum(DirCov(al)[i]) = Zero
    /\ (\A i \in DOMAIN al : al[i] = 1) => \A x \in SimplexPts(Len(al)) : DirPdf(al, x) = I(Fact(Len(al) - 1))
    /\ \A x \in SimplexPts(Len(al)) : RSum(x) = One
DirichletChecks(al) ==
    LET n == Len(al) IN
    << Ck("Mean", <<>>, NoV, NoV, DirMean(al), NoM, Zero, "ops"), Ck("Cov", <<>>, NoV, NoV, NoV, DirCov(al), Zero, "ops") >>
    \o Checks(SimplexPts(n), LAMBDA x : << Ck("Prob", <<>>, x, NoV, NoV, NoM, DirPdf(al, x), "special"),
                                           Ck("ExpLogProb", <<>>, x, NoV, NoV, NoM, DirPdf(al, x), "special") >>)
    \o << Ck("NewPanics", <<>>, [i \in 1 .. n |-> IF i = n THEN Zero ELSE I(al[i])], NoV, NoV, NoM, Zero, "exact"),
          Ck("NewPanics", <<>>, [i \in 1 .. n |-> IF i = 1 THEN R(0 - 1, 2) ELSE I(al[i])], NoV, NoV, NoM, Zero, "exact") >>

(****************************** the case space *******************************)
Pars == CASE Kind = "normal" -> Ls [] Kind = "studentst" -> Ls [] Kind = "uniform" -> Boxes [] Kind = "dirichlet" -> Alphas
Thm(p) == CASE Kind = "normal" -> NormalThm(p) [] Kind = "studentst" -> NormalThm(p) [] Kind = "dirichlet" -> DirichletThm(p) [] OTHER -> TRUE
Case(p) == CASE Kind = "normal" -> [kind |-> Kind, mu |-> MuOf(p), sigma |-> [i \in DOMAIN p |-> [j \in DOMAIN p |-> SigmaOf(p)[i][j][1]]], nu |-> 0, box |-> <<>>,
                                    checks |-> NormalChecks(p)]
          [] Kind = "studentst" -> [kind |-> Kind, mu |-> MuOf(p), sigma |-> [i \in DOMAIN p |-> [j \in DOMAIN p |-> SigmaOf(p)[i][j][1]]], nu |-> NuOf(p), box |-> <<>>,
                                    checks |-> TChecks(p)]
          [] Kind = "uniform" -> [kind |-> Kind, mu |-> <<>>, sigma |-> <<>>, nu |-> 0, box |-> p, checks |-> UniformChecks(p)]
          [] Kind = "dirichlet" -> [kind |-> Kind, mu |-> p, sigma |-> <<>>, nu |-> 0, box |-> <<>>, checks |-> DirichletChecks(p)]

Init == par \in Pars
Next == UNCHANGED par
Spec == Init /\ [][Next]_vars
Theorems == Thm(par)
EmitCase == Emit => PrintT(ToJson(Case(par)))
=============================================================================
