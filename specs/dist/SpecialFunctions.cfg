SPECIFICATION Spec
CONSTANTS
  Families = {@LAWS@}
  Tier = @TIER@
  Salt = @SALT@
  Emit = @EMIT@
INVARIANTS Theorems EmitCase
CHECK_DEADLOCK FALSE
