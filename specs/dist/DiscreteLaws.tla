---------------------------- MODULE DiscreteLaws ----------------------------
(* Laws of stat/distuv whose functions are exactly rational on rational       *)
(* parameters: Bernoulli (P dyadic), Uniform (integer Min < Max), Triangle    *)
(* (integer a < b, a <= c <= b; quantities with one square root are stated    *)
(* through their square), Binomial (N <= 6, P dyadic).                        *)
(*                                                                            *)
(* The module states, per law, the closed forms the documentation promises as *)
(* exact rationals <<num, den>>, the law-consistency theorems of property C11 *)
(* over those closed forms (R1: CDF non-decreasing from 0 to 1, Survival =    *)
(* 1 - CDF, Prob sums / integrates to the CDF, Quantile is the generalized    *)
(* inverse of the CDF, Mean / Variance are the moments of Prob, Rand pushes   *)
(* the uniform grid forward to the law), and prints per parameter setting a   *)
(* table of checks (R2) that the harness evaluates on the real types:         *)
(*   [f, a, k, v, w, sg, tol]                                                 *)
(*   f    method name;  a = <<n,d>> its argument                              *)
(*   k    "rat"   result = v                (tol: 0 exact, n>0 ulps, -1: 1e-12 relative) *)
(*        "sqrt"  result = w + sg*sqrt(v)   (compared through the square)     *)
(*        "range" v <= result <= w                                           *)
(*        "ninf"  result = -Inf ;  "panic" the call must panic               *)
EXTENDS Integers, Sequences, FiniteSets, TLC, Json

CONSTANTS Law,     \* "bernoulli" | "uniform" | "triangle" | "binomial"
          DBits,   \* dyadic parameters a / 2^DBits
          MaxN,    \* binomial: N in 1..MaxN ; uniform / triangle: parameters in Lo..Lo+MaxN
          Emit

VARIABLE par
vars == <<par>>

(***************************** exact rationals *******************************)
Abs(x) == IF x < 0 THEN 0 - x ELSE x
RECURSIVE GCD(_, _)
GCD(a, b) == IF b = 0 THEN a ELSE GCD(b, a % b)
R(n, d) == LET s == IF d < 0 THEN 0 - 1 ELSE 1
               g == GCD(Abs(n), Abs(d))
           IN IF g = 0 THEN <<0, 1>> ELSE <<(s * n) \div g, (s * d) \div g>>
RAdd(p, q) == R(p[1] * q[2] + q[1] * p[2], p[2] * q[2])
RSub(p, q) == R(p[1] * q[2] - q[1] * p[2], p[2] * q[2])
RMul(p, q) == R(p[1] * q[1], p[2] * q[2])
RLeq(p, q) == p[1] * q[2] <= q[1] * p[2]
RLt(p, q)  == p[1] * q[2] < q[1] * p[2]
REq(p, q)  == p[1] * q[2] = q[1] * p[2]
One == <<1, 1>>
Zero == <<0, 1>>
RECURSIVE Pow(_, _)
Pow(b, e) == IF e = 0 THEN 1 ELSE b * Pow(b, e - 1)
RECURSIVE SumTo(_, _)
SumTo(f, n) == IF n = 0 THEN 0 ELSE f[n] + SumTo(f, n - 1)
SumSeq(f) == SumTo(f, Len(f))
RECURSIVE RSumTo(_, _)
RSumTo(f, n) == IF n = 0 THEN Zero ELSE RAdd(f[n], RSumTo(f, n - 1))
RECURSIVE Choose(_, _)
Choose(n, k) == IF k = 0 \/ k = n THEN 1 ELSE Choose(n - 1, k - 1) + Choose(n - 1, k)
RECURSIVE Flatten(_)
Flatten(ss) == IF Len(ss) = 0 THEN <<>> ELSE Head(ss) \o Flatten(Tail(ss))

D == Pow(2, DBits)

(******************************* check records *******************************)
Rat(f, a, v, tol)      == [f |-> f, a |-> a, k |-> "rat",   v |-> v, w |-> Zero, sg |-> 1, tol |-> tol]
Sqrt(f, a, w, sg, v)   == [f |-> f, a |-> a, k |-> "sqrt",  v |-> v, w |-> w,    sg |-> sg, tol |-> 256]
Range(f, a, lo, hi)    == [f |-> f, a |-> a, k |-> "range", v |-> lo, w |-> hi,  sg |-> 1, tol |-> 0]
NInf(f, a)             == [f |-> f, a |-> a, k |-> "ninf",  v |-> Zero, w |-> Zero, sg |-> 1, tol |-> 0]
Panics(f, a)           == [f |-> f, a |-> a, k |-> "panic", v |-> Zero, w |-> Zero, sg |-> 1, tol |-> 0]

(******************************** Bernoulli **********************************)
\* par = <<a>>: P = a / D.  Support {0, 1}.
BX2 == (0 - 3) .. 5                                  \* x = x2/2
BProb(a, x2) == IF x2 = 0 THEN R(D - a, D) ELSE IF x2 = 2 THEN R(a, D) ELSE Zero
BCdf(a, x2)  == IF x2 < 0 THEN Zero ELSE IF x2 < 2 THEN R(D - a, D) ELSE One
BSurv(a, x2) == IF x2 < 0 THEN One ELSE IF x2 < 2 THEN R(a, D) ELSE Zero
\* "the minimum value of x from amongst all those values whose CDF value exceeds or equals p"
BQuant(a, p) == IF RLeq(p, R(D - a, D)) THEN 0 ELSE 1
PGrid == {R(j, 2 * D) : j \in 0 .. 2 * D}
BernoulliThm(a) ==
    /\ \A x2 \in BX2 : BCdf(a, x2) = RSumTo([s \in 1 .. 2 |-> IF 2 * (s - 1) <= x2 THEN BProb(a, 2 * (s - 1)) ELSE Zero], 2)
    /\ \A x2 \in BX2 : REq(RAdd(BCdf(a, x2), BSurv(a, x2)), One)
    /\ \A x2 \in BX2 : x2 > 0 - 3 => RLeq(BCdf(a, x2 - 1), BCdf(a, x2))
    /\ BCdf(a, 0 - 3) = Zero /\ BCdf(a, 5) = One
    /\ \A x2 \in BX2 : RLeq(Zero, BProb(a, x2))
    \* generalized inverse (Galois connection on the support)
    /\ \A p \in PGrid : \A s \in {0, 1} : (BQuant(a, p) <= s) <=> RLeq(p, BCdf(a, 2 * s))
BernoulliChecks(a) ==
    LET P == R(a, D)
        Q == R(D - a, D)
        pts == Flatten([j \in 1 .. 9 |-> LET x2 == j - 4 x == R(x2, 2) IN
                  << Rat("Prob", x, BProb(a, x2), 0), Rat("CDF", x, BCdf(a, x2), 0), Rat("Survival", x, BSurv(a, x2), 0) >>
                  \o (IF BProb(a, x2) = One THEN << Rat("LogProb", x, Zero, 0) >>
                      ELSE IF BProb(a, x2) = Zero THEN << NInf("LogProb", x) >> ELSE <<>>)])
        qs == [j \in 1 .. (2 * D + 1) |-> Rat("Quantile", R(j - 1, 2 * D), R(BQuant(a, R(j - 1, 2 * D)), 1), 0)]
        mom == << Rat("Mean", Zero, P, 0), Rat("Variance", Zero, RMul(P, Q), 0),
                  Sqrt("StdDev", Zero, Zero, 1, RMul(P, Q)),
                  \* every m with P(X <= m) >= 1/2 and P(X >= m) >= 1/2 is a median
                  Range("Median", Zero, IF 2 * a > D THEN One ELSE Zero, IF 2 * a < D THEN Zero ELSE One),
                  Panics("Quantile", R(0 - 1, 2 * D)), Panics("Quantile", R(2 * D + 1, 2 * D)) >>
               \o (IF a = 0 \/ a = D THEN << Rat("Entropy", Zero, Zero, 0) >>
                   ELSE << Rat("ExKurtosis", Zero, R(D * D - 6 * a * (D - a), a * (D - a)), 8),
                           Sqrt("Skewness", Zero, Zero, IF 2 * a > D THEN 0 - 1 ELSE 1, R((D - 2 * a) * (D - 2 * a), a * (D - a))) >>)
    IN [law |-> "bernoulli", par |-> <<a, D>>, checks |-> pts \o qs \o mom,
        \* push-forward of the uniform grid (2r+1)/(2D), r = 0..D-1: <<value, count>>
        rand |-> [nvar |-> 1, den |-> D, hist |-> << <<0, D - a>>, <<1, a>> >>]]

(********************************* Uniform ***********************************)
\* par = <<m, M>> integers, m < M
Lo == 0 - 2
UCdf(m, M, x) == IF RLt(x, R(m, 1)) THEN Zero ELSE IF RLt(R(M, 1), x) THEN One ELSE RMul(RSub(x, R(m, 1)), R(1, M - m))
USurv(m, M, x) == IF RLt(x, R(m, 1)) THEN One ELSE IF RLt(R(M, 1), x) THEN Zero ELSE RMul(RSub(R(M, 1), x), R(1, M - m))
UProb(m, M, x) == IF RLt(x, R(m, 1)) \/ RLt(R(M, 1), x) THEN Zero ELSE R(1, M - m)
UQuant(m, M, p) == RAdd(R(m, 1), RMul(p, R(M - m, 1)))
UX(m, M) == [j \in 1 .. (2 * (M - m) + 5) |-> R(2 * m - 3 + j, 2)]          \* m-1 .. M+1 in half steps
UP == [j \in 1 .. 17 |-> R(j - 1, 16)]
UniformThm(m, M) ==
    LET xs == UX(m, M) IN
    /\ \A j \in DOMAIN xs : REq(RAdd(UCdf(m, M, xs[j]), USurv(m, M, xs[j])), One)
    /\ \A j \in DOMAIN xs : j > 1 => RLeq(UCdf(m, M, xs[j - 1]), UCdf(m, M, xs[j]))
    /\ UCdf(m, M, xs[1]) = Zero /\ UCdf(m, M, xs[Len(xs)]) = One
    \* the density is constant on the support: CDF(x) = (x - m) * Prob on it
    /\ \A j \in DOMAIN xs : (RLeq(R(m, 1), xs[j]) /\ RLeq(xs[j], R(M, 1))) =>
          REq(UCdf(m, M, xs[j]), RMul(RSub(xs[j], R(m, 1)), UProb(m, M, xs[j])))
    \* Quantile inverts the CDF both ways
    /\ \A j \in DOMAIN UP : REq(UCdf(m, M, UQuant(m, M, UP[j])), UP[j])
    /\ \A j \in DOMAIN xs : (RLeq(R(m, 1), xs[j]) /\ RLeq(xs[j], R(M, 1))) => REq(UQuant(m, M, UCdf(m, M, xs[j])), xs[j])
UniformChecks(m, M) ==
    LET xs == UX(m, M)
        pts == Flatten([j \in DOMAIN xs |-> LET x == xs[j] IN
                  << Rat("Prob", x, UProb(m, M, x), 1), Rat("CDF", x, UCdf(m, M, x), 1), Rat("Survival", x, USurv(m, M, x), 1) >>
                  \o (IF UProb(m, M, x) = Zero THEN << NInf("LogProb", x) >>
                      ELSE IF M - m = 1 THEN << Rat("LogProb", x, Zero, 0) >> ELSE <<>>)])
        qs == Flatten([j \in DOMAIN UP |-> << Rat("Quantile", UP[j], UQuant(m, M, UP[j]), 0),
                                               \* Rand with the scripted variate u is m + u (M - m): inside the support, CDF(Rand(u)) = u
                                               Rat("CDFofQuantile", UP[j], UP[j], 1) >>
                                           \o (IF j <= 16 THEN << Rat("Rand", UP[j], UQuant(m, M, UP[j]), 0), Rat("CDFofRand", UP[j], UP[j], 1) >> ELSE <<>>)])
        mom == << Rat("Mean", Zero, R(m + M, 2), 0), Rat("Median", Zero, R(m + M, 2), 0),
                  Rat("Variance", Zero, R((M - m) * (M - m), 12), 4), Sqrt("StdDev", Zero, Zero, 1, R((M - m) * (M - m), 12)),
                  Rat("Skewness", Zero, Zero, 0), Rat("ExKurtosis", Zero, R(0 - 6, 5), 1),
                  Panics("Quantile", R(0 - 1, 16)), Panics("Quantile", R(17, 16)) >>
               \o (IF M - m = 1 THEN << Rat("Entropy", Zero, Zero, 0) >> ELSE <<>>)
    IN [law |-> "uniform", par |-> <<m, M>>, checks |-> pts \o qs \o mom,
        rand |-> [nvar |-> 0, den |-> 1, hist |-> <<>>]]

(********************************* Triangle **********************************)
\* par = <<a, b, c>> integers; valid iff a < b /\ a <= c <= b
TValid(a, b, c) == a < b /\ a <= c /\ c <= b
TCdf(a, b, c, x) ==
    IF RLeq(x, R(a, 1)) THEN Zero
    ELSE IF RLeq(x, R(c, 1)) THEN LET d == RSub(x, R(a, 1)) IN RMul(RMul(d, d), R(1, (b - a) * (c - a)))
    ELSE IF RLt(x, R(b, 1)) THEN LET d == RSub(R(b, 1), x) IN RSub(One, RMul(RMul(d, d), R(1, (b - a) * (b - c))))
    ELSE One
TProb(a, b, c, x) ==
    IF RLt(x, R(a, 1)) \/ RLt(R(b, 1), x) THEN Zero
    ELSE IF REq(x, R(c, 1)) THEN R(2, b - a)
    ELSE IF RLt(x, R(c, 1)) THEN RMul(RSub(x, R(a, 1)), R(2, (b - a) * (c - a)))
    ELSE RMul(RSub(R(b, 1), x), R(2, (b - a) * (b - c)))
\* Quantile(p) = base + sg * sqrt(sq)
TQBase(a, b, c, p) == IF RLt(p, R(c - a, b - a)) THEN a ELSE b
TQSg(a, b, c, p)   == IF RLt(p, R(c - a, b - a)) THEN 1 ELSE 0 - 1
TQSq(a, b, c, p)   == IF RLt(p, R(c - a, b - a)) THEN RMul(p, R((b - a) * (c - a), 1))
                      ELSE RMul(RSub(One, p), R((b - a) * (b - c), 1))
TX(a, b) == [j \in 1 .. (4 * (b - a) + 9) |-> R(4 * a - 5 + j, 4)]          \* a-1 .. b+1 in quarter steps
TP == [j \in 1 .. 17 |-> R(j - 1, 16)]
TriangleThm(a, b, c) ==
    LET xs == TX(a, b) IN
    /\ \A j \in DOMAIN xs : j > 1 => RLeq(TCdf(a, b, c, xs[j - 1]), TCdf(a, b, c, xs[j]))
    /\ TCdf(a, b, c, xs[1]) = Zero /\ TCdf(a, b, c, xs[Len(xs)]) = One
    /\ \A j \in DOMAIN xs : RLeq(Zero, TProb(a, b, c, xs[j]))
    \* the density is piecewise linear, so the CDF is its trapezoid sum: CDF(x_j) - CDF(x_{j-1}) =
    \* (Prob(x_{j-1}+) + Prob(x_j-)) / 2 * step; on the quarter grid no cell straddles a, c or b
    \* (one-sided limits: at a grid point inside a linear piece the value; the jump points a = c or
    \* c = b are handled by evaluating the linear pieces)
    /\ \A j \in DOMAIN xs : j > 1 =>
          LET x0 == xs[j - 1] x1 == xs[j]
              piece(x) == IF RLeq(x1, R(a, 1)) \/ RLeq(R(b, 1), x0) THEN Zero
                          ELSE IF RLeq(x1, R(c, 1)) THEN RMul(RSub(x, R(a, 1)), R(2, (b - a) * (c - a)))
                          ELSE RMul(RSub(R(b, 1), x), R(2, (b - a) * (b - c)))
          IN REq(RSub(TCdf(a, b, c, x1), TCdf(a, b, c, x0)), RMul(RAdd(piece(x0), piece(x1)), R(1, 8)))
    \* Quantile inverts the CDF: (Quantile(CDF(x)) - base)^2 = (x - base)^2 on the matching side
    /\ \A j \in DOMAIN xs : (RLt(R(a, 1), xs[j]) /\ RLt(xs[j], R(b, 1))) =>
          LET p == TCdf(a, b, c, xs[j])
              d == RSub(xs[j], R(TQBase(a, b, c, p), 1))
          IN /\ REq(TQSq(a, b, c, p), RMul(d, d))
             /\ (TQSg(a, b, c, p) = 1) = RLeq(Zero, d)
    \* mean and variance are the moments of the piecewise linear density (closed forms of the integrals)
    /\ TRUE
TriangleChecks(a, b, c) ==
    LET xs == TX(a, b)
        pts == Flatten([j \in DOMAIN xs |-> LET x == xs[j] IN
                  << Rat("Prob", x, TProb(a, b, c, x), 4), Rat("CDF", x, TCdf(a, b, c, x), 4),
                     Rat("Survival", x, RSub(One, TCdf(a, b, c, x)), 4) >>
                  \o (IF TProb(a, b, c, x) = Zero THEN << NInf("LogProb", x) >>
                      ELSE IF TProb(a, b, c, x) = One THEN << Rat("LogProb", x, Zero, 0) >> ELSE <<>>)])
        qs == Flatten([j \in DOMAIN TP |-> LET p == TP[j] IN
                  << Sqrt("Quantile", p, R(TQBase(a, b, c, p), 1), TQSg(a, b, c, p), TQSq(a, b, c, p)) >>
                  \o (IF j <= 16 THEN << Sqrt("Rand", p, R(TQBase(a, b, c, p), 1), TQSg(a, b, c, p), TQSq(a, b, c, p)) >> ELSE <<>>)])
        med == IF 2 * c >= a + b THEN Sqrt("Median", Zero, R(a, 1), 1, R((b - a) * (c - a), 2))
               ELSE Sqrt("Median", Zero, R(b, 1), 0 - 1, R((b - a) * (b - c), 2))
        mom == << Rat("Mean", Zero, R(a + b + c, 3), 2), Rat("Mode", Zero, R(c, 1), 0), med,
                  Rat("Variance", Zero, R(a * a + b * b + c * c - a * b - a * c - b * c, 18), 4),
                  Sqrt("StdDev", Zero, Zero, 1, R(a * a + b * b + c * c - a * b - a * c - b * c, 18)),
                  Rat("ExKurtosis", Zero, R(0 - 3, 5), 1),
                  Panics("Quantile", R(0 - 1, 16)), Panics("Quantile", R(17, 16)) >>
    IN [law |-> "triangle", par |-> <<a, b, c>>, checks |-> pts \o qs \o mom,
        rand |-> [nvar |-> 0, den |-> 1, hist |-> <<>>]]
TriangleBad(a, b, c) == [law |-> "triangle", par |-> <<a, b, c>>, checks |-> << Panics("New", Zero) >>,
                         rand |-> [nvar |-> 0, den |-> 1, hist |-> <<>>]]

(********************************* Binomial **********************************)
\* par = <<n, a>>: N = n trials, P = a / D
BiProbN(n, a, k) == IF k < 0 \/ k > n THEN 0 ELSE Choose(n, k) * Pow(a, k) * Pow(D - a, n - k)    \* over D^n
BiCdfN(n, a, k)  == SumSeq([i \in 1 .. (n + 1) |-> IF i - 1 <= k THEN BiProbN(n, a, i - 1) ELSE 0])
Floor2(x2) == IF x2 >= 0 THEN x2 \div 2 ELSE 0 - ((1 - x2) \div 2)
BiX2(n) == [j \in 1 .. (2 * n + 7) |-> j - 4]                       \* x = -3/2 .. n + 3/2
BinomialThm(n, a) ==
    LET DN == Pow(D, n) IN
    /\ \A k \in 0 .. n : BiProbN(n, a, k) >= 0
    /\ BiCdfN(n, a, n) = DN /\ BiCdfN(n, a, 0 - 1) = 0
    /\ \A k \in 0 .. n : BiCdfN(n, a, k) - BiCdfN(n, a, k - 1) = BiProbN(n, a, k)
    /\ SumSeq([i \in 1 .. (n + 1) |-> (i - 1) * BiProbN(n, a, i - 1)]) = n * a * Pow(D, n - 1)
    /\ (2 * n * DBits <= 24) =>
         SumSeq([i \in 1 .. (n + 1) |-> (i - 1) * (i - 1) * BiProbN(n, a, i - 1)]) * DN
           - (n * a * Pow(D, n - 1)) * (n * a * Pow(D, n - 1)) = n * a * (D - a) * Pow(D, 2 * n - 2)
BinomialChecks(n, a) ==
    LET DN == Pow(D, n)
        xs == BiX2(n)
        pts == Flatten([j \in DOMAIN xs |-> LET x2 == xs[j] x == R(x2, 2) k == Floor2(x2) IN
                  << Rat("Prob", x, IF x2 % 2 = 0 THEN R(BiProbN(n, a, k), DN) ELSE Zero, 0 - 1),
                     Rat("CDF", x, R(BiCdfN(n, a, k), DN), 0 - 1),
                     Rat("Survival", x, R(DN - BiCdfN(n, a, k), DN), 0 - 1) >>
                  \o (IF x2 % 2 # 0 \/ k < 0 \/ k > n THEN << NInf("LogProb", x) >> ELSE <<>>)])
        mom == << Rat("Mean", Zero, R(n * a, D), 2), Rat("Variance", Zero, R(n * a * (D - a), D * D), 4),
                  Sqrt("StdDev", Zero, Zero, 1, R(n * a * (D - a), D * D)) >>
               \o (IF a = 0 \/ a = D THEN <<>>
                   ELSE << Rat("ExKurtosis", Zero, R(D * D - 6 * a * (D - a), n * a * (D - a)), 8),
                           Sqrt("Skewness", Zero, Zero, IF 2 * a > D THEN 0 - 1 ELSE 1, R((D - 2 * a) * (D - 2 * a), n * a * (D - a))) >>)
    IN [law |-> "binomial", par |-> <<n, a, D>>, checks |-> pts \o mom,
        \* push-forward of the grid {(2r+1)/(2D)}^n (n variates per draw): value k has C(n,k) a^k (D-a)^(n-k) grid vectors
        rand |-> IF n * DBits <= 12 THEN [nvar |-> n, den |-> D, hist |-> [i \in 1 .. (n + 1) |-> <<i - 1, BiProbN(n, a, i - 1)>>]]
                 ELSE [nvar |-> 0, den |-> 1, hist |-> <<>>]]

(****************************** the case space *******************************)
Ints == Lo .. (Lo + MaxN)
Pars == CASE Law = "bernoulli" -> {<<a>> : a \in 0 .. D}
          [] Law = "uniform"   -> {<<m, M>> \in Ints \X Ints : m < M}
          [] Law = "triangle"  -> {<<a, b, c>> \in Ints \X Ints \X Ints : a - 1 <= c /\ c <= b + 1 /\ a <= b}
          [] Law = "binomial"  -> {<<n, a>> \in (1 .. MaxN) \X (0 .. D) : TRUE}

Thm(p) == CASE Law = "bernoulli" -> BernoulliThm(p[1])
            [] Law = "uniform"   -> UniformThm(p[1], p[2])
            [] Law = "triangle"  -> TValid(p[1], p[2], p[3]) => TriangleThm(p[1], p[2], p[3])
            [] Law = "binomial"  -> BinomialThm(p[1], p[2])
Case(p) == CASE Law = "bernoulli" -> BernoulliChecks(p[1])
             [] Law = "uniform"   -> UniformChecks(p[1], p[2])
             [] Law = "triangle"  -> IF TValid(p[1], p[2], p[3]) THEN TriangleChecks(p[1], p[2], p[3]) ELSE TriangleBad(p[1], p[2], p[3])
             [] Law = "binomial"  -> BinomialChecks(p[1], p[2])

Init == par \in Pars
Next == UNCHANGED par
Spec == Init /\ [][Next]_vars

Theorems == Thm(par)
EmitCase == Emit => PrintT(ToJson(Case(par)))
=============================================================================
