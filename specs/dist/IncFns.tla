------------------------------- MODULE IncFns -------------------------------
(* The finite forms of the incomplete beta and gamma functions that make the   *)
(* CDFs of Beta / F / Student's t / Binomial-type laws and of the Erlang /     *)
(* Poisson family exact rationals (shared by RationalLaws and SpecialFunctions) *)
(*                                                                            *)
(*   I_x(a, n) = x^a Sum_{k<n} (a)_k / k! (1-x)^k          integer n >= 1      *)
(*   I_x(a, b) = Sum_{j=a}^{a+b-1} C(a+b-1, j) x^j (1-x)^(a+b-1-j)  integers   *)
(*   Q(n, y)   = exp(-y) Sum_{k<n} y^k / k!                  integer n >= 1      *)
EXTENDS RatLib

(******************** the regularized incomplete beta function ***************)
\* integer a, b >= 1, x = p/q: binomial tail  Sum_{j=a}^{n} C(n,j) x^j (1-x)^(n-j),  n = a+b-1
IBint(a, b, x) ==
    LET n == a + b - 1
        p == x[1]
        q == x[2]
    IN R(ISum([j \in 1 .. b |-> Choose(n, a + j - 1) * Pow(p, a + j - 1) * Pow(q - p, n - (a + j - 1))]), Pow(q, n))
\* rational a > 0 with xa = x^a given, integer n >= 1:  x^a Sum_{k<n} (a)_k/k! (1-x)^k
IBn(a, n, x, xa) ==
    RMul(xa, RSum([k \in 1 .. n |-> RMul(RDiv(Rising(a, k - 1), I(Fact(k - 1))), RPow(RSub(One, x), k - 1))]))
\* term-by-term integral of the polynomial density K t^(a-1) (1-t)^(b-1) from 0 to x (integer a, b)
\* K = 1/B(a,b) = (a+b-1)! / ((a-1)! (b-1)!) = (a+b-1) C(a+b-2, a-1)   (no factorial is formed: they overflow early)
BetaK(a, b) == I((a + b - 1) * Choose(a + b - 2, a - 1))
IBpoly(a, b, x) ==
    RMul(BetaK(a, b), RSum([i \in 1 .. b |-> RMul(R(Choose(b - 1, i - 1) * (IF (i - 1) % 2 = 0 THEN 1 ELSE 0 - 1), a + i - 1), RPow(x, a + i - 1))]))
\* half-integer or integer powers of a rational: r^(k/2)
HalfPowOK(r, k) == k % 2 = 0 \/ RIsSquare(r)
HalfPow(r, k) == IF k % 2 = 0 THEN RPow(r, k \div 2) ELSE RPow(RSqrt(r), k)
\* magnitude bounds: IBint works over the denominator q^(a+b-1); IBn(a2/2, n, x, .) sums terms over the
\* denominator (4q)^(n-1) (q^(n-1) for integer a) whose partial sums are at most x^(-a) <= q^ceil(a)
IBintFits(a, b, q) == SatPow(q, a + b - 1) < Cap
IBnFits(a2, n, q) == SatMul(SatPow(IF a2 % 2 = 0 THEN q ELSE 4 * q, n - 1), SatPow(q, (a2 + 1) \div 2)) < Cap
\* I_x(a2/2, b2/2) where at least one of a2, b2 is even; defined at x when the needed power is rational
BetaPath(a2, b2, x) ==
    IF a2 % 2 = 0 /\ b2 % 2 = 0 /\ IBintFits(a2 \div 2, b2 \div 2, x[2]) THEN 1
    ELSE IF b2 % 2 = 0 /\ HalfPowOK(x, a2) /\ IBnFits(a2, b2 \div 2, x[2]) THEN 2
    ELSE IF a2 % 2 = 0 /\ HalfPowOK(RSub(One, x), b2) /\ IBnFits(b2, a2 \div 2, x[2]) THEN 3
    ELSE 0
BetaRegOK(a2, b2, x) == BetaPath(a2, b2, x) # 0
BetaReg(a2, b2, x) ==
    CASE BetaPath(a2, b2, x) = 1 -> IBint(a2 \div 2, b2 \div 2, x)
      [] BetaPath(a2, b2, x) = 2 -> IBn(R(a2, 2), b2 \div 2, x, HalfPow(x, a2))
      [] BetaPath(a2, b2, x) = 3 -> RSub(One, IBn(R(b2, 2), a2 \div 2, RSub(One, x), HalfPow(RSub(One, x), b2)))
\* the density of Beta(a2/2, b2/2) relative to its value structure: x^(a-1) (1-x)^(b-1) / B(a,b) for integer a, b
BetaPdf(a, b, x) == RMul(BetaK(a, b), RMul(RPow(x, a - 1), RPow(RSub(One, x), b - 1)))
\* raw moment E[X^k] of Beta(a, b), rational a, b: (a)_k / (a+b)_k
BetaRaw(a, b, k) == RDiv(Rising(a, k), Rising(RAdd(a, b), k))

\* Sum_{k<n} y^k / k!  (Erlang tail: Q(n, y) = exp(-y) * ErlangSum(n, y))
ErlangSum(n, y) == RSum([k \in 1 .. n |-> RDiv(RPow(y, k - 1), I(Fact(k - 1)))])
=============================================================================
